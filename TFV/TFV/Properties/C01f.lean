/-
Property C01, the closure statement for the WHOLE public numeric API.

  "… The invariant is preserved along arbitrary chains of operations, so a value obtained from any expression over
   valid inputs can be fed to any other operation."

`C01.eval_inv` proved this for an expression language with `+ − ×`, the sign / rounding functions, conversions and
constants.  Since then `C01m` / `C01e` (with `Lemmas/InvMath`, `Lemmas/DivAll`, `Lemmas/PanicFree`) proved
`PF.Good (f x)` from `PF.Good x` (`PF.Good t := t.Inv ∧ t.WF`) for the divisions of every form and magnitude, `%`,
`div_euclid`, `rem_euclid`, `recip`, `powi` and every mathematical function.  This file puts everything together:

§1  operands: `f64` operands (`FArg`: a literal or an input), integer literals of all ten fixed-width types (`IntLit`),
    the exponents of the `Pow` impls (`PowExp`);
§2  the operation tags `Un` (35 unary methods), `Bin` (15 `TwoFloat ∘ TwoFloat`), `BinF` (6 `TwoFloat ∘ f64`),
    `FBin` (5 `f64 ∘ TwoFloat`) with their interpretation by the GENERATED model functions and one `Good` lemma each;
§3  the expression language `Expr`, `Expr.eval`, the side condition `Expr.Ok` on the literals (decidable);
§4  `eval_good_all` (structural induction) and the corollaries `eval_inv_all`, `eval_wf_all`, `eval_never_bad_all`,
    `eval_not_bad_all`, `eval_good_of_valid`;
§5  `Sum` (`iter.sum()` over `TwoFloat`s / over doubles) as derived expressions;
§6  non-vacuity: concrete expressions evaluated by the kernel through the model, node by node (`chainA_eval`,
    `chainB_eval`); markers, NaN / inf `f64` operands, `Sum`, feeding one chain into another.

What `Expr` does NOT contain (see the final remarks at the end of the file): the raw constructors `new_add`, `new_sub`,
`new_mul`, `new_div` (the first three BREAK the invariant, `C01.new_add_breaks_inv`, `C01.new_sub_breaks_inv`,
`C01.new_mul_breaks_inv`; `new_div` is only proved on a range), and the methods that do not return a `TwoFloat`.
-/
import TFV.Properties.C01e
import TFV.Properties.C09

set_option exponentiation.threshold 4500
set_option maxRecDepth 100000

namespace C01f

open F64 TwoFloat
open PF (Good)

/-! ## §1 operands -/

/-- inputs of an expression: `TwoFloat` inputs and `f64` inputs -/
structure Env where
  tf : Nat → TwoFloat
  f : Nat → F64

/-- every `TwoFloat` input is well formed and satisfies the invariant (in particular: every VALID input, and also the
markers `NAN`, `±INFINITY`, …); every `f64` input is the bit pattern of a double (any: zero, subnormal, huge, `±inf`,
`NaN`) -/
def Env.Good (env : Env) : Prop := (∀ i, PF.Good (env.tf i)) ∧ (∀ i, (env.f i).WF)

/-- the stronger reading of the property: all `TwoFloat` inputs are valid -/
def Env.Valid (env : Env) : Prop := (∀ i, (env.tf i).Valid ∧ (env.tf i).WF) ∧ (∀ i, (env.f i).WF)

theorem Env.Valid.good {env : Env} (h : env.Valid) : env.Good :=
  ⟨fun i => ⟨Or.inl (h.1 i).1, (h.1 i).2⟩, h.2⟩

/-- an `f64` operand: a literal double or the `i`-th `f64` input -/
inductive FArg where
  | lit (c : F64)
  | var (i : Nat)
deriving DecidableEq, Repr

def FArg.val (env : Env) : FArg → F64
  | .lit c => c
  | .var i => env.f i

def FArg.Ok : FArg → Prop
  | .lit c => c.WF
  | .var _ => True

instance (a : FArg) : Decidable a.Ok := by
  cases a <;> unfold FArg.Ok <;> infer_instance

theorem FArg.wf {env : Env} (henv : env.Good) {a : FArg} (h : a.Ok) : (a.val env).WF := by
  cases a with
  | lit c => exact h
  | var i => exact henv.2 i

/-- integer literals: the argument of `TwoFloat::from(n)` for each of the ten fixed-width integer types -/
inductive IntLit where
  | i8 (n : I8) | i16 (n : I16) | i32 (n : I32) | i64 (n : I64) | i128 (n : I128)
  | u8 (n : U8) | u16 (n : U16) | u32 (n : U32) | u64 (n : U64) | u128 (n : U128)
deriving DecidableEq, Repr

/-- `TwoFloat::from(n)` -/
def IntLit.val : IntLit → TwoFloat
  | .i8 n => convert.impl_From_i8_for_TwoFloat.from n
  | .i16 n => convert.impl_From_i16_for_TwoFloat.from n
  | .i32 n => convert.impl_From_i32_for_TwoFloat.from n
  | .i64 n => convert.impl_From_i64_for_TwoFloat.from n
  | .i128 n => convert.impl_From_i128_for_TwoFloat.from n
  | .u8 n => convert.impl_From_u8_for_TwoFloat.from n
  | .u16 n => convert.impl_From_u16_for_TwoFloat.from n
  | .u32 n => convert.impl_From_u32_for_TwoFloat.from n
  | .u64 n => convert.impl_From_u64_for_TwoFloat.from n
  | .u128 n => convert.impl_From_u128_for_TwoFloat.from n

/-- the literal is a value of its machine type -/
def IntLit.Ok : IntLit → Prop
  | .i8 n => n.inRange = true | .i16 n => n.inRange = true | .i32 n => n.inRange = true
  | .i64 n => n.inRange = true | .i128 n => n.inRange = true
  | .u8 n => n.inRange = true | .u16 n => n.inRange = true | .u32 n => n.inRange = true
  | .u64 n => n.inRange = true | .u128 n => n.inRange = true

instance (n : IntLit) : Decidable n.Ok := by
  cases n <;> unfold IntLit.Ok <;> infer_instance

/-- `From<int>` always returns a VALID pair (C09) -/
theorem IntLit.valid {n : IntLit} (h : n.Ok) : n.val.Valid ∧ n.val.WF := by
  cases n with
  | i8 n => exact ⟨(C09.from_i8 n h).valid, (C09.from_i8 n h).wf⟩
  | i16 n => exact ⟨(C09.from_i16 n h).valid, (C09.from_i16 n h).wf⟩
  | i32 n => exact ⟨(C09.from_i32 n h).valid, (C09.from_i32 n h).wf⟩
  | i64 n => exact ⟨(C09.from_i64 n h).valid, (C09.from_i64 n h).wf⟩
  | i128 n => exact ⟨(C09.from_i128_approx n h).valid, (C09.from_i128_approx n h).wf⟩
  | u8 n => exact ⟨(C09.from_u8 n h).valid, (C09.from_u8 n h).wf⟩
  | u16 n => exact ⟨(C09.from_u16 n h).valid, (C09.from_u16 n h).wf⟩
  | u32 n => exact ⟨(C09.from_u32 n h).valid, (C09.from_u32 n h).wf⟩
  | u64 n => exact ⟨(C09.from_u64 n h).valid, (C09.from_u64 n h).wf⟩
  | u128 n => exact ⟨(C09.from_u128_approx n h).valid, (C09.from_u128_approx n h).wf⟩

theorem IntLit.good {n : IntLit} (h : n.Ok) : Good n.val := ⟨Or.inl (IntLit.valid h).1, (IntLit.valid h).2⟩

/-- the exponent of `powi` / of the `Pow<i8 | i16 | i32 | u8 | u16>` impls.  No range condition: `powi` preserves the
invariant for every `i32`, and the narrow exponents are cast to `i32` by the impls themselves. -/
inductive PowExp where
  | i8 (n : I8) | i16 (n : I16) | i32 (n : I32) | u8 (n : U8) | u16 (n : U16)
deriving DecidableEq, Repr

/-- `x.powi(n)` for `i32`, `x.pow(n)` (trait `num_traits::Pow`) for the narrow types -/
def PowExp.app : PowExp → TwoFloat → TwoFloat
  | .i32 n, x => TwoFloat.powi x n
  | .i8 n, x => num_integration.impl_Pow_i8_for_TwoFloat.pow x n
  | .i16 n, x => num_integration.impl_Pow_i16_for_TwoFloat.pow x n
  | .u8 n, x => num_integration.impl_Pow_u8_for_TwoFloat.pow x n
  | .u16 n, x => num_integration.impl_Pow_u16_for_TwoFloat.pow x n

theorem PowExp.good (p : PowExp) {x : TwoFloat} (hx : Good x) : Good (p.app x) := by
  cases p <;> exact C01e.good_powi hx _

/-- `TwoFloat::try_from((a, b)).unwrap_or(TwoFloat::NAN)` (the same for `try_from([a, b])`): the checked constructor -/
def tryPairVal (a b : F64) : TwoFloat :=
  match convert.impl_TryFrom_tup_f64_f64_for_TwoFloat.try_from (a, b) with
  | .ok t => t
  | .error _ => TwoFloat.NAN

theorem tryPairVal_arr (a b : F64) :
    tryPairVal a b = (match convert.impl_TryFrom_arr2_f64_for_TwoFloat.try_from ⟨a, b⟩ with
      | .ok t => t
      | .error _ => TwoFloat.NAN) := rfl

/-- whatever the two words are, a successful `try_from` delivers a valid pair -/
theorem good_tryPairVal {a b : F64} (ha : a.WF) (hb : b.WF) : Good (tryPairVal a b) := by
  unfold tryPairVal
  split
  next t h =>
    have hv := C07.try_from_tuple_valid a b ha hb t h
    have ht := ((C07.try_from_tuple_ok_iff a b ha hb t).1 h).2
    exact ⟨Or.inl hv, by rw [ht]; exact ⟨ha, hb⟩⟩
  next => exact PF.good_NAN

/-! ## §2 operations -/

/-- the unary methods `TwoFloat → TwoFloat` (`sin_cos` contributes its two components) -/
inductive Un where
  | neg | abs | signum | floor | ceil | trunc | round | fract | recip | inv
  | sqrt | cbrt | exp | exp2 | exp_m1 | ln | log2 | log10 | ln_1p
  | sin | cos | tan | sin_cos_fst | sin_cos_snd | asin | acos | atan
  | sinh | cosh | tanh | asinh | acosh | atanh | to_degrees | to_radians
deriving DecidableEq, Repr

def Un.app : Un → TwoFloat → TwoFloat
  | .neg => arithmetic.impl_Neg_for_TwoFloat.neg
  | .abs => TwoFloat.abs
  | .signum => TwoFloat.signum
  | .floor => TwoFloat.floor
  | .ceil => TwoFloat.ceil
  | .trunc => TwoFloat.trunc
  | .round => TwoFloat.round
  | .fract => TwoFloat.fract
  | .recip => TwoFloat.recip
  | .inv => num_integration.impl_Inv_for_TwoFloat.inv
  | .sqrt => TwoFloat.sqrt
  | .cbrt => TwoFloat.cbrt
  | .exp => TwoFloat.exp
  | .exp2 => TwoFloat.exp2
  | .exp_m1 => TwoFloat.exp_m1
  | .ln => TwoFloat.ln
  | .log2 => TwoFloat.log2
  | .log10 => TwoFloat.log10
  | .ln_1p => TwoFloat.ln_1p
  | .sin => TwoFloat.sin
  | .cos => TwoFloat.cos
  | .tan => TwoFloat.tan
  | .sin_cos_fst => fun x => (TwoFloat.sin_cos x).1
  | .sin_cos_snd => fun x => (TwoFloat.sin_cos x).2
  | .asin => TwoFloat.asin
  | .acos => TwoFloat.acos
  | .atan => TwoFloat.atan
  | .sinh => TwoFloat.sinh
  | .cosh => TwoFloat.cosh
  | .tanh => TwoFloat.tanh
  | .asinh => TwoFloat.asinh
  | .acosh => TwoFloat.acosh
  | .atanh => TwoFloat.atanh
  | .to_degrees => TwoFloat.to_degrees
  | .to_radians => TwoFloat.to_radians

theorem Un.good (op : Un) {x : TwoFloat} (hx : Good x) : Good (op.app x) := by
  cases op with
  | neg => exact PF.good_neg hx
  | abs => exact PF.good_abs hx
  | signum => exact C01.signum_inv x
  | floor => exact C01.floor_inv hx.2 hx.1
  | ceil => exact C01.ceil_inv hx.2 hx.1
  | trunc => exact C01.trunc_inv hx.2 hx.1
  | round => exact C01.round_inv hx.2 hx.1
  | fract => exact C01.fract_inv hx.2 hx.1
  | recip => exact C01e.recip_good hx
  | inv => exact C01e.inv_good hx
  | sqrt => exact C01m.good_sqrt hx
  | cbrt => exact C01e.good_cbrt hx
  | exp => exact C01m.good_exp hx
  | exp2 => exact C01m.good_exp2 hx
  | exp_m1 => exact C01m.good_exp_m1 hx
  | ln => exact C01m.good_ln hx
  | log2 => exact C01m.good_log2 hx
  | log10 => exact C01e.good_log10 hx
  | ln_1p => exact C01e.good_ln_1p hx
  | sin => exact C01e.good_sin hx
  | cos => exact C01e.good_cos hx
  | tan => exact C01e.good_tan hx
  | sin_cos_fst => show Good (TwoFloat.sin_cos x).1; rw [C16.sin_cos_eq]; exact C01e.good_sin hx
  | sin_cos_snd => show Good (TwoFloat.sin_cos x).2; rw [C16.sin_cos_eq]; exact C01e.good_cos hx
  | asin => exact C01m.good_asin hx
  | acos => exact C01m.good_acos hx
  | atan => exact C01e.good_atan hx
  | sinh => exact C01m.good_sinh hx
  | cosh => exact C01m.good_cosh hx
  | tanh => exact C01e.good_tanh hx
  | asinh => exact C01m.good_asinh hx
  | acosh => exact C01m.good_acosh hx
  | atanh => exact C01e.good_atanh hx
  | to_degrees => exact C01m.good_to_degrees hx
  | to_radians => exact C01m.good_to_radians hx

/-- the binary operations `TwoFloat ∘ TwoFloat → TwoFloat` -/
inductive Bin where
  | add | sub | mul | div | rem
  | min | max | copysign | div_euclid | rem_euclid
  | powf | log | hypot | atan2 | abs_sub
deriving DecidableEq, Repr

def Bin.app : Bin → TwoFloat → TwoFloat → TwoFloat
  | .add => fun a b => a +. b
  | .sub => fun a b => a -. b
  | .mul => fun a b => a *. b
  | .div => fun a b => a /. b
  | .rem => fun a b => a %. b
  | .min => TwoFloat.min
  | .max => TwoFloat.max
  | .copysign => TwoFloat.copysign
  | .div_euclid => TwoFloat.div_euclid
  | .rem_euclid => TwoFloat.rem_euclid
  | .powf => TwoFloat.powf
  | .log => TwoFloat.log
  | .hypot => TwoFloat.hypot
  | .atan2 => TwoFloat.atan2
  | .abs_sub => num_integration.impl_Signed_for_TwoFloat.abs_sub

theorem Bin.good (op : Bin) {a b : TwoFloat} (ha : Good a) (hb : Good b) : Good (op.app a b) := by
  cases op with
  | add => exact PF.good_add_tt ha hb
  | sub => exact PF.good_sub_tt ha hb
  | mul => exact PF.good_mul_tt ha hb
  | div => exact C01e.div_tt_good a b ha hb
  | rem => exact C01e.rem_tt_good a b ha hb
  | min => exact C01.min_inv ha.2 ha.1 hb.2 hb.1
  | max => exact C01.max_inv ha.2 ha.1 hb.2 hb.1
  | copysign => exact C01.copysign_inv b ha.2 ha.1
  | div_euclid => exact C01e.div_euclid_good a b ha hb
  | rem_euclid => exact C01e.rem_euclid_good a b ha hb
  | powf => exact C01m.good_powf ha hb
  | log => exact C01e.good_log ha hb
  | hypot => exact C01m.good_hypot ha hb
  | atan2 => exact C01e.good_atan2 ha hb
  | abs_sub => exact PF.good_abs (PF.good_sub_tt ha hb)

/-- the binary operations `TwoFloat ∘ f64 → TwoFloat` (`powf` is `Pow<f64>`: `x.pow(c) = x.powf(TwoFloat::from(c))`) -/
inductive BinF where
  | add | sub | mul | div | rem | powf
deriving DecidableEq, Repr

def BinF.app : BinF → TwoFloat → F64 → TwoFloat
  | .add => fun a c => a +. c
  | .sub => fun a c => a -. c
  | .mul => fun a c => a *. c
  | .div => fun a c => a /. c
  | .rem => fun a c => a %. c
  | .powf => num_integration.impl_Pow_f64_for_TwoFloat.pow

theorem BinF.good (op : BinF) {a : TwoFloat} {c : F64} (ha : Good a) (hc : c.WF) : Good (op.app a c) := by
  cases op with
  | add => exact PF.good_add_tf ha hc
  | sub => exact PF.good_sub_tf ha hc
  | mul => exact PF.good_mul_tf c ha
  | div => exact C01e.div_tf_good a c ha
  | rem => exact C01e.rem_tf_good a c ha
  | powf => exact C01m.good_powf ha (PF.good_from hc)

/-- the binary operations `f64 ∘ TwoFloat → TwoFloat` -/
inductive FBin where
  | add | sub | mul | div | rem
deriving DecidableEq, Repr

def FBin.app : FBin → F64 → TwoFloat → TwoFloat
  | .add => fun c a => c +. a
  | .sub => fun c a => c -. a
  | .mul => fun c a => c *. a
  | .div => fun c a => c /. a
  | .rem => fun c a => c %. a

theorem FBin.good (op : FBin) {c : F64} {a : TwoFloat} (hc : c.WF) (ha : Good a) : Good (op.app c a) := by
  cases op with
  | add => exact C01m.good_add_ft hc ha
  | sub => exact C01m.good_sub_ft hc ha
  | mul => exact PF.good_mul_ft c ha
  | div => exact C01e.div_ft_good c a hc ha
  | rem => exact C01e.rem_ft_good c a hc ha

/-- `Float::mul_add(self, a, b) = self * a + b` -/
theorem good_mul_add {x a b : TwoFloat} (hx : Good x) (ha : Good a) (hb : Good b) :
    Good (num_integration.impl_Float_for_TwoFloat.mul_add x a b) :=
  PF.good_add_tt (PF.good_mul_tt hx ha) hb

/-- `FloatCore::neg_zero()` -/
theorem good_neg_zero : Good num_integration.impl_FloatCore_for_TwoFloat.neg_zero := by decide +kernel

/-! ## §3 the expression language -/

/-- expressions over the whole public numeric API that returns a `TwoFloat` -/
inductive Expr where
  /-- the `i`-th `TwoFloat` input -/
  | var (i : Nat)
  /-- the 19 mathematical constants, `MIN`, `MAX`, `MIN_POSITIVE`, `EPSILON`, `NAN`, `INFINITY`, `NEG_INFINITY`,
  `Zero::zero()`, `One::one()`, `Default::default()` -/
  | const (k : C01.Konst)
  /-- `FloatCore::neg_zero()` -/
  | negZero
  /-- `TwoFloat::from(c)` / `TwoFloat::from_f64(c)`, `c : f64` -/
  | ofF64 (c : FArg)
  /-- `TwoFloat::from(c)`, `c : f32` -/
  | ofF32 (c : F32)
  /-- `TwoFloat::from(n)`, `n` of any fixed-width integer type -/
  | ofInt (n : IntLit)
  /-- `TwoFloat::try_from((a, b)).unwrap_or(NAN)` -/
  | tryPair (a b : FArg)
  | un (op : Un) (e : Expr)
  | bin (op : Bin) (a b : Expr)
  | binF (op : BinF) (e : Expr) (c : FArg)
  | fbin (op : FBin) (c : FArg) (e : Expr)
  /-- `powi` and the integer `Pow` impls -/
  | powi (e : Expr) (n : PowExp)
  /-- `Float::mul_add` -/
  | mulAdd (x a b : Expr)
deriving Repr

/-- evaluation with the generated model functions -/
def Expr.eval (env : Env) : Expr → TwoFloat
  | .var i => env.tf i
  | .const k => k.val
  | .negZero => num_integration.impl_FloatCore_for_TwoFloat.neg_zero
  | .ofF64 c => convert.impl_From_f64_for_TwoFloat.from (c.val env)
  | .ofF32 c => convert.impl_From_f32_for_TwoFloat.from c
  | .ofInt n => n.val
  | .tryPair a b => tryPairVal (a.val env) (b.val env)
  | .un op e => op.app (e.eval env)
  | .bin op a b => op.app (a.eval env) (b.eval env)
  | .binF op e c => op.app (e.eval env) (c.val env)
  | .fbin op c e => op.app (c.val env) (e.eval env)
  | .powi e n => n.app (e.eval env)
  | .mulAdd x a b => num_integration.impl_Float_for_TwoFloat.mul_add (x.eval env) (a.eval env) (b.eval env)

/-- side condition on the literals of an expression: `f64` / `f32` literals are bit patterns of doubles, integer
literals are values of their type.  (Nothing is required of the operations, the exponents, or the shape.) -/
def Expr.Ok : Expr → Prop
  | .var _ => True
  | .const _ => True
  | .negZero => True
  | .ofF64 c => c.Ok
  | .ofF32 c => c.v.WF
  | .ofInt n => n.Ok
  | .tryPair a b => a.Ok ∧ b.Ok
  | .un _ e => e.Ok
  | .bin _ a b => a.Ok ∧ b.Ok
  | .binF _ e c => e.Ok ∧ c.Ok
  | .fbin _ c e => c.Ok ∧ e.Ok
  | .powi e _ => e.Ok
  | .mulAdd x a b => x.Ok ∧ a.Ok ∧ b.Ok

def Expr.decOk : (e : Expr) → Decidable e.Ok
  | .var _ => isTrue trivial
  | .const _ => isTrue trivial
  | .negZero => isTrue trivial
  | .ofF64 c => inferInstanceAs (Decidable c.Ok)
  | .ofF32 c => inferInstanceAs (Decidable c.v.WF)
  | .ofInt n => inferInstanceAs (Decidable n.Ok)
  | .tryPair a b => inferInstanceAs (Decidable (a.Ok ∧ b.Ok))
  | .un _ e => decOk e
  | .bin _ a b => @instDecidableAnd _ _ (decOk a) (decOk b)
  | .binF _ e c => @instDecidableAnd _ _ (decOk e) (inferInstanceAs (Decidable c.Ok))
  | .fbin _ c e => @instDecidableAnd _ _ (inferInstanceAs (Decidable c.Ok)) (decOk e)
  | .powi e _ => decOk e
  | .mulAdd x a b => @instDecidableAnd _ _ (decOk x) (@instDecidableAnd _ _ (decOk a) (decOk b))

instance (e : Expr) : Decidable e.Ok := e.decOk

/-! ## §4 the closure theorem -/

/-- **C01 for the whole API, arbitrary chains of calls.**  Every expression built from

* `TwoFloat` inputs satisfying the invariant, `f64` inputs (ANY double), the constants, `From<f64 | f32 | i8 … u128>`,
  the checked constructor `try_from((a, b))`;
* `+ − × ÷ %` in the three operand pairings `TwoFloat ∘ TwoFloat`, `TwoFloat ∘ f64`, `f64 ∘ TwoFloat`;
* `-x`, `abs`, `signum`, `copysign`, `min`, `max`, `abs_sub`, `floor`, `ceil`, `trunc`, `round`, `fract`, `recip`,
  `Inv::inv`, `div_euclid`, `rem_euclid`, `mul_add`, `powi` (every exponent) and the integer `Pow` impls;
* `sqrt`, `cbrt`, `hypot`, `exp`, `exp2`, `exp_m1`, `ln`, `log`, `log2`, `log10`, `ln_1p`, `powf`, `Pow<f64>`,
  `sin`, `cos`, `tan`, `sin_cos`, `asin`, `acos`, `atan`, `atan2`, `sinh`, `cosh`, `tanh`, `asinh`, `acosh`, `atanh`,
  `to_degrees`, `to_radians`

evaluates (in the generated model) to a well-formed `TwoFloat` that is VALID or has a NON-FINITE HIGH WORD.  No range,
domain or magnitude hypothesis anywhere. -/
theorem eval_good_all (e : Expr) (env : Env) (hl : e.Ok) (henv : env.Good) : Good (e.eval env) := by
  induction e with
  | var i => exact henv.1 i
  | const k => exact ⟨(C01.konst_inv k).2, (C01.konst_inv k).1⟩
  | negZero => exact good_neg_zero
  | ofF64 c => exact PF.good_from (FArg.wf henv hl)
  | ofF32 c => exact C01.from_f32_inv hl
  | ofInt n => exact IntLit.good hl
  | tryPair a b => exact good_tryPairVal (FArg.wf henv hl.1) (FArg.wf henv hl.2)
  | un op e ih => exact op.good (ih hl)
  | bin op a b iha ihb => exact op.good (iha hl.1) (ihb hl.2)
  | binF op e c ih => exact op.good (ih hl.1) (FArg.wf henv hl.2)
  | fbin op c e ih => exact op.good (FArg.wf henv hl.1) (ih hl.2)
  | powi e n ih => exact n.good (ih hl)
  | mulAdd x a b ihx iha ihb => exact good_mul_add (ihx hl.1) (iha hl.2.1) (ihb hl.2.2)

/-- the invariant of C01 along any chain -/
theorem eval_inv_all (e : Expr) (env : Env) (hl : e.Ok) (henv : env.Good) : (e.eval env).Inv :=
  (eval_good_all e env hl henv).1

/-- both words of every intermediate and final result are bit patterns of doubles -/
theorem eval_wf_all (e : Expr) (env : Env) (hl : e.Ok) (henv : env.Good) : (e.eval env).WF :=
  (eval_good_all e env hl henv).2

/-- the property as stated: from VALID `TwoFloat` inputs -/
theorem eval_good_of_valid (e : Expr) (env : Env) (hl : e.Ok) (henv : env.Valid) :
    (e.eval env).Inv ∧ (e.eval env).WF := eval_good_all e env hl henv.good

/-- in the words of the property: whenever the high word of the result of any chain is finite, the low word is finite,
the words do not overlap (`hi ⊕ lo == hi`) and `is_valid()` returns `true` -/
theorem eval_never_bad_all (e : Expr) (env : Env) (hl : e.Ok) (henv : env.Good)
    (hf : (e.eval env).hi.is_finite = true) :
    (e.eval env).lo.is_finite = true ∧ F64.addEq (e.eval env).hi (e.eval env).lo = true ∧
      TwoFloat.is_valid (e.eval env) = true := by
  obtain ⟨hi, hw⟩ := eval_good_all e env hl henv
  have h := hi.lo_of_finite hf
  exact ⟨h.1, h.2, (C07.is_valid_iff _ hw).2 ⟨hf, h.1, h.2⟩⟩

/-- … and negatively: it is never a finite high word paired with an infinite, NaN or overlapping low word -/
theorem eval_not_bad_all (e : Expr) (env : Env) (hl : e.Ok) (henv : env.Good) :
    ¬ ((e.eval env).hi.is_finite = true ∧
        ((e.eval env).lo.is_finite = false ∨ F64.addEq (e.eval env).hi (e.eval env).lo = false)) := by
  rintro ⟨hf, hbad⟩
  obtain ⟨h1, h2, -⟩ := eval_never_bad_all e env hl henv hf
  rcases hbad with h | h
  · rw [h1] at h; exact absurd h (by simp)
  · rw [h2] at h; exact absurd h (by simp)

/-- "… can be fed to any other operation": the result of a chain is again an admissible input, i.e. substituting
expressions for inputs stays inside the theorem -/
theorem eval_feed (e : Expr) (env : Env) (hl : e.Ok) (henv : env.Good) (es : Nat → Expr) (hes : ∀ i, (es i).Ok) :
    Good (e.eval ⟨fun i => (es i).eval env, env.f⟩) :=
  eval_good_all e _ hl ⟨fun i => eval_good_all (es i) env (hes i) henv, henv.2⟩

/-! ## §5 `Sum`: `iter.sum::<TwoFloat>()` over `TwoFloat`s and over doubles, as derived expressions -/

/-- `[e₁, …, eₙ].into_iter().sum()` = `(…((0 + e₁) + e₂) + …) + eₙ` -/
def Expr.sumOf (l : List Expr) : Expr := l.foldl (fun a b => .bin .add a b) (.const .ZERO)

/-- `[c₁, …, cₙ].into_iter().sum::<TwoFloat>()` for doubles -/
def Expr.sumOfF (l : List FArg) : Expr := l.foldl (fun a c => .binF .add a c) (.const .ZERO)

theorem eval_sumOf (env : Env) (l : List Expr) :
    (Expr.sumOf l).eval env = iter.impl_Sum_T_for_TwoFloat.sum (l.map (fun e => e.eval env)) := by
  unfold Expr.sumOf iter.impl_Sum_T_for_TwoFloat.sum
  have key : ∀ (l : List Expr) (acc : Expr),
      (l.foldl (fun a b => Expr.bin .add a b) acc).eval env =
        List.foldl (fun (a b : TwoFloat) => a +. b) (acc.eval env) (l.map (fun e => e.eval env)) := by
    intro l
    induction l with
    | nil => intro acc; rfl
    | cons x l ih => intro acc; rw [List.foldl_cons, List.map_cons, List.foldl_cons, ih]; rfl
  exact key l _

theorem eval_sumOfF (env : Env) (l : List FArg) :
    (Expr.sumOfF l).eval env = iter.impl_Sum_T_for_TwoFloat.sum (l.map (fun c => c.val env)) := by
  unfold Expr.sumOfF iter.impl_Sum_T_for_TwoFloat.sum
  have key : ∀ (l : List FArg) (acc : Expr),
      (l.foldl (fun a c => Expr.binF .add a c) acc).eval env =
        List.foldl (fun (a : TwoFloat) (c : F64) => a +. c) (acc.eval env) (l.map (fun c => c.val env)) := by
    intro l
    induction l with
    | nil => intro acc; rfl
    | cons x l ih => intro acc; rw [List.foldl_cons, List.map_cons, List.foldl_cons, ih]; rfl
  exact key l _

theorem sumOf_ok {l : List Expr} (h : ∀ e ∈ l, e.Ok) : (Expr.sumOf l).Ok := by
  unfold Expr.sumOf
  have key : ∀ (l : List Expr) (acc : Expr), acc.Ok → (∀ e ∈ l, e.Ok) →
      (l.foldl (fun a b => Expr.bin .add a b) acc).Ok := by
    intro l
    induction l with
    | nil => intro acc ha _; exact ha
    | cons x l ih =>
      intro acc ha hl
      rw [List.foldl_cons]
      exact ih _ ⟨ha, hl x (List.mem_cons_self ..)⟩ (fun e he => hl e (List.mem_cons_of_mem _ he))
  exact key l _ trivial h

theorem sumOfF_ok {l : List FArg} (h : ∀ c ∈ l, c.Ok) : (Expr.sumOfF l).Ok := by
  unfold Expr.sumOfF
  have key : ∀ (l : List FArg) (acc : Expr), acc.Ok → (∀ c ∈ l, c.Ok) →
      (l.foldl (fun a c => Expr.binF .add a c) acc).Ok := by
    intro l
    induction l with
    | nil => intro acc ha _; exact ha
    | cons x l ih =>
      intro acc ha hl
      rw [List.foldl_cons]
      exact ih _ ⟨ha, hl x (List.mem_cons_self ..)⟩ (fun e he => hl e (List.mem_cons_of_mem _ he))
  exact key l _ trivial h

/-- `Sum` of the results of arbitrary chains -/
theorem sum_eval_good (l : List Expr) (env : Env) (hl : ∀ e ∈ l, e.Ok) (henv : env.Good) :
    Good (iter.impl_Sum_T_for_TwoFloat.sum (l.map (fun e => e.eval env))) := by
  rw [← eval_sumOf]; exact eval_good_all _ env (sumOf_ok hl) henv

/-! ## §6 non-vacuity: concrete expressions, evaluated by the kernel through the generated model -/

section examples

/-- inputs given by lists (out-of-range indices read `Default::default()` / `0.0`) -/
def Env.ofLists (ts : List TwoFloat) (fs : List F64) : Env :=
  ⟨fun i => ts.getD i lib.impl_Default_for_TwoFloat.default, fun i => fs.getD i (f64lit 0)⟩

theorem Env.ofLists_good {ts : List TwoFloat} {fs : List F64} (ht : ∀ t ∈ ts, PF.Good t) (hf : ∀ c ∈ fs, c.WF) :
    (Env.ofLists ts fs).Good := by
  constructor
  · intro i
    show PF.Good (ts.getD i lib.impl_Default_for_TwoFloat.default)
    rw [List.getD_eq_getElem?_getD]
    cases h : ts[i]? with
    | none => exact ⟨Or.inl C01.default_inv.1, C01.default_inv.2⟩
    | some t => exact ht t (List.mem_of_getElem? h)
  · intro i
    show (fs.getD i (f64lit 0)).WF
    rw [List.getD_eq_getElem?_getD]
    cases h : fs[i]? with
    | none => exact PF.f64lit_WF_zero
    | some c => exact hf c (List.mem_of_getElem? h)

/-- (1, 2^-54) -/
def x1 : TwoFloat := ⟨f64lit 0x3ff0000000000000, f64lit 0x3c90000000000000⟩
/-- 3 -/
def y3 : TwoFloat := ⟨f64lit 0x4008000000000000, f64lit 0⟩
/-- 0.1 (the double) plus a low word `2^-58` -/
def z01 : TwoFloat := ⟨f64lit 0x3fb999999999999a, f64lit 0x3c50000000000000⟩
/-- (inf, 1): a non-finite marker with junk in the low word -/
def xInfJunk : TwoFloat := ⟨F64.inf false, f64lit 0x3ff0000000000000⟩

/-- TwoFloat inputs `x, y, z, w = 1 + 2^-54, 3, 0.1…, π`; f64 inputs `0.1, 3, NaN, +inf, 2^-1074` -/
def env0 : Env :=
  Env.ofLists [x1, y3, z01, consts.PI]
    [f64lit 0x3fb999999999999a, f64lit 0x4008000000000000, F64.nan, F64.inf false, f64lit 0x0000000000000001]

theorem env0_valid : ∀ t ∈ [x1, y3, z01, consts.PI], t.Valid ∧ t.WF := by decide +kernel

theorem env0_good : env0.Good :=
  Env.ofLists_good (fun t ht => ⟨Or.inl (env0_valid t ht).1, (env0_valid t ht).2⟩) (by decide +kernel)

/-- the same with the marker `(inf, 1)` for `x` -/
def env1 : Env :=
  Env.ofLists [xInfJunk, y3, z01, consts.PI] [f64lit 0x3fb999999999999a]

theorem env1_good : env1.Good := Env.ofLists_good (by decide +kernel) (by decide +kernel)

/-- the correction of one Newton step of `ln_1p`, given `e = exp_m1(xₖ)`: `(e − self) / (e + 1)` -/
def ln1pCorr (self e : TwoFloat) : TwoFloat :=
  arithmetic.impl_Div_TwoFloat_for_TwoFloat.div (arithmetic.impl_Sub_TwoFloat_for_TwoFloat.sub e self)
    (arithmetic.impl_Add_f64_for_TwoFloat.add e (f64lit 0x3ff0000000000000))

/-- `ln_1p` on its Newton branch, one node at a time (each `exp_m1` is evaluated once) -/
theorem ln_1p_newton {x g e0 x1' e1 : TwoFloat}
    (hb0 : base.impl_PartialEq_f64_for_TwoFloat.eq x (f64lit 0x0000000000000000) = false)
    (hb1 : ROrd.isLe (base.impl_PartialOrd_f64_for_TwoFloat.partial_cmp x (F64.neg (f64lit 0x3ff0000000000000))) = false)
    (hb2 : ROrd.isLe (base.impl_PartialOrd_f64_for_TwoFloat.partial_cmp x (F64.neg (f64lit 0x3fe0000000000000))) = false)
    (hg : convert.impl_From_f64_for_TwoFloat.from (Libm.log1p x.hi) = g)
    (h0 : TwoFloat.exp_m1 g = e0)
    (h1 : arithmetic.impl_SubAssign_TwoFloat_for_TwoFloat.sub_assign g (ln1pCorr x e0) = x1')
    (h2 : TwoFloat.exp_m1 x1' = e1) :
    TwoFloat.ln_1p x = arithmetic.impl_Sub_TwoFloat_for_TwoFloat.sub x1' (ln1pCorr x e1) := by
  unfold TwoFloat.ln_1p
  rw [hb0, hb1, hb2]
  simp only [Bool.false_eq_true, if_false]
  rw [hg, h0]
  unfold ln1pCorr at h1
  rw [h1, h2]
  rfl

/-- `atan2(ln_1p(x / y) % z, exp(w).sqrt())` -/
def chainA : Expr :=
  .bin .atan2
    (.bin .rem (.un .ln_1p (.bin .div (.var 0) (.var 1))) (.var 2))
    (.un .sqrt (.un .exp (.var 3)))

theorem chainA_ok : chainA.Ok := by decide +kernel

/-- `eval` is the composition of the generated model functions (by `rfl`) -/
theorem chainA_unfold : chainA.eval env0 =
    TwoFloat.atan2 (TwoFloat.ln_1p (x1 /. y3) %. z01) (TwoFloat.sqrt (TwoFloat.exp consts.PI)) := rfl

/-- … and computes through the model; the kernel evaluates it node by node (one declaration per node keeps every
single check short): `x / y = 0.3333…` -/
def qA : TwoFloat := ⟨f64lit 0x3fd5555555555556, f64lit 0xbc75555555555556⟩
/-- `ln_1p(x / y) = 0.28768207245178096…` -/
def lA : TwoFloat := ⟨f64lit 0x3fd269621134db93, f64lit 0xbc71efb3885fb998⟩
/-- `… % z = 0.08768207245178092…` -/
def rA : TwoFloat := ⟨f64lit 0x3fb6725511a03b16, f64lit 0x3c584131de8119a0⟩
/-- `exp(π) = 23.14069263277927…` -/
def eA : TwoFloat := ⟨f64lit 0x403724046eb0933a, f64lit 0xbcd84c962dd81952⟩
/-- `sqrt(exp(π)) = 4.810477380965351…` -/
def sA : TwoFloat := ⟨f64lit 0x40133dedc855935f, f64lit 0x3cb3e45a768fb73a⟩
/-- `atan2(…, …) = 0.01822529389402242…` -/
def resA : TwoFloat := ⟨f64lit 0x3f92a9a6c4f07349, f64lit 0xbc158ad901744426⟩

theorem chainA_step1 : x1 /. y3 = qA := by decide +kernel
/-- `ln_1p(x / y)` takes the Newton branch; its two `exp_m1` evaluations are checked separately: the seed
`log1p(hi) = 0.28768207245178096` (libm), `exp_m1(seed)`, the first iterate (already the final result), and
`exp_m1(iterate)`, which is `x / y` to the last bit — so the second correction is `0` -/
def gA : TwoFloat := ⟨f64lit 0x3fd269621134db93, f64lit 0⟩
def e0A : TwoFloat := ⟨f64lit 0x3fd5555555555556, f64lit 0x3c44a77b03fd1100⟩
theorem chainA_step2a : base.impl_PartialEq_f64_for_TwoFloat.eq qA (f64lit 0x0000000000000000) = false ∧
    ROrd.isLe (base.impl_PartialOrd_f64_for_TwoFloat.partial_cmp qA (F64.neg (f64lit 0x3ff0000000000000))) = false ∧
    ROrd.isLe (base.impl_PartialOrd_f64_for_TwoFloat.partial_cmp qA (F64.neg (f64lit 0x3fe0000000000000))) = false ∧
    convert.impl_From_f64_for_TwoFloat.from (Libm.log1p qA.hi) = gA := by decide +kernel
theorem chainA_step2b : TwoFloat.exp_m1 gA = e0A := by decide +kernel
theorem chainA_step2c :
    arithmetic.impl_SubAssign_TwoFloat_for_TwoFloat.sub_assign gA (ln1pCorr qA e0A) = lA := by decide +kernel
theorem chainA_step2d : TwoFloat.exp_m1 lA = qA := by decide +kernel
theorem chainA_step2e : arithmetic.impl_Sub_TwoFloat_for_TwoFloat.sub lA (ln1pCorr qA qA) = lA := by decide +kernel
theorem chainA_step2 : TwoFloat.ln_1p qA = lA := by
  rw [ln_1p_newton chainA_step2a.1 chainA_step2a.2.1 chainA_step2a.2.2.1 chainA_step2a.2.2.2 chainA_step2b
    chainA_step2c chainA_step2d, chainA_step2e]
theorem chainA_step3 : lA %. z01 = rA := by decide +kernel
theorem chainA_step4 : TwoFloat.exp consts.PI = eA := by decide +kernel
theorem chainA_step5 : TwoFloat.sqrt eA = sA := by decide +kernel
theorem chainA_step6 : TwoFloat.atan2 rA sA = resA := by decide +kernel

/-- with `x, y, z, w = 1 + 2^-54, 3, 0.1…, π` the chain evaluates to the pair `resA` (`≈ 0.0182252938940224`, as
`atan2(fmod(log1p(1/3), 0.1), sqrt(exp(π)))` should) -/
theorem chainA_eval : chainA.eval env0 = resA := by
  rw [chainA_unfold, chainA_step1, chainA_step2, chainA_step3, chainA_step4, chainA_step5, chainA_step6]

/-- a valid pair with a non-zero low word -/
example : (chainA.eval env0).Valid ∧ (chainA.eval env0).lo.toInt ≠ 0 := by rw [chainA_eval]; decide +kernel

/-- what the theorem says about it (hypotheses discharged: `Ok` by evaluation, the inputs by `env0_good`) -/
example : Good (chainA.eval env0) := eval_good_all chainA env0 chainA_ok env0_good

example : TwoFloat.is_valid (chainA.eval env0) = true :=
  (eval_never_bad_all chainA env0 chainA_ok env0_good (by rw [chainA_eval]; decide +kernel)).2.2

/-- the same chain fed with the marker `(inf, 1)`: the marker propagates (`inf / 3 = NaN` in the long division, and
every later node keeps a non-finite high word), and the theorem covers it -/
theorem chainA_unfold1 : chainA.eval env1 =
    TwoFloat.atan2 (TwoFloat.ln_1p (xInfJunk /. y3) %. z01) (TwoFloat.sqrt (TwoFloat.exp consts.PI)) := rfl
theorem chainA_marker_step : TwoFloat.ln_1p (xInfJunk /. y3) %. z01 = ⟨F64.nan, F64.nan⟩ := by decide +kernel
example : (chainA.eval env1).hi.is_finite = false := by
  rw [chainA_unfold1, chainA_marker_step, chainA_step4, chainA_step5]; decide +kernel
example : Good (chainA.eval env1) := eval_good_all chainA env1 chainA_ok env1_good

/-- a chain over the mixed-operand operators, conversions and the integer powers:
`(2.5f64 / sin_cos(x).0 + TwoFloat::from(-7i64)).powi(-3) * f₀  −  mul_add(cbrt(u128::MAX), E, try_from((1, 2^-60)))` -/
def chainB : Expr :=
  .bin .sub
    (.binF .mul
      (.powi (.bin .add (.fbin .div (.lit (f64lit 0x4004000000000000)) (.un .sin_cos_fst (.var 0)))
        (.ofInt (.i64 ⟨-7⟩))) (.i32 (-3 : I32)))
      (.var 0))
    (.mulAdd (.un .cbrt (.ofInt (.u128 ⟨2 ^ 128 - 1⟩))) (.const .E)
      (.tryPair (.lit (f64lit 0x3ff0000000000000)) (.lit (f64lit 0x3c30000000000000))))

theorem chainB_ok : chainB.Ok := by decide +kernel

theorem chainB_unfold : chainB.eval env0 =
    (TwoFloat.powi ((f64lit 0x4004000000000000) /. (TwoFloat.sin_cos x1).1 +.
        convert.impl_From_i64_for_TwoFloat.from ⟨-7⟩) (-3 : I32) *. (f64lit 0x3fb999999999999a)) -.
      num_integration.impl_Float_for_TwoFloat.mul_add
        (TwoFloat.cbrt (convert.impl_From_u128_for_TwoFloat.from ⟨2 ^ 128 - 1⟩)) consts.E
        (tryPairVal (f64lit 0x3ff0000000000000) (f64lit 0x3c30000000000000)) := rfl

/-- `sin(1 + 2^-54) = 0.8414709848078965…` -/
def sB : TwoFloat := ⟨f64lit 0x3feaed548f090cee, f64lit 0x3c82505f231da2bf⟩
/-- `2.5 / sin(x) − 7 = −4.029012235554697…` -/
def tB : TwoFloat := ⟨f64lit 0xc0101db5622b90aa, f64lit 0x3cb3ddd1a5a386c5⟩
/-- `(…)^-3 · 0.1 = −0.0015289885781271954…` -/
def pB : TwoFloat := ⟨f64lit 0xbf590d0afc18cd87, f64lit 0x3beec9f22012a8f9⟩
/-- `TwoFloat::from(u128::MAX) = (2^128, −1)`, exact -/
def uB : TwoFloat := ⟨f64lit 0x47f0000000000000, f64lit 0xbff0000000000000⟩
/-- `cbrt(u128::MAX) = 6981463658331.56…` -/
def cB : TwoFloat := ⟨f64lit 0x429965fea53d6e3d, f64lit 0xbf3f53e999952f08⟩
/-- the result, `−18977585798490.887…` -/
def resB : TwoFloat := ⟨f64lit 0xc2b14290429d5ae3, f64lit 0xbf34d5b02d11ce37⟩

theorem chainB_step1 : (TwoFloat.sin_cos x1).1 = sB := by decide +kernel
theorem chainB_step2 :
    (f64lit 0x4004000000000000) /. sB +. convert.impl_From_i64_for_TwoFloat.from ⟨-7⟩ = tB := by decide +kernel
theorem chainB_step3 : TwoFloat.powi tB (-3 : I32) *. (f64lit 0x3fb999999999999a) = pB := by decide +kernel
theorem chainB_step4 : convert.impl_From_u128_for_TwoFloat.from ⟨2 ^ 128 - 1⟩ = uB := by decide +kernel
theorem chainB_step5 : TwoFloat.cbrt uB = cB := by decide +kernel
theorem chainB_step6 : pB -. num_integration.impl_Float_for_TwoFloat.mul_add cB consts.E
    (tryPairVal (f64lit 0x3ff0000000000000) (f64lit 0x3c30000000000000)) = resB := by decide +kernel

theorem chainB_eval : chainB.eval env0 = resB := by
  rw [chainB_unfold, chainB_step1, chainB_step2, chainB_step3, chainB_step4, chainB_step5, chainB_step6]

example : (chainB.eval env0).Valid ∧ (chainB.eval env0).lo.toInt ≠ 0 := by rw [chainB_eval]; decide +kernel
example : Good (chainB.eval env0) := eval_good_all chainB env0 chainB_ok env0_good

/-- `f64` inputs may be anything: `x % NaN`, `+inf / x`, `hypot(x, x + 2^-1074)`, `x.pow(NaN)` -/
example : ((Expr.binF .rem (.var 0) (.var 2)).eval env0).hi = F64.nan ∧
    ((Expr.fbin .div (.var 3) (.var 0)).eval env0).hi.is_finite = false ∧
    ((Expr.bin .hypot (.var 0) (.binF .add (.var 0) (.var 4))).eval env0).Valid ∧
    ((Expr.binF .powf (.var 0) (.var 2)).eval env0).hi.is_finite = false := by decide +kernel

example : Good ((Expr.binF .powf (.var 0) (.var 2)).eval env0) :=
  eval_good_all _ env0 (by decide +kernel) env0_good

/-- a rejected `try_from` yields the `NAN` marker; an accepted one the pair itself -/
example : (Expr.tryPair (.lit (f64lit 0x3ff0000000000000)) (.lit (f64lit 0x3ff0000000000000))).eval env0 = TwoFloat.NAN ∧
    (Expr.tryPair (.lit (f64lit 0x3ff0000000000000)) (.lit (f64lit 0x3c30000000000000))).eval env0 =
      ⟨f64lit 0x3ff0000000000000, f64lit 0x3c30000000000000⟩ := by decide +kernel

/-- `Sum`: `[x, y, z, w].iter().sum()` and `[0.1, 3.0, 2^-1074].iter().sum::<TwoFloat>()` -/
example : (Expr.sumOf [.var 0, .var 1, .var 2, .var 3]).eval env0 =
    iter.impl_Sum_T_for_TwoFloat.sum [x1, y3, z01, consts.PI] := eval_sumOf env0 _
example : Good (iter.impl_Sum_T_for_TwoFloat.sum [x1, y3, z01, consts.PI]) :=
  sum_eval_good [.var 0, .var 1, .var 2, .var 3] env0 (by decide +kernel) env0_good
example : ((Expr.sumOfF [.var 0, .var 1, .var 4]).eval env0).Valid := by decide +kernel

/-- feeding a chain into another chain: `chainA` as the input `x` of `chainB` -/
example : Good (chainB.eval ⟨fun _ => chainA.eval env0, env0.f⟩) :=
  eval_feed chainB env0 chainB_ok env0_good (fun _ => chainA) (fun _ => chainA_ok)

end examples

/-! ## final remarks: what is outside `Expr`

* `TwoFloat::new_add`, `new_sub`, `new_mul` — raw error-free transforms WITHOUT renormalisation; they break the
  invariant (`C01.new_add_breaks_inv`, `C01.new_sub_breaks_inv`, `C01.new_mul_breaks_inv`; conditional statements
  `C01.new_add_inv`, `C01.new_sub_inv`, `C01.new_mul_inv`).  `TwoFloat::new_div` is proved on the C02 range and under
  an explicit Fast2Sum precondition (`C01.new_div_inv`, `C01.new_div_inv_partial`) only.
* the by-reference / `…Assign` forms of the operators and the `Float` / `FloatCore` / `Signed` / `Bounded` /
  `FloatConst` trait wrappers are definitionally the functions used by `eval` (C05, `C01e.div_forms_good`,
  `C01e.rem_assign_good`, `C01.add_tt_inv'`, …);
* `FromPrimitive::from_*` return `Some(TwoFloat::from(n))` (`C09.from_i8_eq'` …); `from_isize` / `from_usize` go through
  the `i64` / `u64` conversions;
* methods that do not return a `TwoFloat` (`hi`, `lo`, comparisons, `is_valid`, `TryFrom<TwoFloat> for int`, `classify`,
  `integer_decode`, formatting) are not expressions.
-/

end C01f
