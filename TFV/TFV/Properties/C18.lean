/-
C18 (structural layer) — hyperbolic functions: the defining formulas (by `rfl`), exact points and domain errors as
closed instances evaluated by the kernel.
-/
import TFV.Spec.Defs
import TFV.Lemmas.Ident

namespace C18

private abbrev neg := arithmetic.impl_Neg_for_TwoFloat.neg
private abbrev two : F64 := f64lit 0x4000000000000000
private abbrev onef : F64 := f64lit 0x3ff0000000000000

/-! ### the formulas -/

theorem cosh_eq (x : TwoFloat) : TwoFloat.cosh x = (TwoFloat.exp x /. two) +. (TwoFloat.exp (neg x) /. two) := rfl
theorem sinh_eq (x : TwoFloat) : TwoFloat.sinh x = (TwoFloat.exp x /. two) -. (TwoFloat.exp (neg x) /. two) := rfl
theorem tanh_eq (x : TwoFloat) :
    TwoFloat.tanh x = (TwoFloat.exp x -. TwoFloat.exp (neg x)) /. (TwoFloat.exp x +. TwoFloat.exp (neg x)) := rfl
/-- `acosh` tests `self < 1.0` first (domain error: `NAN`), then evaluates `ln(x + sqrt(x² − 1))` -/
theorem acosh_eq (x : TwoFloat) :
    TwoFloat.acosh x =
      if ROrd.isLt (base.impl_PartialOrd_f64_for_TwoFloat.partial_cmp x onef) = true then TwoFloat.NAN
      else TwoFloat.ln (x +. TwoFloat.sqrt ((x *. x) -. onef)) := rfl

theorem acosh_of_lt (x : TwoFloat)
    (h : ROrd.isLt (base.impl_PartialOrd_f64_for_TwoFloat.partial_cmp x onef) = true) :
    TwoFloat.acosh x = TwoFloat.NAN := by
  rw [acosh_eq, if_pos h]

theorem acosh_of_not_lt (x : TwoFloat)
    (h : ROrd.isLt (base.impl_PartialOrd_f64_for_TwoFloat.partial_cmp x onef) = false) :
    TwoFloat.acosh x = TwoFloat.ln (x +. TwoFloat.sqrt ((x *. x) -. onef)) := by
  rw [acosh_eq, if_neg (by rw [h]; exact Bool.false_ne_true)]
theorem atanh_eq (x : TwoFloat) : TwoFloat.atanh x = TwoFloat.ln ((onef +. x) /. (onef -. x)) /. two := rfl

/-- asinh is computed on |x| and the sign restored (so asinh(−x) = −asinh(x) bit for bit, see below) -/
theorem asinh_eq (x : TwoFloat) :
    TwoFloat.asinh x =
      (let a := TwoFloat.abs x
       let r := TwoFloat.ln (a +. TwoFloat.sqrt ((a *. a) +. onef))
       if TwoFloat.is_sign_positive x = true then r else neg r) := rfl

theorem asinh_of_pos (x : TwoFloat) (h : TwoFloat.is_sign_positive x = true) :
    TwoFloat.asinh x = TwoFloat.ln (TwoFloat.abs x +. TwoFloat.sqrt ((TwoFloat.abs x *. TwoFloat.abs x) +. onef)) := by
  rw [asinh_eq]; simp only [h, if_true]

theorem asinh_of_neg (x : TwoFloat) (h : TwoFloat.is_sign_positive x = false) :
    TwoFloat.asinh x
      = neg (TwoFloat.ln (TwoFloat.abs x +. TwoFloat.sqrt ((TwoFloat.abs x *. TwoFloat.abs x) +. onef))) := by
  rw [asinh_eq]; simp [h]

/-- asinh is odd bit for bit whenever `abs` agrees on x and y (e.g. y = −x) and the signs differ -/
theorem asinh_odd (x y : TwoFloat) (habs : TwoFloat.abs x = TwoFloat.abs y)
    (hx : TwoFloat.is_sign_positive x = true) (hy : TwoFloat.is_sign_positive y = false) :
    TwoFloat.asinh y = neg (TwoFloat.asinh x) := by
  rw [asinh_of_pos x hx, asinh_of_neg y hy, habs]

/-- panic-freedom predicates: sinh and cosh share one, the inverse functions reduce to `ln.pf` -/
theorem sinh_pf_eq_cosh_pf : TwoFloat.sinh.pf = TwoFloat.cosh.pf := rfl
theorem tanh_pf_eq_cosh_pf : TwoFloat.tanh.pf = TwoFloat.cosh.pf := rfl
theorem acosh_pf_eq (x : TwoFloat) :
    TwoFloat.acosh.pf x =
      if ROrd.isLt (base.impl_PartialOrd_f64_for_TwoFloat.partial_cmp x onef) = true then true
      else TwoFloat.ln.pf (x +. TwoFloat.sqrt ((x *. x) -. onef)) := rfl
theorem atanh_pf_eq (x : TwoFloat) : TwoFloat.atanh.pf x = TwoFloat.ln.pf ((onef +. x) /. (onef -. x)) := rfl

/-! ### exact points -/

private abbrev p0 : TwoFloat := ⟨F64.zero, F64.zero⟩
private abbrev p1 : TwoFloat := ⟨F64.one, F64.zero⟩

theorem sinh_zero : TwoFloat.sinh p0 = ⟨F64.zero, F64.zero⟩ := by decide +kernel
theorem cosh_zero : TwoFloat.cosh p0 = ⟨F64.one, F64.zero⟩ := by decide +kernel
theorem tanh_zero : TwoFloat.tanh p0 = ⟨F64.zero, F64.zero⟩ := by decide +kernel
theorem asinh_zero : TwoFloat.asinh p0 = ⟨F64.zero, F64.zero⟩ := by decide +kernel
theorem atanh_zero : TwoFloat.atanh p0 = ⟨F64.zero, F64.zero⟩ := by decide +kernel
theorem acosh_one : TwoFloat.acosh p1 = ⟨F64.zero, F64.zero⟩ := by decide +kernel

theorem pf_at_exact_points :
    TwoFloat.sinh.pf p0 = true ∧ TwoFloat.cosh.pf p0 = true ∧ TwoFloat.tanh.pf p0 = true
    ∧ TwoFloat.asinh.pf p0 = true ∧ TwoFloat.atanh.pf p0 = true ∧ TwoFloat.acosh.pf p1 = true := by
  decide +kernel

/-! ### domain errors -/

theorem acosh_half : TwoFloat.acosh ⟨f64lit 0x3fe0000000000000, F64.zero⟩ = TwoFloat.NAN := by decide +kernel
theorem acosh_zero : TwoFloat.acosh p0 = TwoFloat.NAN := by decide +kernel
theorem acosh_minus_two : TwoFloat.acosh ⟨f64lit 0xc000000000000000, F64.zero⟩ = TwoFloat.NAN := by decide +kernel
theorem atanh_one : TwoFloat.atanh p1 = TwoFloat.NAN := by decide +kernel
theorem atanh_minus_one : TwoFloat.atanh ⟨F64.neg F64.one, F64.zero⟩ = TwoFloat.NAN := by decide +kernel
theorem atanh_two : TwoFloat.atanh ⟨f64lit 0x4000000000000000, F64.zero⟩ = TwoFloat.NAN := by decide +kernel

/-! ### non-trivial arguments, in the kernel -/

/-- sinh(1), cosh(1), tanh(1): pinned bit patterns; sinh/tanh are odd and cosh even, bit for bit -/
theorem sinh_one : TwoFloat.sinh p1 = ⟨f64lit 0x3ff2cd9fc44eb982, f64lit 0x3c96a0092521fc19⟩ := by decide +kernel
theorem cosh_one : TwoFloat.cosh p1 = ⟨f64lit 0x3ff8b07551d9f550, f64lit 0x3c930af4a040065b⟩ := by decide +kernel
theorem tanh_one : TwoFloat.tanh p1 = ⟨f64lit 0x3fe85efab514f394, f64lit 0x3c85618caf8a4f10⟩ := by decide +kernel

theorem sinh_minus_one :
    TwoFloat.sinh ⟨F64.neg F64.one, F64.zero⟩ = ⟨f64lit 0xbff2cd9fc44eb982, f64lit 0xbc96a0092521fc19⟩ := by decide +kernel
theorem cosh_minus_one :
    TwoFloat.cosh ⟨F64.neg F64.one, F64.zero⟩ = ⟨f64lit 0x3ff8b07551d9f550, f64lit 0x3c930af4a040065b⟩ := by decide +kernel

/-- asinh(−1) = −asinh(1) bit for bit (the fixed large-negative-argument defect was exactly a violation of this
symmetry), obtained from `asinh_odd` without evaluating `ln` -/
example : TwoFloat.asinh (neg p1) = neg (TwoFloat.asinh p1) :=
  asinh_odd p1 (neg p1) (by decide +kernel) (by decide +kernel) (by decide +kernel)

end C18
