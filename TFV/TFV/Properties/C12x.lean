/-
C12x — the parts of property C12 that are not closed finite-table facts (those are in `TFV.Properties.C12`):

* `max_is_greatest`: `TwoFloat::MAX` / `TwoFloat::MIN` bound every valid double-double (universally
  quantified, not just the neighbouring bit patterns checked in `C12.MAX_extreme`),
* the constants are the *correctly rounded* double-doubles of the real numbers they name.
-/
import TFV.Lemmas.ConstBounds
import TFV.Lemmas.NoOverlap
import TFV.Properties.C06
import TFV.Properties.C07
import TFV.Properties.C12

set_option exponentiation.threshold 3000

namespace C12x
open F64 ConstBounds

/-! ## 1. MAX and MIN are the extreme valid values -/

/-- `TwoFloat::MAX = f64::MAX + pred(2^970)` in scaled integers -/
theorem MAX_V : TwoFloat.MAX.V = (maxFin : ℤ) + (maxLo : ℤ) := by
  unfold maxLo; rw [maxFin_eq]; decide +kernel

theorem MIN_V : TwoFloat.MIN.V = -((maxFin : ℤ) + (maxLo : ℤ)) := by
  unfold maxLo; rw [maxFin_eq]; decide +kernel

/-- **MAX is the largest and MIN the smallest valid double-double.**  For every pair of doubles `t`
(`t.WF`: both words are bit patterns of doubles) that satisfies Definition 1.4 (`t.Valid`: both words finite and
`hi = RN(hi + lo)`), the exact value `t.V = hi + lo` lies between `TwoFloat::MIN` and `TwoFloat::MAX`.

Proof idea: if `hi + lo > MAX` then `RN(hi + lo) ≥ RN(f64::MAX) = f64::MAX` forces `hi = f64::MAX`; then
`lo > pred(2^970)` is a double, so `lo ≥ 2^970`, and `f64::MAX + 2^970` is the tie that rounds (to even) to
`2^1024 > f64::MAX` — contradiction. -/
theorem max_is_greatest {t : TwoFloat} (hw : t.WF) (hv : t.Valid) :
    t.V ≤ TwoFloat.MAX.V ∧ TwoFloat.MIN.V ≤ t.V := by
  have hH : t.hi.toInt = rnI (t.hi.toInt + t.lo.toInt) := hv.hi_toInt
  have hb := toInt_le_maxFin hw.1
  have hL := rep_natAbs_toInt hw.2
  rw [MAX_V, MIN_V]
  exact ⟨valid_V_le hH hb.1 hL, valid_V_ge hH hb.2 hL⟩

/-- the same for every pair accepted by the crate's own `is_valid()` -/
theorem max_is_greatest_is_valid {t : TwoFloat} (hw : t.WF) (hv : TwoFloat.is_valid t = true) :
    t.V ≤ TwoFloat.MAX.V ∧ TwoFloat.MIN.V ≤ t.V :=
  max_is_greatest hw ((C07.is_valid_iff t hw).1 hv)

/-- … and `MAX`, `MIN` are themselves valid, so the bounds are attained -/
theorem MAX_MIN_attained :
    TwoFloat.MAX.WF ∧ TwoFloat.MAX.Valid ∧ TwoFloat.MIN.WF ∧ TwoFloat.MIN.Valid := by
  refine ⟨⟨?_, ?_⟩, C12.Valid_MAX, ⟨?_, ?_⟩, C12.Valid_MIN⟩ <;> decide +kernel

/-- restated with the crate's comparison: `t.partial_cmp(&MAX)` is `Some(Less)` or `Some(Equal)`, and
`t.partial_cmp(&MIN)` is `Some(Greater)` or `Some(Equal)`, for every valid `t` -/
theorem partial_cmp_MAX {t : TwoFloat} (hw : t.WF) (hv : t.Valid) :
    ROrd.isLe (C06.tcmp t TwoFloat.MAX) = true ∧ ROrd.isGe (C06.tcmp t TwoFloat.MIN) = true := by
  have h := max_is_greatest hw hv
  have hiv := (C07.is_valid_iff t hw).2 hv
  rw [C06.partial_cmp_exact' hiv hv C12.is_valid_MAX C12.Valid_MAX,
    C06.partial_cmp_exact' hiv hv C12.is_valid_MIN C12.Valid_MIN, ROrd.isLe_ofInts, ROrd.isGe_ofInts]
  exact h

theorem partial_cmp_MAX' {t : TwoFloat} (hw : t.WF) (hv : t.Valid) :
    (base.impl_PartialOrd_TwoFloat_for_TwoFloat.partial_cmp t TwoFloat.MAX = some .Less ∨
      base.impl_PartialOrd_TwoFloat_for_TwoFloat.partial_cmp t TwoFloat.MAX = some .Equal) ∧
    (base.impl_PartialOrd_TwoFloat_for_TwoFloat.partial_cmp t TwoFloat.MIN = some .Greater ∨
      base.impl_PartialOrd_TwoFloat_for_TwoFloat.partial_cmp t TwoFloat.MIN = some .Equal) := by
  have h := partial_cmp_MAX hw hv
  unfold C06.tcmp at h
  generalize base.impl_PartialOrd_TwoFloat_for_TwoFloat.partial_cmp t TwoFloat.MAX = p at h
  generalize base.impl_PartialOrd_TwoFloat_for_TwoFloat.partial_cmp t TwoFloat.MIN = q at h
  rcases p with _ | (_ | _ | _) <;> rcases q with _ | (_ | _ | _) <;> simp [ROrd.isLe, ROrd.isGe] at h ⊢

/-! ## 2. the algebraic constants are correctly rounded (pure integer arithmetic)

Units: a double `x` is the integer `x.toInt` in units of `2^-1074`; put `U = 2^1074`.  The real number `√2` is
`√2·U` in these units, and `(√2·U)² = 2·U² = 2^2149`.  With `H = SQRT_2.hi.toInt` and `u = ulp(H) = 2^1022` (the
spacing of the doubles around `H`; `H` is not a power of two, so its neighbours are `H ± u`), `H = RN(√2)` means
that `√2·U` lies in the cell `[H − u/2, H + u/2]`; since `√2` is irrational it cannot be an end point (a tie), so
this is `2H − u < 2·√2·U < 2H + u`, i.e. (all quantities positive) `(2H − u)² < 4·2^2149 = 8U² < (2H + u)²` —
an inequality between explicit integers that the kernel evaluates.  The same with `H + L`, `v = ulp(L)` in place
of `H`, `u` says `2(H+L) − v < 2√2·U < 2(H+L) + v`, i.e. `√2·U − H` lies in the cell of `L`: `L = RN(√2 − hi)`. -/

/-- the four integer inequalities for `√2`, in the form given in the task description (`U = 2^1074`) -/
theorem SQRT_2_cells_int :
    let H := consts.SQRT_2.hi.toInt
    let L := consts.SQRT_2.lo.toInt
    let U : ℤ := 2 ^ 1074
    ((2 * H - 2 ^ 1022) ^ 2 < 8 * U ^ 2 ∧ 8 * U ^ 2 < (2 * H + 2 ^ 1022) ^ 2) ∧
    ((2 * (H + L) - 2 ^ 968) ^ 2 < 8 * U ^ 2 ∧ 8 * U ^ 2 < (2 * (H + L) + 2 ^ 968) ^ 2) := by
  decide +kernel

/-- `SQRT_2.hi = RN(√2)`: `√2` lies strictly inside the rounding cell of the high word -/
theorem SQRT_2_hi_correctly_rounded : InCell (√2 * 2 ^ 1074) consts.SQRT_2.hi.toInt := by
  rw [sqrt_two_scaled]
  have := inCell_sqrt (N := 2 ^ 2149) (A := 0) (L := consts.SQRT_2.hi.toInt) (u := 2 ^ 1022)
    (by decide +kernel) (by decide +kernel) (by decide +kernel) (by decide +kernel) (by decide +kernel)
  simpa using this

/-- `SQRT_2.lo = RN(√2 − SQRT_2.hi)`: `√2 − hi` lies strictly inside the rounding cell of the low word -/
theorem SQRT_2_lo_correctly_rounded :
    InCell (√2 * 2 ^ 1074 - (consts.SQRT_2.hi.toInt : ℝ)) consts.SQRT_2.lo.toInt := by
  rw [sqrt_two_scaled]
  exact inCell_sqrt (N := 2 ^ 2149) (A := consts.SQRT_2.hi.toInt) (L := consts.SQRT_2.lo.toInt) (u := 2 ^ 968)
    (by decide +kernel) (by decide +kernel) (by decide +kernel) (by decide +kernel) (by decide +kernel)

/-- `consts::SQRT_2` is the correctly rounded double-double of `√2` -/
theorem SQRT_2_correctly_rounded : CorrectlyRoundedDD √2 consts.SQRT_2 :=
  ⟨SQRT_2_hi_correctly_rounded, SQRT_2_lo_correctly_rounded⟩

/-- hence `|√2 − (hi + lo)| ≤ 2^-107·√2` -/
theorem SQRT_2_rel_err : |√2 - (consts.SQRT_2.V : ℝ) / 2 ^ 1074| ≤ |√2| / 2 ^ 107 :=
  SQRT_2_correctly_rounded.rel_err' (by decide +kernel)

/-- the four integer inequalities for `1/√2`: `(U/√2)² = U²/2 = 2^2147`, so `2·(U/√2)` squared is `2·U²` -/
theorem FRAC_1_SQRT_2_cells_int :
    let H := consts.FRAC_1_SQRT_2.hi.toInt
    let L := consts.FRAC_1_SQRT_2.lo.toInt
    let U : ℤ := 2 ^ 1074
    ((2 * H - 2 ^ 1021) ^ 2 < 2 * U ^ 2 ∧ 2 * U ^ 2 < (2 * H + 2 ^ 1021) ^ 2) ∧
    ((2 * (H + L) - 2 ^ 967) ^ 2 < 2 * U ^ 2 ∧ 2 * U ^ 2 < (2 * (H + L) + 2 ^ 967) ^ 2) := by
  decide +kernel

/-- `FRAC_1_SQRT_2.hi = RN(1/√2)` -/
theorem FRAC_1_SQRT_2_hi_correctly_rounded : InCell (1 / √2 * 2 ^ 1074) consts.FRAC_1_SQRT_2.hi.toInt := by
  rw [inv_sqrt_two_scaled]
  have := inCell_sqrt (N := 2 ^ 2147) (A := 0) (L := consts.FRAC_1_SQRT_2.hi.toInt) (u := 2 ^ 1021)
    (by decide +kernel) (by decide +kernel) (by decide +kernel) (by decide +kernel) (by decide +kernel)
  simpa using this

/-- `FRAC_1_SQRT_2.lo = RN(1/√2 − FRAC_1_SQRT_2.hi)` -/
theorem FRAC_1_SQRT_2_lo_correctly_rounded :
    InCell (1 / √2 * 2 ^ 1074 - (consts.FRAC_1_SQRT_2.hi.toInt : ℝ)) consts.FRAC_1_SQRT_2.lo.toInt := by
  rw [inv_sqrt_two_scaled]
  exact inCell_sqrt (N := 2 ^ 2147) (A := consts.FRAC_1_SQRT_2.hi.toInt) (L := consts.FRAC_1_SQRT_2.lo.toInt)
    (u := 2 ^ 967)
    (by decide +kernel) (by decide +kernel) (by decide +kernel) (by decide +kernel) (by decide +kernel)

theorem FRAC_1_SQRT_2_correctly_rounded : CorrectlyRoundedDD (1 / √2) consts.FRAC_1_SQRT_2 :=
  ⟨FRAC_1_SQRT_2_hi_correctly_rounded, FRAC_1_SQRT_2_lo_correctly_rounded⟩

theorem FRAC_1_SQRT_2_rel_err :
    |1 / √2 - (consts.FRAC_1_SQRT_2.V : ℝ) / 2 ^ 1074| ≤ |1 / √2| / 2 ^ 107 :=
  FRAC_1_SQRT_2_correctly_rounded.rel_err' (by decide +kernel)

/-! ## 3. transcendental constants: enclosures proved in Lean (Mathlib real analysis), then the same cell test

For each constant `c` a rational enclosure `n₁/d₁ ≤ c ≤ n₂/d₂` is *proved* (truncated series with an explicit
remainder bound from Mathlib), and the kernel checks that the whole enclosure lies strictly inside the cell:
`(2(A+L) − u)·d₁ < 2·n₁·2^1074` and `2·n₂·2^1074 < (2(A+L) + u)·d₂`. -/

/-- `E.hi = RN(e)` -/
theorem E_hi_correctly_rounded : InCell (Real.exp 1 * 2 ^ 1074) consts.E.hi.toInt :=
  inCell_of_enclosure₀ (u := 2 ^ 1023) (by decide +kernel) (by decide +kernel) (by decide +kernel)
    (by decide +kernel) exp_one_enclosure.1 exp_one_enclosure.2 (by decide +kernel) (by decide +kernel)

/-- `E.lo = RN(e − E.hi)` -/
theorem E_lo_correctly_rounded :
    InCell (Real.exp 1 * 2 ^ 1074 - (consts.E.hi.toInt : ℝ)) consts.E.lo.toInt :=
  inCell_of_enclosure (u := 2 ^ 969) (by decide +kernel) (by decide +kernel) (by decide +kernel)
    (by decide +kernel) exp_one_enclosure.1 exp_one_enclosure.2 (by decide +kernel) (by decide +kernel)

theorem E_correctly_rounded : CorrectlyRoundedDD (Real.exp 1) consts.E :=
  ⟨E_hi_correctly_rounded, E_lo_correctly_rounded⟩

theorem E_rel_err : |Real.exp 1 - (consts.E.V : ℝ) / 2 ^ 1074| ≤ |Real.exp 1| / 2 ^ 107 :=
  E_correctly_rounded.rel_err' (by decide +kernel)

/-- `consts::LN_2` is the correctly rounded double-double of `log 2` (series `Σ 2^-(i+1)/(i+1)`, 200 terms) -/
theorem LN_2_correctly_rounded : CorrectlyRoundedDD (Real.log 2) consts.LN_2 :=
  correctlyRounded_of_encl (u := 2 ^ 1021) (v := 2 ^ 966) log_two_encl
    (by decide +kernel) (by decide +kernel) (by decide +kernel) (by decide +kernel)
    (by decide +kernel) (by decide +kernel) (by decide +kernel) (by decide +kernel)

theorem LN_2_hi_correctly_rounded : InCell (Real.log 2 * 2 ^ 1074) consts.LN_2.hi.toInt :=
  LN_2_correctly_rounded.hi
theorem LN_2_lo_correctly_rounded :
    InCell (Real.log 2 * 2 ^ 1074 - (consts.LN_2.hi.toInt : ℝ)) consts.LN_2.lo.toInt :=
  LN_2_correctly_rounded.lo

theorem LN_2_rel_err : |Real.log 2 - (consts.LN_2.V : ℝ) / 2 ^ 1074| ≤ |Real.log 2| / 2 ^ 107 :=
  LN_2_correctly_rounded.rel_err' (by decide +kernel)

/-- `consts::LN_10` is the correctly rounded double-double of `log 10 = 3·log 2 + log (5/4)` -/
theorem LN_10_correctly_rounded : CorrectlyRoundedDD (Real.log 10) consts.LN_10 :=
  correctlyRounded_of_encl (u := 2 ^ 1023) (v := 2 ^ 969) log_ten_encl
    (by decide +kernel) (by decide +kernel) (by decide +kernel) (by decide +kernel)
    (by decide +kernel) (by decide +kernel) (by decide +kernel) (by decide +kernel)

theorem LN_10_hi_correctly_rounded : InCell (Real.log 10 * 2 ^ 1074) consts.LN_10.hi.toInt :=
  LN_10_correctly_rounded.hi
theorem LN_10_lo_correctly_rounded :
    InCell (Real.log 10 * 2 ^ 1074 - (consts.LN_10.hi.toInt : ℝ)) consts.LN_10.lo.toInt :=
  LN_10_correctly_rounded.lo

theorem LN_10_rel_err : |Real.log 10 - (consts.LN_10.V : ℝ) / 2 ^ 1074| ≤ |Real.log 10| / 2 ^ 107 :=
  LN_10_correctly_rounded.rel_err' (by decide +kernel)

/-- `consts::LOG2_E` is the correctly rounded double-double of `log₂ e = 1 / log 2` -/
theorem LOG2_E_correctly_rounded : CorrectlyRoundedDD (Real.logb 2 (Real.exp 1)) consts.LOG2_E :=
  correctlyRounded_of_encl (u := 2 ^ 1022) (v := 2 ^ 966) log2_e_encl
    (by decide +kernel) (by decide +kernel) (by decide +kernel) (by decide +kernel)
    (by decide +kernel) (by decide +kernel) (by decide +kernel) (by decide +kernel)

theorem LOG2_E_hi_correctly_rounded : InCell (Real.logb 2 (Real.exp 1) * 2 ^ 1074) consts.LOG2_E.hi.toInt :=
  LOG2_E_correctly_rounded.hi
theorem LOG2_E_lo_correctly_rounded :
    InCell (Real.logb 2 (Real.exp 1) * 2 ^ 1074 - (consts.LOG2_E.hi.toInt : ℝ)) consts.LOG2_E.lo.toInt :=
  LOG2_E_correctly_rounded.lo

theorem LOG2_E_rel_err : |Real.logb 2 (Real.exp 1) - (consts.LOG2_E.V : ℝ) / 2 ^ 1074| ≤ |Real.logb 2 (Real.exp 1)| / 2 ^ 107 :=
  LOG2_E_correctly_rounded.rel_err' (by decide +kernel)

/-- `consts::LOG10_E` is the correctly rounded double-double of `log₁₀ e = 1 / log 10` -/
theorem LOG10_E_correctly_rounded : CorrectlyRoundedDD (Real.logb 10 (Real.exp 1)) consts.LOG10_E :=
  correctlyRounded_of_encl (u := 2 ^ 1020) (v := 2 ^ 965) log10_e_encl
    (by decide +kernel) (by decide +kernel) (by decide +kernel) (by decide +kernel)
    (by decide +kernel) (by decide +kernel) (by decide +kernel) (by decide +kernel)

theorem LOG10_E_hi_correctly_rounded : InCell (Real.logb 10 (Real.exp 1) * 2 ^ 1074) consts.LOG10_E.hi.toInt :=
  LOG10_E_correctly_rounded.hi
theorem LOG10_E_lo_correctly_rounded :
    InCell (Real.logb 10 (Real.exp 1) * 2 ^ 1074 - (consts.LOG10_E.hi.toInt : ℝ)) consts.LOG10_E.lo.toInt :=
  LOG10_E_correctly_rounded.lo

theorem LOG10_E_rel_err : |Real.logb 10 (Real.exp 1) - (consts.LOG10_E.V : ℝ) / 2 ^ 1074| ≤ |Real.logb 10 (Real.exp 1)| / 2 ^ 107 :=
  LOG10_E_correctly_rounded.rel_err' (by decide +kernel)

/-- `consts::LOG10_2` is the correctly rounded double-double of `log₁₀ 2 = log 2 / log 10` -/
theorem LOG10_2_correctly_rounded : CorrectlyRoundedDD (Real.logb 10 2) consts.LOG10_2 :=
  correctlyRounded_of_encl (u := 2 ^ 1020) (v := 2 ^ 963) log10_2_encl
    (by decide +kernel) (by decide +kernel) (by decide +kernel) (by decide +kernel)
    (by decide +kernel) (by decide +kernel) (by decide +kernel) (by decide +kernel)

theorem LOG10_2_hi_correctly_rounded : InCell (Real.logb 10 2 * 2 ^ 1074) consts.LOG10_2.hi.toInt :=
  LOG10_2_correctly_rounded.hi
theorem LOG10_2_lo_correctly_rounded :
    InCell (Real.logb 10 2 * 2 ^ 1074 - (consts.LOG10_2.hi.toInt : ℝ)) consts.LOG10_2.lo.toInt :=
  LOG10_2_correctly_rounded.lo

theorem LOG10_2_rel_err : |Real.logb 10 2 - (consts.LOG10_2.V : ℝ) / 2 ^ 1074| ≤ |Real.logb 10 2| / 2 ^ 107 :=
  LOG10_2_correctly_rounded.rel_err' (by decide +kernel)

/-- `consts::LOG2_10` is the correctly rounded double-double of `log₂ 10 = log 10 / log 2` -/
theorem LOG2_10_correctly_rounded : CorrectlyRoundedDD (Real.logb 2 10) consts.LOG2_10 :=
  correctlyRounded_of_encl (u := 2 ^ 1023) (v := 2 ^ 969) log2_10_encl
    (by decide +kernel) (by decide +kernel) (by decide +kernel) (by decide +kernel)
    (by decide +kernel) (by decide +kernel) (by decide +kernel) (by decide +kernel)

theorem LOG2_10_hi_correctly_rounded : InCell (Real.logb 2 10 * 2 ^ 1074) consts.LOG2_10.hi.toInt :=
  LOG2_10_correctly_rounded.hi
theorem LOG2_10_lo_correctly_rounded :
    InCell (Real.logb 2 10 * 2 ^ 1074 - (consts.LOG2_10.hi.toInt : ℝ)) consts.LOG2_10.lo.toInt :=
  LOG2_10_correctly_rounded.lo

theorem LOG2_10_rel_err : |Real.logb 2 10 - (consts.LOG2_10.V : ℝ) / 2 ^ 1074| ≤ |Real.logb 2 10| / 2 ^ 107 :=
  LOG2_10_correctly_rounded.rel_err' (by decide +kernel)

/-! ### the `π` family: `π` is enclosed to 136 bits (`ConstBounds.pi_gt_136`, `pi_lt_136`), every multiple, the
reciprocals and `2/√π` inherit rational enclosures, and each constant gets its own cell test -/

/-- `consts::PI` is the correctly rounded double-double of `π` -/
theorem PI_correctly_rounded : CorrectlyRoundedDD (Real.pi) consts.PI :=
  correctlyRounded_of_encl (u := 2 ^ 1023) (v := 2 ^ 969) pi_encl
    (by decide +kernel) (by decide +kernel) (by decide +kernel) (by decide +kernel)
    (by decide +kernel) (by decide +kernel) (by decide +kernel) (by decide +kernel)

theorem PI_hi_correctly_rounded : InCell (Real.pi * 2 ^ 1074) consts.PI.hi.toInt :=
  PI_correctly_rounded.hi
theorem PI_lo_correctly_rounded :
    InCell (Real.pi * 2 ^ 1074 - (consts.PI.hi.toInt : ℝ)) consts.PI.lo.toInt :=
  PI_correctly_rounded.lo

theorem PI_rel_err : |Real.pi - (consts.PI.V : ℝ) / 2 ^ 1074| ≤ |Real.pi| / 2 ^ 107 :=
  PI_correctly_rounded.rel_err' (by decide +kernel)

/-- `consts::TAU` is the correctly rounded double-double of `2π` -/
theorem TAU_correctly_rounded : CorrectlyRoundedDD (2 * Real.pi) consts.TAU :=
  correctlyRounded_of_encl (u := 2 ^ 1024) (v := 2 ^ 970) tau_encl
    (by decide +kernel) (by decide +kernel) (by decide +kernel) (by decide +kernel)
    (by decide +kernel) (by decide +kernel) (by decide +kernel) (by decide +kernel)

theorem TAU_hi_correctly_rounded : InCell (2 * Real.pi * 2 ^ 1074) consts.TAU.hi.toInt :=
  TAU_correctly_rounded.hi
theorem TAU_lo_correctly_rounded :
    InCell (2 * Real.pi * 2 ^ 1074 - (consts.TAU.hi.toInt : ℝ)) consts.TAU.lo.toInt :=
  TAU_correctly_rounded.lo

theorem TAU_rel_err : |2 * Real.pi - (consts.TAU.V : ℝ) / 2 ^ 1074| ≤ |2 * Real.pi| / 2 ^ 107 :=
  TAU_correctly_rounded.rel_err' (by decide +kernel)

/-- `consts::FRAC_PI_2` is the correctly rounded double-double of `π/2` -/
theorem FRAC_PI_2_correctly_rounded : CorrectlyRoundedDD (Real.pi / 2) consts.FRAC_PI_2 :=
  correctlyRounded_of_encl (u := 2 ^ 1022) (v := 2 ^ 968) pi_div_2_encl
    (by decide +kernel) (by decide +kernel) (by decide +kernel) (by decide +kernel)
    (by decide +kernel) (by decide +kernel) (by decide +kernel) (by decide +kernel)

theorem FRAC_PI_2_hi_correctly_rounded : InCell (Real.pi / 2 * 2 ^ 1074) consts.FRAC_PI_2.hi.toInt :=
  FRAC_PI_2_correctly_rounded.hi
theorem FRAC_PI_2_lo_correctly_rounded :
    InCell (Real.pi / 2 * 2 ^ 1074 - (consts.FRAC_PI_2.hi.toInt : ℝ)) consts.FRAC_PI_2.lo.toInt :=
  FRAC_PI_2_correctly_rounded.lo

theorem FRAC_PI_2_rel_err : |Real.pi / 2 - (consts.FRAC_PI_2.V : ℝ) / 2 ^ 1074| ≤ |Real.pi / 2| / 2 ^ 107 :=
  FRAC_PI_2_correctly_rounded.rel_err' (by decide +kernel)

/-- `consts::FRAC_PI_3` is the correctly rounded double-double of `π/3` -/
theorem FRAC_PI_3_correctly_rounded : CorrectlyRoundedDD (Real.pi / 3) consts.FRAC_PI_3 :=
  correctlyRounded_of_encl (u := 2 ^ 1022) (v := 2 ^ 968) pi_div_3_encl
    (by decide +kernel) (by decide +kernel) (by decide +kernel) (by decide +kernel)
    (by decide +kernel) (by decide +kernel) (by decide +kernel) (by decide +kernel)

theorem FRAC_PI_3_hi_correctly_rounded : InCell (Real.pi / 3 * 2 ^ 1074) consts.FRAC_PI_3.hi.toInt :=
  FRAC_PI_3_correctly_rounded.hi
theorem FRAC_PI_3_lo_correctly_rounded :
    InCell (Real.pi / 3 * 2 ^ 1074 - (consts.FRAC_PI_3.hi.toInt : ℝ)) consts.FRAC_PI_3.lo.toInt :=
  FRAC_PI_3_correctly_rounded.lo

theorem FRAC_PI_3_rel_err : |Real.pi / 3 - (consts.FRAC_PI_3.V : ℝ) / 2 ^ 1074| ≤ |Real.pi / 3| / 2 ^ 107 :=
  FRAC_PI_3_correctly_rounded.rel_err' (by decide +kernel)

/-- `consts::FRAC_PI_4` is the correctly rounded double-double of `π/4` -/
theorem FRAC_PI_4_correctly_rounded : CorrectlyRoundedDD (Real.pi / 4) consts.FRAC_PI_4 :=
  correctlyRounded_of_encl (u := 2 ^ 1021) (v := 2 ^ 967) pi_div_4_encl
    (by decide +kernel) (by decide +kernel) (by decide +kernel) (by decide +kernel)
    (by decide +kernel) (by decide +kernel) (by decide +kernel) (by decide +kernel)

theorem FRAC_PI_4_hi_correctly_rounded : InCell (Real.pi / 4 * 2 ^ 1074) consts.FRAC_PI_4.hi.toInt :=
  FRAC_PI_4_correctly_rounded.hi
theorem FRAC_PI_4_lo_correctly_rounded :
    InCell (Real.pi / 4 * 2 ^ 1074 - (consts.FRAC_PI_4.hi.toInt : ℝ)) consts.FRAC_PI_4.lo.toInt :=
  FRAC_PI_4_correctly_rounded.lo

theorem FRAC_PI_4_rel_err : |Real.pi / 4 - (consts.FRAC_PI_4.V : ℝ) / 2 ^ 1074| ≤ |Real.pi / 4| / 2 ^ 107 :=
  FRAC_PI_4_correctly_rounded.rel_err' (by decide +kernel)

/-- `consts::FRAC_PI_6` is the correctly rounded double-double of `π/6` -/
theorem FRAC_PI_6_correctly_rounded : CorrectlyRoundedDD (Real.pi / 6) consts.FRAC_PI_6 :=
  correctlyRounded_of_encl (u := 2 ^ 1021) (v := 2 ^ 967) pi_div_6_encl
    (by decide +kernel) (by decide +kernel) (by decide +kernel) (by decide +kernel)
    (by decide +kernel) (by decide +kernel) (by decide +kernel) (by decide +kernel)

theorem FRAC_PI_6_hi_correctly_rounded : InCell (Real.pi / 6 * 2 ^ 1074) consts.FRAC_PI_6.hi.toInt :=
  FRAC_PI_6_correctly_rounded.hi
theorem FRAC_PI_6_lo_correctly_rounded :
    InCell (Real.pi / 6 * 2 ^ 1074 - (consts.FRAC_PI_6.hi.toInt : ℝ)) consts.FRAC_PI_6.lo.toInt :=
  FRAC_PI_6_correctly_rounded.lo

theorem FRAC_PI_6_rel_err : |Real.pi / 6 - (consts.FRAC_PI_6.V : ℝ) / 2 ^ 1074| ≤ |Real.pi / 6| / 2 ^ 107 :=
  FRAC_PI_6_correctly_rounded.rel_err' (by decide +kernel)

/-- `consts::FRAC_PI_8` is the correctly rounded double-double of `π/8` -/
theorem FRAC_PI_8_correctly_rounded : CorrectlyRoundedDD (Real.pi / 8) consts.FRAC_PI_8 :=
  correctlyRounded_of_encl (u := 2 ^ 1020) (v := 2 ^ 966) pi_div_8_encl
    (by decide +kernel) (by decide +kernel) (by decide +kernel) (by decide +kernel)
    (by decide +kernel) (by decide +kernel) (by decide +kernel) (by decide +kernel)

theorem FRAC_PI_8_hi_correctly_rounded : InCell (Real.pi / 8 * 2 ^ 1074) consts.FRAC_PI_8.hi.toInt :=
  FRAC_PI_8_correctly_rounded.hi
theorem FRAC_PI_8_lo_correctly_rounded :
    InCell (Real.pi / 8 * 2 ^ 1074 - (consts.FRAC_PI_8.hi.toInt : ℝ)) consts.FRAC_PI_8.lo.toInt :=
  FRAC_PI_8_correctly_rounded.lo

theorem FRAC_PI_8_rel_err : |Real.pi / 8 - (consts.FRAC_PI_8.V : ℝ) / 2 ^ 1074| ≤ |Real.pi / 8| / 2 ^ 107 :=
  FRAC_PI_8_correctly_rounded.rel_err' (by decide +kernel)

/-- `consts::FRAC_1_PI` is the correctly rounded double-double of `1/π` -/
theorem FRAC_1_PI_correctly_rounded : CorrectlyRoundedDD (1 / Real.pi) consts.FRAC_1_PI :=
  correctlyRounded_of_encl (u := 2 ^ 1020) (v := 2 ^ 966) one_div_pi_encl
    (by decide +kernel) (by decide +kernel) (by decide +kernel) (by decide +kernel)
    (by decide +kernel) (by decide +kernel) (by decide +kernel) (by decide +kernel)

theorem FRAC_1_PI_hi_correctly_rounded : InCell (1 / Real.pi * 2 ^ 1074) consts.FRAC_1_PI.hi.toInt :=
  FRAC_1_PI_correctly_rounded.hi
theorem FRAC_1_PI_lo_correctly_rounded :
    InCell (1 / Real.pi * 2 ^ 1074 - (consts.FRAC_1_PI.hi.toInt : ℝ)) consts.FRAC_1_PI.lo.toInt :=
  FRAC_1_PI_correctly_rounded.lo

theorem FRAC_1_PI_rel_err : |1 / Real.pi - (consts.FRAC_1_PI.V : ℝ) / 2 ^ 1074| ≤ |1 / Real.pi| / 2 ^ 107 :=
  FRAC_1_PI_correctly_rounded.rel_err' (by decide +kernel)

/-- `consts::FRAC_2_PI` is the correctly rounded double-double of `2/π` -/
theorem FRAC_2_PI_correctly_rounded : CorrectlyRoundedDD (2 / Real.pi) consts.FRAC_2_PI :=
  correctlyRounded_of_encl (u := 2 ^ 1021) (v := 2 ^ 967) two_div_pi_encl
    (by decide +kernel) (by decide +kernel) (by decide +kernel) (by decide +kernel)
    (by decide +kernel) (by decide +kernel) (by decide +kernel) (by decide +kernel)

theorem FRAC_2_PI_hi_correctly_rounded : InCell (2 / Real.pi * 2 ^ 1074) consts.FRAC_2_PI.hi.toInt :=
  FRAC_2_PI_correctly_rounded.hi
theorem FRAC_2_PI_lo_correctly_rounded :
    InCell (2 / Real.pi * 2 ^ 1074 - (consts.FRAC_2_PI.hi.toInt : ℝ)) consts.FRAC_2_PI.lo.toInt :=
  FRAC_2_PI_correctly_rounded.lo

theorem FRAC_2_PI_rel_err : |2 / Real.pi - (consts.FRAC_2_PI.V : ℝ) / 2 ^ 1074| ≤ |2 / Real.pi| / 2 ^ 107 :=
  FRAC_2_PI_correctly_rounded.rel_err' (by decide +kernel)

/-- `consts::FRAC_2_SQRT_PI` is the correctly rounded double-double of `2/√π` -/
theorem FRAC_2_SQRT_PI_correctly_rounded : CorrectlyRoundedDD (2 / √Real.pi) consts.FRAC_2_SQRT_PI :=
  correctlyRounded_of_encl (u := 2 ^ 1022) (v := 2 ^ 966) two_div_sqrt_pi_encl
    (by decide +kernel) (by decide +kernel) (by decide +kernel) (by decide +kernel)
    (by decide +kernel) (by decide +kernel) (by decide +kernel) (by decide +kernel)

theorem FRAC_2_SQRT_PI_hi_correctly_rounded : InCell (2 / √Real.pi * 2 ^ 1074) consts.FRAC_2_SQRT_PI.hi.toInt :=
  FRAC_2_SQRT_PI_correctly_rounded.hi
theorem FRAC_2_SQRT_PI_lo_correctly_rounded :
    InCell (2 / √Real.pi * 2 ^ 1074 - (consts.FRAC_2_SQRT_PI.hi.toInt : ℝ)) consts.FRAC_2_SQRT_PI.lo.toInt :=
  FRAC_2_SQRT_PI_correctly_rounded.lo

theorem FRAC_2_SQRT_PI_rel_err : |2 / √Real.pi - (consts.FRAC_2_SQRT_PI.V : ℝ) / 2 ^ 1074| ≤ |2 / √Real.pi| / 2 ^ 107 :=
  FRAC_2_SQRT_PI_correctly_rounded.rel_err' (by decide +kernel)

/-! ## 4. summary -/

/-- **All 19 published constants are the correctly rounded double-doubles of the real numbers they name**:
`hi = RN(c)` and `lo = RN(c − hi)` (each strictly inside its rounding cell, hence for every tie-breaking rule). -/
theorem all_constants_correctly_rounded :
    CorrectlyRoundedDD (Real.exp 1) consts.E ∧
    CorrectlyRoundedDD (1 / Real.pi) consts.FRAC_1_PI ∧
    CorrectlyRoundedDD (2 / Real.pi) consts.FRAC_2_PI ∧
    CorrectlyRoundedDD (2 / √Real.pi) consts.FRAC_2_SQRT_PI ∧
    CorrectlyRoundedDD (1 / √2) consts.FRAC_1_SQRT_2 ∧
    CorrectlyRoundedDD (Real.pi / 2) consts.FRAC_PI_2 ∧
    CorrectlyRoundedDD (Real.pi / 3) consts.FRAC_PI_3 ∧
    CorrectlyRoundedDD (Real.pi / 4) consts.FRAC_PI_4 ∧
    CorrectlyRoundedDD (Real.pi / 6) consts.FRAC_PI_6 ∧
    CorrectlyRoundedDD (Real.pi / 8) consts.FRAC_PI_8 ∧
    CorrectlyRoundedDD (Real.log 2) consts.LN_2 ∧
    CorrectlyRoundedDD (Real.log 10) consts.LN_10 ∧
    CorrectlyRoundedDD (Real.logb 2 (Real.exp 1)) consts.LOG2_E ∧
    CorrectlyRoundedDD (Real.logb 10 (Real.exp 1)) consts.LOG10_E ∧
    CorrectlyRoundedDD (Real.logb 10 2) consts.LOG10_2 ∧
    CorrectlyRoundedDD (Real.logb 2 10) consts.LOG2_10 ∧
    CorrectlyRoundedDD Real.pi consts.PI ∧
    CorrectlyRoundedDD √2 consts.SQRT_2 ∧
    CorrectlyRoundedDD (2 * Real.pi) consts.TAU :=
  ⟨E_correctly_rounded, FRAC_1_PI_correctly_rounded, FRAC_2_PI_correctly_rounded,
    FRAC_2_SQRT_PI_correctly_rounded, FRAC_1_SQRT_2_correctly_rounded, FRAC_PI_2_correctly_rounded,
    FRAC_PI_3_correctly_rounded, FRAC_PI_4_correctly_rounded, FRAC_PI_6_correctly_rounded,
    FRAC_PI_8_correctly_rounded, LN_2_correctly_rounded, LN_10_correctly_rounded, LOG2_E_correctly_rounded,
    LOG10_E_correctly_rounded, LOG10_2_correctly_rounded, LOG2_10_correctly_rounded, PI_correctly_rounded,
    SQRT_2_correctly_rounded, TAU_correctly_rounded⟩

/-- what "correctly rounded" buys, for any constant: the high word is the *unique* nearest double to `c`
(every other double is strictly farther), and likewise the low word for `c − hi` -/
theorem CorrectlyRoundedDD_unique_nearest {c : ℝ} {t : TwoFloat} (h : CorrectlyRoundedDD c t) (hw : t.WF) :
    (∀ y : ℤ, Rep y.natAbs → y ≠ t.hi.toInt → |c * 2 ^ 1074 - (t.hi.toInt : ℝ)| < |c * 2 ^ 1074 - (y : ℝ)|) ∧
    (∀ y : ℤ, Rep y.natAbs → y ≠ t.lo.toInt →
      |c * 2 ^ 1074 - (t.hi.toInt : ℝ) - (t.lo.toInt : ℝ)| < |c * 2 ^ 1074 - (t.hi.toInt : ℝ) - (y : ℝ)|) :=
  ⟨fun _ hy hne => h.hi.lt_of_ne (rep_natAbs_toInt hw.1) hy hne,
   fun _ hy hne => h.lo.lt_of_ne (rep_natAbs_toInt hw.2) hy hne⟩

end C12x
