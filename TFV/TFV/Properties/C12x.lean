/-
C12x — the parts of property C12 that are not closed finite-table facts (those are in `TFV.Properties.C12`):

* `max_is_greatest`: `TwoFloat::MAX` / `TwoFloat::MIN` bound every valid double-double (universally
  quantified, not just the neighbouring bit patterns checked in `C12.MAX_extreme`),
* the constants are the *correctly rounded* double-doubles of the real numbers they name.
-/
import TFV.Lemmas.ConstBounds
import TFV.Lemmas.NoOverlap
import TFV.Properties.C06
import TFV.Properties.C07
import TFV.Properties.C12

set_option exponentiation.threshold 3000

namespace C12x
open F64 ConstBounds

/-! ## 1. MAX and MIN are the extreme valid values -/

/-- `TwoFloat::MAX = f64::MAX + pred(2^970)` in scaled integers -/
theorem MAX_V : TwoFloat.MAX.V = (maxFin : ℤ) + (maxLo : ℤ) := by
  unfold maxLo; rw [maxFin_eq]; decide +kernel

theorem MIN_V : TwoFloat.MIN.V = -((maxFin : ℤ) + (maxLo : ℤ)) := by
  unfold maxLo; rw [maxFin_eq]; decide +kernel

/-- **MAX is the largest and MIN the smallest valid double-double.**  For every pair of doubles `t`
(`t.WF`: both words are bit patterns of doubles) that satisfies Definition 1.4 (`t.Valid`: both words finite and
`hi = RN(hi + lo)`), the exact value `t.V = hi + lo` lies between `TwoFloat::MIN` and `TwoFloat::MAX`.

Proof idea: if `hi + lo > MAX` then `RN(hi + lo) ≥ RN(f64::MAX) = f64::MAX` forces `hi = f64::MAX`; then
`lo > pred(2^970)` is a double, so `lo ≥ 2^970`, and `f64::MAX + 2^970` is the tie that rounds (to even) to
`2^1024 > f64::MAX` — contradiction. -/
theorem max_is_greatest {t : TwoFloat} (hw : t.WF) (hv : t.Valid) :
    t.V ≤ TwoFloat.MAX.V ∧ TwoFloat.MIN.V ≤ t.V := by
  have hH : t.hi.toInt = rnI (t.hi.toInt + t.lo.toInt) := hv.hi_toInt
  have hb := toInt_le_maxFin hw.1
  have hL := rep_natAbs_toInt hw.2
  rw [MAX_V, MIN_V]
  exact ⟨valid_V_le hH hb.1 hL, valid_V_ge hH hb.2 hL⟩

/-- the same for every pair accepted by the crate's own `is_valid()` -/
theorem max_is_greatest_is_valid {t : TwoFloat} (hw : t.WF) (hv : TwoFloat.is_valid t = true) :
    t.V ≤ TwoFloat.MAX.V ∧ TwoFloat.MIN.V ≤ t.V :=
  max_is_greatest hw ((C07.is_valid_iff t hw).1 hv)

/-- … and `MAX`, `MIN` are themselves valid, so the bounds are attained -/
theorem MAX_MIN_attained :
    TwoFloat.MAX.WF ∧ TwoFloat.MAX.Valid ∧ TwoFloat.MIN.WF ∧ TwoFloat.MIN.Valid := by
  refine ⟨⟨?_, ?_⟩, C12.Valid_MAX, ⟨?_, ?_⟩, C12.Valid_MIN⟩ <;> decide +kernel

/-- restated with the crate's comparison: `t.partial_cmp(&MAX)` is `Some(Less)` or `Some(Equal)`, and
`t.partial_cmp(&MIN)` is `Some(Greater)` or `Some(Equal)`, for every valid `t` -/
theorem partial_cmp_MAX {t : TwoFloat} (hw : t.WF) (hv : t.Valid) :
    ROrd.isLe (C06.tcmp t TwoFloat.MAX) = true ∧ ROrd.isGe (C06.tcmp t TwoFloat.MIN) = true := by
  have h := max_is_greatest hw hv
  have hiv := (C07.is_valid_iff t hw).2 hv
  rw [C06.partial_cmp_exact' hiv hv C12.is_valid_MAX C12.Valid_MAX,
    C06.partial_cmp_exact' hiv hv C12.is_valid_MIN C12.Valid_MIN, ROrd.isLe_ofInts, ROrd.isGe_ofInts]
  exact h

theorem partial_cmp_MAX' {t : TwoFloat} (hw : t.WF) (hv : t.Valid) :
    (base.impl_PartialOrd_TwoFloat_for_TwoFloat.partial_cmp t TwoFloat.MAX = some .Less ∨
      base.impl_PartialOrd_TwoFloat_for_TwoFloat.partial_cmp t TwoFloat.MAX = some .Equal) ∧
    (base.impl_PartialOrd_TwoFloat_for_TwoFloat.partial_cmp t TwoFloat.MIN = some .Greater ∨
      base.impl_PartialOrd_TwoFloat_for_TwoFloat.partial_cmp t TwoFloat.MIN = some .Equal) := by
  have h := partial_cmp_MAX hw hv
  unfold C06.tcmp at h
  generalize base.impl_PartialOrd_TwoFloat_for_TwoFloat.partial_cmp t TwoFloat.MAX = p at h
  generalize base.impl_PartialOrd_TwoFloat_for_TwoFloat.partial_cmp t TwoFloat.MIN = q at h
  rcases p with _ | (_ | _ | _) <;> rcases q with _ | (_ | _ | _) <;> simp [ROrd.isLe, ROrd.isGe] at h ⊢

end C12x
