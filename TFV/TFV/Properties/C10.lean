/-
C10 — every spelling of an operation gives the bit-identical result.

All statements here are *structural identities*: both sides unfold to the same term (`rfl`).  They guard
the hand-duplicated bodies in the Rust crate (`op_impl!`/`assign_impl!` expansions, the num_traits
forwarding impls): the model is regenerated from the Rust source on every run, so if one copy of a
duplicated body is edited, the corresponding theorem stops type-checking.

GENERATED TEXT (by a throw-away script from model/defs.json) but plain Lean: no macros, no metaprogramming.
-/
import TFV.Spec.Defs
import TFV.Lemmas.Ident

namespace C10

/-! ## 1. Binary operators: the four by-value / by-reference forms of each pairing -/

theorem add_tt_val_ref : arithmetic.impl_Add_TwoFloat_for_rTwoFloat.add = arithmetic.impl_Add_rTwoFloat_for_rTwoFloat.add := rfl
theorem add_tt_ref_val : arithmetic.impl_Add_rTwoFloat_for_TwoFloat.add = arithmetic.impl_Add_rTwoFloat_for_rTwoFloat.add := rfl
theorem add_tt_val_val : arithmetic.impl_Add_TwoFloat_for_TwoFloat.add = arithmetic.impl_Add_rTwoFloat_for_rTwoFloat.add := rfl
theorem add_tt_notation (a : TwoFloat) (b : TwoFloat) : a +. b = arithmetic.impl_Add_rTwoFloat_for_rTwoFloat.add a b := rfl

theorem add_tf_val_ref : arithmetic.impl_Add_f64_for_rTwoFloat.add = arithmetic.impl_Add_rf64_for_rTwoFloat.add := rfl
theorem add_tf_ref_val : arithmetic.impl_Add_rf64_for_TwoFloat.add = arithmetic.impl_Add_rf64_for_rTwoFloat.add := rfl
theorem add_tf_val_val : arithmetic.impl_Add_f64_for_TwoFloat.add = arithmetic.impl_Add_rf64_for_rTwoFloat.add := rfl
theorem add_tf_notation (a : TwoFloat) (b : F64) : a +. b = arithmetic.impl_Add_rf64_for_rTwoFloat.add a b := rfl

theorem add_ft_val_ref : arithmetic.impl_Add_TwoFloat_for_rf64.add = arithmetic.impl_Add_rTwoFloat_for_rf64.add := rfl
theorem add_ft_ref_val : arithmetic.impl_Add_rTwoFloat_for_f64.add = arithmetic.impl_Add_rTwoFloat_for_rf64.add := rfl
theorem add_ft_val_val : arithmetic.impl_Add_TwoFloat_for_f64.add = arithmetic.impl_Add_rTwoFloat_for_rf64.add := rfl
theorem add_ft_notation (a : F64) (b : TwoFloat) : a +. b = arithmetic.impl_Add_rTwoFloat_for_rf64.add a b := rfl

theorem sub_tt_val_ref : arithmetic.impl_Sub_TwoFloat_for_rTwoFloat.sub = arithmetic.impl_Sub_rTwoFloat_for_rTwoFloat.sub := rfl
theorem sub_tt_ref_val : arithmetic.impl_Sub_rTwoFloat_for_TwoFloat.sub = arithmetic.impl_Sub_rTwoFloat_for_rTwoFloat.sub := rfl
theorem sub_tt_val_val : arithmetic.impl_Sub_TwoFloat_for_TwoFloat.sub = arithmetic.impl_Sub_rTwoFloat_for_rTwoFloat.sub := rfl
theorem sub_tt_notation (a : TwoFloat) (b : TwoFloat) : a -. b = arithmetic.impl_Sub_rTwoFloat_for_rTwoFloat.sub a b := rfl

theorem sub_tf_val_ref : arithmetic.impl_Sub_f64_for_rTwoFloat.sub = arithmetic.impl_Sub_rf64_for_rTwoFloat.sub := rfl
theorem sub_tf_ref_val : arithmetic.impl_Sub_rf64_for_TwoFloat.sub = arithmetic.impl_Sub_rf64_for_rTwoFloat.sub := rfl
theorem sub_tf_val_val : arithmetic.impl_Sub_f64_for_TwoFloat.sub = arithmetic.impl_Sub_rf64_for_rTwoFloat.sub := rfl
theorem sub_tf_notation (a : TwoFloat) (b : F64) : a -. b = arithmetic.impl_Sub_rf64_for_rTwoFloat.sub a b := rfl

theorem sub_ft_val_ref : arithmetic.impl_Sub_TwoFloat_for_rf64.sub = arithmetic.impl_Sub_rTwoFloat_for_rf64.sub := rfl
theorem sub_ft_ref_val : arithmetic.impl_Sub_rTwoFloat_for_f64.sub = arithmetic.impl_Sub_rTwoFloat_for_rf64.sub := rfl
theorem sub_ft_val_val : arithmetic.impl_Sub_TwoFloat_for_f64.sub = arithmetic.impl_Sub_rTwoFloat_for_rf64.sub := rfl
theorem sub_ft_notation (a : F64) (b : TwoFloat) : a -. b = arithmetic.impl_Sub_rTwoFloat_for_rf64.sub a b := rfl

theorem mul_tt_val_ref : arithmetic.impl_Mul_TwoFloat_for_rTwoFloat.mul = arithmetic.impl_Mul_rTwoFloat_for_rTwoFloat.mul := rfl
theorem mul_tt_ref_val : arithmetic.impl_Mul_rTwoFloat_for_TwoFloat.mul = arithmetic.impl_Mul_rTwoFloat_for_rTwoFloat.mul := rfl
theorem mul_tt_val_val : arithmetic.impl_Mul_TwoFloat_for_TwoFloat.mul = arithmetic.impl_Mul_rTwoFloat_for_rTwoFloat.mul := rfl
theorem mul_tt_notation (a : TwoFloat) (b : TwoFloat) : a *. b = arithmetic.impl_Mul_rTwoFloat_for_rTwoFloat.mul a b := rfl

theorem mul_tf_val_ref : arithmetic.impl_Mul_f64_for_rTwoFloat.mul = arithmetic.impl_Mul_rf64_for_rTwoFloat.mul := rfl
theorem mul_tf_ref_val : arithmetic.impl_Mul_rf64_for_TwoFloat.mul = arithmetic.impl_Mul_rf64_for_rTwoFloat.mul := rfl
theorem mul_tf_val_val : arithmetic.impl_Mul_f64_for_TwoFloat.mul = arithmetic.impl_Mul_rf64_for_rTwoFloat.mul := rfl
theorem mul_tf_notation (a : TwoFloat) (b : F64) : a *. b = arithmetic.impl_Mul_rf64_for_rTwoFloat.mul a b := rfl

theorem mul_ft_val_ref : arithmetic.impl_Mul_TwoFloat_for_rf64.mul = arithmetic.impl_Mul_rTwoFloat_for_rf64.mul := rfl
theorem mul_ft_ref_val : arithmetic.impl_Mul_rTwoFloat_for_f64.mul = arithmetic.impl_Mul_rTwoFloat_for_rf64.mul := rfl
theorem mul_ft_val_val : arithmetic.impl_Mul_TwoFloat_for_f64.mul = arithmetic.impl_Mul_rTwoFloat_for_rf64.mul := rfl
theorem mul_ft_notation (a : F64) (b : TwoFloat) : a *. b = arithmetic.impl_Mul_rTwoFloat_for_rf64.mul a b := rfl

theorem div_tt_val_ref : arithmetic.impl_Div_TwoFloat_for_rTwoFloat.div = arithmetic.impl_Div_rTwoFloat_for_rTwoFloat.div := rfl
theorem div_tt_ref_val : arithmetic.impl_Div_rTwoFloat_for_TwoFloat.div = arithmetic.impl_Div_rTwoFloat_for_rTwoFloat.div := rfl
theorem div_tt_val_val : arithmetic.impl_Div_TwoFloat_for_TwoFloat.div = arithmetic.impl_Div_rTwoFloat_for_rTwoFloat.div := rfl
theorem div_tt_notation (a : TwoFloat) (b : TwoFloat) : a /. b = arithmetic.impl_Div_rTwoFloat_for_rTwoFloat.div a b := rfl

theorem div_tf_val_ref : arithmetic.impl_Div_f64_for_rTwoFloat.div = arithmetic.impl_Div_rf64_for_rTwoFloat.div := rfl
theorem div_tf_ref_val : arithmetic.impl_Div_rf64_for_TwoFloat.div = arithmetic.impl_Div_rf64_for_rTwoFloat.div := rfl
theorem div_tf_val_val : arithmetic.impl_Div_f64_for_TwoFloat.div = arithmetic.impl_Div_rf64_for_rTwoFloat.div := rfl
theorem div_tf_notation (a : TwoFloat) (b : F64) : a /. b = arithmetic.impl_Div_rf64_for_rTwoFloat.div a b := rfl

theorem div_ft_val_ref : arithmetic.impl_Div_TwoFloat_for_rf64.div = arithmetic.impl_Div_rTwoFloat_for_rf64.div := rfl
theorem div_ft_ref_val : arithmetic.impl_Div_rTwoFloat_for_f64.div = arithmetic.impl_Div_rTwoFloat_for_rf64.div := rfl
theorem div_ft_val_val : arithmetic.impl_Div_TwoFloat_for_f64.div = arithmetic.impl_Div_rTwoFloat_for_rf64.div := rfl
theorem div_ft_notation (a : F64) (b : TwoFloat) : a /. b = arithmetic.impl_Div_rTwoFloat_for_rf64.div a b := rfl

theorem rem_tt_val_ref : arithmetic.impl_Rem_TwoFloat_for_rTwoFloat.rem = arithmetic.impl_Rem_rTwoFloat_for_rTwoFloat.rem := rfl
theorem rem_tt_ref_val : arithmetic.impl_Rem_rTwoFloat_for_TwoFloat.rem = arithmetic.impl_Rem_rTwoFloat_for_rTwoFloat.rem := rfl
theorem rem_tt_val_val : arithmetic.impl_Rem_TwoFloat_for_TwoFloat.rem = arithmetic.impl_Rem_rTwoFloat_for_rTwoFloat.rem := rfl
theorem rem_tt_notation (a : TwoFloat) (b : TwoFloat) : a %. b = arithmetic.impl_Rem_rTwoFloat_for_rTwoFloat.rem a b := rfl

theorem rem_tf_val_ref : arithmetic.impl_Rem_f64_for_rTwoFloat.rem = arithmetic.impl_Rem_rf64_for_rTwoFloat.rem := rfl
theorem rem_tf_ref_val : arithmetic.impl_Rem_rf64_for_TwoFloat.rem = arithmetic.impl_Rem_rf64_for_rTwoFloat.rem := rfl
theorem rem_tf_val_val : arithmetic.impl_Rem_f64_for_TwoFloat.rem = arithmetic.impl_Rem_rf64_for_rTwoFloat.rem := rfl
theorem rem_tf_notation (a : TwoFloat) (b : F64) : a %. b = arithmetic.impl_Rem_rf64_for_rTwoFloat.rem a b := rfl

theorem rem_ft_val_ref : arithmetic.impl_Rem_TwoFloat_for_rf64.rem = arithmetic.impl_Rem_rTwoFloat_for_rf64.rem := rfl
theorem rem_ft_ref_val : arithmetic.impl_Rem_rTwoFloat_for_f64.rem = arithmetic.impl_Rem_rTwoFloat_for_rf64.rem := rfl
theorem rem_ft_val_val : arithmetic.impl_Rem_TwoFloat_for_f64.rem = arithmetic.impl_Rem_rTwoFloat_for_rf64.rem := rfl
theorem rem_ft_notation (a : F64) (b : TwoFloat) : a %. b = arithmetic.impl_Rem_rTwoFloat_for_rf64.rem a b := rfl

/-! ## 2. Compound assignment = operator (hand-duplicated bodies in the Rust source) -/

theorem add_assign_tf_ref : arithmetic.impl_AddAssign_rf64_for_TwoFloat.add_assign = arithmetic.impl_Add_rf64_for_rTwoFloat.add := rfl
theorem add_assign_tf_val : arithmetic.impl_AddAssign_f64_for_TwoFloat.add_assign = arithmetic.impl_Add_rf64_for_rTwoFloat.add := rfl
theorem add_assign_tt_ref : arithmetic.impl_AddAssign_rTwoFloat_for_TwoFloat.add_assign = arithmetic.impl_Add_rTwoFloat_for_rTwoFloat.add := rfl
theorem add_assign_tt_val : arithmetic.impl_AddAssign_TwoFloat_for_TwoFloat.add_assign = arithmetic.impl_Add_rTwoFloat_for_rTwoFloat.add := rfl

theorem sub_assign_tf_ref : arithmetic.impl_SubAssign_rf64_for_TwoFloat.sub_assign = arithmetic.impl_Sub_rf64_for_rTwoFloat.sub := rfl
theorem sub_assign_tf_val : arithmetic.impl_SubAssign_f64_for_TwoFloat.sub_assign = arithmetic.impl_Sub_rf64_for_rTwoFloat.sub := rfl
theorem sub_assign_tt_ref : arithmetic.impl_SubAssign_rTwoFloat_for_TwoFloat.sub_assign = arithmetic.impl_Sub_rTwoFloat_for_rTwoFloat.sub := rfl
theorem sub_assign_tt_val : arithmetic.impl_SubAssign_TwoFloat_for_TwoFloat.sub_assign = arithmetic.impl_Sub_rTwoFloat_for_rTwoFloat.sub := rfl

theorem mul_assign_tf_ref : arithmetic.impl_MulAssign_rf64_for_TwoFloat.mul_assign = arithmetic.impl_Mul_rf64_for_rTwoFloat.mul := rfl
theorem mul_assign_tf_val : arithmetic.impl_MulAssign_f64_for_TwoFloat.mul_assign = arithmetic.impl_Mul_rf64_for_rTwoFloat.mul := rfl
theorem mul_assign_tt_ref : arithmetic.impl_MulAssign_rTwoFloat_for_TwoFloat.mul_assign = arithmetic.impl_Mul_rTwoFloat_for_rTwoFloat.mul := rfl
theorem mul_assign_tt_val : arithmetic.impl_MulAssign_TwoFloat_for_TwoFloat.mul_assign = arithmetic.impl_Mul_rTwoFloat_for_rTwoFloat.mul := rfl

theorem div_assign_tf_ref : arithmetic.impl_DivAssign_rf64_for_TwoFloat.div_assign = arithmetic.impl_Div_rf64_for_rTwoFloat.div := rfl
theorem div_assign_tf_val : arithmetic.impl_DivAssign_f64_for_TwoFloat.div_assign = arithmetic.impl_Div_rf64_for_rTwoFloat.div := rfl
theorem div_assign_tt_ref : arithmetic.impl_DivAssign_rTwoFloat_for_TwoFloat.div_assign = arithmetic.impl_Div_rTwoFloat_for_rTwoFloat.div := rfl
theorem div_assign_tt_val : arithmetic.impl_DivAssign_TwoFloat_for_TwoFloat.div_assign = arithmetic.impl_Div_rTwoFloat_for_rTwoFloat.div := rfl

theorem rem_assign_tf_ref : arithmetic.impl_RemAssign_rf64_for_TwoFloat.rem_assign = arithmetic.impl_Rem_rf64_for_rTwoFloat.rem := rfl
theorem rem_assign_tf_val : arithmetic.impl_RemAssign_f64_for_TwoFloat.rem_assign = arithmetic.impl_Rem_rf64_for_rTwoFloat.rem := rfl
theorem rem_assign_tt_ref : arithmetic.impl_RemAssign_rTwoFloat_for_TwoFloat.rem_assign = arithmetic.impl_Rem_rTwoFloat_for_rTwoFloat.rem := rfl
theorem rem_assign_tt_val : arithmetic.impl_RemAssign_TwoFloat_for_TwoFloat.rem_assign = arithmetic.impl_Rem_rTwoFloat_for_rTwoFloat.rem := rfl

/-! ## 3. Negation -/

theorem neg_val : arithmetic.impl_Neg_for_TwoFloat.neg = arithmetic.impl_Neg_for_rTwoFloat.neg := rfl

theorem neg_words (x : TwoFloat) :
    arithmetic.impl_Neg_for_rTwoFloat.neg x = ⟨F64.neg x.hi, F64.neg x.lo⟩ := rfl

/-- `-(-x)` is bit-identical to `x` (every NaN is one value in the model). -/
theorem neg_neg (x : TwoFloat) :
    arithmetic.impl_Neg_for_rTwoFloat.neg (arithmetic.impl_Neg_for_rTwoFloat.neg x) = x :=
  Ident.tf_neg_neg x

theorem neg_neg_val (x : TwoFloat) :
    arithmetic.impl_Neg_for_TwoFloat.neg (arithmetic.impl_Neg_for_TwoFloat.neg x) = x :=
  Ident.tf_neg_neg x

/-! ## 4. `x + f ≡ f + x`, `x * f ≡ f * x` (the f64-on-the-left impls have textually different bodies) -/

theorem add_comm_tf_ft :
    arithmetic.impl_Add_rTwoFloat_for_rf64.add = fun f x => arithmetic.impl_Add_rf64_for_rTwoFloat.add x f := rfl

theorem mul_comm_tf_ft :
    arithmetic.impl_Mul_rTwoFloat_for_rf64.mul = fun f x => arithmetic.impl_Mul_rf64_for_rTwoFloat.mul x f := rfl

theorem add_comm_notation (x : TwoFloat) (f : F64) : f +. x = x +. f := rfl
theorem mul_comm_notation (x : TwoFloat) (f : F64) : f *. x = x *. f := rfl

/-! ## 5. `Iterator::sum` -/

theorem sum_eq_foldl_tt (xs : List TwoFloat) :
    iter.impl_Sum_T_for_TwoFloat.sum xs
      = xs.foldl (fun a b => a +. b) num_integration.impl_Zero_for_TwoFloat.zero := rfl

theorem sum_eq_foldl_tf (xs : List F64) :
    iter.impl_Sum_T_for_TwoFloat.sum xs
      = xs.foldl (fun (a : TwoFloat) (b : F64) => a +. b) num_integration.impl_Zero_for_TwoFloat.zero := rfl

theorem sum_eq_foldl_tt_impl (xs : List TwoFloat) :
    iter.impl_Sum_T_for_TwoFloat.sum xs
      = xs.foldl arithmetic.impl_Add_rTwoFloat_for_rTwoFloat.add ⟨f64lit 0, f64lit 0⟩ := rfl

theorem sum_eq_foldl_tf_impl (xs : List F64) :
    iter.impl_Sum_T_for_TwoFloat.sum xs
      = xs.foldl arithmetic.impl_Add_rf64_for_rTwoFloat.add ⟨f64lit 0, f64lit 0⟩ := rfl

theorem sum_nil_tt : iter.impl_Sum_T_for_TwoFloat.sum ([] : List TwoFloat) = ⟨f64lit 0, f64lit 0⟩ := rfl
theorem sum_nil_tf : iter.impl_Sum_T_for_TwoFloat.sum ([] : List F64) = ⟨f64lit 0, f64lit 0⟩ := rfl

theorem sum_cons_tt (x : TwoFloat) (xs : List TwoFloat) :
    iter.impl_Sum_T_for_TwoFloat.sum (x :: xs)
      = xs.foldl (fun a b => a +. b) (num_integration.impl_Zero_for_TwoFloat.zero +. x) := rfl

/-! ## 6. num_traits entry points = inherent methods -/

/-! ### `Float` -/

theorem Float_to_degrees : num_integration.impl_Float_for_TwoFloat.to_degrees = TwoFloat.to_degrees := rfl
theorem Float_to_radians : num_integration.impl_Float_for_TwoFloat.to_radians = TwoFloat.to_radians := rfl
theorem Float_floor : num_integration.impl_Float_for_TwoFloat.floor = TwoFloat.floor := rfl
theorem Float_ceil : num_integration.impl_Float_for_TwoFloat.ceil = TwoFloat.ceil := rfl
theorem Float_round : num_integration.impl_Float_for_TwoFloat.round = TwoFloat.round := rfl
theorem Float_trunc : num_integration.impl_Float_for_TwoFloat.trunc = TwoFloat.trunc := rfl
theorem Float_fract : num_integration.impl_Float_for_TwoFloat.fract = TwoFloat.fract := rfl
theorem Float_abs : num_integration.impl_Float_for_TwoFloat.abs = TwoFloat.abs := rfl
theorem Float_signum : num_integration.impl_Float_for_TwoFloat.signum = TwoFloat.signum := rfl
theorem Float_signum_pf : num_integration.impl_Float_for_TwoFloat.signum.pf = TwoFloat.signum.pf := rfl
theorem Float_is_sign_positive : num_integration.impl_Float_for_TwoFloat.is_sign_positive = TwoFloat.is_sign_positive := rfl
theorem Float_is_sign_negative : num_integration.impl_Float_for_TwoFloat.is_sign_negative = TwoFloat.is_sign_negative := rfl
theorem Float_min : num_integration.impl_Float_for_TwoFloat.min = TwoFloat.min := rfl
theorem Float_min_pf : num_integration.impl_Float_for_TwoFloat.min.pf = TwoFloat.min.pf := rfl
theorem Float_max : num_integration.impl_Float_for_TwoFloat.max = TwoFloat.max := rfl
theorem Float_max_pf : num_integration.impl_Float_for_TwoFloat.max.pf = TwoFloat.max.pf := rfl
theorem Float_recip : num_integration.impl_Float_for_TwoFloat.recip = TwoFloat.recip := rfl
theorem Float_powi : num_integration.impl_Float_for_TwoFloat.powi = TwoFloat.powi := rfl
theorem Float_powi_pf : num_integration.impl_Float_for_TwoFloat.powi.pf = TwoFloat.powi.pf := rfl
theorem Float_powf : num_integration.impl_Float_for_TwoFloat.powf = TwoFloat.powf := rfl
theorem Float_powf_pf : num_integration.impl_Float_for_TwoFloat.powf.pf = TwoFloat.powf.pf := rfl
theorem Float_sqrt : num_integration.impl_Float_for_TwoFloat.sqrt = TwoFloat.sqrt := rfl
theorem Float_exp : num_integration.impl_Float_for_TwoFloat.exp = TwoFloat.exp := rfl
theorem Float_exp_pf : num_integration.impl_Float_for_TwoFloat.exp.pf = TwoFloat.exp.pf := rfl
theorem Float_exp2 : num_integration.impl_Float_for_TwoFloat.exp2 = TwoFloat.exp2 := rfl
theorem Float_exp2_pf : num_integration.impl_Float_for_TwoFloat.exp2.pf = TwoFloat.exp2.pf := rfl
theorem Float_ln : num_integration.impl_Float_for_TwoFloat.ln = TwoFloat.ln := rfl
theorem Float_ln_pf : num_integration.impl_Float_for_TwoFloat.ln.pf = TwoFloat.ln.pf := rfl
theorem Float_log : num_integration.impl_Float_for_TwoFloat.log = TwoFloat.log := rfl
theorem Float_log_pf : num_integration.impl_Float_for_TwoFloat.log.pf = TwoFloat.log.pf := rfl
theorem Float_log2 : num_integration.impl_Float_for_TwoFloat.log2 = TwoFloat.log2 := rfl
theorem Float_log2_pf : num_integration.impl_Float_for_TwoFloat.log2.pf = TwoFloat.log2.pf := rfl
theorem Float_log10 : num_integration.impl_Float_for_TwoFloat.log10 = TwoFloat.log10 := rfl
theorem Float_log10_pf : num_integration.impl_Float_for_TwoFloat.log10.pf = TwoFloat.log10.pf := rfl
theorem Float_cbrt : num_integration.impl_Float_for_TwoFloat.cbrt = TwoFloat.cbrt := rfl
theorem Float_hypot : num_integration.impl_Float_for_TwoFloat.hypot = TwoFloat.hypot := rfl
theorem Float_sin : num_integration.impl_Float_for_TwoFloat.sin = TwoFloat.sin := rfl
theorem Float_sin_pf : num_integration.impl_Float_for_TwoFloat.sin.pf = TwoFloat.sin.pf := rfl
theorem Float_cos : num_integration.impl_Float_for_TwoFloat.cos = TwoFloat.cos := rfl
theorem Float_cos_pf : num_integration.impl_Float_for_TwoFloat.cos.pf = TwoFloat.cos.pf := rfl
theorem Float_tan : num_integration.impl_Float_for_TwoFloat.tan = TwoFloat.tan := rfl
theorem Float_tan_pf : num_integration.impl_Float_for_TwoFloat.tan.pf = TwoFloat.tan.pf := rfl
theorem Float_asin : num_integration.impl_Float_for_TwoFloat.asin = TwoFloat.asin := rfl
theorem Float_asin_pf : num_integration.impl_Float_for_TwoFloat.asin.pf = TwoFloat.asin.pf := rfl
theorem Float_acos : num_integration.impl_Float_for_TwoFloat.acos = TwoFloat.acos := rfl
theorem Float_acos_pf : num_integration.impl_Float_for_TwoFloat.acos.pf = TwoFloat.acos.pf := rfl
theorem Float_atan : num_integration.impl_Float_for_TwoFloat.atan = TwoFloat.atan := rfl
theorem Float_atan_pf : num_integration.impl_Float_for_TwoFloat.atan.pf = TwoFloat.atan.pf := rfl
theorem Float_atan2 : num_integration.impl_Float_for_TwoFloat.atan2 = TwoFloat.atan2 := rfl
theorem Float_atan2_pf : num_integration.impl_Float_for_TwoFloat.atan2.pf = TwoFloat.atan2.pf := rfl
theorem Float_sin_cos : num_integration.impl_Float_for_TwoFloat.sin_cos = TwoFloat.sin_cos := rfl
theorem Float_sin_cos_pf : num_integration.impl_Float_for_TwoFloat.sin_cos.pf = TwoFloat.sin_cos.pf := rfl
theorem Float_exp_m1 : num_integration.impl_Float_for_TwoFloat.exp_m1 = TwoFloat.exp_m1 := rfl
theorem Float_exp_m1_pf : num_integration.impl_Float_for_TwoFloat.exp_m1.pf = TwoFloat.exp_m1.pf := rfl
theorem Float_ln_1p : num_integration.impl_Float_for_TwoFloat.ln_1p = TwoFloat.ln_1p := rfl
theorem Float_ln_1p_pf : num_integration.impl_Float_for_TwoFloat.ln_1p.pf = TwoFloat.ln_1p.pf := rfl
theorem Float_sinh : num_integration.impl_Float_for_TwoFloat.sinh = TwoFloat.sinh := rfl
theorem Float_sinh_pf : num_integration.impl_Float_for_TwoFloat.sinh.pf = TwoFloat.sinh.pf := rfl
theorem Float_cosh : num_integration.impl_Float_for_TwoFloat.cosh = TwoFloat.cosh := rfl
theorem Float_cosh_pf : num_integration.impl_Float_for_TwoFloat.cosh.pf = TwoFloat.cosh.pf := rfl
theorem Float_tanh : num_integration.impl_Float_for_TwoFloat.tanh = TwoFloat.tanh := rfl
theorem Float_tanh_pf : num_integration.impl_Float_for_TwoFloat.tanh.pf = TwoFloat.tanh.pf := rfl
theorem Float_asinh : num_integration.impl_Float_for_TwoFloat.asinh = TwoFloat.asinh := rfl
theorem Float_asinh_pf : num_integration.impl_Float_for_TwoFloat.asinh.pf = TwoFloat.asinh.pf := rfl
theorem Float_acosh : num_integration.impl_Float_for_TwoFloat.acosh = TwoFloat.acosh := rfl
theorem Float_acosh_pf : num_integration.impl_Float_for_TwoFloat.acosh.pf = TwoFloat.acosh.pf := rfl
theorem Float_atanh : num_integration.impl_Float_for_TwoFloat.atanh = TwoFloat.atanh := rfl
theorem Float_atanh_pf : num_integration.impl_Float_for_TwoFloat.atanh.pf = TwoFloat.atanh.pf := rfl

/-! ### `FloatCore` -/

theorem FloatCore_to_degrees : num_integration.impl_FloatCore_for_TwoFloat.to_degrees = TwoFloat.to_degrees := rfl
theorem FloatCore_to_radians : num_integration.impl_FloatCore_for_TwoFloat.to_radians = TwoFloat.to_radians := rfl
theorem FloatCore_floor : num_integration.impl_FloatCore_for_TwoFloat.floor = TwoFloat.floor := rfl
theorem FloatCore_ceil : num_integration.impl_FloatCore_for_TwoFloat.ceil = TwoFloat.ceil := rfl
theorem FloatCore_round : num_integration.impl_FloatCore_for_TwoFloat.round = TwoFloat.round := rfl
theorem FloatCore_trunc : num_integration.impl_FloatCore_for_TwoFloat.trunc = TwoFloat.trunc := rfl
theorem FloatCore_fract : num_integration.impl_FloatCore_for_TwoFloat.fract = TwoFloat.fract := rfl
theorem FloatCore_abs : num_integration.impl_FloatCore_for_TwoFloat.abs = TwoFloat.abs := rfl
theorem FloatCore_signum : num_integration.impl_FloatCore_for_TwoFloat.signum = TwoFloat.signum := rfl
theorem FloatCore_signum_pf : num_integration.impl_FloatCore_for_TwoFloat.signum.pf = TwoFloat.signum.pf := rfl
theorem FloatCore_is_sign_positive : num_integration.impl_FloatCore_for_TwoFloat.is_sign_positive = TwoFloat.is_sign_positive := rfl
theorem FloatCore_is_sign_negative : num_integration.impl_FloatCore_for_TwoFloat.is_sign_negative = TwoFloat.is_sign_negative := rfl
theorem FloatCore_min : num_integration.impl_FloatCore_for_TwoFloat.min = TwoFloat.min := rfl
theorem FloatCore_min_pf : num_integration.impl_FloatCore_for_TwoFloat.min.pf = TwoFloat.min.pf := rfl
theorem FloatCore_max : num_integration.impl_FloatCore_for_TwoFloat.max = TwoFloat.max := rfl
theorem FloatCore_max_pf : num_integration.impl_FloatCore_for_TwoFloat.max.pf = TwoFloat.max.pf := rfl
theorem FloatCore_recip : num_integration.impl_FloatCore_for_TwoFloat.recip = TwoFloat.recip := rfl
theorem FloatCore_powi : num_integration.impl_FloatCore_for_TwoFloat.powi = TwoFloat.powi := rfl
theorem FloatCore_powi_pf : num_integration.impl_FloatCore_for_TwoFloat.powi.pf = TwoFloat.powi.pf := rfl

/-! ### `Signed` -/

theorem Signed_abs : num_integration.impl_Signed_for_TwoFloat.abs = TwoFloat.abs := rfl
theorem Signed_signum : num_integration.impl_Signed_for_TwoFloat.signum = TwoFloat.signum := rfl
theorem Signed_signum_pf : num_integration.impl_Signed_for_TwoFloat.signum.pf = TwoFloat.signum.pf := rfl

/-! ### methods without an inherent namesake -/

theorem Signed_is_positive : num_integration.impl_Signed_for_TwoFloat.is_positive = TwoFloat.is_sign_positive := rfl
theorem Signed_is_negative : num_integration.impl_Signed_for_TwoFloat.is_negative = TwoFloat.is_sign_negative := rfl

theorem Float_abs_sub :
    num_integration.impl_Float_for_TwoFloat.abs_sub = fun a b => TwoFloat.abs (a -. b) := rfl
theorem Signed_abs_sub :
    num_integration.impl_Signed_for_TwoFloat.abs_sub = fun a b => TwoFloat.abs (a -. b) := rfl
theorem Signed_abs_sub_eq_Float :
    num_integration.impl_Signed_for_TwoFloat.abs_sub = num_integration.impl_Float_for_TwoFloat.abs_sub := rfl

theorem Float_mul_add (s a b : TwoFloat) :
    num_integration.impl_Float_for_TwoFloat.mul_add s a b = s *. a +. b := rfl
theorem Float_mul_add_impl :
    num_integration.impl_Float_for_TwoFloat.mul_add
      = fun s a b => arithmetic.impl_Add_rTwoFloat_for_rTwoFloat.add (arithmetic.impl_Mul_rTwoFloat_for_rTwoFloat.mul s a) b := rfl

theorem Float_is_finite : num_integration.impl_Float_for_TwoFloat.is_finite = TwoFloat.is_valid := rfl
theorem Float_is_finite_pf : num_integration.impl_Float_for_TwoFloat.is_finite.pf = TwoFloat.is_valid.pf := rfl
theorem FloatCore_is_finite : num_integration.impl_FloatCore_for_TwoFloat.is_finite = TwoFloat.is_valid := rfl
theorem FloatCore_is_finite_pf : num_integration.impl_FloatCore_for_TwoFloat.is_finite.pf = TwoFloat.is_valid.pf := rfl

/-! ### `Float` and `FloatCore` agree on every shared method -/

theorem Float_eq_FloatCore_infinity : num_integration.impl_Float_for_TwoFloat.infinity = num_integration.impl_FloatCore_for_TwoFloat.infinity := rfl
theorem Float_eq_FloatCore_neg_infinity : num_integration.impl_Float_for_TwoFloat.neg_infinity = num_integration.impl_FloatCore_for_TwoFloat.neg_infinity := rfl
theorem Float_eq_FloatCore_nan : num_integration.impl_Float_for_TwoFloat.nan = num_integration.impl_FloatCore_for_TwoFloat.nan := rfl
theorem Float_eq_FloatCore_neg_zero : num_integration.impl_Float_for_TwoFloat.neg_zero = num_integration.impl_FloatCore_for_TwoFloat.neg_zero := rfl
theorem Float_eq_FloatCore_min_value : num_integration.impl_Float_for_TwoFloat.min_value = num_integration.impl_FloatCore_for_TwoFloat.min_value := rfl
theorem Float_eq_FloatCore_min_positive_value : num_integration.impl_Float_for_TwoFloat.min_positive_value = num_integration.impl_FloatCore_for_TwoFloat.min_positive_value := rfl
theorem Float_eq_FloatCore_epsilon : num_integration.impl_Float_for_TwoFloat.epsilon = num_integration.impl_FloatCore_for_TwoFloat.epsilon := rfl
theorem Float_eq_FloatCore_max_value : num_integration.impl_Float_for_TwoFloat.max_value = num_integration.impl_FloatCore_for_TwoFloat.max_value := rfl
theorem Float_eq_FloatCore_classify : num_integration.impl_Float_for_TwoFloat.classify = num_integration.impl_FloatCore_for_TwoFloat.classify := rfl
theorem Float_eq_FloatCore_to_degrees : num_integration.impl_Float_for_TwoFloat.to_degrees = num_integration.impl_FloatCore_for_TwoFloat.to_degrees := rfl
theorem Float_eq_FloatCore_to_radians : num_integration.impl_Float_for_TwoFloat.to_radians = num_integration.impl_FloatCore_for_TwoFloat.to_radians := rfl
theorem Float_eq_FloatCore_integer_decode : num_integration.impl_Float_for_TwoFloat.integer_decode = num_integration.impl_FloatCore_for_TwoFloat.integer_decode := rfl
theorem Float_eq_FloatCore_integer_decode_pf : num_integration.impl_Float_for_TwoFloat.integer_decode.pf = num_integration.impl_FloatCore_for_TwoFloat.integer_decode.pf := rfl
theorem Float_eq_FloatCore_is_nan : num_integration.impl_Float_for_TwoFloat.is_nan = num_integration.impl_FloatCore_for_TwoFloat.is_nan := rfl
theorem Float_eq_FloatCore_is_infinite : num_integration.impl_Float_for_TwoFloat.is_infinite = num_integration.impl_FloatCore_for_TwoFloat.is_infinite := rfl
theorem Float_eq_FloatCore_is_finite : num_integration.impl_Float_for_TwoFloat.is_finite = num_integration.impl_FloatCore_for_TwoFloat.is_finite := rfl
theorem Float_eq_FloatCore_is_finite_pf : num_integration.impl_Float_for_TwoFloat.is_finite.pf = num_integration.impl_FloatCore_for_TwoFloat.is_finite.pf := rfl
theorem Float_eq_FloatCore_is_normal : num_integration.impl_Float_for_TwoFloat.is_normal = num_integration.impl_FloatCore_for_TwoFloat.is_normal := rfl
theorem Float_eq_FloatCore_floor : num_integration.impl_Float_for_TwoFloat.floor = num_integration.impl_FloatCore_for_TwoFloat.floor := rfl
theorem Float_eq_FloatCore_ceil : num_integration.impl_Float_for_TwoFloat.ceil = num_integration.impl_FloatCore_for_TwoFloat.ceil := rfl
theorem Float_eq_FloatCore_round : num_integration.impl_Float_for_TwoFloat.round = num_integration.impl_FloatCore_for_TwoFloat.round := rfl
theorem Float_eq_FloatCore_trunc : num_integration.impl_Float_for_TwoFloat.trunc = num_integration.impl_FloatCore_for_TwoFloat.trunc := rfl
theorem Float_eq_FloatCore_fract : num_integration.impl_Float_for_TwoFloat.fract = num_integration.impl_FloatCore_for_TwoFloat.fract := rfl
theorem Float_eq_FloatCore_abs : num_integration.impl_Float_for_TwoFloat.abs = num_integration.impl_FloatCore_for_TwoFloat.abs := rfl
theorem Float_eq_FloatCore_signum : num_integration.impl_Float_for_TwoFloat.signum = num_integration.impl_FloatCore_for_TwoFloat.signum := rfl
theorem Float_eq_FloatCore_signum_pf : num_integration.impl_Float_for_TwoFloat.signum.pf = num_integration.impl_FloatCore_for_TwoFloat.signum.pf := rfl
theorem Float_eq_FloatCore_is_sign_positive : num_integration.impl_Float_for_TwoFloat.is_sign_positive = num_integration.impl_FloatCore_for_TwoFloat.is_sign_positive := rfl
theorem Float_eq_FloatCore_is_sign_negative : num_integration.impl_Float_for_TwoFloat.is_sign_negative = num_integration.impl_FloatCore_for_TwoFloat.is_sign_negative := rfl
theorem Float_eq_FloatCore_min : num_integration.impl_Float_for_TwoFloat.min = num_integration.impl_FloatCore_for_TwoFloat.min := rfl
theorem Float_eq_FloatCore_min_pf : num_integration.impl_Float_for_TwoFloat.min.pf = num_integration.impl_FloatCore_for_TwoFloat.min.pf := rfl
theorem Float_eq_FloatCore_max : num_integration.impl_Float_for_TwoFloat.max = num_integration.impl_FloatCore_for_TwoFloat.max := rfl
theorem Float_eq_FloatCore_max_pf : num_integration.impl_Float_for_TwoFloat.max.pf = num_integration.impl_FloatCore_for_TwoFloat.max.pf := rfl
theorem Float_eq_FloatCore_recip : num_integration.impl_Float_for_TwoFloat.recip = num_integration.impl_FloatCore_for_TwoFloat.recip := rfl
theorem Float_eq_FloatCore_powi : num_integration.impl_Float_for_TwoFloat.powi = num_integration.impl_FloatCore_for_TwoFloat.powi := rfl
theorem Float_eq_FloatCore_powi_pf : num_integration.impl_Float_for_TwoFloat.powi.pf = num_integration.impl_FloatCore_for_TwoFloat.powi.pf := rfl

/-! ### associated constants -/

theorem FloatConst_E : num_integration.impl_FloatConst_for_TwoFloat.E = consts.E := rfl
theorem FloatConst_FRAC_1_PI : num_integration.impl_FloatConst_for_TwoFloat.FRAC_1_PI = consts.FRAC_1_PI := rfl
theorem FloatConst_FRAC_1_SQRT_2 : num_integration.impl_FloatConst_for_TwoFloat.FRAC_1_SQRT_2 = consts.FRAC_1_SQRT_2 := rfl
theorem FloatConst_FRAC_2_PI : num_integration.impl_FloatConst_for_TwoFloat.FRAC_2_PI = consts.FRAC_2_PI := rfl
theorem FloatConst_FRAC_2_SQRT_PI : num_integration.impl_FloatConst_for_TwoFloat.FRAC_2_SQRT_PI = consts.FRAC_2_SQRT_PI := rfl
theorem FloatConst_FRAC_PI_2 : num_integration.impl_FloatConst_for_TwoFloat.FRAC_PI_2 = consts.FRAC_PI_2 := rfl
theorem FloatConst_FRAC_PI_3 : num_integration.impl_FloatConst_for_TwoFloat.FRAC_PI_3 = consts.FRAC_PI_3 := rfl
theorem FloatConst_FRAC_PI_4 : num_integration.impl_FloatConst_for_TwoFloat.FRAC_PI_4 = consts.FRAC_PI_4 := rfl
theorem FloatConst_FRAC_PI_6 : num_integration.impl_FloatConst_for_TwoFloat.FRAC_PI_6 = consts.FRAC_PI_6 := rfl
theorem FloatConst_FRAC_PI_8 : num_integration.impl_FloatConst_for_TwoFloat.FRAC_PI_8 = consts.FRAC_PI_8 := rfl
theorem FloatConst_LN_10 : num_integration.impl_FloatConst_for_TwoFloat.LN_10 = consts.LN_10 := rfl
theorem FloatConst_LN_2 : num_integration.impl_FloatConst_for_TwoFloat.LN_2 = consts.LN_2 := rfl
theorem FloatConst_LOG10_E : num_integration.impl_FloatConst_for_TwoFloat.LOG10_E = consts.LOG10_E := rfl
theorem FloatConst_LOG2_E : num_integration.impl_FloatConst_for_TwoFloat.LOG2_E = consts.LOG2_E := rfl
theorem FloatConst_PI : num_integration.impl_FloatConst_for_TwoFloat.PI = consts.PI := rfl
theorem FloatConst_SQRT_2 : num_integration.impl_FloatConst_for_TwoFloat.SQRT_2 = consts.SQRT_2 := rfl
theorem FloatConst_TAU : num_integration.impl_FloatConst_for_TwoFloat.TAU = consts.TAU := rfl
theorem FloatConst_LOG10_2 : num_integration.impl_FloatConst_for_TwoFloat.LOG10_2 = consts.LOG10_2 := rfl
theorem FloatConst_LOG2_10 : num_integration.impl_FloatConst_for_TwoFloat.LOG2_10 = consts.LOG2_10 := rfl

theorem Float_infinity : num_integration.impl_Float_for_TwoFloat.infinity = TwoFloat.INFINITY := rfl
theorem Float_neg_infinity : num_integration.impl_Float_for_TwoFloat.neg_infinity = TwoFloat.NEG_INFINITY := rfl
theorem Float_nan : num_integration.impl_Float_for_TwoFloat.nan = TwoFloat.NAN := rfl
theorem Float_min_value : num_integration.impl_Float_for_TwoFloat.min_value = TwoFloat.MIN := rfl
theorem Float_max_value : num_integration.impl_Float_for_TwoFloat.max_value = TwoFloat.MAX := rfl
theorem Float_min_positive_value : num_integration.impl_Float_for_TwoFloat.min_positive_value = TwoFloat.MIN_POSITIVE := rfl
theorem Float_epsilon : num_integration.impl_Float_for_TwoFloat.epsilon = TwoFloat.EPSILON := rfl
theorem Float_neg_zero : num_integration.impl_Float_for_TwoFloat.neg_zero = ⟨F64.neg (f64lit 0), f64lit 0⟩ := rfl
theorem FloatCore_infinity : num_integration.impl_FloatCore_for_TwoFloat.infinity = TwoFloat.INFINITY := rfl
theorem FloatCore_neg_infinity : num_integration.impl_FloatCore_for_TwoFloat.neg_infinity = TwoFloat.NEG_INFINITY := rfl
theorem FloatCore_nan : num_integration.impl_FloatCore_for_TwoFloat.nan = TwoFloat.NAN := rfl
theorem FloatCore_min_value : num_integration.impl_FloatCore_for_TwoFloat.min_value = TwoFloat.MIN := rfl
theorem FloatCore_max_value : num_integration.impl_FloatCore_for_TwoFloat.max_value = TwoFloat.MAX := rfl
theorem FloatCore_min_positive_value : num_integration.impl_FloatCore_for_TwoFloat.min_positive_value = TwoFloat.MIN_POSITIVE := rfl
theorem FloatCore_epsilon : num_integration.impl_FloatCore_for_TwoFloat.epsilon = TwoFloat.EPSILON := rfl
theorem FloatCore_neg_zero : num_integration.impl_FloatCore_for_TwoFloat.neg_zero = ⟨F64.neg (f64lit 0), f64lit 0⟩ := rfl

theorem Bounded_min_value : num_integration.impl_Bounded_for_TwoFloat.min_value = TwoFloat.MIN := rfl
theorem Bounded_max_value : num_integration.impl_Bounded_for_TwoFloat.max_value = TwoFloat.MAX := rfl

theorem Zero_zero : num_integration.impl_Zero_for_TwoFloat.zero = ⟨f64lit 0, f64lit 0⟩ := rfl
theorem Zero_zero_eq_default :
    num_integration.impl_Zero_for_TwoFloat.zero = lib.impl_Default_for_TwoFloat.default := rfl
theorem Zero_zero_eq_from :
    num_integration.impl_Zero_for_TwoFloat.zero = convert.impl_From_f64_for_TwoFloat.from (f64lit 0) := rfl
theorem Zero_zero_eq_from_f64 :
    num_integration.impl_Zero_for_TwoFloat.zero = TwoFloat.from_f64 (f64lit 0) := rfl
theorem One_one : num_integration.impl_One_for_TwoFloat.one = ⟨f64lit 0x3ff0000000000000, f64lit 0⟩ := rfl
theorem One_one_eq_from :
    num_integration.impl_One_for_TwoFloat.one
      = convert.impl_From_f64_for_TwoFloat.from (f64lit 0x3ff0000000000000) := rfl
theorem Zero_is_zero (x : TwoFloat) :
    num_integration.impl_Zero_for_TwoFloat.is_zero x
      = base.impl_PartialEq_TwoFloat_for_TwoFloat.eq x num_integration.impl_Zero_for_TwoFloat.zero := rfl
theorem Zero_is_zero_pf (x : TwoFloat) :
    num_integration.impl_Zero_for_TwoFloat.is_zero.pf x
      = base.impl_PartialEq_TwoFloat_for_TwoFloat.eq.pf x num_integration.impl_Zero_for_TwoFloat.zero := rfl
theorem from_f64_eq_From : TwoFloat.from_f64 = convert.impl_From_f64_for_TwoFloat.from := rfl

/-! ### `Inv` -/

theorem Inv_inv_ref : num_integration.impl_Inv_for_rTwoFloat.inv = TwoFloat.recip := rfl
theorem Inv_inv_val : num_integration.impl_Inv_for_TwoFloat.inv = TwoFloat.recip := rfl

/-! ### `Pow` -/

theorem Pow_i8_ref_ref : num_integration.impl_Pow_ri8_for_rTwoFloat.pow = fun x (n : I8) => TwoFloat.powi x (RCast.cast n : I32) := rfl
theorem Pow_i8_ref_ref_pf : num_integration.impl_Pow_ri8_for_rTwoFloat.pow.pf = fun x (n : I8) => TwoFloat.powi.pf x (RCast.cast n : I32) := rfl
theorem Pow_i8_ref_val : num_integration.impl_Pow_ri8_for_TwoFloat.pow = fun x (n : I8) => TwoFloat.powi x (RCast.cast n : I32) := rfl
theorem Pow_i8_ref_val_pf : num_integration.impl_Pow_ri8_for_TwoFloat.pow.pf = fun x (n : I8) => TwoFloat.powi.pf x (RCast.cast n : I32) := rfl
theorem Pow_i8_val_ref : num_integration.impl_Pow_i8_for_rTwoFloat.pow = fun x (n : I8) => TwoFloat.powi x (RCast.cast n : I32) := rfl
theorem Pow_i8_val_ref_pf : num_integration.impl_Pow_i8_for_rTwoFloat.pow.pf = fun x (n : I8) => TwoFloat.powi.pf x (RCast.cast n : I32) := rfl
theorem Pow_i8_val_val : num_integration.impl_Pow_i8_for_TwoFloat.pow = fun x (n : I8) => TwoFloat.powi x (RCast.cast n : I32) := rfl
theorem Pow_i8_val_val_pf : num_integration.impl_Pow_i8_for_TwoFloat.pow.pf = fun x (n : I8) => TwoFloat.powi.pf x (RCast.cast n : I32) := rfl
theorem Pow_i16_ref_ref : num_integration.impl_Pow_ri16_for_rTwoFloat.pow = fun x (n : I16) => TwoFloat.powi x (RCast.cast n : I32) := rfl
theorem Pow_i16_ref_ref_pf : num_integration.impl_Pow_ri16_for_rTwoFloat.pow.pf = fun x (n : I16) => TwoFloat.powi.pf x (RCast.cast n : I32) := rfl
theorem Pow_i16_ref_val : num_integration.impl_Pow_ri16_for_TwoFloat.pow = fun x (n : I16) => TwoFloat.powi x (RCast.cast n : I32) := rfl
theorem Pow_i16_ref_val_pf : num_integration.impl_Pow_ri16_for_TwoFloat.pow.pf = fun x (n : I16) => TwoFloat.powi.pf x (RCast.cast n : I32) := rfl
theorem Pow_i16_val_ref : num_integration.impl_Pow_i16_for_rTwoFloat.pow = fun x (n : I16) => TwoFloat.powi x (RCast.cast n : I32) := rfl
theorem Pow_i16_val_ref_pf : num_integration.impl_Pow_i16_for_rTwoFloat.pow.pf = fun x (n : I16) => TwoFloat.powi.pf x (RCast.cast n : I32) := rfl
theorem Pow_i16_val_val : num_integration.impl_Pow_i16_for_TwoFloat.pow = fun x (n : I16) => TwoFloat.powi x (RCast.cast n : I32) := rfl
theorem Pow_i16_val_val_pf : num_integration.impl_Pow_i16_for_TwoFloat.pow.pf = fun x (n : I16) => TwoFloat.powi.pf x (RCast.cast n : I32) := rfl
theorem Pow_i32_ref_ref : num_integration.impl_Pow_ri32_for_rTwoFloat.pow = TwoFloat.powi := rfl
theorem Pow_i32_ref_ref_pf : num_integration.impl_Pow_ri32_for_rTwoFloat.pow.pf = TwoFloat.powi.pf := rfl
theorem Pow_i32_ref_val : num_integration.impl_Pow_ri32_for_TwoFloat.pow = TwoFloat.powi := rfl
theorem Pow_i32_ref_val_pf : num_integration.impl_Pow_ri32_for_TwoFloat.pow.pf = TwoFloat.powi.pf := rfl
theorem Pow_i32_val_ref : num_integration.impl_Pow_i32_for_rTwoFloat.pow = TwoFloat.powi := rfl
theorem Pow_i32_val_ref_pf : num_integration.impl_Pow_i32_for_rTwoFloat.pow.pf = TwoFloat.powi.pf := rfl
theorem Pow_i32_val_val : num_integration.impl_Pow_i32_for_TwoFloat.pow = TwoFloat.powi := rfl
theorem Pow_i32_val_val_pf : num_integration.impl_Pow_i32_for_TwoFloat.pow.pf = TwoFloat.powi.pf := rfl
theorem Pow_u8_ref_ref : num_integration.impl_Pow_ru8_for_rTwoFloat.pow = fun x (n : U8) => TwoFloat.powi x (RCast.cast n : I32) := rfl
theorem Pow_u8_ref_ref_pf : num_integration.impl_Pow_ru8_for_rTwoFloat.pow.pf = fun x (n : U8) => TwoFloat.powi.pf x (RCast.cast n : I32) := rfl
theorem Pow_u8_ref_val : num_integration.impl_Pow_ru8_for_TwoFloat.pow = fun x (n : U8) => TwoFloat.powi x (RCast.cast n : I32) := rfl
theorem Pow_u8_ref_val_pf : num_integration.impl_Pow_ru8_for_TwoFloat.pow.pf = fun x (n : U8) => TwoFloat.powi.pf x (RCast.cast n : I32) := rfl
theorem Pow_u8_val_ref : num_integration.impl_Pow_u8_for_rTwoFloat.pow = fun x (n : U8) => TwoFloat.powi x (RCast.cast n : I32) := rfl
theorem Pow_u8_val_ref_pf : num_integration.impl_Pow_u8_for_rTwoFloat.pow.pf = fun x (n : U8) => TwoFloat.powi.pf x (RCast.cast n : I32) := rfl
theorem Pow_u8_val_val : num_integration.impl_Pow_u8_for_TwoFloat.pow = fun x (n : U8) => TwoFloat.powi x (RCast.cast n : I32) := rfl
theorem Pow_u8_val_val_pf : num_integration.impl_Pow_u8_for_TwoFloat.pow.pf = fun x (n : U8) => TwoFloat.powi.pf x (RCast.cast n : I32) := rfl
theorem Pow_u16_ref_ref : num_integration.impl_Pow_ru16_for_rTwoFloat.pow = fun x (n : U16) => TwoFloat.powi x (RCast.cast n : I32) := rfl
theorem Pow_u16_ref_ref_pf : num_integration.impl_Pow_ru16_for_rTwoFloat.pow.pf = fun x (n : U16) => TwoFloat.powi.pf x (RCast.cast n : I32) := rfl
theorem Pow_u16_ref_val : num_integration.impl_Pow_ru16_for_TwoFloat.pow = fun x (n : U16) => TwoFloat.powi x (RCast.cast n : I32) := rfl
theorem Pow_u16_ref_val_pf : num_integration.impl_Pow_ru16_for_TwoFloat.pow.pf = fun x (n : U16) => TwoFloat.powi.pf x (RCast.cast n : I32) := rfl
theorem Pow_u16_val_ref : num_integration.impl_Pow_u16_for_rTwoFloat.pow = fun x (n : U16) => TwoFloat.powi x (RCast.cast n : I32) := rfl
theorem Pow_u16_val_ref_pf : num_integration.impl_Pow_u16_for_rTwoFloat.pow.pf = fun x (n : U16) => TwoFloat.powi.pf x (RCast.cast n : I32) := rfl
theorem Pow_u16_val_val : num_integration.impl_Pow_u16_for_TwoFloat.pow = fun x (n : U16) => TwoFloat.powi x (RCast.cast n : I32) := rfl
theorem Pow_u16_val_val_pf : num_integration.impl_Pow_u16_for_TwoFloat.pow.pf = fun x (n : U16) => TwoFloat.powi.pf x (RCast.cast n : I32) := rfl

theorem Pow_f64_ref_ref : num_integration.impl_Pow_rf64_for_rTwoFloat.pow = fun x (y : F64) => TwoFloat.powf x (convert.impl_From_f64_for_TwoFloat.from y) := rfl
theorem Pow_f64_ref_ref_pf : num_integration.impl_Pow_rf64_for_rTwoFloat.pow.pf = fun x (y : F64) => TwoFloat.powf.pf x (convert.impl_From_f64_for_TwoFloat.from y) := rfl
theorem Pow_tt_ref_ref : num_integration.impl_Pow_rTwoFloat_for_rTwoFloat.pow = TwoFloat.powf := rfl
theorem Pow_tt_ref_ref_pf : num_integration.impl_Pow_rTwoFloat_for_rTwoFloat.pow.pf = TwoFloat.powf.pf := rfl
theorem Pow_f64_ref_val : num_integration.impl_Pow_rf64_for_TwoFloat.pow = fun x (y : F64) => TwoFloat.powf x (convert.impl_From_f64_for_TwoFloat.from y) := rfl
theorem Pow_f64_ref_val_pf : num_integration.impl_Pow_rf64_for_TwoFloat.pow.pf = fun x (y : F64) => TwoFloat.powf.pf x (convert.impl_From_f64_for_TwoFloat.from y) := rfl
theorem Pow_tt_ref_val : num_integration.impl_Pow_rTwoFloat_for_TwoFloat.pow = TwoFloat.powf := rfl
theorem Pow_tt_ref_val_pf : num_integration.impl_Pow_rTwoFloat_for_TwoFloat.pow.pf = TwoFloat.powf.pf := rfl
theorem Pow_f64_val_ref : num_integration.impl_Pow_f64_for_rTwoFloat.pow = fun x (y : F64) => TwoFloat.powf x (convert.impl_From_f64_for_TwoFloat.from y) := rfl
theorem Pow_f64_val_ref_pf : num_integration.impl_Pow_f64_for_rTwoFloat.pow.pf = fun x (y : F64) => TwoFloat.powf.pf x (convert.impl_From_f64_for_TwoFloat.from y) := rfl
theorem Pow_tt_val_ref : num_integration.impl_Pow_TwoFloat_for_rTwoFloat.pow = TwoFloat.powf := rfl
theorem Pow_tt_val_ref_pf : num_integration.impl_Pow_TwoFloat_for_rTwoFloat.pow.pf = TwoFloat.powf.pf := rfl
theorem Pow_f64_val_val : num_integration.impl_Pow_f64_for_TwoFloat.pow = fun x (y : F64) => TwoFloat.powf x (convert.impl_From_f64_for_TwoFloat.from y) := rfl
theorem Pow_f64_val_val_pf : num_integration.impl_Pow_f64_for_TwoFloat.pow.pf = fun x (y : F64) => TwoFloat.powf.pf x (convert.impl_From_f64_for_TwoFloat.from y) := rfl
theorem Pow_tt_val_val : num_integration.impl_Pow_TwoFloat_for_TwoFloat.pow = TwoFloat.powf := rfl
theorem Pow_tt_val_val_pf : num_integration.impl_Pow_TwoFloat_for_TwoFloat.pow.pf = TwoFloat.powf.pf := rfl

theorem Pow_f64_words (x : TwoFloat) (y : F64) :
    num_integration.impl_Pow_f64_for_TwoFloat.pow x y = TwoFloat.powf x ⟨y, f64lit 0⟩ := rfl

/-! ### `FromPrimitive` / `ToPrimitive` forward to the `From` / `TryFrom` impls -/

theorem FromPrimitive_from_i8 : num_integration.impl_FromPrimitive_for_TwoFloat.from_i8 = fun n => some (convert.impl_From_i8_for_TwoFloat.from n) := rfl
theorem ToPrimitive_to_i8 : num_integration.impl_ToPrimitive_for_TwoFloat.to_i8 = fun x => Except.toOption (convert.impl_TryFrom_rTwoFloat_for_i8.try_from x) := rfl
theorem FromPrimitive_from_i16 : num_integration.impl_FromPrimitive_for_TwoFloat.from_i16 = fun n => some (convert.impl_From_i16_for_TwoFloat.from n) := rfl
theorem ToPrimitive_to_i16 : num_integration.impl_ToPrimitive_for_TwoFloat.to_i16 = fun x => Except.toOption (convert.impl_TryFrom_rTwoFloat_for_i16.try_from x) := rfl
theorem FromPrimitive_from_i32 : num_integration.impl_FromPrimitive_for_TwoFloat.from_i32 = fun n => some (convert.impl_From_i32_for_TwoFloat.from n) := rfl
theorem ToPrimitive_to_i32 : num_integration.impl_ToPrimitive_for_TwoFloat.to_i32 = fun x => Except.toOption (convert.impl_TryFrom_rTwoFloat_for_i32.try_from x) := rfl
theorem FromPrimitive_from_i64 : num_integration.impl_FromPrimitive_for_TwoFloat.from_i64 = fun n => some (convert.impl_From_i64_for_TwoFloat.from n) := rfl
theorem FromPrimitive_from_i64_pf : num_integration.impl_FromPrimitive_for_TwoFloat.from_i64.pf = convert.impl_From_i64_for_TwoFloat.from.pf := rfl
theorem ToPrimitive_to_i64 : num_integration.impl_ToPrimitive_for_TwoFloat.to_i64 = fun x => Except.toOption (convert.impl_TryFrom_rTwoFloat_for_i64.try_from x) := rfl
theorem ToPrimitive_to_i64_pf : num_integration.impl_ToPrimitive_for_TwoFloat.to_i64.pf = convert.impl_TryFrom_rTwoFloat_for_i64.try_from.pf := rfl
theorem FromPrimitive_from_i128 : num_integration.impl_FromPrimitive_for_TwoFloat.from_i128 = fun n => some (convert.impl_From_i128_for_TwoFloat.from n) := rfl
theorem FromPrimitive_from_i128_pf : num_integration.impl_FromPrimitive_for_TwoFloat.from_i128.pf = convert.impl_From_i128_for_TwoFloat.from.pf := rfl
theorem ToPrimitive_to_i128 : num_integration.impl_ToPrimitive_for_TwoFloat.to_i128 = fun x => Except.toOption (convert.impl_TryFrom_rTwoFloat_for_i128.try_from x) := rfl
theorem ToPrimitive_to_i128_pf : num_integration.impl_ToPrimitive_for_TwoFloat.to_i128.pf = convert.impl_TryFrom_rTwoFloat_for_i128.try_from.pf := rfl
theorem FromPrimitive_from_u8 : num_integration.impl_FromPrimitive_for_TwoFloat.from_u8 = fun n => some (convert.impl_From_u8_for_TwoFloat.from n) := rfl
theorem ToPrimitive_to_u8 : num_integration.impl_ToPrimitive_for_TwoFloat.to_u8 = fun x => Except.toOption (convert.impl_TryFrom_rTwoFloat_for_u8.try_from x) := rfl
theorem FromPrimitive_from_u16 : num_integration.impl_FromPrimitive_for_TwoFloat.from_u16 = fun n => some (convert.impl_From_u16_for_TwoFloat.from n) := rfl
theorem ToPrimitive_to_u16 : num_integration.impl_ToPrimitive_for_TwoFloat.to_u16 = fun x => Except.toOption (convert.impl_TryFrom_rTwoFloat_for_u16.try_from x) := rfl
theorem FromPrimitive_from_u32 : num_integration.impl_FromPrimitive_for_TwoFloat.from_u32 = fun n => some (convert.impl_From_u32_for_TwoFloat.from n) := rfl
theorem ToPrimitive_to_u32 : num_integration.impl_ToPrimitive_for_TwoFloat.to_u32 = fun x => Except.toOption (convert.impl_TryFrom_rTwoFloat_for_u32.try_from x) := rfl
theorem FromPrimitive_from_u64 : num_integration.impl_FromPrimitive_for_TwoFloat.from_u64 = fun n => some (convert.impl_From_u64_for_TwoFloat.from n) := rfl
theorem FromPrimitive_from_u64_pf : num_integration.impl_FromPrimitive_for_TwoFloat.from_u64.pf = convert.impl_From_u64_for_TwoFloat.from.pf := rfl
theorem ToPrimitive_to_u64 : num_integration.impl_ToPrimitive_for_TwoFloat.to_u64 = fun x => Except.toOption (convert.impl_TryFrom_rTwoFloat_for_u64.try_from x) := rfl
theorem ToPrimitive_to_u64_pf : num_integration.impl_ToPrimitive_for_TwoFloat.to_u64.pf = convert.impl_TryFrom_rTwoFloat_for_u64.try_from.pf := rfl
theorem FromPrimitive_from_u128 : num_integration.impl_FromPrimitive_for_TwoFloat.from_u128 = fun n => some (convert.impl_From_u128_for_TwoFloat.from n) := rfl
theorem FromPrimitive_from_u128_pf : num_integration.impl_FromPrimitive_for_TwoFloat.from_u128.pf = convert.impl_From_u128_for_TwoFloat.from.pf := rfl
theorem ToPrimitive_to_u128 : num_integration.impl_ToPrimitive_for_TwoFloat.to_u128 = fun x => Except.toOption (convert.impl_TryFrom_rTwoFloat_for_u128.try_from x) := rfl
theorem ToPrimitive_to_u128_pf : num_integration.impl_ToPrimitive_for_TwoFloat.to_u128.pf = convert.impl_TryFrom_rTwoFloat_for_u128.try_from.pf := rfl
theorem ToPrimitive_to_f64 (x : TwoFloat) :
    num_integration.impl_ToPrimitive_for_TwoFloat.to_f64 x = some x.hi := rfl

/-! ### by-value and by-reference conversions agree -/

theorem TryFrom_i8_val_ref : convert.impl_TryFrom_TwoFloat_for_i8.try_from = convert.impl_TryFrom_rTwoFloat_for_i8.try_from := rfl
theorem TryFrom_i16_val_ref : convert.impl_TryFrom_TwoFloat_for_i16.try_from = convert.impl_TryFrom_rTwoFloat_for_i16.try_from := rfl
theorem TryFrom_i32_val_ref : convert.impl_TryFrom_TwoFloat_for_i32.try_from = convert.impl_TryFrom_rTwoFloat_for_i32.try_from := rfl
theorem TryFrom_i64_val_ref : convert.impl_TryFrom_TwoFloat_for_i64.try_from = convert.impl_TryFrom_rTwoFloat_for_i64.try_from := rfl
theorem TryFrom_i64_val_ref_pf : convert.impl_TryFrom_TwoFloat_for_i64.try_from.pf = convert.impl_TryFrom_rTwoFloat_for_i64.try_from.pf := rfl
theorem TryFrom_i128_val_ref : convert.impl_TryFrom_TwoFloat_for_i128.try_from = convert.impl_TryFrom_rTwoFloat_for_i128.try_from := rfl
theorem TryFrom_i128_val_ref_pf : convert.impl_TryFrom_TwoFloat_for_i128.try_from.pf = convert.impl_TryFrom_rTwoFloat_for_i128.try_from.pf := rfl
theorem TryFrom_u8_val_ref : convert.impl_TryFrom_TwoFloat_for_u8.try_from = convert.impl_TryFrom_rTwoFloat_for_u8.try_from := rfl
theorem TryFrom_u16_val_ref : convert.impl_TryFrom_TwoFloat_for_u16.try_from = convert.impl_TryFrom_rTwoFloat_for_u16.try_from := rfl
theorem TryFrom_u32_val_ref : convert.impl_TryFrom_TwoFloat_for_u32.try_from = convert.impl_TryFrom_rTwoFloat_for_u32.try_from := rfl
theorem TryFrom_u64_val_ref : convert.impl_TryFrom_TwoFloat_for_u64.try_from = convert.impl_TryFrom_rTwoFloat_for_u64.try_from := rfl
theorem TryFrom_u64_val_ref_pf : convert.impl_TryFrom_TwoFloat_for_u64.try_from.pf = convert.impl_TryFrom_rTwoFloat_for_u64.try_from.pf := rfl
theorem TryFrom_u128_val_ref : convert.impl_TryFrom_TwoFloat_for_u128.try_from = convert.impl_TryFrom_rTwoFloat_for_u128.try_from := rfl
theorem TryFrom_u128_val_ref_pf : convert.impl_TryFrom_TwoFloat_for_u128.try_from.pf = convert.impl_TryFrom_rTwoFloat_for_u128.try_from.pf := rfl
theorem From_tup_val_ref :
    convert.impl_From_TwoFloat_for_tup_f64_f64.from = convert.impl_From_rTwoFloat_for_tup_f64_f64.from := rfl
theorem From_arr_val_ref :
    convert.impl_From_TwoFloat_for_arr2_f64.from = convert.impl_From_rTwoFloat_for_arr2_f64.from := rfl
theorem From_f64_val_ref :
    convert.impl_From_TwoFloat_for_f64.from = convert.impl_From_rTwoFloat_for_f64.from := rfl
theorem From_f32_val_ref :
    convert.impl_From_TwoFloat_for_f32.from = convert.impl_From_rTwoFloat_for_f32.from := rfl

/-! ## 7. Examples -/

/-- `a += b; a -= c; a *= d; a /= e; a %= f` is the same term as the operator chain, whatever mixture of
by-value / by-reference spellings is used. -/
example (a b c d e f : TwoFloat) :
    arithmetic.impl_RemAssign_TwoFloat_for_TwoFloat.rem_assign
      (arithmetic.impl_DivAssign_rTwoFloat_for_TwoFloat.div_assign
        (arithmetic.impl_MulAssign_TwoFloat_for_TwoFloat.mul_assign
          (arithmetic.impl_SubAssign_rTwoFloat_for_TwoFloat.sub_assign
            (arithmetic.impl_AddAssign_TwoFloat_for_TwoFloat.add_assign a b) c) d) e) f
      = ((((a +. b) -. c) *. d) /. e) %. f := rfl

/-- summing `[x, f]`-style mixed data: `sum` over f64 items is the left fold with the (TwoFloat,f64) adder,
and adding an f64 on either side is the same function -/
example (f g : F64) :
    iter.impl_Sum_T_for_TwoFloat.sum [f, g]
      = g +. (f +. num_integration.impl_Zero_for_TwoFloat.zero) := rfl

/-- `Pow<u8>` through the trait = inherent `powi` on the widened exponent, including panic-freedom -/
example (x : TwoFloat) (n : U8) :
    (num_integration.impl_Pow_ru8_for_TwoFloat.pow x n, num_integration.impl_Pow_ru8_for_TwoFloat.pow.pf x n)
      = (TwoFloat.powi x (RCast.cast n : I32), TwoFloat.powi.pf x (RCast.cast n : I32)) := rfl

end C10
