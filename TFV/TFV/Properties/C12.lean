/-
C12 (finite-table layer) — facts about the published constants that are closed terms and are evaluated by the
kernel (`decide +kernel`): validity of every constant, the exact power-of-two relations between them, the
associated constants MAX / MIN / MIN_POSITIVE / NAN / INFINITY.

(That each constant is the correctly rounded double-double of the real number it names needs an independent
high-precision oracle and is checked elsewhere; the relations below already pin the 7 π-multiples to one
another and the private copies to the public ones.)
-/
import TFV.Spec.Defs
import TFV.Lemmas.Ident

namespace C12

/-! ### every constant satisfies `is_valid()` and Definition 1.4 (`Valid`: hi = RN(hi + lo)) -/

theorem is_valid_E : TwoFloat.is_valid consts.E = true := by decide +kernel
theorem is_valid_FRAC_1_PI : TwoFloat.is_valid consts.FRAC_1_PI = true := by decide +kernel
theorem is_valid_FRAC_2_PI : TwoFloat.is_valid consts.FRAC_2_PI = true := by decide +kernel
theorem is_valid_FRAC_2_SQRT_PI : TwoFloat.is_valid consts.FRAC_2_SQRT_PI = true := by decide +kernel
theorem is_valid_FRAC_1_SQRT_2 : TwoFloat.is_valid consts.FRAC_1_SQRT_2 = true := by decide +kernel
theorem is_valid_FRAC_PI_2 : TwoFloat.is_valid consts.FRAC_PI_2 = true := by decide +kernel
theorem is_valid_FRAC_PI_3 : TwoFloat.is_valid consts.FRAC_PI_3 = true := by decide +kernel
theorem is_valid_FRAC_PI_4 : TwoFloat.is_valid consts.FRAC_PI_4 = true := by decide +kernel
theorem is_valid_FRAC_PI_6 : TwoFloat.is_valid consts.FRAC_PI_6 = true := by decide +kernel
theorem is_valid_FRAC_PI_8 : TwoFloat.is_valid consts.FRAC_PI_8 = true := by decide +kernel
theorem is_valid_LN_2 : TwoFloat.is_valid consts.LN_2 = true := by decide +kernel
theorem is_valid_LN_10 : TwoFloat.is_valid consts.LN_10 = true := by decide +kernel
theorem is_valid_LOG2_E : TwoFloat.is_valid consts.LOG2_E = true := by decide +kernel
theorem is_valid_LOG10_E : TwoFloat.is_valid consts.LOG10_E = true := by decide +kernel
theorem is_valid_LOG10_2 : TwoFloat.is_valid consts.LOG10_2 = true := by decide +kernel
theorem is_valid_LOG2_10 : TwoFloat.is_valid consts.LOG2_10 = true := by decide +kernel
theorem is_valid_PI : TwoFloat.is_valid consts.PI = true := by decide +kernel
theorem is_valid_SQRT_2 : TwoFloat.is_valid consts.SQRT_2 = true := by decide +kernel
theorem is_valid_TAU : TwoFloat.is_valid consts.TAU = true := by decide +kernel

theorem Valid_E : consts.E.Valid := by decide +kernel
theorem Valid_FRAC_1_PI : consts.FRAC_1_PI.Valid := by decide +kernel
theorem Valid_FRAC_2_PI : consts.FRAC_2_PI.Valid := by decide +kernel
theorem Valid_FRAC_2_SQRT_PI : consts.FRAC_2_SQRT_PI.Valid := by decide +kernel
theorem Valid_FRAC_1_SQRT_2 : consts.FRAC_1_SQRT_2.Valid := by decide +kernel
theorem Valid_FRAC_PI_2 : consts.FRAC_PI_2.Valid := by decide +kernel
theorem Valid_FRAC_PI_3 : consts.FRAC_PI_3.Valid := by decide +kernel
theorem Valid_FRAC_PI_4 : consts.FRAC_PI_4.Valid := by decide +kernel
theorem Valid_FRAC_PI_6 : consts.FRAC_PI_6.Valid := by decide +kernel
theorem Valid_FRAC_PI_8 : consts.FRAC_PI_8.Valid := by decide +kernel
theorem Valid_LN_2 : consts.LN_2.Valid := by decide +kernel
theorem Valid_LN_10 : consts.LN_10.Valid := by decide +kernel
theorem Valid_LOG2_E : consts.LOG2_E.Valid := by decide +kernel
theorem Valid_LOG10_E : consts.LOG10_E.Valid := by decide +kernel
theorem Valid_LOG10_2 : consts.LOG10_2.Valid := by decide +kernel
theorem Valid_LOG2_10 : consts.LOG2_10.Valid := by decide +kernel
theorem Valid_PI : consts.PI.Valid := by decide +kernel
theorem Valid_SQRT_2 : consts.SQRT_2.Valid := by decide +kernel
theorem Valid_TAU : consts.TAU.Valid := by decide +kernel

/-- all 19 at once, through the `FloatConst` accessors -/
theorem is_valid_all_FloatConst :
    [ num_integration.impl_FloatConst_for_TwoFloat.E, num_integration.impl_FloatConst_for_TwoFloat.FRAC_1_PI,
      num_integration.impl_FloatConst_for_TwoFloat.FRAC_1_SQRT_2, num_integration.impl_FloatConst_for_TwoFloat.FRAC_2_PI,
      num_integration.impl_FloatConst_for_TwoFloat.FRAC_2_SQRT_PI, num_integration.impl_FloatConst_for_TwoFloat.FRAC_PI_2,
      num_integration.impl_FloatConst_for_TwoFloat.FRAC_PI_3, num_integration.impl_FloatConst_for_TwoFloat.FRAC_PI_4,
      num_integration.impl_FloatConst_for_TwoFloat.FRAC_PI_6, num_integration.impl_FloatConst_for_TwoFloat.FRAC_PI_8,
      num_integration.impl_FloatConst_for_TwoFloat.LN_10, num_integration.impl_FloatConst_for_TwoFloat.LN_2,
      num_integration.impl_FloatConst_for_TwoFloat.LOG10_E, num_integration.impl_FloatConst_for_TwoFloat.LOG2_E,
      num_integration.impl_FloatConst_for_TwoFloat.PI, num_integration.impl_FloatConst_for_TwoFloat.SQRT_2,
      num_integration.impl_FloatConst_for_TwoFloat.TAU, num_integration.impl_FloatConst_for_TwoFloat.LOG10_2,
      num_integration.impl_FloatConst_for_TwoFloat.LOG2_10 ].all TwoFloat.is_valid = true := by
  decide +kernel

/-! ### the high word of each constant that has a `core::f64::consts` namesake is a normal double and the low
word is non-zero and below half an ulp of the high word (so none of the tables is truncated to one word) -/

theorem lo_nonzero_all :
    [consts.E, consts.FRAC_1_PI, consts.FRAC_2_PI, consts.FRAC_2_SQRT_PI, consts.FRAC_1_SQRT_2, consts.FRAC_PI_2,
     consts.FRAC_PI_3, consts.FRAC_PI_4, consts.FRAC_PI_6, consts.FRAC_PI_8, consts.LN_2, consts.LN_10, consts.LOG2_E,
     consts.LOG10_E, consts.LOG10_2, consts.LOG2_10, consts.PI, consts.SQRT_2, consts.TAU].all
      (fun c => F64.is_normal c.hi && F64.is_normal c.lo) = true := by
  decide +kernel

/-! ### exact power-of-two relations (wordwise) -/

/-- τ = 2·π -/
theorem TAU_eq_two_PI :
    consts.TAU.hi = F64.mul (f64lit 0x4000000000000000) consts.PI.hi
    ∧ consts.TAU.lo = F64.mul (f64lit 0x4000000000000000) consts.PI.lo := by decide +kernel

theorem FRAC_PI_2_eq :
    consts.FRAC_PI_2.hi = F64.mul (f64lit 0x3fe0000000000000) consts.PI.hi
    ∧ consts.FRAC_PI_2.lo = F64.mul (f64lit 0x3fe0000000000000) consts.PI.lo := by decide +kernel

theorem FRAC_PI_4_eq :
    consts.FRAC_PI_4.hi = F64.mul (f64lit 0x3fd0000000000000) consts.PI.hi
    ∧ consts.FRAC_PI_4.lo = F64.mul (f64lit 0x3fd0000000000000) consts.PI.lo := by decide +kernel

theorem FRAC_PI_8_eq :
    consts.FRAC_PI_8.hi = F64.mul (f64lit 0x3fc0000000000000) consts.PI.hi
    ∧ consts.FRAC_PI_8.lo = F64.mul (f64lit 0x3fc0000000000000) consts.PI.lo := by decide +kernel

theorem FRAC_PI_6_eq :
    consts.FRAC_PI_6.hi = F64.mul (f64lit 0x3fe0000000000000) consts.FRAC_PI_3.hi
    ∧ consts.FRAC_PI_6.lo = F64.mul (f64lit 0x3fe0000000000000) consts.FRAC_PI_3.lo := by decide +kernel

theorem FRAC_2_PI_eq :
    consts.FRAC_2_PI.hi = F64.mul (f64lit 0x4000000000000000) consts.FRAC_1_PI.hi
    ∧ consts.FRAC_2_PI.lo = F64.mul (f64lit 0x4000000000000000) consts.FRAC_1_PI.lo := by decide +kernel

theorem SQRT_2_eq :
    consts.SQRT_2.hi = F64.mul (f64lit 0x4000000000000000) consts.FRAC_1_SQRT_2.hi
    ∧ consts.SQRT_2.lo = F64.mul (f64lit 0x4000000000000000) consts.FRAC_1_SQRT_2.lo := by decide +kernel

/-- the same relations through the library's own (exact) scaling -/
theorem TAU_eq_PI_times_two : consts.PI *. (f64lit 0x4000000000000000) = consts.TAU := by decide +kernel
theorem FRAC_PI_2_eq_PI_div_two : consts.PI /. (f64lit 0x4000000000000000) = consts.FRAC_PI_2 := by decide +kernel
theorem FRAC_PI_4_eq_PI_div_four : consts.PI /. (f64lit 0x4010000000000000) = consts.FRAC_PI_4 := by decide +kernel
theorem FRAC_PI_8_eq_PI_div_eight : consts.PI /. (f64lit 0x4020000000000000) = consts.FRAC_PI_8 := by decide +kernel
theorem FRAC_2_PI_eq_twice : consts.FRAC_1_PI *. (f64lit 0x4000000000000000) = consts.FRAC_2_PI := by decide +kernel

/-! ### private copies equal the public constants -/

theorem explog_LN_10_eq : explog.LN_10 = consts.LN_10 := rfl
theorem explog_FRAC_1_LN_2_eq : explog.FRAC_1_LN_2 = consts.LOG2_E := rfl
theorem EXP_LIMITS : explog.EXP_LOWER_LIMIT = F64.neg explog.EXP_UPPER_LIMIT := rfl

/-! ### associated constants -/

theorem is_valid_MAX : TwoFloat.is_valid TwoFloat.MAX = true := by decide +kernel
theorem is_valid_MIN : TwoFloat.is_valid TwoFloat.MIN = true := by decide +kernel
theorem is_valid_MIN_POSITIVE : TwoFloat.is_valid TwoFloat.MIN_POSITIVE = true := by decide +kernel
theorem is_valid_EPSILON : TwoFloat.is_valid TwoFloat.EPSILON = true := by decide +kernel
theorem Valid_MAX : TwoFloat.MAX.Valid := by decide +kernel
theorem Valid_MIN : TwoFloat.MIN.Valid := by decide +kernel
theorem Valid_MIN_POSITIVE : TwoFloat.MIN_POSITIVE.Valid := by decide +kernel

theorem not_valid_INFINITY : TwoFloat.is_valid TwoFloat.INFINITY = false := by decide +kernel
theorem not_valid_NEG_INFINITY : TwoFloat.is_valid TwoFloat.NEG_INFINITY = false := by decide +kernel
theorem not_valid_NAN : TwoFloat.is_valid TwoFloat.NAN = false := by decide +kernel
theorem not_Valid_INFINITY : ¬ TwoFloat.INFINITY.Valid := by decide +kernel
theorem not_Valid_NEG_INFINITY : ¬ TwoFloat.NEG_INFINITY.Valid := by decide +kernel
theorem not_Valid_NAN : ¬ TwoFloat.NAN.Valid := by decide +kernel

/-- MIN = −MAX -/
theorem MIN_eq_neg_MAX : TwoFloat.MIN = arithmetic.impl_Neg_for_TwoFloat.neg TwoFloat.MAX := by decide +kernel

/-- MIN_POSITIVE = (2^-1022, 0) -/
theorem MIN_POSITIVE_eq : TwoFloat.MIN_POSITIVE = ⟨F64.fin false (2^52), F64.fin false 0⟩ := by decide +kernel
theorem MIN_POSITIVE_bits : TwoFloat.MIN_POSITIVE = ⟨f64lit 0x0010000000000000, f64lit 0⟩ := by decide +kernel

/-- NOTE: the crate's `EPSILON` is *defined* as `(f64::MIN_POSITIVE, 0)`, i.e. it equals `MIN_POSITIVE`
(2^-1022), not the gap between 1 and the next double-double. -/
theorem EPSILON_eq_MIN_POSITIVE : TwoFloat.EPSILON = TwoFloat.MIN_POSITIVE := rfl

/-- MAX = (f64::MAX, 2^970·(1 − 2^-53)): the low word is the double just below half an ulp of the high word -/
theorem MAX_words : TwoFloat.MAX = ⟨F64.fin false F64.maxFin, f64lit 0x7c8fffffffffffff⟩ := rfl
theorem MAX_lo_succ : F64.to_bits_nat (f64lit 0x7c90000000000000) = F64.to_bits_nat (f64lit 0x7c8fffffffffffff) + 1 := by
  decide +kernel

/-- MAX is extreme: its high word is the largest finite double, and the next low word up (exactly half an
ulp of f64::MAX, with an odd high significand) is rejected by `is_valid` — and so is anything larger. -/
theorem MAX_extreme :
    TwoFloat.is_valid ⟨F64.MAX, f64lit 0x7c90000000000000⟩ = false
    ∧ TwoFloat.is_valid ⟨F64.MAX, f64lit 0x7c90000000000001⟩ = false
    ∧ TwoFloat.is_valid ⟨F64.MAX, f64lit 0x7c8fffffffffffff⟩ = true := by decide +kernel

theorem MIN_extreme :
    TwoFloat.is_valid ⟨F64.MIN, f64lit 0xfc90000000000000⟩ = false
    ∧ TwoFloat.is_valid ⟨F64.MIN, f64lit 0xfc8fffffffffffff⟩ = true := by decide +kernel

/-- and `Valid` (hi = RN(hi+lo)) agrees at the boundary: hi + lo overflows to +inf under RN -/
theorem MAX_extreme_Valid :
    ¬ (⟨F64.MAX, f64lit 0x7c90000000000000⟩ : TwoFloat).Valid
    ∧ F64.add F64.MAX (f64lit 0x7c90000000000000) = F64.INFINITY := by decide +kernel

/-! ### NaN and infinities under `==` -/

theorem NAN_ne_NAN : base.impl_PartialEq_TwoFloat_for_TwoFloat.eq TwoFloat.NAN TwoFloat.NAN = false := by
  decide +kernel
theorem NAN_partial_cmp_NAN :
    base.impl_PartialOrd_TwoFloat_for_TwoFloat.partial_cmp TwoFloat.NAN TwoFloat.NAN = none := by decide +kernel
theorem NAN_ne_f64 : base.impl_PartialEq_f64_for_TwoFloat.eq TwoFloat.NAN F64.NAN = false := by decide +kernel
theorem PI_eq_PI : base.impl_PartialEq_TwoFloat_for_TwoFloat.eq consts.PI consts.PI = true := by decide +kernel
theorem MAX_gt_MIN :
    base.impl_PartialOrd_TwoFloat_for_TwoFloat.partial_cmp TwoFloat.MAX TwoFloat.MIN = some .Greater := by decide +kernel

/-! ### angle-conversion factors -/

theorem is_valid_DEG_PER_RAD : TwoFloat.is_valid base.DEG_PER_RAD = true := by decide +kernel
theorem is_valid_RAD_PER_DEG : TwoFloat.is_valid base.RAD_PER_DEG = true := by decide +kernel
theorem Valid_DEG_PER_RAD : base.DEG_PER_RAD.Valid := by decide +kernel
theorem Valid_RAD_PER_DEG : base.RAD_PER_DEG.Valid := by decide +kernel

/-- 180° is π up to the last bits of the low word: `to_radians(180).hi = PI.hi` -/
example :
    (TwoFloat.to_radians ⟨f64lit 0x4066800000000000, f64lit 0⟩).hi = consts.PI.hi
    ∧ (TwoFloat.to_degrees consts.PI).hi = f64lit 0x4066800000000000 := by decide +kernel

/-- every entry of the private tables used by exp / sin / … is a valid double-double -/
example :
    (explog.FRAC_FACT ++ explog.expm1_128th.EXPM1_128TH ++ explog.exp_half.EXP_HALF_N ++ explog.exp_half.EXP_16_N
      ++ trigonometry.SIN_COEFFS ++ trigonometry.COS_COEFFS ++ trigonometry.TAN_COEFFS ++ trigonometry.ASIN_COEFFS
      ++ trigonometry.ATAN_COEFFS ++ [trigonometry.ATAN_FRAC_1_2, trigonometry.ATAN_FRAC_3_2, explog.LN_FRAC_3_2]).all
      TwoFloat.is_valid = true := by decide +kernel

end C12
