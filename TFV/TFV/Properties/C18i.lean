/-
C18i (numerical layer) — accuracy and panic-freedom of the INVERSE hyperbolic functions (property C18):

  "asinh(x) (|x| ≤ 2^60, either sign) within 2^-100·|f(v)| + 2^-98;  acosh(x) for 1 < x ≤ 2^60 within
   2^-100·(A + 1/A), A = acosh(v);  atanh(x) (|x| ≤ 1 − 2^-10) within 2^-100·|f(v)| + 2^-101;  no function of the
   family panics on a valid x"

Values are real numbers: `val t = hi + lo = t.V / 2^1074 : ℝ`; the references are Mathlib's `Real.arsinh`,
`Real.arcosh`, `Real.artanh`.  `u = 2^-53` (`2^-100 = 64u²`).  Every result below also states that the value returned is
a VALID pair.

PROVED
 * `asinh_bound` — the floor, IN FULL: valid `x`, `|v| ≤ 2^60`, both signs.  What the analysis gives (`asinh_bound_sharp`):
   `|asinh(x) − arsinh v| ≤ 32u²·|arsinh v| + 61u²`.  Budget: `|x|·|x|` `7u²`, `+ 1.0` `2u²`, `sqrt` `21u²` + half of the
   `9.1u²` of its argument, `|x| + sqrt` `3.01u²`: the argument of `ln` is within relative `28.7u²` of `t + √(t² + 1)`;
   `ln` turns that into an absolute `28.7u²` and adds its own `32u²·(1 + |L|)`.  The sign is restored exactly
   (`TwoFloat::abs`, `Neg` are exact), so negative arguments are exactly as accurate as positive ones.
 * `atanh_bound` — the floor, IN FULL: valid `x`, `|v| ≤ 1 − 2^-10`.  Sharp form (`atanh_bound_sharp`):
   `|atanh(x) − artanh v| ≤ 34u²·|artanh v| + 27u²`.  Budget: `1 + x`, `1 − x` `2u²` each, the long division `16u²`, `ln`
   `32u²·(1 + |L|)`, the halving `1.001u²` (+ one unit `2^-1074`).
 * `acosh_bound_partial` — the floor `2^-100·(A + 1/A)` for valid `x` with `1 + 2^-103 ≤ v ≤ 2^60`.  Sharp form
   (`acosh_bound_sharp`): `|acosh(x) − A| ≤ 32u²·A + 66u² + 7.2u²/A`.  The `1/A` term is the cancellation in `x² − 1`:
   the absolute error `7u²·v²` of the product is an error `7.01u²/√W` of `√W`, `W = v² − 1`, and `A ≤ sinh A = √W`
   (`Real.sinh_arcosh`, `Real.self_le_sinh_iff`).
 * panic-freedom, unconditional on these ranges (`asinh_pf`, `acosh_pf`, `atanh_pf`): the intermediate `sqrt` result /
   quotient is a valid pair (`PowfBound.sqrt_rv` from `C13s.sqrt_bound_21u2`; `Exp2Bound.div_rv`), which discharges the
   hypotheses of `C18p.asinh_pf_of_sqrt_inv`, `acosh_pf_of_sqrt_inv`, `atanh_pf_of_quot_inv`.

OPEN
 * `acosh` for `1 < v < 1 + 2^-103` (then `x = (1, lo)`, `0 < lo < 2^-103`): the generic product bound (`7u²` relative
   to `v² ≈ 1`) no longer shows `x·x − 1 > 0`.  On that range the product is in fact computed almost exactly
   (`x·x = (1, RN(lo + RN(lo + RN(lo²))))`), so this is a proof gap (it needs a dedicated analysis of that path, and for
   `lo < 2^-891` a `sqrt` bound below the range `[2^-900, 2^1000]` of `C13s.sqrt_bound_21u2`), not an observed defect.
 * panic-freedom outside the accuracy ranges (e.g. `asinh` beyond `2^60`, where it would follow in the same way up to
   `|x| ≈ 2^490`; beyond that `x·x + 1` leaves the range of the proved `sqrt` bound).
-/
import TFV.Lemmas.PowfBound
import TFV.Properties.C13c
import TFV.Properties.C18p
import Mathlib.Analysis.SpecialFunctions.Arsinh
import Mathlib.Analysis.SpecialFunctions.Arcosh
import Mathlib.Analysis.SpecialFunctions.Artanh

set_option exponentiation.threshold 4000

namespace C18i

open F64 TwoFloat ConstBounds ExpBound PowfBound

/-- exact real value `hi + lo` of a pair -/
noncomputable abbrev val (t : TwoFloat) : ℝ := ExpBound.rv t

/-! ## 1. `asinh`: real analysis -/

section asinh_real

/-- `s ≈ t² + 1`: the product `7u²` (+ underflow), the sum `2u²` -/
theorem asinh_stage1 {t m s : ℝ} (ht0 : 0 ≤ t) (ht : t ≤ 2 ^ 60)
    (hm : |m - t * t| ≤ 7 / 2 ^ 106 * |t * t| + 1 / 2 ^ 950)
    (hs : |s - (m + 1)| ≤ 1 / 2 ^ 105 * |m + 1|) :
    |m| ≤ 2 ^ 121 ∧ |s - (t * t + 1)| ≤ 91 / 10 / 2 ^ 106 * |t * t + 1| ∧ 1 / 2 ≤ s ∧ s ≤ 2 ^ 122 := by
  have htt : 0 ≤ t * t := mul_nonneg ht0 ht0
  have htt2 : t * t ≤ 2 ^ 120 := by
    calc t * t ≤ 2 ^ 60 * 2 ^ 60 := mul_le_mul ht ht ht0 (by positivity)
      _ = 2 ^ 120 := by norm_num
  have hW : 1 ≤ t * t + 1 := by linarith
  have hWa : |t * t + 1| = t * t + 1 := abs_of_pos (by linarith)
  have hm' : |(m + 1) - (t * t + 1)| ≤ (7 / 2 ^ 106 + 1 / 2 ^ 950) * |t * t + 1| := by
    rw [show m + 1 - (t * t + 1) = m - t * t by ring, hWa]
    rw [abs_of_nonneg htt] at hm
    have : (1 : ℝ) / 2 ^ 950 ≤ 1 / 2 ^ 950 * (t * t + 1) := by
      have : (0 : ℝ) < 1 / 2 ^ 950 := by positivity
      nlinarith
    nlinarith
  have h3 := rel_trans (by positivity) hs hm'
  have h4 : |s - (t * t + 1)| ≤ 91 / 10 / 2 ^ 106 * |t * t + 1| := rel_mono h3 (by norm_num)
  rw [hWa] at h4 hm'
  obtain ⟨a1, a2⟩ := abs_le.1 h4
  obtain ⟨b1, b2⟩ := abs_le.1 hm'
  have c1 : (91 : ℝ) / 10 / 2 ^ 106 * (t * t + 1) ≤ 1 / 2 * (t * t + 1) :=
    mul_le_mul_of_nonneg_right (by norm_num) (by linarith)
  have c2 : ((7 : ℝ) / 2 ^ 106 + 1 / 2 ^ 950) * (t * t + 1) ≤ 1 / 2 * (t * t + 1) :=
    mul_le_mul_of_nonneg_right (by norm_num) (by linarith)
  refine ⟨?_, by rw [hWa]; exact h4, by linarith, ?_⟩
  · rw [abs_le]
    have : (2 : ℝ) ^ 121 = 2 * 2 ^ 120 := by norm_num
    constructor <;> linarith
  · have : (2 : ℝ) ^ 122 = 4 * 2 ^ 120 := by norm_num
    linarith

/-- `q ≈ √(t² + 1)`: `21u²` of `sqrt` and half the `9.1u²` of its argument -/
theorem asinh_stage2 {t s q : ℝ}
    (h1 : |s - (t * t + 1)| ≤ 91 / 10 / 2 ^ 106 * |t * t + 1|)
    (hq : |q - Real.sqrt s| ≤ 21 / 2 ^ 106 * Real.sqrt s) :
    |q - Real.sqrt (t * t + 1)| ≤ 256 / 10 / 2 ^ 106 * Real.sqrt (t * t + 1) := by
  have hW : 0 < t * t + 1 := by nlinarith [mul_self_nonneg t]
  rw [abs_of_pos hW] at h1
  have h2 := sqrt_pert (η := 91 / 10 / 2 ^ 106) hW (by positivity) (by norm_num) h1
  have hS := Real.sqrt_nonneg (t * t + 1)
  have hs := Real.sqrt_nonneg s
  have h2' : |Real.sqrt s - Real.sqrt (t * t + 1)|
      ≤ (91 / 10 / 2 ^ 106 / 2 + (91 / 10 / 2 ^ 106) ^ 2) * |Real.sqrt (t * t + 1)| := by
    rw [abs_of_nonneg hS]; exact h2
  have hq' : |q - Real.sqrt s| ≤ 21 / 2 ^ 106 * |Real.sqrt s| := by
    rw [abs_of_nonneg hs]; exact hq
  have h3 := rel_trans (α := 21 / 2 ^ 106) (by positivity) hq' h2'
  rw [abs_of_nonneg hS] at h3
  refine le_trans h3 (mul_le_mul_of_nonneg_right ?_ hS)
  norm_num

/-- `A ≈ t + √(t² + 1)`: `3u²` of the sum -/
theorem asinh_stage3 {t q A : ℝ} (ht0 : 0 ≤ t) (ht : t ≤ 2 ^ 60)
    (h2 : |q - Real.sqrt (t * t + 1)| ≤ 256 / 10 / 2 ^ 106 * Real.sqrt (t * t + 1))
    (hA : |A - (t + q)| ≤ cA * |t + q|) :
    |q| ≤ 2 ^ 62 ∧ 1 ≤ t + Real.sqrt (t * t + 1) ∧
    |A - (t + Real.sqrt (t * t + 1))| ≤ 287 / 10 / 2 ^ 106 * (t + Real.sqrt (t * t + 1)) ∧
    1 / 2 ≤ A ∧ A ≤ 2 ^ 63 := by
  have hW : 1 ≤ t * t + 1 := by nlinarith [mul_self_nonneg t]
  have hS1 : 1 ≤ Real.sqrt (t * t + 1) := by
    rw [Real.le_sqrt' (by norm_num)]; linarith
  have hS2 : Real.sqrt (t * t + 1) ≤ t + 1 := by
    rw [Real.sqrt_le_left (by linarith)]; nlinarith
  have hB1 : 1 ≤ t + Real.sqrt (t * t + 1) := by linarith
  have hBa : |t + Real.sqrt (t * t + 1)| = t + Real.sqrt (t * t + 1) := abs_of_pos (by linarith)
  have h3 : |(t + q) - (t + Real.sqrt (t * t + 1))| ≤ 256 / 10 / 2 ^ 106 * |t + Real.sqrt (t * t + 1)| := by
    rw [show t + q - (t + Real.sqrt (t * t + 1)) = q - Real.sqrt (t * t + 1) by ring, hBa]
    refine le_trans h2 (mul_le_mul_of_nonneg_left (by linarith) (by positivity))
  have h4 := rel_trans cA_nonneg hA h3
  have h5 : |A - (t + Real.sqrt (t * t + 1))| ≤ 287 / 10 / 2 ^ 106 * |t + Real.sqrt (t * t + 1)| := by
    refine rel_mono h4 ?_
    have := cA_le'
    have := cA_nonneg
    nlinarith
  rw [hBa] at h5
  obtain ⟨a1, a2⟩ := abs_le.1 h5
  obtain ⟨b1, b2⟩ := abs_le.1 h2
  have c1 : (287 : ℝ) / 10 / 2 ^ 106 * (t + Real.sqrt (t * t + 1)) ≤ 1 / 2 * (t + Real.sqrt (t * t + 1)) :=
    mul_le_mul_of_nonneg_right (by norm_num) (by linarith)
  have c2 : (256 : ℝ) / 10 / 2 ^ 106 * Real.sqrt (t * t + 1) ≤ 1 / 2 * Real.sqrt (t * t + 1) :=
    mul_le_mul_of_nonneg_right (by norm_num) (by linarith)
  have e62 : (2 : ℝ) ^ 62 = 4 * 2 ^ 60 := by norm_num
  have e63 : (2 : ℝ) ^ 63 = 8 * 2 ^ 60 := by norm_num
  have h60 : (1 : ℝ) ≤ 2 ^ 60 := by norm_num
  refine ⟨?_, hB1, h5, by linarith, by linarith⟩
  rw [abs_le]
  constructor <;> linarith

/-- `ln` of the computed argument against `ln` of the exact one -/
theorem ln_stage {A B r ε : ℝ} (hB0 : 0 < B) (hε : ε ≤ 1 / 2 ^ 40) (hA : |A - B| ≤ ε * B)
    (hr : |r - Real.log A| ≤ 1 / 2 ^ 101 * (1 + |Real.log A|)) :
    |r - Real.log B| ≤ 1 / 2 ^ 101 * |Real.log B| + (1 / 2 ^ 101 + ε * (1 + 1 / 2 ^ 38)) := by
  obtain ⟨hA0, hl⟩ := log_pert hB0 (le_trans hε (by norm_num)) hA
  have hε0 : 0 ≤ ε := by
    by_contra hc
    rw [not_le] at hc
    have : ε * B < 0 := mul_neg_of_neg_of_pos hc hB0
    have := abs_nonneg (A - B)
    linarith
  have hl' : |Real.log A - Real.log B| ≤ ε * (1 + 1 / 2 ^ 39) := by
    refine le_trans hl (mul_le_mul_of_nonneg_left ?_ hε0)
    linarith
  have hlA : |Real.log A| ≤ |Real.log B| + ε * (1 + 1 / 2 ^ 39) := by
    have := abs_sub_abs_le_abs_sub (Real.log A) (Real.log B)
    linarith
  have h1 := abs_add_le (r - Real.log A) (Real.log A - Real.log B)
  rw [show r - Real.log A + (Real.log A - Real.log B) = r - Real.log B by ring] at h1
  have h2 : (1 : ℝ) / 2 ^ 101 * (1 + |Real.log A|) ≤ 1 / 2 ^ 101 * (1 + (|Real.log B| + ε * (1 + 1 / 2 ^ 39))) :=
    mul_le_mul_of_nonneg_left (by linarith) (by positivity)
  have h3 : (1 : ℝ) / 2 ^ 101 * (ε * (1 + 1 / 2 ^ 39)) ≤ 1 / 2 ^ 101 * (ε * 2) :=
    mul_le_mul_of_nonneg_left (mul_le_mul_of_nonneg_left (by norm_num) hε0) (by positivity)
  have h4 : (1 : ℝ) / 2 ^ 101 * (ε * 2) ≤ ε * (1 / 2 ^ 39) := by
    have : (1 : ℝ) / 2 ^ 101 * 2 ≤ 1 / 2 ^ 39 := by norm_num
    nlinarith
  have e : ε * (1 + 1 / 2 ^ 38) = ε * (1 + 1 / 2 ^ 39) + ε * (1 / 2 ^ 39) := by ring
  linarith

end asinh_real

/-! ## 2. `asinh` on pairs -/

section asinh_tf

/-- the `ln` argument of `asinh`, `|x| + sqrt(|x|² + 1)` evaluated on a non-negative pair `a` -/
def asinhArg (a : TwoFloat) : TwoFloat :=
  arithmetic.impl_Add_TwoFloat_for_TwoFloat.add a (TwoFloat.sqrt (arithmetic.impl_Add_f64_for_TwoFloat.add
    (arithmetic.impl_Mul_TwoFloat_for_TwoFloat.mul a a) (f64lit 0x3ff0000000000000)))

/-- **the core of `asinh`** on a valid pair `0 ≤ a ≤ 2^60`: the `sqrt` result is valid, and
`ln(a + sqrt(a² + 1))` is within `32u²·L + 61u²` of `L = ln(t + √(t² + 1))`, `t` the value of `a` -/
theorem asinh_core {a : TwoFloat} (ha : VW a) (h0 : 0 ≤ rv a) (h60 : rv a ≤ 2 ^ 60) :
    VW (TwoFloat.sqrt (arithmetic.impl_Add_f64_for_TwoFloat.add
      (arithmetic.impl_Mul_TwoFloat_for_TwoFloat.mul a a) (f64lit 0x3ff0000000000000))) ∧
    VW (asinhArg a) ∧
    VW (TwoFloat.ln (asinhArg a)) ∧
    |rv (TwoFloat.ln (asinhArg a)) - Real.log (rv a + Real.sqrt (rv a * rv a + 1))|
      ≤ 1 / 2 ^ 101 * Real.log (rv a + Real.sqrt (rv a * rv a + 1)) + 61 / 2 ^ 106 := by
  unfold asinhArg
  have htt2 : rv a * rv a ≤ 2 ^ 120 := by
    calc rv a * rv a ≤ 2 ^ 60 * 2 ^ 60 := mul_le_mul h60 h60 h0 (by positivity)
      _ = 2 ^ 120 := by norm_num
  have haa : |rv a| ≤ 2 ^ 1000 := by
    rw [abs_of_nonneg h0]; exact le_trans h60 (by norm_num)
  obtain ⟨hM, hm⟩ := mul_rv ha ha (by
    rw [abs_of_nonneg (mul_nonneg h0 h0)]; exact le_trans htt2 (by norm_num))
  generalize arithmetic.impl_Mul_TwoFloat_for_TwoFloat.mul a a = M at *
  -- bound on |rv M| before the sum
  have hMabs : |rv M| ≤ 2 ^ 1000 := by
    have h1 := abs_sub_abs_le_abs_sub (rv M) (rv a * rv a)
    rw [abs_of_nonneg (mul_nonneg h0 h0)] at h1 hm
    have : (7 : ℝ) / 2 ^ 106 * (rv a * rv a) ≤ 1 * 2 ^ 120 :=
      mul_le_mul (by norm_num) htt2 (mul_nonneg h0 h0) (by norm_num)
    have e : (1 : ℝ) / 2 ^ 950 ≤ 1 := by norm_num
    have : |rv M| ≤ 2 ^ 120 + 2 ^ 120 + 1 := by linarith
    exact le_trans this (by norm_num)
  obtain ⟨hS, hs⟩ := add_one_rv hM hMabs
  generalize arithmetic.impl_Add_f64_for_TwoFloat.add M (f64lit 0x3ff0000000000000) = S at *
  obtain ⟨-, s1, s2, s3⟩ := asinh_stage1 h0 h60 hm hs
  obtain ⟨hQ, hq⟩ := sqrt_rv hS (le_trans (by norm_num) s2) (le_trans s3 (by norm_num))
  refine ⟨hQ, ?_⟩
  generalize TwoFloat.sqrt S = Q at *
  have q1 := asinh_stage2 s1 hq
  have hq62 : |rv Q| ≤ 2 ^ 62 := by
    have hS2 : Real.sqrt (rv a * rv a + 1) ≤ rv a + 1 := by
      rw [Real.sqrt_le_left (by linarith)]; nlinarith
    have hS0 := Real.sqrt_nonneg (rv a * rv a + 1)
    obtain ⟨b1, b2⟩ := abs_le.1 q1
    have c2 : (256 : ℝ) / 10 / 2 ^ 106 * Real.sqrt (rv a * rv a + 1) ≤ 1 / 2 * Real.sqrt (rv a * rv a + 1) :=
      mul_le_mul_of_nonneg_right (by norm_num) hS0
    have e62 : (2 : ℝ) ^ 62 = 4 * 2 ^ 60 := by norm_num
    have h60' : (1 : ℝ) ≤ 2 ^ 60 := by norm_num
    rw [abs_le]
    constructor <;> linarith
  obtain ⟨hA, hAb⟩ := add_rv ha hQ haa (le_trans hq62 (by norm_num))
  refine ⟨hA, ?_⟩
  generalize arithmetic.impl_Add_TwoFloat_for_TwoFloat.add a Q = A at *
  obtain ⟨-, hB1, a1, a2, a3⟩ := asinh_stage3 h0 h60 q1 hAb
  obtain ⟨hR, hr⟩ := ln_rv hA (le_trans (by norm_num) a2) (le_trans a3 (by norm_num))
  refine ⟨hR, ?_⟩
  have key := ln_stage (lt_of_lt_of_le one_pos hB1) (by norm_num) a1 hr
  rw [abs_of_nonneg (Real.log_nonneg hB1)] at key
  refine le_trans key ?_
  have : (1 : ℝ) / 2 ^ 101 + 287 / 10 / 2 ^ 106 * (1 + 1 / 2 ^ 38) ≤ 61 / 2 ^ 106 := by norm_num
  linarith

theorem arsinh_eq_log (t : ℝ) : Real.arsinh t = Real.log (t + Real.sqrt (t * t + 1)) := by
  unfold Real.arsinh
  congr 3
  ring

/-- sign of the value from the sign bit of the high word -/
theorem rv_nonneg_of_sign_pos {x : TwoFloat} (hv : x.Valid) (h : TwoFloat.is_sign_positive x = true) : 0 ≤ rv x := by
  have h1 : 0 ≤ x.hi.toInt := F64.toInt_nonneg_of_sign_positive h
  have h2 : ¬ x.V < 0 := fun hc => by
    have := (hv.hi_neg_iff F64.roundFacts).2 hc
    omega
  unfold rv
  apply div_nonneg _ (by positivity)
  exact_mod_cast not_lt.1 h2

theorem rv_nonpos_of_sign_neg {x : TwoFloat} (hv : x.Valid) (h : TwoFloat.is_sign_positive x = false) : rv x ≤ 0 := by
  have h1 : x.hi.toInt ≤ 0 := by
    apply F64.toInt_nonpos_of_sign_negative
    rw [F64.is_sign_negative_eq_not_pos]
    unfold TwoFloat.is_sign_positive at h
    simp [h]
  have h2 : ¬ 0 < x.V := fun hc => by
    have := (hv.hi_pos_iff F64.roundFacts).2 hc
    omega
  unfold rv
  apply div_nonpos_of_nonpos_of_nonneg _ (by positivity)
  exact_mod_cast not_lt.1 h2

theorem asinh_unfold (x : TwoFloat) :
    TwoFloat.asinh x = if TwoFloat.is_sign_positive x = true then TwoFloat.ln (asinhArg (TwoFloat.abs x))
      else arithmetic.impl_Neg_for_TwoFloat.neg (TwoFloat.ln (asinhArg (TwoFloat.abs x))) := rfl

/-- **`asinh`, what the analysis gives**: `|asinh(x) − arsinh v| ≤ 32u²·|arsinh v| + 61u²`, `|v| ≤ 2^60`, both signs -/
theorem asinh_bound_sharp (x : TwoFloat) (hv : x.Valid) (hw : x.WF) (h : |val x| ≤ 2 ^ 60) :
    (TwoFloat.asinh x).Valid ∧ (TwoFloat.asinh x).WF ∧
    |val (TwoFloat.asinh x) - Real.arsinh (val x)| ≤ 1 / 2 ^ 101 * |Real.arsinh (val x)| + 61 / 2 ^ 106 := by
  obtain ⟨ha, hat⟩ := Exp2Bound.abs_rv' (t := x) ⟨hv, hw⟩
  obtain ⟨-, -, hR, hb⟩ := asinh_core ha (by rw [hat]; exact abs_nonneg _) (by rw [hat]; exact h)
  rw [hat, ← arsinh_eq_log] at hb
  have hnn : 0 ≤ Real.arsinh |rv x| := Real.arsinh_nonneg_iff.2 (abs_nonneg _)
  rw [asinh_unfold]
  by_cases hs : TwoFloat.is_sign_positive x = true
  · rw [if_pos hs]
    have h0 := rv_nonneg_of_sign_pos hv hs
    refine ⟨hR.1, hR.2, ?_⟩
    show |rv _ - Real.arsinh (rv x)| ≤ 1 / 2 ^ 101 * |Real.arsinh (rv x)| + 61 / 2 ^ 106
    rw [abs_of_nonneg h0] at hb hnn
    rw [abs_of_nonneg hnn]
    exact hb
  · rw [if_neg hs]
    have h0 := rv_nonpos_of_sign_neg hv (by simpa using hs)
    obtain ⟨hN, hNv⟩ := Exp2Bound.neg_rv hR
    refine ⟨hN.1, hN.2, ?_⟩
    show |rv _ - Real.arsinh (rv x)| ≤ 1 / 2 ^ 101 * |Real.arsinh (rv x)| + 61 / 2 ^ 106
    rw [hNv]
    rw [abs_of_nonpos h0, Real.arsinh_neg] at hb hnn
    rw [abs_of_nonpos (by linarith : Real.arsinh (rv x) ≤ 0)]
    rw [show -rv (TwoFloat.ln (asinhArg (TwoFloat.abs x))) - Real.arsinh (rv x)
      = -(rv (TwoFloat.ln (asinhArg (TwoFloat.abs x))) - -Real.arsinh (rv x)) by ring, abs_neg]
    exact hb

/-- **Property C18, accuracy of `asinh`**: for every valid `x` with `|x| ≤ 2^60` (either sign), `asinh(x)` is a valid
pair within `2^-100·|asinh v| + 2^-98` of the true value -/
theorem asinh_bound (x : TwoFloat) (hv : x.Valid) (hw : x.WF) (h : |val x| ≤ 2 ^ 60) :
    (TwoFloat.asinh x).Valid ∧
    |val (TwoFloat.asinh x) - Real.arsinh (val x)| ≤ 1 / 2 ^ 100 * |Real.arsinh (val x)| + 1 / 2 ^ 98 := by
  obtain ⟨h1, -, h3⟩ := asinh_bound_sharp x hv hw h
  refine ⟨h1, le_trans h3 ?_⟩
  have := abs_nonneg (Real.arsinh (val x))
  have e1 : (1 : ℝ) / 2 ^ 101 * |Real.arsinh (val x)| ≤ 1 / 2 ^ 100 * |Real.arsinh (val x)| :=
    mul_le_mul_of_nonneg_right (by norm_num) this
  have e2 : (61 : ℝ) / 2 ^ 106 ≤ 1 / 2 ^ 98 := by norm_num
  linarith

/-- **`asinh` never panics** on a valid argument with `|x| ≤ 2^60` (the `sqrt` result is a valid pair) -/
theorem asinh_pf (x : TwoFloat) (hv : x.Valid) (hw : x.WF) (h : |val x| ≤ 2 ^ 60) : TwoFloat.asinh.pf x = true := by
  obtain ⟨ha, hat⟩ := Exp2Bound.abs_rv' (t := x) ⟨hv, hw⟩
  obtain ⟨hQ, -⟩ := asinh_core ha (by rw [hat]; exact abs_nonneg _) (by rw [hat]; exact h)
  exact C18p.asinh_pf_of_sqrt_inv x (Or.inl hv) hw (Or.inl hQ.1)

end asinh_tf

/-! ## 3. `atanh` -/

section atanh

/-- relative error of a quotient -/
theorem rel_div {a b A B α β : ℝ} (hB : B ≠ 0) (hα : 0 ≤ α) (hβ0 : 0 ≤ β) (hβ : β ≤ 1 / 2)
    (ha : |a - A| ≤ α * |A|) (hb : |b - B| ≤ β * |B|) :
    b ≠ 0 ∧ |a / b - A / B| ≤ (α + β) * (1 + 2 * β) * |A / B| := by
  have hBp : 0 < |B| := abs_pos.2 hB
  have hbB : (1 - β) * |B| ≤ |b| := by
    have := abs_sub_abs_le_abs_sub B b
    rw [abs_sub_comm] at this
    linarith
  have hbp : 0 < |b| := lt_of_lt_of_le (mul_pos (by linarith) hBp) hbB
  have hb0 : b ≠ 0 := abs_pos.1 hbp
  refine ⟨hb0, ?_⟩
  have hBb : |B| ≤ (1 + 2 * β) * |b| := by
    have h1 : (1 + 2 * β) * ((1 - β) * |B|) ≤ (1 + 2 * β) * |b| := mul_le_mul_of_nonneg_left hbB (by linarith)
    have h2 : |B| ≤ (1 + 2 * β) * ((1 - β) * |B|) := by
      have : 1 ≤ (1 + 2 * β) * (1 - β) := by nlinarith
      nlinarith
    linarith
  have hnum : |a * B - b * A| ≤ (α + β) * (|A| * |B|) := by
    have e : a * B - b * A = (a - A) * B - A * (b - B) := by ring
    rw [e]
    refine le_trans (abs_sub _ _) ?_
    rw [abs_mul, abs_mul]
    have h1 : |a - A| * |B| ≤ α * |A| * |B| := mul_le_mul_of_nonneg_right ha hBp.le
    have h2 : |A| * |b - B| ≤ |A| * (β * |B|) := mul_le_mul_of_nonneg_left hb (abs_nonneg _)
    nlinarith
  rw [div_sub_div _ _ hb0 hB, abs_div, abs_div, abs_mul, div_le_iff₀ (mul_pos hbp hBp)]
  have e : (α + β) * (1 + 2 * β) * (|A| / |B|) * (|b| * |B|) = (α + β) * (|A| * ((1 + 2 * β) * |b|)) := by
    field_simp
  rw [e]
  refine le_trans hnum ?_
  exact mul_le_mul_of_nonneg_left (mul_le_mul_of_nonneg_left hBb (abs_nonneg _)) (by linarith)

/-- ranges of numerator and denominator -/
theorem atanh_ranges {v n d : ℝ} (hv : |v| ≤ 1 - 1 / 2 ^ 10)
    (hn : |n - (1 + v)| ≤ 1 / 2 ^ 105 * |1 + v|) (hd : |d - (1 - v)| ≤ 1 / 2 ^ 105 * |1 - v|) :
    1 / 2 ^ 11 ≤ n ∧ n ≤ 4 ∧ 1 / 2 ^ 11 ≤ d ∧ d ≤ 4 := by
  obtain ⟨v1, v2⟩ := abs_le.1 hv
  have hp : (0 : ℝ) < 1 + v := by norm_num at v1; linarith
  have hm : (0 : ℝ) < 1 - v := by norm_num at v2; linarith
  rw [abs_of_pos hp] at hn
  rw [abs_of_pos hm] at hd
  obtain ⟨n1, n2⟩ := abs_le.1 hn
  obtain ⟨d1, d2⟩ := abs_le.1 hd
  have c1 : (1 : ℝ) / 2 ^ 105 * (1 + v) ≤ 1 / 2 * (1 + v) := mul_le_mul_of_nonneg_right (by norm_num) hp.le
  have c2 : (1 : ℝ) / 2 ^ 105 * (1 - v) ≤ 1 / 2 * (1 - v) := mul_le_mul_of_nonneg_right (by norm_num) hm.le
  norm_num at v1 v2 ⊢
  refine ⟨by linarith, by linarith, by linarith, by linarith⟩

/-- the computed quotient against `(1 + v)/(1 − v)`: `2u² + 2u²` from the sum and difference, `16u²` from the division -/
theorem atanh_real {v n d q : ℝ} (hv : |v| ≤ 1 - 1 / 2 ^ 10)
    (hn : |n - (1 + v)| ≤ 1 / 2 ^ 105 * |1 + v|) (hd : |d - (1 - v)| ≤ 1 / 2 ^ 105 * |1 - v|)
    (hq : |q - n / d| ≤ 1 / 2 ^ 102 * |n / d|) :
    0 < (1 + v) / (1 - v) ∧ |q - (1 + v) / (1 - v)| ≤ 201 / 10 / 2 ^ 106 * ((1 + v) / (1 - v)) ∧
    1 / 2 ^ 12 ≤ q ∧ q ≤ 2 ^ 12 := by
  obtain ⟨v1, v2⟩ := abs_le.1 hv
  have hp : (0 : ℝ) < 1 + v := by norm_num at v1; linarith
  have hm : (0 : ℝ) < 1 - v := by norm_num at v2; linarith
  have hB : 0 < (1 + v) / (1 - v) := div_pos hp hm
  obtain ⟨-, h1⟩ := rel_div hm.ne' (by positivity) (by positivity) (by norm_num) hn hd
  have h2 := rel_trans (by positivity) hq h1
  have h3 : |q - (1 + v) / (1 - v)| ≤ 201 / 10 / 2 ^ 106 * |(1 + v) / (1 - v)| := rel_mono h2 (by norm_num)
  rw [abs_of_pos hB] at h3
  refine ⟨hB, h3, ?_, ?_⟩
  · have hBlo : 1 / 2 ^ 11 ≤ (1 + v) / (1 - v) := by
      rw [le_div_iff₀ hm]; norm_num at v1 v2 ⊢; linarith
    obtain ⟨a1, a2⟩ := abs_le.1 h3
    have c : (201 : ℝ) / 10 / 2 ^ 106 * ((1 + v) / (1 - v)) ≤ 1 / 2 * ((1 + v) / (1 - v)) :=
      mul_le_mul_of_nonneg_right (by norm_num) hB.le
    norm_num at hBlo ⊢
    linarith
  · have hBhi : (1 + v) / (1 - v) ≤ 2 ^ 11 := by
      rw [div_le_iff₀ hm]; norm_num at v1 v2 ⊢; linarith
    obtain ⟨a1, a2⟩ := abs_le.1 h3
    have c : (201 : ℝ) / 10 / 2 ^ 106 * ((1 + v) / (1 - v)) ≤ 1 / 2 * ((1 + v) / (1 - v)) :=
      mul_le_mul_of_nonneg_right (by norm_num) hB.le
    norm_num at hBhi ⊢
    linarith

/-- the halving -/
theorem atanh_final {L r res : ℝ} (hr : |r - L| ≤ 1 / 2 ^ 101 * |L| + 53 / 2 ^ 106)
    (hres : |res - r / 2 ^ 1| ≤ 1001 / 1000 / 2 ^ 106 * |r / 2 ^ 1| + 1 / 2 ^ 1074) :
    |res - 1 / 2 * L| ≤ 34 / 2 ^ 106 * |1 / 2 * L| + 27 / 2 ^ 106 := by
  have hL := abs_nonneg L
  have hrabs : |r| ≤ |L| + (1 / 2 ^ 101 * |L| + 53 / 2 ^ 106) := by
    have := abs_sub_abs_le_abs_sub r L
    linarith
  have e1 : |r / 2 ^ 1| = |r| / 2 := by rw [abs_div]; norm_num
  have e2 : |1 / 2 * L| = |L| / 2 := by rw [abs_mul]; norm_num; ring
  rw [e1] at hres
  rw [e2]
  have h1 := abs_add_le (res - r / 2 ^ 1) ((r - L) / 2)
  rw [show res - r / 2 ^ 1 + (r - L) / 2 = res - 1 / 2 * L by ring] at h1
  have e3 : |(r - L) / 2| = |r - L| / 2 := by rw [abs_div]; norm_num
  rw [e3] at h1
  have h2 : (1001 : ℝ) / 1000 / 2 ^ 106 * (|r| / 2)
      ≤ 1001 / 1000 / 2 ^ 106 * ((|L| + (1 / 2 ^ 101 * |L| + 53 / 2 ^ 106)) / 2) :=
    mul_le_mul_of_nonneg_left (by linarith) (by positivity)
  have e4 : (1 : ℝ) / 2 ^ 101 = 32 / 2 ^ 106 := by norm_num
  rw [e4] at hr h2
  have h5 : (1001 : ℝ) / 1000 / 2 ^ 106 * ((|L| + (32 / 2 ^ 106 * |L| + 53 / 2 ^ 106)) / 2)
      ≤ 1 / 2 ^ 106 * |L| + 1 / 2 ^ 200 := by
    have : (1001 : ℝ) / 1000 / 2 ^ 106 * ((1 + 32 / 2 ^ 106) / 2) ≤ 1 / 2 ^ 106 := by norm_num
    have : (1001 : ℝ) / 1000 / 2 ^ 106 * (53 / 2 ^ 106 / 2) ≤ 1 / 2 ^ 200 := by norm_num
    nlinarith
  have h6 : (1 : ℝ) / 2 ^ 200 + 1 / 2 ^ 1074 + 53 / 2 ^ 106 / 2 ≤ 27 / 2 ^ 106 := by norm_num
  have e5 : (34 : ℝ) / 2 ^ 106 * (|L| / 2) = 17 / 2 ^ 106 * |L| := by ring
  rw [e5]
  have e6 : (32 / 2 ^ 106 * |L| + 53 / 2 ^ 106) / 2 = 16 / 2 ^ 106 * |L| + 53 / 2 ^ 106 / 2 := by ring
  have : (1 : ℝ) / 2 ^ 106 * |L| + 16 / 2 ^ 106 * |L| = 17 / 2 ^ 106 * |L| := by ring
  linarith

/-- the `ln` argument of `atanh` -/
def atanhArg (x : TwoFloat) : TwoFloat :=
  arithmetic.impl_Div_TwoFloat_for_TwoFloat.div
    (arithmetic.impl_Add_TwoFloat_for_f64.add (f64lit 0x3ff0000000000000) x)
    (arithmetic.impl_Sub_TwoFloat_for_f64.sub (f64lit 0x3ff0000000000000) x)

theorem atanh_unfold (x : TwoFloat) :
    TwoFloat.atanh x = arithmetic.impl_Div_f64_for_TwoFloat.div (TwoFloat.ln (atanhArg x))
      (f64lit 0x4000000000000000) := rfl

theorem artanh_eq_log {v : ℝ} (hv : |v| ≤ 1 - 1 / 2 ^ 10) :
    Real.artanh v = 1 / 2 * Real.log ((1 + v) / (1 - v)) := by
  obtain ⟨v1, v2⟩ := abs_le.1 hv
  apply Real.artanh_eq_half_log
  constructor
  · norm_num at v1; linarith
  · norm_num at v2; linarith

/-- **`atanh`, what the analysis gives**: the quotient `(1 + x)/(1 − x)` is a valid pair, and
`|atanh(x) − artanh v| ≤ 34u²·|artanh v| + 27u²` for `|v| ≤ 1 − 2^-10` -/
theorem atanh_bound_sharp (x : TwoFloat) (hv : x.Valid) (hw : x.WF) (h : |val x| ≤ 1 - 1 / 2 ^ 10) :
    (atanhArg x).Valid ∧ (TwoFloat.atanh x).Valid ∧ (TwoFloat.atanh x).WF ∧
    |val (TwoFloat.atanh x) - Real.artanh (val x)| ≤ 34 / 2 ^ 106 * |Real.artanh (val x)| + 27 / 2 ^ 106 := by
  have hx : VW x := ⟨hv, hw⟩
  have hxa : |rv x| ≤ 2 ^ 1000 := le_trans h (by norm_num)
  rw [atanh_unfold, artanh_eq_log h]
  unfold atanhArg
  obtain ⟨hN, hn⟩ := one_add_rv hx hxa
  obtain ⟨hD, hd⟩ := one_sub_rv hx hxa
  generalize arithmetic.impl_Add_TwoFloat_for_f64.add (f64lit 0x3ff0000000000000) x = N at *
  generalize arithmetic.impl_Sub_TwoFloat_for_f64.sub (f64lit 0x3ff0000000000000) x = D at *
  obtain ⟨n1, n2, d1, d2⟩ := atanh_ranges h hn hd
  have hn0 : 0 < rv N := lt_of_lt_of_le (by positivity) n1
  have hd0 : 0 < rv D := lt_of_lt_of_le (by positivity) d1
  obtain ⟨hQ, hq⟩ := Exp2Bound.div_rv hN hD
    (by rw [abs_of_pos hn0]; exact le_trans (by norm_num) n1)
    (by rw [abs_of_pos hn0]; exact le_trans n2 (by norm_num))
    (by rw [abs_of_pos hd0]; exact le_trans (by norm_num) d1)
    (by rw [abs_of_pos hd0]; exact le_trans d2 (by norm_num))
    (by
      rw [abs_of_pos hn0, abs_of_pos hd0]
      have : (1 : ℝ) / 2 ^ 950 * rv D ≤ 1 / 2 ^ 950 * 4 := mul_le_mul_of_nonneg_left d2 (by positivity)
      have : (1 : ℝ) / 2 ^ 950 * 4 ≤ 1 / 2 ^ 11 := by norm_num
      linarith)
    (by
      rw [abs_of_pos hn0, abs_of_pos hd0]
      have : (2 : ℝ) ^ 1000 * (1 / 2 ^ 11) ≤ 2 ^ 1000 * rv D := mul_le_mul_of_nonneg_left d1 (by positivity)
      have : (4 : ℝ) ≤ 2 ^ 1000 * (1 / 2 ^ 11) := by norm_num
      linarith)
  refine ⟨hQ.1, ?_⟩
  generalize arithmetic.impl_Div_TwoFloat_for_TwoFloat.div N D = Q at *
  obtain ⟨hB, q1, q2, q3⟩ := atanh_real h hn hd hq
  obtain ⟨hR, hr⟩ := ln_rv hQ (le_trans (by norm_num) q2) (le_trans q3 (by norm_num))
  have key := ln_stage hB (by norm_num) q1 hr
  have key' : |rv (TwoFloat.ln Q) - Real.log ((1 + rv x) / (1 - rv x))|
      ≤ 1 / 2 ^ 101 * |Real.log ((1 + rv x) / (1 - rv x))| + 53 / 2 ^ 106 := by
    refine le_trans key ?_
    have : (1 : ℝ) / 2 ^ 101 + 201 / 10 / 2 ^ 106 * (1 + 1 / 2 ^ 38) ≤ 53 / 2 ^ 106 := by norm_num
    linarith
  generalize TwoFloat.ln Q = R at *
  obtain ⟨hF, hf⟩ := Exp2Bound.div_pow2_gen hR Exp2Bound.two_isVal (le_refl 1) (by norm_num)
  exact ⟨hF.1, hF.2, atanh_final key' hf⟩

/-- **Property C18, accuracy of `atanh`**: for every valid `x` with `|x| ≤ 1 − 2^-10`, `atanh(x)` is a valid pair within
`2^-100·|atanh v| + 2^-101` of the true value -/
theorem atanh_bound (x : TwoFloat) (hv : x.Valid) (hw : x.WF) (h : |val x| ≤ 1 - 1 / 2 ^ 10) :
    (TwoFloat.atanh x).Valid ∧
    |val (TwoFloat.atanh x) - Real.artanh (val x)| ≤ 1 / 2 ^ 100 * |Real.artanh (val x)| + 1 / 2 ^ 101 := by
  obtain ⟨-, h1, -, h3⟩ := atanh_bound_sharp x hv hw h
  refine ⟨h1, le_trans h3 ?_⟩
  have := abs_nonneg (Real.artanh (val x))
  have e1 : (34 : ℝ) / 2 ^ 106 * |Real.artanh (val x)| ≤ 1 / 2 ^ 100 * |Real.artanh (val x)| :=
    mul_le_mul_of_nonneg_right (by norm_num) this
  have e2 : (27 : ℝ) / 2 ^ 106 ≤ 1 / 2 ^ 101 := by norm_num
  linarith

/-- **`atanh` never panics** on a valid argument with `|x| ≤ 1 − 2^-10` (the quotient is a valid pair) -/
theorem atanh_pf (x : TwoFloat) (hv : x.Valid) (hw : x.WF) (h : |val x| ≤ 1 - 1 / 2 ^ 10) :
    TwoFloat.atanh.pf x = true :=
  C18p.atanh_pf_of_quot_inv x (Or.inl (atanh_bound_sharp x hv hw h).1)

end atanh

/-! ## 4. `acosh` -/

section acosh

/-- `s ≈ v² − 1` with the cancellation made explicit: error `9.01u²·W + 7.01u²`, `W = v² − 1` -/
theorem acosh_stage1 {v m s : ℝ} (hv1 : 1 + 1 / 2 ^ 103 ≤ v) (hv2 : v ≤ 2 ^ 60)
    (hm : |m - v * v| ≤ 7 / 2 ^ 106 * |v * v|)
    (hs : |s - (m - 1)| ≤ 1 / 2 ^ 105 * |m - 1|) :
    1 / 2 ^ 102 ≤ v * v - 1 ∧ |m| ≤ 2 ^ 121 ∧
    |s - (v * v - 1)| ≤ 901 / 100 / 2 ^ 106 * (v * v - 1) + 701 / 100 / 2 ^ 106 ∧
    1 / 2 ^ 104 ≤ s ∧ s ≤ 2 ^ 122 := by
  have hW : 1 / 2 ^ 102 ≤ v * v - 1 := by
    have h1 : (1 + 1 / 2 ^ 103) * (1 + 1 / 2 ^ 103) ≤ v * v :=
      mul_le_mul hv1 hv1 (by positivity) (by linarith [show (0 : ℝ) ≤ 1 + 1 / 2 ^ 103 by positivity])
    have h2 : (1 : ℝ) + 1 / 2 ^ 102 ≤ (1 + 1 / 2 ^ 103) * (1 + 1 / 2 ^ 103) := by norm_num
    linarith
  have hv0 : 0 ≤ v := le_trans (by positivity) hv1
  have hvv2 : v * v ≤ 2 ^ 120 := by
    calc v * v ≤ 2 ^ 60 * 2 ^ 60 := mul_le_mul hv2 hv2 hv0 (by positivity)
      _ = 2 ^ 120 := by norm_num
  have hW0 : (0 : ℝ) < v * v - 1 := lt_of_lt_of_le (by positivity) hW
  rw [abs_of_nonneg (mul_nonneg hv0 hv0)] at hm
  generalize hWdef : v * v - 1 = W at *
  have evv : v * v = W + 1 := by linarith
  rw [evv] at hm hvv2
  obtain ⟨m1, m2⟩ := abs_le.1 hm
  have hm1 : |m - 1| ≤ W + 7 / 2 ^ 106 * (W + 1) := by
    rw [abs_le]; constructor <;> linarith
  have hs' : |s - (m - 1)| ≤ 1 / 2 ^ 105 * (W + 7 / 2 ^ 106 * (W + 1)) :=
    le_trans hs (mul_le_mul_of_nonneg_left hm1 (by positivity))
  obtain ⟨s1, s2⟩ := abs_le.1 hs'
  have k1 : (1 : ℝ) / 2 ^ 105 * (W + 7 / 2 ^ 106 * (W + 1)) + 7 / 2 ^ 106 * (W + 1)
      ≤ 901 / 100 / 2 ^ 106 * W + 701 / 100 / 2 ^ 106 := by
    have e : (1 : ℝ) / 2 ^ 105 * (W + 7 / 2 ^ 106 * (W + 1)) + 7 / 2 ^ 106 * (W + 1)
        = (1 / 2 ^ 105 + 1 / 2 ^ 105 * (7 / 2 ^ 106) + 7 / 2 ^ 106) * W
          + (1 / 2 ^ 105 * (7 / 2 ^ 106) + 7 / 2 ^ 106) := by ring
    rw [e]
    have c1 : (1 : ℝ) / 2 ^ 105 + 1 / 2 ^ 105 * (7 / 2 ^ 106) + 7 / 2 ^ 106 ≤ 901 / 100 / 2 ^ 106 := by norm_num
    have c2 : (1 : ℝ) / 2 ^ 105 * (7 / 2 ^ 106) + 7 / 2 ^ 106 ≤ 701 / 100 / 2 ^ 106 := by norm_num
    have := mul_le_mul_of_nonneg_right c1 hW0.le
    linarith
  have hsW : |s - W| ≤ 901 / 100 / 2 ^ 106 * W + 701 / 100 / 2 ^ 106 := by
    rw [abs_le]; constructor <;> linarith
  obtain ⟨t1, t2⟩ := abs_le.1 hsW
  have c3 : (901 : ℝ) / 100 / 2 ^ 106 * W ≤ 1 / 4 * W := mul_le_mul_of_nonneg_right (by norm_num) hW0.le
  have c4 : (7 : ℝ) / 2 ^ 106 * (W + 1) ≤ 1 / 4 * (W + 1) := mul_le_mul_of_nonneg_right (by norm_num) (by linarith)
  refine ⟨hW, ?_, hsW, ?_, ?_⟩
  · rw [abs_le]
    have : (2 : ℝ) ^ 121 = 2 * 2 ^ 120 := by norm_num
    constructor <;> linarith
  · have e : (1 : ℝ) / 2 ^ 102 = 16 / 2 ^ 106 := by norm_num
    have e' : (1 : ℝ) / 2 ^ 104 = 4 / 2 ^ 106 := by norm_num
    rw [e] at hW
    rw [e']
    have : (701 : ℝ) / 100 / 2 ^ 106 = 701 / 100 * (1 / 2 ^ 106) := by ring
    have h16 : (16 : ℝ) / 2 ^ 106 = 16 * (1 / 2 ^ 106) := by ring
    have h4 : (4 : ℝ) / 2 ^ 106 = 4 * (1 / 2 ^ 106) := by ring
    generalize (1 : ℝ) / 2 ^ 106 = u2 at *
    linarith
  · have : (2 : ℝ) ^ 122 = 4 * 2 ^ 120 := by norm_num
    linarith

/-- `q ≈ √W`: `|q − S| ≤ 30.2u²·S + 7.1u²/S`, `S = √W` -/
theorem acosh_stage2 {W s q : ℝ} (hW : 0 < W) (hs0 : 0 ≤ s)
    (h1 : |s - W| ≤ 901 / 100 / 2 ^ 106 * W + 701 / 100 / 2 ^ 106)
    (hq : |q - Real.sqrt s| ≤ 21 / 2 ^ 106 * Real.sqrt s) :
    |q - Real.sqrt W| ≤ 302 / 10 / 2 ^ 106 * Real.sqrt W + 71 / 10 / 2 ^ 106 * (Real.sqrt W)⁻¹ := by
  have hS : 0 < Real.sqrt W := Real.sqrt_pos.2 hW
  have hSS : Real.sqrt W * Real.sqrt W = W := Real.mul_self_sqrt hW.le
  have hss : Real.sqrt s * Real.sqrt s = s := Real.mul_self_sqrt hs0
  have hs' := Real.sqrt_nonneg s
  generalize Real.sqrt W = S at *
  generalize Real.sqrt s = z at *
  have hI : S * S⁻¹ = 1 := mul_inv_cancel₀ hS.ne'
  have hI0 : 0 < S⁻¹ := inv_pos.2 hS
  generalize S⁻¹ = T at *
  -- |z − S|·S ≤ |s − W|
  have h2 : |z - S| * S ≤ |s - W| := by
    have e : s - W = (z - S) * (z + S) := by rw [← hss, ← hSS]; ring
    rw [e, abs_mul, abs_of_pos (by linarith : 0 < z + S)]
    exact mul_le_mul_of_nonneg_left (by linarith) (abs_nonneg _)
  have h3 : |z - S| ≤ 901 / 100 / 2 ^ 106 * S + 701 / 100 / 2 ^ 106 * T := by
    have h4 : |z - S| * S ≤ 901 / 100 / 2 ^ 106 * W + 701 / 100 / 2 ^ 106 := le_trans h2 h1
    have h5 := mul_le_mul_of_nonneg_right h4 hI0.le
    have e1 : |z - S| * S * T = |z - S| := by rw [mul_assoc, hI, mul_one]
    have e2 : (901 / 100 / 2 ^ 106 * W + 701 / 100 / 2 ^ 106) * T
        = 901 / 100 / 2 ^ 106 * S * (S * T) + 701 / 100 / 2 ^ 106 * T := by rw [← hSS]; ring
    rw [e1, e2, hI, mul_one] at h5
    exact h5
  obtain ⟨z1, z2⟩ := abs_le.1 h3
  have hz : z ≤ S + (901 / 100 / 2 ^ 106 * S + 701 / 100 / 2 ^ 106 * T) := by linarith
  have hq' : |q - z| ≤ 21 / 2 ^ 106 * (S + (901 / 100 / 2 ^ 106 * S + 701 / 100 / 2 ^ 106 * T)) :=
    le_trans hq (mul_le_mul_of_nonneg_left hz (by positivity))
  obtain ⟨q1, q2⟩ := abs_le.1 hq'
  have k : (21 : ℝ) / 2 ^ 106 * (S + (901 / 100 / 2 ^ 106 * S + 701 / 100 / 2 ^ 106 * T))
      + (901 / 100 / 2 ^ 106 * S + 701 / 100 / 2 ^ 106 * T)
      ≤ 302 / 10 / 2 ^ 106 * S + 71 / 10 / 2 ^ 106 * T := by
    have e : (21 : ℝ) / 2 ^ 106 * (S + (901 / 100 / 2 ^ 106 * S + 701 / 100 / 2 ^ 106 * T))
      + (901 / 100 / 2 ^ 106 * S + 701 / 100 / 2 ^ 106 * T)
        = (21 / 2 ^ 106 * (1 + 901 / 100 / 2 ^ 106) + 901 / 100 / 2 ^ 106) * S
          + ((1 + 21 / 2 ^ 106) * (701 / 100 / 2 ^ 106)) * T := by ring
    rw [e]
    have c1 : (21 : ℝ) / 2 ^ 106 * (1 + 901 / 100 / 2 ^ 106) + 901 / 100 / 2 ^ 106 ≤ 302 / 10 / 2 ^ 106 := by
      norm_num
    have c2 : ((1 : ℝ) + 21 / 2 ^ 106) * (701 / 100 / 2 ^ 106) ≤ 71 / 10 / 2 ^ 106 := by norm_num
    have := mul_le_mul_of_nonneg_right c1 hS.le
    have := mul_le_mul_of_nonneg_right c2 hI0.le
    linarith
  rw [abs_le]
  constructor <;> linarith

/-- the computed sum against `B = v + S` -/
theorem acosh_stage3 {v S T q A : ℝ} (hv : 1 ≤ v) (hS : 0 < S)
    (hq : |q - S| ≤ 302 / 10 / 2 ^ 106 * S + 71 / 10 / 2 ^ 106 * T)
    (hA : |A - (v + q)| ≤ cA * |v + q|) :
    |A - (v + S)| ≤ 301 / 100 / 2 ^ 106 * (v + S)
      + (1 + 301 / 100 / 2 ^ 106) * (302 / 10 / 2 ^ 106 * S + 71 / 10 / 2 ^ 106 * T) := by
  have hE : 0 ≤ 302 / 10 / 2 ^ 106 * S + 71 / 10 / 2 ^ 106 * T := le_trans (abs_nonneg _) hq
  generalize 302 / 10 / 2 ^ 106 * S + 71 / 10 / 2 ^ 106 * T = E at *
  obtain ⟨q1, q2⟩ := abs_le.1 hq
  have hvq : |v + q| ≤ (v + S) + E := by
    rw [abs_le]; constructor <;> linarith
  have hA' : |A - (v + q)| ≤ 301 / 100 / 2 ^ 106 * ((v + S) + E) :=
    le_trans hA (mul_le_mul cA_le' hvq (abs_nonneg _) (by positivity))
  obtain ⟨a1, a2⟩ := abs_le.1 hA'
  rw [abs_le]
  constructor <;> linarith

/-- **`acosh`, real analysis**: from the operator bounds to `|r − A| ≤ 32u²·A + 66u² + 7.2u²/A`, `A = arcosh v` -/
theorem acosh_final {v A' r : ℝ} (hv1 : 1 + 1 / 2 ^ 103 ≤ v)
    (hA : |A' - (v + Real.sqrt (v * v - 1))| ≤ 301 / 100 / 2 ^ 106 * (v + Real.sqrt (v * v - 1))
      + (1 + 301 / 100 / 2 ^ 106) * (302 / 10 / 2 ^ 106 * Real.sqrt (v * v - 1)
        + 71 / 10 / 2 ^ 106 * (Real.sqrt (v * v - 1))⁻¹))
    (hr : |r - Real.log A'| ≤ 1 / 2 ^ 101 * (1 + |Real.log A'|)) :
    0 < Real.arcosh v ∧
    |r - Real.arcosh v| ≤ 1 / 2 ^ 101 * Real.arcosh v + 66 / 2 ^ 106 + 72 / 10 / 2 ^ 106 * (Real.arcosh v)⁻¹ := by
  have hv : 1 < v := lt_of_lt_of_le (by norm_num) hv1
  have hW : 1 / 2 ^ 102 ≤ v * v - 1 := by
    have h1 : (1 + 1 / 2 ^ 103) * (1 + 1 / 2 ^ 103) ≤ v * v :=
      mul_le_mul hv1 hv1 (by positivity) (by linarith)
    have h2 : (1 : ℝ) + 1 / 2 ^ 102 ≤ (1 + 1 / 2 ^ 103) * (1 + 1 / 2 ^ 103) := by norm_num
    linarith
  have hW0 : 0 < v * v - 1 := lt_of_lt_of_le (by positivity) hW
  have hApos : 0 < Real.arcosh v := Real.arcosh_pos hv
  have hAS : Real.arcosh v ≤ Real.sqrt (v * v - 1) := by
    have h1 := Real.self_le_sinh_iff.2 hApos.le
    rw [Real.sinh_arcosh hv.le, show v ^ 2 - 1 = v * v - 1 by ring] at h1
    exact h1
  have hAdef : Real.arcosh v = Real.log (v + Real.sqrt (v * v - 1)) := by
    unfold Real.arcosh; rw [show v ^ 2 - 1 = v * v - 1 by ring]
  refine ⟨hApos, ?_⟩
  have hS51 : 1 / 2 ^ 51 ≤ Real.sqrt (v * v - 1) := by
    rw [Real.le_sqrt' (by positivity)]
    refine le_trans ?_ hW
    norm_num
  rw [hAdef] at hAS hApos ⊢
  generalize Real.sqrt (v * v - 1) = S at *
  have hS : 0 < S := lt_of_lt_of_le (by positivity) hS51
  have hB1 : 1 ≤ v + S := by linarith
  have hB0 : 0 < v + S := by linarith
  have hI : S * S⁻¹ = 1 := mul_inv_cancel₀ hS.ne'
  have hT0 : 0 < S⁻¹ := inv_pos.2 hS
  have hT51 : S⁻¹ ≤ 2 ^ 51 := by
    rw [inv_le_comm₀ hS (by positivity)]
    rw [show ((2 : ℝ) ^ 51)⁻¹ = 1 / 2 ^ 51 by norm_num]
    exact hS51
  have hTA : S⁻¹ ≤ (Real.log (v + S))⁻¹ := by
    rw [inv_le_inv₀ hS hApos]; exact hAS
  generalize hLdef : Real.log (v + S) = L at *
  have hJ0 : 0 < L⁻¹ := inv_pos.2 hApos
  generalize L⁻¹ = J at *
  generalize S⁻¹ = T at *
  -- relative error of the argument
  have hε : |A' - (v + S)| ≤ (301 / 100 / 2 ^ 106
      + (1 + 301 / 100 / 2 ^ 106) * (302 / 10 / 2 ^ 106 + 71 / 10 / 2 ^ 106 * T)) * (v + S) := by
    refine le_trans hA ?_
    have h1 : S ≤ v + S := by linarith
    have h2 : T ≤ T * (v + S) := by nlinarith
    have h3 : (302 : ℝ) / 10 / 2 ^ 106 * S + 71 / 10 / 2 ^ 106 * T
        ≤ (302 / 10 / 2 ^ 106 + 71 / 10 / 2 ^ 106 * T) * (v + S) := by
      have e : ((302 : ℝ) / 10 / 2 ^ 106 + 71 / 10 / 2 ^ 106 * T) * (v + S)
          = 302 / 10 / 2 ^ 106 * (v + S) + 71 / 10 / 2 ^ 106 * (T * (v + S)) := by ring
      rw [e]
      have := mul_le_mul_of_nonneg_left h1 (by positivity : (0 : ℝ) ≤ 302 / 10 / 2 ^ 106)
      have := mul_le_mul_of_nonneg_left h2 (by positivity : (0 : ℝ) ≤ 71 / 10 / 2 ^ 106)
      linarith
    have h4 := mul_le_mul_of_nonneg_left h3 (by positivity : (0 : ℝ) ≤ 1 + 301 / 100 / 2 ^ 106)
    have e : ((301 : ℝ) / 100 / 2 ^ 106
      + (1 + 301 / 100 / 2 ^ 106) * (302 / 10 / 2 ^ 106 + 71 / 10 / 2 ^ 106 * T)) * (v + S)
        = 301 / 100 / 2 ^ 106 * (v + S)
          + (1 + 301 / 100 / 2 ^ 106) * ((302 / 10 / 2 ^ 106 + 71 / 10 / 2 ^ 106 * T) * (v + S)) := by ring
    rw [e]
    linarith
  have hεs : (301 : ℝ) / 100 / 2 ^ 106
      + (1 + 301 / 100 / 2 ^ 106) * (302 / 10 / 2 ^ 106 + 71 / 10 / 2 ^ 106 * T) ≤ 1 / 2 ^ 40 := by
    have h1 : (71 : ℝ) / 10 / 2 ^ 106 * T ≤ 71 / 10 / 2 ^ 106 * 2 ^ 51 :=
      mul_le_mul_of_nonneg_left hT51 (by positivity)
    have h2 : (1 + (301 : ℝ) / 100 / 2 ^ 106) * (302 / 10 / 2 ^ 106 + 71 / 10 / 2 ^ 106 * T)
        ≤ (1 + 301 / 100 / 2 ^ 106) * (302 / 10 / 2 ^ 106 + 71 / 10 / 2 ^ 106 * 2 ^ 51) :=
      mul_le_mul_of_nonneg_left (by linarith) (by positivity)
    have h3 : (301 : ℝ) / 100 / 2 ^ 106
        + (1 + 301 / 100 / 2 ^ 106) * (302 / 10 / 2 ^ 106 + 71 / 10 / 2 ^ 106 * 2 ^ 51) ≤ 1 / 2 ^ 40 := by norm_num
    linarith
  have key := ln_stage hB0 hεs hε hr
  rw [hLdef, abs_of_pos hApos] at key
  refine le_trans key ?_
  -- ε(1 + 2^-38) ≤ 34u² + 7.2u²·J
  have h5 : (71 : ℝ) / 10 / 2 ^ 106 * T ≤ 71 / 10 / 2 ^ 106 * J := mul_le_mul_of_nonneg_left hTA (by positivity)
  have h6 : ((301 : ℝ) / 100 / 2 ^ 106
      + (1 + 301 / 100 / 2 ^ 106) * (302 / 10 / 2 ^ 106 + 71 / 10 / 2 ^ 106 * T)) * (1 + 1 / 2 ^ 38)
      ≤ (301 / 100 / 2 ^ 106
      + (1 + 301 / 100 / 2 ^ 106) * (302 / 10 / 2 ^ 106 + 71 / 10 / 2 ^ 106 * J)) * (1 + 1 / 2 ^ 38) := by
    apply mul_le_mul_of_nonneg_right _ (by positivity)
    have := mul_le_mul_of_nonneg_left (by linarith : (302 : ℝ) / 10 / 2 ^ 106 + 71 / 10 / 2 ^ 106 * T
      ≤ 302 / 10 / 2 ^ 106 + 71 / 10 / 2 ^ 106 * J) (by positivity : (0 : ℝ) ≤ 1 + 301 / 100 / 2 ^ 106)
    linarith
  have e : ((301 : ℝ) / 100 / 2 ^ 106
      + (1 + 301 / 100 / 2 ^ 106) * (302 / 10 / 2 ^ 106 + 71 / 10 / 2 ^ 106 * J)) * (1 + 1 / 2 ^ 38)
      = (301 / 100 / 2 ^ 106 + (1 + 301 / 100 / 2 ^ 106) * (302 / 10 / 2 ^ 106)) * (1 + 1 / 2 ^ 38)
        + ((1 + 301 / 100 / 2 ^ 106) * (71 / 10 / 2 ^ 106) * (1 + 1 / 2 ^ 38)) * J := by ring
  rw [e] at h6
  have c1 : (1 : ℝ) / 2 ^ 101 + (301 / 100 / 2 ^ 106 + (1 + 301 / 100 / 2 ^ 106) * (302 / 10 / 2 ^ 106))
      * (1 + 1 / 2 ^ 38) ≤ 66 / 2 ^ 106 := by norm_num
  have c2 : (1 + (301 : ℝ) / 100 / 2 ^ 106) * (71 / 10 / 2 ^ 106) * (1 + 1 / 2 ^ 38) ≤ 72 / 10 / 2 ^ 106 := by
    norm_num
  have := mul_le_mul_of_nonneg_right c2 hJ0.le
  linarith

/-- the `ln` argument of `acosh`, `x + sqrt(x² − 1)` -/
def acoshArg (x : TwoFloat) : TwoFloat :=
  arithmetic.impl_Add_TwoFloat_for_TwoFloat.add x (TwoFloat.sqrt (arithmetic.impl_Sub_f64_for_TwoFloat.sub
    (arithmetic.impl_Mul_TwoFloat_for_TwoFloat.mul x x) (f64lit 0x3ff0000000000000)))

/-- the domain test `self < 1.0` of `acosh` is false for a valid `x ≥ 1` -/
theorem acosh_test_false {x : TwoFloat} (hv : x.Valid) (h : 1 ≤ rv x) :
    ROrd.isLt (base.impl_PartialOrd_f64_for_TwoFloat.partial_cmp x (f64lit 0x3ff0000000000000)) = false := by
  rw [Bool.eq_false_iff]
  intro hlt
  have h1 := (C06.lt_f64_exact hv C01d.one_WF C01d.one_isVal.1).1 hlt
  rw [C01d.one_isVal.2, C01d.unit_int_eq] at h1
  have h2 : (x.V : ℝ) < 2 ^ 1074 := by exact_mod_cast h1
  have h3 : rv x < 1 := by
    unfold rv
    rw [div_lt_one (by positivity)]
    exact h2
  linarith

/-- for a valid `x ≥ 1` `acosh` is `ln(x + sqrt(x² − 1))` -/
theorem acosh_unfold (x : TwoFloat) (hv : x.Valid) (h : 1 ≤ rv x) :
    TwoFloat.acosh x = TwoFloat.ln (acoshArg x) := by
  unfold TwoFloat.acosh
  rw [acosh_test_false hv h, if_neg Bool.false_ne_true]
  rfl

/-- **the core of `acosh`** on a valid pair `1 + 2^-103 ≤ v ≤ 2^60`: the `sqrt` result is valid and
`|acosh(x) − A| ≤ 32u²·A + 66u² + 7.2u²/A`, `A = arcosh v` -/
theorem acosh_core {x : TwoFloat} (hx : VW x) (h1 : 1 + 1 / 2 ^ 103 ≤ rv x) (h2 : rv x ≤ 2 ^ 60) :
    VW (TwoFloat.sqrt (arithmetic.impl_Sub_f64_for_TwoFloat.sub
      (arithmetic.impl_Mul_TwoFloat_for_TwoFloat.mul x x) (f64lit 0x3ff0000000000000))) ∧
    VW (TwoFloat.ln (acoshArg x)) ∧ 0 < Real.arcosh (rv x) ∧
    |rv (TwoFloat.ln (acoshArg x)) - Real.arcosh (rv x)|
      ≤ 1 / 2 ^ 101 * Real.arcosh (rv x) + 66 / 2 ^ 106 + 72 / 10 / 2 ^ 106 * (Real.arcosh (rv x))⁻¹ := by
  unfold acoshArg
  have hv1 : 1 ≤ rv x := le_trans (by norm_num) h1
  have hv0 : 0 ≤ rv x := by linarith
  have hvv1 : 1 ≤ rv x * rv x := by nlinarith
  have hvv2 : rv x * rv x ≤ 2 ^ 120 := by
    calc rv x * rv x ≤ 2 ^ 60 * 2 ^ 60 := mul_le_mul h2 h2 hv0 (by positivity)
      _ = 2 ^ 120 := by norm_num
  have hxa : |rv x| ≤ 2 ^ 1000 := by
    rw [abs_of_nonneg hv0]; exact le_trans h2 (by norm_num)
  have hvva : |rv x * rv x| = rv x * rv x := abs_of_nonneg (by linarith)
  obtain ⟨hM, hm⟩ := mul_rv_rel hx hx (by rw [hvva]; exact le_trans (by norm_num) hvv1)
    (by rw [hvva]; exact le_trans hvv2 (by norm_num))
  generalize arithmetic.impl_Mul_TwoFloat_for_TwoFloat.mul x x = M at *
  have hMabs : |rv M| ≤ 2 ^ 1000 := by
    have h3 := abs_sub_abs_le_abs_sub (rv M) (rv x * rv x)
    rw [hvva] at h3 hm
    have : (7 : ℝ) / 2 ^ 106 * (rv x * rv x) ≤ 1 * 2 ^ 120 :=
      mul_le_mul (by norm_num) hvv2 (by linarith) (by norm_num)
    have : |rv M| ≤ 2 ^ 120 + 2 ^ 120 := by linarith
    exact le_trans this (by norm_num)
  obtain ⟨hS, hs⟩ := LnBound.sub_one_rv hM hMabs
  generalize arithmetic.impl_Sub_f64_for_TwoFloat.sub M (f64lit 0x3ff0000000000000) = S at *
  obtain ⟨hW, -, s1, s2, s3⟩ := acosh_stage1 h1 h2 hm hs
  have hW0 : 0 < rv x * rv x - 1 := lt_of_lt_of_le (by positivity) hW
  obtain ⟨hQ, hq⟩ := sqrt_rv hS (le_trans (by norm_num) s2) (le_trans s3 (by norm_num))
  refine ⟨hQ, ?_⟩
  generalize TwoFloat.sqrt S = Q at *
  have q1 := acosh_stage2 hW0 (le_trans (by positivity) s2) s1 hq
  -- the exact root
  have hR51 : 1 / 2 ^ 51 ≤ Real.sqrt (rv x * rv x - 1) := by
    rw [Real.le_sqrt' (by positivity)]
    refine le_trans ?_ hW
    norm_num
  have hRv : Real.sqrt (rv x * rv x - 1) ≤ rv x := by
    rw [Real.sqrt_le_left hv0]; nlinarith
  have hR0 : 0 < Real.sqrt (rv x * rv x - 1) := lt_of_lt_of_le (by positivity) hR51
  have hT51 : (Real.sqrt (rv x * rv x - 1))⁻¹ ≤ 2 ^ 51 := by
    rw [inv_le_comm₀ hR0 (by positivity)]
    rw [show ((2 : ℝ) ^ 51)⁻¹ = 1 / 2 ^ 51 by norm_num]
    exact hR51
  have hT0 : 0 < (Real.sqrt (rv x * rv x - 1))⁻¹ := inv_pos.2 hR0
  have hE : 302 / 10 / 2 ^ 106 * Real.sqrt (rv x * rv x - 1)
      + 71 / 10 / 2 ^ 106 * (Real.sqrt (rv x * rv x - 1))⁻¹ ≤ 1 / 4 := by
    have c1 : (302 : ℝ) / 10 / 2 ^ 106 * Real.sqrt (rv x * rv x - 1) ≤ 302 / 10 / 2 ^ 106 * 2 ^ 60 :=
      mul_le_mul_of_nonneg_left (le_trans hRv h2) (by positivity)
    have c2 : (71 : ℝ) / 10 / 2 ^ 106 * (Real.sqrt (rv x * rv x - 1))⁻¹ ≤ 71 / 10 / 2 ^ 106 * 2 ^ 51 :=
      mul_le_mul_of_nonneg_left hT51 (by positivity)
    have c3 : (302 : ℝ) / 10 / 2 ^ 106 * 2 ^ 60 + 71 / 10 / 2 ^ 106 * 2 ^ 51 ≤ 1 / 4 := by norm_num
    linarith
  have hQabs : |rv Q| ≤ 2 ^ 1000 := by
    have h3 := abs_sub_abs_le_abs_sub (rv Q) (Real.sqrt (rv x * rv x - 1))
    rw [abs_of_pos hR0] at h3
    have : |rv Q| ≤ 2 ^ 60 + 1 / 4 := by linarith
    exact le_trans this (by norm_num)
  obtain ⟨hA, hAb⟩ := add_rv hx hQ hxa hQabs
  generalize arithmetic.impl_Add_TwoFloat_for_TwoFloat.add x Q = A at *
  have a1 := acosh_stage3 hv1 hR0 q1 hAb
  -- range of the argument of ln
  have hArange : 1 / 2 ≤ rv A ∧ rv A ≤ 2 ^ 62 := by
    have hB1 : 1 ≤ rv x + Real.sqrt (rv x * rv x - 1) := by linarith
    have hB2 : rv x + Real.sqrt (rv x * rv x - 1) ≤ 2 * 2 ^ 60 := by linarith
    have c1 : (301 : ℝ) / 100 / 2 ^ 106 * (rv x + Real.sqrt (rv x * rv x - 1)) ≤ 301 / 100 / 2 ^ 106 * (2 * 2 ^ 60) :=
      mul_le_mul_of_nonneg_left hB2 (by positivity)
    have c2 : (1 + (301 : ℝ) / 100 / 2 ^ 106) * (302 / 10 / 2 ^ 106 * Real.sqrt (rv x * rv x - 1)
        + 71 / 10 / 2 ^ 106 * (Real.sqrt (rv x * rv x - 1))⁻¹) ≤ (1 + 301 / 100 / 2 ^ 106) * (1 / 4) :=
      mul_le_mul_of_nonneg_left hE (by positivity)
    have c3 : (301 : ℝ) / 100 / 2 ^ 106 * (2 * 2 ^ 60) + (1 + 301 / 100 / 2 ^ 106) * (1 / 4) ≤ 1 / 2 := by norm_num
    obtain ⟨b1, b2⟩ := abs_le.1 a1
    have e62 : (2 : ℝ) ^ 62 = 4 * 2 ^ 60 := by norm_num
    have : (1 : ℝ) ≤ 2 ^ 60 := by norm_num
    constructor <;> linarith
  obtain ⟨hR, hr⟩ := ln_rv hA (le_trans (by norm_num) hArange.1) (le_trans hArange.2 (by norm_num))
  obtain ⟨hpos, hfin⟩ := acosh_final h1 a1 hr
  exact ⟨hR, hpos, hfin⟩

/-- **`acosh`, what the analysis gives**: for `1 + 2^-103 ≤ v ≤ 2^60`,
`|acosh(x) − A| ≤ 32u²·A + 66u² + 7.2u²/A`, `A = arcosh v` -/
theorem acosh_bound_sharp (x : TwoFloat) (hv : x.Valid) (hw : x.WF) (h1 : 1 + 1 / 2 ^ 103 ≤ val x)
    (h2 : val x ≤ 2 ^ 60) :
    (TwoFloat.acosh x).Valid ∧ (TwoFloat.acosh x).WF ∧ 0 < Real.arcosh (val x) ∧
    |val (TwoFloat.acosh x) - Real.arcosh (val x)|
      ≤ 1 / 2 ^ 101 * Real.arcosh (val x) + 66 / 2 ^ 106 + 72 / 10 / 2 ^ 106 * (Real.arcosh (val x))⁻¹ := by
  obtain ⟨-, hR, hp, hb⟩ := acosh_core (x := x) ⟨hv, hw⟩ h1 h2
  rw [acosh_unfold x hv (le_trans (by norm_num) h1)]
  exact ⟨hR.1, hR.2, hp, hb⟩

/-- **Property C18, accuracy of `acosh`** (PARTIAL: `1 + 2^-103 ≤ x` instead of `1 < x`): for every valid `x` with
`1 + 2^-103 ≤ x ≤ 2^60`, `acosh(x)` is a valid pair within `2^-100·(A + 1/A)` of `A = acosh v` -/
theorem acosh_bound_partial (x : TwoFloat) (hv : x.Valid) (hw : x.WF) (h1 : 1 + 1 / 2 ^ 103 ≤ val x)
    (h2 : val x ≤ 2 ^ 60) :
    (TwoFloat.acosh x).Valid ∧
    |val (TwoFloat.acosh x) - Real.arcosh (val x)|
      ≤ 1 / 2 ^ 100 * (Real.arcosh (val x) + 1 / Real.arcosh (val x)) := by
  obtain ⟨h3, -, hp, hb⟩ := acosh_bound_sharp x hv hw h1 h2
  refine ⟨h3, le_trans hb ?_⟩
  rw [one_div (Real.arcosh (val x))]
  generalize Real.arcosh (val x) = L at *
  have hI : L * L⁻¹ = 1 := mul_inv_cancel₀ hp.ne'
  have hJ : 0 < L⁻¹ := inv_pos.2 hp
  generalize L⁻¹ = J at *
  -- 32 L + 66 + 7.2 J ≤ 64 L + 64 J  ⟸  66 ≤ 32 L + 56.8 J, and 32 L + 56.8 J ≥ 2·√(32·56.8) > 85
  have e1 : (1 : ℝ) / 2 ^ 101 = 32 * (1 / 2 ^ 106) := by norm_num
  have e2 : (1 : ℝ) / 2 ^ 100 = 64 * (1 / 2 ^ 106) := by norm_num
  have e3 : (66 : ℝ) / 2 ^ 106 = 66 * (1 / 2 ^ 106) := by ring
  have e4 : (72 : ℝ) / 10 / 2 ^ 106 = 72 / 10 * (1 / 2 ^ 106) := by ring
  rw [e1, e2, e3, e4]
  have hu : (0 : ℝ) < 1 / 2 ^ 106 := by positivity
  generalize (1 : ℝ) / 2 ^ 106 = u2 at *
  have key : 66 ≤ 32 * L + 568 / 10 * J := by
    nlinarith [sq_nonneg (L - 4 / 3 * J), sq_nonneg (L - J), mul_pos hp hJ]
  nlinarith

/-- **`acosh` never panics** on a valid argument with `1 + 2^-103 ≤ x ≤ 2^60` (the `sqrt` result is a valid pair) -/
theorem acosh_pf (x : TwoFloat) (hv : x.Valid) (hw : x.WF) (h1 : 1 + 1 / 2 ^ 103 ≤ val x)
    (h2 : val x ≤ 2 ^ 60) : TwoFloat.acosh.pf x = true := by
  obtain ⟨hQ, -⟩ := acosh_core (x := x) ⟨hv, hw⟩ h1 h2
  exact C18p.acosh_pf_of_sqrt_inv x (Or.inl hv) hw (Or.inl hQ.1)

end acosh

/-! ## 5. instances on concrete operands (hypotheses discharged by kernel evaluation) -/

section examples

/-- the double-double `(c, 0)` -/
def ofF (c : F64) : TwoFloat := ⟨c, F64.zero⟩

theorem val_of_V {t : TwoFloat} {n : ℤ} (h : t.V = n) : val t = (n : ℝ) / 2 ^ 1074 := by
  show ExpBound.rv t = _
  unfold ExpBound.rv; rw [h]

theorem val_one : val (ofF F64.one) = 1 := by
  rw [val_of_V (show (ofF F64.one).V = 2 ^ 1074 by decide +kernel)]
  simp only [Int.cast_pow, Int.cast_ofNat]
  exact div_self (by positivity : ((2 : ℝ) ^ 1074) ≠ 0)

theorem val_two : val (ofF (f64lit 0x4000000000000000)) = 2 := by
  rw [val_of_V (show (ofF (f64lit 0x4000000000000000)).V = 2 ^ 1075 by decide +kernel)]
  simp only [Int.cast_pow, Int.cast_ofNat]
  rw [div_eq_iff (by positivity : ((2 : ℝ) ^ 1074) ≠ 0), ← pow_succ']

theorem val_half : val (ofF (f64lit 0x3fe0000000000000)) = 1 / 2 := by
  rw [val_of_V (show (ofF (f64lit 0x3fe0000000000000)).V = 2 ^ 1073 by decide +kernel)]
  simp only [Int.cast_pow, Int.cast_ofNat]
  rw [div_eq_iff (by positivity : ((2 : ℝ) ^ 1074) ≠ 0)]
  rw [show (1074 : ℕ) = 1073 + 1 by norm_num, pow_succ]; ring

theorem val_neg_one : val (ofF (F64.neg F64.one)) = -1 := by
  rw [val_of_V (show (ofF (F64.neg F64.one)).V = -2 ^ 1074 by decide +kernel)]
  simp only [Int.cast_neg, Int.cast_pow, Int.cast_ofNat]
  rw [neg_div, div_self (by positivity : ((2 : ℝ) ^ 1074) ≠ 0)]

/-- `asinh(1)`, `asinh(−1)`, `acosh(2)`, `atanh(1/2)` -/
example :
    |val (TwoFloat.asinh (ofF F64.one)) - Real.arsinh 1| ≤ 1 / 2 ^ 100 * |Real.arsinh 1| + 1 / 2 ^ 98 ∧
    |val (TwoFloat.asinh (ofF (F64.neg F64.one))) - Real.arsinh (-1)| ≤ 1 / 2 ^ 100 * |Real.arsinh (-1)| + 1 / 2 ^ 98 ∧
    |val (TwoFloat.acosh (ofF (f64lit 0x4000000000000000))) - Real.arcosh 2|
      ≤ 1 / 2 ^ 100 * (Real.arcosh 2 + 1 / Real.arcosh 2) ∧
    |val (TwoFloat.atanh (ofF (f64lit 0x3fe0000000000000))) - Real.artanh (1 / 2)|
      ≤ 1 / 2 ^ 100 * |Real.artanh (1 / 2)| + 1 / 2 ^ 101 := by
  have h1 := (asinh_bound (ofF F64.one) (by decide +kernel) ⟨by decide +kernel, by decide +kernel⟩
    (by rw [val_one]; norm_num)).2
  have h2 := (asinh_bound (ofF (F64.neg F64.one)) (by decide +kernel) ⟨by decide +kernel, by decide +kernel⟩
    (by rw [val_neg_one]; norm_num)).2
  have h3 := (acosh_bound_partial (ofF (f64lit 0x4000000000000000)) (by decide +kernel)
    ⟨by decide +kernel, by decide +kernel⟩ (by rw [val_two]; norm_num) (by rw [val_two]; norm_num)).2
  have h4 := (atanh_bound (ofF (f64lit 0x3fe0000000000000)) (by decide +kernel)
    ⟨by decide +kernel, by decide +kernel⟩ (by rw [val_half]; norm_num)).2
  rw [val_one] at h1
  rw [val_neg_one] at h2
  rw [val_two] at h3
  rw [val_half] at h4
  exact ⟨h1, h2, h3, h4⟩

end examples

end C18i
