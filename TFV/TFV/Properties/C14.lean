/-
C14 (structural layer) — exponential family: the range switches of `exp`, the decision table of `powf`, and
closed instances evaluated by the kernel.
-/
import TFV.Spec.Defs
import TFV.Lemmas.Ident

namespace C14

abbrev zero : TwoFloat := convert.impl_From_f64_for_TwoFloat.from (f64lit 0x0000000000000000)
abbrev one : TwoFloat := convert.impl_From_f64_for_TwoFloat.from (f64lit 0x3ff0000000000000)

theorem zero_words : zero = ⟨F64.zero, F64.zero⟩ := by decide +kernel
theorem one_words : one = ⟨F64.one, F64.zero⟩ := by decide +kernel

/-- the limits are ±709.0 -/
theorem EXP_UPPER_LIMIT_val : explog.EXP_UPPER_LIMIT = F64.fin false (709 * 2^1074) := by decide +kernel
theorem EXP_LOWER_LIMIT_val : explog.EXP_LOWER_LIMIT = F64.fin true (709 * 2^1074) := by decide +kernel

/-! ### `exp`: range switches -/

/-- underflow: at or below the lower limit the result is exactly zero -/
theorem exp_le_lower (x : TwoFloat) (h : (x.hi <=. explog.EXP_LOWER_LIMIT) = true) : TwoFloat.exp x = zero := by
  unfold TwoFloat.exp
  simp only [h, if_true]

set_option exponentiation.threshold 1100 in
/-- overflow: at or above the upper limit the result is (+inf, 0) -/
theorem exp_ge_upper (x : TwoFloat) (h : (x.hi >=. explog.EXP_UPPER_LIMIT) = true) :
    TwoFloat.exp x = ⟨F64.INFINITY, f64lit 0⟩ := by
  have hl : (x.hi <=. explog.EXP_LOWER_LIMIT) = false := by
    rw [EXP_LOWER_LIMIT_val]
    rw [EXP_UPPER_LIMIT_val] at h
    exact Ident.f64_ge_ge x.hi _ (Nat.mul_pos (by decide) (Nat.two_pow_pos 1074)) h
  unfold TwoFloat.exp
  simp [hl, h]

/-- … which has a non-finite high word and is not valid -/
theorem exp_ge_upper_not_finite (x : TwoFloat) (h : (x.hi >=. explog.EXP_UPPER_LIMIT) = true) :
    (TwoFloat.exp x).hi.is_finite = false ∧ (TwoFloat.exp x).is_valid = false := by
  rw [exp_ge_upper x h]
  decide +kernel

/-- `exp(±0 + lo) = 1`: the `self.hi == 0.0` branch (the two range tests before it are false by computation) -/
theorem exp_zero_hi (x : TwoFloat) (h : (x.hi ==. f64lit 0) = true) : TwoFloat.exp x = one := by
  have h1 : (x.hi <=. explog.EXP_LOWER_LIMIT) = false := by
    rcases Ident.f64_eq_zero_cases _ h with e | e <;> rw [e] <;> decide +kernel
  have h2 : (x.hi >=. explog.EXP_UPPER_LIMIT) = false := by
    rcases Ident.f64_eq_zero_cases _ h with e | e <;> rw [e] <;> decide +kernel
  unfold TwoFloat.exp
  simp [h1, h2, h]

theorem exp_nan_hi (x : TwoFloat) (h : x.hi = F64.nan) : TwoFloat.exp x = TwoFloat.NAN := by
  cases x with
  | mk hi lo =>
    simp only at h
    subst h
    unfold TwoFloat.exp
    have a : (F64.nan <=. explog.EXP_LOWER_LIMIT) = false := by decide +kernel
    have b : (F64.nan >=. explog.EXP_UPPER_LIMIT) = false := by decide +kernel
    have c : (F64.nan ==. f64lit 0) = false := by decide +kernel
    simp [a, b, c, F64.is_nan]

/-- the same four switches guard the panic-freedom predicate -/
theorem exp_pf_le_lower (x : TwoFloat) (h : (x.hi <=. explog.EXP_LOWER_LIMIT) = true) : TwoFloat.exp.pf x = true := by
  unfold TwoFloat.exp.pf
  simp only [h, if_true]

theorem exp_pf_zero_hi (x : TwoFloat) (h : (x.hi ==. f64lit 0) = true) : TwoFloat.exp.pf x = true := by
  unfold TwoFloat.exp.pf
  simp only [h, if_true]
  split
  · rfl
  · split <;> rfl

/-! ### `powf`: decision table -/

theorem powf_zero_zero (x y : TwoFloat)
    (hx : base.impl_PartialEq_f64_for_TwoFloat.eq x (f64lit 0) = true)
    (hy : base.impl_PartialEq_f64_for_TwoFloat.eq y (f64lit 0) = true) :
    TwoFloat.powf x y = TwoFloat.NAN := by
  unfold TwoFloat.powf
  simp only [hx, hy]

theorem powf_zero_base (x y : TwoFloat)
    (hx : base.impl_PartialEq_f64_for_TwoFloat.eq x (f64lit 0) = true)
    (hy : base.impl_PartialEq_f64_for_TwoFloat.eq y (f64lit 0) = false) :
    TwoFloat.powf x y = zero := by
  unfold TwoFloat.powf
  simp only [hx, hy]

theorem powf_zero_exponent (x y : TwoFloat)
    (hx : base.impl_PartialEq_f64_for_TwoFloat.eq x (f64lit 0) = false)
    (hy : base.impl_PartialEq_f64_for_TwoFloat.eq y (f64lit 0) = true) :
    TwoFloat.powf x y = one := by
  unfold TwoFloat.powf
  simp only [hx, hy]

theorem powf_pos_base (x y : TwoFloat)
    (hx : base.impl_PartialEq_f64_for_TwoFloat.eq x (f64lit 0) = false)
    (hy : base.impl_PartialEq_f64_for_TwoFloat.eq y (f64lit 0) = false)
    (hs : TwoFloat.is_sign_positive x = true) :
    TwoFloat.powf x y = TwoFloat.exp (y *. TwoFloat.ln x) := by
  unfold TwoFloat.powf
  simp only [hx, hy, hs, if_true]
  rfl

/-- negative base, non-integer exponent: NAN -/
theorem powf_neg_base_nonint (x y : TwoFloat)
    (hx : base.impl_PartialEq_f64_for_TwoFloat.eq x (f64lit 0) = false)
    (hy : base.impl_PartialEq_f64_for_TwoFloat.eq y (f64lit 0) = false)
    (hs : TwoFloat.is_sign_positive x = false)
    (hi : (((F64.modf y.hi).1 !=. f64lit 0) || ((F64.modf y.lo).1 !=. f64lit 0)) = true) :
    TwoFloat.powf x y = TwoFloat.NAN := by
  unfold TwoFloat.powf
  simp only [hx, hy, hs, hi, if_true]
  simp

/-- negative base, integer exponent: ±|x|^y with the sign from the parity of the lowest non-zero word of y -/
theorem powf_neg_base_int (x y : TwoFloat)
    (hx : base.impl_PartialEq_f64_for_TwoFloat.eq x (f64lit 0) = false)
    (hy : base.impl_PartialEq_f64_for_TwoFloat.eq y (f64lit 0) = false)
    (hs : TwoFloat.is_sign_positive x = false)
    (hi : (((F64.modf y.hi).1 !=. f64lit 0) || ((F64.modf y.lo).1 !=. f64lit 0)) = false) :
    TwoFloat.powf x y =
      (let r := TwoFloat.exp (y *. TwoFloat.ln (TwoFloat.abs x))
       let t := if (F64.trunc y.lo ==. f64lit 0) = true then F64.trunc y.hi else F64.trunc y.lo
       if (F64.rem t (f64lit 0x4000000000000000) ==. f64lit 0) = true then r
       else arithmetic.impl_Neg_for_TwoFloat.neg r) := by
  unfold TwoFloat.powf
  simp only [hx, hy, hs, hi]
  rfl

theorem powf_cases (x y : TwoFloat) :
    TwoFloat.powf x y = TwoFloat.NAN ∨ TwoFloat.powf x y = zero ∨ TwoFloat.powf x y = one
    ∨ TwoFloat.powf x y = TwoFloat.exp (y *. TwoFloat.ln x)
    ∨ TwoFloat.powf x y = TwoFloat.exp (y *. TwoFloat.ln (TwoFloat.abs x))
    ∨ TwoFloat.powf x y = arithmetic.impl_Neg_for_TwoFloat.neg (TwoFloat.exp (y *. TwoFloat.ln (TwoFloat.abs x))) := by
  cases hx : base.impl_PartialEq_f64_for_TwoFloat.eq x (f64lit 0) <;>
  cases hy : base.impl_PartialEq_f64_for_TwoFloat.eq y (f64lit 0)
  · cases hs : TwoFloat.is_sign_positive x
    · cases hi : (((F64.modf y.hi).1 !=. f64lit 0) || ((F64.modf y.lo).1 !=. f64lit 0))
      · rw [powf_neg_base_int x y hx hy hs hi]
        dsimp only
        generalize (if (F64.trunc y.lo ==. f64lit 0) = true then F64.trunc y.hi else F64.trunc y.lo) = t
        cases (F64.rem t (f64lit 0x4000000000000000) ==. f64lit 0)
        · exact Or.inr (Or.inr (Or.inr (Or.inr (Or.inr (by simp)))))
        · exact Or.inr (Or.inr (Or.inr (Or.inr (Or.inl (by simp)))))
      · exact Or.inl (powf_neg_base_nonint x y hx hy hs hi)
    · exact Or.inr (Or.inr (Or.inr (Or.inl (powf_pos_base x y hx hy hs))))
  · exact Or.inr (Or.inr (Or.inl (powf_zero_exponent x y hx hy)))
  · exact Or.inr (Or.inl (powf_zero_base x y hx hy))
  · exact Or.inl (powf_zero_zero x y hx hy)

/-! ### `exp_m1`, `exp2`: the outer switches -/

theorem exp_m1_outside (x : TwoFloat)
    (h : ((ROrd.isLt (base.impl_PartialOrd_TwoFloat_for_TwoFloat.partial_cmp x (arithmetic.impl_Neg_for_TwoFloat.neg consts.LN_2)))
          || (ROrd.isGt (base.impl_PartialOrd_TwoFloat_for_TwoFloat.partial_cmp x explog.LN_FRAC_3_2))) = true) :
    TwoFloat.exp_m1 x = TwoFloat.exp x -. (f64lit 0x3ff0000000000000) := by
  unfold TwoFloat.exp_m1
  simp only [h, if_true]
  rfl

theorem exp2_underflow (x : TwoFloat)
    (h : ROrd.isLt (base.impl_PartialOrd_f64_for_TwoFloat.partial_cmp x (F64.neg (f64lit 0x4090c80000000000))) = true) :
    TwoFloat.exp2 x = zero := by
  unfold TwoFloat.exp2
  simp only [h, if_true]

theorem exp2_overflow (x : TwoFloat)
    (h1 : ROrd.isLt (base.impl_PartialOrd_f64_for_TwoFloat.partial_cmp x (F64.neg (f64lit 0x4090c80000000000))) = false)
    (h2 : ROrd.isGe (base.impl_PartialOrd_f64_for_TwoFloat.partial_cmp x (f64lit 0x408ff80000000000)) = true) :
    TwoFloat.exp2 x = TwoFloat.INFINITY := by
  unfold TwoFloat.exp2
  simp only [h1, h2, if_true]
  rfl

/-! ### closed instances -/

theorem exp_zero : TwoFloat.exp ⟨F64.zero, F64.zero⟩ = ⟨F64.one, F64.zero⟩ := by decide +kernel
theorem exp_neg_zero : TwoFloat.exp ⟨F64.negZero, F64.zero⟩ = ⟨F64.one, F64.zero⟩ := by decide +kernel
theorem exp_m1_zero : TwoFloat.exp_m1 ⟨F64.zero, F64.zero⟩ = ⟨F64.zero, F64.zero⟩ := by decide +kernel
theorem exp2_zero : TwoFloat.exp2 ⟨F64.zero, F64.zero⟩ = ⟨F64.one, F64.zero⟩ := by decide +kernel

theorem exp_minus_750 : TwoFloat.exp ⟨f64lit 0xc087700000000000, F64.zero⟩ = ⟨F64.zero, F64.zero⟩ := by decide +kernel
theorem exp_710 : TwoFloat.exp ⟨f64lit 0x4086300000000000, F64.zero⟩ = ⟨F64.INFINITY, F64.zero⟩ := by decide +kernel
theorem exp_inf : TwoFloat.exp TwoFloat.INFINITY = ⟨F64.INFINITY, F64.zero⟩ := by decide +kernel
theorem exp_neg_inf : TwoFloat.exp TwoFloat.NEG_INFINITY = ⟨F64.zero, F64.zero⟩ := by decide +kernel
theorem exp_NAN : TwoFloat.exp TwoFloat.NAN = TwoFloat.NAN := by decide +kernel

theorem powf_zero_zero_closed : TwoFloat.powf ⟨F64.zero, F64.zero⟩ ⟨F64.zero, F64.zero⟩ = TwoFloat.NAN := by
  decide +kernel
theorem powf_two_zero : TwoFloat.powf ⟨f64lit 0x4000000000000000, F64.zero⟩ ⟨F64.zero, F64.zero⟩ = ⟨F64.one, F64.zero⟩ := by
  decide +kernel
theorem powf_zero_two : TwoFloat.powf ⟨F64.zero, F64.zero⟩ ⟨f64lit 0x4000000000000000, F64.zero⟩ = ⟨F64.zero, F64.zero⟩ := by
  decide +kernel
theorem powf_neg_half :
    TwoFloat.powf ⟨f64lit 0xc000000000000000, F64.zero⟩ ⟨f64lit 0x3fe0000000000000, F64.zero⟩ = TwoFloat.NAN := by
  decide +kernel

/-- exp2 at integers is an exact power of two: 2^10, 2^-1022 (the smallest normal), 2^1023 -/
theorem exp2_ten : TwoFloat.exp2 ⟨f64lit 0x4024000000000000, F64.zero⟩ = ⟨f64lit 0x4090000000000000, F64.zero⟩ := by
  decide +kernel
theorem exp2_minus_1022 : TwoFloat.exp2 ⟨f64lit 0xc08ff00000000000, F64.zero⟩ = TwoFloat.MIN_POSITIVE := by
  decide +kernel
theorem exp2_1023 : TwoFloat.exp2 ⟨f64lit 0x408ff80000000000, F64.zero⟩ = TwoFloat.INFINITY := by
  decide +kernel
theorem exp2_minus_1100 : TwoFloat.exp2 ⟨f64lit 0xc091300000000000, F64.zero⟩ = ⟨F64.zero, F64.zero⟩ := by
  decide +kernel

/-- the full pipeline on a non-trivial argument, in the kernel: `exp(1)` is bit-for-bit the published
constant `consts::E`, and it passes the panic-freedom predicate -/
example : TwoFloat.exp ⟨F64.one, F64.zero⟩ = consts.E ∧ TwoFloat.exp.pf ⟨F64.one, F64.zero⟩ = true := by
  decide +kernel

end C14
