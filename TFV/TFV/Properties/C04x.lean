/-
C04x — exact-case clauses of property C04 (multiplication).

All statements are about the exact scaled-integer values (`F64.toInt`, `TwoFloat.V`; unit 2^-1074).  Signs of
zero words are not tracked (the model produces IEEE signs; the value is what the property states).

* `mul_*_zero_*`  : a zero factor gives the zero pair (both words zero), for `TwoFloat*TwoFloat`, `TwoFloat*f64`,
                    `f64*TwoFloat`;
* `mul_*_one`, `mul_*_neg_one` : multiplication by `±1` returns the words of the operand (negated for `-1`);
                    no range restriction at all is needed;
* `mul_*_pow2_up`, `mul_*_pow2_down` : multiplication by `±2^m` resp. `±2^-m` is exact word for word as long as
                    the high word does not overflow resp. both words stay multiples of `2^-1074`.
-/
import TFV.Lemmas.ArithExact
import TFV.Properties.C04

set_option exponentiation.threshold 3000

namespace C04x

open F64 TwoFloat

/-! ## (a) zero factor -/

/-- `x * (±0)`, finite `x` -/
theorem mul_tf_zero_right (x : TwoFloat) (f : F64) (h1 : x.hi.is_finite = true) (h2 : x.lo.is_finite = true)
    (hf : f.is_finite = true) (hf0 : f.toInt = 0) :
    (x *. f).hi.toInt = 0 ∧ (x *. f).lo.toInt = 0 ∧ (x *. f).V = 0 ∧ (x *. f).Valid ∧ (x *. f).WF := by
  have h := mul_tf_isV_fixed (IsV.of_finite h1 h2) ⟨hf, hf0⟩ (H := 0) (L := 0)
    (by rw [mul_zero, zero_mul]) (by rw [mul_zero, zero_mul]) zero_facts
  have := h.package (mul_tf_WF x f) zero_facts.2.2.2.2
  rwa [add_zero] at this

/-- `(±0, ±0) * f`, finite `f` (the zero pair is characterised by `Valid` and `V = 0`) -/
theorem mul_tf_zero_left (x : TwoFloat) (f : F64) (hx : x.Valid) (hV : x.V = 0) (hf : f.is_finite = true) :
    (x *. f).hi.toInt = 0 ∧ (x *. f).lo.toInt = 0 ∧ (x *. f).V = 0 ∧ (x *. f).Valid ∧ (x *. f).WF := by
  have h := mul_tf_isV_fixed (hx.words_zero hV) (IsVal.of_finite hf) (H := 0) (L := 0)
    (by rw [zero_mul, zero_mul]) (by rw [zero_mul, zero_mul]) zero_facts
  have := h.package (mul_tf_WF x f) zero_facts.2.2.2.2
  rwa [add_zero] at this

/-- `(±0) * x` -/
theorem mul_ft_zero_left (f : F64) (x : TwoFloat) (h1 : x.hi.is_finite = true) (h2 : x.lo.is_finite = true)
    (hf : f.is_finite = true) (hf0 : f.toInt = 0) :
    (f *. x).hi.toInt = 0 ∧ (f *. x).lo.toInt = 0 ∧ (f *. x).V = 0 ∧ (f *. x).Valid ∧ (f *. x).WF :=
  mul_tf_zero_right x f h1 h2 hf hf0

/-- `f * (±0, ±0)` -/
theorem mul_ft_zero_right (f : F64) (x : TwoFloat) (hx : x.Valid) (hV : x.V = 0) (hf : f.is_finite = true) :
    (f *. x).hi.toInt = 0 ∧ (f *. x).lo.toInt = 0 ∧ (f *. x).V = 0 ∧ (f *. x).Valid ∧ (f *. x).WF :=
  mul_tf_zero_left x f hx hV hf

/-- `(±0, ±0) * y`, finite `y` -/
theorem mul_tt_zero_left (x y : TwoFloat) (hx : x.Valid) (hV : x.V = 0)
    (h1 : y.hi.is_finite = true) (h2 : y.lo.is_finite = true) :
    (x *. y).hi.toInt = 0 ∧ (x *. y).lo.toInt = 0 ∧ (x *. y).V = 0 ∧ (x *. y).Valid ∧ (x *. y).WF := by
  have h := mul_tt_isV_left_fixed (hx.words_zero hV) (IsV.of_finite h1 h2) (H := 0) (L := 0)
    (by rw [zero_mul, zero_mul]) (by rw [zero_mul, zero_mul]) zero_facts
  have := h.package (mul_tt_WF x y) zero_facts.2.2.2.2
  rwa [add_zero] at this

/-- `x * (±0, ±0)`, finite `x` -/
theorem mul_tt_zero_right (x y : TwoFloat) (h1 : x.hi.is_finite = true) (h2 : x.lo.is_finite = true)
    (hy : y.Valid) (hV : y.V = 0) :
    (x *. y).hi.toInt = 0 ∧ (x *. y).lo.toInt = 0 ∧ (x *. y).V = 0 ∧ (x *. y).Valid ∧ (x *. y).WF := by
  have h := mul_tt_isV_right_fixed (IsV.of_finite h1 h2) (hy.words_zero hV) (H := 0) (L := 0)
    (by rw [mul_zero, zero_mul]) (by rw [mul_zero, zero_mul]) zero_facts
  have := h.package (mul_tt_WF x y) zero_facts.2.2.2.2
  rwa [add_zero] at this

/-! ## (c) factor `±2^k` (the general statements; `±1` are the instances `m = 0`) -/

/-- `x * f` with `f = σ·2^m`, `m ≥ 0`, `σ = ±1`: exact word for word if `|x.hi|·2^m` does not overflow -/
theorem mul_tf_pow2_up (x : TwoFloat) (f : F64) (σ : Int) (m : Nat) (hσ : σ = 1 ∨ σ = -1)
    (hx : x.Valid) (hw : x.WF) (hf : f.is_finite = true) (hfv : f.toInt = σ * 2 ^ m * (unit : Int))
    (hov : x.hi.toInt.natAbs * 2 ^ m ≤ maxFin) :
    (x *. f).hi.toInt = σ * 2 ^ m * x.hi.toInt ∧ (x *. f).lo.toInt = σ * 2 ^ m * x.lo.toInt ∧
    (x *. f).V = σ * 2 ^ m * x.V ∧ (x *. f).Valid ∧ (x *. f).WF := by
  rw [C04.mul_tf_notation]
  obtain ⟨e1, e2, hn⟩ := mul_up_data hx hw hσ hfv hov
  have h := mul_tf_isV_fixed (IsV.of_valid hx) (IsVal.of_finite hf) e1 e2 hn
  obtain ⟨p1, p2, p3, p4, p5⟩ := h.package (mul_tf_WF x f) hn.2.2.2.2
  exact ⟨p1, p2, by rw [p3]; unfold TwoFloat.V; ring, p4, p5⟩

/-- `x * f` with `f = σ·2^-m` (`f·2^m = σ`): exact word for word if both words of `x` are multiples of
`2^m · 2^-1074` (no underflow).  The words of the result are the words of `x` divided by `σ·2^m`. -/
theorem mul_tf_pow2_down (x : TwoFloat) (f : F64) (σ : Int) (m : Nat) (hσ : σ = 1 ∨ σ = -1)
    (hx : x.Valid) (hw : x.WF) (hf : f.is_finite = true) (hfv : f.toInt * 2 ^ m = σ * (unit : Int))
    (hdh : (2 : Int) ^ m ∣ x.hi.toInt) (hdl : (2 : Int) ^ m ∣ x.lo.toInt) :
    (x *. f).hi.toInt * 2 ^ m = σ * x.hi.toInt ∧ (x *. f).lo.toInt * 2 ^ m = σ * x.lo.toInt ∧
    (x *. f).V * 2 ^ m = σ * x.V ∧ (x *. f).Valid ∧ (x *. f).WF := by
  rw [C04.mul_tf_notation]
  obtain ⟨H, hH⟩ := hdh
  obtain ⟨L, hL⟩ := hdl
  rw [mul_comm] at hH hL
  obtain ⟨e1, e2, hn⟩ := mul_down_data hx hw hσ hfv hH hL
  have h := mul_tf_isV_fixed (IsV.of_valid hx) (IsVal.of_finite hf) e1 e2 hn
  obtain ⟨p1, p2, p3, p4, p5⟩ := h.package (mul_tf_WF x f) hn.2.2.2.2
  refine ⟨by rw [p1, hH]; ring, by rw [p2, hL]; ring, ?_, p4, p5⟩
  rw [p3]; unfold TwoFloat.V; rw [hH, hL]; ring

/-- `f * x`, `f = σ·2^m` -/
theorem mul_ft_pow2_up (f : F64) (x : TwoFloat) (σ : Int) (m : Nat) (hσ : σ = 1 ∨ σ = -1)
    (hx : x.Valid) (hw : x.WF) (hf : f.is_finite = true) (hfv : f.toInt = σ * 2 ^ m * (unit : Int))
    (hov : x.hi.toInt.natAbs * 2 ^ m ≤ maxFin) :
    (f *. x).hi.toInt = σ * 2 ^ m * x.hi.toInt ∧ (f *. x).lo.toInt = σ * 2 ^ m * x.lo.toInt ∧
    (f *. x).V = σ * 2 ^ m * x.V ∧ (f *. x).Valid ∧ (f *. x).WF :=
  mul_tf_pow2_up x f σ m hσ hx hw hf hfv hov

/-- `f * x`, `f = σ·2^-m` -/
theorem mul_ft_pow2_down (f : F64) (x : TwoFloat) (σ : Int) (m : Nat) (hσ : σ = 1 ∨ σ = -1)
    (hx : x.Valid) (hw : x.WF) (hf : f.is_finite = true) (hfv : f.toInt * 2 ^ m = σ * (unit : Int))
    (hdh : (2 : Int) ^ m ∣ x.hi.toInt) (hdl : (2 : Int) ^ m ∣ x.lo.toInt) :
    (f *. x).hi.toInt * 2 ^ m = σ * x.hi.toInt ∧ (f *. x).lo.toInt * 2 ^ m = σ * x.lo.toInt ∧
    (f *. x).V * 2 ^ m = σ * x.V ∧ (f *. x).Valid ∧ (f *. x).WF :=
  mul_tf_pow2_down x f σ m hσ hx hw hf hfv hdh hdl

/-- `x * (σ·2^m, ±0)` -/
theorem mul_tt_pow2_up_right (x y : TwoFloat) (σ : Int) (m : Nat) (hσ : σ = 1 ∨ σ = -1)
    (hx : x.Valid) (hw : x.WF) (h1 : y.hi.is_finite = true) (h2 : y.lo.is_finite = true)
    (hyv : y.hi.toInt = σ * 2 ^ m * (unit : Int)) (hy0 : y.lo.toInt = 0)
    (hov : x.hi.toInt.natAbs * 2 ^ m ≤ maxFin) :
    (x *. y).hi.toInt = σ * 2 ^ m * x.hi.toInt ∧ (x *. y).lo.toInt = σ * 2 ^ m * x.lo.toInt ∧
    (x *. y).V = σ * 2 ^ m * x.V ∧ (x *. y).Valid ∧ (x *. y).WF := by
  rw [C04.mul_tt_notation]
  obtain ⟨e1, e2, hn⟩ := mul_up_data hx hw hσ hyv hov
  have h := mul_tt_isV_right_fixed (IsV.of_valid hx) ⟨⟨h1, rfl⟩, ⟨h2, hy0⟩⟩ e1 e2 hn
  obtain ⟨p1, p2, p3, p4, p5⟩ := h.package (mul_tt_WF x y) hn.2.2.2.2
  exact ⟨p1, p2, by rw [p3]; unfold TwoFloat.V; ring, p4, p5⟩

/-- `(σ·2^m, ±0) * y` -/
theorem mul_tt_pow2_up_left (x y : TwoFloat) (σ : Int) (m : Nat) (hσ : σ = 1 ∨ σ = -1)
    (hy : y.Valid) (hw : y.WF) (h1 : x.hi.is_finite = true) (h2 : x.lo.is_finite = true)
    (hxv : x.hi.toInt = σ * 2 ^ m * (unit : Int)) (hx0 : x.lo.toInt = 0)
    (hov : y.hi.toInt.natAbs * 2 ^ m ≤ maxFin) :
    (x *. y).hi.toInt = σ * 2 ^ m * y.hi.toInt ∧ (x *. y).lo.toInt = σ * 2 ^ m * y.lo.toInt ∧
    (x *. y).V = σ * 2 ^ m * y.V ∧ (x *. y).Valid ∧ (x *. y).WF := by
  rw [C04.mul_tt_notation]
  obtain ⟨e1, e2, hn⟩ := mul_up_data hy hw hσ hxv hov
  rw [mul_comm] at e1 e2
  have h := mul_tt_isV_left_fixed ⟨⟨h1, rfl⟩, ⟨h2, hx0⟩⟩ (IsV.of_valid hy) e1 e2 hn
  obtain ⟨p1, p2, p3, p4, p5⟩ := h.package (mul_tt_WF x y) hn.2.2.2.2
  exact ⟨p1, p2, by rw [p3]; unfold TwoFloat.V; ring, p4, p5⟩

/-- `x * (σ·2^-m, ±0)` -/
theorem mul_tt_pow2_down_right (x y : TwoFloat) (σ : Int) (m : Nat) (hσ : σ = 1 ∨ σ = -1)
    (hx : x.Valid) (hw : x.WF) (h1 : y.hi.is_finite = true) (h2 : y.lo.is_finite = true)
    (hyv : y.hi.toInt * 2 ^ m = σ * (unit : Int)) (hy0 : y.lo.toInt = 0)
    (hdh : (2 : Int) ^ m ∣ x.hi.toInt) (hdl : (2 : Int) ^ m ∣ x.lo.toInt) :
    (x *. y).hi.toInt * 2 ^ m = σ * x.hi.toInt ∧ (x *. y).lo.toInt * 2 ^ m = σ * x.lo.toInt ∧
    (x *. y).V * 2 ^ m = σ * x.V ∧ (x *. y).Valid ∧ (x *. y).WF := by
  rw [C04.mul_tt_notation]
  obtain ⟨H, hH⟩ := hdh
  obtain ⟨L, hL⟩ := hdl
  rw [mul_comm] at hH hL
  obtain ⟨e1, e2, hn⟩ := mul_down_data hx hw hσ hyv hH hL
  have h := mul_tt_isV_right_fixed (IsV.of_valid hx) ⟨⟨h1, rfl⟩, ⟨h2, hy0⟩⟩ e1 e2 hn
  obtain ⟨p1, p2, p3, p4, p5⟩ := h.package (mul_tt_WF x y) hn.2.2.2.2
  refine ⟨by rw [p1, hH]; ring, by rw [p2, hL]; ring, ?_, p4, p5⟩
  rw [p3]; unfold TwoFloat.V; rw [hH, hL]; ring

/-- `(σ·2^-m, ±0) * y` -/
theorem mul_tt_pow2_down_left (x y : TwoFloat) (σ : Int) (m : Nat) (hσ : σ = 1 ∨ σ = -1)
    (hy : y.Valid) (hw : y.WF) (h1 : x.hi.is_finite = true) (h2 : x.lo.is_finite = true)
    (hxv : x.hi.toInt * 2 ^ m = σ * (unit : Int)) (hx0 : x.lo.toInt = 0)
    (hdh : (2 : Int) ^ m ∣ y.hi.toInt) (hdl : (2 : Int) ^ m ∣ y.lo.toInt) :
    (x *. y).hi.toInt * 2 ^ m = σ * y.hi.toInt ∧ (x *. y).lo.toInt * 2 ^ m = σ * y.lo.toInt ∧
    (x *. y).V * 2 ^ m = σ * y.V ∧ (x *. y).Valid ∧ (x *. y).WF := by
  rw [C04.mul_tt_notation]
  obtain ⟨H, hH⟩ := hdh
  obtain ⟨L, hL⟩ := hdl
  rw [mul_comm] at hH hL
  obtain ⟨e1, e2, hn⟩ := mul_down_data hy hw hσ hxv hH hL
  rw [mul_comm] at e1 e2
  have h := mul_tt_isV_left_fixed ⟨⟨h1, rfl⟩, ⟨h2, hx0⟩⟩ (IsV.of_valid hy) e1 e2 hn
  obtain ⟨p1, p2, p3, p4, p5⟩ := h.package (mul_tt_WF x y) hn.2.2.2.2
  refine ⟨by rw [p1, hH]; ring, by rw [p2, hL]; ring, ?_, p4, p5⟩
  rw [p3]; unfold TwoFloat.V; rw [hH, hL]; ring

/-- in a valid pair with a non-zero low word, every power of two dividing the low word divides the high word:
"the scaled low word does not underflow" is then the only no-underflow condition -/
theorem dvd_hi_of_dvd_lo {x : TwoFloat} (hx : x.Valid) {m : Nat} (hl : x.lo.toInt ≠ 0)
    (hd : (2 : Int) ^ m ∣ x.lo.toInt) : (2 : Int) ^ m ∣ x.hi.toInt := by
  obtain ⟨e, he, hle⟩ := C08.valid_ulp hx
  have h1 : (2 : Int) ^ m ≤ |x.lo.toInt| := Int.le_of_dvd (abs_pos.2 hl) ((dvd_abs _ _).2 hd)
  have h2 : (2 : Int) ^ m < 2 ^ e := by omega
  have h3 : m < e := (pow_lt_pow_iff_right₀ (by norm_num : (1 : Int) < 2)).1 h2
  exact dvd_trans (pow_dvd_pow 2 (le_of_lt h3)) he

/-- `mul_tf_pow2_down` with the no-underflow condition on the low word only (non-zero low word) -/
theorem mul_tf_pow2_down_of_lo (x : TwoFloat) (f : F64) (σ : Int) (m : Nat) (hσ : σ = 1 ∨ σ = -1)
    (hx : x.Valid) (hw : x.WF) (hf : f.is_finite = true) (hfv : f.toInt * 2 ^ m = σ * (unit : Int))
    (hl : x.lo.toInt ≠ 0) (hdl : (2 : Int) ^ m ∣ x.lo.toInt) :
    (x *. f).hi.toInt * 2 ^ m = σ * x.hi.toInt ∧ (x *. f).lo.toInt * 2 ^ m = σ * x.lo.toInt ∧
    (x *. f).V * 2 ^ m = σ * x.V ∧ (x *. f).Valid ∧ (x *. f).WF :=
  mul_tf_pow2_down x f σ m hσ hx hw hf hfv (dvd_hi_of_dvd_lo hx hl hdl) hdl

/-! ## (b) factor `±1`: no range condition at all -/

theorem natAbs_mul_one_le {x : F64} (hw : x.WF) : x.toInt.natAbs * 2 ^ 0 ≤ maxFin := by
  rw [pow_zero, Nat.mul_one]; exact hw.natAbs_toInt_le

/-- `x * 1 = x` word for word (up to the signs of zero words) -/
theorem mul_tf_one (x : TwoFloat) (f : F64) (hx : x.Valid) (hw : x.WF)
    (hf : f.is_finite = true) (hfv : f.toInt = (unit : Int)) :
    (x *. f).hi.toInt = x.hi.toInt ∧ (x *. f).lo.toInt = x.lo.toInt ∧ (x *. f).V = x.V ∧
    (x *. f).Valid ∧ (x *. f).WF := by
  have := mul_tf_pow2_up x f 1 0 (Or.inl rfl) hx hw hf (by rw [hfv]; ring) (natAbs_mul_one_le hw.1)
  simpa using this

/-- `x * (-1) = -x` word for word -/
theorem mul_tf_neg_one (x : TwoFloat) (f : F64) (hx : x.Valid) (hw : x.WF)
    (hf : f.is_finite = true) (hfv : f.toInt = -(unit : Int)) :
    (x *. f).hi.toInt = -x.hi.toInt ∧ (x *. f).lo.toInt = -x.lo.toInt ∧ (x *. f).V = -x.V ∧
    (x *. f).Valid ∧ (x *. f).WF := by
  have := mul_tf_pow2_up x f (-1) 0 (Or.inr rfl) hx hw hf (by rw [hfv]; ring) (natAbs_mul_one_le hw.1)
  simpa using this

theorem mul_ft_one (f : F64) (x : TwoFloat) (hx : x.Valid) (hw : x.WF)
    (hf : f.is_finite = true) (hfv : f.toInt = (unit : Int)) :
    (f *. x).hi.toInt = x.hi.toInt ∧ (f *. x).lo.toInt = x.lo.toInt ∧ (f *. x).V = x.V ∧
    (f *. x).Valid ∧ (f *. x).WF :=
  mul_tf_one x f hx hw hf hfv

theorem mul_ft_neg_one (f : F64) (x : TwoFloat) (hx : x.Valid) (hw : x.WF)
    (hf : f.is_finite = true) (hfv : f.toInt = -(unit : Int)) :
    (f *. x).hi.toInt = -x.hi.toInt ∧ (f *. x).lo.toInt = -x.lo.toInt ∧ (f *. x).V = -x.V ∧
    (f *. x).Valid ∧ (f *. x).WF :=
  mul_tf_neg_one x f hx hw hf hfv

/-- `x * (1, ±0) = x` -/
theorem mul_tt_one_right (x y : TwoFloat) (hx : x.Valid) (hw : x.WF)
    (h1 : y.hi.is_finite = true) (h2 : y.lo.is_finite = true)
    (hyv : y.hi.toInt = (unit : Int)) (hy0 : y.lo.toInt = 0) :
    (x *. y).hi.toInt = x.hi.toInt ∧ (x *. y).lo.toInt = x.lo.toInt ∧ (x *. y).V = x.V ∧
    (x *. y).Valid ∧ (x *. y).WF := by
  have := mul_tt_pow2_up_right x y 1 0 (Or.inl rfl) hx hw h1 h2 (by rw [hyv]; ring) hy0
    (natAbs_mul_one_le hw.1)
  simpa using this

/-- `x * (-1, ±0) = -x` -/
theorem mul_tt_neg_one_right (x y : TwoFloat) (hx : x.Valid) (hw : x.WF)
    (h1 : y.hi.is_finite = true) (h2 : y.lo.is_finite = true)
    (hyv : y.hi.toInt = -(unit : Int)) (hy0 : y.lo.toInt = 0) :
    (x *. y).hi.toInt = -x.hi.toInt ∧ (x *. y).lo.toInt = -x.lo.toInt ∧ (x *. y).V = -x.V ∧
    (x *. y).Valid ∧ (x *. y).WF := by
  have := mul_tt_pow2_up_right x y (-1) 0 (Or.inr rfl) hx hw h1 h2 (by rw [hyv]; ring) hy0
    (natAbs_mul_one_le hw.1)
  simpa using this

/-- `(1, ±0) * y = y` -/
theorem mul_tt_one_left (x y : TwoFloat) (hy : y.Valid) (hw : y.WF)
    (h1 : x.hi.is_finite = true) (h2 : x.lo.is_finite = true)
    (hxv : x.hi.toInt = (unit : Int)) (hx0 : x.lo.toInt = 0) :
    (x *. y).hi.toInt = y.hi.toInt ∧ (x *. y).lo.toInt = y.lo.toInt ∧ (x *. y).V = y.V ∧
    (x *. y).Valid ∧ (x *. y).WF := by
  have := mul_tt_pow2_up_left x y 1 0 (Or.inl rfl) hy hw h1 h2 (by rw [hxv]; ring) hx0
    (natAbs_mul_one_le hw.1)
  simpa using this

/-- `(-1, ±0) * y = -y` -/
theorem mul_tt_neg_one_left (x y : TwoFloat) (hy : y.Valid) (hw : y.WF)
    (h1 : x.hi.is_finite = true) (h2 : x.lo.is_finite = true)
    (hxv : x.hi.toInt = -(unit : Int)) (hx0 : x.lo.toInt = 0) :
    (x *. y).hi.toInt = -y.hi.toInt ∧ (x *. y).lo.toInt = -y.lo.toInt ∧ (x *. y).V = -y.V ∧
    (x *. y).Valid ∧ (x *. y).WF := by
  have := mul_tt_pow2_up_left x y (-1) 0 (Or.inr rfl) hy hw h1 h2 (by rw [hxv]; ring) hx0
    (natAbs_mul_one_le hw.1)
  simpa using this

/-! ## the clause names of the property sheet -/

alias mul_zero_exact := mul_tt_zero_left
alias mul_one_exact := mul_tf_one
alias mul_neg_one_exact := mul_tf_neg_one
alias mul_pow2_exact := mul_tf_pow2_up

/-! ## instances on concrete values -/

section examples

local instance (t : TwoFloat) : Decidable t.WF := by unfold TwoFloat.WF; infer_instance

/-- π as a double-double, and the doubles 1, -1, 2^10, 2^-10 -/
def px : TwoFloat := consts.PI
def negOne : F64 := fin true unit
def p10 : F64 := fin false (2 ^ 10 * unit)
def m10 : F64 := fin false (2 ^ 1064)
def oneT : TwoFloat := ⟨F64.one, F64.negZero⟩
def zeroT : TwoFloat := ⟨F64.negZero, F64.zero⟩

theorem px_ok : px.Valid ∧ px.WF := by decide +kernel

example : (px *. F64.zero).V = 0 := (mul_tf_zero_right px F64.zero rfl rfl rfl rfl).2.2.1
example : (zeroT *. F64.MAX).V = 0 :=
  (mul_tf_zero_left zeroT F64.MAX (by decide +kernel) (by decide +kernel) rfl).2.2.1
example : (F64.negZero *. px).V = 0 := (mul_ft_zero_left F64.negZero px rfl rfl rfl rfl).2.2.1
example : (F64.MIN *. zeroT).V = 0 :=
  (mul_ft_zero_right F64.MIN zeroT (by decide +kernel) (by decide +kernel) rfl).2.2.1
example : (zeroT *. px).V = 0 :=
  (mul_tt_zero_left zeroT px (by decide +kernel) (by decide +kernel) rfl rfl).2.2.1
example : (px *. zeroT).V = 0 :=
  (mul_tt_zero_right px zeroT rfl rfl (by decide +kernel) (by decide +kernel)).2.2.1

example : (px *. F64.one).V = px.V := (mul_tf_one px F64.one px_ok.1 px_ok.2 rfl rfl).2.2.1
example : (px *. negOne).V = -px.V := (mul_tf_neg_one px negOne px_ok.1 px_ok.2 rfl rfl).2.2.1
example : (F64.one *. px).V = px.V := (mul_ft_one F64.one px px_ok.1 px_ok.2 rfl rfl).2.2.1
example : (negOne *. px).V = -px.V := (mul_ft_neg_one negOne px px_ok.1 px_ok.2 rfl rfl).2.2.1
example : (px *. oneT).V = px.V := (mul_tt_one_right px oneT px_ok.1 px_ok.2 rfl rfl rfl rfl).2.2.1
example : (oneT *. px).V = px.V := (mul_tt_one_left oneT px px_ok.1 px_ok.2 rfl rfl rfl rfl).2.2.1
example : ((⟨negOne, F64.zero⟩ : TwoFloat) *. px).V = -px.V :=
  (mul_tt_neg_one_left ⟨negOne, F64.zero⟩ px px_ok.1 px_ok.2 rfl rfl rfl rfl).2.2.1
example : (px *. (⟨negOne, F64.zero⟩ : TwoFloat)).V = -px.V :=
  (mul_tt_neg_one_right px ⟨negOne, F64.zero⟩ px_ok.1 px_ok.2 rfl rfl rfl rfl).2.2.1

/-- π · 2^10 -/
example : (px *. p10).V = 1 * 2 ^ 10 * px.V :=
  (mul_tf_pow2_up px p10 1 10 (Or.inl rfl) px_ok.1 px_ok.2 rfl (by decide +kernel) (by decide +kernel)).2.2.1
/-- π · 2^-10 -/
example : (px *. m10).V * 2 ^ 10 = 1 * px.V :=
  (mul_tf_pow2_down px m10 1 10 (Or.inl rfl) px_ok.1 px_ok.2 rfl (by decide +kernel) (by decide +kernel)
    (by decide +kernel)).2.2.1
example : (m10 *. px).V * 2 ^ 10 = 1 * px.V :=
  (mul_ft_pow2_down m10 px 1 10 (Or.inl rfl) px_ok.1 px_ok.2 rfl (by decide +kernel) (by decide +kernel)
    (by decide +kernel)).2.2.1
example : (p10 *. px).V = 1 * 2 ^ 10 * px.V :=
  (mul_ft_pow2_up p10 px 1 10 (Or.inl rfl) px_ok.1 px_ok.2 rfl (by decide +kernel) (by decide +kernel)).2.2.1
example : (px *. (⟨p10, F64.zero⟩ : TwoFloat)).V = 1 * 2 ^ 10 * px.V :=
  (mul_tt_pow2_up_right px ⟨p10, F64.zero⟩ 1 10 (Or.inl rfl) px_ok.1 px_ok.2 rfl rfl (by decide +kernel) rfl
    (by decide +kernel)).2.2.1
example : ((⟨p10, F64.zero⟩ : TwoFloat) *. px).V = 1 * 2 ^ 10 * px.V :=
  (mul_tt_pow2_up_left ⟨p10, F64.zero⟩ px 1 10 (Or.inl rfl) px_ok.1 px_ok.2 rfl rfl (by decide +kernel) rfl
    (by decide +kernel)).2.2.1
example : (px *. (⟨m10, F64.zero⟩ : TwoFloat)).V * 2 ^ 10 = 1 * px.V :=
  (mul_tt_pow2_down_right px ⟨m10, F64.zero⟩ 1 10 (Or.inl rfl) px_ok.1 px_ok.2 rfl rfl (by decide +kernel) rfl
    (by decide +kernel) (by decide +kernel)).2.2.1
example : ((⟨m10, F64.zero⟩ : TwoFloat) *. px).V * 2 ^ 10 = 1 * px.V :=
  (mul_tt_pow2_down_left ⟨m10, F64.zero⟩ px 1 10 (Or.inl rfl) px_ok.1 px_ok.2 rfl rfl (by decide +kernel) rfl
    (by decide +kernel) (by decide +kernel)).2.2.1

/-- the hypothesis "no underflow" of `mul_tf_pow2_down` cannot be dropped: the smallest subnormal `2^-1074`
(as a pair with a zero low word) times `1/2` is `0`, not `2^-1075` -/
example : ((⟨fin false 1, F64.zero⟩ : TwoFloat) *. (fin false (2 ^ 1073))).V = 0 := by decide +kernel

end examples

end C04x
