/-
C04c — `TwoFloat * TwoFloat` (DWTimesDW3, Joldes–Muller–Popescu 2017, Algorithm 12, in the crate's operation order)
with the property's constant `5u² = 5·2^-106` EXACTLY.  This closes the gap left open in `C04b`
(`mul_tt_bound_5u2_12u3_partial`, `5u² + 12u³`).

Units as in `C04b`: `F64.toInt` is the value in units of `2^-1074`; the exact product `x.V * y.V` lives in units of
`2^-2148`, the result is `r.V * unit` (`unit = 2^1074`) in the same units, and
`|r.V * unit - x.V * y.V| * 2^106 ≤ 5 * |x.V * y.V|` is "relative error ≤ 5·2^-106" without division.

How the `12u³` is removed (`F64.dwtimesdw_err_5u2_exact` in `TFV/Lemmas/Rest.lean`).  The binade analysis bounds the
sum of the four rounding errors by `5κ + O(u³)·κ`, `κ = 2^-106·W`, `W` the power of two just below `|x.hi·y.hi|`; this
is too weak only if `|x·y| < W(1 + u/10)`.  A normal double is either a power of two or at least one ulp above one.
* If one of the high words is a power of two, `2Prod(x.hi, y.hi)` is exact (`cl1 = 0`), so `cl3 = RN(cl1 + cl2) = cl2`
  is exact as well: only the roundings of `tl0, tl1, cl2` remain, `≤ 3κ + O(u³)κ`.
* Otherwise both `|x.hi + x.lo|` and `|y.hi + y.lo|` are at least `(1 + u)` times their powers of two, so
  `|x·y| ≥ W(1 + u)²`, which absorbs the `O(u³)` terms.
No sign or tie analysis is needed.
-/
import TFV.Lemmas.Rest

set_option exponentiation.threshold 4000

namespace C04c

open F64 TwoFloat

/-- **C04, `TwoFloat * TwoFloat`: valid result, relative error at most `5u²` exactly**, high words of magnitude in
`[2^-450, 2^450]` (scaled `[2^624, 2^1524]`). -/
theorem mul_tt_bound_5u2 {x y : TwoFloat} (hvx : x.Valid) (hwx : x.WF) (hvy : y.Valid) (hwy : y.WF)
    (hx : 2 ^ 624 ≤ x.hi.toInt.natAbs ∧ x.hi.toInt.natAbs ≤ 2 ^ 1524)
    (hy : 2 ^ 624 ≤ y.hi.toInt.natAbs ∧ y.hi.toInt.natAbs ≤ 2 ^ 1524) :
    (x *. y).Valid ∧ |(x *. y).V * (unit : Int) - x.V * y.V| * 2 ^ 106 ≤ 5 * |x.V * y.V| :=
  TwoFloat.mul_tt_bound_5u2 hvx hwx hvy hwy hx hy

/-- the same on the wide range: both high words normal and `|x.hi·y.hi| ∈ [2^-901, 2^1021)` -/
theorem mul_tt_bound_5u2_wide {x y : TwoFloat} (hvx : x.Valid) (hwx : x.WF) (hvy : y.Valid) (hwy : y.WF)
    (hx : 2 ^ 53 ≤ |x.hi.toInt|) (hy : 2 ^ 53 ≤ |y.hi.toInt|)
    (hlo : 2 ^ 1247 ≤ |x.hi.toInt * y.hi.toInt|) (hhi : |x.hi.toInt * y.hi.toInt| < 2 ^ 3169) :
    (x *. y).Valid ∧ |(x *. y).V * (unit : Int) - x.V * y.V| * 2 ^ 106 ≤ 5 * |x.V * y.V| :=
  TwoFloat.mul_tt_bound_5u2_wide hvx hwx hvy hwy hx hy hlo hhi

/-- `*=` on TwoFloat operands -/
theorem mul_assign_tt_bound_5u2 {x y : TwoFloat} (hvx : x.Valid) (hwx : x.WF) (hvy : y.Valid)
    (hwy : y.WF) (hx : 2 ^ 624 ≤ x.hi.toInt.natAbs ∧ x.hi.toInt.natAbs ≤ 2 ^ 1524)
    (hy : 2 ^ 624 ≤ y.hi.toInt.natAbs ∧ y.hi.toInt.natAbs ≤ 2 ^ 1524) :
    (arithmetic.impl_MulAssign_TwoFloat_for_TwoFloat.mul_assign x y).Valid ∧
    |(arithmetic.impl_MulAssign_TwoFloat_for_TwoFloat.mul_assign x y).V * (unit : Int) - x.V * y.V| * 2 ^ 106
      ≤ 5 * |x.V * y.V| :=
  TwoFloat.mul_tt_bound_5u2 hvx hwx hvy hwy hx hy

/-- the property's clause including zero operands: high words zero or in range -/
theorem mul_tt_bound_5u2_c04 {x y : TwoFloat} (hvx : x.Valid) (hwx : x.WF) (hvy : y.Valid) (hwy : y.WF)
    (hx : x.hi.toInt = 0 ∨ (2 ^ 624 ≤ x.hi.toInt.natAbs ∧ x.hi.toInt.natAbs ≤ 2 ^ 1524))
    (hy : y.hi.toInt = 0 ∨ (2 ^ 624 ≤ y.hi.toInt.natAbs ∧ y.hi.toInt.natAbs ≤ 2 ^ 1524)) :
    |(x *. y).V * (unit : Int) - x.V * y.V| * 2 ^ 106 ≤ 5 * |x.V * y.V| := by
  show |(arithmetic.impl_Mul_rTwoFloat_for_rTwoFloat.mul x y).V * (unit : Int) - x.V * y.V| * 2 ^ 106
    ≤ 5 * |x.V * y.V|
  rcases hx with hx | hx
  · have h7 := (TwoFloat.mul_tt_bound_7u2_partial hvx hwx hvy hwy (Or.inl (by rw [hx, zero_mul]))).2
    have hl := TwoFloat.Valid.abs_lo_le hvx
    rw [hx, abs_zero] at hl
    have h0 : x.lo.toInt = 0 := abs_eq_zero.1 (le_antisymm hl (abs_nonneg _))
    have hV : x.V * y.V = 0 := by unfold TwoFloat.V; rw [hx, h0]; simp
    rw [hV, abs_zero] at h7 ⊢
    omega
  rcases hy with hy | hy
  · have h7 := (TwoFloat.mul_tt_bound_7u2_partial hvx hwx hvy hwy (Or.inl (by rw [hy, mul_zero]))).2
    have hl := TwoFloat.Valid.abs_lo_le hvy
    rw [hy, abs_zero] at hl
    have h0 : y.lo.toInt = 0 := abs_eq_zero.1 (le_antisymm hl (abs_nonneg _))
    have hV : x.V * y.V = 0 := by unfold TwoFloat.V; rw [hy, h0]; simp
    rw [hV, abs_zero] at h7 ⊢
    omega
  exact (C04c.mul_tt_bound_5u2 hvx hwx hvy hwy hx hy).2

/-! ### instances on concrete operands (hypotheses discharged by kernel evaluation) -/

/-- π × e -/
example :
    |(consts.PI *. consts.E).V * (unit : Int) - consts.PI.V * consts.E.V| * 2 ^ 106
      ≤ 5 * |consts.PI.V * consts.E.V| :=
  (mul_tt_bound_5u2 (x := consts.PI) (y := consts.E)
    (by decide +kernel) ⟨by decide +kernel, by decide +kernel⟩
    (by decide +kernel) ⟨by decide +kernel, by decide +kernel⟩ (by decide +kernel) (by decide +kernel)).2

/-- the corner of the old gap: high words one ulp above a power of two, both low words half an ulp inward:
`(1 + 2^-51, -2^-53) × (1 + 2^-51, -2^-53)` (the high word must be even for the pair to be valid) -/
example :
    let x : TwoFloat := ⟨f64lit 0x3ff0000000000002, f64lit 0xbca0000000000000⟩
    (x *. x).Valid ∧ |(x *. x).V * (unit : Int) - x.V * x.V| * 2 ^ 106 ≤ 5 * |x.V * x.V| :=
  mul_tt_bound_5u2 (x := ⟨f64lit 0x3ff0000000000002, f64lit 0xbca0000000000000⟩)
    (y := ⟨f64lit 0x3ff0000000000002, f64lit 0xbca0000000000000⟩)
    (by decide +kernel) ⟨by decide +kernel, by decide +kernel⟩
    (by decide +kernel) ⟨by decide +kernel, by decide +kernel⟩ (by decide +kernel) (by decide +kernel)

/-- a power of two times a pair with inward low word: `(1, -2^-54) × (1 + 2^-52, -2^-53)`… the second pair has an odd
high word, so use `(1 + 2^-51, -2^-53)` -/
example :
    let x : TwoFloat := ⟨f64lit 0x3ff0000000000000, f64lit 0xbc90000000000000⟩
    let y : TwoFloat := ⟨f64lit 0x3ff0000000000002, f64lit 0xbca0000000000000⟩
    (x *. y).Valid ∧ |(x *. y).V * (unit : Int) - x.V * y.V| * 2 ^ 106 ≤ 5 * |x.V * y.V| :=
  mul_tt_bound_5u2 (x := ⟨f64lit 0x3ff0000000000000, f64lit 0xbc90000000000000⟩)
    (y := ⟨f64lit 0x3ff0000000000002, f64lit 0xbca0000000000000⟩)
    (by decide +kernel) ⟨by decide +kernel, by decide +kernel⟩
    (by decide +kernel) ⟨by decide +kernel, by decide +kernel⟩ (by decide +kernel) (by decide +kernel)

end C04c
