/-
Property C01 — the representation invariant.

  "Every TwoFloat produced by the public API from valid operands is either valid (both words finite and
   hi == RN(hi + lo)) or has a non-finite high word signalling overflow / domain error; it is never a finite high word
   paired with an overlapping, infinite or NaN low word.  The invariant is preserved along arbitrary chains of
   operations."

`TwoFloat.Inv t := t.Valid ∨ t.hi.is_finite = false` (Spec/Defs.lean).  All statements are about the generated model
(`TFV/Gen.lean`) and quantify over ALL well-formed words (`WF` = "is the bit pattern of a double").

Contents
 §1  the closing Fast2Sum (`fast_two_sum_inv`)                                       — unconditional
 §2  structural API: neg, abs, copysign, signum, min, max, conversions, constants    — unconditional
 §3  constructors new_add / new_sub / new_mul / new_div — exact characterisation, and COUNTEREXAMPLES: `new_add`,
     `new_sub` near overflow (finite hi, NaN lo) and `new_mul` in the underflow range (finite overlapping words)
     BREAK the invariant
 §4  floor, ceil, trunc, round, fract                                                — unconditional
 §5  operators
       TwoFloat ± f64, f64 ± TwoFloat, TwoFloat × f64, f64 × TwoFloat                — unconditional (all doubles, incl. inf/NaN)
       TwoFloat ± TwoFloat, TwoFloat × TwoFloat                                      — unconditional
       TwoFloat ÷ f64                                                                — when |hi/rhs| ≥ 2^-1021 (or rhs ∈ {0, inf, NaN});
                                                                                       general case: `div_tf_f64_inv_partial`
       TwoFloat ÷ TwoFloat, f64 ÷ TwoFloat (end in `renorm3`)                        — `renorm3_inv_partial` (explicit precondition)
       derived: to_radians, to_degrees, mul_add, abs_sub, Sum, powi (n ≥ 0)          — unconditional
 §6  `eval_inv`: arbitrary chains of the unconditionally proved operations
 §7  non-vacuity examples
-/
import TFV.Lemmas.Inv
import TFV.Properties.C02
import TFV.Properties.C06
import TFV.Properties.C07
import TFV.Properties.C08
import TFV.Properties.C12

set_option exponentiation.threshold 3000

namespace C01

open F64 TwoFloat

abbrev tneg := arithmetic.impl_Neg_for_rTwoFloat.neg

/-! ## §1 the closing Fast2Sum -/

/-- **Fast2Sum re-establishes the invariant**, for all well-formed `a`, `b`: whenever (a, b are not both finite) or
`|b| ≤ |a|`.  Overflow of `a + b` (high word `±inf`) and non-finite operands (high word `inf`/`NaN`) included. -/
theorem fast_two_sum_inv (a b : F64) (hwa : a.WF) (hwb : b.WF)
    (h : ¬ (a.is_finite = true ∧ b.is_finite = true) ∨ |b.toInt| ≤ |a.toInt|) :
    (arithmetic.fast_two_sum a b).Inv ∧ (arithmetic.fast_two_sum a b).WF :=
  ⟨F64.fast_two_sum_inv hwa hwb h, fast_two_sum_WF a b⟩

/-- … and under the weakest classical precondition `ulp(b) ∣ a` (which covers `a = ±0`) -/
theorem fast_two_sum_inv_of_dvd (a b : F64) (hwa : a.WF) (hwb : b.WF)
    (h : ¬ (a.is_finite = true ∧ b.is_finite = true) ∨
      (2 : Int) ^ (Nat.log2 b.toInt.natAbs - 52) ∣ a.toInt) :
    (arithmetic.fast_two_sum a b).Inv ∧ (arithmetic.fast_two_sum a b).WF :=
  ⟨F64.fast_two_sum_inv_of_dvd hwa hwb h, fast_two_sum_WF a b⟩

/-- the precondition cannot be dropped: with the operands in the wrong order, `fast_two_sum(2^-53, 1 + 2^-52)` returns
`(1 + 2^-51, -2^-52)` — finite words that overlap (`hi + lo = 1 + 2^-52` is a double different from `hi`) -/
theorem fast_two_sum_inv_needs_precondition :
    let a := F64.fin false (2 ^ 1021)            -- 2^-53
    let b := F64.fin false (2 ^ 1074 + 2 ^ 1022) -- 1 + 2^-52
    a.WF ∧ b.WF ∧ ¬ |b.toInt| ≤ |a.toInt| ∧
    (arithmetic.fast_two_sum a b).hi.is_finite = true ∧ ¬ (arithmetic.fast_two_sum a b).Inv := by
  decide +kernel

/-! ## §2 structural API -/

theorem neg_inv {t : TwoFloat} (hw : t.WF) (hi : t.Inv) : (tneg t).Inv ∧ (tneg t).WF :=
  ⟨hi.neg hw.1, neg_WF' hw⟩

theorem neg_valid {t : TwoFloat} (hw : t.WF) (hv : t.Valid) : (tneg t).Valid := hv.neg hw.1

/-- `-x` through the by-value impl -/
theorem neg_inv' {t : TwoFloat} (hw : t.WF) (hi : t.Inv) :
    (arithmetic.impl_Neg_for_TwoFloat.neg t).Inv ∧ (arithmetic.impl_Neg_for_TwoFloat.neg t).WF :=
  neg_inv hw hi

theorem abs_inv {t : TwoFloat} (hw : t.WF) (hi : t.Inv) : (TwoFloat.abs t).Inv ∧ (TwoFloat.abs t).WF := by
  rcases C06.abs_eq_or_neg t with e | e <;> rw [e]
  · exact ⟨hi, hw⟩
  · exact neg_inv hw hi

theorem copysign_inv {t : TwoFloat} (s : TwoFloat) (hw : t.WF) (hi : t.Inv) :
    (TwoFloat.copysign t s).Inv ∧ (TwoFloat.copysign t s).WF := by
  rcases C06.copysign_eq_or_neg t s with e | e <;> rw [e]
  · exact ⟨hi, hw⟩
  · exact neg_inv hw hi

/-- `signum` needs no hypothesis at all: it returns `(±1, 0)` or `(NaN, NaN)` -/
theorem signum_inv (t : TwoFloat) : (TwoFloat.signum t).Inv ∧ (TwoFloat.signum t).WF := by
  rw [C06.signum_cases]
  split_ifs <;> decide +kernel

theorem min_inv {a b : TwoFloat} (hwa : a.WF) (hia : a.Inv) (hwb : b.WF) (hib : b.Inv) :
    (TwoFloat.min a b).Inv ∧ (TwoFloat.min a b).WF := by
  rcases C06.min_eq_left_or_right a b with e | e <;> rw [e]
  · exact ⟨hia, hwa⟩
  · exact ⟨hib, hwb⟩

theorem max_inv {a b : TwoFloat} (hwa : a.WF) (hia : a.Inv) (hwb : b.WF) (hib : b.Inv) :
    (TwoFloat.max a b).Inv ∧ (TwoFloat.max a b).WF := by
  rcases C06.max_eq_left_or_right a b with e | e <;> rw [e]
  · exact ⟨hia, hwa⟩
  · exact ⟨hib, hwb⟩

/-- any well-formed double paired with `+0` satisfies the invariant: valid if finite, marker otherwise -/
theorem pair_zero_inv {x : F64} (hw : x.WF) :
    (TwoFloat.mk x (F64.fin false 0)).Inv ∧ (TwoFloat.mk x (F64.fin false 0)).WF := by
  refine ⟨?_, hw, WF_zero false⟩
  cases hf : x.is_finite
  · exact Or.inr hf
  · exact Or.inl (pair_zero_spec hf hw).2.1

theorem from_f64_inv {x : F64} (hw : x.WF) : (TwoFloat.from_f64 x).Inv ∧ (TwoFloat.from_f64 x).WF := by
  rw [from_f64_eq]; exact pair_zero_inv hw

/-- `From<f64>` -/
theorem from_inv {x : F64} (hw : x.WF) :
    (convert.impl_From_f64_for_TwoFloat.from x).Inv ∧ (convert.impl_From_f64_for_TwoFloat.from x).WF := by
  rw [from_eq]; exact pair_zero_inv hw

theorem from_f32_eq (x : F32) :
    convert.impl_From_f32_for_TwoFloat.from x = { hi := x.v, lo := F64.fin false 0 } := by
  unfold convert.impl_From_f32_for_TwoFloat.from; rw [f64lit_zero]; rfl

/-- `From<f32>` (an `F32` is stored as the double it denotes; well-formed = that double is well-formed) -/
theorem from_f32_inv {x : F32} (hw : x.v.WF) :
    (convert.impl_From_f32_for_TwoFloat.from x).Inv ∧ (convert.impl_From_f32_for_TwoFloat.from x).WF := by
  rw [from_f32_eq]; exact pair_zero_inv hw

theorem zero_inv : num_integration.impl_Zero_for_TwoFloat.zero.Valid ∧
    num_integration.impl_Zero_for_TwoFloat.zero.WF := by decide +kernel

theorem one_inv : num_integration.impl_One_for_TwoFloat.one.Valid ∧
    num_integration.impl_One_for_TwoFloat.one.WF := by decide +kernel

theorem default_inv : lib.impl_Default_for_TwoFloat.default.Valid ∧
    lib.impl_Default_for_TwoFloat.default.WF := by decide +kernel

/-- the associated constants: `MIN`, `MAX`, `MIN_POSITIVE`, `EPSILON` are valid; `NAN`, `INFINITY`, `NEG_INFINITY`
carry the non-finite marker in the high word -/
theorem assoc_consts_inv :
    (TwoFloat.MIN.Inv ∧ TwoFloat.MIN.WF) ∧ (TwoFloat.MAX.Inv ∧ TwoFloat.MAX.WF) ∧
    (TwoFloat.MIN_POSITIVE.Inv ∧ TwoFloat.MIN_POSITIVE.WF) ∧ (TwoFloat.EPSILON.Inv ∧ TwoFloat.EPSILON.WF) ∧
    (TwoFloat.NAN.Inv ∧ TwoFloat.NAN.WF) ∧ (TwoFloat.INFINITY.Inv ∧ TwoFloat.INFINITY.WF) ∧
    (TwoFloat.NEG_INFINITY.Inv ∧ TwoFloat.NEG_INFINITY.WF) := by decide +kernel

/-! ## §3 constructors -/

/-- **`new_add`.**  The invariant holds for ALL well-formed operands in each of these cases: an operand is not
finite; both magnitudes are below `2^1023` (C02); the sum overflows; or the low word comes out finite. -/
theorem new_add_inv (a b : F64) (hwa : a.WF) (hwb : b.WF)
    (h : ¬ (a.is_finite = true ∧ b.is_finite = true) ∨
      (a.toInt.natAbs < 2 ^ 2097 ∧ b.toInt.natAbs < 2 ^ 2097) ∨
      (F64.add a b).is_finite = false ∨ (TwoFloat.new_add a b).lo.is_finite = true) :
    (TwoFloat.new_add a b).Inv ∧ (TwoFloat.new_add a b).WF := by
  refine ⟨?_, new_add_WF a b⟩
  cases hf : (TwoFloat.new_add a b).hi.is_finite
  · exact Or.inr hf
  · obtain ⟨ha, hb⟩ := is_finite_of_add (x := a) (y := b) hf
    rcases h with h | ⟨hA, hB⟩ | h | h
    · exact absurd ⟨ha, hb⟩ h
    · exact Or.inl (C02.new_add_exact a b hwa hwb ha hb hA hB).2.2.2.2.1
    · rw [C02.new_add_hi, h] at hf; exact absurd hf (by simp)
    · exact Or.inl (new_add_valid_of_lo_finite ha hb hwa hwb h).2.2.1

/-- exact characterisation: the ONLY way `new_add` breaks the invariant is a finite high word with an
`inf`/`NaN` low word (an intermediate overflow of Knuth's 2Sum) -/
theorem new_add_inv_iff (a b : F64) (hwa : a.WF) (hwb : b.WF) :
    (TwoFloat.new_add a b).Inv ↔
      ((TwoFloat.new_add a b).hi.is_finite = true → (TwoFloat.new_add a b).lo.is_finite = true) := by
  constructor
  · exact fun h hf => (h.lo_of_finite hf).1
  · intro h
    cases hf : (TwoFloat.new_add a b).hi.is_finite
    · exact Or.inr hf
    · exact (new_add_inv a b hwa hwb (Or.inr (Or.inr (Or.inr (h hf))))).1

/-- **COUNTEREXAMPLE (C01 fails for the public constructor `new_add`).**  `f64::MAX + (-1.5·2^971)` does not
overflow (`hi = 0x7feffffffffffffe` is finite) but the low word is `NaN`. -/
theorem new_add_breaks_inv :
    let a := f64lit 0x7fefffffffffffff
    let b := f64lit 0xfca8000000000000
    a.WF ∧ b.WF ∧ a.is_finite = true ∧ b.is_finite = true ∧
    (TwoFloat.new_add a b).hi = f64lit 0x7feffffffffffffe ∧ (TwoFloat.new_add a b).lo = F64.nan ∧
    ¬ (TwoFloat.new_add a b).Inv := by decide +kernel

/-- **`new_sub`**, as `new_add_inv` -/
theorem new_sub_inv (a b : F64) (hwa : a.WF) (hwb : b.WF)
    (h : ¬ (a.is_finite = true ∧ b.is_finite = true) ∨
      (a.toInt.natAbs < 2 ^ 2097 ∧ b.toInt.natAbs < 2 ^ 2097) ∨
      (F64.sub a b).is_finite = false ∨ (TwoFloat.new_sub a b).lo.is_finite = true) :
    (TwoFloat.new_sub a b).Inv ∧ (TwoFloat.new_sub a b).WF := by
  refine ⟨?_, new_sub_WF a b⟩
  cases hf : (TwoFloat.new_sub a b).hi.is_finite
  · exact Or.inr hf
  · obtain ⟨ha, hb⟩ := is_finite_of_sub (x := a) (y := b) hf
    rcases h with h | ⟨hA, hB⟩ | h | h
    · exact absurd ⟨ha, hb⟩ h
    · exact Or.inl (C02.new_sub_exact a b hwa hwb ha hb hA hB).2.2.2.2.1
    · rw [C02.new_sub_hi, h] at hf; exact absurd hf (by simp)
    · exact Or.inl (new_sub_valid_of_lo_finite ha hb hwa hwb h).2.2.1

theorem new_sub_inv_iff (a b : F64) (hwa : a.WF) (hwb : b.WF) :
    (TwoFloat.new_sub a b).Inv ↔
      ((TwoFloat.new_sub a b).hi.is_finite = true → (TwoFloat.new_sub a b).lo.is_finite = true) := by
  constructor
  · exact fun h hf => (h.lo_of_finite hf).1
  · intro h
    cases hf : (TwoFloat.new_sub a b).hi.is_finite
    · exact Or.inr hf
    · exact (new_sub_inv a b hwa hwb (Or.inr (Or.inr (Or.inr (h hf))))).1

/-- **COUNTEREXAMPLE for `new_sub`**: `f64::MAX − 1.5·2^971` -/
theorem new_sub_breaks_inv :
    let a := f64lit 0x7fefffffffffffff
    let b := f64lit 0x7ca8000000000000
    a.WF ∧ b.WF ∧ a.is_finite = true ∧ b.is_finite = true ∧
    (TwoFloat.new_sub a b).hi = f64lit 0x7feffffffffffffe ∧ (TwoFloat.new_sub a b).lo = F64.nan ∧
    ¬ (TwoFloat.new_sub a b).Inv := by decide +kernel

/-- **`new_mul`**: the invariant holds when an operand is not finite, when the product overflows, when the exact
product is `0`, and whenever `|a·b| ≥ 2^-960` (scaled: `2^1188 ≤ |toInt a · toInt b|`) — right up to the overflow
threshold (C02 stops at `2^1023`) -/
theorem new_mul_inv (a b : F64) (hwa : a.WF) (hwb : b.WF)
    (h : ¬ (a.is_finite = true ∧ b.is_finite = true) ∨
      a.toInt * b.toInt = 0 ∨ 2 ^ 1188 ≤ (a.toInt * b.toInt).natAbs ∨
      (F64.mul a b).is_finite = false) :
    (TwoFloat.new_mul a b).Inv ∧ (TwoFloat.new_mul a b).WF := by
  refine ⟨?_, new_mul_WF a b⟩
  cases hf : (TwoFloat.new_mul a b).hi.is_finite
  · exact Or.inr hf
  · obtain ⟨ha, hb⟩ := is_finite_of_mul (x := a) (y := b) hf
    rcases h with h | h | h | h
    · exact absurd ⟨ha, hb⟩ h
    · exact Or.inl (C02.new_mul_exact a b hwa hwb ha hb (Or.inl h)).2.2.2.2.1
    · refine Or.inl (new_mul_valid_of_hi_finite hwa hwb ?_ hf).2.1
      rw [← Int.natCast_natAbs]; exact_mod_cast h
    · rw [C02.new_mul_hi, h] at hf; exact absurd hf (by simp)

/-- **COUNTEREXAMPLE (C01 fails for the public constructor `new_mul` in the underflow range).**
`a = 1.375·2^-1021`, `b = 1 + 2^-52`: the product is `(A + 1.375)·2^-1073` with `A + 1` odd; the FMA residual
`0.75·2^-1074` is not representable and rounds UP to `2^-1074 = ulp(hi)/2`, so `hi + lo` is a tie that rounds to even,
away from `hi`.  Both words are finite and the pair is NOT valid (`is_valid()` returns `false` as well). -/
theorem new_mul_breaks_inv :
    let a := f64lit 0x0026000000000000
    let b := f64lit 0x3ff0000000000001
    a.WF ∧ b.WF ∧ a.is_finite = true ∧ b.is_finite = true ∧
    TwoFloat.new_mul a b = ⟨f64lit 0x0026000000000001, f64lit 0x0000000000000001⟩ ∧
    ¬ (TwoFloat.new_mul a b).Inv ∧ TwoFloat.is_valid (TwoFloat.new_mul a b) = false ∧
    F64.add (f64lit 0x0026000000000001) (f64lit 0x0000000000000001) = f64lit 0x0026000000000002 := by
  decide +kernel

/-- … whereas the operators re-normalise: `(a, 0) * b` for the same operands is valid -/
theorem mul_tf_f64_repairs :
    (arithmetic.impl_Mul_rf64_for_rTwoFloat.mul ⟨f64lit 0x0026000000000000, f64lit 0⟩
      (f64lit 0x3ff0000000000001)).Valid := by decide +kernel

/-- **`new_div`** in the C02 range (`2^-480 ≤ |a|, |b| ≤ 2^480`) -/
theorem new_div_inv (a b : F64) (hwa : a.WF) (hwb : b.WF)
    (ha : a.is_finite = true) (hb : b.is_finite = true)
    (hA1 : 2 ^ 594 ≤ a.toInt.natAbs) (hA2 : a.toInt.natAbs ≤ 2 ^ 1554)
    (hB1 : 2 ^ 594 ≤ b.toInt.natAbs) (hB2 : b.toInt.natAbs ≤ 2 ^ 1554) :
    (TwoFloat.new_div a b).Inv ∧ (TwoFloat.new_div a b).WF :=
  have h := C02.new_div_bounds a b hwa hwb ha hb hA1 hA2 hB1 hB2
  ⟨Or.inl h.1, h.2.1⟩

/-- `new_div` in general: the result is `Fast2Sum(th, tl)` with `th = a ⊘ b`; the invariant holds as soon as the
correction `tl` is not larger than the quotient `th` (or one of them is not finite, e.g. `b = 0`, overflow, NaN) -/
theorem new_div_inv_partial (a b : F64)
    (h : let th := F64.div a b
         let tl := F64.div (F64.sub (F64.sub a (TwoFloat.new_mul th b).hi) (TwoFloat.new_mul th b).lo) b
         ¬ (th.is_finite = true ∧ tl.is_finite = true) ∨ |tl.toInt| ≤ |th.toInt|) :
    (TwoFloat.new_div a b).Inv ∧ (TwoFloat.new_div a b).WF := by
  rw [C02.new_div_eq]
  exact C01.fast_two_sum_inv _ _ (div_WF _ _) (div_WF _ _) h

/-- `new_div` with a non-finite numerator or a NaN denominator: non-finite marker -/
theorem new_div_inv_of_not_finite (a b : F64) (h : a.is_finite = false ∨ b = F64.nan) :
    (TwoFloat.new_div a b).Inv := by
  rw [C02.new_div_eq]
  refine Or.inr (fast_two_sum_hi_not_finite (Or.inl ?_))
  rcases h with h | h
  · exact div_not_finite_left b h
  · rw [h, div_nan_right]; rfl

/-! ## §4 floor, ceil, trunc, round, fract

Valid operands: C08 (exact, valid results).  Operands with a non-finite high word: the high word of the result is
non-finite again — except for `fract`, which maps `(±inf, lo)` to a VALID pair (`±0`, or `±1 + fract(lo)`). -/

theorem floor_hi_not_finite {x : TwoFloat} (h : x.hi.is_finite = false) :
    (TwoFloat.floor x).hi.is_finite = false := by
  unfold TwoFloat.floor
  split_ifs
  · simp only [C08.is_finite_floor, h]
  · exact fast_two_sum_hi_not_finite (Or.inl h)
  · rw [from_eq]; simp only [C08.is_finite_floor, h]

theorem ceil_hi_not_finite {x : TwoFloat} (h : x.hi.is_finite = false) :
    (TwoFloat.ceil x).hi.is_finite = false := by
  unfold TwoFloat.ceil
  split_ifs
  · simp only [C08.is_finite_ceil, h]
  · exact fast_two_sum_hi_not_finite (Or.inl h)
  · rw [from_eq]; simp only [C08.is_finite_ceil, h]

theorem trunc_hi_not_finite {x : TwoFloat} (h : x.hi.is_finite = false) :
    (TwoFloat.trunc x).hi.is_finite = false := by
  unfold TwoFloat.trunc
  split_ifs
  · exact floor_hi_not_finite h
  · exact ceil_hi_not_finite h

theorem round_hi_not_finite {x : TwoFloat} (h : x.hi.is_finite = false) :
    (TwoFloat.round x).hi.is_finite = false := by
  unfold TwoFloat.round
  split_ifs
  all_goals first
    | exact fast_two_sum_hi_not_finite (Or.inl h)
    | (rw [from_eq]; simp only [C08.is_finite_round, C08.is_finite_trunc, h])
    | simp only [C08.is_finite_round, h]

theorem floor_inv {x : TwoFloat} (hw : x.WF) (hi : x.Inv) : (TwoFloat.floor x).Inv ∧ (TwoFloat.floor x).WF := by
  refine ⟨?_, C08.floor_WF hw⟩
  rcases hi with hv | hn
  · exact Or.inl (C08.floor_exact hv hw).2
  · exact Or.inr (floor_hi_not_finite hn)

theorem ceil_inv {x : TwoFloat} (hw : x.WF) (hi : x.Inv) : (TwoFloat.ceil x).Inv ∧ (TwoFloat.ceil x).WF := by
  refine ⟨?_, C08.ceil_WF hw⟩
  rcases hi with hv | hn
  · exact Or.inl (C08.ceil_exact hv hw).2
  · exact Or.inr (ceil_hi_not_finite hn)

theorem trunc_inv {x : TwoFloat} (hw : x.WF) (hi : x.Inv) : (TwoFloat.trunc x).Inv ∧ (TwoFloat.trunc x).WF := by
  refine ⟨?_, C08.trunc_WF hw⟩
  rcases hi with hv | hn
  · exact Or.inl (C08.trunc_exact hv hw).2
  · exact Or.inr (trunc_hi_not_finite hn)

theorem round_inv {x : TwoFloat} (hw : x.WF) (hi : x.Inv) : (TwoFloat.round x).Inv ∧ (TwoFloat.round x).WF := by
  refine ⟨?_, C08.round_WF hw⟩
  rcases hi with hv | hn
  · exact Or.inl (C08.round_exact hv hw).2
  · exact Or.inr (round_hi_not_finite hn)

/-- the fractional part of any well-formed double is smaller than one in magnitude -/
theorem abs_modf_fst_lt (l : F64) : |(F64.modf l).1.toInt| < |(F64.fin false F64.unit).toInt| := by
  rw [C08.toInt_modf_fst, C08.toInt_one, abs_of_pos C08.U_pos]
  exact C08.abs_fractV_lt _

/-- `fract` re-establishes the invariant for ALL well-formed operands whose high word is valid-or-non-finite -/
theorem fract_inv {x : TwoFloat} (hw : x.WF) (hi : x.Inv) : (TwoFloat.fract x).Inv ∧ (TwoFloat.fract x).WF := by
  refine ⟨?_, C08.fract_WF hw⟩
  rcases hi with hv | hn
  · exact Or.inl (C08.fract_exact hv hw).2
  · unfold TwoFloat.fract
    simp only []
    split_ifs with h1 h2
    · exact (from_inv (C08.WF_modf_fst hw.1)).1
    · generalize (x.hi >=. f64lit 0x0000000000000000) = b1
      generalize (x.lo >=. f64lit 0x0000000000000000) = b2
      have hlt := abs_modf_fst_lt x.lo
      cases b1 <;> cases b2 <;> simp only [] <;> first
        | exact (from_inv (C08.WF_modf_fst hw.2)).1
        | (rw [C08.f64lit_one]
           refine F64.fast_two_sum_inv ?_ (C08.WF_modf_fst hw.2) (Or.inr ?_)
           · exact C08.WF_one false
           · exact le_of_lt hlt)
    · refine Or.inr (fast_two_sum_hi_not_finite (Or.inl ?_))
      rcases x with ⟨h, l⟩
      cases h with
      | nan => rfl
      | inf s => exact absurd (show ((F64.modf (F64.inf s)).1 ==. f64lit 0x0000000000000000) = true by
          cases s <;> decide) h2
      | fin s n => exact absurd hn (by simp [is_finite])

/-! ## §5 operators

### TwoFloat ± f64 and f64 ± TwoFloat (DWPlusFP): unconditional -/

abbrev addTF := arithmetic.impl_Add_rf64_for_rTwoFloat.add
abbrev addFT := arithmetic.impl_Add_rTwoFloat_for_rf64.add
abbrev subTF := arithmetic.impl_Sub_rf64_for_rTwoFloat.sub
abbrev subFT := arithmetic.impl_Sub_rTwoFloat_for_rf64.sub
abbrev mulTF := arithmetic.impl_Mul_rf64_for_rTwoFloat.mul
abbrev mulFT := arithmetic.impl_Mul_rTwoFloat_for_rf64.mul
abbrev divTF := arithmetic.impl_Div_rf64_for_rTwoFloat.div
abbrev addTT := arithmetic.impl_Add_rTwoFloat_for_rTwoFloat.add
abbrev subTT := arithmetic.impl_Sub_rTwoFloat_for_rTwoFloat.sub
abbrev mulTT := arithmetic.impl_Mul_rTwoFloat_for_rTwoFloat.mul
abbrev divTT := arithmetic.impl_Div_rTwoFloat_for_rTwoFloat.div
abbrev divFT := arithmetic.impl_Div_rTwoFloat_for_rf64.div

theorem addTF_eq (t : TwoFloat) (c : F64) :
    addTF t c = arithmetic.fast_two_sum (TwoFloat.new_add t.hi c).hi
      (F64.add t.lo (TwoFloat.new_add t.hi c).lo) := rfl

theorem addFT_eq (c : F64) (t : TwoFloat) :
    addFT c t = arithmetic.fast_two_sum (TwoFloat.new_add t.hi c).hi
      (F64.add t.lo (TwoFloat.new_add t.hi c).lo) := rfl

theorem subTF_eq (t : TwoFloat) (c : F64) :
    subTF t c = arithmetic.fast_two_sum (TwoFloat.new_sub t.hi c).hi
      (F64.add t.lo (TwoFloat.new_sub t.hi c).lo) := rfl

theorem subFT_eq (c : F64) (t : TwoFloat) :
    subFT c t = arithmetic.fast_two_sum (TwoFloat.new_sub c t.hi).hi
      (F64.sub (TwoFloat.new_sub c t.hi).lo t.lo) := rfl

/-- **`TwoFloat + f64` preserves the invariant** — for every well-formed pair satisfying `Inv` and EVERY well-formed
double (finite of any magnitude, infinite, NaN).  When 2Sum overflows internally its `NaN`/`inf` low word propagates
to the high word of the result; otherwise 2Sum is exact and the Fast2Sum precondition `|v| ≤ |sh|` (or `sh = 0`) holds. -/
theorem add_tf_f64_inv {t : TwoFloat} (c : F64) (hw : t.WF) (hc : c.WF) (hi : t.Inv) :
    (addTF t c).Inv ∧ (addTF t c).WF := by
  rw [addTF_eq]
  refine ⟨?_, fast_two_sum_WF _ _⟩
  by_cases hf : t.hi.is_finite = true ∧ c.is_finite = true
  · have hv : t.Valid := by
      rcases hi with h | h
      · exact h
      · rw [hf.1] at h; exact absurd h (by simp)
    exact dw_add_core_inv hf.1 hf.2 hw.1 hc hv.two_mul_abs_lo_le
  · refine Or.inr (fast_two_sum_hi_not_finite (Or.inl (new_add_hi_not_finite ?_)))
    by_cases h1 : t.hi.is_finite = true
    · exact Or.inr (is_finite_eq_false_iff.2 (fun h2 => hf ⟨h1, h2⟩))
    · exact Or.inl (is_finite_eq_false_iff.2 h1)

/-- `f64 + TwoFloat` -/
theorem add_f64_tf_inv {t : TwoFloat} (c : F64) (hw : t.WF) (hc : c.WF) (hi : t.Inv) :
    (addFT c t).Inv ∧ (addFT c t).WF := by
  rw [addFT_eq, ← addTF_eq]; exact add_tf_f64_inv c hw hc hi

/-- **`TwoFloat − f64` preserves the invariant**, unconditionally -/
theorem sub_tf_f64_inv {t : TwoFloat} (c : F64) (hw : t.WF) (hc : c.WF) (hi : t.Inv) :
    (subTF t c).Inv ∧ (subTF t c).WF := by
  rw [subTF_eq]
  refine ⟨?_, fast_two_sum_WF _ _⟩
  by_cases hf : t.hi.is_finite = true ∧ c.is_finite = true
  · have hv : t.Valid := by
      rcases hi with h | h
      · exact h
      · rw [hf.1] at h; exact absurd h (by simp)
    exact dw_sub_core_inv hf.1 hf.2 hw.1 hc hv.two_mul_abs_lo_le
  · refine Or.inr (fast_two_sum_hi_not_finite (Or.inl (new_sub_hi_not_finite ?_)))
    by_cases h1 : t.hi.is_finite = true
    · exact Or.inr (is_finite_eq_false_iff.2 (fun h2 => hf ⟨h1, h2⟩))
    · exact Or.inl (is_finite_eq_false_iff.2 h1)

/-- **`f64 − TwoFloat` preserves the invariant**, unconditionally -/
theorem sub_f64_tf_inv {t : TwoFloat} (c : F64) (hw : t.WF) (hc : c.WF) (hi : t.Inv) :
    (subFT c t).Inv ∧ (subFT c t).WF := by
  rw [subFT_eq]
  refine ⟨?_, fast_two_sum_WF _ _⟩
  by_cases hf : t.hi.is_finite = true ∧ c.is_finite = true
  · have hv : t.Valid := by
      rcases hi with h | h
      · exact h
      · rw [hf.1] at h; exact absurd h (by simp)
    exact dw_rsub_core_inv hf.1 hf.2 hw.1 hc hv.two_mul_abs_lo_le
  · refine Or.inr (fast_two_sum_hi_not_finite (Or.inl (new_sub_hi_not_finite ?_)))
    by_cases h1 : t.hi.is_finite = true
    · exact Or.inl (is_finite_eq_false_iff.2 (fun h2 => hf ⟨h1, h2⟩))
    · exact Or.inr (is_finite_eq_false_iff.2 h1)

/-- the operator notations and the `…Assign` / by-value / by-reference impls are the same functions -/
theorem add_tf_f64_inv' {t : TwoFloat} (c : F64) (hw : t.WF) (hc : c.WF) (hi : t.Inv) :
    (t +. c).Inv ∧ (c +. t).Inv ∧ (t -. c).Inv ∧ (c -. t).Inv ∧
    (arithmetic.impl_AddAssign_rf64_for_TwoFloat.add_assign t c).Inv ∧
    (arithmetic.impl_SubAssign_rf64_for_TwoFloat.sub_assign t c).Inv :=
  ⟨(add_tf_f64_inv c hw hc hi).1, (add_f64_tf_inv c hw hc hi).1, (sub_tf_f64_inv c hw hc hi).1,
    (sub_f64_tf_inv c hw hc hi).1, (add_tf_f64_inv c hw hc hi).1, (sub_tf_f64_inv c hw hc hi).1⟩

/-- NOTE (value, not invariant): near overflow the invariant is kept by *poisoning*: `(f64::MAX, 0) + (-1.5·2^971)`
is `NaN` although the exact sum is a finite double-double -/
theorem add_tf_f64_nan_near_overflow :
    (addTF ⟨f64lit 0x7fefffffffffffff, f64lit 0⟩ (f64lit 0xfca8000000000000)).hi = F64.nan := by
  decide +kernel

/-! ### the remaining operators: normal forms, non-finite operands, and the conditional form for division

Each operator ends with a Fast2Sum (`renorm3` for `… / TwoFloat`), so the invariant follows from the explicit
precondition `RenormPre vh w` of that last step.  For `±` and `×` the precondition is PROVED below (`add_tt_inv`,
`sub_tt_inv`, `mul_tf_f64_inv`, `mul_tt_inv`); for division it is proved for normal quotients of `TwoFloat / f64`
and left as a hypothesis otherwise (open; random search over > 10^6 operands found no violation, also none for
`renorm3` applied to ARBITRARY triples of doubles). -/

/-- precondition of a closing `fast_two_sum vh w` -/
def RenormPre (vh w : F64) : Prop :=
  ¬ (vh.is_finite = true ∧ w.is_finite = true) ∨ |w.toInt| ≤ |vh.toInt| ∨
    (2 : Int) ^ (Nat.log2 w.toInt.natAbs - 52) ∣ vh.toInt

theorem inv_of_renormPre {vh w : F64} (h1 : vh.WF) (h2 : w.WF) (h : RenormPre vh w) :
    (arithmetic.fast_two_sum vh w).Inv ∧ (arithmetic.fast_two_sum vh w).WF := by
  refine ⟨?_, fast_two_sum_WF _ _⟩
  rcases h with h | h | h
  · exact F64.fast_two_sum_inv h1 h2 (Or.inl h)
  · exact F64.fast_two_sum_inv h1 h2 (Or.inr h)
  · exact F64.fast_two_sum_inv_of_dvd h1 h2 (Or.inr h)

theorem mulTF_eq (t : TwoFloat) (c : F64) :
    mulTF t c = arithmetic.fast_two_sum (TwoFloat.new_mul t.hi c).hi
      (F64.fma t.lo c (TwoFloat.new_mul t.hi c).lo) := rfl

theorem mulFT_eq (c : F64) (t : TwoFloat) : mulFT c t = mulTF t c := rfl

theorem addTT_eq (a b : TwoFloat) :
    addTT a b =
      arithmetic.fast_two_sum
        (arithmetic.fast_two_sum (TwoFloat.new_add a.hi b.hi).hi
          (F64.add (TwoFloat.new_add a.hi b.hi).lo (TwoFloat.new_add a.lo b.lo).hi)).hi
        (F64.add (TwoFloat.new_add a.lo b.lo).lo
          (arithmetic.fast_two_sum (TwoFloat.new_add a.hi b.hi).hi
            (F64.add (TwoFloat.new_add a.hi b.hi).lo (TwoFloat.new_add a.lo b.lo).hi)).lo) := rfl

theorem subTT_eq (a b : TwoFloat) :
    subTT a b =
      arithmetic.fast_two_sum
        (arithmetic.fast_two_sum (TwoFloat.new_sub a.hi b.hi).hi
          (F64.add (TwoFloat.new_sub a.hi b.hi).lo (TwoFloat.new_sub a.lo b.lo).hi)).hi
        (F64.add (TwoFloat.new_sub a.lo b.lo).lo
          (arithmetic.fast_two_sum (TwoFloat.new_sub a.hi b.hi).hi
            (F64.add (TwoFloat.new_sub a.hi b.hi).lo (TwoFloat.new_sub a.lo b.lo).hi)).lo) := rfl

theorem mulTT_eq (a b : TwoFloat) :
    mulTT a b =
      arithmetic.fast_two_sum (TwoFloat.new_mul a.hi b.hi).hi
        (F64.add (TwoFloat.new_mul a.hi b.hi).lo
          (F64.fma a.lo b.hi (F64.fma a.hi b.lo (F64.mul a.lo b.lo)))) := rfl

theorem divTF_eq (t : TwoFloat) (c : F64) :
    divTF t c =
      arithmetic.fast_two_sum (F64.div t.hi c)
        (F64.div (F64.add (F64.sub (F64.sub t.hi (TwoFloat.new_mul (F64.div t.hi c) c).hi)
          (TwoFloat.new_mul (F64.div t.hi c) c).lo) t.lo) c) := rfl

/-- a non-finite high word of either operand gives a non-finite high word of `a + b`, `a − b`, `a * b` -/
theorem addTT_hi_not_finite {a b : TwoFloat} (h : a.hi.is_finite = false ∨ b.hi.is_finite = false) :
    (addTT a b).hi.is_finite = false := by
  rw [addTT_eq]
  exact fast_two_sum_hi_not_finite (Or.inl (fast_two_sum_hi_not_finite (Or.inl (new_add_hi_not_finite h))))

theorem subTT_hi_not_finite {a b : TwoFloat} (h : a.hi.is_finite = false ∨ b.hi.is_finite = false) :
    (subTT a b).hi.is_finite = false := by
  rw [subTT_eq]
  exact fast_two_sum_hi_not_finite (Or.inl (fast_two_sum_hi_not_finite (Or.inl (new_sub_hi_not_finite h))))

theorem mulTT_hi_not_finite {a b : TwoFloat} (h : a.hi.is_finite = false ∨ b.hi.is_finite = false) :
    (mulTT a b).hi.is_finite = false := by
  rw [mulTT_eq]
  refine fast_two_sum_hi_not_finite (Or.inl ?_)
  rcases h with h | h
  · exact mul_not_finite_left _ h
  · exact mul_not_finite_right _ h

theorem mulTF_hi_not_finite {t : TwoFloat} {c : F64} (h : t.hi.is_finite = false ∨ c.is_finite = false) :
    (mulTF t c).hi.is_finite = false := by
  rw [mulTF_eq]
  refine fast_two_sum_hi_not_finite (Or.inl ?_)
  rcases h with h | h
  · exact mul_not_finite_left _ h
  · exact mul_not_finite_right _ h

theorem divTF_hi_not_finite {t : TwoFloat} (c : F64) (h : t.hi.is_finite = false) :
    (divTF t c).hi.is_finite = false := by
  rw [divTF_eq]
  exact fast_two_sum_hi_not_finite (Or.inl (div_not_finite_left _ h))

/-- `TwoFloat / f64`, conditional form (see `div_tf_f64_inv_of_normal_quotient` for the proved case) -/
theorem div_tf_f64_inv_partial {t : TwoFloat} (c : F64) (hi : t.Inv)
    (h : t.Valid →
      RenormPre (F64.div t.hi c)
        (F64.div (F64.add (F64.sub (F64.sub t.hi (TwoFloat.new_mul (F64.div t.hi c) c).hi)
          (TwoFloat.new_mul (F64.div t.hi c) c).lo) t.lo) c)) :
    (divTF t c).Inv ∧ (divTF t c).WF := by
  rcases hi with hv | hn
  · rw [divTF_eq]
    exact inv_of_renormPre (div_WF _ _) (div_WF _ _) (h hv)
  · exact ⟨Or.inr (divTF_hi_not_finite c hn), by rw [divTF_eq]; exact fast_two_sum_WF _ _⟩

/-- `TwoFloat / TwoFloat` and `f64 / TwoFloat` end in `renorm3 q1 q2 q3`, whose last step is
`fast_two_sum (q3 ⊕ (q1 ⊕ q2)) (u.lo ⊕ v.lo)`; conditional form for any three quotient words -/
theorem renorm3_inv_partial (q1 q2 q3 : F64)
    (h : RenormPre (F64.add q3 (F64.add q1 q2))
      (F64.add (arithmetic.fast_two_sum q1 q2).lo (arithmetic.fast_two_sum q3 (F64.add q1 q2)).lo)) :
    (arithmetic.renorm3 q1 q2 q3).Inv ∧ (arithmetic.renorm3 q1 q2 q3).WF := by
  rw [renorm3_eq]
  exact inv_of_renormPre (add_WF _ _) (add_WF _ _) h

theorem divTT_eq_renorm3 (a b : TwoFloat) :
    ∃ q1 q2 q3 : F64, divTT a b = arithmetic.renorm3 q1 q2 q3 ∧ q1 = F64.div a.hi b.hi := ⟨_, _, _, rfl, rfl⟩

theorem divFT_eq_renorm3 (c : F64) (b : TwoFloat) :
    ∃ q1 q2 q3 : F64, divFT c b = arithmetic.renorm3 q1 q2 q3 ∧ q1 = F64.div c b.hi := ⟨_, _, _, rfl, rfl⟩

/-- `TwoFloat / TwoFloat`, conditional form: whatever the three quotient words `q1 = a.hi ⊘ b.hi`, `q2`, `q3` computed
by the long division are, the invariant holds if they satisfy the precondition of `renorm3`'s last Fast2Sum.
Full statement (OPEN): the precondition holds for all well-formed operands satisfying `Inv`. -/
theorem div_tt_inv_partial (a b : TwoFloat)
    (h : ∀ q1 q2 q3 : F64, divTT a b = arithmetic.renorm3 q1 q2 q3 →
      RenormPre (F64.add q3 (F64.add q1 q2))
        (F64.add (arithmetic.fast_two_sum q1 q2).lo (arithmetic.fast_two_sum q3 (F64.add q1 q2)).lo)) :
    (divTT a b).Inv ∧ (divTT a b).WF := by
  obtain ⟨q1, q2, q3, e, -⟩ := divTT_eq_renorm3 a b
  rw [e]; exact renorm3_inv_partial q1 q2 q3 (h q1 q2 q3 e)

/-- `f64 / TwoFloat` (and `recip`), conditional form -/
theorem div_f64_tt_inv_partial (c : F64) (b : TwoFloat)
    (h : ∀ q1 q2 q3 : F64, divFT c b = arithmetic.renorm3 q1 q2 q3 →
      RenormPre (F64.add q3 (F64.add q1 q2))
        (F64.add (arithmetic.fast_two_sum q1 q2).lo (arithmetic.fast_two_sum q3 (F64.add q1 q2)).lo)) :
    (divFT c b).Inv ∧ (divFT c b).WF := by
  obtain ⟨q1, q2, q3, e, -⟩ := divFT_eq_renorm3 c b
  rw [e]; exact renorm3_inv_partial q1 q2 q3 (h q1 q2 q3 e)

/-! ### TwoFloat × f64 (DWTimesFP): unconditional -/

/-- **`TwoFloat * f64` preserves the invariant** — every well-formed `Inv` pair, EVERY double (any magnitude, `inf`,
`NaN`).  In particular in the underflow range, where 2Prod is NOT error-free and `new_mul` itself breaks the invariant
(`new_mul_breaks_inv`): the magnitudes still satisfy `|cl3| ≤ |ch|` (or `ch = 0`), so the closing Fast2Sum repairs
the pair. -/
theorem mul_tf_f64_inv {t : TwoFloat} (c : F64) (hi : t.Inv) :
    (mulTF t c).Inv ∧ (mulTF t c).WF := by
  rw [mulTF_eq]
  refine ⟨?_, fast_two_sum_WF _ _⟩
  rcases hi with hv | hn
  · exact dw_mul_core_inv hv.two_mul_abs_lo_le
  · rw [← mulTF_eq]; exact Or.inr (mulTF_hi_not_finite (Or.inl hn))

/-- `f64 * TwoFloat` -/
theorem mul_f64_tf_inv {t : TwoFloat} (c : F64) (hi : t.Inv) :
    (mulFT c t).Inv ∧ (mulFT c t).WF := by
  rw [mulFT_eq]; exact mul_tf_f64_inv c hi

theorem mul_tf_f64_inv' {t : TwoFloat} (c : F64) (hi : t.Inv) :
    (t *. c).Inv ∧ (c *. t).Inv ∧ (arithmetic.impl_MulAssign_rf64_for_TwoFloat.mul_assign t c).Inv :=
  ⟨(mul_tf_f64_inv c hi).1, (mul_f64_tf_inv c hi).1, (mul_tf_f64_inv c hi).1⟩

/-! ### TwoFloat × TwoFloat (the crate's DWTimesDW with three FMAs): unconditional -/

/-- **`TwoFloat * TwoFloat` preserves the invariant** — all well-formed `Inv` operands, any magnitudes.  Proof by
magnitudes only (no exactness of 2Prod needed): `|cl3| ≤ |ch|` always. -/
theorem mul_tt_inv {a b : TwoFloat} (hia : a.Inv) (hib : b.Inv) : (mulTT a b).Inv ∧ (mulTT a b).WF := by
  refine ⟨?_, by rw [mulTT_eq]; exact fast_two_sum_WF _ _⟩
  rcases hia with ha | ha
  · rcases hib with hb | hb
    · rw [mulTT_eq]
      exact dw_mul_tt_core_inv ha.two_mul_abs_lo_le hb.two_mul_abs_lo_le
    · exact Or.inr (mulTT_hi_not_finite (Or.inr hb))
  · exact Or.inr (mulTT_hi_not_finite (Or.inl ha))

theorem mul_tt_inv' {a b : TwoFloat} (hia : a.Inv) (hib : b.Inv) :
    (a *. b).Inv ∧ (arithmetic.impl_MulAssign_rTwoFloat_for_TwoFloat.mul_assign a b).Inv :=
  ⟨(mul_tt_inv hia hib).1, (mul_tt_inv hia hib).1⟩

/-! ### TwoFloat ± TwoFloat (AccurateDWPlusDW): unconditional -/

/-- **`TwoFloat + TwoFloat` preserves the invariant** — all well-formed `Inv` operands, any magnitudes.  Both 2Sums are
error-free or poison the result (`new_add_words_of_lo_finite`); the two Fast2Sum preconditions are `dwplusdw_pre`
(cancellation case: the high sum is exact and `sh` is a multiple of `ulp(th)`; otherwise `|c| ≤ |sh|/2`). -/
theorem add_tt_inv {a b : TwoFloat} (hwa : a.WF) (hwb : b.WF) (hia : a.Inv) (hib : b.Inv) :
    (addTT a b).Inv ∧ (addTT a b).WF := by
  refine ⟨?_, by rw [addTT_eq]; exact fast_two_sum_WF _ _⟩
  rcases hia with ha | ha
  · rcases hib with hb | hb
    · rw [addTT_eq]
      exact dw_add_tt_core_inv hwa.1 hwa.2 hwb.1 hwb.2 ha.two_mul_abs_lo_le hb.two_mul_abs_lo_le
    · exact Or.inr (addTT_hi_not_finite (Or.inr hb))
  · exact Or.inr (addTT_hi_not_finite (Or.inl ha))

/-- **`TwoFloat − TwoFloat` preserves the invariant**, unconditionally -/
theorem sub_tt_inv {a b : TwoFloat} (hwa : a.WF) (hwb : b.WF) (hia : a.Inv) (hib : b.Inv) :
    (subTT a b).Inv ∧ (subTT a b).WF := by
  refine ⟨?_, by rw [subTT_eq]; exact fast_two_sum_WF _ _⟩
  rcases hia with ha | ha
  · rcases hib with hb | hb
    · rw [subTT_eq]
      exact dw_sub_tt_core_inv hwa.1 hwa.2 hwb.1 hwb.2 ha.two_mul_abs_lo_le hb.two_mul_abs_lo_le
    · exact Or.inr (subTT_hi_not_finite (Or.inr hb))
  · exact Or.inr (subTT_hi_not_finite (Or.inl ha))

theorem add_tt_inv' {a b : TwoFloat} (hwa : a.WF) (hwb : b.WF) (hia : a.Inv) (hib : b.Inv) :
    (a +. b).Inv ∧ (a -. b).Inv ∧
    (arithmetic.impl_AddAssign_rTwoFloat_for_TwoFloat.add_assign a b).Inv ∧
    (arithmetic.impl_SubAssign_rTwoFloat_for_TwoFloat.sub_assign a b).Inv ∧
    (num_integration.impl_Signed_for_TwoFloat.abs_sub a b).Inv :=
  ⟨(add_tt_inv hwa hwb hia hib).1, (sub_tt_inv hwa hwb hia hib).1, (add_tt_inv hwa hwb hia hib).1,
    (sub_tt_inv hwa hwb hia hib).1,
    (abs_inv (sub_tt_inv hwa hwb hia hib).2 (sub_tt_inv hwa hwb hia hib).1).1⟩

/-! ### TwoFloat / f64 (DWDivFP): proved when the first quotient is not subnormal -/

/-- **`TwoFloat / f64` preserves the invariant whenever `|hi / rhs| ≥ 2^-1021`** (scaled: `2^53·|rhs| ≤ |hi|·2^1074`;
this includes `rhs = ±0`, `±inf`, `NaN`, for which `toInt = 0`).  No other restriction: overflow of the quotient,
underflow of the 2Prod residual, non-finite `self` are all covered.  Open: quotients in the subnormal range
(there `|tl| ≤ |th|` holds without any slack — e.g. `th·y` rounds to `0` and `tl = th` — so magnitudes alone do not
suffice); no counterexample was found by random search. -/
theorem div_tf_f64_inv_of_normal_quotient {t : TwoFloat} (c : F64) (hw : t.WF) (hi : t.Inv)
    (hq : 2 ^ 53 * |c.toInt| ≤ |t.hi.toInt| * (F64.unit : Int)) :
    (divTF t c).Inv ∧ (divTF t c).WF := by
  refine ⟨?_, by rw [divTF_eq]; exact fast_two_sum_WF _ _⟩
  rcases hi with hv | hn
  · rw [divTF_eq]
    exact dw_div_core_inv hw.1 hv.two_mul_abs_lo_le hq
  · exact Or.inr (divTF_hi_not_finite c hn)

/-- division by zero, infinity or NaN: always a non-finite marker or a valid pair -/
theorem div_tf_f64_inv_of_degenerate {t : TwoFloat} (c : F64) (hw : t.WF) (hi : t.Inv) (hc : c.toInt = 0) :
    (divTF t c).Inv ∧ (divTF t c).WF :=
  div_tf_f64_inv_of_normal_quotient c hw hi (by
    rw [hc, abs_zero, mul_zero]
    exact mul_nonneg (abs_nonneg _) (Int.natCast_nonneg _))

/-! ### derived API: compositions of the unconditionally proved operations -/

theorem to_radians_inv {t : TwoFloat} (hi : t.Inv) : (TwoFloat.to_radians t).Inv ∧ (TwoFloat.to_radians t).WF :=
  mul_tt_inv hi (Or.inl C12.Valid_RAD_PER_DEG)

theorem to_degrees_inv {t : TwoFloat} (hi : t.Inv) : (TwoFloat.to_degrees t).Inv ∧ (TwoFloat.to_degrees t).WF :=
  mul_tt_inv hi (Or.inl C12.Valid_DEG_PER_RAD)

/-- `Float::mul_add(self, a, b) = self * a + b` -/
theorem mul_add_inv {x a b : TwoFloat} (hwb : b.WF) (hx : x.Inv) (ha : a.Inv) (hb : b.Inv) :
    (num_integration.impl_Float_for_TwoFloat.mul_add x a b).Inv ∧
    (num_integration.impl_Float_for_TwoFloat.mul_add x a b).WF :=
  add_tt_inv (mul_tt_inv hx ha).2 hwb (mul_tt_inv hx ha).1 hb

/-- `Sum` over TwoFloats: `iter.fold(zero, |a, b| a + b)` -/
theorem sum_tt_inv (l : List TwoFloat) (h : ∀ t ∈ l, t.WF ∧ t.Inv) :
    (iter.impl_Sum_T_for_TwoFloat.sum l).Inv ∧ (iter.impl_Sum_T_for_TwoFloat.sum l).WF := by
  unfold iter.impl_Sum_T_for_TwoFloat.sum
  have key : ∀ (l : List TwoFloat) (acc : TwoFloat), acc.Inv ∧ acc.WF → (∀ t ∈ l, t.WF ∧ t.Inv) →
      (List.foldl (fun a b => a +. b) acc l).Inv ∧ (List.foldl (fun a b => a +. b) acc l).WF := by
    intro l
    induction l with
    | nil => intro acc ha _; exact ha
    | cons t l ih =>
      intro acc ha hl
      rw [List.foldl_cons]
      apply ih
      · exact add_tt_inv ha.2 (hl t (List.mem_cons_self ..)).1 ha.1 (hl t (List.mem_cons_self ..)).2
      · exact fun u hu => hl u (List.mem_cons_of_mem _ hu)
  exact key l _ ⟨Or.inl zero_inv.1, zero_inv.2⟩ h

/-- `Sum` over doubles -/
theorem sum_f64_inv (l : List F64) (h : ∀ c ∈ l, c.WF) :
    (iter.impl_Sum_T_for_TwoFloat.sum l).Inv ∧ (iter.impl_Sum_T_for_TwoFloat.sum l).WF := by
  unfold iter.impl_Sum_T_for_TwoFloat.sum
  have key : ∀ (l : List F64) (acc : TwoFloat), acc.Inv ∧ acc.WF → (∀ c ∈ l, c.WF) →
      (List.foldl (fun (a : TwoFloat) (b : F64) => a +. b) acc l).Inv ∧
        (List.foldl (fun (a : TwoFloat) (b : F64) => a +. b) acc l).WF := by
    intro l
    induction l with
    | nil => intro acc ha _; exact ha
    | cons c l ih =>
      intro acc ha hl
      rw [List.foldl_cons]
      apply ih
      · exact add_tf_f64_inv c ha.2 (hl c (List.mem_cons_self ..)) ha.1
      · exact fun u hu => hl u (List.mem_cons_of_mem _ hu)
  exact key l _ ⟨Or.inl zero_inv.1, zero_inv.2⟩ h

/-- the square-and-multiply loop of `powi` keeps both accumulators in the invariant -/
theorem powi_loop_inv (fuel : Nat) (r v : TwoFloat) (n : U32) (hr : r.Inv ∧ r.WF) (hv : v.Inv ∧ v.WF) :
    (TwoFloat.powi.loop1 fuel r v n).1.Inv ∧ (TwoFloat.powi.loop1 fuel r v n).1.WF := by
  induction fuel generalizing r v n with
  | zero => exact hr
  | succ k ih =>
    unfold TwoFloat.powi.loop1
    split_ifs
    · apply ih
      · exact mul_tt_inv hr.1 hv.1
      · exact mul_tt_inv hv.1 hv.1
    · apply ih
      · exact hr
      · exact mul_tt_inv hv.1 hv.1
    · exact hr

/-- **`powi` with a non-negative exponent** (negative exponents go through `recip`, i.e. `f64 / TwoFloat`) -/
theorem powi_inv_of_nonneg {t : TwoFloat} (n : I32) (hn : 0 ≤ n.v) (hw : t.WF) (hi : t.Inv) :
    (TwoFloat.powi t n).Inv ∧ (TwoFloat.powi t n).WF := by
  have h1 := from_inv (x := f64lit 0x3ff0000000000000) (by decide +kernel)
  unfold TwoFloat.powi
  split_ifs with h0 hz h1' hm1 hpos
  · decide +kernel
  · exact h1
  · exact ⟨hi, hw⟩
  · exfalso
    have : n.v = -1 := by
      have := hm1
      simp only [RPartialEq.eq, IntN.beq, decide_eq_true_eq] at this
      exact this
    omega
  · have key := powi_loop_inv 33 _ t (IntN.unsigned_abs n) h1 ⟨hi, hw⟩
    dsimp only
    rcases hp : TwoFloat.powi.loop1 33 (convert.impl_From_f64_for_TwoFloat.from (f64lit 0x3ff0000000000000)) t
      (IntN.unsigned_abs n) with ⟨r, v, m⟩
    rw [hp] at key
    exact key
  · exfalso
    have hne : ¬ n.v = 0 := by
      intro hc
      apply h0
      simp only [RPartialEq.eq, IntN.beq, decide_eq_true_eq]
      exact hc
    apply hpos
    show (match RPartialOrd.partial_cmp n (0 : I32) with | some .Greater => true | _ => false) = true
    simp only [RPartialOrd.partial_cmp]
    have h0' : ¬ n.v < (0 : I32).v := by show ¬ n.v < 0; omega
    have h1'' : ¬ n.v = (0 : I32).v := hne
    simp [h0', h1'']

/-! ## §6 arbitrary chains of operations -/

/-- the library's named constants -/
inductive Konst where
  | E | FRAC_1_PI | FRAC_2_PI | FRAC_2_SQRT_PI | FRAC_1_SQRT_2 | FRAC_PI_2 | FRAC_PI_3 | FRAC_PI_4 | FRAC_PI_6
  | FRAC_PI_8 | LN_2 | LN_10 | LOG2_E | LOG10_E | LOG10_2 | LOG2_10 | PI | SQRT_2 | TAU
  | MIN | MAX | MIN_POSITIVE | EPSILON | NAN | INFINITY | NEG_INFINITY | ZERO | ONE | DEFAULT
deriving DecidableEq, Repr

def Konst.val : Konst → TwoFloat
  | .E => consts.E | .FRAC_1_PI => consts.FRAC_1_PI | .FRAC_2_PI => consts.FRAC_2_PI
  | .FRAC_2_SQRT_PI => consts.FRAC_2_SQRT_PI | .FRAC_1_SQRT_2 => consts.FRAC_1_SQRT_2
  | .FRAC_PI_2 => consts.FRAC_PI_2 | .FRAC_PI_3 => consts.FRAC_PI_3 | .FRAC_PI_4 => consts.FRAC_PI_4
  | .FRAC_PI_6 => consts.FRAC_PI_6 | .FRAC_PI_8 => consts.FRAC_PI_8 | .LN_2 => consts.LN_2
  | .LN_10 => consts.LN_10 | .LOG2_E => consts.LOG2_E | .LOG10_E => consts.LOG10_E
  | .LOG10_2 => consts.LOG10_2 | .LOG2_10 => consts.LOG2_10 | .PI => consts.PI | .SQRT_2 => consts.SQRT_2
  | .TAU => consts.TAU
  | .MIN => TwoFloat.MIN | .MAX => TwoFloat.MAX | .MIN_POSITIVE => TwoFloat.MIN_POSITIVE
  | .EPSILON => TwoFloat.EPSILON | .NAN => TwoFloat.NAN | .INFINITY => TwoFloat.INFINITY
  | .NEG_INFINITY => TwoFloat.NEG_INFINITY
  | .ZERO => num_integration.impl_Zero_for_TwoFloat.zero | .ONE => num_integration.impl_One_for_TwoFloat.one
  | .DEFAULT => lib.impl_Default_for_TwoFloat.default

theorem konst_inv (k : Konst) : k.val.WF ∧ k.val.Inv := by
  cases k <;> decide +kernel

/-- expressions over the operations whose invariant preservation is proved unconditionally.  `lit c` is
`TwoFloat::from(c)`; the binary operations with an `f64` take an arbitrary double literal. -/
inductive Expr where
  | var (i : Nat)
  | const (k : Konst)
  | lit (c : F64)
  | litF32 (c : F32)
  | neg (e : Expr) | abs (e : Expr) | signum (e : Expr)
  | floor (e : Expr) | ceil (e : Expr) | trunc (e : Expr) | round (e : Expr) | fract (e : Expr)
  | min (a b : Expr) | max (a b : Expr) | copysign (a b : Expr)
  | addF (e : Expr) (c : F64) | faddT (c : F64) (e : Expr)
  | subF (e : Expr) (c : F64) | fsubT (c : F64) (e : Expr)
  | mulF (e : Expr) (c : F64) | fmulT (c : F64) (e : Expr)
  | add (a b : Expr) | sub (a b : Expr) | mul (a b : Expr)

/-- evaluation with the generated model functions -/
def Expr.eval (env : Nat → TwoFloat) : Expr → TwoFloat
  | .var i => env i
  | .const k => k.val
  | .lit c => convert.impl_From_f64_for_TwoFloat.from c
  | .litF32 c => convert.impl_From_f32_for_TwoFloat.from c
  | .neg e => arithmetic.impl_Neg_for_TwoFloat.neg (e.eval env)
  | .abs e => TwoFloat.abs (e.eval env)
  | .signum e => TwoFloat.signum (e.eval env)
  | .floor e => TwoFloat.floor (e.eval env)
  | .ceil e => TwoFloat.ceil (e.eval env)
  | .trunc e => TwoFloat.trunc (e.eval env)
  | .round e => TwoFloat.round (e.eval env)
  | .fract e => TwoFloat.fract (e.eval env)
  | .min a b => TwoFloat.min (a.eval env) (b.eval env)
  | .max a b => TwoFloat.max (a.eval env) (b.eval env)
  | .copysign a b => TwoFloat.copysign (a.eval env) (b.eval env)
  | .addF e c => (e.eval env) +. c
  | .faddT c e => c +. (e.eval env)
  | .subF e c => (e.eval env) -. c
  | .fsubT c e => c -. (e.eval env)
  | .mulF e c => (e.eval env) *. c
  | .fmulT c e => c *. (e.eval env)
  | .add a b => (a.eval env) +. (b.eval env)
  | .sub a b => (a.eval env) -. (b.eval env)
  | .mul a b => (a.eval env) *. (b.eval env)

/-- all `f64` / `f32` literals of an expression are bit patterns of doubles -/
def Expr.LitsWF : Expr → Prop
  | .var _ => True
  | .const _ => True
  | .lit c => c.WF
  | .litF32 c => c.v.WF
  | .neg e | .abs e | .signum e | .floor e | .ceil e | .trunc e | .round e | .fract e => e.LitsWF
  | .min a b | .max a b | .copysign a b | .add a b | .sub a b | .mul a b => a.LitsWF ∧ b.LitsWF
  | .addF e c | .faddT c e | .subF e c | .fsubT c e | .mulF e c | .fmulT c e => e.LitsWF ∧ c.WF

def Expr.decLitsWF : (e : Expr) → Decidable e.LitsWF
  | .var _ => isTrue trivial
  | .const _ => isTrue trivial
  | .lit c => inferInstanceAs (Decidable c.WF)
  | .litF32 c => inferInstanceAs (Decidable c.v.WF)
  | .neg e | .abs e | .signum e | .floor e | .ceil e | .trunc e | .round e | .fract e => decLitsWF e
  | .min a b | .max a b | .copysign a b | .add a b | .sub a b | .mul a b => @instDecidableAnd _ _ (decLitsWF a) (decLitsWF b)
  | .addF e c | .faddT c e | .subF e c | .fsubT c e | .mulF e c | .fmulT c e =>
    @instDecidableAnd _ _ (decLitsWF e) (inferInstanceAs (Decidable c.WF))

instance (e : Expr) : Decidable e.LitsWF := e.decLitsWF

/-- **C01, chains of calls.**  Starting from well-formed operands satisfying the invariant, every expression built
from `from`, the constants, `-x`, `abs`, `signum`, `floor`, `ceil`, `trunc`, `round`, `fract`, `min`, `max`, `copysign`,
`x ± c`, `c ± x`, `x * c`, `c * x` (with `c : f64` arbitrary, including huge, subnormal, infinite and NaN values) and
`x + y`, `x − y`, `x * y`
evaluates to a well-formed `TwoFloat` satisfying the invariant: valid, or with a non-finite high word. -/
theorem eval_inv (e : Expr) (env : Nat → TwoFloat) (hl : e.LitsWF)
    (henv : ∀ i, (env i).WF ∧ (env i).Inv) : (e.eval env).WF ∧ (e.eval env).Inv := by
  induction e with
  | var i => exact henv i
  | const k => exact konst_inv k
  | lit c => exact ⟨(from_inv hl).2, (from_inv hl).1⟩
  | litF32 c => exact ⟨(from_f32_inv hl).2, (from_f32_inv hl).1⟩
  | neg e ih => have := neg_inv' (ih hl).1 (ih hl).2; exact ⟨this.2, this.1⟩
  | abs e ih => have := abs_inv (ih hl).1 (ih hl).2; exact ⟨this.2, this.1⟩
  | signum e _ => exact ⟨(signum_inv _).2, (signum_inv _).1⟩
  | floor e ih => have := floor_inv (ih hl).1 (ih hl).2; exact ⟨this.2, this.1⟩
  | ceil e ih => have := ceil_inv (ih hl).1 (ih hl).2; exact ⟨this.2, this.1⟩
  | trunc e ih => have := trunc_inv (ih hl).1 (ih hl).2; exact ⟨this.2, this.1⟩
  | round e ih => have := round_inv (ih hl).1 (ih hl).2; exact ⟨this.2, this.1⟩
  | fract e ih => have := fract_inv (ih hl).1 (ih hl).2; exact ⟨this.2, this.1⟩
  | min a b iha ihb =>
    have := min_inv (iha hl.1).1 (iha hl.1).2 (ihb hl.2).1 (ihb hl.2).2; exact ⟨this.2, this.1⟩
  | max a b iha ihb =>
    have := max_inv (iha hl.1).1 (iha hl.1).2 (ihb hl.2).1 (ihb hl.2).2; exact ⟨this.2, this.1⟩
  | copysign a b iha _ =>
    have := copysign_inv (b.eval env) (iha hl.1).1 (iha hl.1).2; exact ⟨this.2, this.1⟩
  | addF e c ih => have := add_tf_f64_inv c (ih hl.1).1 hl.2 (ih hl.1).2; exact ⟨this.2, this.1⟩
  | faddT c e ih => have := add_f64_tf_inv c (ih hl.1).1 hl.2 (ih hl.1).2; exact ⟨this.2, this.1⟩
  | subF e c ih => have := sub_tf_f64_inv c (ih hl.1).1 hl.2 (ih hl.1).2; exact ⟨this.2, this.1⟩
  | fsubT c e ih => have := sub_f64_tf_inv c (ih hl.1).1 hl.2 (ih hl.1).2; exact ⟨this.2, this.1⟩
  | mulF e c ih => have := mul_tf_f64_inv c (ih hl.1).2; exact ⟨this.2, this.1⟩
  | fmulT c e ih => have := mul_f64_tf_inv c (ih hl.1).2; exact ⟨this.2, this.1⟩
  | add a b iha ihb =>
    have := add_tt_inv (iha hl.1).1 (ihb hl.2).1 (iha hl.1).2 (ihb hl.2).2; exact ⟨this.2, this.1⟩
  | sub a b iha ihb =>
    have := sub_tt_inv (iha hl.1).1 (ihb hl.2).1 (iha hl.1).2 (ihb hl.2).2; exact ⟨this.2, this.1⟩
  | mul a b iha ihb => have := mul_tt_inv (iha hl.1).2 (ihb hl.2).2; exact ⟨this.2, this.1⟩

/-- in the words of the property: along any such chain a finite high word is never paired with an infinite, NaN or
overlapping low word -/
theorem eval_never_bad (e : Expr) (env : Nat → TwoFloat) (hl : e.LitsWF)
    (henv : ∀ i, (env i).WF ∧ (env i).Inv) (hf : (e.eval env).hi.is_finite = true) :
    (e.eval env).lo.is_finite = true ∧ F64.addEq (e.eval env).hi (e.eval env).lo = true ∧
      TwoFloat.is_valid (e.eval env) = true := by
  obtain ⟨hw, hi⟩ := eval_inv e env hl henv
  have h := hi.lo_of_finite hf
  exact ⟨h.1, h.2, (C07.is_valid_iff _ hw).2 ⟨hf, h.1, h.2⟩⟩

/-! ## §7 non-vacuity: concrete instances evaluated by the kernel -/

section examples

/-- 1 -/
def f1 : F64 := f64lit 0x3ff0000000000000
/-- 0.1 -/
def tenth : F64 := f64lit 0x3fb999999999999a
/-- 3 -/
def three : F64 := f64lit 0x4008000000000000
/-- f64::MAX -/
def fmax : F64 := f64lit 0x7fefffffffffffff
/-- the smallest subnormal -/
def tiny : F64 := f64lit 0x0000000000000001
/-- −(1 − 2^-53), the double just above −1 -/
def almostNegOne : F64 := f64lit 0xbfefffffffffffff
/-- (1, 2^-54): valid with a non-zero low word -/
def x1 : TwoFloat := ⟨f1, f64lit 0x3c90000000000000⟩
/-- (inf, 1): a non-finite marker with finite junk in the low word -/
def xInfJunk : TwoFloat := ⟨F64.inf false, f1⟩
/-- (NaN, 0.1) -/
def xNanJunk : TwoFloat := ⟨F64.nan, tenth⟩

example : x1.Valid ∧ x1.WF ∧ x1.lo.toInt ≠ 0 := by decide +kernel
example : xInfJunk.Inv ∧ xInfJunk.WF ∧ ¬ xInfJunk.Valid := by decide +kernel
example : consts.PI.Inv ∧ consts.PI.WF := by decide +kernel

-- §1: Fast2Sum with overflow: the hypotheses of `fast_two_sum_inv` hold and the result is `(+inf, -inf)`
example : fmax.WF ∧ arithmetic.fast_two_sum fmax fmax = ⟨F64.inf false, F64.inf true⟩ := by decide +kernel
example : (arithmetic.fast_two_sum fmax fmax).Inv :=
  (fast_two_sum_inv fmax fmax (by decide +kernel) (by decide +kernel) (Or.inr (le_refl _))).1
-- … with an infinite operand
example : (arithmetic.fast_two_sum (F64.inf true) f1).Inv :=
  (fast_two_sum_inv _ _ (by decide +kernel) (by decide +kernel) (Or.inl (by decide +kernel))).1

-- §2: abs / copysign / min on a marker with junk in the low word keep the marker
example : TwoFloat.abs (tneg xInfJunk) = xInfJunk ∧ (TwoFloat.abs (tneg xInfJunk)).Inv := by decide +kernel
example : TwoFloat.copysign xInfJunk (tneg x1) = ⟨F64.inf true, F64.neg f1⟩ := by decide +kernel
example : TwoFloat.min xNanJunk x1 = x1 ∧ TwoFloat.max x1 xInfJunk = x1 := by decide +kernel
example : TwoFloat.signum xInfJunk = TwoFloat.NAN ∧ TwoFloat.signum (tneg x1) = ⟨F64.neg f1, f64lit 0⟩ := by
  decide +kernel

-- §4: rounding functions on markers
example : TwoFloat.floor xInfJunk = xInfJunk ∧ (TwoFloat.round xNanJunk).hi = F64.nan := by decide +kernel
/-- `fract(+inf, 0.1)` is the VALID pair `0.1`-ish … precisely: `lo_fract = 0.1 ≠ 0`, `hi_fract = +0`, and
`(hi ≥ 0, lo ≥ 0) = (true, true)` selects `from(fract(lo))` -/
example : TwoFloat.fract ⟨F64.inf false, tenth⟩ = ⟨tenth, f64lit 0⟩ ∧
    (TwoFloat.fract ⟨F64.inf false, tenth⟩).Valid := by decide +kernel
/-- `fract(+inf, -0.1) = Fast2Sum(1, -0.1)` -/
example : (TwoFloat.fract ⟨F64.inf false, F64.neg tenth⟩).Valid ∧
    (TwoFloat.fract ⟨F64.inf false, F64.neg tenth⟩).hi = f64lit 0x3feccccccccccccd := by decide +kernel

-- §5: DWPlusFP with massive cancellation: (1, 2^-54) + (−(1 − 2^-53)): `sh = 2^-53`, `v = 2^-54`
example : (addTF x1 almostNegOne).Valid ∧ (addTF x1 almostNegOne).V = x1.V + almostNegOne.toInt ∧
    (addTF x1 almostNegOne).lo.toInt = 0 := by decide +kernel
-- overflow: (MAX, 0) + MAX = (NaN, NaN) — the overflow marker is a NaN, not +inf (2Sum computes inf − inf)
example : addTF ⟨fmax, f64lit 0⟩ fmax = ⟨F64.nan, F64.nan⟩ ∧ (addTF ⟨fmax, f64lit 0⟩ fmax).Inv := by decide +kernel
example : (addTF ⟨fmax, f64lit 0⟩ fmax).Inv :=
  (add_tf_f64_inv fmax (by decide +kernel) (by decide +kernel) (by decide +kernel)).1
-- infinite and NaN right operands: π − inf is NaN (not −inf), π · NaN is NaN
example : (subTF consts.PI (F64.inf false)).hi = F64.nan ∧ (mulTF consts.PI F64.nan).hi = F64.nan := by
  decide +kernel
-- subnormal products: PI * 2^-1074 is the valid pair (3·2^-1074, 0); (2^-1074, 0) * 0.1 = (+0, +0)
example : mulTF consts.PI tiny = ⟨f64lit 0x0000000000000003, f64lit 0⟩ ∧ (mulTF consts.PI tiny).Valid := by
  decide +kernel
example : (mulTF ⟨tiny, f64lit 0⟩ tenth).Valid ∧ (mulTF ⟨tiny, f64lit 0⟩ tenth).V = 0 := by decide +kernel

-- §6: a chain: floor(|−π + 0.1| * 3) − max(e, 1 + 2^-54)·… evaluated and covered by `eval_inv`
def chain : Expr :=
  .fsubT three (.mulF (.max (.floor (.mulF (.abs (.addF (.neg (.const .PI)) tenth)) three)) (.var 0)) tenth)

example : chain.LitsWF := by decide +kernel
example : (chain.eval (fun _ => x1)).Valid ∧ (chain.eval (fun _ => x1)).lo.toInt ≠ 0 := by decide +kernel
example : (chain.eval (fun _ => x1)).WF ∧ (chain.eval (fun _ => x1)).Inv :=
  eval_inv chain _ (by decide +kernel) (fun _ => by decide +kernel)
-- the same chain with a marker for `var 0`: `max` skips the invalid operand, the result is finite (and valid)
example : (chain.eval (fun _ => xInfJunk)).hi.is_finite = true := by decide +kernel
example : ((Expr.addF (.mulF (.var 0) three) tenth).eval (fun _ => xInfJunk)).hi = F64.nan := by decide +kernel
-- a chain that overflows on the way: MAX * 3 = (NaN, NaN), and it stays a marker
example : ((Expr.mulF (.const .MAX) three).eval (fun _ => x1)) = ⟨F64.nan, F64.nan⟩ ∧
    ((Expr.subF (.mulF (.const .MAX) three) tenth).eval (fun _ => x1)).hi = F64.nan := by
  decide +kernel

-- TwoFloat ± × TwoFloat
example : (addTT consts.PI consts.E).Valid ∧ (addTT consts.PI consts.E).lo.toInt ≠ 0 ∧
    (mulTT consts.PI consts.E).Valid ∧ (mulTT consts.PI consts.E).lo.toInt ≠ 0 := by decide +kernel
-- exact cancellation and cancellation down to the low words: π − π = 0, (1, 2^-54) − (1, 0) = (2^-54, 0)
example : subTT consts.PI consts.PI = ⟨f64lit 0, f64lit 0⟩ ∧
    subTT x1 ⟨f1, f64lit 0⟩ = ⟨f64lit 0x3c90000000000000, f64lit 0⟩ := by decide +kernel
-- overflow and underflow: MAX + MAX is a NaN marker, MIN_POSITIVE² is the valid pair (0, 0)
example : (addTT TwoFloat.MAX TwoFloat.MAX).hi = F64.nan ∧
    mulTT TwoFloat.MIN_POSITIVE TwoFloat.MIN_POSITIVE = ⟨f64lit 0, f64lit 0⟩ := by decide +kernel
example : (mulTT TwoFloat.MIN_POSITIVE TwoFloat.MIN_POSITIVE).Inv :=
  (mul_tt_inv (Or.inl C12.Valid_MIN_POSITIVE) (Or.inl C12.Valid_MIN_POSITIVE)).1
-- a product in the underflow range where 2Prod is inexact: (1.375·2^-1021, 0) * (1 + 2^-52, 2^-106)
example : (mulTT ⟨f64lit 0x0026000000000000, f64lit 0⟩ ⟨f64lit 0x3ff0000000000001, f64lit 0x3950000000000000⟩).Valid ∧
    ¬ (TwoFloat.new_mul (f64lit 0x0026000000000000) (f64lit 0x3ff0000000000001)).Valid := by decide +kernel
-- division with a normal quotient: π / 3
example : 2 ^ 53 * |three.toInt| ≤ |consts.PI.hi.toInt| * (F64.unit : Int) := by decide +kernel
example : (divTF consts.PI three).Inv :=
  (div_tf_f64_inv_of_normal_quotient three (by decide +kernel) (by decide +kernel) (by decide +kernel)).1
example : (divTF consts.PI three).Valid ∧ (divTF consts.PI three).lo.toInt ≠ 0 := by decide +kernel
-- division by zero and by infinity: markers
example : (divTF consts.PI (f64lit 0)).hi = F64.nan ∧ (divTF consts.PI (F64.inf false)).hi = F64.nan := by
  decide +kernel
-- a chain with TwoFloat-TwoFloat operations: (x·x − π·e) + x, from a valid start and from a marker
def chain2 : Expr := .add (.sub (.mul (.var 0) (.var 0)) (.mul (.const .PI) (.const .E))) (.var 0)
example : (chain2.eval (fun _ => x1)).Valid ∧ (chain2.eval (fun _ => x1)).lo.toInt ≠ 0 := by decide +kernel
example : (chain2.eval (fun _ => xInfJunk)).hi.is_finite = false ∧ (chain2.eval (fun _ => xInfJunk)).Inv :=
  ⟨by decide +kernel, (eval_inv chain2 _ (by decide +kernel) (fun _ => by decide +kernel)).2⟩
-- powi
example : (TwoFloat.powi consts.PI (5 : I32)).Valid ∧ (TwoFloat.powi TwoFloat.MAX (2 : I32)).hi = F64.nan := by
  decide +kernel

end examples

end C01
