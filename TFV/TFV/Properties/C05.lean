/-
C05 (structural layer) — division: `recip x = 1.0 / x`, `/=` is `/` (three hand-copied long-division bodies in
the Rust source), the algorithms spelled out, and closed instances.
-/
import TFV.Spec.Defs
import TFV.Lemmas.Ident

namespace C05

/-! ### `recip` -/

theorem recip_eq_one_div (x : TwoFloat) : TwoFloat.recip x = (f64lit 0x3ff0000000000000) /. x := rfl
theorem recip_eq_one_div_impl (x : TwoFloat) :
    TwoFloat.recip x = arithmetic.impl_Div_rTwoFloat_for_rf64.div (f64lit 0x3ff0000000000000) x := rfl
theorem recip_fn : TwoFloat.recip = arithmetic.impl_Div_TwoFloat_for_f64.div (f64lit 0x3ff0000000000000) := rfl
theorem one_lit : f64lit 0x3ff0000000000000 = F64.one := by decide +kernel
theorem inv_eq_recip : num_integration.impl_Inv_for_TwoFloat.inv = TwoFloat.recip := rfl

/-! ### `div_assign = div` -/

theorem div_assign_tt_ref :
    arithmetic.impl_DivAssign_rTwoFloat_for_TwoFloat.div_assign = arithmetic.impl_Div_rTwoFloat_for_rTwoFloat.div := rfl
theorem div_assign_tt_val :
    arithmetic.impl_DivAssign_TwoFloat_for_TwoFloat.div_assign = arithmetic.impl_Div_rTwoFloat_for_rTwoFloat.div := rfl
theorem div_assign_tf_ref :
    arithmetic.impl_DivAssign_rf64_for_TwoFloat.div_assign = arithmetic.impl_Div_rf64_for_rTwoFloat.div := rfl
theorem div_assign_tf_val :
    arithmetic.impl_DivAssign_f64_for_TwoFloat.div_assign = arithmetic.impl_Div_rf64_for_rTwoFloat.div := rfl

theorem div_tt_notation (a b : TwoFloat) : a /. b = arithmetic.impl_Div_rTwoFloat_for_rTwoFloat.div a b := rfl
theorem div_tf_notation (a : TwoFloat) (b : F64) : a /. b = arithmetic.impl_Div_rf64_for_rTwoFloat.div a b := rfl
theorem div_ft_notation (a : F64) (b : TwoFloat) : a /. b = arithmetic.impl_Div_rTwoFloat_for_rf64.div a b := rfl

/-! ### the three long divisions share one shape: q1, q2, q3 from successive remainders, then `renorm3` -/

theorem div_tt_unfold (x y : TwoFloat) :
    x /. y =
      (let q1 := F64.div x.hi y.hi
       let r := x -. (y *. q1)
       let q2 := F64.div r.hi y.hi
       let r := r -. (y *. q2)
       let q3 := F64.div r.hi y.hi
       arithmetic.renorm3 q1 q2 q3) := rfl

theorem div_ft_unfold (f : F64) (y : TwoFloat) :
    f /. y =
      (let q1 := F64.div f y.hi
       let r := f -. (y *. q1)
       let q2 := F64.div r.hi y.hi
       let r := r -. (y *. q2)
       let q3 := F64.div r.hi y.hi
       arithmetic.renorm3 q1 q2 q3) := rfl

/-- DWDivFP3 -/
theorem div_tf_unfold (x : TwoFloat) (f : F64) :
    x /. f =
      (let th := F64.div x.hi f
       let p := TwoFloat.new_mul th f
       let d := F64.add (F64.sub (F64.sub x.hi p.hi) p.lo) x.lo
       arithmetic.fast_two_sum th (F64.div d f)) := rfl

/-- the (f64 / TwoFloat) and (TwoFloat / TwoFloat) divisions differ only in the first remainder -/
theorem div_ft_vs_tt (f : F64) (y : TwoFloat) (h : f -. (y *. F64.div f y.hi) = (⟨f, f64lit 0⟩ : TwoFloat) -. (y *. F64.div f y.hi)) :
    f /. y = (⟨f, f64lit 0⟩ : TwoFloat) /. y := by
  rw [div_ft_unfold, div_tt_unfold]
  simp only [h]

theorem renorm3_unfold (a b c : F64) :
    arithmetic.renorm3 a b c =
      (let u := arithmetic.fast_two_sum a b
       let v := arithmetic.fast_two_sum c u.hi
       arithmetic.fast_two_sum v.hi (F64.add u.lo v.lo)) := rfl

/-! ### closed instances -/

theorem one_div_one :
    (⟨F64.one, F64.zero⟩ : TwoFloat) /. (⟨F64.one, F64.zero⟩ : TwoFloat) = ⟨F64.one, F64.zero⟩ := by
  decide +kernel

theorem recip_one : TwoFloat.recip ⟨F64.one, F64.zero⟩ = ⟨F64.one, F64.zero⟩ := by decide +kernel

theorem recip_two : TwoFloat.recip ⟨f64lit 0x4000000000000000, F64.zero⟩ = ⟨f64lit 0x3fe0000000000000, F64.zero⟩ := by
  decide +kernel

theorem tau_div_two : consts.TAU /. (f64lit 0x4000000000000000) = consts.PI := by decide +kernel
theorem tau_div_pi : consts.TAU /. consts.PI = ⟨f64lit 0x4000000000000000, F64.zero⟩ := by decide +kernel

/-- NOTE (division by zero): unlike f64 (`1.0 / 0.0 = +inf`), a double-double division by zero yields
`TwoFloat::NAN` (both words NaN) for both divisor types — the first partial quotient is +inf but the
correction steps compute `inf · 0`.  The result is flagged invalid, as C01 requires. -/
theorem one_div_zero :
    (⟨F64.one, F64.zero⟩ : TwoFloat) /. (⟨F64.zero, F64.zero⟩ : TwoFloat) = TwoFloat.NAN
    ∧ (⟨F64.one, F64.zero⟩ : TwoFloat) /. F64.zero = TwoFloat.NAN
    ∧ F64.one /. (⟨F64.zero, F64.zero⟩ : TwoFloat) = TwoFloat.NAN
    ∧ TwoFloat.recip ⟨F64.zero, F64.zero⟩ = TwoFloat.NAN
    ∧ TwoFloat.NAN.is_valid = false
    ∧ F64.div F64.one F64.zero = F64.INFINITY := by
  decide +kernel

/-- 1/3 as a double-double: hi = RN(1/3), lo = RN(1/3 − hi) -/
example :
    TwoFloat.recip ⟨f64lit 0x4008000000000000, F64.zero⟩ = ⟨f64lit 0x3fd5555555555555, f64lit 0x3c75555555555555⟩ := by
  decide +kernel

end C05
