/-
Property C02 — the two-word constructors are error-free transformations.

Setting: every finite double is `F64.fin s n` = (-1)^s · n · 2^-1074; `F64.toInt x` is the signed integer
`± n` ("scaled integer"), `TwoFloat.V t = toInt t.hi + toInt t.lo` is the exact value of the pair in the same
units, `F64.rnI : ℤ → ℤ` is IEEE round-to-nearest-even to 53 significant bits on scaled integers (no
exponent bound), and `F64.rqI num den` is the same rounding applied to the rational `num / den`.
`F64.unit = 2^1074` is the scaled integer of `1.0`, so `toInt a * toInt b` is the exact product in units
of `2^-2148`.  `t.Valid` is Definition 1.4 of Joldes–Muller–Popescu: both words finite and
`hi = RN(hi + lo)` (checked with the IEEE operations of the model).

Magnitude hypotheses: `|x| < 2^1023` reads `x.toInt.natAbs < 2^2097` (2097 = 1023 + 1074);
`2^-960 ≤ |a·b| < 2^1023` reads `2^1188 ≤ (toInt a * toInt b).natAbs < 2^3171`
(1188 = 2·1074 − 960, 3171 = 2·1074 + 1023).

`2^-480 ≤ |x| ≤ 2^480` reads `2^594 ≤ x.toInt.natAbs ≤ 2^1554`.  The real quotient `a/b`, in units of
`2^-1074`, is `toInt a · 2^1074 / toInt b`; bounds on it are stated cross-multiplied by `|toInt b|`.

All theorems are about the generated model (`TFV/Gen.lean`): `arithmetic.fast_two_sum`,
`TwoFloat.new_add`, `TwoFloat.new_sub`, `TwoFloat.new_mul`, `TwoFloat.new_div`, `TwoFloat.from_f64`,
`convert.impl_From_f64_for_TwoFloat.from`.  Proofs: `TFV/Lemmas/EFT.lean` (layer L2) on top of
`TFV/Spec/F64Ops.lean` (L1) and `TFV/Spec/Rounding.lean` (L0).

Every clause of C02 is proved in full (no `_partial` theorem):
`fast_two_sum_exact`, `fast_two_sum_valid`, `new_add_exact`, `new_sub_exact`, `new_mul_exact`,
`new_div_bounds` (+ `new_div_structure`), `from_f64_exact`.
Kernel-checked witnesses that the provisos are needed: `fast_two_sum_not_exact_without_precondition`,
`new_add_not_exact_near_overflow`, `new_mul_not_exact_below_threshold`; and one finding about a helper outside
C02's clauses, `renorm3_drops_third_word`.
-/
import TFV.Lemmas.EFT

namespace C02

open F64 TwoFloat

/-! ## Fast2Sum -/

/-- **Fast2Sum is error-free.**  For finite doubles `a`, `b` with `|b| ≤ |a|` whose rounded sum does not
overflow, `fast_two_sum a b` has finite words, `hi = RN(a + b)` and `hi + lo = a + b` exactly. -/
theorem fast_two_sum_exact (a b : F64) (hwa : a.WF) (hwb : b.WF)
    (ha : a.is_finite = true) (hb : b.is_finite = true)
    (hab : b.toInt.natAbs ≤ a.toInt.natAbs) (hov : (F64.add a b).is_finite = true) :
    (arithmetic.fast_two_sum a b).hi.is_finite = true ∧
    (arithmetic.fast_two_sum a b).lo.is_finite = true ∧
    (arithmetic.fast_two_sum a b).hi.toInt = rnI (a.toInt + b.toInt) ∧
    (arithmetic.fast_two_sum a b).V = a.toInt + b.toInt := by
  have hab' : |b.toInt| ≤ |a.toInt| := by
    rw [← Int.natCast_natAbs, ← Int.natCast_natAbs]; exact Int.ofNat_le.2 hab
  have hov' := rn53_le_maxFin_of_add_finite ha hb hov
  have hw := fast_two_sum_words ha hb hwa hwb hab' hov'
  have hs := fast_two_sum_spec ha hb hwa hwb hab' hov'
  exact ⟨hw.1.1, hw.2.1, hs.1, hs.2.1⟩

/-- **Fast2Sum returns a valid pair** (`hi = RN(hi + lo)`), with well-formed words. -/
theorem fast_two_sum_valid (a b : F64) (hwa : a.WF) (hwb : b.WF)
    (ha : a.is_finite = true) (hb : b.is_finite = true)
    (hab : b.toInt.natAbs ≤ a.toInt.natAbs) (hov : (F64.add a b).is_finite = true) :
    (arithmetic.fast_two_sum a b).Valid ∧ (arithmetic.fast_two_sum a b).WF :=
  (fast_two_sum_of_finite a b hwa hwb ha hb hab hov).2

/-- Fast2Sum under the weakest classical precondition: `a` is a multiple of `ulp(b) = 2^(⌊log2 |b|⌋ - 52)`
(implied by `|b| ≤ |a|`, by `a = 0`, and by "exponent of `a` ≥ exponent of `b`"). -/
theorem fast_two_sum_exact_of_dvd (a b : F64) (hwa : a.WF) (hwb : b.WF)
    (ha : a.is_finite = true) (hb : b.is_finite = true)
    (hd : (2 : Int) ^ (Nat.log2 b.toInt.natAbs - 52) ∣ a.toInt)
    (hov : (F64.add a b).is_finite = true) :
    (arithmetic.fast_two_sum a b).hi.toInt = rnI (a.toInt + b.toInt) ∧
    (arithmetic.fast_two_sum a b).V = a.toInt + b.toInt ∧
    (arithmetic.fast_two_sum a b).Valid ∧ (arithmetic.fast_two_sum a b).WF :=
  fast_two_sum_spec_of_dvd ha hb hwa hwb hd (rn53_le_maxFin_of_add_finite ha hb hov)

/-! ## 2Sum: `new_add`, `new_sub` -/

/-- the high word of `new_add` is the IEEE sum, by definition -/
theorem new_add_hi (a b : F64) : (TwoFloat.new_add a b).hi = F64.add a b := rfl

/-- the high word of `new_sub` is the IEEE difference, by definition -/
theorem new_sub_hi (a b : F64) : (TwoFloat.new_sub a b).hi = F64.sub a b := rfl

/-- **`new_add` is error-free (Knuth's 2Sum).**  For ALL finite doubles `a`, `b` with `|a|, |b| < 2^1023`
(normal or subnormal, any exponent gap, equal or opposite): both words are finite, `hi = RN(a + b)`,
`hi + lo = a + b` exactly, and the pair is valid (`hi = RN(hi + lo)`) with well-formed words. -/
theorem new_add_exact (a b : F64) (hwa : a.WF) (hwb : b.WF)
    (ha : a.is_finite = true) (hb : b.is_finite = true)
    (hA : a.toInt.natAbs < 2 ^ 2097) (hB : b.toInt.natAbs < 2 ^ 2097) :
    (TwoFloat.new_add a b).hi.is_finite = true ∧ (TwoFloat.new_add a b).lo.is_finite = true ∧
    (TwoFloat.new_add a b).hi.toInt = rnI (a.toInt + b.toInt) ∧
    (TwoFloat.new_add a b).V = a.toInt + b.toInt ∧
    (TwoFloat.new_add a b).Valid ∧ (TwoFloat.new_add a b).WF := by
  have hw := new_add_words ha hb hwa hwb (hwa.two_mul_abs_le hA) (hwb.two_mul_abs_le hB)
  have hs := new_add_spec ha hb hwa hwb (hwa.two_mul_abs_le hA) (hwb.two_mul_abs_le hB)
  exact ⟨hw.1.1, hw.2.1, hs⟩

/-- **`new_sub` is error-free (2Sum with negated right operand).**  Same range as `new_add_exact`. -/
theorem new_sub_exact (a b : F64) (hwa : a.WF) (hwb : b.WF)
    (ha : a.is_finite = true) (hb : b.is_finite = true)
    (hA : a.toInt.natAbs < 2 ^ 2097) (hB : b.toInt.natAbs < 2 ^ 2097) :
    (TwoFloat.new_sub a b).hi.is_finite = true ∧ (TwoFloat.new_sub a b).lo.is_finite = true ∧
    (TwoFloat.new_sub a b).hi.toInt = rnI (a.toInt - b.toInt) ∧
    (TwoFloat.new_sub a b).V = a.toInt - b.toInt ∧
    (TwoFloat.new_sub a b).Valid ∧ (TwoFloat.new_sub a b).WF := by
  have hw := new_sub_words ha hb hwa hwb (hwa.two_mul_abs_le hA) (hwb.two_mul_abs_le hB)
  have hs := new_sub_spec ha hb hwa hwb (hwa.two_mul_abs_le hA) (hwb.two_mul_abs_le hB)
  exact ⟨hw.1.1, hw.2.1, hs⟩

/-- the low word of `new_add` is exactly the rounding error of the IEEE addition -/
theorem new_add_lo (a b : F64) (hwa : a.WF) (hwb : b.WF)
    (ha : a.is_finite = true) (hb : b.is_finite = true)
    (hA : a.toInt.natAbs < 2 ^ 2097) (hB : b.toInt.natAbs < 2 ^ 2097) :
    (TwoFloat.new_add a b).lo.toInt = a.toInt + b.toInt - (F64.add a b).toInt := by
  have hw := new_add_words ha hb hwa hwb (hwa.two_mul_abs_le hA) (hwb.two_mul_abs_le hB)
  rw [hw.2.2, ← new_add_hi, hw.1.2]

/-! ## 2Prod: `new_mul` -/

/-- the high word of `new_mul` is the IEEE product, by definition -/
theorem new_mul_hi (a b : F64) : (TwoFloat.new_mul a b).hi = F64.mul a b := rfl

/-- **`new_mul` is error-free (2Prod via FMA)** whenever the exact product is `0` or
`2^-960 ≤ |a·b| < 2^1023`: both words are finite, `hi = RN(a·b)` (`rqI · unit` is `RN` of the quotient by
`2^1074`), `hi + lo = a·b` exactly (`V · 2^1074 = toInt a · toInt b`), and the pair is valid. -/
theorem new_mul_exact (a b : F64) (hwa : a.WF) (hwb : b.WF)
    (ha : a.is_finite = true) (hb : b.is_finite = true)
    (h : a.toInt * b.toInt = 0 ∨
      (2 ^ 1188 ≤ (a.toInt * b.toInt).natAbs ∧ (a.toInt * b.toInt).natAbs < 2 ^ 3171)) :
    (TwoFloat.new_mul a b).hi.is_finite = true ∧ (TwoFloat.new_mul a b).lo.is_finite = true ∧
    (TwoFloat.new_mul a b).hi.toInt = rqI (a.toInt * b.toInt) unit ∧
    (TwoFloat.new_mul a b).V * (unit : Int) = a.toInt * b.toInt ∧
    (TwoFloat.new_mul a b).Valid ∧ (TwoFloat.new_mul a b).WF := by
  have h' : a.toInt * b.toInt = 0 ∨
      ((2 : Int) ^ 1188 ≤ |a.toInt * b.toInt| ∧ |a.toInt * b.toInt| < (2 : Int) ^ 3171) := by
    rcases h with h | ⟨h1, h2⟩
    · exact Or.inl h
    · right
      rw [← Int.natCast_natAbs]
      exact ⟨by exact_mod_cast h1, by exact_mod_cast h2⟩
  obtain ⟨Q, _, hh, hl⟩ := new_mul_words ha hb hwa hwb h'
  exact ⟨hh.1, hl.1, new_mul_spec ha hb hwa hwb h'⟩

/-- in the exact regime the product is an integer multiple `Q · 2^1074` of the unit (no bits below `2^-1074`),
`hi = RN(Q)` and `lo = Q - RN(Q)` -/
theorem new_mul_words (a b : F64) (hwa : a.WF) (hwb : b.WF)
    (ha : a.is_finite = true) (hb : b.is_finite = true)
    (h : a.toInt * b.toInt = 0 ∨
      ((2 : Int) ^ 1188 ≤ |a.toInt * b.toInt| ∧ |a.toInt * b.toInt| < (2 : Int) ^ 3171)) :
    ∃ Q : Int, a.toInt * b.toInt = Q * (unit : Int) ∧
      (TwoFloat.new_mul a b).hi.toInt = rnI Q ∧ (TwoFloat.new_mul a b).lo.toInt = Q - rnI Q := by
  obtain ⟨Q, hQ, hh, hl⟩ := F64.new_mul_words ha hb hwa hwb h
  exact ⟨Q, hQ, hh.2, hl.2⟩

/-! ## `new_div` -/

/-- the IEEE quotient is the first word fed to the final Fast2Sum of `new_div`, by definition -/
theorem new_div_eq (a b : F64) :
    TwoFloat.new_div a b =
      arithmetic.fast_two_sum (F64.div a b)
        (F64.div (F64.sub (F64.sub a (TwoFloat.new_mul (F64.div a b) b).hi)
          (TwoFloat.new_mul (F64.div a b) b).lo) b) := rfl

/-- **`new_div`: `hi` is within one ulp of `a/b`, and `hi + lo` is within `2^-106·|a/b|` of `a/b`**
(the property asks for `3·2^-106`), for all finite doubles with `2^-480 ≤ |a|, |b| ≤ 2^480`
(`2^594 ≤ natAbs (toInt ·) ≤ 2^1554`).  Everything is cross-multiplied by `|b|`:
`a/b` in units of `2^-1074` is `toInt a · 2^1074 / toInt b`, and `2^e` with
`e = ⌊log2 ⌊|a/b|⌋⌋ - 52` is the ulp of the binade of `|a/b|` (so also `ulp(RN(a/b))` up to the binade edge).
Moreover the result is a valid pair with well-formed words. -/
theorem new_div_bounds (a b : F64) (hwa : a.WF) (hwb : b.WF)
    (ha : a.is_finite = true) (hb : b.is_finite = true)
    (hA1 : 2 ^ 594 ≤ a.toInt.natAbs) (hA2 : a.toInt.natAbs ≤ 2 ^ 1554)
    (hB1 : 2 ^ 594 ≤ b.toInt.natAbs) (hB2 : b.toInt.natAbs ≤ 2 ^ 1554) :
    (TwoFloat.new_div a b).Valid ∧ (TwoFloat.new_div a b).WF ∧
    |(TwoFloat.new_div a b).hi.toInt * b.toInt - a.toInt * (unit : Int)|
      ≤ |b.toInt| * 2 ^ (Nat.log2 (a.toInt.natAbs * unit / b.toInt.natAbs) - 52) ∧
    2 ^ 106 * |(TwoFloat.new_div a b).V * b.toInt - a.toInt * (unit : Int)|
      ≤ |a.toInt| * (unit : Int) := by
  have hB52 : 2 ^ 52 ≤ b.toInt.natAbs :=
    Nat.le_trans (pow_le_pow_right₀ (by norm_num) (by norm_num)) hB1
  have hA105 : 2 ^ 105 ≤ a.toInt.natAbs :=
    Nat.le_trans (pow_le_pow_right₀ (by norm_num) (by norm_num)) hA1
  have hbpos : 0 < b.toInt.natAbs := Nat.lt_of_lt_of_le (by positivity) hB52
  have hAlt : a.toInt.natAbs < 2 ^ 2097 :=
    Nat.lt_of_le_of_lt hA2 (pow_lt_pow_right₀ (by norm_num) (by norm_num))
  have e1 : (2 : Nat) ^ 105 * 2 ^ 1554 = 2 ^ 1659 := by rw [← pow_add]
  have e2 : (2 : Nat) ^ 594 * 2 ^ 1074 = 2 ^ 1668 := by rw [← pow_add]
  have e3 : (2 : Nat) ^ 1659 ≤ 2 ^ 1668 := pow_le_pow_right₀ (by norm_num) (by norm_num)
  have e4 : (2 : Nat) ^ 1554 * 2 ^ 1074 = 2 ^ 2628 := by rw [← pow_add]
  have e5 : (2 : Nat) ^ 2034 * 2 ^ 594 = 2 ^ 2628 := by rw [← pow_add]
  have e6 : 2 * (2 : Nat) ^ 2034 = 2 ^ 2035 := by rw [← pow_succ']
  have e7 : (2 : Nat) ^ 2035 ≤ 2 ^ 2097 := pow_le_pow_right₀ (by norm_num) (by norm_num)
  have hq : 2 ^ 105 * b.toInt.natAbs ≤ a.toInt.natAbs * unit := by
    calc 2 ^ 105 * b.toInt.natAbs ≤ 2 ^ 105 * 2 ^ 1554 := Nat.mul_le_mul_left _ hB2
      _ = 2 ^ 1659 := e1
      _ ≤ 2 ^ 1668 := e3
      _ = 2 ^ 594 * 2 ^ 1074 := e2.symm
      _ ≤ a.toInt.natAbs * unit := by rw [unit_eq]; exact Nat.mul_le_mul_right _ hA1
  have hov : 2 * roundQ (a.toInt.natAbs * unit) b.toInt.natAbs ≤ maxFin := by
    have h1 : roundQ (a.toInt.natAbs * unit) b.toInt.natAbs ≤ 2 ^ 2034 := by
      apply roundQ_le_of_le hbpos (rep_two_pow 2034)
      calc a.toInt.natAbs * unit ≤ 2 ^ 1554 * 2 ^ 1074 := by
            rw [unit_eq]; exact Nat.mul_le_mul_right _ hA2
        _ = 2 ^ 2628 := e4
        _ = 2 ^ 2034 * 2 ^ 594 := e5.symm
        _ ≤ 2 ^ 2034 * b.toInt.natAbs := Nat.mul_le_mul_left _ hB1
    have h2 : 2 * 2 ^ 2034 ≤ 2 ^ 2097 := by rw [e6]; exact e7
    exact Nat.le_trans (Nat.le_trans (Nat.mul_le_mul_left 2 h1) h2) two_pow_2097_le_maxFin
  obtain ⟨tl, _, _, _, _, _, v, w, b1, b2⟩ :=
    new_div_spec ha hb hwa hwb hB52 hA105 (hwa.two_mul_abs_le hAlt) hq hov
  exact ⟨v, w, b1, b2⟩

/-- the structure behind `new_div_bounds`: `th = RN(a/b)`, the residual `a - th·b` is computed exactly,
`tl = RN((a - th·b)/b)` with `|tl| ≤ ulp/2`, and the result is `Fast2Sum(th, tl)`:
`hi = RN(th + tl)`, `hi + lo = th + tl`. -/
theorem new_div_structure (a b : F64) (hwa : a.WF) (hwb : b.WF)
    (ha : a.is_finite = true) (hb : b.is_finite = true)
    (hB52 : 2 ^ 52 ≤ b.toInt.natAbs) (hA105 : 2 ^ 105 ≤ a.toInt.natAbs)
    (hA2 : a.toInt.natAbs < 2 ^ 2097)
    (hq : 2 ^ 105 * b.toInt.natAbs ≤ a.toInt.natAbs * unit)
    (hov : 2 * roundQ (a.toInt.natAbs * unit) b.toInt.natAbs ≤ maxFin) :
    ∃ tl : Int,
      (F64.div a b).is_finite = true ∧ (F64.div a b).toInt = rdI (a.toInt * (unit : Int)) b.toInt ∧
      2 * |tl| ≤ 2 ^ (Nat.log2 (a.toInt.natAbs * unit / b.toInt.natAbs) - 52) ∧
      (TwoFloat.new_div a b).hi.toInt = rnI ((F64.div a b).toInt + tl) ∧
      (TwoFloat.new_div a b).V = (F64.div a b).toInt + tl ∧
      (TwoFloat.new_div a b).Valid ∧ (TwoFloat.new_div a b).WF := by
  obtain ⟨tl, h1, h2, h3, h4, h5, h6, h7, _, _⟩ :=
    new_div_spec ha hb hwa hwb hB52 hA105 (hwa.two_mul_abs_le hA2) hq hov
  exact ⟨tl, h1, h2, h3, h4, h5, h6, h7⟩

/-! ## `from_f64`, `From<f64>` -/

/-- **`from_f64` and `From<f64>` embed their argument exactly with a `+0` low word** (for every `x`,
including NaN and infinities); for finite `x` the value is `x` and the pair is valid. -/
theorem from_f64_exact (x : F64) :
    TwoFloat.from_f64 x = { hi := x, lo := F64.fin false 0 } ∧
    convert.impl_From_f64_for_TwoFloat.from x = { hi := x, lo := F64.fin false 0 } ∧
    (TwoFloat.from_f64 x).V = x.toInt ∧
    (x.is_finite = true → x.WF → (TwoFloat.from_f64 x).Valid ∧ (TwoFloat.from_f64 x).WF) := by
  refine ⟨from_f64_eq x, from_eq x, ?_, ?_⟩
  · rw [from_f64_eq]; simp [TwoFloat.V, F64.toInt]
  · intro hx hw
    rw [from_f64_eq]
    exact (pair_zero_spec hx hw).2

theorem from_exact (x : F64) (hx : x.is_finite = true) (hw : x.WF) :
    (convert.impl_From_f64_for_TwoFloat.from x).V = x.toInt ∧
    (convert.impl_From_f64_for_TwoFloat.from x).Valid := by
  rw [from_eq]
  exact ⟨(pair_zero_spec hx hw).1, (pair_zero_spec hx hw).2.1⟩

/-! ## non-vacuity: concrete operands -/

/-- 1.0 -/
def one : F64 := f64lit 0x3ff0000000000000
/-- 2^-54 -/
def tiny : F64 := f64lit 0x3c90000000000000
/-- 2^-52 -/
def eps : F64 := f64lit 0x3cb0000000000000
/-- 0.1, 0.2 -/
def tenth : F64 := f64lit 0x3fb999999999999a
def fifth : F64 := f64lit 0x3fc999999999999a
/-- 1 + 2^-52 -/
def onePlus : F64 := f64lit 0x3ff0000000000001
/-- the smallest subnormal 2^-1074, and a subnormal with several bits -/
def minSub : F64 := f64lit 0x0000000000000001
def sub2 : F64 := f64lit 0x000abcdef0123457
/-- -(2^1022)(1 + 2^-52): close to the top of the admitted range -/
def bigNeg : F64 := f64lit 0xffd0000000000001
/-- 2^-600 (1 + 2^-52), 2^-400 (1 + 2^-52): product ≈ 2^-1000, below the 2^-960 threshold -/
def small1 : F64 := f64lit 0x1a70000000000001
def small2 : F64 := f64lit 0x26f0000000000001

-- Fast2Sum: 1 + 2^-54 = (1, 2^-54); the low word is not zero and the hypotheses hold
example : arithmetic.fast_two_sum one tiny = { hi := one, lo := tiny } ∧ tiny.toInt ≠ 0 := by
  decide +kernel
example : (arithmetic.fast_two_sum one tiny).V = one.toInt + tiny.toInt :=
  (fast_two_sum_exact one tiny (by decide +kernel) (by decide +kernel) (by decide +kernel)
    (by decide +kernel) (by decide +kernel) (by decide +kernel)).2.2.2
-- Fast2Sum with `|a| < |b|` but `ulp(b) ∣ a` (a = 2^-52, b = 1 + 2^-52): the `_of_dvd` form applies
example : (arithmetic.fast_two_sum eps onePlus).V = eps.toInt + onePlus.toInt :=
  (fast_two_sum_exact_of_dvd eps onePlus (by decide +kernel) (by decide +kernel) (by decide +kernel)
    (by decide +kernel) (by decide +kernel) (by decide +kernel)).2.1
/-- negative witness for the Fast2Sum precondition: with `a = 2^-54`, `b = 1` (`|a| < |b|` and `ulp(b) ∤ a`)
the result is `(1, 0)` and the `2^-54` is lost -/
theorem fast_two_sum_not_exact_without_precondition :
    arithmetic.fast_two_sum tiny one = { hi := one, lo := F64.fin false 0 } ∧
    (arithmetic.fast_two_sum tiny one).V ≠ tiny.toInt + one.toInt := by decide +kernel

-- 2Sum: 0.1 + 0.2 (inexact: the low word is the famous error), operands in either order
example : (TwoFloat.new_add tenth fifth).lo.toInt ≠ 0 ∧
    (TwoFloat.new_add tenth fifth).V = tenth.toInt + fifth.toInt ∧
    (TwoFloat.new_add tenth fifth).Valid := by decide +kernel
example : (TwoFloat.new_add tenth fifth).V = tenth.toInt + fifth.toInt :=
  (new_add_exact tenth fifth (by decide +kernel) (by decide +kernel) (by decide +kernel)
    (by decide +kernel) (by decide +kernel) (by decide +kernel)).2.2.2.1
-- |a| < |b|, 1000+ binades apart, subnormal operand, opposite signs, near the top of the range
example : (TwoFloat.new_add sub2 bigNeg).V = sub2.toInt + bigNeg.toInt ∧
    (TwoFloat.new_add sub2 bigNeg).lo.toInt ≠ 0 ∧ (TwoFloat.new_add sub2 bigNeg).Valid := by
  decide +kernel
example : (TwoFloat.new_add sub2 bigNeg).V = sub2.toInt + bigNeg.toInt :=
  (new_add_exact sub2 bigNeg (by decide +kernel) (by decide +kernel) (by decide +kernel)
    (by decide +kernel) (by decide +kernel) (by decide +kernel)).2.2.2.1
example : (TwoFloat.new_sub onePlus tiny).V = onePlus.toInt - tiny.toInt ∧
    (TwoFloat.new_sub onePlus tiny).lo.toInt ≠ 0 ∧ (TwoFloat.new_sub onePlus tiny).Valid := by
  decide +kernel
example : (TwoFloat.new_sub minSub fifth).V = minSub.toInt - fifth.toInt :=
  (new_sub_exact minSub fifth (by decide +kernel) (by decide +kernel) (by decide +kernel)
    (by decide +kernel) (by decide +kernel) (by decide +kernel)).2.2.2.1

/-- **Negative witness (the `|a|,|b| < 2^1023` proviso of 2Sum is not vacuous).**  `a = f64::MAX`,
`b = -1.5·2^971` (1.5 ulps of `MAX`): `s = a ⊕ b = MAX - ulp` is finite, but `aa = s ⊖ b` is the tie
`MAX + ulp/2`, which rounds to `+∞`; the low word becomes NaN next to a finite high word. -/
theorem new_add_not_exact_near_overflow :
    (f64lit 0x7fefffffffffffff).WF ∧ (f64lit 0xfca8000000000000).WF ∧
    (TwoFloat.new_add (f64lit 0x7fefffffffffffff) (f64lit 0xfca8000000000000)).hi
      = f64lit 0x7feffffffffffffe ∧
    (TwoFloat.new_add (f64lit 0x7fefffffffffffff) (f64lit 0xfca8000000000000)).lo = F64.nan ∧
    ¬ (f64lit 0x7fefffffffffffff).toInt.natAbs < 2 ^ 2097 := by decide +kernel

-- 2Prod: 0.1 · 0.2 and (1 + 2^-52)^2 are inexact products recovered exactly by the low word
example : (TwoFloat.new_mul tenth fifth).lo.toInt ≠ 0 ∧
    (TwoFloat.new_mul tenth fifth).V * (unit : Int) = tenth.toInt * fifth.toInt ∧
    (TwoFloat.new_mul tenth fifth).Valid := by decide +kernel
example : (TwoFloat.new_mul onePlus onePlus).V * (unit : Int) = onePlus.toInt * onePlus.toInt :=
  (new_mul_exact onePlus onePlus (by decide +kernel) (by decide +kernel) (by decide +kernel)
    (by decide +kernel) (by decide +kernel)).2.2.2.1
-- the zero-product clause
example : (TwoFloat.new_mul (F64.fin true 0) bigNeg).V * (unit : Int)
    = (F64.fin true 0).toInt * bigNeg.toInt :=
  (new_mul_exact (F64.fin true 0) bigNeg (by decide +kernel) (by decide +kernel) (by decide +kernel)
    (by decide +kernel) (by decide +kernel)).2.2.2.1

/-- **Negative witness (the `2^-960` proviso is not vacuous).**  `small1 · small2 ≈ 2^-1000` is a non-zero
product of two normal doubles below the threshold; its rounding error `2^-1104` is not a double, the low
word underflows to `0`, and `hi + lo ≠ a·b`. -/
theorem new_mul_not_exact_below_threshold :
    small1.WF ∧ small2.WF ∧ small1.is_finite = true ∧ small2.is_finite = true ∧
    small1.toInt * small2.toInt ≠ 0 ∧ (small1.toInt * small2.toInt).natAbs < 2 ^ 1188 ∧
    (TwoFloat.new_mul small1 small2).lo.toInt = 0 ∧
    (TwoFloat.new_mul small1 small2).V * (unit : Int) ≠ small1.toInt * small2.toInt := by
  decide +kernel

/-- a second witness with a subnormal factor: `2^-1074 · 0.5` is a tie that rounds to `(0, 0)` -/
example : (TwoFloat.new_mul minSub (f64lit 0x3fe0000000000000)) = { hi := F64.fin false 0, lo := F64.fin false 0 } ∧
    minSub.toInt * (f64lit 0x3fe0000000000000).toInt ≠ 0 := by decide +kernel

/-! ## finding: `renorm3` calls Fast2Sum with the small word first

`renorm3 a b c` (used by the three division operators) computes `v = fast_two_sum c u.hi` with the *small*
word `c` as first argument, violating the Fast2Sum precondition; the error word `v.lo` is then not the
rounding error and `c` is simply dropped.  Witness: `a = 1`, `b = 2^-53`, `c = 3·2^-106` (a non-overlapping
triple): the crate returns `(1, 2^-53)`, off by `c = 3·2^-106`, whereas the correctly ordered
`fast_two_sum u.hi c` gives `(1 + 2^-52, -(2^-53 - 2^-105))`, off by `2^-106` only.  The result is still a
valid pair (the last Fast2Sum renormalises), so this affects accuracy (C05), not validity. -/

/-- `3·2^-106` -/
def c3 : F64 := F64.fin false (3 * 2 ^ (1074 - 106))
/-- `2^-53` -/
def halfEps : F64 := f64lit 0x3ca0000000000000

/-- `renorm3` with the second Fast2Sum in the textbook order -/
def renorm3Fixed (a b c : F64) : TwoFloat :=
  let u := arithmetic.fast_two_sum a b
  let v := arithmetic.fast_two_sum u.hi c
  arithmetic.fast_two_sum v.hi (F64.add u.lo v.lo)

theorem renorm3_drops_third_word :
    c3.WF ∧ arithmetic.renorm3 one halfEps c3 = { hi := one, lo := halfEps } ∧
    arithmetic.renorm3 one halfEps c3 = arithmetic.renorm3 one halfEps (F64.fin false 0) ∧
    (one.toInt + halfEps.toInt + c3.toInt) - (arithmetic.renorm3 one halfEps c3).V = c3.toInt ∧
    (renorm3Fixed one halfEps c3).Valid ∧
    3 * ((renorm3Fixed one halfEps c3).V - (one.toInt + halfEps.toInt + c3.toInt)) = c3.toInt := by
  decide +kernel

-- new_div: 1/3 and 0.1/(1 + 2^-52); the theorem applies and the low word is not zero
def three : F64 := f64lit 0x4008000000000000
example : (TwoFloat.new_div one three).lo.toInt ≠ 0 ∧ (TwoFloat.new_div one three).Valid := by
  decide +kernel
example : (TwoFloat.new_div one three).Valid :=
  (new_div_bounds one three (by decide +kernel) (by decide +kernel) (by decide +kernel)
    (by decide +kernel) (by decide +kernel) (by decide +kernel) (by decide +kernel)
    (by decide +kernel)).1
example : 2 ^ 106 * |(TwoFloat.new_div tenth onePlus).V * onePlus.toInt - tenth.toInt * (unit : Int)|
    ≤ |tenth.toInt| * (unit : Int) :=
  (new_div_bounds tenth onePlus (by decide +kernel) (by decide +kernel) (by decide +kernel)
    (by decide +kernel) (by decide +kernel) (by decide +kernel) (by decide +kernel)
    (by decide +kernel)).2.2.2

-- from_f64
example : (TwoFloat.from_f64 tenth).V = tenth.toInt ∧ (TwoFloat.from_f64 tenth).Valid ∧
    (convert.impl_From_f64_for_TwoFloat.from bigNeg).Valid := by decide +kernel

end C02
