/-
C18j — the "search-only" slivers of property C18 (hyperbolic functions), closing gaps left by `C18.lean` (closed
instances of the domain errors), `C18h.lean` (`tanh_bound_partial`) and `C18i.lean` (`acosh_bound_partial`).

Values are real numbers, `val t = hi + lo = t.V / 2^1074`.

PROVED
 * `acosh_bound`, `acosh_pf` — the floor `2^-100·(A + 1/A)` on the FULL range `1 < x ≤ 2^60` (`acosh_bound_sliver` for
   `1 < x < 1 + 2^-103`: there `x = (1, lo)`, `x·x − 1 = (C, 0)` word for word with `lo ≤ C ≤ 4·lo`
   (`Slivers.near_one_sq`), `sqrt` is `≤ 0.75·2^-50` (`C13s` accuracy theorem above `2^-890`, a crude magnitude analysis
   `Slivers.sqrt_tiny` below), and the allowed error `2^-100/A ≥ 1.9·2^-50` exceeds result + reference).
 * `acosh_nan_of_lt_one` — domain error for EVERY valid `x < 1`, no magnitude restriction: the model returns
   `TwoFloat::NAN` (both words NaN).  (Before the repair of the crate — an explicit test `self < 1.0` in front — this failed
   for negative arguments beyond `≈ −2^52`, where `x + sqrt(x·x − 1)` came out positive; the two inputs that exhibited it
   are kept as `example`s and now give `NAN`.)
 * `atanh_nan_of_one_lt_abs` (`1 + 2^-940 ≤ |x| ≤ 2^999`), `atanh_nan_of_abs_eq_one` (all four pairs `(±1, ±0)`): the
   model returns `TwoFloat::NAN` — in particular `atanh(±1)` is NaN, not `±∞`.
 * `tanh_bound` — the floor `2^-100·|tanh x| + 2^-101` on the FULL range `|x| ≤ 600` (`tanh_bound_small` for
   `|x| < 2^-90`, where the computed numerator may be tiny, subnormal or zero: `Slivers.div_tiny`).
OPEN
 * `atanh` for `1 < |x| < 1 + 2^-940` and `|x| > 2^999` (the long division leaves the range of the division theorems; for
   `1 < x < 1 + 2^-1022` the first quotient digit overflows to `−∞` and NaN propagates — observed NaN by evaluation).
-/
import TFV.Lemmas.Slivers
import TFV.Properties.C18h
import TFV.Properties.C18i

set_option exponentiation.threshold 4000

namespace C18j

open F64 TwoFloat ConstBounds ExpBound PowfBound Slivers

/-- exact real value `hi + lo` of a pair -/
noncomputable abbrev val (t : TwoFloat) : ℝ := ExpBound.rv t

/-! ## 1. `acosh` on the sliver `1 < x < 1 + 2^-103` -/

theorem rv_of_isV {t : TwoFloat} {h l : ℤ} (ht : t.IsV h l) : rv t = ((h + l : ℤ) : ℝ) / 2 ^ 1074 := by
  unfold rv; rw [ht.V_eq]

/-- `|log y| ≤ δ/(1 − δ)` for `|y − 1| ≤ δ < 1` -/
theorem abs_log_le {y δ : ℝ} (hδ : δ < 1) (h : |y - 1| ≤ δ) : |Real.log y| ≤ δ / (1 - δ) := by
  obtain ⟨h1, h2⟩ := abs_le.1 h
  have hδ0 : 0 ≤ δ := le_trans (abs_nonneg _) h
  have hy : 0 < y := by linarith
  have hd : 0 < 1 - δ := by linarith
  have u1 := Real.log_le_sub_one_of_pos hy
  have u2 := Real.one_sub_inv_le_log_of_pos hy
  have hinv : y⁻¹ ≤ (1 - δ)⁻¹ := inv_anti₀ hd (by linarith)
  have e : δ / (1 - δ) = (1 - δ)⁻¹ - 1 := by field_simp; ring
  have hge : δ ≤ δ / (1 - δ) := by
    rw [le_div_iff₀ hd]; nlinarith
  rw [abs_le]
  constructor
  · rw [e]; linarith
  · linarith

/-- the computed `sqrt(x·x − 1)` for `x` just outside `σ = ±1` (`0 < σ(x − σ) < 2^-103`): a valid pair of magnitude at
most `0.75·2^-50` -/
theorem near_one_sqrt {x : TwoFloat} (hx : VW x) {σ : ℤ} (hσ : σ = 1 ∨ σ = -1)
    (hclose : |rv x - (σ : ℝ)| < 1 / 2 ^ 103) (hside : 0 < (σ : ℝ) * (rv x - (σ : ℝ))) :
    VW (TwoFloat.sqrt (arithmetic.impl_Sub_f64_for_TwoFloat.sub
      (arithmetic.impl_Mul_TwoFloat_for_TwoFloat.mul x x) (f64lit 0x3ff0000000000000))) ∧
    |rv (TwoFloat.sqrt (arithmetic.impl_Sub_f64_for_TwoFloat.sub
      (arithmetic.impl_Mul_TwoFloat_for_TwoFloat.mul x x) (f64lit 0x3ff0000000000000)))| ≤ 3 / 2 ^ 52 := by
  show VW (TwoFloat.sqrt (arithmetic.impl_Sub_rf64_for_rTwoFloat.sub
      (arithmetic.impl_Mul_rTwoFloat_for_rTwoFloat.mul x x) (f64lit 0x3ff0000000000000))) ∧
    |rv (TwoFloat.sqrt (arithmetic.impl_Sub_rf64_for_rTwoFloat.sub
      (arithmetic.impl_Mul_rTwoFloat_for_rTwoFloat.mul x x) (f64lit 0x3ff0000000000000)))| ≤ 3 / 2 ^ 52
  obtain ⟨hw, hl⟩ := near_one_words hx.1 hσ hclose
  have hUe := C01d.unit_int_eq
  have hlpos : 0 < σ * (x.V - σ * (unit : ℤ)) := by
    have e : ((σ * (x.V - σ * (unit : ℤ)) : ℤ) : ℝ) = ((σ : ℝ) * (rv x - (σ : ℝ))) * 2 ^ 1074 := by
      rw [hUe]; push_cast; rw [V_real]; ring
    have : (0 : ℝ) < ((σ * (x.V - σ * (unit : ℤ)) : ℤ) : ℝ) := by
      rw [e]; exact mul_pos hside (by positivity)
    exact_mod_cast this
  have hl0 : x.V - σ * (unit : ℤ) ≠ 0 := by
    intro h0; rw [h0, mul_zero] at hlpos; exact lt_irrefl _ hlpos
  obtain ⟨C, hCr, -, hS, k1, k2, k3⟩ := near_one_sq hσ hw hx.2 hl0 hl
  have hC0 : 0 < C := k3.2 hlpos
  have hSw := sub_tf_WF (arithmetic.impl_Mul_rTwoFloat_for_rTwoFloat.mul x x) (f64lit 0x3ff0000000000000)
  have hSv := hS.valid hSw (by rw [add_zero, rnI_of_repI hCr])
  have hCle : C < 2 ^ 973 := by
    rw [abs_of_pos hC0] at k2
    have e : (2 : ℤ) ^ 973 = 4 * 2 ^ 971 := by norm_num
    omega
  generalize arithmetic.impl_Sub_rf64_for_rTwoFloat.sub
      (arithmetic.impl_Mul_rTwoFloat_for_rTwoFloat.mul x x) (f64lit 0x3ff0000000000000) = S at *
  have hrS : rv S = (C : ℝ) / 2 ^ 1074 := by rw [rv_of_isV hS]; push_cast; ring
  by_cases hbig : C ≤ 2 ^ 184
  · obtain ⟨qv, qw, qb⟩ := sqrt_tiny hSv hSw (by rw [hS.1.2]; exact hC0) (by rw [hS.1.2]; exact hbig)
    refine ⟨⟨qv, qw⟩, ?_⟩
    rw [rv_abs, div_le_iff₀ (by positivity)]
    have : ((|(TwoFloat.sqrt S).V| : ℤ) : ℝ) ≤ 2 ^ 920 := by exact_mod_cast qb
    refine le_trans this ?_
    norm_num
  · have hbig' : (2 : ℤ) ^ 184 < C := not_le.1 hbig
    have r1 : 1 / 2 ^ 890 ≤ rv S := by
      rw [hrS, le_div_iff₀ (by positivity)]
      have : ((2 : ℤ) ^ 184 : ℝ) ≤ (C : ℝ) := by exact_mod_cast hbig'.le
      refine le_trans ?_ this
      norm_num
    have r2 : rv S ≤ 1 / 2 ^ 101 := by
      rw [hrS, div_le_iff₀ (by positivity)]
      have : (C : ℝ) ≤ ((2 : ℤ) ^ 973 : ℝ) := by exact_mod_cast hCle.le
      refine le_trans this ?_
      norm_num
    obtain ⟨hQ, hq⟩ := sqrt_rv ⟨hSv, hSw⟩ r1 (le_trans r2 (by norm_num))
    refine ⟨hQ, ?_⟩
    have hs : Real.sqrt (rv S) ≤ 29 / 40 / 2 ^ 50 := by
      rw [Real.sqrt_le_left (by positivity)]
      refine le_trans r2 ?_
      norm_num
    have hs0 := Real.sqrt_nonneg (rv S)
    have h3 := abs_sub_abs_le_abs_sub (rv (TwoFloat.sqrt S)) (Real.sqrt (rv S))
    rw [abs_of_nonneg hs0] at h3
    have h4 : (21 : ℝ) / 2 ^ 106 * Real.sqrt (rv S) ≤ 21 / 2 ^ 106 * (29 / 40 / 2 ^ 50) :=
      mul_le_mul_of_nonneg_left hs (by positivity)
    have e : (29 : ℝ) / 40 / 2 ^ 50 + 21 / 2 ^ 106 * (29 / 40 / 2 ^ 50) ≤ 3 / 2 ^ 52 := by norm_num
    linarith

/-- the computed `sqrt(x·x − 1)` on the sliver `1 < x < 1 + 2^-103` -/
theorem acosh_sliver_sqrt {x : TwoFloat} (hx : VW x) (h1 : 1 < rv x) (h2 : rv x < 1 + 1 / 2 ^ 103) :
    VW (TwoFloat.sqrt (arithmetic.impl_Sub_f64_for_TwoFloat.sub
      (arithmetic.impl_Mul_TwoFloat_for_TwoFloat.mul x x) (f64lit 0x3ff0000000000000))) ∧
    |rv (TwoFloat.sqrt (arithmetic.impl_Sub_f64_for_TwoFloat.sub
      (arithmetic.impl_Mul_TwoFloat_for_TwoFloat.mul x x) (f64lit 0x3ff0000000000000)))| ≤ 3 / 2 ^ 52 :=
  near_one_sqrt hx (σ := 1) (Or.inl rfl) (by rw [abs_lt]; push_cast; constructor <;> linarith)
    (by push_cast; linarith)

/-- `arcosh v ≤ 2^-51 (1 + 2^-100)` on the sliver -/
theorem arcosh_sliver {v : ℝ} (h1 : 1 < v) (h2 : v < 1 + 1 / 2 ^ 103) :
    0 < Real.arcosh v ∧ Real.arcosh v ≤ 1 / 2 ^ 51 * (1 + 1 / 2 ^ 100) := by
  have hApos : 0 < Real.arcosh v := Real.arcosh_pos h1
  refine ⟨hApos, ?_⟩
  have hAS : Real.arcosh v ≤ Real.sqrt (v ^ 2 - 1) := by
    have := Real.self_le_sinh_iff.2 hApos.le
    rwa [Real.sinh_arcosh h1.le] at this
  refine le_trans hAS ?_
  rw [Real.sqrt_le_left (by positivity)]
  have e : v ^ 2 - 1 = (v - 1) * (v + 1) := by ring
  rw [e]
  have c1 : (v - 1) * (v + 1) ≤ 1 / 2 ^ 103 * (2 + 1 / 2 ^ 103) :=
    mul_le_mul (by linarith) (by linarith) (by linarith) (by positivity)
  refine le_trans c1 ?_
  norm_num

/-- **`acosh` on the sliver `1 < x < 1 + 2^-103`** (then `x = (1, lo)`, `0 < lo < 2^-103`): the result is a valid pair of
magnitude at most `0.77·2^-50`, while the allowed error `2^-100/A` exceeds `1.9·2^-50` -/
theorem acosh_bound_sliver (x : TwoFloat) (hv : x.Valid) (hw : x.WF) (h1 : 1 < val x) (h2 : val x < 1 + 1 / 2 ^ 103) :
    (TwoFloat.acosh x).Valid ∧ (TwoFloat.acosh x).WF ∧
    |val (TwoFloat.acosh x) - Real.arcosh (val x)|
      ≤ 1 / 2 ^ 100 * (Real.arcosh (val x) + 1 / Real.arcosh (val x)) := by
  have hx : VW x := ⟨hv, hw⟩
  obtain ⟨hQ, hq⟩ := acosh_sliver_sqrt hx h1 h2
  rw [C18i.acosh_unfold x hv h1.le]
  unfold C18i.acoshArg
  generalize TwoFloat.sqrt (arithmetic.impl_Sub_f64_for_TwoFloat.sub
      (arithmetic.impl_Mul_TwoFloat_for_TwoFloat.mul x x) (f64lit 0x3ff0000000000000)) = Q at *
  have hxa : |rv x| ≤ 2 ^ 1000 := by
    rw [abs_of_pos (by linarith)]
    have : (1 : ℝ) + 1 / 2 ^ 103 ≤ 2 ^ 1000 := by norm_num
    linarith
  obtain ⟨hA, hAb⟩ := add_rv hx hQ hxa (le_trans hq (by norm_num))
  generalize arithmetic.impl_Add_TwoFloat_for_TwoFloat.add x Q = A at *
  obtain ⟨q1, q2⟩ := abs_le.1 hq
  have hsum : |rv x + rv Q| ≤ 2 := by
    rw [abs_le]
    have : (3 : ℝ) / 2 ^ 52 ≤ 1 / 2 := by norm_num
    have : (1 : ℝ) / 2 ^ 103 ≤ 1 / 2 := by norm_num
    constructor <;> linarith
  have hA1 : |rv A - 1| ≤ 76 / 100 / 2 ^ 50 := by
    have c1 : cA * |rv x + rv Q| ≤ 301 / 100 / 2 ^ 106 * 2 := mul_le_mul cA_le' hsum (abs_nonneg _) (by positivity)
    obtain ⟨a1, a2⟩ := abs_le.1 (le_trans hAb c1)
    have e : (1 : ℝ) / 2 ^ 103 + 3 / 2 ^ 52 + 301 / 100 / 2 ^ 106 * 2 ≤ 76 / 100 / 2 ^ 50 := by norm_num
    rw [abs_le]
    constructor <;> linarith
  have hArange : 1 / 2 ≤ rv A ∧ rv A ≤ 2 := by
    obtain ⟨a1, a2⟩ := abs_le.1 hA1
    have : (76 : ℝ) / 100 / 2 ^ 50 ≤ 1 / 2 := by norm_num
    constructor <;> linarith
  obtain ⟨hR, hr⟩ := ln_rv hA (le_trans (by norm_num) hArange.1) (le_trans hArange.2 (by norm_num))
  refine ⟨hR.1, hR.2, ?_⟩
  have hlog := abs_log_le (y := rv A) (δ := 76 / 100 / 2 ^ 50) (by norm_num) hA1
  have hlog' : |Real.log (rv A)| ≤ 761 / 1000 / 2 ^ 50 := by
    refine le_trans hlog ?_
    rw [div_le_iff₀ (by norm_num)]
    norm_num
  obtain ⟨hApos, hAle⟩ := arcosh_sliver h1 h2
  have hrabs : |rv (TwoFloat.ln A)| ≤ 77 / 100 / 2 ^ 50 := by
    have h3 := abs_sub_abs_le_abs_sub (rv (TwoFloat.ln A)) (Real.log (rv A))
    have h4 : (1 : ℝ) / 2 ^ 101 * (1 + |Real.log (rv A)|) ≤ 1 / 2 ^ 101 * (1 + 761 / 1000 / 2 ^ 50) :=
      mul_le_mul_of_nonneg_left (by linarith) (by positivity)
    have e : (761 : ℝ) / 1000 / 2 ^ 50 + 1 / 2 ^ 101 * (1 + 761 / 1000 / 2 ^ 50) ≤ 77 / 100 / 2 ^ 50 := by norm_num
    linarith
  show |rv (TwoFloat.ln A) - Real.arcosh (rv x)| ≤ 1 / 2 ^ 100 * (Real.arcosh (rv x) + 1 / Real.arcosh (rv x))
  generalize Real.arcosh (rv x) = L at *
  have h5 : |rv (TwoFloat.ln A) - L| ≤ 77 / 100 / 2 ^ 50 + 1 / 2 ^ 51 * (1 + 1 / 2 ^ 100) := by
    have := abs_sub (rv (TwoFloat.ln A)) L
    rw [abs_of_pos hApos] at this
    linarith
  refine le_trans h5 ?_
  have hinv : (1 / 2 ^ 51 * (1 + 1 / 2 ^ 100) : ℝ)⁻¹ ≤ 1 / L := by
    have := inv_anti₀ hApos hAle
    rwa [← one_div L] at this
  have h6 : (1 : ℝ) / 2 ^ 100 * (1 / 2 ^ 51 * (1 + 1 / 2 ^ 100) : ℝ)⁻¹ ≤ 1 / 2 ^ 100 * (L + 1 / L) :=
    mul_le_mul_of_nonneg_left (by linarith) (by positivity)
  refine le_trans ?_ h6
  norm_num

/-- **Property C18, accuracy of `acosh`, full range `1 < x ≤ 2^60`**: `acosh(x)` is a valid pair within
`2^-100·(A + 1/A)` of `A = acosh v` (`C18i.acosh_bound_partial` for `x ≥ 1 + 2^-103`, `acosh_bound_sliver` below) -/
theorem acosh_bound (x : TwoFloat) (hv : x.Valid) (hw : x.WF) (h1 : 1 < val x) (h2 : val x ≤ 2 ^ 60) :
    (TwoFloat.acosh x).Valid ∧
    |val (TwoFloat.acosh x) - Real.arcosh (val x)|
      ≤ 1 / 2 ^ 100 * (Real.arcosh (val x) + 1 / Real.arcosh (val x)) := by
  by_cases h : 1 + 1 / 2 ^ 103 ≤ val x
  · exact C18i.acosh_bound_partial x hv hw h h2
  · obtain ⟨a, -, b⟩ := acosh_bound_sliver x hv hw h1 (not_le.1 h)
    exact ⟨a, b⟩

/-- **`acosh` never panics** on `1 < x ≤ 2^60` -/
theorem acosh_pf (x : TwoFloat) (hv : x.Valid) (hw : x.WF) (h1 : 1 < val x) (h2 : val x ≤ 2 ^ 60) :
    TwoFloat.acosh.pf x = true := by
  by_cases h : 1 + 1 / 2 ^ 103 ≤ val x
  · exact C18i.acosh_pf x hv hw h h2
  · obtain ⟨hQ, -⟩ := acosh_sliver_sqrt ⟨hv, hw⟩ h1 (not_le.1 h)
    exact C18p.acosh_pf_of_sqrt_inv x (Or.inl hv) hw (Or.inl hQ.1)

/-! ## 2. domain error of `acosh` -/

/-- the former counterexample arguments `(−1.36·2^77, +1.95·2^20)` and `≈ −1.98·2^52` (before the repair of the crate the
computed `x + sqrt(x·x − 1)` came out as `+2^-31` resp. `+2^-54` and `acosh` returned `ln` of it) -/
def xNegLarge : TwoFloat := ⟨f64lit 0xc4c5c0eaed7c4d72, f64lit 0x413f1d415fe0f3f4⟩
def xNeg52 : TwoFloat := ⟨f64lit 0xc33fb97c258868ee, f64lit 0xbfdf4e51f6f60525⟩

/-- **`acosh` domain error**: for EVERY valid `x < 1` (no restriction on the magnitude) the model returns
`TwoFloat::NAN` (both words NaN): the leading test `self < 1.0` compares the exact values (`C06.lt_f64_exact`) -/
theorem acosh_nan_of_lt_one (x : TwoFloat) (hv : x.Valid) (_hw : x.WF) (h : val x < 1) :
    TwoFloat.acosh x = TwoFloat.NAN := by
  have hV : x.V < (f64lit 0x3ff0000000000000).toInt := by
    rw [C01d.one_isVal.2, C01d.unit_int_eq]
    have h1 : (x.V : ℝ) < 2 ^ 1074 := by
      have : rv x < 1 := h
      unfold rv at this
      rwa [div_lt_one (by positivity)] at this
    exact_mod_cast h1
  have hlt := (C06.lt_f64_exact hv C01d.one_WF C01d.one_isVal.1).2 hV
  unfold TwoFloat.acosh
  rw [show base.impl_PartialOrd_f64_for_TwoFloat.partial_cmp = C06.cmpTF from rfl, hlt]
  rfl

/-- the two former counterexamples now give `NAN` -/
example : xNegLarge.Valid ∧ TwoFloat.acosh xNegLarge = TwoFloat.NAN := by decide +kernel
example : xNeg52.Valid ∧ TwoFloat.acosh xNeg52 = TwoFloat.NAN := by decide +kernel

/-- the words of a valid pair of value exactly `±1`: `(±1, ±0)` -/
theorem words_of_val_one {x : TwoFloat} (hv : x.Valid) {sg : Bool}
    (h : x.V = (if sg then -(unit : ℤ) else (unit : ℤ))) :
    x = ⟨fin sg unit, fin false 0⟩ ∨ x = ⟨fin sg unit, fin true 0⟩ := by
  have hhi : x.hi.toInt = x.V := by
    rw [hv.hi_toInt, h]
    cases sg
    · exact rnI_of_repI repI_unit
    · exact rnI_of_repI repI_unit.neg
  have hlo : x.lo.toInt = 0 := by
    have : x.V = x.hi.toInt + x.lo.toInt := rfl
    omega
  rcases x with ⟨hi, lo⟩
  obtain ⟨s, a, rfl⟩ := is_finite_iff.1 hv.1
  obtain ⟨t, b, rfl⟩ := is_finite_iff.1 hv.2.1
  have hb : b = 0 := TwoFloat.toInt_eq_zero_iff.1 hlo
  subst hb
  have ha : s = sg ∧ a = unit := by
    simp only at hhi
    rw [h, toInt_fin] at hhi
    have hU := unit_pos_int
    cases s <;> cases sg <;> simp only [Bool.false_eq_true, if_false, if_true] at hhi ⊢
    · exact ⟨trivial, by exact_mod_cast hhi⟩
    · exfalso; have := Int.natCast_nonneg a; omega
    · exfalso; have := Int.natCast_nonneg a; omega
    · exact ⟨trivial, by have : (a : ℤ) = (unit : ℤ) := by omega
                         exact_mod_cast this⟩
  obtain ⟨rfl, rfl⟩ := ha
  cases t
  · exact Or.inl rfl
  · exact Or.inr rfl

theorem V_of_val_eq {x : TwoFloat} {σ : ℤ} (h : val x = (σ : ℝ)) : x.V = σ * (unit : ℤ) := by
  have e : (x.V : ℝ) = ((σ * (unit : ℤ) : ℤ) : ℝ) := by
    rw [V_real, C01d.unit_int_eq, show rv x = (σ : ℝ) from h, Int.cast_mul, Int.cast_pow]
    norm_num
  exact_mod_cast e

/-! ## 3. domain errors of `atanh` -/

/-- ranges of the computed `1 ± x` outside `[−1, 1]`: `P = |v| + 1`, `T = |v| − 1` -/
theorem atanh_dom_ranges {P T p t : ℝ} (hT : 1 / 2 ^ 940 ≤ T) (hP : P = T + 2) (hP2 : P ≤ 2 ^ 999 + 1)
    (hp : |p - P| ≤ 1 / 2 ^ 105 * P) (ht : |t - T| ≤ 1 / 2 ^ 105 * T) :
    0 < p ∧ 0 < t ∧ 1 / 2 ^ 950 ≤ p ∧ p ≤ 2 ^ 1000 ∧ 1 / 2 ^ 950 ≤ t ∧ t ≤ 2 ^ 1000 ∧
    1 / 2 ^ 950 * t ≤ p ∧ p ≤ 2 ^ 1000 * t ∧ 1 / 2 ^ 950 * p ≤ t ∧ t ≤ 2 ^ 1000 * p := by
  have hT0 : 0 < T := lt_of_lt_of_le (by positivity) hT
  have hP0 : 0 < P := by linarith
  obtain ⟨p1, p2⟩ := abs_le.1 hp
  obtain ⟨t1, t2⟩ := abs_le.1 ht
  have cP : (1 : ℝ) / 2 ^ 105 * P ≤ 1 / 2 * P := mul_le_mul_of_nonneg_right (by norm_num) hP0.le
  have cT : (1 : ℝ) / 2 ^ 105 * T ≤ 1 / 2 * T := mul_le_mul_of_nonneg_right (by norm_num) hT0.le
  have a1 : P / 2 ≤ p := by linarith
  have a2 : p ≤ 2 * P := by linarith
  have b1 : T / 2 ≤ t := by linarith
  have b2 : t ≤ 2 * T := by linarith
  have k1 : (4 : ℝ) ≤ 2 ^ 942 * T := by
    have : (2 : ℝ) ^ 942 * (1 / 2 ^ 940) ≤ 2 ^ 942 * T := mul_le_mul_of_nonneg_left hT (by positivity)
    have e : (2 : ℝ) ^ 942 * (1 / 2 ^ 940) = 4 := by norm_num
    linarith
  have hp0 : 0 < p := by linarith
  have ht0 : 0 < t := by linarith
  have e950 : (1 : ℝ) / 2 ^ 950 ≤ 1 / 2 ^ 941 := by norm_num
  have c1000 : (2 : ℝ) ^ 1000 = 2 * 2 ^ 999 := by norm_num
  have hpt : p ≤ 2 ^ 945 * t := by
    have : p ≤ (2 + 2 ^ 942) * T := by nlinarith
    have h2 : (2 + 2 ^ 942) * T ≤ (2 + 2 ^ 942) * (2 * t) := mul_le_mul_of_nonneg_left (by linarith) (by positivity)
    have h3 : ((2 : ℝ) + 2 ^ 942) * (2 * t) ≤ 2 ^ 945 * t := by
      have : ((2 : ℝ) + 2 ^ 942) * 2 ≤ 2 ^ 945 := by norm_num
      nlinarith
    linarith
  have htp : t ≤ 4 * p := by linarith
  refine ⟨hp0, ht0, ?_, ?_, ?_, ?_, ?_, ?_, ?_, ?_⟩
  · have : (1 : ℝ) / 2 ^ 950 ≤ 1 := by norm_num
    linarith
  · have : (2 : ℝ) ^ 999 ≥ 1 := by norm_num
    have hh : p ≤ P + 1 / 2 ^ 105 * P := by linarith
    have : (1 : ℝ) / 2 ^ 105 * P ≤ 1 / 2 ^ 105 * (2 ^ 999 + 1) := mul_le_mul_of_nonneg_left hP2 (by positivity)
    have e : (2 : ℝ) ^ 999 + 1 + 1 / 2 ^ 105 * (2 ^ 999 + 1) ≤ 2 ^ 1000 := by norm_num
    linarith
  · have : (1 : ℝ) / 2 ^ 950 ≤ 1 / 2 ^ 940 / 2 := by norm_num
    linarith
  · linarith
  · have : (1 : ℝ) / 2 ^ 950 * t ≤ 1 / 2 ^ 950 * (4 * p) := mul_le_mul_of_nonneg_left htp (by positivity)
    have e : (1 : ℝ) / 2 ^ 950 * (4 * p) ≤ p := by
      have : (1 : ℝ) / 2 ^ 950 * 4 ≤ 1 := by norm_num
      nlinarith
    linarith
  · have : (2 : ℝ) ^ 945 * t ≤ 2 ^ 1000 * t := mul_le_mul_of_nonneg_right (by norm_num) ht0.le
    linarith
  · have : (1 : ℝ) / 2 ^ 950 * p ≤ 1 / 2 ^ 950 * (2 ^ 945 * t) := mul_le_mul_of_nonneg_left hpt (by positivity)
    have e : (1 : ℝ) / 2 ^ 950 * (2 ^ 945 * t) ≤ t := by
      have : (1 : ℝ) / 2 ^ 950 * 2 ^ 945 ≤ 1 := by norm_num
      nlinarith
    linarith
  · have : (4 : ℝ) * p ≤ 2 ^ 1000 * p := mul_le_mul_of_nonneg_right (by norm_num) hp0.le
    linarith

theorem V_neg_of_rv_neg {t : TwoFloat} (h : rv t < 0) : t.V < 0 := by
  unfold rv at h
  rw [div_neg_iff] at h
  rcases h with ⟨_, h2⟩ | ⟨h1, _⟩
  · exact absurd h2 (not_lt.2 (by positivity))
  · exact_mod_cast h1

/-- a quotient of opposite signs computed with a relative error is negative -/
theorem quot_neg {n d q : ℝ} (hnd : n / d < 0) (hq : |q - n / d| ≤ 1 / 2 ^ 102 * |n / d|) : q < 0 := by
  rw [abs_of_neg hnd] at hq
  obtain ⟨_, q2⟩ := abs_le.1 hq
  have : (1 : ℝ) / 2 ^ 102 * -(n / d) ≤ 1 / 2 * -(n / d) :=
    mul_le_mul_of_nonneg_right (by norm_num) (by linarith)
  linarith

/-- **`atanh` domain error, `|x| > 1`**: for every valid `x` with `1 + 2^-940 ≤ |x| ≤ 2^999` the quotient
`(1 + x)/(1 − x)` is a valid NEGATIVE pair, `ln` returns `NAN`, and so does `atanh` (both words NaN) -/
theorem atanh_nan_of_one_lt_abs (x : TwoFloat) (hv : x.Valid) (hw : x.WF) (h1 : 1 + 1 / 2 ^ 940 ≤ |val x|)
    (h2 : |val x| ≤ 2 ^ 999) : TwoFloat.atanh x = TwoFloat.NAN := by
  have hx : VW x := ⟨hv, hw⟩
  have hxa : |rv x| ≤ 2 ^ 1000 := le_trans h2 (by norm_num)
  rw [C18i.atanh_unfold]
  unfold C18i.atanhArg
  obtain ⟨hN, hn⟩ := one_add_rv hx hxa
  obtain ⟨hD, hd⟩ := one_sub_rv hx hxa
  generalize arithmetic.impl_Add_TwoFloat_for_f64.add (f64lit 0x3ff0000000000000) x = N at *
  generalize arithmetic.impl_Sub_TwoFloat_for_f64.sub (f64lit 0x3ff0000000000000) x = D at *
  have key : rv (arithmetic.impl_Div_TwoFloat_for_TwoFloat.div N D) < 0 ∧
      VW (arithmetic.impl_Div_TwoFloat_for_TwoFloat.div N D) := by
    rcases le_or_gt 0 (rv x) with hp | hneg
    · rw [abs_of_nonneg hp] at h1 h2
      have hP0 : 0 < 1 + rv x := by linarith
      have hT0 : 1 - rv x < 0 := by
        have : (0 : ℝ) < 1 / 2 ^ 940 := by positivity
        linarith
      rw [abs_of_pos hP0] at hn
      rw [abs_of_neg hT0] at hd
      have hd' : |(-rv D) - (rv x - 1)| ≤ 1 / 2 ^ 105 * (rv x - 1) := by
        rw [show -rv D - (rv x - 1) = -(rv D - (1 - rv x)) by ring, abs_neg]
        rw [show rv x - 1 = -(1 - rv x) by ring]; exact hd
      obtain ⟨n0, d0, r1, r2, r3, r4, r5, r6, -, -⟩ :=
        atanh_dom_ranges (P := 1 + rv x) (T := rv x - 1) (by linarith) (by ring) (by linarith) hn hd'
      have hdn : rv D < 0 := by linarith
      obtain ⟨hQ, hq⟩ := Exp2Bound.div_rv hN hD (by rw [abs_of_pos n0]; exact r1) (by rw [abs_of_pos n0]; exact r2)
        (by rw [abs_of_neg hdn]; exact r3) (by rw [abs_of_neg hdn]; exact r4)
        (by rw [abs_of_pos n0, abs_of_neg hdn]; exact r5) (by rw [abs_of_pos n0, abs_of_neg hdn]; exact r6)
      exact ⟨quot_neg (div_neg_of_pos_of_neg n0 hdn) hq, hQ⟩
    · rw [abs_of_neg hneg] at h1 h2
      have hP0 : 0 < 1 - rv x := by linarith
      have hT0 : 1 + rv x < 0 := by
        have : (0 : ℝ) < 1 / 2 ^ 940 := by positivity
        linarith
      rw [abs_of_pos hP0] at hd
      rw [abs_of_neg hT0] at hn
      have hn' : |(-rv N) - (-rv x - 1)| ≤ 1 / 2 ^ 105 * (-rv x - 1) := by
        rw [show -rv N - (-rv x - 1) = -(rv N - (1 + rv x)) by ring, abs_neg]
        rw [show -rv x - 1 = -(1 + rv x) by ring]; exact hn
      obtain ⟨d0, n0, r1, r2, r3, r4, -, -, r7, r8⟩ :=
        atanh_dom_ranges (P := 1 - rv x) (T := -rv x - 1) (by linarith) (by ring) (by linarith) hd hn'
      have hnn : rv N < 0 := by linarith
      obtain ⟨hQ, hq⟩ := Exp2Bound.div_rv hN hD (by rw [abs_of_neg hnn]; exact r3) (by rw [abs_of_neg hnn]; exact r4)
        (by rw [abs_of_pos d0]; exact r1) (by rw [abs_of_pos d0]; exact r2)
        (by rw [abs_of_neg hnn, abs_of_pos d0]; exact r7) (by rw [abs_of_neg hnn, abs_of_pos d0]; exact r8)
      exact ⟨quot_neg (div_neg_of_neg_of_pos hnn d0) hq, hQ⟩
  obtain ⟨hneg, hQ⟩ := key
  rw [ln_of_nonpos hQ.1 hQ.2 (V_neg_of_rv_neg hneg).le, div2_nan]

/-- **`atanh(±1)`**: for every valid `x` of value exactly `1` or `−1` (the four pairs `(±1, ±0)`) the model returns
`TwoFloat::NAN`, not `±∞`: at `+1` the quotient `(1 + x)/(1 − x) = 2/0` is `(+∞, NaN)`-like and `ln` of it propagates
NaN; at `−1` the quotient is `0` and `ln(0)` is `NAN` by the `self <= 0.0` test -/
theorem atanh_nan_of_abs_eq_one (x : TwoFloat) (hv : x.Valid) (h : |val x| = 1) :
    TwoFloat.atanh x = TwoFloat.NAN := by
  rcases (abs_eq (by norm_num : (0 : ℝ) ≤ 1)).1 h with h1 | h1
  · have hV := V_of_val_eq (x := x) (σ := 1) (by rw [h1]; norm_num)
    rcases words_of_val_one hv (sg := false) (by simpa using hV) with rfl | rfl <;> decide +kernel
  · have hV := V_of_val_eq (x := x) (σ := -1) (by rw [h1]; norm_num)
    rcases words_of_val_one hv (sg := true) (by simpa using hV) with rfl | rfl <;> decide +kernel

/-! ## 4. `tanh` for `|x| < 2^-90` -/

/-- `1 − δ ≤ e^v ≤ 1 + 2δ` for `|v| ≤ δ ≤ 1/2` -/
theorem exp_near_one {v δ : ℝ} (hv : |v| ≤ δ) (hδ : δ ≤ 1 / 2) : 1 - δ ≤ Real.exp v ∧ Real.exp v ≤ 1 + 2 * δ := by
  obtain ⟨v1, v2⟩ := abs_le.1 hv
  have h1 := Real.add_one_le_exp v
  have h2 := Real.add_one_le_exp (-v)
  have hp := Real.exp_pos v
  have hAB : Real.exp v * Real.exp (-v) = 1 := by rw [← Real.exp_add]; simp
  refine ⟨by linarith, ?_⟩
  have hB : 1 - δ ≤ Real.exp (-v) := by linarith
  have hd : 0 < 1 - δ := by linarith
  have : Real.exp v * (1 - δ) ≤ 1 := by
    calc Real.exp v * (1 - δ) ≤ Real.exp v * Real.exp (-v) := mul_le_mul_of_nonneg_left hB hp.le
      _ = 1 := hAB
  have hδ0 : 0 ≤ δ := le_trans (abs_nonneg _) hv
  nlinarith

/-- real-number core of `tanh` when the computed numerator `nr` is tiny: then `|a − b| ≤ 2|nr|`, `|N| ≤ 58.002u²`,
`|tanh v| = |N/D| ≤ 29.01u²`, and any quotient of magnitude at most `2^-921` is within `2^-101` of it -/
theorem tanh_tiny_real {a b N D nr q : ℝ} (hD2 : 2 ≤ D) (hab : |a - b - N| ≤ 5801 / 100 / 2 ^ 106)
    (hnum : |nr - (a - b)| ≤ cA * |a - b|) (hsmall : |nr| < 1 / 2 ^ 948) (hq : |q| ≤ 1 / 2 ^ 921) :
    |q - N / D| ≤ |N / D| / 2 ^ 100 + 1 / 2 ^ 101 := by
  have hD0 : 0 < D := by linarith
  have hdiff : |a - b| ≤ 2 / 2 ^ 948 := by
    have t1 := abs_sub_abs_le_abs_sub (a - b) nr
    rw [abs_sub_comm (a - b) nr] at t1
    have t2 : cA * |a - b| ≤ 1 / 2 * |a - b| :=
      mul_le_mul_of_nonneg_right (le_trans cA_le' (by norm_num)) (abs_nonneg _)
    linarith
  have hNb : |N| ≤ 5802 / 100 / 2 ^ 106 := by
    have t1 := abs_sub_abs_le_abs_sub N (a - b)
    rw [abs_sub_comm N (a - b)] at t1
    have e : (2 : ℝ) / 2 ^ 948 + 5801 / 100 / 2 ^ 106 ≤ 5802 / 100 / 2 ^ 106 := by norm_num
    linarith
  have hND : |N / D| ≤ 2901 / 100 / 2 ^ 106 := by
    rw [abs_div, abs_of_pos hD0, div_le_iff₀ hD0]
    have : (2901 : ℝ) / 100 / 2 ^ 106 * 2 ≤ 2901 / 100 / 2 ^ 106 * D :=
      mul_le_mul_of_nonneg_left hD2 (by positivity)
    have e : (2901 : ℝ) / 100 / 2 ^ 106 * 2 = 5802 / 100 / 2 ^ 106 := by ring
    linarith
  have t := abs_sub q (N / D)
  have hnn : 0 ≤ |N / D| / 2 ^ 100 := by positivity
  have e : (1 : ℝ) / 2 ^ 921 + 2901 / 100 / 2 ^ 106 ≤ 1 / 2 ^ 101 := by norm_num
  linarith

/-- **`tanh` on `|x| < 2^-90`**: within `2^-100·|tanh v| + 2^-101` of the true value.  The computed numerator
`exp(x) − exp(−x)` may be anything within `≈ 58u²` of `2 sinh v`, including zero and subnormal values: when it is at
least `2^-948` the long division is accurate (`Exp2Bound.div_rv`) and the analysis of `C18h.tanh_real` applies; below that
the quotient is a valid pair of magnitude at most `2^-921` (`Slivers.div_tiny`) and `|tanh v| ≤ 29.001u²`. -/
theorem tanh_bound_small (x : TwoFloat) (hv : x.Valid) (hw : x.WF) (h : |val x| < 1 / 2 ^ 90) :
    (TwoFloat.tanh x).Valid ∧ (TwoFloat.tanh x).WF ∧
    |val (TwoFloat.tanh x) - Real.tanh (val x)| ≤ |Real.tanh (val x)| / 2 ^ 100 + 1 / 2 ^ 101 := by
  obtain ⟨nvw, hn⟩ := Exp2Bound.neg_rv ⟨hv, hw⟩
  obtain ⟨h1, h2⟩ := abs_le.1 h.le
  have h90 : (1 : ℝ) / 2 ^ 90 ≤ 600 := by norm_num
  obtain ⟨avw, a37, a21⟩ := exp_bound_split x hv hw (by linarith) (by linarith)
  obtain ⟨bvw, b37, b21⟩ := exp_bound_split _ nvw.1 nvw.2 (by rw [hn]; linarith) (by rw [hn]; linarith)
  rw [hn] at b37 b21
  obtain ⟨rA1, rA2⟩ := exp_near_one (v := rv x) (δ := 1 / 2 ^ 90) h.le (by norm_num)
  obtain ⟨rB1, rB2⟩ := exp_near_one (v := -rv x) (δ := 1 / 2 ^ 90) (by rw [abs_neg]; exact h.le) (by norm_num)
  have hA0 := Real.exp_pos (rv x)
  have hB0 := Real.exp_pos (-rv x)
  have haabs : |rv (TwoFloat.exp x)| ≤ 2 ^ 1000 := by
    have := abs_sub_abs_le_abs_sub (rv (TwoFloat.exp x)) (Real.exp (rv x))
    rw [abs_of_pos hA0] at this
    have h3 : (37 : ℝ) / 2 ^ 106 * Real.exp (rv x) ≤ Real.exp (rv x) := by
      have : (37 : ℝ) / 2 ^ 106 ≤ 1 := by norm_num
      nlinarith
    have e : (2 : ℝ) * (1 + 2 * (1 / 2 ^ 90)) ≤ 2 ^ 1000 := by norm_num
    linarith
  have hbabs : |rv (TwoFloat.exp (arithmetic.impl_Neg_for_TwoFloat.neg x))| ≤ 2 ^ 1000 := by
    have := abs_sub_abs_le_abs_sub (rv (TwoFloat.exp (arithmetic.impl_Neg_for_TwoFloat.neg x))) (Real.exp (-rv x))
    rw [abs_of_pos hB0] at this
    have h3 : (37 : ℝ) / 2 ^ 106 * Real.exp (-rv x) ≤ Real.exp (-rv x) := by
      have : (37 : ℝ) / 2 ^ 106 ≤ 1 := by norm_num
      nlinarith
    have e : (2 : ℝ) * (1 + 2 * (1 / 2 ^ 90)) ≤ 2 ^ 1000 := by norm_num
    linarith
  obtain ⟨numvw, hnum⟩ := Exp2Bound.sub_rv avw bvw haabs hbabs
  obtain ⟨denvw, hden⟩ := add_rv avw bvw haabs hbabs
  obtain ⟨nd1, nd2⟩ := C18h.nd_real hA0 hB0 a37 b37 hnum hden
  have hD2 : 2 ≤ Real.exp (rv x) + Real.exp (-rv x) := by
    have hAB : Real.exp (rv x) * Real.exp (-rv x) = 1 := by rw [← Real.exp_add]; simp
    nlinarith [sq_nonneg (Real.exp (rv x) - Real.exp (-rv x))]
  have hDle : Real.exp (rv x) + Real.exp (-rv x) ≤ 2 + 1 / 2 ^ 88 := by
    have : (2 : ℝ) + 1 / 2 ^ 88 = (1 + 2 * (1 / 2 ^ 90)) + (1 + 2 * (1 / 2 ^ 90)) := by norm_num
    linarith
  set D := Real.exp (rv x) + Real.exp (-rv x) with hDdef
  set N := Real.exp (rv x) - Real.exp (-rv x) with hNdef
  have hD0 : 0 < D := by linarith
  -- the exact numerator against the computed difference of the exponentials: `58.001u²`
  have hab : |rv (TwoFloat.exp x) - rv (TwoFloat.exp (arithmetic.impl_Neg_for_TwoFloat.neg x)) - N|
      ≤ 5801 / 100 / 2 ^ 106 := by
    have key : |rv (TwoFloat.exp x) - Real.exp (rv x)|
        + |rv (TwoFloat.exp (arithmetic.impl_Neg_for_TwoFloat.neg x)) - Real.exp (-rv x)|
        ≤ 58 / 2 ^ 106 * (1 + 2 * (1 / 2 ^ 90)) := by
      by_cases h0 : 0 ≤ rv x
      · have c1 := a21 h0
        have c3 : (21 : ℝ) / 2 ^ 106 * Real.exp (rv x) ≤ 21 / 2 ^ 106 * (1 + 2 * (1 / 2 ^ 90)) :=
          mul_le_mul_of_nonneg_left rA2 (by positivity)
        have c4 : (37 : ℝ) / 2 ^ 106 * Real.exp (-rv x) ≤ 37 / 2 ^ 106 * (1 + 2 * (1 / 2 ^ 90)) :=
          mul_le_mul_of_nonneg_left rB2 (by positivity)
        have e : (58 : ℝ) / 2 ^ 106 * (1 + 2 * (1 / 2 ^ 90))
            = 21 / 2 ^ 106 * (1 + 2 * (1 / 2 ^ 90)) + 37 / 2 ^ 106 * (1 + 2 * (1 / 2 ^ 90)) := by ring
        linarith
      · have c1 := b21 (by linarith [not_le.1 h0] : 0 ≤ -rv x)
        have c3 : (37 : ℝ) / 2 ^ 106 * Real.exp (rv x) ≤ 37 / 2 ^ 106 * (1 + 2 * (1 / 2 ^ 90)) :=
          mul_le_mul_of_nonneg_left rA2 (by positivity)
        have c4 : (21 : ℝ) / 2 ^ 106 * Real.exp (-rv x) ≤ 21 / 2 ^ 106 * (1 + 2 * (1 / 2 ^ 90)) :=
          mul_le_mul_of_nonneg_left rB2 (by positivity)
        have e : (58 : ℝ) / 2 ^ 106 * (1 + 2 * (1 / 2 ^ 90))
            = 21 / 2 ^ 106 * (1 + 2 * (1 / 2 ^ 90)) + 37 / 2 ^ 106 * (1 + 2 * (1 / 2 ^ 90)) := by ring
        linarith
    have := abs_add_le (rv (TwoFloat.exp x) - Real.exp (rv x))
      (-(rv (TwoFloat.exp (arithmetic.impl_Neg_for_TwoFloat.neg x)) - Real.exp (-rv x)))
    rw [abs_neg, show rv (TwoFloat.exp x) - Real.exp (rv x)
      + -(rv (TwoFloat.exp (arithmetic.impl_Neg_for_TwoFloat.neg x)) - Real.exp (-rv x))
      = rv (TwoFloat.exp x) - rv (TwoFloat.exp (arithmetic.impl_Neg_for_TwoFloat.neg x)) - N by rw [hNdef]; ring]
      at this
    have e : (58 : ℝ) / 2 ^ 106 * (1 + 2 * (1 / 2 ^ 90)) ≤ 5801 / 100 / 2 ^ 106 := by norm_num
    linarith
  generalize hnumr : rv (arithmetic.impl_Sub_TwoFloat_for_TwoFloat.sub (TwoFloat.exp x)
    (TwoFloat.exp (arithmetic.impl_Neg_for_TwoFloat.neg x))) = nr at *
  generalize hdenr : rv (arithmetic.impl_Add_TwoFloat_for_TwoFloat.add (TwoFloat.exp x)
    (TwoFloat.exp (arithmetic.impl_Neg_for_TwoFloat.neg x))) = dr at *
  have e41 : (41 : ℝ) / 2 ^ 106 * D ≤ 1 / 2 ^ 100 * D := mul_le_mul_of_nonneg_right (by norm_num) hD0.le
  have hNle : |N| ≤ D := by rw [abs_le]; constructor <;> rw [hNdef, hDdef] <;> linarith
  have n_hi : |nr| ≤ 2 * D := by
    have := abs_sub_abs_le_abs_sub nr N
    have : (1 : ℝ) / 2 ^ 100 * D ≤ D := by
      have : (1 : ℝ) / 2 ^ 100 ≤ 1 := by norm_num
      nlinarith
    linarith
  have d_lo : D / 2 ≤ |dr| := by
    have := abs_sub_abs_le_abs_sub D dr
    rw [abs_sub_comm D dr, abs_of_pos hD0] at this
    have : (1 : ℝ) / 2 ^ 100 * D ≤ D / 2 := by
      have : (1 : ℝ) / 2 ^ 100 ≤ 1 / 2 := by norm_num
      nlinarith
    linarith
  have d_hi : |dr| ≤ 2 * D := by
    have := abs_sub_abs_le_abs_sub dr D
    rw [abs_of_pos hD0] at this
    have : (1 : ℝ) / 2 ^ 100 * D ≤ D := by
      have : (1 : ℝ) / 2 ^ 100 ≤ 1 := by norm_num
      nlinarith
    linarith
  have d_hi3 : |dr| ≤ 3 := by
    have := abs_sub_abs_le_abs_sub dr D
    rw [abs_of_pos hD0] at this
    have e1 : (1 : ℝ) / 2 ^ 100 * D ≤ 1 / 2 ^ 100 * (2 + 1 / 2 ^ 88) := mul_le_mul_of_nonneg_left hDle (by positivity)
    have e2 : (2 : ℝ) + 1 / 2 ^ 88 + 1 / 2 ^ 100 * (2 + 1 / 2 ^ 88) ≤ 3 := by norm_num
    linarith
  rw [Real.tanh_eq]
  show (arithmetic.impl_Div_TwoFloat_for_TwoFloat.div
      (arithmetic.impl_Sub_TwoFloat_for_TwoFloat.sub (TwoFloat.exp x)
        (TwoFloat.exp (arithmetic.impl_Neg_for_TwoFloat.neg x)))
      (arithmetic.impl_Add_TwoFloat_for_TwoFloat.add (TwoFloat.exp x)
        (TwoFloat.exp (arithmetic.impl_Neg_for_TwoFloat.neg x)))).Valid ∧
    (arithmetic.impl_Div_TwoFloat_for_TwoFloat.div
      (arithmetic.impl_Sub_TwoFloat_for_TwoFloat.sub (TwoFloat.exp x)
        (TwoFloat.exp (arithmetic.impl_Neg_for_TwoFloat.neg x)))
      (arithmetic.impl_Add_TwoFloat_for_TwoFloat.add (TwoFloat.exp x)
        (TwoFloat.exp (arithmetic.impl_Neg_for_TwoFloat.neg x)))).WF ∧
    |rv (arithmetic.impl_Div_TwoFloat_for_TwoFloat.div
      (arithmetic.impl_Sub_TwoFloat_for_TwoFloat.sub (TwoFloat.exp x)
        (TwoFloat.exp (arithmetic.impl_Neg_for_TwoFloat.neg x)))
      (arithmetic.impl_Add_TwoFloat_for_TwoFloat.add (TwoFloat.exp x)
        (TwoFloat.exp (arithmetic.impl_Neg_for_TwoFloat.neg x)))) - N / D| ≤ |N / D| / 2 ^ 100 + 1 / 2 ^ 101
  by_cases hbig : 1 / 2 ^ 948 ≤ |nr|
  · -- the long division is accurate
    have hq := Exp2Bound.div_rv numvw denvw (by
        rw [hnumr]; exact le_trans (by norm_num) hbig)
      (by rw [hnumr]; have : (2 : ℝ) * (2 + 1 / 2 ^ 88) ≤ 2 ^ 1000 := by norm_num
          linarith)
      (by rw [hdenr]; have : (1 : ℝ) / 2 ^ 950 ≤ 2 / 2 := by norm_num
          linarith)
      (by rw [hdenr]; have : (2 : ℝ) * (2 + 1 / 2 ^ 88) ≤ 2 ^ 1000 := by norm_num
          linarith)
      (by rw [hnumr, hdenr]
          have : (1 : ℝ) / 2 ^ 950 * |dr| ≤ 1 / 2 ^ 950 * 3 :=
            mul_le_mul_of_nonneg_left d_hi3 (by positivity)
          have e : (1 : ℝ) / 2 ^ 950 * 3 ≤ 1 / 2 ^ 948 := by norm_num
          linarith)
      (by rw [hnumr, hdenr]
          have : (2 : ℝ) ^ 1000 * (D / 2) ≤ 2 ^ 1000 * |dr| := mul_le_mul_of_nonneg_left d_lo (by positivity)
          have e : 2 * D ≤ (2 : ℝ) ^ 1000 * (D / 2) := by
            rw [show (2 : ℝ) ^ 1000 * (D / 2) = 2 ^ 999 * D by ring]
            exact mul_le_mul_of_nonneg_right (by norm_num) hD0.le
          linarith)
    obtain ⟨qvw, hqe⟩ := hq
    rw [hnumr, hdenr] at hqe
    refine ⟨qvw.1, qvw.2, ?_⟩
    generalize rv (arithmetic.impl_Div_TwoFloat_for_TwoFloat.div
        (arithmetic.impl_Sub_TwoFloat_for_TwoFloat.sub (TwoFloat.exp x)
          (TwoFloat.exp (arithmetic.impl_Neg_for_TwoFloat.neg x)))
        (arithmetic.impl_Add_TwoFloat_for_TwoFloat.add (TwoFloat.exp x)
          (TwoFloat.exp (arithmetic.impl_Neg_for_TwoFloat.neg x)))) = q at *
    generalize rv (TwoFloat.exp x) = a at *
    generalize rv (TwoFloat.exp (arithmetic.impl_Neg_for_TwoFloat.neg x)) = b at *
    by_cases h0 : 0 ≤ rv x
    · have hle : Real.exp (-rv x) ≤ Real.exp (rv x) := Real.exp_le_exp.2 (by linarith)
      have core := C18h.tanh_real hle hB0 (a21 h0) b37 hnum hden hqe
      rw [abs_of_nonneg (div_nonneg (by rw [hNdef]; linarith) hD0.le)]
      exact core
    · have h0' : 0 ≤ -rv x := by linarith [not_le.1 h0]
      have hle : Real.exp (rv x) ≤ Real.exp (-rv x) := Real.exp_le_exp.2 (by linarith)
      have hnum' : |(-nr) - (b - a)| ≤ cA * |b - a| := by
        rw [show -nr - (b - a) = -(nr - (a - b)) by ring, abs_neg, abs_sub_comm b a]; exact hnum
      have hden' : |dr - (b + a)| ≤ cA * |b + a| := by rw [add_comm b a]; exact hden
      have hqe' : |(-q) - (-nr) / dr| ≤ 1 / 2 ^ 102 * |(-nr) / dr| := by
        rw [neg_div, show -q - -(nr / dr) = -(q - nr / dr) by ring, abs_neg, abs_neg]; exact hqe
      have core := C18h.tanh_real hle hA0 (b21 h0') a37 hnum' hden' hqe'
      have e1 : (Real.exp (-rv x) - Real.exp (rv x)) / (Real.exp (-rv x) + Real.exp (rv x)) = -(N / D) := by
        rw [hNdef, hDdef, add_comm (Real.exp (-rv x)), ← neg_div]; congr 1; ring
      rw [e1, show -q - -(N / D) = -(q - N / D) by ring, abs_neg] at core
      have hneg : N / D ≤ 0 := div_nonpos_of_nonpos_of_nonneg (by rw [hNdef]; linarith) hD0.le
      rw [abs_of_nonpos hneg]
      exact core
  · -- a tiny (possibly zero) numerator: the quotient is tiny, and so is `tanh v`
    have hsmall : |nr| < 1 / 2 ^ 948 := not_le.1 hbig
    have hnV : |(arithmetic.impl_Sub_TwoFloat_for_TwoFloat.sub (TwoFloat.exp x)
        (TwoFloat.exp (arithmetic.impl_Neg_for_TwoFloat.neg x))).hi.toInt| ≤ 2 ^ 127 := by
      obtain ⟨b1, -⟩ := PowiBound.hi_bounds numvw.1
      have hV : |(arithmetic.impl_Sub_TwoFloat_for_TwoFloat.sub (TwoFloat.exp x)
          (TwoFloat.exp (arithmetic.impl_Neg_for_TwoFloat.neg x))).V| ≤ 2 ^ 126 := by
        have h3 := hsmall
        rw [← hnumr, rv_abs, div_lt_iff₀ (by positivity)] at h3
        have e : (1 : ℝ) / 2 ^ 948 * 2 ^ 1074 = 2 ^ 126 := by norm_num
        rw [e] at h3
        exact_mod_cast h3.le
      have := abs_nonneg (arithmetic.impl_Sub_TwoFloat_for_TwoFloat.sub (TwoFloat.exp x)
          (TwoFloat.exp (arithmetic.impl_Neg_for_TwoFloat.neg x))).hi.toInt
      norm_num at b1 hV ⊢
      omega
    have hd1 : (1 : ℝ) / 2 ^ 0 ≤ |rv (arithmetic.impl_Add_TwoFloat_for_TwoFloat.add (TwoFloat.exp x)
        (TwoFloat.exp (arithmetic.impl_Neg_for_TwoFloat.neg x)))| := by
      rw [hdenr]
      have e : (1 : ℝ) / 2 ^ 0 = 1 := by norm_num
      rw [e]; linarith only [hD2, d_lo]
    have hd2 : |rv (arithmetic.impl_Add_TwoFloat_for_TwoFloat.add (TwoFloat.exp x)
        (TwoFloat.exp (arithmetic.impl_Neg_for_TwoFloat.neg x)))| ≤ 2 ^ 3 := by
      rw [hdenr]
      have e : (3 : ℝ) ≤ 2 ^ 3 := by norm_num
      linarith only [e, d_hi3]
    obtain ⟨w1, w2, -, -⟩ := Exp2Bound.hi_window denvw.1 (p := 0) (q := 3) (by norm_num) hd1 hd2
    have w1' : (2 : ℤ) ^ 1073 ≤ |(arithmetic.impl_Add_TwoFloat_for_TwoFloat.add (TwoFloat.exp x)
        (TwoFloat.exp (arithmetic.impl_Neg_for_TwoFloat.neg x))).hi.toInt| := w1
    have w2' : |(arithmetic.impl_Add_TwoFloat_for_TwoFloat.add (TwoFloat.exp x)
        (TwoFloat.exp (arithmetic.impl_Neg_for_TwoFloat.neg x))).hi.toInt| ≤ (2 : ℤ) ^ 1078 := w2
    have e1072 : (2 : ℤ) ^ 1072 ≤ 2 ^ 1073 := by norm_num
    obtain ⟨qv, qb⟩ := div_tiny numvw.1 numvw.2 denvw.1 denvw.2 hnV (le_trans e1072 w1') w2'
    refine ⟨qv, div_tt_WF _ _, ?_⟩
    have hq : |rv (arithmetic.impl_Div_TwoFloat_for_TwoFloat.div
        (arithmetic.impl_Sub_TwoFloat_for_TwoFloat.sub (TwoFloat.exp x)
          (TwoFloat.exp (arithmetic.impl_Neg_for_TwoFloat.neg x)))
        (arithmetic.impl_Add_TwoFloat_for_TwoFloat.add (TwoFloat.exp x)
          (TwoFloat.exp (arithmetic.impl_Neg_for_TwoFloat.neg x))))| ≤ 1 / 2 ^ 921 := by
      rw [rv_abs, div_le_iff₀ (by positivity)]
      have : ((|(arithmetic.impl_Div_rTwoFloat_for_rTwoFloat.div
        (arithmetic.impl_Sub_TwoFloat_for_TwoFloat.sub (TwoFloat.exp x)
          (TwoFloat.exp (arithmetic.impl_Neg_for_TwoFloat.neg x)))
        (arithmetic.impl_Add_TwoFloat_for_TwoFloat.add (TwoFloat.exp x)
          (TwoFloat.exp (arithmetic.impl_Neg_for_TwoFloat.neg x)))).V| : ℤ) : ℝ) ≤ 2 ^ 153 := by exact_mod_cast qb
      refine le_trans this ?_
      norm_num
    exact tanh_tiny_real hD2 hab hnum hsmall hq

/-- **Property C18, accuracy of `tanh`, full range**: for every valid `x` with `|x| ≤ 600`, `tanh(x)` is a valid pair
within `2^-100·|tanh x| + 2^-101` of `tanh x` (`C18h.tanh_bound_partial` for `|x| ≥ 2^-90`, `tanh_bound_small` below) -/
theorem tanh_bound (x : TwoFloat) (hv : x.Valid) (hw : x.WF) (h : |val x| ≤ 600) :
    (TwoFloat.tanh x).Valid ∧ (TwoFloat.tanh x).WF ∧
    |val (TwoFloat.tanh x) - Real.tanh (val x)| ≤ |Real.tanh (val x)| / 2 ^ 100 + 1 / 2 ^ 101 := by
  by_cases hlo : 1 / 2 ^ 90 ≤ |val x|
  · exact C18h.tanh_bound_partial x hv hw hlo h
  · exact tanh_bound_small x hv hw (not_le.1 hlo)

/-! ## 5. instances on concrete arguments inside the newly covered slivers -/

section examples

theorem val_of_V {t : TwoFloat} {n : ℤ} (h : t.V = n) : val t = (n : ℝ) / 2 ^ 1074 := by
  show ExpBound.rv t = _
  unfold ExpBound.rv; rw [h]

/-- `1 + 2^-1074 = (1, 2^-1074)`, the valid pair closest to `1` from above -/
def xUp : TwoFloat := ⟨F64.one, fin false 1⟩
/-- `1 − 2^-1074 = (1, −2^-1074)` -/
def xDown : TwoFloat := ⟨F64.one, fin true 1⟩
/-- the smallest positive subnormal `2^-1074` -/
def xMin : TwoFloat := ⟨fin false 1, F64.zero⟩
/-- `1 + 2^-52`, the double after `1` -/
def xNext : TwoFloat := ⟨f64lit 0x3ff0000000000001, F64.zero⟩

theorem val_xUp : val xUp = 1 + 1 / 2 ^ 1074 := by
  rw [val_of_V (show xUp.V = 2 ^ 1074 + 1 by decide +kernel)]
  norm_num

theorem val_xDown : val xDown = 1 - 1 / 2 ^ 1074 := by
  rw [val_of_V (show xDown.V = 2 ^ 1074 - 1 by decide +kernel)]
  norm_num

theorem val_xMin : val xMin = 1 / 2 ^ 1074 := by
  rw [val_of_V (show xMin.V = 1 by decide +kernel)]
  norm_num

theorem val_xNext : val xNext = 1 + 1 / 2 ^ 52 := by
  rw [val_of_V (show xNext.V = 2 ^ 1074 + 2 ^ 1022 by decide +kernel)]
  norm_num

/-- `acosh(1 + 2^-1074)`: inside the sliver `1 < x < 1 + 2^-103` (and below the range `2^-890` of the `sqrt` theorem) -/
example :
    (TwoFloat.acosh xUp).Valid ∧
    |val (TwoFloat.acosh xUp) - Real.arcosh (1 + 1 / 2 ^ 1074)|
      ≤ 1 / 2 ^ 100 * (Real.arcosh (1 + 1 / 2 ^ 1074) + 1 / Real.arcosh (1 + 1 / 2 ^ 1074)) := by
  have h := acosh_bound xUp (by decide +kernel) ⟨by decide +kernel, by decide +kernel⟩
    (by rw [val_xUp]; norm_num) (by rw [val_xUp]; norm_num)
  rwa [val_xUp] at h

/-- `acosh(1 − 2^-1074)` and `acosh(−1 − 2^-52)`: domain errors inside the slivers next to `±1` -/
example : TwoFloat.acosh xDown = TwoFloat.NAN ∧
    TwoFloat.acosh (arithmetic.impl_Neg_for_TwoFloat.neg xNext) = TwoFloat.NAN := by
  refine ⟨acosh_nan_of_lt_one xDown (by decide +kernel) ⟨by decide +kernel, by decide +kernel⟩
    (by rw [val_xDown]; norm_num), ?_⟩
  have hvw : VW (arithmetic.impl_Neg_for_TwoFloat.neg xNext) :=
    LnBound.VW_neg ⟨by decide +kernel, by decide +kernel, by decide +kernel⟩
  have hval : val (arithmetic.impl_Neg_for_TwoFloat.neg xNext) = -(1 + 1 / 2 ^ 52) := by
    show rv _ = _
    rw [LnBound.rv_neg]
    exact congrArg Neg.neg val_xNext
  exact acosh_nan_of_lt_one _ hvw.1 hvw.2 (by rw [hval]; norm_num)

/-- `atanh(1 + 2^-52)`: domain error just outside `[−1, 1]` -/
example : TwoFloat.atanh xNext = TwoFloat.NAN :=
  atanh_nan_of_one_lt_abs xNext (by decide +kernel) ⟨by decide +kernel, by decide +kernel⟩
    (by rw [val_xNext]; norm_num [abs_of_pos]) (by rw [val_xNext]; norm_num [abs_of_pos])

/-- `tanh(2^-1074)`: far inside the range `|x| < 2^-90` excluded by `C18h.tanh_bound_partial` -/
example :
    (TwoFloat.tanh xMin).Valid ∧
    |val (TwoFloat.tanh xMin) - Real.tanh (1 / 2 ^ 1074)| ≤ |Real.tanh (1 / 2 ^ 1074)| / 2 ^ 100 + 1 / 2 ^ 101 := by
  have h := tanh_bound xMin (by decide +kernel) ⟨by decide +kernel, by decide +kernel⟩
    (by rw [val_xMin, abs_of_pos (by positivity)]; norm_num)
  rw [val_xMin] at h
  exact ⟨h.1, h.2.2⟩

end examples

end C18j
