/-
C05x — exact-case clauses of property C05 (division).

All statements are about the exact scaled-integer values (`F64.toInt`, `TwoFloat.V`; unit 2^-1074).  Signs of
zero words are not tracked.

* `div_tf_zero`, `div_tt_zero` : a zero numerator gives the zero pair;
* `div_tf_one`, `div_tf_neg_one`, `div_tt_one`, `div_tt_neg_one` : division by `±1` resp. `(±1, ±0)` returns the
  words of the numerator (negated for `-1`); no range condition;
* `div_tf_pow2_down/up`, `div_tt_pow2_down/up` : division by `±2^m` resp. `±2^-m` (as a double or as a one-word
  pair) is exact word for word as long as both words stay multiples of `2^-1074` resp. the high word does not
  overflow;
* `div_tt_self` : `a / a = (1, 0)` for every valid `a ≠ 0` — no range condition: the long division produces
  `q1 = 1`, remainder `0`, `q2 = q3 = 0`.
-/
import TFV.Lemmas.ArithExact
import TFV.Properties.C05

set_option exponentiation.threshold 3000

namespace C05x

open F64 TwoFloat

/-! ## (a) zero numerator -/

/-- `(±0, ±0) / f = 0` for a finite non-zero double `f` -/
theorem div_tf_zero (x : TwoFloat) (f : F64) (hx : x.Valid) (hV : x.V = 0) (hf : f.is_finite = true)
    (hf0 : f.toInt ≠ 0) :
    (x /. f).hi.toInt = 0 ∧ (x /. f).lo.toInt = 0 ∧ (x /. f).V = 0 ∧ (x /. f).Valid ∧ (x /. f).WF := by
  rw [C05.div_tf_notation]
  have hx0 := hx.words_zero hV
  have h := div_tf_isV_fixed hx0 (IsVal.of_finite hf) hx0.WF_zero hf0 (H := 0) (L := 0)
    (by rw [zero_mul, zero_mul]) (by rw [zero_mul, zero_mul]) zero_facts
  have := h.package (div_tf_WF x f) zero_facts.2.2.2.2
  rwa [add_zero] at this

/-- `(±0, ±0) / y = 0` for a finite pair `y` with a non-zero high word -/
theorem div_tt_zero (x y : TwoFloat) (hx : x.Valid) (hV : x.V = 0)
    (h1 : y.hi.is_finite = true) (h2 : y.lo.is_finite = true) (hy0 : y.hi.toInt ≠ 0) :
    (x /. y).hi.toInt = 0 ∧ (x /. y).lo.toInt = 0 ∧ (x /. y).V = 0 ∧ (x /. y).Valid ∧ (x /. y).WF := by
  rw [C05.div_tt_notation]
  have h := div_tt_zero_isV (hx.words_zero hV) (IsV.of_finite h1 h2) hy0
  have := h.package (div_tt_WF x y) zero_facts.2.2.2.2
  rwa [add_zero] at this

/-! ## (d) divisor `±2^k` (general statements; `±1` are the instances `m = 0`) -/

theorem pow2_ne_zero {σ : Int} {m : Nat} (hσ : σ = 1 ∨ σ = -1) : σ * 2 ^ m * (unit : Int) ≠ 0 := by
  have h1 : σ ≠ 0 := by rcases hσ with rfl | rfl <;> decide
  have h2 : (2 : Int) ^ m ≠ 0 := by positivity
  have h3 : (unit : Int) ≠ 0 := Int.natCast_ne_zero.2 (Nat.pos_iff_ne_zero.1 unit_pos)
  exact mul_ne_zero (mul_ne_zero h1 h2) h3

theorem ne_zero_of_mul_pow2 {vf σ : Int} {m : Nat} (hσ : σ = 1 ∨ σ = -1)
    (h : vf * 2 ^ m = σ * (unit : Int)) : vf ≠ 0 := by
  rintro rfl
  have h1 : σ ≠ 0 := by rcases hσ with rfl | rfl <;> decide
  have h3 : (unit : Int) ≠ 0 := Int.natCast_ne_zero.2 (Nat.pos_iff_ne_zero.1 unit_pos)
  rw [zero_mul] at h
  exact mul_ne_zero h1 h3 h.symm

/-- `x / f` with `f = σ·2^m`, `m ≥ 0`: exact word for word if both words of `x` are multiples of
`2^m · 2^-1074` (no underflow) -/
theorem div_tf_pow2_down (x : TwoFloat) (f : F64) (σ : Int) (m : Nat) (hσ : σ = 1 ∨ σ = -1)
    (hx : x.Valid) (hw : x.WF) (hf : f.is_finite = true) (hfv : f.toInt = σ * 2 ^ m * (unit : Int))
    (hdh : (2 : Int) ^ m ∣ x.hi.toInt) (hdl : (2 : Int) ^ m ∣ x.lo.toInt) :
    (x /. f).hi.toInt * 2 ^ m = σ * x.hi.toInt ∧ (x /. f).lo.toInt * 2 ^ m = σ * x.lo.toInt ∧
    (x /. f).V * 2 ^ m = σ * x.V ∧ (x /. f).Valid ∧ (x /. f).WF := by
  rw [C05.div_tf_notation]
  obtain ⟨H, hH⟩ := hdh
  obtain ⟨L, hL⟩ := hdl
  rw [mul_comm] at hH hL
  obtain ⟨e1, e2, hn⟩ := div_down_data hx hw hσ hfv hH hL
  have h := div_tf_isV_fixed (IsV.of_valid hx) (IsVal.of_finite hf) hw (by rw [hfv]; exact pow2_ne_zero hσ)
    e1 e2 hn
  obtain ⟨p1, p2, p3, p4, p5⟩ := h.package (div_tf_WF x f) hn.2.2.2.2
  refine ⟨by rw [p1, hH]; ring, by rw [p2, hL]; ring, ?_, p4, p5⟩
  rw [p3]; unfold TwoFloat.V; rw [hH, hL]; ring

/-- `x / f` with `f = σ·2^-m` (`f·2^m = σ`): exact word for word if `|x.hi|·2^m` does not overflow -/
theorem div_tf_pow2_up (x : TwoFloat) (f : F64) (σ : Int) (m : Nat) (hσ : σ = 1 ∨ σ = -1)
    (hx : x.Valid) (hw : x.WF) (hf : f.is_finite = true) (hfv : f.toInt * 2 ^ m = σ * (unit : Int))
    (hov : x.hi.toInt.natAbs * 2 ^ m ≤ maxFin) :
    (x /. f).hi.toInt = σ * 2 ^ m * x.hi.toInt ∧ (x /. f).lo.toInt = σ * 2 ^ m * x.lo.toInt ∧
    (x /. f).V = σ * 2 ^ m * x.V ∧ (x /. f).Valid ∧ (x /. f).WF := by
  rw [C05.div_tf_notation]
  obtain ⟨e1, e2, hn⟩ := div_up_data hx hw hσ hfv hov
  have h := div_tf_isV_fixed (IsV.of_valid hx) (IsVal.of_finite hf) hw (ne_zero_of_mul_pow2 hσ hfv) e1 e2 hn
  obtain ⟨p1, p2, p3, p4, p5⟩ := h.package (div_tf_WF x f) hn.2.2.2.2
  exact ⟨p1, p2, by rw [p3]; unfold TwoFloat.V; ring, p4, p5⟩

/-- `x / (σ·2^m, ±0)` through the long division -/
theorem div_tt_pow2_down (x y : TwoFloat) (σ : Int) (m : Nat) (hσ : σ = 1 ∨ σ = -1)
    (hx : x.Valid) (hw : x.WF) (h1 : y.hi.is_finite = true) (h2 : y.lo.is_finite = true)
    (hyv : y.hi.toInt = σ * 2 ^ m * (unit : Int)) (hy0 : y.lo.toInt = 0)
    (hdh : (2 : Int) ^ m ∣ x.hi.toInt) (hdl : (2 : Int) ^ m ∣ x.lo.toInt) :
    (x /. y).hi.toInt * 2 ^ m = σ * x.hi.toInt ∧ (x /. y).lo.toInt * 2 ^ m = σ * x.lo.toInt ∧
    (x /. y).V * 2 ^ m = σ * x.V ∧ (x /. y).Valid ∧ (x /. y).WF := by
  rw [C05.div_tt_notation]
  obtain ⟨H, hH⟩ := hdh
  obtain ⟨L, hL⟩ := hdl
  rw [mul_comm] at hH hL
  obtain ⟨e1, e2, hn⟩ := div_down_data hx hw hσ hyv hH hL
  have h := div_tt_word_isV (IsV.of_valid hx) hw ⟨⟨h1, rfl⟩, ⟨h2, hy0⟩⟩
    (by rw [hyv]; exact pow2_ne_zero hσ) e1 e2 hn
  obtain ⟨p1, p2, p3, p4, p5⟩ := h.package (div_tt_WF x y) hn.2.2.2.2
  refine ⟨by rw [p1, hH]; ring, by rw [p2, hL]; ring, ?_, p4, p5⟩
  rw [p3]; unfold TwoFloat.V; rw [hH, hL]; ring

/-- `x / (σ·2^-m, ±0)` through the long division -/
theorem div_tt_pow2_up (x y : TwoFloat) (σ : Int) (m : Nat) (hσ : σ = 1 ∨ σ = -1)
    (hx : x.Valid) (hw : x.WF) (h1 : y.hi.is_finite = true) (h2 : y.lo.is_finite = true)
    (hyv : y.hi.toInt * 2 ^ m = σ * (unit : Int)) (hy0 : y.lo.toInt = 0)
    (hov : x.hi.toInt.natAbs * 2 ^ m ≤ maxFin) :
    (x /. y).hi.toInt = σ * 2 ^ m * x.hi.toInt ∧ (x /. y).lo.toInt = σ * 2 ^ m * x.lo.toInt ∧
    (x /. y).V = σ * 2 ^ m * x.V ∧ (x /. y).Valid ∧ (x /. y).WF := by
  rw [C05.div_tt_notation]
  obtain ⟨e1, e2, hn⟩ := div_up_data hx hw hσ hyv hov
  have h := div_tt_word_isV (IsV.of_valid hx) hw ⟨⟨h1, rfl⟩, ⟨h2, hy0⟩⟩ (ne_zero_of_mul_pow2 hσ hyv) e1 e2 hn
  obtain ⟨p1, p2, p3, p4, p5⟩ := h.package (div_tt_WF x y) hn.2.2.2.2
  exact ⟨p1, p2, by rw [p3]; unfold TwoFloat.V; ring, p4, p5⟩

/-! ## (b) divisor `±1`: no range condition -/

theorem natAbs_mul_one_le {x : F64} (hw : x.WF) : x.toInt.natAbs * 2 ^ 0 ≤ maxFin := by
  rw [pow_zero, Nat.mul_one]; exact hw.natAbs_toInt_le

/-- `x / 1 = x` word for word -/
theorem div_tf_one (x : TwoFloat) (f : F64) (hx : x.Valid) (hw : x.WF)
    (hf : f.is_finite = true) (hfv : f.toInt = (unit : Int)) :
    (x /. f).hi.toInt = x.hi.toInt ∧ (x /. f).lo.toInt = x.lo.toInt ∧ (x /. f).V = x.V ∧
    (x /. f).Valid ∧ (x /. f).WF := by
  have := div_tf_pow2_up x f 1 0 (Or.inl rfl) hx hw hf (by rw [hfv]; ring) (natAbs_mul_one_le hw.1)
  simpa using this

/-- `x / (-1) = -x` word for word -/
theorem div_tf_neg_one (x : TwoFloat) (f : F64) (hx : x.Valid) (hw : x.WF)
    (hf : f.is_finite = true) (hfv : f.toInt = -(unit : Int)) :
    (x /. f).hi.toInt = -x.hi.toInt ∧ (x /. f).lo.toInt = -x.lo.toInt ∧ (x /. f).V = -x.V ∧
    (x /. f).Valid ∧ (x /. f).WF := by
  have := div_tf_pow2_up x f (-1) 0 (Or.inr rfl) hx hw hf (by rw [hfv]; ring) (natAbs_mul_one_le hw.1)
  simpa using this

/-- `x / (1, ±0) = x` word for word -/
theorem div_tt_one (x y : TwoFloat) (hx : x.Valid) (hw : x.WF)
    (h1 : y.hi.is_finite = true) (h2 : y.lo.is_finite = true)
    (hyv : y.hi.toInt = (unit : Int)) (hy0 : y.lo.toInt = 0) :
    (x /. y).hi.toInt = x.hi.toInt ∧ (x /. y).lo.toInt = x.lo.toInt ∧ (x /. y).V = x.V ∧
    (x /. y).Valid ∧ (x /. y).WF := by
  have := div_tt_pow2_up x y 1 0 (Or.inl rfl) hx hw h1 h2 (by rw [hyv]; ring) hy0 (natAbs_mul_one_le hw.1)
  simpa using this

/-- `x / (-1, ±0) = -x` word for word -/
theorem div_tt_neg_one (x y : TwoFloat) (hx : x.Valid) (hw : x.WF)
    (h1 : y.hi.is_finite = true) (h2 : y.lo.is_finite = true)
    (hyv : y.hi.toInt = -(unit : Int)) (hy0 : y.lo.toInt = 0) :
    (x /. y).hi.toInt = -x.hi.toInt ∧ (x /. y).lo.toInt = -x.lo.toInt ∧ (x /. y).V = -x.V ∧
    (x /. y).Valid ∧ (x /. y).WF := by
  have := div_tt_pow2_up x y (-1) 0 (Or.inr rfl) hx hw h1 h2 (by rw [hyv]; ring) hy0 (natAbs_mul_one_le hw.1)
  simpa using this

/-! ## (c) `a / a = 1` -/

/-- `a / a = (1, 0)` for every valid well-formed `a ≠ 0`, with no range restriction -/
theorem div_tt_self (a : TwoFloat) (ha : a.Valid) (hw : a.WF) (h0 : a.V ≠ 0) :
    (a /. a).hi.toInt = (unit : Int) ∧ (a /. a).lo.toInt = 0 ∧ (a /. a).V = (unit : Int) ∧
    (a /. a).Valid ∧ (a /. a).WF := by
  rw [C05.div_tt_notation]
  have hh : a.hi.toInt ≠ 0 := fun h => h0 (ha.V_zero_iff.2 h)
  have h := div_tt_self_isV ha hw hh
  have := h.package (div_tt_WF a a) (by rw [add_zero, rnI_of_repI repI_unit])
  rwa [add_zero] at this

/-! ## `f64 / TwoFloat` and `recip` in the exact cases -/

/-- `(±0) / y = 0` for a finite pair `y` with a non-zero high word -/
theorem div_ft_zero (f : F64) (y : TwoFloat) (hf : f.is_finite = true) (hf0 : f.toInt = 0)
    (h1 : y.hi.is_finite = true) (h2 : y.lo.is_finite = true) (hy0 : y.hi.toInt ≠ 0) :
    (f /. y).hi.toInt = 0 ∧ (f /. y).lo.toInt = 0 ∧ (f /. y).V = 0 ∧ (f /. y).Valid ∧ (f /. y).WF := by
  rw [C05.div_ft_notation]
  have h := div_ft_zero_isV ⟨hf, hf0⟩ (IsV.of_finite h1 h2) hy0
  have := h.package (div_ft_WF f y) zero_facts.2.2.2.2
  rwa [add_zero] at this

/-- `f / (d, ±0)` when the quotient `H = f / d` is an exactly representable double in range: the result is
`(H, 0)` -/
theorem div_ft_word (f : F64) (y : TwoFloat) (H : Int) (hf : f.is_finite = true) (hwf : f.WF)
    (h1 : y.hi.is_finite = true) (h2 : y.lo.is_finite = true) (hyl : y.lo.toInt = 0) (hy0 : y.hi.toInt ≠ 0)
    (hH : f.toInt * (unit : Int) = H * y.hi.toInt) (hHr : RepI H) (hHm : |H| ≤ (maxFin : Int)) :
    (f /. y).hi.toInt = H ∧ (f /. y).lo.toInt = 0 ∧ (f /. y).V = H ∧ (f /. y).Valid ∧ (f /. y).WF := by
  rw [C05.div_ft_notation]
  have h := div_ft_word_isV (IsVal.of_finite hf) hwf ⟨⟨h1, rfl⟩, ⟨h2, hyl⟩⟩ hy0 hH hHr hHm
  have := h.package (div_ft_WF f y) (by rw [add_zero, rnI_of_repI hHr])
  rwa [add_zero] at this

/-- `f / (1, ±0) = (f, 0)` -/
theorem div_ft_one (f : F64) (y : TwoFloat) (hf : f.is_finite = true) (hwf : f.WF)
    (h1 : y.hi.is_finite = true) (h2 : y.lo.is_finite = true) (hyv : y.hi.toInt = (unit : Int))
    (hyl : y.lo.toInt = 0) :
    (f /. y).hi.toInt = f.toInt ∧ (f /. y).lo.toInt = 0 ∧ (f /. y).V = f.toInt ∧ (f /. y).Valid ∧ (f /. y).WF :=
  div_ft_word f y f.toInt hf hwf h1 h2 hyl
    (by rw [hyv]; exact Int.natCast_ne_zero.2 (Nat.pos_iff_ne_zero.1 unit_pos))
    (by rw [hyv]) hwf.repI hwf.abs_toInt_le

/-- `f / (-1, ±0) = (-f, 0)` -/
theorem div_ft_neg_one (f : F64) (y : TwoFloat) (hf : f.is_finite = true) (hwf : f.WF)
    (h1 : y.hi.is_finite = true) (h2 : y.lo.is_finite = true) (hyv : y.hi.toInt = -(unit : Int))
    (hyl : y.lo.toInt = 0) :
    (f /. y).hi.toInt = -f.toInt ∧ (f /. y).lo.toInt = 0 ∧ (f /. y).V = -f.toInt ∧ (f /. y).Valid ∧
      (f /. y).WF :=
  div_ft_word f y (-f.toInt) hf hwf h1 h2 hyl
    (by rw [hyv]; exact neg_ne_zero.2 (Int.natCast_ne_zero.2 (Nat.pos_iff_ne_zero.1 unit_pos)))
    (by rw [hyv]; ring) hwf.repI.neg (by rw [abs_neg]; exact hwf.abs_toInt_le)

/-- `f / (f, ±0) = (1, 0)` for a finite non-zero double `f` -/
theorem div_ft_self (f : F64) (y : TwoFloat) (hf : f.is_finite = true) (hwf : f.WF) (hf0 : f.toInt ≠ 0)
    (h1 : y.hi.is_finite = true) (h2 : y.lo.is_finite = true) (hyv : y.hi.toInt = f.toInt)
    (hyl : y.lo.toInt = 0) :
    (f /. y).hi.toInt = (unit : Int) ∧ (f /. y).lo.toInt = 0 ∧ (f /. y).V = (unit : Int) ∧ (f /. y).Valid ∧
      (f /. y).WF :=
  div_ft_word f y (unit : Int) hf hwf h1 h2 hyl (by rw [hyv]; exact hf0) (by rw [hyv]; ring)
    repI_unit abs_unit_le_maxFin

/-- `recip (d, ±0) = (1/d, 0)` when `1/d` is an exactly representable double (i.e. `d = ±2^k`) -/
theorem recip_word (y : TwoFloat) (H : Int)
    (h1 : y.hi.is_finite = true) (h2 : y.lo.is_finite = true) (hyl : y.lo.toInt = 0) (hy0 : y.hi.toInt ≠ 0)
    (hH : (unit : Int) * (unit : Int) = H * y.hi.toInt) (hHr : RepI H) (hHm : |H| ≤ (maxFin : Int)) :
    (TwoFloat.recip y).hi.toInt = H ∧ (TwoFloat.recip y).lo.toInt = 0 ∧ (TwoFloat.recip y).V = H ∧
      (TwoFloat.recip y).Valid ∧ (TwoFloat.recip y).WF := by
  rw [C05.recip_eq_one_div, C05.one_lit]
  exact div_ft_word F64.one y H rfl (C08.WF_one false) h1 h2 hyl hy0 hH hHr hHm

/-! ## the clause names of the property sheet -/

alias zero_div_exact := div_tt_zero
alias div_one_exact := div_tf_one
alias div_neg_one_exact := div_tf_neg_one
alias div_self_exact := div_tt_self
alias div_pow2_exact := div_tf_pow2_down

/-! ## instances on concrete values -/

section examples

local instance (t : TwoFloat) : Decidable t.WF := by unfold TwoFloat.WF; infer_instance

def px : TwoFloat := consts.PI
def negOne : F64 := fin true unit
def p10 : F64 := fin false (2 ^ 10 * unit)
def m10 : F64 := fin false (2 ^ 1064)
def zeroT : TwoFloat := ⟨F64.negZero, F64.zero⟩
/-- a pair near the top of the range: `f64::MAX + 2^969` -/
def big : TwoFloat := ⟨F64.MAX, fin false (2 ^ 2043)⟩
/-- a subnormal pair: `3·2^-1074` (one word) -/
def tiny : TwoFloat := ⟨fin true 3, F64.zero⟩

theorem px_ok : px.Valid ∧ px.WF := by decide +kernel
theorem big_ok : big.Valid ∧ big.WF := by decide +kernel
theorem tiny_ok : tiny.Valid ∧ tiny.WF := by decide +kernel
theorem zeroT_ok : zeroT.Valid ∧ zeroT.V = 0 := by decide +kernel

example : (zeroT /. F64.MAX).V = 0 := (div_tf_zero zeroT F64.MAX zeroT_ok.1 zeroT_ok.2 rfl (by decide +kernel)).2.2.1
example : (zeroT /. px).V = 0 := (div_tt_zero zeroT px zeroT_ok.1 zeroT_ok.2 rfl rfl (by decide +kernel)).2.2.1
example : (px /. F64.one).V = px.V := (div_tf_one px F64.one px_ok.1 px_ok.2 rfl rfl).2.2.1
example : (big /. negOne).V = -big.V := (div_tf_neg_one big negOne big_ok.1 big_ok.2 rfl rfl).2.2.1
example : (px /. (⟨F64.one, F64.negZero⟩ : TwoFloat)).V = px.V :=
  (div_tt_one px ⟨F64.one, F64.negZero⟩ px_ok.1 px_ok.2 rfl rfl rfl rfl).2.2.1
example : (tiny /. (⟨negOne, F64.zero⟩ : TwoFloat)).V = -tiny.V :=
  (div_tt_neg_one tiny ⟨negOne, F64.zero⟩ tiny_ok.1 tiny_ok.2 rfl rfl rfl rfl).2.2.1
example : (px /. p10).V * 2 ^ 10 = 1 * px.V :=
  (div_tf_pow2_down px p10 1 10 (Or.inl rfl) px_ok.1 px_ok.2 rfl (by decide +kernel) (by decide +kernel)
    (by decide +kernel)).2.2.1
example : (px /. m10).V = 1 * 2 ^ 10 * px.V :=
  (div_tf_pow2_up px m10 1 10 (Or.inl rfl) px_ok.1 px_ok.2 rfl (by decide +kernel) (by decide +kernel)).2.2.1
example : (px /. (⟨p10, F64.zero⟩ : TwoFloat)).V * 2 ^ 10 = 1 * px.V :=
  (div_tt_pow2_down px ⟨p10, F64.zero⟩ 1 10 (Or.inl rfl) px_ok.1 px_ok.2 rfl rfl (by decide +kernel) rfl
    (by decide +kernel) (by decide +kernel)).2.2.1
example : (px /. (⟨m10, F64.zero⟩ : TwoFloat)).V = 1 * 2 ^ 10 * px.V :=
  (div_tt_pow2_up px ⟨m10, F64.zero⟩ 1 10 (Or.inl rfl) px_ok.1 px_ok.2 rfl rfl (by decide +kernel) rfl
    (by decide +kernel)).2.2.1
example : (px /. px).V = (unit : Int) := (div_tt_self px px_ok.1 px_ok.2 (by decide +kernel)).2.2.1
example : (big /. big).V = (unit : Int) := (div_tt_self big big_ok.1 big_ok.2 (by decide +kernel)).2.2.1
example : (tiny /. tiny).V = (unit : Int) := (div_tt_self tiny tiny_ok.1 tiny_ok.2 (by decide +kernel)).2.2.1

/-- cross-check of `div_tt_self` against direct evaluation of the model, including the extremes of the range -/
example : px /. px = ⟨F64.one, F64.zero⟩ ∧ big /. big = ⟨F64.one, F64.zero⟩ ∧ tiny /. tiny = ⟨F64.one, F64.zero⟩ := by
  decide +kernel

example : (F64.negZero /. px).V = 0 := (div_ft_zero F64.negZero px rfl rfl rfl rfl (by decide +kernel)).2.2.1
example : (px.hi /. (⟨F64.one, F64.zero⟩ : TwoFloat)).V = px.hi.toInt :=
  (div_ft_one px.hi ⟨F64.one, F64.zero⟩ rfl px_ok.2.1 rfl rfl rfl rfl).2.2.1
example : (px.hi /. (⟨negOne, F64.zero⟩ : TwoFloat)).V = -px.hi.toInt :=
  (div_ft_neg_one px.hi ⟨negOne, F64.zero⟩ rfl px_ok.2.1 rfl rfl rfl rfl).2.2.1
example : (F64.MAX /. (⟨F64.MAX, F64.negZero⟩ : TwoFloat)).V = (unit : Int) :=
  (div_ft_self F64.MAX ⟨F64.MAX, F64.negZero⟩ rfl (by decide +kernel) (by decide +kernel) rfl rfl rfl rfl).2.2.1
/-- `recip (2^10, 0) = (2^-10, 0)` -/
example : (TwoFloat.recip ⟨p10, F64.zero⟩).V = 2 ^ 1064 :=
  (recip_word ⟨p10, F64.zero⟩ (2 ^ 1064) rfl rfl rfl (by decide +kernel) (by decide +kernel) (by decide +kernel)
    (by decide +kernel)).2.2.1

/-- the "no underflow" hypothesis of `div_tf_pow2_down` cannot be dropped: `-3·2^-1074 / 2` is `-2·2^-1074` (tie to
even), not `-1.5·2^-1074` -/
example : (tiny /. (fin false (2 * unit))).V = -2 := by decide +kernel

end examples

end C05x
