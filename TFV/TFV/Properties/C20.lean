/-
Properties.C20 — theorems about the hand model of the serde impls (TFV/Hand/Serde.lean).
The hand model is tied to src/serialization.rs and src/format.rs by the correspondence run and by a hash of
the source text; these theorems are about the model.
-/
import TFV.Hand.Serde
import TFV.Properties.C07

namespace C20
open Hand

/-- a successful deserialization (sequence form) yields a valid TwoFloat: both words finite, non-overlapping -/
theorem de_seq_ok_valid (xs : List F64) (hw : ∀ x ∈ xs, x.WF) (t : TwoFloat) (h : deSeq xs = .ok t) : t.Valid := by
  unfold deSeq at h
  split at h
  · rename_i hi lo rest
    cases hf : finish hi lo with
    | error e => rw [hf] at h; cases h
    | ok t' =>
      rw [hf] at h
      by_cases hr : rest.isEmpty = true
      · simp [hr] at h; subst h
        unfold finish at hf
        split at hf
        · rename_i t'' ht
          cases hf
          exact C07.try_from_tuple_valid hi lo (hw hi (by simp)) (hw lo (by simp)) _ ht
        · cases hf
      · simp [hr] at h
  · cases h

/-- … and so does the map form, whatever the order, multiplicity or spelling of the keys -/
theorem mapLoop_wf (kvs : List (String × F64)) (hw : ∀ kv ∈ kvs, kv.2.WF) (h0 l0 : Option F64)
    (hh : ∀ x, h0 = some x → x.WF) (hl : ∀ x, l0 = some x → x.WF) (h l : Option F64)
    (hr : mapLoop kvs h0 l0 = .ok (h, l)) : (∀ x, h = some x → x.WF) ∧ (∀ x, l = some x → x.WF) := by
  induction kvs generalizing h0 l0 with
  | nil =>
    simp [mapLoop] at hr
    obtain ⟨rfl, rfl⟩ := hr
    exact ⟨hh, hl⟩
  | cons kv rest ih =>
    obtain ⟨k, v⟩ := kv
    have hv : v.WF := hw (k, v) (by simp)
    have hw' : ∀ kv ∈ rest, kv.2.WF := fun kv hkv => hw kv (by simp [hkv])
    unfold mapLoop at hr
    split at hr
    · split at hr
      · cases hr
      · exact ih hw' _ _ (by intro x hx; cases hx; exact hv) hl hr
    · split at hr
      · split at hr
        · cases hr
        · exact ih hw' _ _ hh (by intro x hx; cases hx; exact hv) hr
      · cases hr

theorem de_map_ok_valid (kvs : List (String × F64)) (hw : ∀ kv ∈ kvs, kv.2.WF) (t : TwoFloat)
    (h : deMap kvs = .ok t) : t.Valid := by
  unfold deMap at h
  split at h
  · cases h
  · rename_i hi lo hm
    have hwf := mapLoop_wf kvs hw none none (by simp) (by simp) _ _ hm
    unfold finish at h
    split at h
    · rename_i t' ht
      cases h
      exact C07.try_from_tuple_valid hi lo (hwf.1 hi rfl) (hwf.2 lo rfl) _ ht
    · cases h
  · cases h

/-- a successful deserialization returns exactly the words that were presented (sequence form) -/
theorem de_seq_ok_words (xs : List F64) (hw : ∀ x ∈ xs, x.WF) (t : TwoFloat) (h : deSeq xs = .ok t) : xs = [t.hi, t.lo] := by
  unfold deSeq at h
  split at h
  · rename_i hi lo rest
    cases hf : finish hi lo with
    | error e => rw [hf] at h; cases h
    | ok t' =>
      rw [hf] at h
      by_cases hr : rest.isEmpty = true
      · simp [hr] at h; subst h
        have hrest : rest = [] := by simpa using hr
        subst hrest
        unfold finish at hf
        split at hf
        · rename_i t'' ht
          cases hf
          have := (C07.try_from_tuple_ok_iff hi lo (hw hi (by simp)) (hw lo (by simp)) t').1 ht
          rw [this.2]
        · cases hf
      · simp [hr] at h
  · cases h

/-- round trip: what `Serialize` emits deserializes back to the same words — sequence form -/
theorem de_ser_roundtrip_seq (t : TwoFloat) (hw : t.WF) (hv : t.Valid) :
    deSeq ((ser t).2.2.map Prod.snd) = .ok t := by
  have h := (C07.try_from_tuple_ok_iff t.hi t.lo hw.1 hw.2 t).2 ⟨⟨hv.1, hv.2.2⟩, rfl⟩
  simp [ser, deSeq, finish, h]

/-- round trip — map form, fields in the emitted order -/
theorem de_ser_roundtrip_map (t : TwoFloat) (hw : t.WF) (hv : t.Valid) :
    deMap (ser t).2.2 = .ok t := by
  have h := (C07.try_from_tuple_ok_iff t.hi t.lo hw.1 hw.2 t).2 ⟨⟨hv.1, hv.2.2⟩, rfl⟩
  simp [ser, deMap, mapLoop, finish, h]

/-- round trip — map form, fields in the other order -/
theorem de_ser_roundtrip_map_rev (t : TwoFloat) (hw : t.WF) (hv : t.Valid) :
    deMap (ser t).2.2.reverse = .ok t := by
  have h := (C07.try_from_tuple_ok_iff t.hi t.lo hw.1 hw.2 t).2 ⟨⟨hv.1, hv.2.2⟩, rfl⟩
  simp [ser, deMap, mapLoop, finish, h]

/-- overlapping or non-finite words are rejected, never turned into a TwoFloat -/
theorem de_seq_rejects_invalid (hi lo : F64) (hwh : hi.WF) (hwl : lo.WF) (h : ¬ (hi.is_finite = true ∧ F64.addEq hi lo = true)) :
    deSeq [hi, lo] = .error .invalid_value := by
  have := (C07.try_from_tuple_err_iff hi lo hwh hwl TwoFloatError.ConversionError).2 ⟨h, rfl⟩
  simp [deSeq, finish, this]

theorem de_map_rejects_invalid (hi lo : F64) (hwh : hi.WF) (hwl : lo.WF) (h : ¬ (hi.is_finite = true ∧ F64.addEq hi lo = true)) :
    deMap [("hi", hi), ("lo", lo)] = .error .invalid_value := by
  have := (C07.try_from_tuple_err_iff hi lo hwh hwl TwoFloatError.ConversionError).2 ⟨h, rfl⟩
  simp [deMap, mapLoop, finish, this]

/-- wrong arity of the sequence form is an error: too short is `invalid_length`; too long is `invalid_value` when the first
two elements are not a valid pair (the visitor validates them first) and `invalid_length` otherwise -/
theorem de_seq_too_short (xs : List F64) (h : xs.length < 2) : deSeq xs = .error .invalid_length := by
  unfold deSeq
  split
  · simp at h; omega
  · rfl
theorem de_seq_wrong_length (xs : List F64) (h : xs.length ≠ 2) :
    deSeq xs = .error .invalid_length ∨ deSeq xs = .error .invalid_value := by
  unfold deSeq
  split
  · rename_i hi lo rest
    have hr : rest.isEmpty = false := by
      cases rest with
      | nil => simp at h
      | cons a b => rfl
    cases hf : finish hi lo with
    | ok t => left; simp [hr]
    | error e =>
      right
      unfold finish at hf
      split at hf
      · cases hf
      · cases hf; rfl
  · left; rfl
theorem de_seq_wrong_length_rejected (xs : List F64) (h : xs.length ≠ 2) (t : TwoFloat) : deSeq xs ≠ .ok t := by
  rcases de_seq_wrong_length xs h with h' | h' <;> rw [h'] <;> exact fun hh => by cases hh

/-- missing field -/
theorem de_map_missing_lo (hi : F64) : deMap [("hi", hi)] = .error .missing_field := by
  simp [deMap, mapLoop]
theorem de_map_missing_hi (lo : F64) : deMap [("lo", lo)] = .error .missing_field := by
  simp [deMap, mapLoop]
theorem de_map_empty : deMap [] = .error .missing_field := by
  simp [deMap, mapLoop]

/-- duplicate field, wherever it occurs after the first occurrence -/
theorem de_map_duplicate_hi (a b : F64) (rest : List (String × F64)) :
    deMap (("hi", a) :: ("hi", b) :: rest) = .error .duplicate_field := by
  simp [deMap, mapLoop]
theorem de_map_duplicate_lo (a b : F64) (rest : List (String × F64)) :
    deMap (("lo", a) :: ("lo", b) :: rest) = .error .duplicate_field := by
  simp [deMap, mapLoop]

/-- an unknown field is an error as soon as it is met -/
theorem de_map_unknown_first (k : String) (v : F64) (rest : List (String × F64)) (h1 : k ≠ "hi") (h2 : k ≠ "lo") :
    deMap ((k, v) :: rest) = .error .unknown_field := by
  simp [deMap, mapLoop, h1, h2]

/-- the serializer emits a two-field struct named TwoFloat with fields hi, lo in this order -/
theorem ser_shape (t : TwoFloat) : ser t = ("TwoFloat", 2, [("hi", t.hi), ("lo", t.lo)]) := rfl

/-- the sign character of the formatted output is the sign bit of the low word -/
theorem fmt_shape_sign (rhi rlo : String) (lo : F64) :
    fmtShape rhi rlo lo = rhi ++ " " ++ (if F64.is_sign_negative lo then "-" else "+") ++ " " ++ rlo := by
  unfold fmtShape F64.is_sign_positive
  cases F64.is_sign_negative lo <;> rfl

/- non-vacuity: a concrete valid value round-trips, a concrete overlapping pair is rejected -/
example : deSeq [f64lit 0x3ff8000000000000, f64lit 0xbc90000000000000]
    = .ok ⟨f64lit 0x3ff8000000000000, f64lit 0xbc90000000000000⟩ := by decide +kernel
example : deMap [("lo", f64lit 0xbc90000000000000), ("hi", f64lit 0x3ff8000000000000)]
    = .ok ⟨f64lit 0x3ff8000000000000, f64lit 0xbc90000000000000⟩ := by decide +kernel
example : deSeq [f64lit 0x3ff8000000000000, f64lit 0x3ff0000000000000] = .error .invalid_value := by decide +kernel
example : deSeq [f64lit 0x7ff0000000000000, f64lit 0x0000000000000000] = .error .invalid_value := by decide +kernel

end C20
