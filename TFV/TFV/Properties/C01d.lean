/-
Property C01, division part — the long divisions `TwoFloat / TwoFloat`, `f64 / TwoFloat` (hence `recip`, `/=`, `%`,
`div_euclid`, `rem_euclid`, `powi` with negative exponent) preserve the representation invariant.

Main results (`A = toInt a.hi`, `B = toInt b.hi` scaled integers, `U = 2^1074`):

* `div_tt_valid`, `div_ft_valid`, `recip_valid` : for valid operands with high words of magnitude in
  `[2^-450, 2^450]` the result is a VALID well-formed pair (no NaN, no infinity, no overlap);
* `div_tt_valid_of_range`, `div_ft_valid_of_range` : the same under the much weaker `F64.DivRange A B`
  (`2^-1010 ≤ |a.hi| ≤ 2^1016`, `|b.hi| ≤ 2^1016`, `2^-1010 ≤ |a.hi / b.hi| ≤ 2^1016`), and `divRange_of_window`
  (both high words in `[2^-505, 2^505]`);
* `div_tt_words`, `div_ft_words` : the result IS the normalised pair of `q1 + q2`; the third quotient word `q3` is
  dropped by the crate's `renorm3` (which calls `fast_two_sum c u.hi` with the small word first);
* `div_tt_inv`, `div_ft_inv`, `recip_inv` : `Inv` in, `Inv` out (non-finite operands propagate to a non-finite high
  word; finite operands are assumed to be in range);
* `div_assign_tt_inv`, `rem_tt_inv`, `rem_ft_inv`, `div_euclid_inv`, `rem_euclid_inv`, `powi_inv_of_neg`.
-/
import TFV.Lemmas.DivInv
import TFV.Properties.C01
import TFV.Properties.C05

set_option exponentiation.threshold 3000

namespace C01d

open F64 TwoFloat C01

/-! ## non-finite operands -/

theorem renorm3_hi_not_finite {a b c : F64} (h : (F64.add a b).is_finite = false) :
    (arithmetic.renorm3 a b c).hi.is_finite = false := by
  rw [renorm3_eq]
  exact fast_two_sum_hi_not_finite (Or.inl (add_not_finite_right c h))

theorem divTT_hi_not_finite {a b : TwoFloat} (h : a.hi.is_finite = false ∨ b.hi.is_finite = false) :
    (divTT a b).hi.is_finite = false := by
  show (arithmetic.impl_Div_rTwoFloat_for_rTwoFloat.div a b).hi.is_finite = false
  rw [div_tt_eq]
  apply renorm3_hi_not_finite
  rcases h with h | h
  · exact add_not_finite_left _ (div_not_finite_left _ h)
  · apply add_not_finite_right
    apply div_not_finite_left
    show (subTT a (mulTF b (F64.div a.hi b.hi))).hi.is_finite = false
    exact subTT_hi_not_finite (Or.inr (mulTF_hi_not_finite (Or.inl h)))

theorem subFT_hi_not_finite {f : F64} {p : TwoFloat} (h : f.is_finite = false ∨ p.hi.is_finite = false) :
    (subFT f p).hi.is_finite = false := by
  rw [subFT_eq]
  exact fast_two_sum_hi_not_finite (Or.inl (new_sub_hi_not_finite h))

theorem divFT_hi_not_finite {f : F64} {b : TwoFloat} (h : f.is_finite = false ∨ b.hi.is_finite = false) :
    (divFT f b).hi.is_finite = false := by
  show (arithmetic.impl_Div_rTwoFloat_for_rf64.div f b).hi.is_finite = false
  rw [div_ft_eq]
  apply renorm3_hi_not_finite
  rcases h with h | h
  · exact add_not_finite_left _ (div_not_finite_left _ h)
  · apply add_not_finite_right
    apply div_not_finite_left
    exact subFT_hi_not_finite (Or.inr (mulTF_hi_not_finite (Or.inl h)))

/-! ## the operand ranges -/

theorem unit_int_eq : (unit : Int) = 2 ^ 1074 := by
  rw [unit_eq]; push_cast

/-- both high words of magnitude in `[2^-505, 2^505]` (scaled: `[2^569, 2^1579]`) -/
theorem divRange_of_window {A B : Int} (hA1 : 2 ^ 569 ≤ A.natAbs) (hA2 : A.natAbs ≤ 2 ^ 1579)
    (hB1 : 2 ^ 569 ≤ B.natAbs) (hB2 : B.natAbs ≤ 2 ^ 1579) : DivRange A B := by
  have a1 : (2 : Int) ^ 569 ≤ |A| := by rw [Int.abs_eq_natAbs]; exact_mod_cast hA1
  have a2 : |A| ≤ (2 : Int) ^ 1579 := by rw [Int.abs_eq_natAbs]; exact_mod_cast hA2
  have b1 : (2 : Int) ^ 569 ≤ |B| := by rw [Int.abs_eq_natAbs]; exact_mod_cast hB1
  have b2 : |B| ≤ (2 : Int) ^ 1579 := by rw [Int.abs_eq_natAbs]; exact_mod_cast hB2
  have hU : |A * (unit : Int)| = |A| * 2 ^ 1074 := by
    rw [abs_mul_pos_right _ unit_pos_int, unit_int_eq]
  refine ⟨by omega, by omega, by omega, ?_, ?_⟩
  · rw [hU]; omega
  · rw [hU]; omega

/-- the range of property C05: both high words of magnitude in `[2^-450, 2^450]` (scaled: `[2^624, 2^1524]`) -/
theorem divRange_of_450 {A B : Int} (hA1 : 2 ^ 624 ≤ A.natAbs) (hA2 : A.natAbs ≤ 2 ^ 1524)
    (hB1 : 2 ^ 624 ≤ B.natAbs) (hB2 : B.natAbs ≤ 2 ^ 1524) : DivRange A B :=
  divRange_of_window (le_trans (by norm_num) hA1) (le_trans hA2 (by norm_num))
    (le_trans (by norm_num) hB1) (le_trans hB2 (by norm_num))

/-- the range of `recip`: `2^-1016 ≤ |x.hi| ≤ 2^1010` (scaled: `[2^58, 2^2084]`) -/
theorem divRange_one {B : Int} (hB1 : 2 ^ 58 ≤ B.natAbs) (hB2 : B.natAbs ≤ 2 ^ 2084) :
    DivRange (unit : Int) B := by
  have b1 : (2 : Int) ^ 58 ≤ |B| := by rw [Int.abs_eq_natAbs]; exact_mod_cast hB1
  have b2 : |B| ≤ (2 : Int) ^ 2084 := by rw [Int.abs_eq_natAbs]; exact_mod_cast hB2
  have hU : |(unit : Int) * (unit : Int)| = 2 ^ 1074 * 2 ^ 1074 := by
    rw [unit_int_eq, abs_of_pos (by positivity)]
  have hU1 : |(unit : Int)| = 2 ^ 1074 := by rw [unit_int_eq, abs_of_pos (by positivity)]
  refine ⟨by rw [hU1]; norm_num, by rw [hU1]; norm_num, by omega, ?_, ?_⟩
  · rw [hU]; omega
  · rw [hU]; omega

/-! ## TwoFloat / TwoFloat -/

/-- **`TwoFloat / TwoFloat` returns a valid pair** (general range) -/
theorem div_tt_valid_of_range {a b : TwoFloat} (ha : a.Valid) (hwa : a.WF) (hb : b.Valid)
    (R : DivRange a.hi.toInt b.hi.toInt) : (divTT a b).Valid ∧ (divTT a b).WF :=
  TwoFloat.div_tt_valid_of_range ha hwa hb R

/-- **C01 for `TwoFloat / TwoFloat`**: valid well-formed operands whose high words have magnitude in
`[2^-450, 2^450]` (in particular a non-zero divisor) give a VALID well-formed quotient. -/
theorem div_tt_valid (a b : TwoFloat) (ha : a.Valid) (hwa : a.WF) (hb : b.Valid) (_hwb : b.WF)
    (hA1 : 2 ^ 624 ≤ a.hi.toInt.natAbs) (hA2 : a.hi.toInt.natAbs ≤ 2 ^ 1524)
    (hB1 : 2 ^ 624 ≤ b.hi.toInt.natAbs) (hB2 : b.hi.toInt.natAbs ≤ 2 ^ 1524) :
    (divTT a b).Valid ∧ (divTT a b).WF :=
  div_tt_valid_of_range ha hwa hb (divRange_of_450 hA1 hA2 hB1 hB2)

/-- what the long division returns, word for word: the normalised pair of `q1 + q2`, where `q1 = a.hi ⊘ b.hi` and
`q2 = r1.hi ⊘ b.hi`, `r1 = a − b·q1`.  The third quotient digit never reaches the result. -/
theorem div_tt_words {a b : TwoFloat} (ha : a.Valid) (hwa : a.WF) (hb : b.Valid)
    (R : DivRange a.hi.toInt b.hi.toInt) :
    (divTT a b).hi.toInt = rnI ((F64.div a.hi b.hi).toInt + (F64.div (subTT a (mulTF b (F64.div a.hi b.hi))).hi b.hi).toInt) ∧
    (divTT a b).V = (F64.div a.hi b.hi).toInt + (F64.div (subTT a (mulTF b (F64.div a.hi b.hi))).hi b.hi).toInt := by
  have h := TwoFloat.div_tt_isV_of_range ha hwa hb R
  refine ⟨h.1.2, ?_⟩
  rw [h.V_eq]; exact add_sub_cancel _ _

/-- `Inv` in, `Inv` out: non-finite high words propagate; finite (valid) operands are assumed in range -/
theorem div_tt_inv {a b : TwoFloat} (hwa : a.WF) (hia : a.Inv) (hib : b.Inv)
    (R : a.Valid → b.Valid → DivRange a.hi.toInt b.hi.toInt) : (divTT a b).Inv ∧ (divTT a b).WF := by
  refine ⟨?_, div_tt_WF a b⟩
  rcases hia with ha | ha
  · rcases hib with hb | hb
    · exact Or.inl (div_tt_valid_of_range ha hwa hb (R ha hb)).1
    · exact Or.inr (divTT_hi_not_finite (Or.inr hb))
  · exact Or.inr (divTT_hi_not_finite (Or.inl ha))

/-- the `/` notation and both `/=` impls are the same function (`C05.div_assign_tt_ref`) -/
theorem div_assign_tt_inv {a b : TwoFloat} (hwa : a.WF) (hia : a.Inv) (hib : b.Inv)
    (R : a.Valid → b.Valid → DivRange a.hi.toInt b.hi.toInt) :
    (a /. b).Inv ∧
    (arithmetic.impl_DivAssign_rTwoFloat_for_TwoFloat.div_assign a b).Inv ∧
    (arithmetic.impl_DivAssign_TwoFloat_for_TwoFloat.div_assign a b).Inv ∧
    (arithmetic.impl_Div_TwoFloat_for_TwoFloat.div a b).Inv :=
  ⟨(div_tt_inv hwa hia hib R).1, (div_tt_inv hwa hia hib R).1, (div_tt_inv hwa hia hib R).1,
    (div_tt_inv hwa hia hib R).1⟩

/-! ## f64 / TwoFloat and `recip` -/

theorem div_ft_valid_of_range {f : F64} {b : TwoFloat} (hf : f.is_finite = true) (hwf : f.WF) (hb : b.Valid)
    (R : DivRange f.toInt b.hi.toInt) : (divFT f b).Valid ∧ (divFT f b).WF :=
  TwoFloat.div_ft_valid_of_range hf hwf hb R

/-- **C01 for `f64 / TwoFloat`** on the range of property C05 -/
theorem div_ft_valid (f : F64) (b : TwoFloat) (hf : f.is_finite = true) (hwf : f.WF) (hb : b.Valid) (_hwb : b.WF)
    (hA1 : 2 ^ 624 ≤ f.toInt.natAbs) (hA2 : f.toInt.natAbs ≤ 2 ^ 1524)
    (hB1 : 2 ^ 624 ≤ b.hi.toInt.natAbs) (hB2 : b.hi.toInt.natAbs ≤ 2 ^ 1524) :
    (divFT f b).Valid ∧ (divFT f b).WF :=
  div_ft_valid_of_range hf hwf hb (divRange_of_450 hA1 hA2 hB1 hB2)

theorem div_ft_words {f : F64} {b : TwoFloat} (hf : f.is_finite = true) (hwf : f.WF) (hb : b.Valid)
    (R : DivRange f.toInt b.hi.toInt) :
    (divFT f b).V = (F64.div f b.hi).toInt + (F64.div (subFT f (mulTF b (F64.div f b.hi))).hi b.hi).toInt := by
  have h := TwoFloat.div_ft_isV_of_range hf hwf hb R
  rw [h.V_eq]; exact add_sub_cancel _ _

theorem div_ft_inv {f : F64} {b : TwoFloat} (hwf : f.WF) (hib : b.Inv)
    (R : f.is_finite = true → b.Valid → DivRange f.toInt b.hi.toInt) : (divFT f b).Inv ∧ (divFT f b).WF := by
  refine ⟨?_, div_ft_WF f b⟩
  by_cases hf : f.is_finite = true
  · rcases hib with hb | hb
    · exact Or.inl (div_ft_valid_of_range hf hwf hb (R hf hb)).1
    · exact Or.inr (divFT_hi_not_finite (Or.inr hb))
  · exact Or.inr (divFT_hi_not_finite (Or.inl (is_finite_eq_false_iff.2 hf)))

theorem one_isVal : IsVal (f64lit 0x3ff0000000000000) (unit : Int) := by
  rw [C05.one_lit]; exact ⟨rfl, rfl⟩

theorem one_WF : (f64lit 0x3ff0000000000000).WF := by decide +kernel

/-- **`recip` returns a valid pair** for a valid `x` with `2^-1016 ≤ |x.hi| ≤ 2^1010` -/
theorem recip_valid (x : TwoFloat) (hx : x.Valid)
    (hB1 : 2 ^ 58 ≤ x.hi.toInt.natAbs) (hB2 : x.hi.toInt.natAbs ≤ 2 ^ 2084) :
    (TwoFloat.recip x).Valid ∧ (TwoFloat.recip x).WF := by
  rw [C05.recip_eq_one_div_impl]
  exact div_ft_valid_of_range one_isVal.1 one_WF hx (by rw [one_isVal.2]; exact divRange_one hB1 hB2)

theorem recip_inv {x : TwoFloat} (hi : x.Inv)
    (R : x.Valid → 2 ^ 58 ≤ x.hi.toInt.natAbs ∧ x.hi.toInt.natAbs ≤ 2 ^ 2084) :
    (TwoFloat.recip x).Inv ∧ (TwoFloat.recip x).WF ∧
    (num_integration.impl_Inv_for_TwoFloat.inv x).Inv := by
  have h : (TwoFloat.recip x).Inv ∧ (TwoFloat.recip x).WF := by
    rw [C05.recip_eq_one_div_impl]
    exact div_ft_inv one_WF hi (fun _ hv => by rw [one_isVal.2]; exact divRange_one (R hv).1 (R hv).2)
  exact ⟨h.1, h.2, h.1⟩

/-! ## `%`, `div_euclid`, `rem_euclid` -/

/-- `TwoFloat % TwoFloat = a − trunc(a / b)·b` -/
theorem rem_tt_inv {a b : TwoFloat} (hwa : a.WF) (hia : a.Inv) (hib : b.Inv)
    (R : a.Valid → b.Valid → DivRange a.hi.toInt b.hi.toInt) :
    (a %. b).Inv ∧ (a %. b).WF := by
  obtain ⟨qi, qw⟩ := div_tt_inv hwa hia hib R
  obtain ⟨ti, tw⟩ := trunc_inv qw qi
  obtain ⟨mi, mw⟩ := mul_tt_inv ti hib
  exact sub_tt_inv hwa mw hia mi

/-- `f64 % TwoFloat = f − trunc(f / b)·b` -/
theorem rem_ft_inv {f : F64} {b : TwoFloat} (hwf : f.WF) (hib : b.Inv)
    (R : f.is_finite = true → b.Valid → DivRange f.toInt b.hi.toInt) :
    (f %. b).Inv ∧ (f %. b).WF := by
  obtain ⟨qi, qw⟩ := div_ft_inv hwf hib R
  obtain ⟨ti, tw⟩ := trunc_inv qw qi
  obtain ⟨mi, mw⟩ := mul_tt_inv ti hib
  exact sub_f64_tf_inv f mw hwf mi

/-- `%=` is `%` -/
theorem rem_assign_tt_inv {a b : TwoFloat} (hwa : a.WF) (hia : a.Inv) (hib : b.Inv)
    (R : a.Valid → b.Valid → DivRange a.hi.toInt b.hi.toInt) :
    (arithmetic.impl_RemAssign_rTwoFloat_for_TwoFloat.rem_assign a b).Inv ∧
    (arithmetic.impl_RemAssign_TwoFloat_for_TwoFloat.rem_assign a b).Inv :=
  ⟨(rem_tt_inv hwa hia hib R).1, (rem_tt_inv hwa hia hib R).1⟩

theorem div_euclid_inv {a b : TwoFloat} (hwa : a.WF) (hia : a.Inv) (hib : b.Inv)
    (R : a.Valid → b.Valid → DivRange a.hi.toInt b.hi.toInt) :
    (TwoFloat.div_euclid a b).Inv ∧ (TwoFloat.div_euclid a b).WF := by
  obtain ⟨qi, qw⟩ := div_tt_inv hwa hia hib R
  obtain ⟨ti, tw⟩ := trunc_inv qw qi
  unfold TwoFloat.div_euclid
  dsimp only
  split_ifs
  · exact sub_tf_f64_inv _ tw one_WF ti
  · exact add_tf_f64_inv _ tw one_WF ti
  · exact ⟨ti, tw⟩

theorem rem_euclid_inv {a b : TwoFloat} (hwa : a.WF) (hwb : b.WF) (hia : a.Inv) (hib : b.Inv)
    (R : a.Valid → b.Valid → DivRange a.hi.toInt b.hi.toInt) :
    (TwoFloat.rem_euclid a b).Inv ∧ (TwoFloat.rem_euclid a b).WF := by
  obtain ⟨ri, rw⟩ := rem_tt_inv hwa hia hib R
  obtain ⟨ai, aw⟩ := abs_inv hwb hib
  unfold TwoFloat.rem_euclid
  dsimp only
  split_ifs
  · exact add_tt_inv rw aw ri ai
  · exact ⟨ri, rw⟩

/-! ## `powi` with a negative exponent -/

/-- **`powi` with a negative exponent**: `recip` of the positive power (`n = −1`: of `t` itself).  The invariant holds
whenever that positive power, if finite, is in the range of `recip` (`2^-1016 ≤ |·| ≤ 2^1010`). -/
theorem powi_inv_of_neg {t : TwoFloat} (n : I32) (hn : n.v < 0) (hw : t.WF) (hi : t.Inv)
    (R1 : n.v = -1 → t.Valid → 2 ^ 58 ≤ t.hi.toInt.natAbs ∧ t.hi.toInt.natAbs ≤ 2 ^ 2084)
    (R : ∀ r : TwoFloat,
      r = (TwoFloat.powi.loop1 33 (convert.impl_From_f64_for_TwoFloat.from (f64lit 0x3ff0000000000000)) t
        (IntN.unsigned_abs n)).1 → r.Valid → 2 ^ 58 ≤ r.hi.toInt.natAbs ∧ r.hi.toInt.natAbs ≤ 2 ^ 2084) :
    (TwoFloat.powi t n).Inv ∧ (TwoFloat.powi t n).WF := by
  have h1 := from_inv (x := f64lit 0x3ff0000000000000) one_WF
  have nv : ∀ k : Int, (n ==. (IntN.mk k : I32)) = true → n.v = k := by
    intro k hk
    simp only [RPartialEq.eq, IntN.beq, decide_eq_true_eq] at hk
    exact hk
  unfold TwoFloat.powi
  split_ifs with h0 hz h1' hm1 hpos
  · exact absurd (nv 0 h0) (by omega)
  · exact absurd (nv 0 h0) (by omega)
  · exact absurd (nv 1 h1') (by omega)
  · have := recip_inv hi (R1 (nv (-1) hm1))
    exact ⟨this.1, this.2.1⟩
  · exfalso
    have hp : (match RPartialOrd.partial_cmp n (0 : I32) with | some .Greater => true | _ => false) = true := hpos
    simp only [RPartialOrd.partial_cmp] at hp
    have h0' : n.v < (0 : I32).v := hn
    simp [h0'] at hp
  · have key := powi_loop_inv 33 _ t (IntN.unsigned_abs n) h1 ⟨hi, hw⟩
    have R' := R _ rfl
    dsimp only
    rcases hp : TwoFloat.powi.loop1 33 (convert.impl_From_f64_for_TwoFloat.from (f64lit 0x3ff0000000000000)) t
      (IntN.unsigned_abs n) with ⟨r, v, m⟩
    rw [hp] at key R'
    have := recip_inv key.1 R'
    exact ⟨this.1, this.2.1⟩

/-! ## bonus (property C05): the long divisions are accurate to `16 u² = 2^-102`

`q = a / b` computed; `|a − q·b| ≤ 2^-102 |a|`, i.e. `|q − a/b| ≤ 2^-102 |a/b|` (exact real quotient).  Values are
scaled integers in units of `2^-1074`, hence the factor `unit = 2^1074` on the numerator side. -/

/-- general form: `DivRange` plus `|a.hi| ≥ 2^-964`, `|a.hi / b.hi| ≥ 2^-964` -/
theorem div_tt_bound_of_range {a b : TwoFloat} (ha : a.Valid) (hwa : a.WF) (hb : b.Valid)
    (R : DivRange a.hi.toInt b.hi.toInt)
    (hB : 2 ^ 110 * |b.hi.toInt| ≤ |a.hi.toInt * (unit : Int)|) (hA : 2 ^ 110 ≤ |a.hi.toInt|) :
    2 ^ 102 * |a.V * (unit : Int) - (divTT a b).V * b.V| ≤ |a.V * (unit : Int)| :=
  TwoFloat.div_tt_acc ha hwa hb R hB hA

theorem acc_of_450 {A B : Int} (hA1 : 2 ^ 624 ≤ A.natAbs) (hB2 : B.natAbs ≤ 2 ^ 1524) :
    2 ^ 110 * |B| ≤ |A * (unit : Int)| ∧ 2 ^ 110 ≤ |A| := by
  have a1 : (2 : Int) ^ 624 ≤ |A| := by rw [Int.abs_eq_natAbs]; exact_mod_cast hA1
  have b2 : |B| ≤ (2 : Int) ^ 1524 := by rw [Int.abs_eq_natAbs]; exact_mod_cast hB2
  have hU : |A * (unit : Int)| = |A| * 2 ^ 1074 := by
    rw [abs_mul_pos_right _ unit_pos_int, unit_int_eq]
  constructor
  · rw [hU]; omega
  · omega

/-- **C05, `TwoFloat / TwoFloat` (and `/=`): relative error at most `16·2^-106`** for valid operands with high words of
magnitude in `[2^-450, 2^450]` -/
theorem div_tt_bound (a b : TwoFloat) (ha : a.Valid) (hwa : a.WF) (hb : b.Valid) (_hwb : b.WF)
    (hA1 : 2 ^ 624 ≤ a.hi.toInt.natAbs) (hA2 : a.hi.toInt.natAbs ≤ 2 ^ 1524)
    (hB1 : 2 ^ 624 ≤ b.hi.toInt.natAbs) (hB2 : b.hi.toInt.natAbs ≤ 2 ^ 1524) :
    2 ^ 102 * |a.V * (unit : Int) - (divTT a b).V * b.V| ≤ |a.V * (unit : Int)| :=
  div_tt_bound_of_range ha hwa hb (divRange_of_450 hA1 hA2 hB1 hB2) (acc_of_450 hA1 hB2).1 (acc_of_450 hA1 hB2).2

/-- **C05, `f64 / TwoFloat`: relative error at most `16·2^-106`** on the same range -/
theorem div_ft_bound (f : F64) (b : TwoFloat) (hf : f.is_finite = true) (hwf : f.WF) (hb : b.Valid) (_hwb : b.WF)
    (hA1 : 2 ^ 624 ≤ f.toInt.natAbs) (hA2 : f.toInt.natAbs ≤ 2 ^ 1524)
    (hB1 : 2 ^ 624 ≤ b.hi.toInt.natAbs) (hB2 : b.hi.toInt.natAbs ≤ 2 ^ 1524) :
    2 ^ 102 * |f.toInt * (unit : Int) - (divFT f b).V * b.V| ≤ |f.toInt * (unit : Int)| :=
  TwoFloat.div_ft_acc hf hwf hb (divRange_of_450 hA1 hA2 hB1 hB2) (acc_of_450 hA1 hB2).1 (acc_of_450 hA1 hB2).2

/-- **C05, `recip`: relative error at most `16·2^-106`** for a valid `x` with `2^-1016 ≤ |x.hi| ≤ 2^964`:
`|1 − recip(x)·x| ≤ 2^-102` -/
theorem recip_bound (x : TwoFloat) (hx : x.Valid)
    (hB1 : 2 ^ 58 ≤ x.hi.toInt.natAbs) (hB2 : x.hi.toInt.natAbs ≤ 2 ^ 2038) :
    2 ^ 102 * |(unit : Int) * (unit : Int) - (TwoFloat.recip x).V * x.V| ≤ (unit : Int) * (unit : Int) := by
  rw [C05.recip_eq_one_div_impl]
  have b2 : |x.hi.toInt| ≤ (2 : Int) ^ 2038 := by rw [Int.abs_eq_natAbs]; exact_mod_cast hB2
  have hU : |(unit : Int) * (unit : Int)| = 2 ^ 1074 * 2 ^ 1074 := by
    rw [unit_int_eq, abs_of_pos (by positivity)]
  have hU1 : |(unit : Int)| = 2 ^ 1074 := by rw [unit_int_eq, abs_of_pos (by positivity)]
  have key := TwoFloat.div_ft_acc one_isVal.1 one_WF hx
    (by rw [one_isVal.2]; exact divRange_one hB1 (le_trans hB2 (by norm_num)))
    (by rw [one_isVal.2, hU]; omega) (by rw [one_isVal.2, hU1]; norm_num)
  rw [one_isVal.2, abs_of_pos (mul_pos unit_pos_int unit_pos_int)] at key
  exact key

/-! ## stretch (property C05): `TwoFloat / f64` (DWDivFP3) — PARTIAL: constant `17/4` instead of `3` -/

/-- **`TwoFloat / f64` (and `/=`): valid result with relative error at most `(17/4)·2^-106`** for a valid `x` and a
double `c` with high word / value of magnitude in `[2^-450, 2^450]`.
OPEN: the property claims `3·2^-106` (Joldes–Muller–Popescu Thm 4.1); see `F64.div_tf_val_partial` for what is
missing (binade case analysis of the two half-ulp errors, power-of-two divisors). -/
theorem div_tf_f64_bound_partial (x : TwoFloat) (c : F64) (hx : x.Valid) (hwx : x.WF)
    (hc : c.is_finite = true) (hwc : c.WF)
    (hA1 : 2 ^ 624 ≤ x.hi.toInt.natAbs) (hA2 : x.hi.toInt.natAbs ≤ 2 ^ 1524)
    (hB1 : 2 ^ 624 ≤ c.toInt.natAbs) (hB2 : c.toInt.natAbs ≤ 2 ^ 1524) :
    (divTF x c).Valid ∧
    2 ^ 108 * |(divTF x c).V * c.toInt - x.V * (unit : Int)| ≤ 17 * |x.V * (unit : Int)| ∧
    (arithmetic.impl_DivAssign_rf64_for_TwoFloat.div_assign x c) = divTF x c := by
  have a2 : |x.hi.toInt| ≤ (2 : Int) ^ 1524 := by rw [Int.abs_eq_natAbs]; exact_mod_cast hA2
  have hm := two_pow_le_maxFin_int (k := 1525) (by norm_num)
  have hcpos : 0 < c.toInt.natAbs := lt_of_lt_of_le (by positivity) hB1
  have hq : 2 ^ 120 * c.toInt.natAbs ≤ x.hi.toInt.natAbs * unit := by
    rw [unit_eq]
    calc 2 ^ 120 * c.toInt.natAbs ≤ 2 ^ 120 * 2 ^ 1524 := Nat.mul_le_mul_left _ hB2
      _ ≤ 2 ^ 624 * 2 ^ 1074 := by norm_num
      _ ≤ x.hi.toInt.natAbs * 2 ^ 1074 := Nat.mul_le_mul_right _ hA1
  have hr : roundQ (x.hi.toInt.natAbs * unit) c.toInt.natAbs ≤ 2 ^ 1974 := by
    apply roundQ_le_of_le hcpos (rep_two_pow 1974)
    rw [unit_eq]
    calc x.hi.toInt.natAbs * 2 ^ 1074 ≤ 2 ^ 1524 * 2 ^ 1074 := Nat.mul_le_mul_right _ hA2
      _ ≤ 2 ^ 1974 * 2 ^ 624 := by norm_num
      _ ≤ 2 ^ 1974 * c.toInt.natAbs := Nat.mul_le_mul_left _ hB1
  have hov : 2 * roundQ (x.hi.toInt.natAbs * unit) c.toInt.natAbs ≤ maxFin := by
    have h2 : 2 * 2 ^ 1974 ≤ maxFin := le_trans (by norm_num) two_pow_2097_le_maxFin
    omega
  have key := F64.div_tf_val_partial hx hwx hc hwc (le_trans (by norm_num) hB1) (le_trans (by norm_num) hA1)
    (by omega) hq hov
  exact ⟨key.1, key.2, rfl⟩

end C01d
