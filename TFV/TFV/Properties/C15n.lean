/-
C15n (numerical layer of C15) — `log2` with the property's floor, and `ln_1p`: seed, accuracy in the three regimes,
panic-freedom.

Values are real numbers: `val t = (hi + lo) = t.V / 2^1074 : ℝ`, `fval f = f.toInt / 2^1074`; `u² = 2^-106`.

log2  ("|log2(x) − log₂ v| ≤ 2^-101·|log₂ v| + 2^-92 for high word in [2^-1000, 2^960]")
  * `log2_bound_full` — THE CLAUSE IN FULL.  (`log2_bound`: the same on `[2^-999, 2^898]` from the existing `exp2` theorem.)
    `Log2Bound.log2_bound_of` already has the form `C + 4u²·|ℓ|`; on the full range it needs `exp2` on `[−961, 1001]`
    (`Log1pBound.exp2_bound_wide`, `5640u²`): `1.4431·5640 + 11 + 717 = 8867u² ≤ 2^-92 = 16384u²`, `4u² ≤ 2^-101 = 32u²`.

ln_1p ("for −1 < x ≤ 2^960 (x = 0 or |x| ≥ 2^-1000): relative 2^-100 for |x| ≤ 2^-8 and for x ≥ 0.75, 2^-45 otherwise")
  The model is the REPAIRED one: `x ≤ −0.5 ↦ ln(1.0 + x)` (the earlier version of this file proved, as `ln_1p_floor_violated`,
  that without that branch the `2^-45` floor fails close to `−1`; confirmed on the crate, fixed upstream — see §9).
  * THE SEED: `Log1pBound.libm_log1p_coarse` (`|Libm.log1p h − log(1+h)| ≤ 2^-32` for `−1 + 2^-16 ≤ h ≤ 2^999`, relative
    `2^-18` for `|h| ≤ 2^-20`), `seed_err`.
  * `ln_1p_bound_low`           : `−1 < x ≤ −0.5`, `1 + x ≥ 2^-1000` — `2^-101·(1 + |ln(1+v)|)`, hence `2^-45` relative; `1.0 + x` is
                                  EXACT (`one_plus_exact`: Sterbenz for `1 + hi`, error-free Fast2Sum with `lo`), so this is `C15l.ln_bound`
    `ln_1p_bound_mid_neg`       : `−0.5 < x ≤ −2^-8`     — `2^-45`  (needs `em1_neg46`: the Taylor branch of `exp_m1` to `2^-46`)
    `ln_1p_bound_small_partial` : `2^-850 ≤ |x| ≤ 2^-8`  — `2^-100`   (PARTIAL in the range: not `2^-1000 ≤ |x| < 2^-850`)
    `ln_1p_bound_mid_pos`       : `2^-8 ≤ x ≤ 0.75`      — `2^-45`
    `ln_1p_bound_outer`         : `x ≥ 0.75`, `hi ≤ 2^960` — `2^-100`
    `ln_1p_bound_partial`       : the clause assembled on `−1 < x`, `1 + x ≥ 2^-1000`, `hi ≤ 2^960`, `|x| ≥ 2^-850`, with validity of
                                  the result and panic-freedom.
  * `ln_1p_pf` : `ln_1p` never panics on a valid `x` with `hi ≤ 2^960` and `x = 0` or `|x| ≥ 2^-948` (no lower limit on `x`): for
    `x > −0.5` the hypothesis of `C15p.ln_1p_pf_partial` (the intermediate quotient satisfies the invariant) is DISCHARGED — the
    quotient is a valid pair (`Log1pBound.div_any` on top of `C13c.div_tt_valid_any_numerator`).
  * §9: the former counterexample `cx = (−1 + 2^-53, −2^-54 + 2^-106)` on the repaired model: within the floor by the theorem, and
    `cx_result_repaired` by kernel evaluation (the result agrees with `ln(1 + cx)` to `2^-108`).

Error budget of one Newton step `x ← x − (exp_m1(x) − v)/(exp_m1(x) + 1)` from error `e` (`Log1pBound.newton_real`):
  `e² + dM·|1 − e^-x| + 3u²·|ln(1+v)| + (division) 16u²·|e|`.   `|x| ≤ 2^-8`: `54u²·1.008 + 3u² + 4u²(e₁²) < 64u²`;
  `x ≥ 0.75`: `64u²·0.9 + 4u² < 64u²` (`1 − e^-y ≤ 0.9·y` for `y ≥ 0.54`, `g_outer`).
-/
import TFV.Lemmas.Log1pBound
import TFV.Properties.C15m
import TFV.Properties.C14f
import TFV.Properties.C15
import TFV.Properties.C15p
import TFV.Properties.C15l
import Mathlib.Analysis.Complex.ExponentialBounds

set_option exponentiation.threshold 4000

namespace C15n

open F64 TwoFloat ConstBounds ExpBound Exp2Bound Log1pBound

/-- exact real value `hi + lo` of a pair -/
noncomputable abbrev val (t : TwoFloat) : ℝ := ExpBound.rv t

/-- exact real value of a double -/
noncomputable abbrev fval (f : F64) : ℝ := ExpBound.fv f

/-- accuracy of `log2` with the property's floor `2^-101·|log₂ v| + 2^-92` for high words in `[2^-999, 2^898]` (the range
of the existing `exp2` theorem `Exp2Bound.exp2_bound_main`; see `log2_bound_full` for the whole range) -/
theorem log2_bound (x : TwoFloat) (hv : x.Valid) (hw : x.WF)
    (hlo : 1 / 2 ^ 999 ≤ fval x.hi) (hhi : fval x.hi ≤ 2 ^ 898) :
    (TwoFloat.log2 x).Valid ∧
    |val (TwoFloat.log2 x) - Real.log (val x) / Real.log 2|
      ≤ 1 / 2 ^ 101 * |Real.log (val x) / Real.log 2| + 1 / 2 ^ 92 := by
  have hhpos : 0 < fval x.hi := lt_of_lt_of_le (by positivity) hlo
  obtain ⟨h1, h2⟩ := Log2Bound.log2_bound_of C15m.exp2_acc (by positivity) (by norm_num) (η0 := 1 / 2 ^ 24)
    (by positivity) (by norm_num) x hv hw hlo hhi (C15m.seed_ok hv.1 hw.1 hhpos)
  refine ⟨h1.1, le_trans h2 ?_⟩
  obtain ⟨hpos, hnear, _⟩ := LnBound.log_rv_near_hi hv hhpos
  obtain ⟨hc1, hc2⟩ := Log2Bound.log_two_range
  have hc0 : 0 < Real.log 2 := by linarith
  obtain ⟨g1, g2⟩ := Log2Bound.log2_hi_range hlo (le_trans hhi (by norm_num))
  have hnear2 : |Real.log (val x) / Real.log 2 - Real.log (fval x.hi) / Real.log 2| ≤ 1 := by
    rw [← sub_div, abs_div, abs_of_pos hc0, div_le_iff₀ hc0]
    refine le_trans hnear ?_
    have : (1 : ℝ) / 2 ^ 52 ≤ 1 * (693 / 1000) := by norm_num
    linarith
  obtain ⟨n1, n2⟩ := abs_le.1 hnear2
  exact Log1pBound.log2_floor_arith (abs_le.2 ⟨by linarith, by linarith⟩)


/-- **Property C15, accuracy of `log2` — the clause in full**: for every valid `x` with high word in `[2^-1000, 2^960]`,
`|log2(x) − log₂ v| ≤ 2^-101·|log₂ v| + 2^-92`.  (Uses `Log1pBound.exp2_bound_wide`: `exp2` within `5640u²` on
`[−961, 1001]`.) -/
theorem log2_bound_full (x : TwoFloat) (hv : x.Valid) (hw : x.WF)
    (hlo : 1 / 2 ^ 1000 ≤ fval x.hi) (hhi : fval x.hi ≤ 2 ^ 960) :
    (TwoFloat.log2 x).Valid ∧
    |val (TwoFloat.log2 x) - Real.log (val x) / Real.log 2|
      ≤ 1 / 2 ^ 101 * |Real.log (val x) / Real.log 2| + 1 / 2 ^ 92 := by
  have hhpos : 0 < fval x.hi := lt_of_lt_of_le (by positivity) hlo
  obtain ⟨h1, h2⟩ := Log1pBound.log2_bound_ofW Log1pBound.exp2_accW (by positivity) (by norm_num) (η0 := 1 / 2 ^ 24)
    (by positivity) (by norm_num) x hv hw hlo hhi (C15m.seed_ok hv.1 hw.1 hhpos)
  refine ⟨h1.1, le_trans h2 ?_⟩
  obtain ⟨hpos, hnear, _⟩ := LnBound.log_rv_near_hi hv hhpos
  obtain ⟨hc1, hc2⟩ := Log2Bound.log_two_range
  have hc0 : 0 < Real.log 2 := by linarith
  have g1 : -1000 ≤ Real.log (fval x.hi) / Real.log 2 := by
    have := Real.log_le_log (by positivity) hlo
    rw [one_div, Real.log_inv, Real.log_pow] at this
    rw [le_div_iff₀ hc0]
    push_cast at this
    linarith
  have g2 : Real.log (fval x.hi) / Real.log 2 ≤ 960 := by
    have := Real.log_le_log hhpos hhi
    rw [Real.log_pow] at this
    rw [div_le_iff₀ hc0]
    push_cast at this
    linarith
  have hnear2 : |Real.log (val x) / Real.log 2 - Real.log (fval x.hi) / Real.log 2| ≤ 1 := by
    rw [← sub_div, abs_div, abs_of_pos hc0, div_le_iff₀ hc0]
    refine le_trans hnear ?_
    have : (1 : ℝ) / 2 ^ 52 ≤ 1 * (693 / 1000) := by norm_num
    linarith
  obtain ⟨n1, n2⟩ := abs_le.1 hnear2
  exact Log1pBound.log2_floor_arithW (abs_le.2 ⟨by linarith, by linarith⟩)

/-! ## `ln_1p` -/

/-! ### 1. `G ≥ |e^x − 1|/e^x` in the three regimes -/

theorem g_abs {x : ℝ} (h : |x| ≤ 1) : |Real.exp x - 1| ≤ |x| * (1 + |x|) * Real.exp x := by
  have hA := Real.exp_pos x
  have h1 : |-x| ≤ 1 := by rwa [abs_neg]
  have h2 := Real.abs_exp_sub_one_sub_id_le h1
  have e : Real.exp x - 1 = -(Real.exp x * (Real.exp (-x) - 1)) := by
    rw [mul_sub, ← Real.exp_add]; simp
  rw [e, abs_neg, abs_mul, abs_of_pos hA, mul_comm]
  apply mul_le_mul_of_nonneg_right _ hA.le
  have h3 := abs_sub_abs_le_abs_sub (Real.exp (-x) - 1) (-x)
  rw [abs_neg] at h3
  have e2 : (-x) ^ 2 = |x| * |x| := by rw [neg_sq, ← sq_abs, sq]
  rw [e2] at h2
  have e3 : |x| * (1 + |x|) = |x| + |x| * |x| := by ring
  rw [e3]; linarith

theorem g_pos_mid {x : ℝ} (h0 : 0 ≤ x) (h1 : x ≤ 9 / 10) :
    |Real.exp x - 1| ≤ x * (1 - 3 / 10 * x) * Real.exp x := by
  have hA := Real.exp_pos x
  have hb := Real.exp_bound (x := -x) (by rw [abs_neg, abs_of_nonneg h0]; linarith) (n := 3) (by norm_num)
  simp only [Finset.sum_range_succ, Finset.sum_range_zero, Nat.factorial, abs_neg, abs_of_nonneg h0] at hb
  norm_num at hb
  have hlow := (abs_le.1 hb).1
  have hge : 1 ≤ Real.exp x := by have := Real.add_one_le_exp x; linarith
  rw [abs_of_nonneg (by linarith)]
  have e : Real.exp x - 1 = Real.exp x * (1 - Real.exp (-x)) := by
    rw [mul_sub, ← Real.exp_add]; simp
  rw [e, mul_comm]
  apply mul_le_mul_of_nonneg_right _ hA.le
  nlinarith [mul_nonneg h0 h0, mul_nonneg (mul_nonneg h0 h0) h0]

theorem mhLo_ge : (6065 : ℚ) / 10000 ≤ LnBound.mhLo := by decide +kernel
theorem mhHi_le : LnBound.mhHi ≤ (6066 : ℚ) / 10000 := by decide +kernel

theorem g_outer {x : ℝ} (h : 27 / 50 ≤ x) : |Real.exp x - 1| ≤ 9 / 10 * x * Real.exp x := by
  have hA := Real.exp_pos x
  have hge : 1 ≤ Real.exp x := by have := Real.add_one_le_exp x; linarith
  rw [abs_of_nonneg (by linarith)]
  have e : Real.exp x - 1 = Real.exp x * (1 - Real.exp (-x)) := by
    rw [mul_sub, ← Real.exp_add]; simp
  rw [e, mul_comm]
  apply mul_le_mul_of_nonneg_right _ hA.le
  by_cases hx : x ≤ 3 / 2
  · obtain ⟨c1, c2⟩ := LnBound.exp_neg_half_encl
    have c1' : (6065 : ℝ) / 10000 ≤ Real.exp (-1 / 2) := by
      have := (Rat.cast_le (K := ℝ)).2 mhLo_ge
      push_cast at this; linarith
    have c2' : Real.exp (-1 / 2) ≤ 6066 / 10000 := by
      have := (Rat.cast_le (K := ℝ)).2 mhHi_le
      push_cast at this; linarith
    have ht := Real.add_one_le_exp (-(x - 1 / 2))
    have hsplit : Real.exp (-x) = Real.exp (-1 / 2) * Real.exp (-(x - 1 / 2)) := by
      rw [← Real.exp_add]; congr 1; ring
    have hc0 := Real.exp_pos (-1 / 2)
    have : Real.exp (-1 / 2) * (-(x - 1 / 2) + 1) ≤ Real.exp (-x) := by
      rw [hsplit]; exact mul_le_mul_of_nonneg_left ht hc0.le
    nlinarith
  · have := Real.exp_pos (-x)
    linarith [not_le.1 hx]

theorem g_neg {A : ℝ} (hA : 1 / 2 ^ 17 ≤ A) : |A - 1| ≤ 2 ^ 18 * A := by
  have hA0 : 0 < A := lt_of_lt_of_le (by positivity) hA
  rw [abs_le]
  constructor <;> nlinarith

/-! ### 2. the accuracy of `exp_m1` in the form used by the Newton step -/

/-- accuracy `dM` of `exp_m1` at `x` -/
def Em1 (x : TwoFloat) (dM : ℝ) : Prop :=
  VW (TwoFloat.exp_m1 x) ∧ |val (TwoFloat.exp_m1 x) - (Real.exp (val x) - 1)| ≤ dM * |Real.exp (val x) - 1|

theorem exp_m1_WF (x : TwoFloat) : (TwoFloat.exp_m1 x).WF := by
  unfold TwoFloat.exp_m1
  split_ifs
  · exact PF.sub_tf_WF _ _
  · exact PF.mul_tt_WF _ _
  · exact PF.mul_tt_WF _ _

/-- the Taylor branch for `|x| ≤ 2^-7` (`C14f.exp_m1_bound_small_54_partial` is stated for `|x| ≤ 2^-8`; the proof is the
same — the Horner analysis `ExpBound.horner_inv` covers `|x| ≤ 1/128`): relative error `54u²` -/
theorem em1_small128 (x : TwoFloat) (hv : x.Valid) (hw : x.WF) (h8 : |val x| ≤ 1 / 2 ^ 7)
    (hlo : val x = 0 ∨ 1 / 2 ^ 950 ≤ |val x|) :
    VW (TwoFloat.exp_m1 x) ∧
    |val (TwoFloat.exp_m1 x) - (Real.exp (val x) - 1)| ≤ 54 / 2 ^ 106 * |Real.exp (val x) - 1| := by
  have hU : (0 : ℝ) < 2 ^ 1074 := by positivity
  change |rv x| ≤ 1 / 2 ^ 7 at h8
  change rv x = 0 ∨ 1 / 2 ^ 950 ≤ |rv x| at hlo
  show VW (TwoFloat.exp_m1 x) ∧
    |rv (TwoFloat.exp_m1 x) - (Real.exp (rv x) - 1)| ≤ 54 / 2 ^ 106 * |Real.exp (rv x) - 1|
  have hVabs : |x.V| ≤ 2 ^ 1067 := by
    have := V_abs_le_of_rv (t := x) (k := 0) (le_trans h8 (by norm_num))
    have h' : ((|x.V| : ℤ) : ℝ) ≤ 2 ^ 1067 := by
      have h9 := h8
      show ((|x.V| : ℤ) : ℝ) ≤ 2 ^ 1067
      rw [rv_abs, div_le_iff₀ hU] at h9
      calc ((|x.V| : ℤ) : ℝ) ≤ 1 / 2 ^ 7 * 2 ^ 1074 := h9
        _ = 2 ^ 1067 := by norm_num
    exact_mod_cast h'
  obtain ⟨v1, v2⟩ := abs_le.1 hVabs
  have hsw : ¬ (((ROrd.isLt (base.impl_PartialOrd_TwoFloat_for_TwoFloat.partial_cmp x (C14f.negf consts.LN_2))) ||
      (ROrd.isGt (base.impl_PartialOrd_TwoFloat_for_TwoFloat.partial_cmp x explog.LN_FRAC_3_2))) = true) := by
    rw [C14f.exp_m1_switch x hv hw]
    have a1 := C14f.negLN2_facts.2.2
    have a2 := C14f.LN32_facts.2.2
    have e1 : (2 : ℤ) ^ 1073 = 64 * 2 ^ 1067 := by norm_num
    have e2 : (2 : ℤ) ^ 1072 = 32 * 2 ^ 1067 := by norm_num
    have hp : (0 : ℤ) < 2 ^ 1067 := by positivity
    rw [e1] at a1; rw [e2] at a2
    generalize (2 : ℤ) ^ 1067 = T at *
    omega
  unfold TwoFloat.exp_m1
  rw [if_neg hsw]
  dsimp only
  rw [polyFold_eq]
  obtain ⟨avw, harv⟩ := abs_rv' ⟨hv, hw⟩
  obtain ⟨c1, c2, -⟩ := abs_cases hv
  have h128 : |rv (TwoFloat.abs x)| ≤ 1 / 128 := by
    rw [harv, _root_.abs_abs]; exact le_trans h8 (by norm_num)
  have hrvw := C14f.r_vw avw h128
  rcases lt_trichotomy x.V 0 with hneg | hzero | hpos
  · -- x < 0
    rw [if_pos ((C14f.lt_zero_switch x hv).2 hneg)]
    have hxneg : rv x < 0 := div_neg_of_neg_of_pos (by exact_mod_cast hneg) hU
    have hxabs : |rv x| = -rv x := abs_of_neg hxneg
    set t := rv (TwoFloat.abs x) with htdef
    have ht : t = -rv x := by rw [harv, hxabs]
    have ht0 : 0 < t := by rw [ht]; linarith
    have ht128 : t ≤ 1 / 128 := by
      have := h128; rw [abs_of_pos ht0] at this; exact this
    have hlo' : 1 / 2 ^ 950 ≤ t := by
      rcases hlo with h | h
      · exfalso; linarith
      · rw [ht, ← hxabs]; exact h
    obtain ⟨wvw, hw1⟩ := expm1_kernel avw ⟨hv, hw⟩ (by rw [hxabs, ← ht]) ht128 hlo'
    generalize arithmetic.impl_Mul_TwoFloat_for_TwoFloat.mul x (arithmetic.impl_Add_f64_for_TwoFloat.add
      (arithmetic.impl_Mul_TwoFloat_for_TwoFloat.mul (TwoFloat.abs x) (hp (TwoFloat.abs x) 12))
      (f64lit 0x3ff0000000000000)) = w at *
    rw [← htdef] at hw1
    obtain ⟨tay, tge⟩ := C14f.taylor_pos ht0 ht128
    set A := Real.exp t - 1 with hA
    have hA0 : 0 < A := by linarith
    -- -w ≈ A
    have hwA : |(-rv w) - A| ≤ 931 / 100 / 2 ^ 106 * A := by
      have e : rv x * (t * PR t 12 + 1) = -(t * (t * PR t 12 + 1)) := by rw [ht]; ring
      rw [e, hxabs, ← ht] at hw1
      have h1 := abs_add_le (-(rv w - -(t * (t * PR t 12 + 1)))) (t * (t * PR t 12 + 1) - A)
      rw [abs_neg, show -(rv w - -(t * (t * PR t 12 + 1))) + (t * (t * PR t 12 + 1) - A) = -rv w - A by ring] at h1
      have h2 : (93 : ℝ) / 10 / 2 ^ 106 * t ≤ 93 / 10 / 2 ^ 106 * A := mul_le_mul_of_nonneg_left tge (by positivity)
      have e2 : (93 : ℝ) / 10 / 2 ^ 106 * A + 1 / 100 / 2 ^ 106 * A = 931 / 100 / 2 ^ 106 * A := by ring
      linarith
    -- exp x
    obtain ⟨Evw, hE⟩ := exp_bound_37 x hv hw (by linarith) (by linarith)
    have hB0 := Real.exp_pos (rv x)
    have hBr : 99 / 100 ≤ Real.exp (rv x) ∧ Real.exp (rv x) ≤ 1 := by
      constructor
      · have := Real.add_one_le_exp (rv x); linarith
      · rw [← Real.exp_zero]; exact Real.exp_le_exp.2 hxneg.le
    have hAle : A ≤ 2 * t := by
      have := Real.abs_exp_sub_one_le (x := t) (by rw [abs_of_pos ht0]; linarith)
      rw [abs_of_pos ht0] at this
      exact (abs_le.1 this).2
    -- the final product
    have hwabs : 99 / 100 * A ≤ |rv w| ∧ |rv w| ≤ 101 / 100 * A := by
      have h3 := abs_sub_abs_le_abs_sub (-rv w) A
      have h4 := abs_sub_abs_le_abs_sub A (-rv w)
      rw [abs_sub_comm A] at h4
      rw [abs_neg, abs_of_pos hA0] at h3 h4
      have : (931 : ℝ) / 100 / 2 ^ 106 * A ≤ 1 / 100 * A := mul_le_mul_of_nonneg_right (by norm_num) hA0.le
      constructor <;> linarith
    have hEabs : 98 / 100 ≤ |rv (TwoFloat.exp x)| ∧ |rv (TwoFloat.exp x)| ≤ 101 / 100 := by
      have h3 := abs_sub_abs_le_abs_sub (rv (TwoFloat.exp x)) (Real.exp (rv x))
      have h4 := abs_sub_abs_le_abs_sub (Real.exp (rv x)) (rv (TwoFloat.exp x))
      rw [abs_sub_comm (Real.exp (rv x))] at h4
      rw [abs_of_pos hB0] at h3 h4
      have : (37 : ℝ) / 2 ^ 106 * Real.exp (rv x) ≤ 1 / 100 := by
        have : (37 : ℝ) / 2 ^ 106 ≤ 1 / 100 := by norm_num
        nlinarith [hBr.2]
      constructor <;> linarith [hBr.1, hBr.2]
    have hp1 : |rv w * rv (TwoFloat.exp x)| ≤ 2 ^ 1019 := by
      rw [abs_mul]
      calc |rv w| * |rv (TwoFloat.exp x)| ≤ (101 / 100 * A) * (101 / 100) :=
            mul_le_mul hwabs.2 hEabs.2 (abs_nonneg _) (by positivity)
        _ ≤ (101 / 100 * (2 * (1 / 128))) * (101 / 100) := by
            apply mul_le_mul_of_nonneg_right _ (by norm_num)
            apply mul_le_mul_of_nonneg_left _ (by norm_num)
            linarith
        _ ≤ 2 ^ 1019 := by norm_num
    have hp0 : 1 / 2 ^ 957 ≤ |rv w * rv (TwoFloat.exp x)| := by
      rw [abs_mul]
      calc (1 : ℝ) / 2 ^ 957 ≤ (99 / 100 * (1 / 2 ^ 950)) * (98 / 100) := by norm_num
        _ ≤ (99 / 100 * A) * (98 / 100) := by
            apply mul_le_mul_of_nonneg_right _ (by norm_num)
            apply mul_le_mul_of_nonneg_left _ (by norm_num)
            linarith
        _ ≤ |rv w| * |rv (TwoFloat.exp x)| := mul_le_mul hwabs.1 hEabs.1 (by norm_num) (abs_nonneg _)
    obtain ⟨resvw, hres⟩ := mul_rv_rel wvw Evw hp0 hp1
    refine ⟨resvw, ?_⟩
    generalize rv (arithmetic.impl_Mul_TwoFloat_for_TwoFloat.mul w (TwoFloat.exp x)) = res at *
    have hres' : |(-res) - (-rv w) * rv (TwoFloat.exp x)| ≤ 7 / 2 ^ 106 * |(-rv w) * rv (TwoFloat.exp x)| := by
      rw [show -res - -rv w * rv (TwoFloat.exp x) = -(res - rv w * rv (TwoFloat.exp x)) by ring, abs_neg,
        neg_mul, abs_neg]
      exact hres
    have core := prod_rel_gen hA0 hB0 hwA hE hres' (by positivity) (by positivity) (ε := 54 / 2 ^ 106) (by norm_num)
    have eAB : A * Real.exp (rv x) = -(Real.exp (rv x) - 1) := by
      have : Real.exp t * Real.exp (rv x) = 1 := by rw [← Real.exp_add, ht]; simp
      rw [hA, sub_mul, this]; ring
    rw [eAB] at core
    rw [show -res - -(Real.exp (rv x) - 1) = -(res - (Real.exp (rv x) - 1)) by ring, abs_neg] at core
    have hneg1 : Real.exp (rv x) - 1 < 0 := by
      have : Real.exp (rv x) < 1 := by rw [← Real.exp_zero]; exact Real.exp_lt_exp.2 hxneg
      linarith
    rw [abs_of_neg hneg1]
    exact core
  · -- x = 0
    have hnl : ¬ ROrd.isLt (base.impl_PartialOrd_f64_for_TwoFloat.partial_cmp x (f64lit 0x0000000000000000)) = true := by
      rw [C14f.lt_zero_switch x hv]; omega
    rw [if_neg hnl]
    obtain ⟨-, -, z3, z4, z5⟩ := C04x.mul_tt_zero_left x _ hv hzero hrvw.1.1 hrvw.1.2.1
    refine ⟨⟨z4, z5⟩, ?_⟩
    have hx0 : rv x = 0 := by unfold rv; rw [hzero]; simp
    have hr0 : rv (arithmetic.impl_Mul_TwoFloat_for_TwoFloat.mul x (arithmetic.impl_Add_f64_for_TwoFloat.add
      (arithmetic.impl_Mul_TwoFloat_for_TwoFloat.mul (TwoFloat.abs x) (hp (TwoFloat.abs x) 12))
      (f64lit 0x3ff0000000000000))) = 0 := by
      unfold rv
      have : (arithmetic.impl_Mul_TwoFloat_for_TwoFloat.mul x (arithmetic.impl_Add_f64_for_TwoFloat.add
        (arithmetic.impl_Mul_TwoFloat_for_TwoFloat.mul (TwoFloat.abs x) (hp (TwoFloat.abs x) 12))
        (f64lit 0x3ff0000000000000))).V = 0 := z3
      rw [this]; simp
    rw [hr0, hx0, Real.exp_zero]
    norm_num
  · -- x > 0
    have hnl : ¬ ROrd.isLt (base.impl_PartialOrd_f64_for_TwoFloat.partial_cmp x (f64lit 0x0000000000000000)) = true := by
      rw [C14f.lt_zero_switch x hv]; omega
    rw [if_neg hnl, c1 hpos]
    rw [c1 hpos] at harv
    have hxpos : 0 < rv x := div_pos (by exact_mod_cast hpos) hU
    have hxabs : |rv x| = rv x := abs_of_pos hxpos
    have ht128 : rv x ≤ 1 / 128 := by
      rw [hxabs] at h8; exact le_trans h8 (by norm_num)
    have hlo' : 1 / 2 ^ 950 ≤ rv x := by
      rcases hlo with h | h
      · exfalso; linarith
      · rw [hxabs] at h; exact h
    obtain ⟨wvw, hw1⟩ := expm1_kernel ⟨hv, hw⟩ ⟨hv, hw⟩ hxabs ht128 hlo'
    refine ⟨wvw, ?_⟩
    obtain ⟨tay, tge⟩ := C14f.taylor_pos hxpos ht128
    generalize rv (arithmetic.impl_Mul_TwoFloat_for_TwoFloat.mul x (arithmetic.impl_Add_f64_for_TwoFloat.add
      (arithmetic.impl_Mul_TwoFloat_for_TwoFloat.mul x (hp x 12)) (f64lit 0x3ff0000000000000))) = w at *
    rw [hxabs] at hw1
    have hA0 : 0 < Real.exp (rv x) - 1 := by linarith
    rw [abs_of_pos hA0]
    have h1 := abs_add_le (w - rv x * (rv x * PR (rv x) 12 + 1)) (rv x * (rv x * PR (rv x) 12 + 1) - (Real.exp (rv x) - 1))
    rw [show w - rv x * (rv x * PR (rv x) 12 + 1) + (rv x * (rv x * PR (rv x) 12 + 1) - (Real.exp (rv x) - 1))
      = w - (Real.exp (rv x) - 1) by ring] at h1
    have h2 : (93 : ℝ) / 10 / 2 ^ 106 * rv x ≤ 93 / 10 / 2 ^ 106 * (Real.exp (rv x) - 1) :=
      mul_le_mul_of_nonneg_left tge (by positivity)
    have h3 : (93 : ℝ) / 10 / 2 ^ 106 * (Real.exp (rv x) - 1) + 1 / 100 / 2 ^ 106 * (Real.exp (rv x) - 1)
        ≤ 54 / 2 ^ 106 * (Real.exp (rv x) - 1) := by
      rw [← add_mul]; exact mul_le_mul_of_nonneg_right (by norm_num) hA0.le
    linarith


theorem em1_small {x : TwoFloat} (hx : VW x) (h7 : |val x| ≤ 1 / 2 ^ 7) (hlo : 1 / 2 ^ 950 ≤ |val x|) :
    Em1 x (54 / 2 ^ 106) := em1_small128 x hx.1 hx.2 h7 (Or.inr hlo)

/-- every branch: `2^-45`, and `2^-100` outside `[−0.70, 0.41]` -/
theorem em1_any {x : TwoFloat} (hx : VW x) (h1 : -600 ≤ val x) (h2 : val x ≤ 700) (hlo : 1 / 2 ^ 950 ≤ |val x|) :
    Em1 x (1 / 2 ^ 45) ∧ ((val x ≤ -(7 / 10) ∨ 41 / 100 ≤ val x) → Em1 x (1 / 2 ^ 100)) := by
  obtain ⟨a, b, c⟩ := C14f.exp_m1_bound_partial x hx.1 hx.2 h1 h2 (Or.inr hlo)
  refine ⟨⟨⟨a, exp_m1_WF x⟩, ?_⟩, fun h => ⟨⟨a, exp_m1_WF x⟩, ?_⟩⟩
  · rw [one_div_mul_eq_div]; exact c
  · rw [one_div_mul_eq_div]; exact b (Or.inr h)


/-! ### 3. the generic branch of `ln_1p` as two Newton steps -/

theorem ln_1p_eq_steps (v : TwoFloat)
    (h1 : base.impl_PartialEq_f64_for_TwoFloat.eq v (f64lit 0x0000000000000000) = false)
    (h2 : ROrd.isLe (base.impl_PartialOrd_f64_for_TwoFloat.partial_cmp v (F64.neg (f64lit 0x3ff0000000000000))) = false)
    (h3 : ROrd.isLe (base.impl_PartialOrd_f64_for_TwoFloat.partial_cmp v (F64.neg (f64lit 0x3fe0000000000000))) = false) :
    TwoFloat.ln_1p v =
      (let x0 := convert.impl_From_f64_for_TwoFloat.from (Libm.log1p v.hi)
       let x1 := arithmetic.impl_Sub_TwoFloat_for_TwoFloat.sub x0 (corr1p v x0)
       arithmetic.impl_Sub_TwoFloat_for_TwoFloat.sub x1 (corr1p v x1)) := by
  unfold TwoFloat.ln_1p
  simp only [h1, h2, h3]
  rfl

theorem neg_one_facts : (F64.neg (f64lit 0x3ff0000000000000)).WF ∧ (F64.neg (f64lit 0x3ff0000000000000)).is_finite = true ∧
    (F64.neg (f64lit 0x3ff0000000000000)).toInt = -(2 ^ 1074) := by decide +kernel

theorem neg_half_facts : (F64.neg (f64lit 0x3fe0000000000000)).WF ∧ (F64.neg (f64lit 0x3fe0000000000000)).is_finite = true ∧
    (F64.neg (f64lit 0x3fe0000000000000)).toInt = -(2 ^ 1073) := by decide +kernel

/-- the comparison of a valid pair with a finite double is the comparison of the exact values -/
theorem le_lit_iff {v : TwoFloat} (hv : v.Valid) {c : F64} (hc : c.WF) (hcf : c.is_finite = true) :
    ROrd.isLe (base.impl_PartialOrd_f64_for_TwoFloat.partial_cmp v c) = true ↔ v.V ≤ c.toInt := by
  rw [partial_cmp_tf_exact_of F64.roundFacts hv hc hcf]; exact ROrd.isLe_ofInts

theorem V_le_iff {v : TwoFloat} {m : ℤ} {c : ℝ} (hc : (m : ℝ) = c * 2 ^ 1074) : v.V ≤ m ↔ val v ≤ c := by
  have hU : (0 : ℝ) < 2 ^ 1074 := by positivity
  show v.V ≤ m ↔ rv v ≤ c
  unfold rv
  rw [div_le_iff₀ hU, ← hc]
  exact_mod_cast Iff.rfl

theorem le_neg_one_iff {v : TwoFloat} (hv : v.Valid) :
    ROrd.isLe (base.impl_PartialOrd_f64_for_TwoFloat.partial_cmp v (F64.neg (f64lit 0x3ff0000000000000))) = true
      ↔ val v ≤ -1 := by
  rw [le_lit_iff hv neg_one_facts.1 neg_one_facts.2.1, neg_one_facts.2.2]
  exact V_le_iff (by push_cast; ring)

theorem le_neg_half_iff {v : TwoFloat} (hv : v.Valid) :
    ROrd.isLe (base.impl_PartialOrd_f64_for_TwoFloat.partial_cmp v (F64.neg (f64lit 0x3fe0000000000000))) = true
      ↔ val v ≤ -(1 / 2) := by
  rw [le_lit_iff hv neg_half_facts.1 neg_half_facts.2.1, neg_half_facts.2.2]
  exact V_le_iff (by push_cast; rw [show (2 : ℝ) ^ 1074 = 2 * 2 ^ 1073 by rw [← pow_succ']]; ring)

theorem eq_zero_false {v : TwoFloat} (hv : v.Valid) (h0 : val v ≠ 0) :
    base.impl_PartialEq_f64_for_TwoFloat.eq v (f64lit 0x0000000000000000) = false := by
  cases hq : base.impl_PartialEq_f64_for_TwoFloat.eq v (f64lit 0x0000000000000000)
  · rfl
  · exfalso
    apply h0
    unfold base.impl_PartialEq_f64_for_TwoFloat.eq at hq
    rw [Bool.and_eq_true, req_eq, req_eq, Ident.f64lit_zero, eq_iff_toInt hv.1 rfl,
      eq_iff_toInt hv.2.1 rfl, toInt_zero] at hq
    show rv v = 0
    unfold rv TwoFloat.V
    rw [hq.1, hq.2]; simp

/-- the three tests at the head of `ln_1p` on a valid non-zero argument above `−0.5` -/
theorem ln_1p_conds {v : TwoFloat} (hv : v.Valid) (h0 : val v ≠ 0) (h1 : -(1 / 2) < val v) :
    base.impl_PartialEq_f64_for_TwoFloat.eq v (f64lit 0x0000000000000000) = false ∧
    ROrd.isLe (base.impl_PartialOrd_f64_for_TwoFloat.partial_cmp v (F64.neg (f64lit 0x3ff0000000000000))) = false ∧
    ROrd.isLe (base.impl_PartialOrd_f64_for_TwoFloat.partial_cmp v (F64.neg (f64lit 0x3fe0000000000000))) = false := by
  refine ⟨eq_zero_false hv h0, ?_, ?_⟩
  · rw [Bool.eq_false_iff, Ne, le_neg_one_iff hv]; intro h; linarith
  · rw [Bool.eq_false_iff, Ne, le_neg_half_iff hv]; intro h; linarith

/-! ### 4. the seed as a pair, and `log(1 + hi)` against `log(1 + v)` -/

theorem seed_pair {h : F64} (hf : (Libm.log1p h).is_finite = true) (hw : h.WF) :
    VW (convert.impl_From_f64_for_TwoFloat.from (Libm.log1p h)) ∧
    val (convert.impl_From_f64_for_TwoFloat.from (Libm.log1p h)) = fval (Libm.log1p h) := by
  have hLw : (Libm.log1p h).WF := PF.libm_log1p_WF hw
  rw [from_eq]
  obtain ⟨p1, p2, p3⟩ := pair_zero_spec hf hLw
  refine ⟨⟨p2, p3⟩, ?_⟩
  show rv _ = fv _
  unfold rv fv; rw [p1]

/-- the low word moves `1 + v` by at most `2^-53·|hi|` -/
theorem lo_small {v : TwoFloat} (hv : v.Valid) : val v = fval v.hi + fval v.lo ∧ |fval v.lo| ≤ |fval v.hi| / 2 ^ 53 := by
  have hU : (0 : ℝ) < 2 ^ 1074 := by positivity
  constructor
  · show rv v = fv v.hi + fv v.lo
    unfold rv fv TwoFloat.V; push_cast; ring
  · have hxl := two_pow_mul_abs_le_of_half_ulp hv.two_mul_abs_lo_le
    have h : (2 : ℝ) ^ 53 * |(v.lo.toInt : ℝ)| ≤ |(v.hi.toInt : ℝ)| := by exact_mod_cast hxl
    show |fv v.lo| ≤ |fv v.hi| / 2 ^ 53
    unfold fv
    rw [abs_div, abs_div, abs_of_pos hU, div_div, div_le_div_iff₀ hU (by positivity)]
    nlinarith [abs_nonneg (v.lo.toInt : ℝ), abs_nonneg (v.hi.toInt : ℝ)]

/-- `log(1 + v)` against `log(1 + hi)` -/
theorem log1p_near_hi {v : TwoFloat} (hv : v.Valid) (h1 : 1 / 2 ^ 16 ≤ 1 + fval v.hi) :
    0 < 1 + val v ∧ |Real.log (1 + val v) - Real.log (1 + fval v.hi)| ≤ 1 / 2 ^ 36 ∧
    (|fval v.hi| ≤ 1 / 2 ^ 7 → |Real.log (1 + val v) - Real.log (1 + fval v.hi)| ≤ |fval v.hi| / 2 ^ 51) := by
  obtain ⟨e, hlo⟩ := lo_small hv
  have ha : 0 < 1 + fval v.hi := lt_of_lt_of_le (by positivity) h1
  -- |lo| ≤ 2^-37·(1 + hi)
  have hrel : |fval v.hi| ≤ 2 ^ 16 * (1 + fval v.hi) := by
    rw [abs_le]; constructor <;> nlinarith
  have hlo37 : |fval v.lo| ≤ 1 / 2 ^ 37 * (1 + fval v.hi) := by
    have : |fval v.hi| / 2 ^ 53 ≤ 2 ^ 16 * (1 + fval v.hi) / 2 ^ 53 := div_le_div_of_nonneg_right hrel (by positivity)
    have e2 : (2 : ℝ) ^ 16 * (1 + fval v.hi) / 2 ^ 53 = 1 / 2 ^ 37 * (1 + fval v.hi) := by
      rw [show (53 : ℕ) = 16 + 37 from rfl, pow_add]; field_simp
    linarith
  have hdiff : |(1 + val v) - (1 + fval v.hi)| = |fval v.lo| := by rw [e]; congr 1; ring
  have hn := log_near (U := 1 + val v) ha (ε := 1 / 2 ^ 37) (by positivity) (by norm_num) (by rw [hdiff]; exact hlo37)
  have hpos : 0 < 1 + val v := by
    have := (abs_le.1 hlo37).1
    rw [e]
    have : (1 : ℝ) / 2 ^ 37 * (1 + fval v.hi) ≤ 1 / 2 * (1 + fval v.hi) := mul_le_mul_of_nonneg_right (by norm_num) ha.le
    linarith
  refine ⟨hpos, le_trans hn (by norm_num), fun h7 => ?_⟩
  have h7' := abs_le.1 h7
  have hε : |fval v.lo| ≤ (|fval v.hi| / 2 ^ 52) * (1 + fval v.hi) := by
    have e3 : |fval v.hi| / 2 ^ 52 * (1 + fval v.hi) = |fval v.hi| / 2 ^ 53 * (2 * (1 + fval v.hi)) := by
      rw [show (53 : ℕ) = 52 + 1 from rfl, pow_succ]; field_simp
    rw [e3]
    have : |fval v.hi| / 2 ^ 53 * 1 ≤ |fval v.hi| / 2 ^ 53 * (2 * (1 + fval v.hi)) :=
      mul_le_mul_of_nonneg_left (by linarith [h7'.1]) (div_nonneg (abs_nonneg _) (by norm_num))
    linarith
  have hn2 := log_near (U := 1 + val v) ha (ε := |fval v.hi| / 2 ^ 52) (div_nonneg (abs_nonneg _) (by norm_num))
    (by
      have : |fval v.hi| / 2 ^ 52 ≤ 1 / 2 ^ 7 / 2 ^ 52 := div_le_div_of_nonneg_right h7 (by positivity)
      linarith [show (1 : ℝ) / 2 ^ 7 / 2 ^ 52 ≤ 1 / 2 by norm_num])
    (by rw [hdiff]; exact hε)
  refine le_trans hn2 (le_of_eq ?_)
  rw [show (52 : ℕ) = 51 + 1 from rfl, pow_succ]; field_simp


/-! ### 5. two Newton steps, generically -/

/-- the error after one Newton step from an error `η`, with `Y = |ln(1+v)|` and `κ = dM·G·(1 + 2^-18)` -/
noncomputable def Bstep (Y κ η : ℝ) : ℝ :=
  (1 + cA) * (η ^ 2 + κ + (1 / 2 ^ 102 + 6 / 2 ^ 106) * (η + η ^ 2 + κ)
      + Min.min (1 / 2 ^ 969) (1 / 2 ^ 36 * (η + η ^ 2 + κ) + 1 / 2 ^ 1017)) + cA * Y

theorem Bstep_mono {Y κ η η' : ℝ} (h0 : 0 ≤ η) (h : η ≤ η') : Bstep Y κ η ≤ Bstep Y κ η' := by
  unfold Bstep
  have hca := cA_nonneg
  have hsq : η ^ 2 ≤ η' ^ 2 := pow_le_pow_left₀ h0 h 2
  have hT : η + η ^ 2 + κ ≤ η' + η' ^ 2 + κ := by linarith
  have hm : Min.min (1 / 2 ^ 969) (1 / 2 ^ 36 * (η + η ^ 2 + κ) + 1 / 2 ^ 1017)
      ≤ Min.min (1 / 2 ^ 969) (1 / 2 ^ 36 * (η' + η' ^ 2 + κ) + 1 / 2 ^ 1017) :=
    min_le_min le_rfl (by have := mul_le_mul_of_nonneg_left hT (by norm_num : (0 : ℝ) ≤ 1 / 2 ^ 36); linarith)
  have hθ := mul_le_mul_of_nonneg_left hT (by norm_num : (0 : ℝ) ≤ 1 / 2 ^ 102 + 6 / 2 ^ 106)
  have := mul_le_mul_of_nonneg_left (by linarith : η ^ 2 + κ + (1 / 2 ^ 102 + 6 / 2 ^ 106) * (η + η ^ 2 + κ)
      + Min.min (1 / 2 ^ 969) (1 / 2 ^ 36 * (η + η ^ 2 + κ) + 1 / 2 ^ 1017)
      ≤ η' ^ 2 + κ + (1 / 2 ^ 102 + 6 / 2 ^ 106) * (η' + η' ^ 2 + κ)
      + Min.min (1 / 2 ^ 969) (1 / 2 ^ 36 * (η' + η' ^ 2 + κ) + 1 / 2 ^ 1017)) (by linarith : (0 : ℝ) ≤ 1 + cA)
  linarith

/-- a simple upper bound of `Bstep` -/
theorem Bstep_le {Y κ η : ℝ} (hη0 : 0 ≤ η) (hκ0 : 0 ≤ κ) :
    Bstep Y κ η ≤ 10001 / 10000 * η ^ 2 + 10001 / 10000 * κ + 1 / 2 ^ 100 * η + 1 / 2 ^ 968 + cA * Y := by
  unfold Bstep
  have hca := cA_nonneg
  have hca' : cA ≤ 1 / 2 ^ 100 := le_trans cA_le (by norm_num)
  have hsq : 0 ≤ η ^ 2 := sq_nonneg η
  have hm : Min.min (1 / 2 ^ 969) (1 / 2 ^ 36 * (η + η ^ 2 + κ) + 1 / 2 ^ 1017) ≤ (1 : ℝ) / 2 ^ 969 := min_le_left _ _
  have hm0 : 0 ≤ Min.min ((1 : ℝ) / 2 ^ 969) (1 / 2 ^ 36 * (η + η ^ 2 + κ) + 1 / 2 ^ 1017) :=
    le_min (by positivity) (by positivity)
  set S := η ^ 2 + κ + (1 / 2 ^ 102 + 6 / 2 ^ 106) * (η + η ^ 2 + κ)
      + Min.min (1 / 2 ^ 969) (1 / 2 ^ 36 * (η + η ^ 2 + κ) + 1 / 2 ^ 1017) with hS
  have hS0 : 0 ≤ S := by rw [hS]; positivity
  have h1 : (1 + cA) * S ≤ (1 + 1 / 2 ^ 100) * S := mul_le_mul_of_nonneg_right (by linarith) hS0
  have e969 : (1 : ℝ) / 2 ^ 969 = 1 / 2 ^ 968 / 2 := by rw [div_div, ← pow_succ]
  have h968 : (0 : ℝ) < 1 / 2 ^ 968 := by positivity
  have h2 : (1 + 1 / 2 ^ 100) * S ≤ 10001 / 10000 * η ^ 2 + 10001 / 10000 * κ + 1 / 2 ^ 100 * η + 1 / 2 ^ 968 := by
    have hS' : S ≤ η ^ 2 + κ + (1 / 2 ^ 102 + 6 / 2 ^ 106) * (η + η ^ 2 + κ) + 1 / 2 ^ 968 / 2 := by
      rw [hS]; linarith
    have h3 : (1 + 1 / 2 ^ 100) * S ≤ (1 + 1 / 2 ^ 100) * (η ^ 2 + κ + (1 / 2 ^ 102 + 6 / 2 ^ 106) * (η + η ^ 2 + κ)
        + 1 / 2 ^ 968 / 2) := mul_le_mul_of_nonneg_left hS' (by norm_num)
    have e4 : (1 + 1 / 2 ^ 100) * (η ^ 2 + κ + (1 / 2 ^ 102 + 6 / 2 ^ 106) * (η + η ^ 2 + κ) + 1 / 2 ^ 968 / 2)
        = ((1 + 1 / 2 ^ 100) * (1 + (1 / 2 ^ 102 + 6 / 2 ^ 106))) * η ^ 2
          + ((1 + 1 / 2 ^ 100) * (1 + (1 / 2 ^ 102 + 6 / 2 ^ 106))) * κ
          + ((1 + 1 / 2 ^ 100) * (1 / 2 ^ 102 + 6 / 2 ^ 106)) * η + (1 + 1 / 2 ^ 100) / 2 * (1 / 2 ^ 968) := by ring
    have c1 : ((1 : ℝ) + 1 / 2 ^ 100) * (1 + (1 / 2 ^ 102 + 6 / 2 ^ 106)) ≤ 10001 / 10000 := by norm_num
    have c2 : ((1 : ℝ) + 1 / 2 ^ 100) * (1 / 2 ^ 102 + 6 / 2 ^ 106) ≤ 1 / 2 ^ 100 := by norm_num
    have c3 : ((1 : ℝ) + 1 / 2 ^ 100) / 2 ≤ 1 := by norm_num
    have m1 := mul_le_mul_of_nonneg_right c1 hsq
    have m2 := mul_le_mul_of_nonneg_right c1 hκ0
    have m3 := mul_le_mul_of_nonneg_right c2 hη0
    have m4 := mul_le_mul_of_nonneg_right c3 h968.le
    rw [e4] at h3
    linarith
  linarith

/-- the hypothesis on `exp_m1` around `y = ln(1+v)`: accuracy `dM` and `G ≥ |e^x − 1|/e^x` for every pair within `R` -/
def Around (y R dM G : ℝ) : Prop :=
  ∀ x : TwoFloat, VW x → |val x - y| ≤ R → Em1 x dM ∧ |Real.exp (val x) - 1| ≤ G * Real.exp (val x)

/-- **`ln_1p` (generic branch, `x > −0.5`) as two Newton steps from a seed of accuracy `η₀`** -/
theorem ln1p_two_steps {v : TwoFloat} {η0 R dM G : ℝ} (hv : VW v)
    (hv1 : 1 / 2 ^ 16 ≤ 1 + val v) (hv2 : val v ≤ 2 ^ 961) (h0 : val v ≠ 0) (hhalf : -(1 / 2) < val v)
    (hR : R ≤ 1 / 2 ^ 20) (hdM : 0 ≤ dM) (hG0 : 0 ≤ G) (hκ : dM * G ≤ 1 / 2 ^ 40)
    (hseed : VW (convert.impl_From_f64_for_TwoFloat.from (Libm.log1p v.hi)) ∧
      |val (convert.impl_From_f64_for_TwoFloat.from (Libm.log1p v.hi)) - Real.log (1 + val v)| ≤ η0)
    (hη : η0 ≤ R)
    (H : Around (Real.log (1 + val v)) R dM G)
    (hB : Bstep |Real.log (1 + val v)| (dM * G * (1 + 1 / 2 ^ 18)) η0 ≤ R) :
    VW (TwoFloat.ln_1p v) ∧
    |val (TwoFloat.ln_1p v) - Real.log (1 + val v)|
      ≤ Bstep |Real.log (1 + val v)| (dM * G * (1 + 1 / 2 ^ 18))
          (Bstep |Real.log (1 + val v)| (dM * G * (1 + 1 / 2 ^ 18)) η0) := by
  obtain ⟨c1, c2, c3⟩ := ln_1p_conds hv.1 h0 hhalf
  rw [ln_1p_eq_steps v c1 c2 c3]
  dsimp only
  obtain ⟨hx0, he0⟩ := hseed
  generalize convert.impl_From_f64_for_TwoFloat.from (Libm.log1p v.hi) = x0 at *
  set y := Real.log (1 + val v) with hy
  set κ := dM * G * (1 + 1 / 2 ^ 18) with hκdef
  have hη0 : 0 ≤ η0 := le_trans (abs_nonneg _) he0
  -- a step from error ≤ η stays below Bstep η
  have step : ∀ (x : TwoFloat) (η : ℝ), VW x → |val x - y| ≤ η → η ≤ R →
      VW (arithmetic.impl_Sub_TwoFloat_for_TwoFloat.sub x (corr1p v x)) ∧
      |val (arithmetic.impl_Sub_TwoFloat_for_TwoFloat.sub x (corr1p v x)) - y| ≤ Bstep |y| κ η := by
    intro x η hx hxe hηR
    obtain ⟨hE, hGx⟩ := H x hx (le_trans hxe hηR)
    obtain ⟨-, r1, qa, q0, q1, q2', r2'⟩ := ln1p_step hv hx hv1 hv2 (le_trans hxe (le_trans hηR hR)) hdM hG0 hGx hκ hE
    have q2 : qa ≤ 1 / 2 ^ 36 * (|rv x - y| + (rv x - y) ^ 2 + κ) + 1 / 2 ^ 1017 := q2'
    have r2 : |rv (arithmetic.impl_Sub_TwoFloat_for_TwoFloat.sub x (corr1p v x)) - y|
        ≤ (1 + cA) * ((rv x - y) ^ 2 + κ + (1 / 2 ^ 102 + 6 / 2 ^ 106) * (|rv x - y| + (rv x - y) ^ 2 + κ) + qa)
          + cA * |y| := r2'
    clear q2' r2'
    refine ⟨r1, le_trans r2 ?_⟩
    unfold Bstep
    have hη0' : 0 ≤ η := le_trans (abs_nonneg _) hxe
    have hsq : (rv x - y) ^ 2 ≤ η ^ 2 := by
      rw [← sq_abs]; exact pow_le_pow_left₀ (abs_nonneg _) hxe 2
    have hT : |rv x - y| + (rv x - y) ^ 2 + κ ≤ η + η ^ 2 + κ := by linarith [show |rv x - y| ≤ η from hxe]
    have hm : qa ≤ Min.min (1 / 2 ^ 969) (1 / 2 ^ 36 * (η + η ^ 2 + κ) + 1 / 2 ^ 1017) :=
      le_min q1 (le_trans q2 (by
        have := mul_le_mul_of_nonneg_left hT (by norm_num : (0 : ℝ) ≤ 1 / 2 ^ 36); linarith))
    have hθ := mul_le_mul_of_nonneg_left hT (by norm_num : (0 : ℝ) ≤ 1 / 2 ^ 102 + 6 / 2 ^ 106)
    have hca := cA_nonneg
    have := mul_le_mul_of_nonneg_left (by linarith : (rv x - y) ^ 2 + κ
        + (1 / 2 ^ 102 + 6 / 2 ^ 106) * (|rv x - y| + (rv x - y) ^ 2 + κ) + qa
        ≤ η ^ 2 + κ + (1 / 2 ^ 102 + 6 / 2 ^ 106) * (η + η ^ 2 + κ)
        + Min.min (1 / 2 ^ 969) (1 / 2 ^ 36 * (η + η ^ 2 + κ) + 1 / 2 ^ 1017)) (by linarith : (0 : ℝ) ≤ 1 + cA)
    linarith
  obtain ⟨hx1, he1⟩ := step x0 η0 hx0 he0 hη
  obtain ⟨hx2, he2⟩ := step _ _ hx1 he1 hB
  exact ⟨hx2, he2⟩


theorem Bstep_nonneg {Y κ η : ℝ} (hY : 0 ≤ Y) (hκ : 0 ≤ κ) (hη : 0 ≤ η) : 0 ≤ Bstep Y κ η := by
  unfold Bstep
  have hca := cA_nonneg
  have hm0 : 0 ≤ Min.min ((1 : ℝ) / 2 ^ 969) (1 / 2 ^ 36 * (η + η ^ 2 + κ) + 1 / 2 ^ 1017) :=
    le_min (by positivity) (by positivity)
  positivity

/-- the seed `x₀ = (libm::log1p(hi), 0)` against `y = ln(1 + v)` -/
theorem seed_err {v : TwoFloat} (hv : VW v) (h1 : 1 / 2 ^ 16 ≤ 1 + fval v.hi) (h2 : fval v.hi ≤ 2 ^ 999) :
    VW (convert.impl_From_f64_for_TwoFloat.from (Libm.log1p v.hi)) ∧
    |val (convert.impl_From_f64_for_TwoFloat.from (Libm.log1p v.hi)) - Real.log (1 + val v)| ≤ 1 / 2 ^ 32 + 1 / 2 ^ 36 ∧
    (|fval v.hi| ≤ 1 / 2 ^ 20 →
      |val (convert.impl_From_f64_for_TwoFloat.from (Libm.log1p v.hi)) - Real.log (1 + val v)|
        ≤ |fval v.hi| / 2 ^ 18 + |fval v.hi| / 2 ^ 51) := by
  obtain ⟨sf, s1, s2⟩ := libm_log1p_coarse hv.1.1 hv.2.1 h1 h2
  obtain ⟨px, pe⟩ := seed_pair sf hv.2.1
  obtain ⟨-, n1, n2⟩ := log1p_near_hi hv.1 h1
  rw [pe]
  refine ⟨px, ?_, fun hs => ?_⟩
  · have := abs_sub_le (fval (Libm.log1p v.hi)) (Real.log (1 + fval v.hi)) (Real.log (1 + val v))
    rw [abs_sub_comm (Real.log (1 + fval v.hi))] at this
    have s1' : |fval (Libm.log1p v.hi) - Real.log (1 + fval v.hi)| ≤ 1 / 2 ^ 32 := s1
    linarith
  · have := abs_sub_le (fval (Libm.log1p v.hi)) (Real.log (1 + fval v.hi)) (Real.log (1 + val v))
    rw [abs_sub_comm (Real.log (1 + fval v.hi))] at this
    have s2' : |fval (Libm.log1p v.hi) - Real.log (1 + fval v.hi)| ≤ |fval v.hi| / 2 ^ 18 := s2 hs
    have n2' := n2 (le_trans hs (by norm_num))
    linarith

/-! ### 6. the regime `|x| ≤ 2^-8` -/

/-- numerical closing of the regime `|x| ≤ 2^-8`: `Y = |ln(1+v)| ∈ [2^-851, 1/254]`, radius `R ∈ [Y/2^90, Y/2^10]` -/
theorem small_numeric {Y η0 R : ℝ} (hY0 : 1 / 2 ^ 851 ≤ Y) (hY1 : Y ≤ 1 / 254) (h0 : 0 ≤ η0) (h1 : η0 ≤ 1 / 2 ^ 31)
    (h2 : η0 ≤ R) (hR1 : R ≤ Y / 2 ^ 10) (hR2 : Y / 2 ^ 90 ≤ R) (h4 : η0 ^ 2 * η0 ^ 2 ≤ 2 / 2 ^ 106 * Y) :
    Bstep Y (54 / 2 ^ 106 * ((Y + R) * (1 + 1 / 128)) * (1 + 1 / 2 ^ 18)) η0 ≤ R ∧
    Bstep Y (54 / 2 ^ 106 * ((Y + R) * (1 + 1 / 128)) * (1 + 1 / 2 ^ 18))
      (Bstep Y (54 / 2 ^ 106 * ((Y + R) * (1 + 1 / 128)) * (1 + 1 / 2 ^ 18)) η0) ≤ Y / 2 ^ 100 := by
  have hYpos : 0 < Y := lt_of_lt_of_le (by positivity) hY0
  have hR0 : 0 ≤ R := le_trans h0 h2
  set κ := 54 / 2 ^ 106 * ((Y + R) * (1 + 1 / 128)) * (1 + 1 / 2 ^ 18) with hκ
  have hκ0 : 0 ≤ κ := by rw [hκ]; positivity
  have hκle : κ ≤ 5449 / 100 / 2 ^ 106 * Y := by
    have e0 : κ ≤ 54 / 2 ^ 106 * ((Y + Y / 2 ^ 10) * (1 + 1 / 128)) * (1 + 1 / 2 ^ 18) := by
      rw [hκ]
      apply mul_le_mul_of_nonneg_right _ (by norm_num)
      apply mul_le_mul_of_nonneg_left _ (by norm_num)
      apply mul_le_mul_of_nonneg_right _ (by norm_num)
      linarith
    have e : 54 / 2 ^ 106 * ((Y + Y / 2 ^ 10) * (1 + 1 / 128)) * (1 + 1 / 2 ^ 18)
        = (54 / 2 ^ 106 * ((1 + 1 / 2 ^ 10) * (1 + 1 / 128)) * (1 + 1 / 2 ^ 18)) * Y := by ring
    rw [e] at e0
    exact le_trans e0 (mul_le_mul_of_nonneg_right (by norm_num) hYpos.le)
  have hca : cA * Y ≤ 301 / 100 / 2 ^ 106 * Y := mul_le_mul_of_nonneg_right cA_le' hYpos.le
  have hsq0 : 0 ≤ η0 ^ 2 := sq_nonneg η0
  have hsq : η0 ^ 2 ≤ 1 / 2 ^ 31 * R := by
    rw [sq]; exact mul_le_mul h1 h2 h0 (by positivity)
  have h968 : (1 : ℝ) / 2 ^ 968 ≤ 1 / 2 ^ 11 / 2 ^ 106 * Y := by
    have : (1 : ℝ) / 2 ^ 11 / 2 ^ 106 * (1 / 2 ^ 851) ≤ 1 / 2 ^ 11 / 2 ^ 106 * Y :=
      mul_le_mul_of_nonneg_left hY0 (by positivity)
    have e : (1 : ℝ) / 2 ^ 11 / 2 ^ 106 * (1 / 2 ^ 851) = 1 / 2 ^ 968 := by
      rw [div_div, one_div_mul_one_div, ← pow_add, ← pow_add]
    linarith
  have h100 : ∀ t : ℝ, 0 ≤ t → t ≤ R → 1 / 2 ^ 100 * t ≤ 1 / 16 / 2 ^ 106 * Y := by
    intro t _ ht
    have := mul_le_mul_of_nonneg_left (le_trans ht hR1) (by positivity : (0 : ℝ) ≤ 1 / 2 ^ 100)
    have e : (1 : ℝ) / 2 ^ 100 * (Y / 2 ^ 10) = 1 / 16 / 2 ^ 106 * Y := by
      rw [show (106 : ℕ) = 100 + 6 from rfl, pow_add]; field_simp; ring
    linarith
  -- first step
  have hB1 := Bstep_le (Y := Y) (κ := κ) h0 hκ0
  set b1 := 10001 / 10000 * η0 ^ 2 + 5758 / 100 / 2 ^ 106 * Y with hb1
  have hB1b : Bstep Y κ η0 ≤ b1 := by
    refine le_trans hB1 ?_
    have := h100 η0 h0 h2
    rw [hb1]
    have e : (5758 : ℝ) / 100 / 2 ^ 106 * Y = 10001 / 10000 * (5449 / 100 / 2 ^ 106 * Y) + 1 / 16 / 2 ^ 106 * Y
        + 1 / 2 ^ 11 / 2 ^ 106 * Y + 301 / 100 / 2 ^ 106 * Y
        + (5758 / 100 - 10001 / 10000 * (5449 / 100) - 1 / 16 - 1 / 2 ^ 11 - 301 / 100) / 2 ^ 106 * Y := by ring
    have : 0 ≤ ((5758 : ℝ) / 100 - 10001 / 10000 * (5449 / 100) - 1 / 16 - 1 / 2 ^ 11 - 301 / 100) / 2 ^ 106 * Y :=
      mul_nonneg (by norm_num) hYpos.le
    linarith
  have hb10 : 0 ≤ b1 := by rw [hb1]; positivity
  have hb1R : b1 ≤ R := by
    rw [hb1]
    have t1 : (10001 : ℝ) / 10000 * η0 ^ 2 ≤ 10001 / 10000 * (1 / 2 ^ 31 * R) := mul_le_mul_of_nonneg_left hsq (by norm_num)
    have t2 : (5758 : ℝ) / 100 / 2 ^ 106 * Y ≤ 5758 / 100 / 2 ^ 106 * (2 ^ 90 * R) := by
      apply mul_le_mul_of_nonneg_left _ (by positivity)
      rw [div_le_iff₀ (by positivity)] at hR2
      linarith
    have e : R = 10001 / 10000 * (1 / 2 ^ 31 * R) + 5758 / 100 / 2 ^ 106 * (2 ^ 90 * R)
        + (1 - 10001 / 10000 * (1 / 2 ^ 31) - 5758 / 100 / 2 ^ 106 * 2 ^ 90) * R := by ring
    have : 0 ≤ ((1 : ℝ) - 10001 / 10000 * (1 / 2 ^ 31) - 5758 / 100 / 2 ^ 106 * 2 ^ 90) * R :=
      mul_nonneg (by norm_num) hR0
    linarith
  refine ⟨le_trans hB1b hb1R, ?_⟩
  -- second step
  have hB10 := Bstep_nonneg (Y := Y) (κ := κ) (η := η0) hYpos.le hκ0 h0
  refine le_trans (Bstep_mono hB10 hB1b) (le_trans (Bstep_le hb10 hκ0) ?_)
  have hb1sq : b1 ^ 2 ≤ 4003 / 1000 / 2 ^ 106 * Y := by
    have e1 : b1 ^ 2 ≤ 2 * (10001 / 10000 * η0 ^ 2) ^ 2 + 2 * (5758 / 100 / 2 ^ 106 * Y) ^ 2 := by
      rw [hb1]
      nlinarith [sq_nonneg (10001 / 10000 * η0 ^ 2 - 5758 / 100 / 2 ^ 106 * Y)]
    have e2 : 2 * (10001 / 10000 * η0 ^ 2) ^ 2 = (2 * (10001 / 10000) ^ 2) * (η0 ^ 2 * η0 ^ 2) := by ring
    have e3 : 2 * (5758 / 100 / 2 ^ 106 * Y) ^ 2 = (2 * (5758 / 100) ^ 2 / 2 ^ 106 * Y) * (1 / 2 ^ 106 * Y) := by ring
    have e4 : (2 * (10001 / 10000) ^ 2) * (η0 ^ 2 * η0 ^ 2) ≤ (2 * (10001 / 10000) ^ 2) * (2 / 2 ^ 106 * Y) :=
      mul_le_mul_of_nonneg_left h4 (by norm_num)
    have e5 : (2 * (5758 / 100) ^ 2 / 2 ^ 106 * Y) ≤ 1 / 1000 := by
      have : (2 * (5758 / 100) ^ 2 / 2 ^ 106 * Y) ≤ 2 * (5758 / 100) ^ 2 / 2 ^ 106 * (1 / 254) :=
        mul_le_mul_of_nonneg_left hY1 (by positivity)
      refine le_trans this (by norm_num)
    have e6 : (2 * (5758 / 100) ^ 2 / 2 ^ 106 * Y) * (1 / 2 ^ 106 * Y) ≤ 1 / 1000 * (1 / 2 ^ 106 * Y) :=
      mul_le_mul_of_nonneg_right e5 (by positivity)
    rw [e2, e3] at e1
    have e7 : (4003 : ℝ) / 1000 / 2 ^ 106 * Y = (2 * (10001 / 10000) ^ 2) * (2 / 2 ^ 106 * Y) + 1 / 1000 * (1 / 2 ^ 106 * Y)
        + (4003 / 1000 - 4 * (10001 / 10000) ^ 2 - 1 / 1000) / 2 ^ 106 * Y := by ring
    have : 0 ≤ ((4003 : ℝ) / 1000 - 4 * (10001 / 10000) ^ 2 - 1 / 1000) / 2 ^ 106 * Y :=
      mul_nonneg (by norm_num) hYpos.le
    linarith
  have := h100 b1 hb10 hb1R
  have e : Y / 2 ^ 100 = 10001 / 10000 * (4003 / 1000 / 2 ^ 106 * Y) + 10001 / 10000 * (5449 / 100 / 2 ^ 106 * Y)
      + 1 / 16 / 2 ^ 106 * Y + 1 / 2 ^ 11 / 2 ^ 106 * Y + 301 / 100 / 2 ^ 106 * Y
      + (64 - 10001 / 10000 * (4003 / 1000) - 10001 / 10000 * (5449 / 100) - 1 / 16 - 1 / 2 ^ 11 - 301 / 100) / 2 ^ 106 * Y := by
    rw [show (106 : ℕ) = 100 + 6 from rfl, pow_add]; field_simp; ring
  have hlast : 0 ≤ ((64 : ℝ) - 10001 / 10000 * (4003 / 1000) - 10001 / 10000 * (5449 / 100) - 1 / 16 - 1 / 2 ^ 11 - 301 / 100)
      / 2 ^ 106 * Y := mul_nonneg (by norm_num) hYpos.le
  have m1 := mul_le_mul_of_nonneg_left hb1sq (by norm_num : (0 : ℝ) ≤ 10001 / 10000)
  have m2 := mul_le_mul_of_nonneg_left hκle (by norm_num : (0 : ℝ) ≤ 10001 / 10000)
  linarith

/-- the high word against the value of a valid pair -/
theorem hi_vs_val {v : TwoFloat} (hv : v.Valid) :
    |fval v.hi| ≤ |val v| * (1 + 1 / 2 ^ 52) ∧ |val v| ≤ |fval v.hi| * (1 + 1 / 2 ^ 53) := by
  obtain ⟨e, hl⟩ := lo_small hv
  have h1 := abs_add_le (fval v.hi) (fval v.lo)
  rw [← e] at h1
  have h2 := abs_sub_abs_le_abs_sub (fval v.hi) (-fval v.lo)
  rw [abs_neg, sub_neg_eq_add, ← e] at h2
  have hH := abs_nonneg (fval v.hi)
  have e53 : |fval v.hi| / 2 ^ 53 = |fval v.hi| * (1 / 2 ^ 53) := by ring
  rw [e53] at hl
  constructor
  · have : |fval v.hi| * (1 - 1 / 2 ^ 53) ≤ |val v| := by linarith
    have h3 : |fval v.hi| * ((1 - 1 / 2 ^ 53) * (1 + 1 / 2 ^ 52)) ≤ |val v| * (1 + 1 / 2 ^ 52) := by
      rw [← mul_assoc]; exact mul_le_mul_of_nonneg_right this (by norm_num)
    have h4 : |fval v.hi| * 1 ≤ |fval v.hi| * ((1 - 1 / 2 ^ 53) * (1 + 1 / 2 ^ 52)) :=
      mul_le_mul_of_nonneg_left (by norm_num) hH
    linarith
  · linarith

/-- `|ln(1 + V)|` against `|V|` for `|V| ≤ 2^-8` -/
theorem logabs_small {V : ℝ} (h : |V| ≤ 1 / 2 ^ 8) :
    |V| * (1 - 1 / 2 ^ 7) ≤ |Real.log (1 + V)| ∧ |Real.log (1 + V)| ≤ |V| * (1 + 1 / 2 ^ 7) := by
  have hl := log1p_lin (X := V) (le_trans h (by norm_num))
  have h0 := abs_nonneg V
  have hsq : 2 * V ^ 2 ≤ |V| * (1 / 2 ^ 7) := by
    rw [← sq_abs, sq]
    have : |V| * |V| ≤ |V| * (1 / 2 ^ 8) := mul_le_mul_of_nonneg_left h h0
    have e : |V| * (1 / 2 ^ 7) = 2 * (|V| * (1 / 2 ^ 8)) := by ring
    linarith
  have h1 := abs_sub_abs_le_abs_sub (Real.log (1 + V)) V
  have h2 := abs_sub_abs_le_abs_sub V (Real.log (1 + V))
  rw [abs_sub_comm V] at h2
  constructor <;> linarith

/-- the seed, the radius and the `exp_m1` hypothesis in the regime `2^-948 ≤ |x| ≤ 2^-8` -/
theorem small_setup (x : TwoFloat) (hv : x.Valid) (hw : x.WF)
    (hlo : 1 / 2 ^ 948 ≤ |val x|) (hhi : |val x| ≤ 1 / 2 ^ 8) :
    ∃ η0 R : ℝ, 0 ≤ η0 ∧ η0 ≤ 1 / 2 ^ 31 ∧ η0 ≤ R ∧ R ≤ |Real.log (1 + val x)| / 2 ^ 10 ∧
      |Real.log (1 + val x)| / 2 ^ 90 ≤ R ∧ R ≤ 1 / 2 ^ 20 ∧
      η0 ^ 2 * η0 ^ 2 ≤ 2 / 2 ^ 106 * |Real.log (1 + val x)| ∧
      (VW (convert.impl_From_f64_for_TwoFloat.from (Libm.log1p x.hi)) ∧
        |val (convert.impl_From_f64_for_TwoFloat.from (Libm.log1p x.hi)) - Real.log (1 + val x)| ≤ η0) ∧
      Around (Real.log (1 + val x)) R (54 / 2 ^ 106) ((|Real.log (1 + val x)| + R) * (1 + 1 / 128)) ∧
      |Real.log (1 + val x)| ≤ 1 / 254 ∧ |val x| * (1 - 1 / 2 ^ 7) ≤ |Real.log (1 + val x)| := by
  obtain ⟨hH1, hH2⟩ := hi_vs_val hv
  obtain ⟨hY1, hY2⟩ := logabs_small hhi
  obtain ⟨v1, v2⟩ := abs_le.1 hhi
  have hVpos : 0 < |val x| := lt_of_lt_of_le (by positivity) hlo
  have hV0 : val x ≠ 0 := abs_pos.1 hVpos
  set Y := |Real.log (1 + val x)| with hYdef
  have hYlo : 1 / 2 ^ 949 ≤ Y := by
    have : (1 : ℝ) / 2 ^ 948 * (1 - 1 / 2 ^ 7) ≤ |val x| * (1 - 1 / 2 ^ 7) :=
      mul_le_mul_of_nonneg_right hlo (by norm_num)
    have e : (1 : ℝ) / 2 ^ 949 ≤ 1 / 2 ^ 948 * (1 - 1 / 2 ^ 7) := by
      rw [show (949 : ℕ) = 948 + 1 from rfl, pow_succ]
      have : (0 : ℝ) < 1 / 2 ^ 948 := by positivity
      have e2 : (1 : ℝ) / (2 ^ 948 * 2) = 1 / 2 ^ 948 * (1 / 2) := by field_simp
      rw [e2]; nlinarith
    linarith
  have hYhi : Y ≤ 1 / 254 := by
    have : |val x| * (1 + 1 / 2 ^ 7) ≤ 1 / 2 ^ 8 * (1 + 1 / 2 ^ 7) := mul_le_mul_of_nonneg_right hhi (by norm_num)
    have : (1 : ℝ) / 2 ^ 8 * (1 + 1 / 2 ^ 7) ≤ 1 / 254 := by norm_num
    linarith
  have hYpos : 0 < Y := lt_of_lt_of_le (by positivity) hYlo
  have hHabs : |fval x.hi| ≤ 1 / 2 ^ 7 := by
    have : |val x| * (1 + 1 / 2 ^ 52) ≤ 1 / 2 ^ 8 * (1 + 1 / 2 ^ 52) := mul_le_mul_of_nonneg_right hhi (by norm_num)
    have : (1 : ℝ) / 2 ^ 8 * (1 + 1 / 2 ^ 52) ≤ 1 / 2 ^ 7 := by norm_num
    linarith
  obtain ⟨g1, g2⟩ := abs_le.1 hHabs
  have hHY : |fval x.hi| ≤ 102 / 100 * Y := by
    have h1 : |val x| * (1 - 1 / 2 ^ 7) * (102 / 100) ≤ Y * (102 / 100) := mul_le_mul_of_nonneg_right hY1 (by norm_num)
    have h2 : |val x| * (1 + 1 / 2 ^ 52) ≤ |val x| * ((1 - 1 / 2 ^ 7) * (102 / 100)) :=
      mul_le_mul_of_nonneg_left (by norm_num) hVpos.le
    linarith
  have hYH : 98 / 100 * |fval x.hi| ≤ Y := by
    have h1 : 98 / 100 * |fval x.hi| ≤ 98 / 100 * (|val x| * (1 + 1 / 2 ^ 52)) :=
      mul_le_mul_of_nonneg_left hH1 (by norm_num)
    have h2 : |val x| * (98 / 100 * (1 + 1 / 2 ^ 52)) ≤ |val x| * (1 - 1 / 2 ^ 7) :=
      mul_le_mul_of_nonneg_left (by norm_num) hVpos.le
    linarith
  obtain ⟨sx, s1, s2⟩ := seed_err ⟨hv, hw⟩ (by linarith [show (1 : ℝ) / 2 ^ 16 ≤ 1 - 1 / 2 ^ 7 by norm_num])
    (le_trans g2 (le_trans (by norm_num) (one_le_pow₀ (by norm_num : (1 : ℝ) ≤ 2))))
  -- the exp_m1 hypothesis around y
  have hAround : ∀ R : ℝ, R ≤ Y / 2 ^ 10 →
      Around (Real.log (1 + val x)) R (54 / 2 ^ 106) ((Y + R) * (1 + 1 / 128)) := by
    intro R hR z hz hzy
    have hzabs : |val z| ≤ Y + R := by
      have := abs_sub_abs_le_abs_sub (val z) (Real.log (1 + val x))
      linarith
    have hzlo : Y - R ≤ |val z| := by
      have := abs_sub_abs_le_abs_sub (Real.log (1 + val x)) (val z)
      rw [abs_sub_comm] at this
      linarith
    have h128 : Y + R ≤ 1 / 128 := by
      have : Y + Y / 2 ^ 10 = Y * (1 + 1 / 2 ^ 10) := by ring
      have : Y * (1 + 1 / 2 ^ 10) ≤ 1 / 254 * (1 + 1 / 2 ^ 10) := mul_le_mul_of_nonneg_right hYhi (by norm_num)
      linarith [show (1 : ℝ) / 254 * (1 + 1 / 2 ^ 10) ≤ 1 / 128 by norm_num]
    have h950 : 1 / 2 ^ 950 ≤ |val z| := by
      have e : Y - Y / 2 ^ 10 = Y * (1 - 1 / 2 ^ 10) := by ring
      have h1 : (1 : ℝ) / 2 ^ 949 * (1 - 1 / 2 ^ 10) ≤ Y * (1 - 1 / 2 ^ 10) := mul_le_mul_of_nonneg_right hYlo (by norm_num)
      have h2 : (1 : ℝ) / 2 ^ 950 ≤ 1 / 2 ^ 949 * (1 / 2) := by
        rw [one_div_mul_one_div, ← pow_succ]
      have h3 : (1 : ℝ) / 2 ^ 949 * (1 / 2) ≤ 1 / 2 ^ 949 * (1 - 1 / 2 ^ 10) :=
        mul_le_mul_of_nonneg_left (by norm_num) (by positivity)
      linarith
    refine ⟨em1_small hz (le_trans hzabs (by linarith [show (1 : ℝ) / 128 = 1 / 2 ^ 7 by norm_num])) h950, ?_⟩
    refine le_trans (g_abs (le_trans hzabs (by linarith))) ?_
    apply mul_le_mul_of_nonneg_right _ (Real.exp_pos _).le
    exact mul_le_mul hzabs (by linarith) (by positivity) (le_trans (abs_nonneg _) hzabs)
  -- the seed accuracy and the radius
  have hseed : ∃ η0 R : ℝ, 0 ≤ η0 ∧ η0 ≤ 1 / 2 ^ 31 ∧ η0 ≤ R ∧ R ≤ Y / 2 ^ 10 ∧ Y / 2 ^ 90 ≤ R ∧ R ≤ 1 / 2 ^ 20 ∧
      η0 ^ 2 * η0 ^ 2 ≤ 2 / 2 ^ 106 * Y ∧
      |val (convert.impl_From_f64_for_TwoFloat.from (Libm.log1p x.hi)) - Real.log (1 + val x)| ≤ η0 := by
    by_cases hsm : |fval x.hi| ≤ 1 / 2 ^ 20
    · have e : |fval x.hi| / 2 ^ 18 + |fval x.hi| / 2 ^ 51 = |fval x.hi| * (1 / 2 ^ 18 + 1 / 2 ^ 51) := by ring
      have hY20 : Y ≤ 1 / 2 ^ 19 := by
        have h1 : |val x| ≤ 1 / 2 ^ 20 * (1 + 1 / 2 ^ 53) :=
          le_trans hH2 (mul_le_mul_of_nonneg_right hsm (by norm_num))
        have h2 : |val x| * (1 + 1 / 2 ^ 7) ≤ 1 / 2 ^ 20 * (1 + 1 / 2 ^ 53) * (1 + 1 / 2 ^ 7) :=
          mul_le_mul_of_nonneg_right h1 (by norm_num)
        linarith [show (1 : ℝ) / 2 ^ 20 * (1 + 1 / 2 ^ 53) * (1 + 1 / 2 ^ 7) ≤ 1 / 2 ^ 19 by norm_num]
      refine ⟨|fval x.hi| / 2 ^ 18 + |fval x.hi| / 2 ^ 51, Y / 2 ^ 12, by positivity, ?_, ?_, ?_, ?_, ?_, ?_, s2 hsm⟩
      · rw [e]
        have := mul_le_mul_of_nonneg_right hsm (by norm_num : (0 : ℝ) ≤ 1 / 2 ^ 18 + 1 / 2 ^ 51)
        linarith [show (1 : ℝ) / 2 ^ 20 * (1 / 2 ^ 18 + 1 / 2 ^ 51) ≤ 1 / 2 ^ 31 by norm_num]
      · rw [e]
        have h1 := mul_le_mul_of_nonneg_right hHY (by norm_num : (0 : ℝ) ≤ 1 / 2 ^ 18 + 1 / 2 ^ 51)
        have e2 : 102 / 100 * Y * (1 / 2 ^ 18 + 1 / 2 ^ 51) = (102 / 100 * (1 / 2 ^ 18 + 1 / 2 ^ 51)) * Y := by ring
        have e3 : Y / 2 ^ 12 = 1 / 2 ^ 12 * Y := by ring
        have := mul_le_mul_of_nonneg_right (show (102 : ℝ) / 100 * (1 / 2 ^ 18 + 1 / 2 ^ 51) ≤ 1 / 2 ^ 12 by norm_num) hYpos.le
        linarith
      · have e3 : Y / 2 ^ 12 = 1 / 2 ^ 12 * Y := by ring
        have e4 : Y / 2 ^ 10 = 1 / 2 ^ 10 * Y := by ring
        rw [e3, e4]; exact mul_le_mul_of_nonneg_right (by norm_num) hYpos.le
      · have e3 : Y / 2 ^ 12 = 1 / 2 ^ 12 * Y := by ring
        have e4 : Y / 2 ^ 90 = 1 / 2 ^ 90 * Y := by ring
        rw [e3, e4]; exact mul_le_mul_of_nonneg_right (by norm_num) hYpos.le
      · have : Y / 2 ^ 12 ≤ 1 / 2 ^ 19 / 2 ^ 12 := div_le_div_of_nonneg_right hY20 (by positivity)
        linarith [show (1 : ℝ) / 2 ^ 19 / 2 ^ 12 ≤ 1 / 2 ^ 20 by norm_num]
      · set t := |fval x.hi| / 2 ^ 18 + |fval x.hi| / 2 ^ 51 with ht
        have ht0 : 0 ≤ t := by rw [ht]; positivity
        have t1 : t ≤ 1 / 2 ^ 37 := by
          rw [e]
          have := mul_le_mul_of_nonneg_right hsm (by norm_num : (0 : ℝ) ≤ 1 / 2 ^ 18 + 1 / 2 ^ 51)
          linarith [show (1 : ℝ) / 2 ^ 20 * (1 / 2 ^ 18 + 1 / 2 ^ 51) ≤ 1 / 2 ^ 37 by norm_num]
        have t2 : t ≤ 1 / 2 ^ 17 * Y := by
          rw [e]
          have h1 := mul_le_mul_of_nonneg_right hHY (by norm_num : (0 : ℝ) ≤ 1 / 2 ^ 18 + 1 / 2 ^ 51)
          have e2 : 102 / 100 * Y * (1 / 2 ^ 18 + 1 / 2 ^ 51) = (102 / 100 * (1 / 2 ^ 18 + 1 / 2 ^ 51)) * Y := by ring
          have := mul_le_mul_of_nonneg_right (show (102 : ℝ) / 100 * (1 / 2 ^ 18 + 1 / 2 ^ 51) ≤ 1 / 2 ^ 17 by norm_num) hYpos.le
          linarith
        have t3 : t ^ 2 ≤ 1 / 2 ^ 74 := by
          calc t ^ 2 ≤ (1 / 2 ^ 37) ^ 2 := pow_le_pow_left₀ ht0 t1 2
            _ = 1 / 2 ^ 74 := by norm_num
        have t4 : t ^ 2 ≤ 1 / 2 ^ 37 * (1 / 2 ^ 17 * Y) := by
          rw [sq]; exact mul_le_mul t1 t2 ht0 (by norm_num)
        calc t ^ 2 * t ^ 2 ≤ 1 / 2 ^ 74 * (1 / 2 ^ 37 * (1 / 2 ^ 17 * Y)) :=
              mul_le_mul t3 t4 (sq_nonneg t) (by norm_num)
          _ = (1 / 2 ^ 74 * (1 / 2 ^ 37) * (1 / 2 ^ 17)) * Y := by ring
          _ ≤ 2 / 2 ^ 106 * Y := mul_le_mul_of_nonneg_right (by norm_num) hYpos.le
    · have hbig : 1 / 2 ^ 20 ≤ |fval x.hi| := (not_le.1 hsm).le
      have hY20 : 98 / 100 * (1 / 2 ^ 20) ≤ Y := by
        have := mul_le_mul_of_nonneg_left hbig (by norm_num : (0 : ℝ) ≤ 98 / 100)
        linarith
      refine ⟨1 / 2 ^ 32 + 1 / 2 ^ 36, 1 / 2 ^ 31, by positivity, by norm_num, by norm_num, ?_, ?_, by norm_num, ?_, s1⟩
      · have h2 : 98 / 100 * (1 / 2 ^ 20) / 2 ^ 10 ≤ Y / 2 ^ 10 := div_le_div_of_nonneg_right hY20 (by positivity)
        linarith [show (1 : ℝ) / 2 ^ 31 ≤ 98 / 100 * (1 / 2 ^ 20) / 2 ^ 10 by norm_num]
      · have : Y / 2 ^ 90 ≤ 1 / 254 / 2 ^ 90 := div_le_div_of_nonneg_right hYhi (by positivity)
        linarith [show (1 : ℝ) / 254 / 2 ^ 90 ≤ 1 / 2 ^ 31 by norm_num]
      · have : ((1 : ℝ) / 2 ^ 32 + 1 / 2 ^ 36) ^ 2 * (1 / 2 ^ 32 + 1 / 2 ^ 36) ^ 2
            ≤ 2 / 2 ^ 106 * (98 / 100 * (1 / 2 ^ 20)) := by norm_num
        have h2 : (2 : ℝ) / 2 ^ 106 * (98 / 100 * (1 / 2 ^ 20)) ≤ 2 / 2 ^ 106 * Y :=
          mul_le_mul_of_nonneg_left hY20 (by positivity)
        linarith
  obtain ⟨η0, R, e0, e1, e2, eR1, eR2, eR3, e4, es⟩ := hseed
  exact ⟨η0, R, e0, e1, e2, eR1, eR2, eR3, e4, ⟨sx, es⟩, hAround R eR1, hYhi, hY1⟩

/-- **Property C15, `ln_1p` for `|x| ≤ 2^-8`** — PARTIAL only in the range (`2^-850 ≤ |x|` instead of `2^-1000 ≤ |x|`;
`x = 0` is exact, `C15.ln_1p_zero`): valid result within relative `2^-100` of `ln(1 + v)`.  Below `2^-850` the proved
bound of `TwoFloat / TwoFloat` on a tiny numerator (`C13c.div_tt_valid_any_numerator`) is too coarse. -/
theorem ln_1p_bound_small_partial (x : TwoFloat) (hv : x.Valid) (hw : x.WF)
    (hlo : 1 / 2 ^ 850 ≤ |val x|) (hhi : |val x| ≤ 1 / 2 ^ 8) :
    (TwoFloat.ln_1p x).Valid ∧
    |val (TwoFloat.ln_1p x) - Real.log (1 + val x)| ≤ |Real.log (1 + val x)| / 2 ^ 100 := by
  obtain ⟨η0, R, e0, e1, e2, eR1, eR2, eR3, e4, hseed, hAround, hYhi, hY1⟩ := small_setup x hv hw
    (le_trans (one_div_le_one_div_of_le (by positivity) (pow_le_pow_right₀ (by norm_num) (by norm_num))) hlo) hhi
  obtain ⟨v1, v2⟩ := abs_le.1 hhi
  have hVpos : 0 < |val x| := lt_of_lt_of_le (by positivity) hlo
  have hV0 : val x ≠ 0 := abs_pos.1 hVpos
  set Y := |Real.log (1 + val x)| with hYdef
  have hYlo : 1 / 2 ^ 851 ≤ Y := by
    have : (1 : ℝ) / 2 ^ 850 * (1 - 1 / 2 ^ 7) ≤ |val x| * (1 - 1 / 2 ^ 7) :=
      mul_le_mul_of_nonneg_right hlo (by norm_num)
    have e : (1 : ℝ) / 2 ^ 851 ≤ 1 / 2 ^ 850 * (1 - 1 / 2 ^ 7) := by
      rw [show (851 : ℕ) = 850 + 1 from rfl, pow_succ]
      have : (0 : ℝ) < 1 / 2 ^ 850 := by positivity
      have e2 : (1 : ℝ) / (2 ^ 850 * 2) = 1 / 2 ^ 850 * (1 / 2) := by field_simp
      rw [e2]; nlinarith
    linarith
  have hYpos : 0 < Y := lt_of_lt_of_le (by positivity) hYlo
  obtain ⟨n1, n2⟩ := small_numeric hYlo hYhi e0 e1 e2 eR1 eR2 e4
  have hR0 : 0 ≤ R := le_trans e0 e2
  have hG0 : (0 : ℝ) ≤ (Y + R) * (1 + 1 / 128) := by positivity
  have hκ : (54 : ℝ) / 2 ^ 106 * ((Y + R) * (1 + 1 / 128)) ≤ 1 / 2 ^ 40 := by
    have : (Y + R) * (1 + 1 / 128) ≤ 1 * 2 := mul_le_mul (by linarith) (by norm_num) (by norm_num) (by norm_num)
    have := mul_le_mul_of_nonneg_left this (by positivity : (0 : ℝ) ≤ 54 / 2 ^ 106)
    linarith [show (54 : ℝ) / 2 ^ 106 * (1 * 2) ≤ 1 / 2 ^ 40 by norm_num]
  obtain ⟨r1, r2⟩ := ln1p_two_steps (v := x) (η0 := η0) (R := R) (dM := 54 / 2 ^ 106)
    (G := (Y + R) * (1 + 1 / 128)) ⟨hv, hw⟩ (by linarith [show (1 : ℝ) / 2 ^ 16 ≤ 1 - 1 / 2 ^ 8 by norm_num])
    (le_trans v2 (le_trans (by norm_num) (one_le_pow₀ (by norm_num : (1 : ℝ) ≤ 2)))) hV0
    (by linarith [show (1 : ℝ) / 2 ^ 8 < 1 / 2 by norm_num]) eR3 (by positivity) hG0 hκ
    hseed e2 hAround n1
  exact ⟨r1.1, le_trans r2 n2⟩

/-! ### 7. the other regimes -/

/-- numerical closing with radius `2^-30`, seed accuracy `2^-31`, `κ ≤ K ≤ 2^-40`, `Y ≤ 700` -/
theorem two_step_numeric {Y η0 κ K : ℝ} (hY0 : 0 ≤ Y) (hY1 : Y ≤ 700) (h0 : 0 ≤ η0) (h1 : η0 ≤ 1 / 2 ^ 31)
    (hκ0 : 0 ≤ κ) (hκK : κ ≤ K) (hK : K ≤ 1 / 2 ^ 40) :
    Bstep Y κ η0 ≤ 1 / 2 ^ 30 ∧
    Bstep Y κ (Bstep Y κ η0) ≤ 10002 / 10000 * K + 1 / 2 ^ 118 + 4 / 2 ^ 106 * Y := by
  have hK0 : 0 ≤ K := le_trans hκ0 hκK
  have hca : cA * Y ≤ 4 / 2 ^ 106 * Y := mul_le_mul_of_nonneg_right cA_le hY0
  have hcaY : cA * Y ≤ 4 / 2 ^ 106 * 700 := le_trans hca (mul_le_mul_of_nonneg_left hY1 (by positivity))
  have hsq : η0 ^ 2 ≤ 1 / 2 ^ 62 := by
    calc η0 ^ 2 ≤ (1 / 2 ^ 31) ^ 2 := pow_le_pow_left₀ h0 h1 2
      _ = 1 / 2 ^ 62 := by norm_num
  have h968 : (1 : ℝ) / 2 ^ 968 ≤ 1 / 2 ^ 200 :=
    one_div_le_one_div_of_le (by positivity) (pow_le_pow_right₀ (by norm_num) (by norm_num))
  have hB1 := Bstep_le (Y := Y) (κ := κ) h0 hκ0
  set β := 1 / 2 ^ 60 + 2 * K with hβ
  have hβ0 : 0 ≤ β := by rw [hβ]; positivity
  have hB1β : Bstep Y κ η0 ≤ β := by
    refine le_trans hB1 ?_
    rw [hβ]
    have n : (10001 : ℝ) / 10000 * (1 / 2 ^ 62) + 1 / 2 ^ 100 * (1 / 2 ^ 31) + 1 / 2 ^ 200 + 4 / 2 ^ 106 * 700 ≤ 1 / 2 ^ 60 := by
      norm_num
    have m1 := mul_le_mul_of_nonneg_left hsq (by norm_num : (0 : ℝ) ≤ 10001 / 10000)
    have m2 := mul_le_mul_of_nonneg_left hκK (by norm_num : (0 : ℝ) ≤ 10001 / 10000)
    have m3 := mul_le_mul_of_nonneg_left h1 (by norm_num : (0 : ℝ) ≤ 1 / 2 ^ 100)
    linarith
  have hβR : β ≤ 1 / 2 ^ 30 := by
    rw [hβ]; linarith [show (1 : ℝ) / 2 ^ 60 + 2 * (1 / 2 ^ 40) ≤ 1 / 2 ^ 30 by norm_num]
  refine ⟨le_trans hB1β hβR, ?_⟩
  have hB10 := Bstep_nonneg (Y := Y) (κ := κ) (η := η0) hY0 hκ0 h0
  refine le_trans (Bstep_mono hB10 hB1β) (le_trans (Bstep_le hβ0 hκ0) ?_)
  have hβsq : β ^ 2 ≤ 1 / 2 ^ 119 + 1 / 2 ^ 37 * K := by
    have e1 : β ^ 2 ≤ 2 * (1 / 2 ^ 60) ^ 2 + 2 * (2 * K) ^ 2 := by
      rw [hβ]; nlinarith [sq_nonneg (1 / 2 ^ 60 - 2 * K)]
    have e2 : 2 * (2 * K) ^ 2 = (8 * K) * K := by ring
    have e3 : (8 * K) * K ≤ (8 * (1 / 2 ^ 40)) * K := mul_le_mul_of_nonneg_right (by linarith) hK0
    have e4 : (2 : ℝ) * (1 / 2 ^ 60) ^ 2 = 1 / 2 ^ 119 := by norm_num
    have e5 : (8 : ℝ) * (1 / 2 ^ 40) = 1 / 2 ^ 37 := by norm_num
    rw [e2, e4] at e1; rw [e5] at e3
    linarith
  have m1 := mul_le_mul_of_nonneg_left hβsq (by norm_num : (0 : ℝ) ≤ 10001 / 10000)
  have m2 := mul_le_mul_of_nonneg_left hκK (by norm_num : (0 : ℝ) ≤ 10001 / 10000)
  have e6 : (1 : ℝ) / 2 ^ 100 * β = 1 / 2 ^ 160 + 1 / 2 ^ 99 * K := by
    rw [hβ]
    have : (1 : ℝ) / 2 ^ 100 * (1 / 2 ^ 60) = 1 / 2 ^ 160 := by rw [one_div_mul_one_div, ← pow_add]
    have h2 : (1 : ℝ) / 2 ^ 100 * (2 * K) = 1 / 2 ^ 99 * K := by
      rw [show (100 : ℕ) = 99 + 1 from rfl, pow_succ]; field_simp
    rw [mul_add, this, h2]
  rw [e6]
  have n1 : (10001 : ℝ) / 10000 * (1 / 2 ^ 119) + 1 / 2 ^ 160 + 1 / 2 ^ 200 ≤ 1 / 2 ^ 118 := by norm_num
  have n2 : (10001 : ℝ) / 10000 * (1 / 2 ^ 37 * K) + 10001 / 10000 * K + 1 / 2 ^ 99 * K ≤ 10002 / 10000 * K := by
    have : (10001 : ℝ) / 10000 * (1 / 2 ^ 37 * K) + 10001 / 10000 * K + 1 / 2 ^ 99 * K
        = (10001 / 10000 * (1 / 2 ^ 37) + 10001 / 10000 + 1 / 2 ^ 99) * K := by ring
    rw [this]; exact mul_le_mul_of_nonneg_right (by norm_num) hK0
  linarith

theorem hHi_le : ExpBound.hHi ≤ (164873 : ℚ) / 100000 := by decide +kernel

/-- `ln(1 + V) ≥ 0.55` for `V ≥ 0.75` -/
theorem log_ge_of_three_quarters {V : ℝ} (h : 3 / 4 ≤ V) : 11 / 20 ≤ Real.log (1 + V) := by
  have hpos : (0 : ℝ) < 1 + V := by linarith
  rw [Real.le_log_iff_exp_le hpos]
  have e : (11 : ℝ) / 20 = 1 / 2 + 1 / 20 := by norm_num
  rw [e, Real.exp_add]
  obtain ⟨-, c2⟩ := ExpBound.exp_half_encl
  have c2' : Real.exp (1 / 2) ≤ 164873 / 100000 := by
    have := (Rat.cast_le (K := ℝ)).2 hHi_le
    push_cast at this; linarith
  have h20 := Real.abs_exp_sub_one_sub_id_le (x := 1 / 20) (by rw [abs_of_pos] <;> norm_num)
  have h20' : Real.exp (1 / 20) ≤ 1 + 1 / 20 + (1 / 20) ^ 2 := by linarith [(abs_le.1 h20).2]
  have hp := Real.exp_pos (1 / 2 : ℝ)
  have hq := Real.exp_pos (1 / 20 : ℝ)
  calc Real.exp (1 / 2) * Real.exp (1 / 20) ≤ 164873 / 100000 * (1 + 1 / 20 + (1 / 20) ^ 2) :=
        mul_le_mul c2' h20' hq.le (by norm_num)
    _ ≤ 1 + V := by norm_num; linarith

/-- `ln a ≤ 668` for `a ≤ 2^962` -/
theorem log_le_668 {a : ℝ} (ha : 0 < a) (h : a ≤ 2 ^ 962) : Real.log a ≤ 668 := by
  obtain ⟨l1, l2⟩ := Log2Bound.log_two_range
  have u := Real.log_le_log ha h
  rw [Real.log_pow] at u
  push_cast at u
  nlinarith

/-- **Property C15, `ln_1p` for `x ≥ 0.75`** (high word up to `2^960`): valid result within relative `2^-100` of
`ln(1 + v)` -/
theorem ln_1p_bound_outer (x : TwoFloat) (hv : x.Valid) (hw : x.WF)
    (hlo : 3 / 4 ≤ val x) (hhi : fval x.hi ≤ 2 ^ 960) :
    (TwoFloat.ln_1p x).Valid ∧
    |val (TwoFloat.ln_1p x) - Real.log (1 + val x)| ≤ |Real.log (1 + val x)| / 2 ^ 100 := by
  obtain ⟨hH1, hH2⟩ := hi_vs_val hv
  have hVpos : 0 < val x := by linarith
  have hHpos : 0 < fval x.hi := by
    by_contra hc
    obtain ⟨e, hl⟩ := lo_small hv
    have h1 : fval x.hi ≤ 0 := not_lt.1 hc
    have h2 := (abs_le.1 hl).2
    rw [abs_of_nonpos h1] at h2
    have h3 : -fval x.hi / 2 ^ 53 ≤ -fval x.hi := div_le_self (by linarith) (by norm_num)
    have : val x ≤ 0 := by rw [e]; linarith
    linarith
  rw [abs_of_pos hVpos, abs_of_pos hHpos] at hH1 hH2
  have hV961 : val x ≤ 2 ^ 961 := by
    have : fval x.hi * (1 + 1 / 2 ^ 53) ≤ 2 ^ 960 * 2 := mul_le_mul hhi (by norm_num) (by norm_num) (by positivity)
    have e : (2 : ℝ) ^ 961 = 2 ^ 960 * 2 := by rw [pow_succ]
    linarith
  have hH34 : 7 / 10 ≤ fval x.hi := by
    have : val x ≤ fval x.hi * (1 + 1 / 2 ^ 53) := hH2
    nlinarith
  have hy1 := log_ge_of_three_quarters hlo
  have hy2 : Real.log (1 + val x) ≤ 668 := log_le_668 (by linarith) (by
    have e : (2 : ℝ) ^ 962 = 2 ^ 961 * 2 := by rw [pow_succ]
    have : (1 : ℝ) ≤ 2 ^ 961 := one_le_pow₀ (by norm_num)
    linarith)
  set y := Real.log (1 + val x) with hydef
  have hYabs : |y| = y := abs_of_pos (by linarith)
  obtain ⟨sx, s1, -⟩ := seed_err ⟨hv, hw⟩ (by linarith [show (1 : ℝ) / 2 ^ 16 ≤ 1 by norm_num])
    (le_trans hhi (pow_le_pow_right₀ (by norm_num) (by norm_num)))
  -- exp_m1 around y
  have hAround : Around y (1 / 2 ^ 30) (1 / 2 ^ 100) (9 / 10 * (y + 1 / 2 ^ 30)) := by
    intro z hz hzy
    obtain ⟨z1, z2⟩ := abs_le.1 hzy
    have hzlo : 27 / 50 ≤ val z := by linarith [show (1 : ℝ) / 2 ^ 30 ≤ 1 / 100 by norm_num]
    have hzhi : val z ≤ 700 := by linarith [show (1 : ℝ) / 2 ^ 30 ≤ 1 by norm_num]
    obtain ⟨-, ht⟩ := em1_any hz (by linarith) hzhi (by
      rw [abs_of_pos (by linarith)]
      refine le_trans ?_ hzlo
      calc (1 : ℝ) / 2 ^ 950 ≤ 1 / 2 ^ 1 :=
            one_div_le_one_div_of_le (by norm_num) (pow_le_pow_right₀ (by norm_num) (by norm_num))
        _ ≤ 27 / 50 := by norm_num)
    refine ⟨ht (Or.inr (by linarith)), le_trans (g_outer hzlo) ?_⟩
    apply mul_le_mul_of_nonneg_right _ (Real.exp_pos _).le
    linarith
  have hK : (1 : ℝ) / 2 ^ 100 * (9 / 10 * (y + 1 / 2 ^ 30)) ≤ 1 / 2 ^ 40 := by
    have : 9 / 10 * (y + 1 / 2 ^ 30) ≤ 9 / 10 * (668 + 1) := mul_le_mul_of_nonneg_left (by linarith [show (1 : ℝ) / 2 ^ 30 ≤ 1 by norm_num]) (by norm_num)
    have := mul_le_mul_of_nonneg_left this (by positivity : (0 : ℝ) ≤ 1 / 2 ^ 100)
    linarith [show (1 : ℝ) / 2 ^ 100 * (9 / 10 * (668 + 1)) ≤ 1 / 2 ^ 40 by norm_num]
  have hG0 : (0 : ℝ) ≤ 9 / 10 * (y + 1 / 2 ^ 30) := by positivity
  set κ := 1 / 2 ^ 100 * (9 / 10 * (y + 1 / 2 ^ 30)) * (1 + 1 / 2 ^ 18) with hκ
  have hκ0 : 0 ≤ κ := by rw [hκ]; positivity
  have hκ40 : κ ≤ 1 / 2 ^ 40 := by
    rw [hκ]
    have h1 : (1 : ℝ) / 2 ^ 100 * (9 / 10 * (y + 1 / 2 ^ 30)) ≤ 1 / 2 ^ 100 * (9 / 10 * (668 + 1)) := by
      apply mul_le_mul_of_nonneg_left _ (by positivity)
      apply mul_le_mul_of_nonneg_left _ (by norm_num)
      linarith [show (1 : ℝ) / 2 ^ 30 ≤ 1 by norm_num]
    have := mul_le_mul_of_nonneg_right h1 (by norm_num : (0 : ℝ) ≤ 1 + 1 / 2 ^ 18)
    linarith [show (1 : ℝ) / 2 ^ 100 * (9 / 10 * (668 + 1)) * (1 + 1 / 2 ^ 18) ≤ 1 / 2 ^ 40 by norm_num]
  obtain ⟨n1, n2⟩ := two_step_numeric (Y := |y|) (η0 := 1 / 2 ^ 32 + 1 / 2 ^ 36) (κ := κ) (K := κ)
    (abs_nonneg _) (by rw [hYabs]; linarith) (by positivity) (by norm_num) hκ0 le_rfl hκ40
  obtain ⟨r1, r2⟩ := ln1p_two_steps (v := x) (η0 := 1 / 2 ^ 32 + 1 / 2 ^ 36) (R := 1 / 2 ^ 30) (dM := 1 / 2 ^ 100)
    (G := 9 / 10 * (y + 1 / 2 ^ 30)) ⟨hv, hw⟩ (by linarith [show (1 : ℝ) / 2 ^ 16 ≤ 1 by norm_num]) hV961 hVpos.ne' (by linarith)
    (by norm_num) (by positivity) hG0 hK ⟨sx, s1⟩ (by norm_num) hAround n1
  refine ⟨r1.1, le_trans r2 (le_trans n2 ?_)⟩
  rw [hYabs, hκ]
  have e : y / 2 ^ 100 = 64 / 2 ^ 106 * y := by
    rw [show (106 : ℕ) = 100 + 6 from rfl, pow_add]; field_simp; ring
  rw [e]
  have e2 : 10002 / 10000 * (1 / 2 ^ 100 * (9 / 10 * (y + 1 / 2 ^ 30)) * (1 + 1 / 2 ^ 18))
      = (10002 / 10000 * (64 * (9 / 10)) * (1 + 1 / 2 ^ 18)) / 2 ^ 106 * y
        + (10002 / 10000 * (64 * (9 / 10)) * (1 + 1 / 2 ^ 18)) / 2 ^ 106 * (1 / 2 ^ 30) := by
    rw [show (106 : ℕ) = 100 + 6 from rfl, pow_add]; field_simp; ring
  rw [e2]
  have c1 : (10002 / 10000 * (64 * (9 / 10)) * (1 + 1 / 2 ^ 18)) / 2 ^ 106 * y ≤ 5762 / 100 / 2 ^ 106 * y := by
    apply mul_le_mul_of_nonneg_right _ (by linarith)
    norm_num
  have c2 : (10002 / 10000 * (64 * (9 / 10)) * (1 + 1 / 2 ^ 18)) / 2 ^ 106 * (1 / 2 ^ 30) + 1 / 2 ^ 118
      ≤ 1 / 100 / 2 ^ 106 * (11 / 20) := by norm_num
  have c3 : (1 : ℝ) / 100 / 2 ^ 106 * (11 / 20) ≤ 1 / 100 / 2 ^ 106 * y := mul_le_mul_of_nonneg_left hy1 (by positivity)
  have e3 : (64 : ℝ) / 2 ^ 106 * y = 5762 / 100 / 2 ^ 106 * y + 1 / 100 / 2 ^ 106 * y + 4 / 2 ^ 106 * y
      + (64 - 5762 / 100 - 1 / 100 - 4) / 2 ^ 106 * y := by ring
  have c4 : 0 ≤ ((64 : ℝ) - 5762 / 100 - 1 / 100 - 4) / 2 ^ 106 * y := mul_nonneg (by norm_num) (by linarith)
  linarith


/-- the high word from the value, both directions, without absolute values -/
theorem hi_near {v : TwoFloat} (hv : v.Valid) : |fval v.hi - val v| ≤ |val v| / 2 ^ 52 := by
  obtain ⟨e, hl⟩ := lo_small hv
  obtain ⟨h1, -⟩ := hi_vs_val hv
  have : fval v.hi - val v = -fval v.lo := by rw [e]; ring
  rw [this, abs_neg]
  refine le_trans hl ?_
  have : |fval v.hi| / 2 ^ 53 ≤ |val v| * (1 + 1 / 2 ^ 52) / 2 ^ 53 := div_le_div_of_nonneg_right h1 (by positivity)
  have e2 : |val v| * (1 + 1 / 2 ^ 52) / 2 ^ 53 = |val v| / 2 ^ 52 * ((1 + 1 / 2 ^ 52) / 2) := by
    rw [show (53 : ℕ) = 52 + 1 from rfl, pow_succ]; field_simp
  have h3 : |val v| / 2 ^ 52 * ((1 + 1 / 2 ^ 52) / 2) ≤ |val v| / 2 ^ 52 * 1 :=
    mul_le_mul_of_nonneg_left (by norm_num) (by positivity)
  linarith

/-- **Property C15, `ln_1p` for `2^-8 ≤ x ≤ 0.75`**: valid result within relative `2^-45` of `ln(1 + v)` -/
theorem ln_1p_bound_mid_pos (x : TwoFloat) (hv : x.Valid) (hw : x.WF)
    (hlo : 1 / 2 ^ 8 ≤ val x) (hhi : val x ≤ 3 / 4) :
    (TwoFloat.ln_1p x).Valid ∧
    |val (TwoFloat.ln_1p x) - Real.log (1 + val x)| ≤ |Real.log (1 + val x)| / 2 ^ 45 := by
  have hVpos : 0 < val x := lt_of_lt_of_le (by positivity) hlo
  have hn := hi_near hv
  rw [abs_of_pos hVpos] at hn
  obtain ⟨n1, n2⟩ := abs_le.1 hn
  have hH1 : -(1 / 2) ≤ fval x.hi := by
    have : val x / 2 ^ 52 ≤ val x := div_le_self hVpos.le (by norm_num)
    linarith
  have hH2 : fval x.hi ≤ 2 := by
    have : val x / 2 ^ 52 ≤ val x := div_le_self hVpos.le (by norm_num)
    linarith
  -- y = ln(1+V) ∈ [V·4/7, V]
  have ha : 0 < 1 + val x := by linarith
  have hy2 : Real.log (1 + val x) ≤ val x := by
    have := Real.log_le_sub_one_of_pos ha; linarith
  have hy1 : 1 / 500 ≤ Real.log (1 + val x) := by
    have := Real.one_sub_inv_le_log_of_pos ha
    have e : 1 - (1 + val x)⁻¹ = val x / (1 + val x) := by field_simp; ring
    rw [e] at this
    have : 1 / 500 ≤ val x / (1 + val x) := by
      rw [le_div_iff₀ ha]
      have : (1 : ℝ) / 2 ^ 8 = 1 / 256 := by norm_num
      nlinarith
    linarith
  set y := Real.log (1 + val x) with hydef
  have hYabs : |y| = y := abs_of_pos (by linarith)
  obtain ⟨sx, s1, -⟩ := seed_err ⟨hv, hw⟩ (by linarith [show (1 : ℝ) / 2 ^ 16 ≤ 1 / 2 by norm_num])
    (le_trans hH2 (le_trans (by norm_num) (pow_le_pow_right₀ (by norm_num : (1 : ℝ) ≤ 2) (by norm_num : 1 ≤ 999))))
  have hAround : Around y (1 / 2 ^ 30) (1 / 2 ^ 45) ((y + 1 / 2 ^ 30) * (1 - 3 / 10 * (y - 1 / 2 ^ 30))) := by
    intro z hz hzy
    obtain ⟨z1, z2⟩ := abs_le.1 hzy
    have hR : (1 : ℝ) / 2 ^ 30 ≤ 1 / 1000 := by norm_num
    have hzlo : 1 / 1000 ≤ val z := by linarith
    have hzhi : val z ≤ 9 / 10 := by linarith
    obtain ⟨ht, -⟩ := em1_any hz (by linarith) (by linarith) (by
      rw [abs_of_pos (by linarith)]
      refine le_trans ?_ hzlo
      calc (1 : ℝ) / 2 ^ 950 ≤ 1 / 2 ^ 10 :=
            one_div_le_one_div_of_le (by norm_num) (pow_le_pow_right₀ (by norm_num) (by norm_num))
        _ ≤ 1 / 1000 := by norm_num)
    refine ⟨ht, le_trans (g_pos_mid (by linarith) hzhi) ?_⟩
    apply mul_le_mul_of_nonneg_right _ (Real.exp_pos _).le
    apply mul_le_mul (by linarith) (by linarith) (by linarith) (by linarith)
  set G := (y + 1 / 2 ^ 30) * (1 - 3 / 10 * (y - 1 / 2 ^ 30)) with hG
  have hG0 : 0 ≤ G := by
    rw [hG]; apply mul_nonneg (by linarith [show (0 : ℝ) ≤ 1 / 2 ^ 30 by positivity])
    linarith [show (1 : ℝ) / 2 ^ 30 ≤ 1 / 1000 by norm_num]
  have hGle : G ≤ 9995 / 10000 * y := by
    rw [hG]
    have hR : (1 : ℝ) / 2 ^ 30 ≤ 1 / 2 ^ 21 * y := by
      have : (1 : ℝ) / 2 ^ 21 * (1 / 500) ≤ 1 / 2 ^ 21 * y := mul_le_mul_of_nonneg_left hy1 (by positivity)
      linarith [show (1 : ℝ) / 2 ^ 30 ≤ 1 / 2 ^ 21 * (1 / 500) by norm_num]
    have hR0 : (0 : ℝ) ≤ 1 / 2 ^ 30 := by positivity
    nlinarith
  set κ := 1 / 2 ^ 45 * G * (1 + 1 / 2 ^ 18) with hκ
  have hκ0 : 0 ≤ κ := by rw [hκ]; positivity
  have hκK : κ ≤ 9996 / 10000 * y / 2 ^ 45 := by
    rw [hκ]
    have h1 : 1 / 2 ^ 45 * G * (1 + 1 / 2 ^ 18) ≤ 1 / 2 ^ 45 * (9995 / 10000 * y) * (1 + 1 / 2 ^ 18) := by
      apply mul_le_mul_of_nonneg_right _ (by norm_num)
      exact mul_le_mul_of_nonneg_left hGle (by positivity)
    have e : 1 / 2 ^ 45 * (9995 / 10000 * y) * (1 + 1 / 2 ^ 18) = (9995 / 10000 * (1 + 1 / 2 ^ 18)) * y / 2 ^ 45 := by ring
    have h2 : (9995 / 10000 * (1 + 1 / 2 ^ 18)) * y / 2 ^ 45 ≤ 9996 / 10000 * y / 2 ^ 45 := by
      apply div_le_div_of_nonneg_right _ (by positivity)
      exact mul_le_mul_of_nonneg_right (by norm_num) (by linarith)
    linarith
  have hK40 : 9996 / 10000 * y / 2 ^ 45 ≤ 1 / 2 ^ 40 := by
    rw [div_le_iff₀ (by positivity)]; norm_num; linarith
  have hdMG : (1 : ℝ) / 2 ^ 45 * G ≤ 1 / 2 ^ 40 := by
    have : G ≤ 1 := by linarith
    have := mul_le_mul_of_nonneg_left this (by positivity : (0 : ℝ) ≤ 1 / 2 ^ 45)
    linarith [show (1 : ℝ) / 2 ^ 45 * 1 ≤ 1 / 2 ^ 40 by norm_num]
  obtain ⟨m1, m2⟩ := two_step_numeric (Y := |y|) (η0 := 1 / 2 ^ 32 + 1 / 2 ^ 36) (κ := κ)
    (K := 9996 / 10000 * y / 2 ^ 45) (abs_nonneg _) (by rw [hYabs]; linarith) (by positivity) (by norm_num) hκ0 hκK hK40
  obtain ⟨r1, r2⟩ := ln1p_two_steps (v := x) (η0 := 1 / 2 ^ 32 + 1 / 2 ^ 36) (R := 1 / 2 ^ 30) (dM := 1 / 2 ^ 45)
    (G := G) ⟨hv, hw⟩ (by linarith [show (1 : ℝ) / 2 ^ 16 ≤ 1 by norm_num])
    (le_trans hhi (le_trans (by norm_num) (one_le_pow₀ (by norm_num : (1 : ℝ) ≤ 2)))) hVpos.ne' (by linarith)
    (by norm_num) (by positivity) hG0 hdMG ⟨sx, s1⟩ (by norm_num) hAround m1
  refine ⟨r1.1, le_trans r2 (le_trans m2 ?_)⟩
  rw [hYabs]
  have e : y / 2 ^ 45 = 10002 / 10000 * (9996 / 10000 * y / 2 ^ 45)
      + (1 - 10002 / 10000 * (9996 / 10000)) * y / 2 ^ 45 := by ring
  have c1 : (1 : ℝ) / 2 ^ 118 + 4 / 2 ^ 106 * y ≤ (1 - 10002 / 10000 * (9996 / 10000)) * y / 2 ^ 45 := by
    rw [le_div_iff₀ (by positivity)]
    have : ((1 : ℝ) / 2 ^ 118 + 4 / 2 ^ 106 * y) * 2 ^ 45 = 1 / 2 ^ 73 + 4 / 2 ^ 61 * y := by
      rw [show (118 : ℕ) = 73 + 45 from rfl, show (106 : ℕ) = 61 + 45 from rfl, pow_add, pow_add]; field_simp
    rw [this]
    nlinarith
  linarith


theorem log_049 : -(7137 / 10000) ≤ Real.log (49 / 100) ∧ Real.log (49 / 100) ≤ -(7131 / 10000) := by
  have l1 := Real.log_two_gt_d9
  have l2 := Real.log_two_lt_d9
  have e : (49 : ℝ) / 100 = (98 / 100) / 2 := by norm_num
  rw [e, Real.log_div (by norm_num) (by norm_num)]
  have u1 := Real.log_le_sub_one_of_pos (show (0 : ℝ) < 98 / 100 by norm_num)
  have u2 := Real.one_sub_inv_le_log_of_pos (show (0 : ℝ) < 98 / 100 by norm_num)
  norm_num at u1 u2
  constructor <;> linarith

/-! ### 8. panic-freedom of `ln_1p`: the intermediate quotient is a valid pair -/

/-- the first Newton correction is a valid pair -/
theorem first_quotient {v : TwoFloat} {η0 R dM G : ℝ} (hv : VW v)
    (hv1 : 1 / 2 ^ 16 ≤ 1 + val v) (hv2 : val v ≤ 2 ^ 961)
    (hR : R ≤ 1 / 2 ^ 20) (hdM : 0 ≤ dM) (hG0 : 0 ≤ G) (hκ : dM * G ≤ 1 / 2 ^ 40)
    (hseed : VW (convert.impl_From_f64_for_TwoFloat.from (Libm.log1p v.hi)) ∧
      |val (convert.impl_From_f64_for_TwoFloat.from (Libm.log1p v.hi)) - Real.log (1 + val v)| ≤ η0)
    (hη : η0 ≤ R) (H : Around (Real.log (1 + val v)) R dM G) :
    VW (corr1p v (convert.impl_From_f64_for_TwoFloat.from (Libm.log1p v.hi))) := by
  obtain ⟨hx0, he0⟩ := hseed
  obtain ⟨hE, hGx⟩ := H _ hx0 (le_trans he0 hη)
  exact (ln1p_step hv hx0 hv1 hv2 (le_trans he0 (le_trans hη hR)) hdM hG0 hGx hκ hE).1

/-- panic-freedom from the validity of the first correction (`C15p.ln_1p_pf_partial`) -/
theorem pf_of_quotient (x : TwoFloat) (hv : x.Valid) (hw : x.WF)
    (hq : VW (corr1p x (convert.impl_From_f64_for_TwoFloat.from (Libm.log1p x.hi)))) :
    TwoFloat.ln_1p.pf x = true :=
  C15p.ln_1p_pf_partial x (Or.inl hv) hw (Or.inl hq.1)

/-- the first correction for `|x| ≥ 2^-8` -/
theorem quotient_nonsmall (x : TwoFloat) (hv : x.Valid) (hw : x.WF)
    (h8 : 1 / 2 ^ 8 ≤ |val x|) (h1 : -1 + 1 / 2 ^ 15 ≤ val x) (h2 : fval x.hi ≤ 2 ^ 960) :
    VW (corr1p x (convert.impl_From_f64_for_TwoFloat.from (Libm.log1p x.hi))) := by
  have h15 : (0 : ℝ) < 1 / 2 ^ 15 := by positivity
  have ha : 0 < 1 + val x := by linarith
  have ha15 : 1 / 2 ^ 15 ≤ 1 + val x := by linarith
  have hn := hi_near hv
  obtain ⟨hH1, hH2⟩ := hi_vs_val hv
  have hVabs : |val x| ≤ 2 ^ 961 := by
    have hHge : -2 ≤ fval x.hi := by
      have hd := (abs_le.1 hn).1
      rcases le_or_gt (val x) 0 with hs | hs
      · rw [abs_of_nonpos hs] at hd
        have : -val x / 2 ^ 52 ≤ 1 := by
          rw [div_le_iff₀ (by positivity)]; linarith [show (1 : ℝ) ≤ 1 * 2 ^ 52 by norm_num]
        linarith
      · rw [abs_of_pos hs] at hd
        have : val x / 2 ^ 52 ≤ val x := div_le_self hs.le (by norm_num)
        linarith
    have h960 : (2 : ℝ) ≤ 2 ^ 960 := by
      calc (2 : ℝ) = 2 ^ 1 := by norm_num
        _ ≤ 2 ^ 960 := pow_le_pow_right₀ (by norm_num) (by norm_num)
    have hH : |fval x.hi| ≤ 2 ^ 960 := abs_le.2 ⟨by linarith, h2⟩
    have : |fval x.hi| * (1 + 1 / 2 ^ 53) ≤ 2 ^ 960 * 2 := mul_le_mul hH (by norm_num) (by norm_num) (by positivity)
    have e : (2 : ℝ) ^ 961 = 2 ^ 960 * 2 := by rw [pow_succ]
    linarith
  have hV961 : val x ≤ 2 ^ 961 := (abs_le.1 hVabs).2
  have hHlo : 1 / 2 ^ 16 ≤ 1 + fval x.hi := by
    have hd := (abs_le.1 hn).1
    by_cases hs : val x ≤ 0
    · have : |val x| ≤ 1 := by rw [abs_of_nonpos hs]; linarith
      have : |val x| / 2 ^ 52 ≤ 1 / 2 ^ 52 := div_le_div_of_nonneg_right this (by positivity)
      linarith [show (1 : ℝ) / 2 ^ 16 + 1 / 2 ^ 52 ≤ 1 / 2 ^ 15 by norm_num]
    · have hp : 0 < val x := not_le.1 hs
      rw [abs_of_pos hp] at hd
      have : val x / 2 ^ 52 ≤ val x := div_le_self hp.le (by norm_num)
      linarith [show (1 : ℝ) / 2 ^ 16 ≤ 1 by norm_num]
  obtain ⟨sx, s1, -⟩ := seed_err ⟨hv, hw⟩ hHlo (le_trans h2 (pow_le_pow_right₀ (by norm_num) (by norm_num)))
  have hy668 : Real.log (1 + val x) ≤ 668 := log_le_668 ha (by
    have e : (2 : ℝ) ^ 962 = 2 ^ 961 * 2 := by rw [pow_succ]
    have : (1 : ℝ) ≤ 2 ^ 961 := one_le_pow₀ (by norm_num)
    linarith)
  have hy11 : -11 ≤ Real.log (1 + val x) := by
    have d := Real.log_le_log (by positivity) ha15
    rw [one_div, Real.log_inv, Real.log_pow] at d
    have l2 := Real.log_two_lt_d9
    push_cast at d
    linarith
  set y := Real.log (1 + val x) with hydef
  have hR : (1 : ℝ) / 2 ^ 30 ≤ 1 / 100 := by norm_num
  have t950 : ∀ t : ℝ, 1 / 2 ^ 20 ≤ t → (1 : ℝ) / 2 ^ 950 ≤ t := fun t ht =>
    le_trans (one_div_le_one_div_of_le (by positivity) (pow_le_pow_right₀ (by norm_num) (by norm_num))) ht
  rcases le_or_gt y (-(9 / 10)) with hA | hA
  · -- far negative: exp_m1 = exp − 1, accuracy 2^-100
    have hAround : Around y (1 / 2 ^ 30) (1 / 2 ^ 100) (2 ^ 18) := by
      intro z hz hzy
      obtain ⟨z1, z2⟩ := abs_le.1 hzy
      have hzneg : val z ≤ -(7 / 10) := by linarith
      obtain ⟨-, ht⟩ := em1_any hz (by linarith) (by linarith) (t950 _ (by
        rw [abs_of_neg (by linarith)]; linarith [show (1 : ℝ) / 2 ^ 20 ≤ 7 / 10 by norm_num]))
      refine ⟨ht (Or.inl hzneg), g_neg ?_⟩
      have e1 : Real.exp (val z) = (1 + val x) * Real.exp (val z - y) := by
        rw [hydef, ← Real.exp_log ha, ← Real.exp_add, Real.exp_log ha]; congr 1; ring
      rw [e1]
      have h2' := Real.add_one_le_exp (val z - y)
      have h3 : (1 : ℝ) / 2 ^ 15 * (1 - 1 / 2 ^ 30) ≤ (1 + val x) * Real.exp (val z - y) :=
        mul_le_mul ha15 (by linarith) (by norm_num) ha.le
      linarith [show (1 : ℝ) / 2 ^ 17 ≤ 1 / 2 ^ 15 * (1 - 1 / 2 ^ 30) by norm_num]
    exact first_quotient ⟨hv, hw⟩ (by linarith [show (1 : ℝ) / 2 ^ 16 ≤ 1 / 2 ^ 15 by norm_num]) hV961
      (by norm_num) (by positivity) (by positivity) (by norm_num) ⟨sx, s1⟩ (by norm_num) hAround
  · rcases le_or_gt (9 / 10) y with hC | hC
    · -- far positive
      have hAround : Around y (1 / 2 ^ 30) (1 / 2 ^ 100) 1 := by
        intro z hz hzy
        obtain ⟨z1, z2⟩ := abs_le.1 hzy
        have hzpos : 41 / 100 ≤ val z := by linarith
        obtain ⟨-, ht⟩ := em1_any hz (by linarith) (by linarith) (t950 _ (by
          rw [abs_of_pos (by linarith)]; linarith [show (1 : ℝ) / 2 ^ 20 ≤ 41 / 100 by norm_num]))
        refine ⟨ht (Or.inr hzpos), ?_⟩
        have := Real.add_one_le_exp (val z)
        have hp := Real.exp_pos (val z)
        rw [abs_of_nonneg (by linarith), one_mul]; linarith
      exact first_quotient ⟨hv, hw⟩ (by linarith [show (1 : ℝ) / 2 ^ 16 ≤ 1 / 2 ^ 15 by norm_num]) hV961
        (by norm_num) (by positivity) (by norm_num) (by norm_num) ⟨sx, s1⟩ (by norm_num) hAround
    · -- |y| < 0.9 and |y| ≥ 2^-10
      have hy10 : 1 / 2 ^ 10 ≤ |y| := by
        rcases le_or_gt (val x) 0 with hs | hs
        · have hyV : y ≤ val x := by
            have := Real.log_le_sub_one_of_pos ha; linarith
          rw [abs_of_nonpos hs] at h8
          rw [abs_of_nonpos (by linarith)]
          linarith [show (1 : ℝ) / 2 ^ 10 ≤ 1 / 2 ^ 8 by norm_num]
        · rw [abs_of_pos hs] at h8
          have hexp : 1 + val x < 3 := by
            have h3 : 1 + val x = Real.exp y := by rw [hydef, Real.exp_log ha]
            rw [h3]
            have := Real.exp_lt_exp.2 (show y < 1 by linarith)
            linarith [Real.exp_one_lt_d9]
          have := Real.one_sub_inv_le_log_of_pos ha
          have e : 1 - (1 + val x)⁻¹ = val x / (1 + val x) := by field_simp; ring
          rw [e] at this
          have hq : 1 / 2 ^ 10 ≤ val x / (1 + val x) := by
            rw [le_div_iff₀ ha]
            have : (1 : ℝ) / 2 ^ 8 = 1 / 256 := by norm_num
            nlinarith
          have hy0 : 0 ≤ y := by linarith [show (0 : ℝ) ≤ 1 / 2 ^ 10 by positivity]
          rw [abs_of_nonneg hy0]; linarith
      have hAround : Around y (1 / 2 ^ 30) (1 / 2 ^ 45) 2 := by
        intro z hz hzy
        obtain ⟨z1, z2⟩ := abs_le.1 hzy
        have hzabs : |val z| ≤ 1 := by rw [abs_le]; constructor <;> linarith
        have hzlo : 1 / 2 ^ 20 ≤ |val z| := by
          have := abs_sub_abs_le_abs_sub y (val z)
          rw [abs_sub_comm] at this
          linarith [show (1 : ℝ) / 2 ^ 10 - 1 / 2 ^ 30 ≥ 1 / 2 ^ 20 by norm_num]
        obtain ⟨ht, -⟩ := em1_any hz (by linarith) (by linarith) (t950 _ hzlo)
        refine ⟨ht, le_trans (g_abs hzabs) ?_⟩
        apply mul_le_mul_of_nonneg_right _ (Real.exp_pos _).le
        have h0 := abs_nonneg (val z)
        nlinarith
      exact first_quotient ⟨hv, hw⟩ (by linarith [show (1 : ℝ) / 2 ^ 16 ≤ 1 / 2 ^ 15 by norm_num]) hV961
        (by norm_num) (by positivity) (by norm_num) (by norm_num) ⟨sx, s1⟩ (by norm_num) hAround

/-- **`ln_1p` never panics** on a valid `x` with high word at most `2^960` and `x = 0` or `|x| ≥ 2^-948` (no lower limit:
`x ≤ −1` returns NAN, `−1 < x ≤ −0.5` calls `ln(1.0 + x)`, which is panic-free on every valid argument, and above `−0.5`
the hypothesis of `C15p.ln_1p_pf_partial` — validity of the intermediate quotient — is discharged) -/
theorem ln_1p_pf (x : TwoFloat) (hv : x.Valid) (hw : x.WF)
    (h2 : fval x.hi ≤ 2 ^ 960) (h0 : val x = 0 ∨ 1 / 2 ^ 948 ≤ |val x|) :
    TwoFloat.ln_1p.pf x = true := by
  rcases le_or_gt (val x) (-(1 / 2)) with hhalf | hhalf
  · -- x ≤ −0.5: NAN or `ln(1.0 + x)`
    unfold TwoFloat.ln_1p.pf
    split_ifs with c1 c2 c3
    · rfl
    · rfl
    · exact C15p.ln_pf _ (C01.add_f64_tf_inv (f64lit 0x3ff0000000000000) hw C01d.one_WF (Or.inl hv)).1
        (C01.add_f64_tf_inv (f64lit 0x3ff0000000000000) hw C01d.one_WF (Or.inl hv)).2
    · exact absurd ((le_neg_half_iff hv).2 hhalf) c3
  have h1 : -1 + 1 / 2 ^ 15 ≤ val x := by linarith [show (1 : ℝ) / 2 ^ 15 ≤ 1 / 2 by norm_num]
  rcases h0 with h0 | h0
  · -- x = 0: the first branch
    have hU : (0 : ℝ) < 2 ^ 1074 := by positivity
    have hV : x.V = 0 := by
      have : rv x = 0 := h0
      unfold rv at this
      rw [div_eq_zero_iff] at this
      rcases this with h | h
      · exact_mod_cast h
      · exact absurd h hU.ne'
    have hhi : x.hi.toInt = 0 := by rw [hv.hi_toInt, hV]; exact rnI_eq_zero_iff.2 rfl
    have hlo : x.lo.toInt = 0 := by
      have : x.V = x.hi.toInt + x.lo.toInt := rfl
      omega
    have heq : base.impl_PartialEq_f64_for_TwoFloat.eq x (f64lit 0x0000000000000000) = true := by
      unfold base.impl_PartialEq_f64_for_TwoFloat.eq
      rw [Bool.and_eq_true, req_eq, req_eq, Ident.f64lit_zero, eq_iff_toInt hv.1 rfl, eq_iff_toInt hv.2.1 rfl, toInt_zero]
      exact ⟨hhi, hlo⟩
    unfold TwoFloat.ln_1p.pf
    simp only [heq, if_true]
  · rcases le_or_gt |val x| (1 / 2 ^ 8) with h8 | h8
    · obtain ⟨η0, R, e0, e1, e2, eR1, eR2, eR3, e4, hseed, hAround, hYhi, hY1⟩ := small_setup x hv hw h0 h8
      obtain ⟨v1, v2⟩ := abs_le.1 h8
      have hR0 : 0 ≤ R := le_trans e0 e2
      have hY0 := abs_nonneg (Real.log (1 + val x))
      refine pf_of_quotient x hv hw (first_quotient (dM := 54 / 2 ^ 106) ⟨hv, hw⟩
        (by linarith [show (1 : ℝ) / 2 ^ 16 ≤ 1 - 1 / 2 ^ 8 by norm_num])
        (le_trans v2 (le_trans (by norm_num) (one_le_pow₀ (by norm_num : (1 : ℝ) ≤ 2)))) eR3 (by positivity)
        (by positivity) ?_ hseed e2 hAround)
      have : (|Real.log (1 + val x)| + R) * (1 + 1 / 128) ≤ 1 * 2 :=
        mul_le_mul (by linarith) (by norm_num) (by norm_num) (by norm_num)
      have := mul_le_mul_of_nonneg_left this (by positivity : (0 : ℝ) ≤ 54 / 2 ^ 106)
      linarith [show (54 : ℝ) / 2 ^ 106 * (1 * 2) ≤ 1 / 2 ^ 40 by norm_num]
    · exact pf_of_quotient x hv hw (quotient_nonsmall x hv hw h8.le h1 h2)

/-! ### 8b. the regime `−0.51 ≤ x ≤ −2^-8` with the sharper Taylor-branch accuracy of `exp_m1`

`C14f.exp_m1_bound_mid` rounds the accuracy of the Taylor branch to `2^-45`; its proof gives `2^-46 + 100u²` for negative
arguments (truncation `2^-47`, roundings `42u²`, `exp` `37u²`, product `7u²`).  The statement below is that proof with the
last constant kept. -/

theorem em1_mid_neg_sharp (x : TwoFloat) (hv : x.Valid) (hw : x.WF)
    (hsw : ¬ (x.V < (C14f.negf consts.LN_2).V ∨ explog.LN_FRAC_3_2.V < x.V)) (hlo : 1 / 2 ^ 9 ≤ |val x|)
    (hneg : x.V < 0) :
    (TwoFloat.exp_m1 x).Valid ∧
    |val (TwoFloat.exp_m1 x) - (Real.exp (val x) - 1)| ≤ (1 / 2 ^ 46 + 100 / 2 ^ 106) * |Real.exp (val x) - 1| := by
  have hU : (0 : ℝ) < 2 ^ 1074 := by positivity
  change 1 / 2 ^ 9 ≤ |rv x| at hlo
  show (TwoFloat.exp_m1 x).Valid ∧
    |rv (TwoFloat.exp_m1 x) - (Real.exp (rv x) - 1)| ≤ (1 / 2 ^ 46 + 100 / 2 ^ 106) * |Real.exp (rv x) - 1|
  have hswi : ¬ (((ROrd.isLt (base.impl_PartialOrd_TwoFloat_for_TwoFloat.partial_cmp x (C14f.negf consts.LN_2))) ||
      (ROrd.isGt (base.impl_PartialOrd_TwoFloat_for_TwoFloat.partial_cmp x explog.LN_FRAC_3_2))) = true) := by
    rw [C14f.exp_m1_switch x hv hw]; exact hsw
  -- |x| ≤ 0.7
  have hx7 : |rv x| ≤ 7 / 10 := by
    have h1 : -(7 * 2 ^ 1074) ≤ 10 * x.V := by have := C14f.negLN2_ge; omega
    have h2 : 10 * x.V ≤ 7 * 2 ^ 1074 := by have := C14f.LN32_le; omega
    have h1' : -((7 : ℝ) * 2 ^ 1074) ≤ 10 * (x.V : ℝ) := by exact_mod_cast h1
    have h2' : 10 * (x.V : ℝ) ≤ 7 * 2 ^ 1074 := by exact_mod_cast h2
    unfold rv
    rw [abs_le]
    constructor
    · rw [le_div_iff₀ hU]; linarith
    · rw [div_le_iff₀ hU]; linarith
  unfold TwoFloat.exp_m1
  rw [if_neg hswi]
  dsimp only
  rw [polyFold_eq]
  obtain ⟨avw, harv⟩ := abs_rv' ⟨hv, hw⟩
  obtain ⟨c1, c2, -⟩ := abs_cases hv
  · -- x < 0
    rw [if_pos ((C14f.lt_zero_switch x hv).2 hneg)]
    have hxneg : rv x < 0 := div_neg_of_neg_of_pos (by exact_mod_cast hneg) hU
    have hxabs : |rv x| = -rv x := abs_of_neg hxneg
    set t := rv (TwoFloat.abs x) with htdef
    have ht : t = -rv x := by rw [harv, hxabs]
    have ht0 : 0 < t := by rw [ht]; linarith
    have ht7 : t ≤ 7 / 10 := by rw [ht, ← hxabs]; exact hx7
    have hlo' : 1 / 2 ^ 9 ≤ t := by rw [ht, ← hxabs]; exact hlo
    obtain ⟨wvw, hw1⟩ := expm1_kernel_wide avw ⟨hv, hw⟩ (by rw [hxabs, ← ht]) ht7 hlo'
    generalize arithmetic.impl_Mul_TwoFloat_for_TwoFloat.mul x (arithmetic.impl_Add_f64_for_TwoFloat.add
      (arithmetic.impl_Mul_TwoFloat_for_TwoFloat.mul (TwoFloat.abs x) (hp (TwoFloat.abs x) 12))
      (f64lit 0x3ff0000000000000)) = w at *
    rw [← htdef] at hw1
    obtain ⟨tay, tge⟩ := taylor_wide ht0 ht7
    set A := Real.exp t - 1 with hA
    have hA0 : 0 < A := by linarith
    have hwA : |(-rv w) - A| ≤ 1 / 2 ^ 46 * A := by
      have e : rv x * (t * PR t 12 + 1) = -(t * (t * PR t 12 + 1)) := by rw [ht]; ring
      rw [e, hxabs, ← ht] at hw1
      have h1 := abs_add_le (-(rv w - -(t * (t * PR t 12 + 1)))) (t * (t * PR t 12 + 1) - A)
      rw [abs_neg, show -(rv w - -(t * (t * PR t 12 + 1))) + (t * (t * PR t 12 + 1) - A) = -rv w - A by ring] at h1
      have h2 : (42 : ℝ) / 2 ^ 106 * t ≤ 42 / 2 ^ 106 * A := mul_le_mul_of_nonneg_left tge (by positivity)
      have e2 : (42 : ℝ) / 2 ^ 106 * A + 1 / 2 ^ 47 * A ≤ 1 / 2 ^ 46 * A := by
        rw [← add_mul]; exact mul_le_mul_of_nonneg_right (by norm_num) hA0.le
      linarith
    obtain ⟨Evw, hE⟩ := exp_bound_37 x hv hw (by linarith [(abs_le.1 hx7).1]) (by linarith)
    have hB0 := Real.exp_pos (rv x)
    have hBr : 3 / 10 ≤ Real.exp (rv x) ∧ Real.exp (rv x) ≤ 1 := by
      constructor
      · have := Real.add_one_le_exp (rv x); linarith [(abs_le.1 hx7).1]
      · rw [← Real.exp_zero]; exact Real.exp_le_exp.2 hxneg.le
    have hAle : A ≤ 2 * t := by
      have := Real.abs_exp_sub_one_le (x := t) (by rw [abs_of_pos ht0]; linarith)
      rw [abs_of_pos ht0] at this
      exact (abs_le.1 this).2
    have hwabs : 99 / 100 * A ≤ |rv w| ∧ |rv w| ≤ 101 / 100 * A := by
      have h3 := abs_sub_abs_le_abs_sub (-rv w) A
      have h4 := abs_sub_abs_le_abs_sub A (-rv w)
      rw [abs_sub_comm A] at h4
      rw [abs_neg, abs_of_pos hA0] at h3 h4
      have : (1 : ℝ) / 2 ^ 46 * A ≤ 1 / 100 * A := mul_le_mul_of_nonneg_right (by norm_num) hA0.le
      constructor <;> linarith
    have hEabs : 29 / 100 ≤ |rv (TwoFloat.exp x)| ∧ |rv (TwoFloat.exp x)| ≤ 101 / 100 := by
      have h3 := abs_sub_abs_le_abs_sub (rv (TwoFloat.exp x)) (Real.exp (rv x))
      have h4 := abs_sub_abs_le_abs_sub (Real.exp (rv x)) (rv (TwoFloat.exp x))
      rw [abs_sub_comm (Real.exp (rv x))] at h4
      rw [abs_of_pos hB0] at h3 h4
      have : (37 : ℝ) / 2 ^ 106 * Real.exp (rv x) ≤ 1 / 100 := by
        have : (37 : ℝ) / 2 ^ 106 ≤ 1 / 100 := by norm_num
        nlinarith [hBr.2]
      constructor <;> linarith [hBr.1, hBr.2]
    have hp1 : |rv w * rv (TwoFloat.exp x)| ≤ 2 ^ 1019 := by
      rw [abs_mul]
      calc |rv w| * |rv (TwoFloat.exp x)| ≤ (101 / 100 * A) * (101 / 100) :=
            mul_le_mul hwabs.2 hEabs.2 (abs_nonneg _) (by positivity)
        _ ≤ (101 / 100 * (2 * (7 / 10))) * (101 / 100) := by
            apply mul_le_mul_of_nonneg_right _ (by norm_num)
            apply mul_le_mul_of_nonneg_left _ (by norm_num)
            linarith
        _ ≤ 2 ^ 1019 := by norm_num
    have hp0 : 1 / 2 ^ 957 ≤ |rv w * rv (TwoFloat.exp x)| := by
      rw [abs_mul]
      calc (1 : ℝ) / 2 ^ 957 ≤ (99 / 100 * (1 / 2 ^ 9)) * (29 / 100) := by norm_num
        _ ≤ (99 / 100 * A) * (29 / 100) := by
            apply mul_le_mul_of_nonneg_right _ (by norm_num)
            apply mul_le_mul_of_nonneg_left _ (by norm_num)
            linarith
        _ ≤ |rv w| * |rv (TwoFloat.exp x)| := mul_le_mul hwabs.1 hEabs.1 (by norm_num) (abs_nonneg _)
    obtain ⟨resvw, hres⟩ := mul_rv_rel wvw Evw hp0 hp1
    refine ⟨resvw.1, ?_⟩
    generalize rv (arithmetic.impl_Mul_TwoFloat_for_TwoFloat.mul w (TwoFloat.exp x)) = res at *
    have hres' : |(-res) - (-rv w) * rv (TwoFloat.exp x)| ≤ 7 / 2 ^ 106 * |(-rv w) * rv (TwoFloat.exp x)| := by
      rw [show -res - -rv w * rv (TwoFloat.exp x) = -(res - rv w * rv (TwoFloat.exp x)) by ring, abs_neg,
        neg_mul, abs_neg]
      exact hres
    have core := prod_rel_gen hA0 hB0 hwA hE hres' (by positivity) (by positivity) (ε := 1 / 2 ^ 46 + 100 / 2 ^ 106) (by norm_num)
    have eAB : A * Real.exp (rv x) = -(Real.exp (rv x) - 1) := by
      have : Real.exp t * Real.exp (rv x) = 1 := by rw [← Real.exp_add, ht]; simp
      rw [hA, sub_mul, this]; ring
    rw [eAB] at core
    rw [show -res - -(Real.exp (rv x) - 1) = -(res - (Real.exp (rv x) - 1)) by ring, abs_neg] at core
    have hneg1 : Real.exp (rv x) - 1 < 0 := by
      have : Real.exp (rv x) < 1 := by rw [← Real.exp_zero]; exact Real.exp_lt_exp.2 hxneg
      linarith
    rw [abs_of_neg hneg1]
    exact core

/-- `exp_m1` on `[−600, −2^-9]`: relative error `2^-46 + 100u²` in either branch -/
theorem em1_neg46 {z : TwoFloat} (hz : VW z) (h1 : -600 ≤ val z) (h2 : val z ≤ -(1 / 2 ^ 9)) :
    Em1 z (1 / 2 ^ 46 + 100 / 2 ^ 106) := by
  have hU : (0 : ℝ) < 2 ^ 1074 := by positivity
  have hzneg : val z < 0 := lt_of_le_of_lt h2 (by norm_num)
  have hVneg : z.V < 0 := by
    have h : rv z < 0 := hzneg
    unfold rv at h
    rcases div_neg_iff.1 h with ⟨-, h3⟩ | ⟨h3, -⟩
    · exact absurd h3 (not_lt.2 hU.le)
    · exact_mod_cast h3
  by_cases hsw : z.V < (C14f.negf consts.LN_2).V
  · obtain ⟨a, b⟩ := C14f.exp_m1_bound_outer_neg_partial z hz.1 hz.2 h1 hsw
    refine ⟨⟨a, exp_m1_WF z⟩, le_trans b ?_⟩
    rw [div_eq_mul_one_div, mul_comm]
    exact mul_le_mul_of_nonneg_right (by norm_num) (abs_nonneg _)
  · have hsw' : ¬ (z.V < (C14f.negf consts.LN_2).V ∨ explog.LN_FRAC_3_2.V < z.V) := by
      rintro (h | h)
      · exact hsw h
      · have := C14f.LN32_facts.2.2
        have hp : (0 : ℤ) < 2 ^ 1072 := by positivity
        omega
    obtain ⟨a, b⟩ := em1_mid_neg_sharp z hz.1 hz.2 hsw' (by
      rw [abs_of_neg hzneg]; linarith) hVneg
    exact ⟨⟨a, exp_m1_WF z⟩, b⟩

/-- **Property C15, `ln_1p` for `−0.5 < x ≤ −2^-8`** (the generic branch; `x ≤ −0.5` goes through `ln(1 + x)`,
`ln_1p_bound_low`): valid result within relative `2^-45` of `ln(1 + v)` (with the sharper `exp_m1` accuracy `em1_neg46`) -/
theorem ln_1p_bound_mid_neg (x : TwoFloat) (hv : x.Valid) (hw : x.WF)
    (hlo : -(1 / 2) < val x) (hhi : val x ≤ -(1 / 2 ^ 8)) :
    (TwoFloat.ln_1p x).Valid ∧
    |val (TwoFloat.ln_1p x) - Real.log (1 + val x)| ≤ |Real.log (1 + val x)| / 2 ^ 45 := by
  have hVneg : val x < 0 := lt_of_le_of_lt hhi (by norm_num)
  have hn := hi_near hv
  rw [abs_of_neg hVneg] at hn
  obtain ⟨n1, n2⟩ := abs_le.1 hn
  have hsm : -val x / 2 ^ 52 ≤ 1 / 100 := by
    rw [div_le_iff₀ (by positivity)]; norm_num; linarith
  have ha : 0 < 1 + val x := by linarith
  have hy2 : Real.log (1 + val x) ≤ val x := by
    have := Real.log_le_sub_one_of_pos ha; linarith
  have hy1 : -(7137 / 10000) ≤ Real.log (1 + val x) :=
    le_trans log_049.1 (Real.log_le_log (by norm_num) (by linarith))
  set y := Real.log (1 + val x) with hydef
  have hyneg : y < 0 := by linarith
  have hYabs : |y| = -y := abs_of_neg hyneg
  obtain ⟨sx, s1, -⟩ := seed_err ⟨hv, hw⟩ (by linarith [show (1 : ℝ) / 2 ^ 16 ≤ 1 / 4 by norm_num])
    (le_trans (by linarith : fval x.hi ≤ 1) (one_le_pow₀ (by norm_num : (1 : ℝ) ≤ 2)))
  have hR : (1 : ℝ) / 2 ^ 30 ≤ 1 / 2 ^ 9 := by norm_num
  have hY8 : 1 / 2 ^ 8 ≤ -y := by linarith
  have hAround : Around y (1 / 2 ^ 30) (1 / 2 ^ 46 + 100 / 2 ^ 106) ((-y + 1 / 2 ^ 30) * (1 + (-y + 1 / 2 ^ 30))) := by
    intro z hz hzy
    obtain ⟨z1, z2⟩ := abs_le.1 hzy
    have hzneg : val z < 0 := by linarith [show (1 : ℝ) / 2 ^ 30 < 1 / 2 ^ 8 by norm_num]
    have hzabs : |val z| ≤ -y + 1 / 2 ^ 30 := by rw [abs_of_neg hzneg]; linarith
    have hzlo : 1 / 2 ^ 9 ≤ |val z| := by
      rw [abs_of_neg hzneg]
      linarith [show (1 : ℝ) / 2 ^ 8 - 1 / 2 ^ 30 ≥ 1 / 2 ^ 9 by norm_num]
    have ht := em1_neg46 hz (by linarith) (by
      rw [abs_of_neg hzneg] at hzlo; linarith)
    refine ⟨ht, le_trans (g_abs (le_trans hzabs (by linarith))) ?_⟩
    apply mul_le_mul_of_nonneg_right _ (Real.exp_pos _).le
    exact mul_le_mul hzabs (by linarith) (by positivity) (le_trans (abs_nonneg _) hzabs)
  set G := (-y + 1 / 2 ^ 30) * (1 + (-y + 1 / 2 ^ 30)) with hG
  have hG0 : 0 ≤ G := by rw [hG]; apply mul_nonneg <;> linarith
  have hGle : G ≤ 172 / 100 * (-y) := by
    rw [hG]
    have hR2 : (1 : ℝ) / 2 ^ 30 ≤ 1 / 2 ^ 22 * (-y) := by
      have : (1 : ℝ) / 2 ^ 22 * (1 / 2 ^ 8) ≤ 1 / 2 ^ 22 * (-y) := mul_le_mul_of_nonneg_left hY8 (by positivity)
      linarith [show (1 : ℝ) / 2 ^ 30 ≤ 1 / 2 ^ 22 * (1 / 2 ^ 8) by norm_num]
    have hR0 : (0 : ℝ) ≤ 1 / 2 ^ 30 := by positivity
    nlinarith
  set κ := (1 / 2 ^ 46 + 100 / 2 ^ 106) * G * (1 + 1 / 2 ^ 18) with hκ
  have hκ0 : 0 ≤ κ := by rw [hκ]; positivity
  have hκK : κ ≤ 861 / 1000 * (-y) / 2 ^ 45 := by
    rw [hκ]
    have h1 : (1 / 2 ^ 46 + 100 / 2 ^ 106) * G * (1 + 1 / 2 ^ 18)
        ≤ (1 / 2 ^ 46 + 100 / 2 ^ 106) * (172 / 100 * (-y)) * (1 + 1 / 2 ^ 18) := by
      apply mul_le_mul_of_nonneg_right _ (by norm_num)
      exact mul_le_mul_of_nonneg_left hGle (by positivity)
    have e : (1 / 2 ^ 46 + 100 / 2 ^ 106) * (172 / 100 * (-y)) * (1 + 1 / 2 ^ 18)
        = ((1 / 2 + 100 / 2 ^ 61) * (172 / 100) * (1 + 1 / 2 ^ 18)) * (-y) / 2 ^ 45 := by
      rw [show (46 : ℕ) = 45 + 1 from rfl, show (106 : ℕ) = 45 + 61 from rfl, pow_succ, pow_add]; field_simp
    have h2 : ((1 / 2 + 100 / 2 ^ 61) * (172 / 100) * (1 + 1 / 2 ^ 18)) * (-y) / 2 ^ 45 ≤ 861 / 1000 * (-y) / 2 ^ 45 := by
      apply div_le_div_of_nonneg_right _ (by positivity)
      exact mul_le_mul_of_nonneg_right (by norm_num) (by linarith)
    linarith
  have hK40 : 861 / 1000 * (-y) / 2 ^ 45 ≤ 1 / 2 ^ 40 := by
    rw [div_le_iff₀ (by positivity)]; norm_num; linarith
  have hdMG : ((1 : ℝ) / 2 ^ 46 + 100 / 2 ^ 106) * G ≤ 1 / 2 ^ 40 := by
    have : G ≤ 2 := by linarith
    have := mul_le_mul_of_nonneg_left this (by positivity : (0 : ℝ) ≤ 1 / 2 ^ 46 + 100 / 2 ^ 106)
    linarith [show ((1 : ℝ) / 2 ^ 46 + 100 / 2 ^ 106) * 2 ≤ 1 / 2 ^ 40 by norm_num]
  obtain ⟨m1, m2⟩ := two_step_numeric (Y := |y|) (η0 := 1 / 2 ^ 32 + 1 / 2 ^ 36) (κ := κ)
    (K := 861 / 1000 * (-y) / 2 ^ 45) (abs_nonneg _) (by rw [hYabs]; linarith) (by positivity) (by norm_num) hκ0 hκK hK40
  obtain ⟨r1, r2⟩ := ln1p_two_steps (v := x) (η0 := 1 / 2 ^ 32 + 1 / 2 ^ 36) (R := 1 / 2 ^ 30) (dM := 1 / 2 ^ 46 + 100 / 2 ^ 106)
    (G := G) ⟨hv, hw⟩ (by linarith [show (1 : ℝ) / 2 ^ 16 ≤ 1 / 4 by norm_num])
    (le_trans (by linarith : val x ≤ 1) (one_le_pow₀ (by norm_num : (1 : ℝ) ≤ 2))) hVneg.ne hlo
    (by norm_num) (by positivity) hG0 hdMG ⟨sx, s1⟩ (by norm_num) hAround m1
  refine ⟨r1.1, le_trans r2 (le_trans m2 ?_)⟩
  rw [hYabs]
  have e : -y / 2 ^ 45 = 10002 / 10000 * (861 / 1000 * (-y) / 2 ^ 45)
      + (1 - 10002 / 10000 * (861 / 1000)) * (-y) / 2 ^ 45 := by ring
  have c1 : (1 : ℝ) / 2 ^ 118 + 4 / 2 ^ 106 * (-y) ≤ (1 - 10002 / 10000 * (861 / 1000)) * (-y) / 2 ^ 45 := by
    rw [le_div_iff₀ (by positivity)]
    have : ((1 : ℝ) / 2 ^ 118 + 4 / 2 ^ 106 * (-y)) * 2 ^ 45 = 1 / 2 ^ 73 + 4 / 2 ^ 61 * (-y) := by
      rw [show (118 : ℕ) = 73 + 45 from rfl, show (106 : ℕ) = 61 + 45 from rfl, pow_add, pow_add]; field_simp
    rw [this]
    nlinarith
  linarith

/-! ### 8c. the branch `−1 < x ≤ −0.5`: `ln_1p(x) = ln(1.0 + x)` with an EXACT sum -/

/-- **`1.0 + x` is exact for `−1 ≤ hi ≤ −1/2`** (Sterbenz for `1 + hi`, then an error-free Fast2Sum with the low word) -/
theorem one_plus_exact {x : TwoFloat} (hv : x.Valid) (hw : x.WF)
    (h1 : -(2 ^ 1074 : ℤ) ≤ x.hi.toInt) (h2 : x.hi.toInt ≤ -(2 ^ 1073 : ℤ)) :
    (arithmetic.impl_Add_TwoFloat_for_f64.add (f64lit 0x3ff0000000000000) x).V = 2 ^ 1074 + x.V ∧
    (arithmetic.impl_Add_TwoFloat_for_f64.add (f64lit 0x3ff0000000000000) x).Valid ∧
    (arithmetic.impl_Add_TwoFloat_for_f64.add (f64lit 0x3ff0000000000000) x).WF := by
  show (C01.addFT (f64lit 0x3ff0000000000000) x).V = _ ∧ (C01.addFT (f64lit 0x3ff0000000000000) x).Valid ∧
    (C01.addFT (f64lit 0x3ff0000000000000) x).WF
  rw [C01.addFT_eq]
  have hUe : (unit : Int) = 2 ^ 1074 := C01d.unit_int_eq
  have hM : (2 : Int) ^ 2097 ≤ (maxFin : Int) := two_pow_2097_le_maxFin_int
  obtain ⟨of, ov⟩ := C01d.one_isVal
  rw [hUe] at ov
  have p1073 : (2 : ℤ) ^ 1074 = 2 * 2 ^ 1073 := by rw [← pow_succ']
  have p1021 : (2 : ℤ) ^ 1073 = 2 ^ 52 * 2 ^ 1021 := by rw [← pow_add]
  have hP : (0 : ℤ) < 2 ^ 1021 := by positivity
  -- the high word is a multiple of 2^1021
  have hn : 2 ^ 1073 ≤ x.hi.toInt.natAbs := by
    have : (2 : ℤ) ^ 1073 ≤ |x.hi.toInt| := by rw [abs_of_nonpos (by linarith)]; linarith
    rw [← Int.natCast_natAbs] at this
    exact_mod_cast this
  have hlog : 1073 ≤ Nat.log2 x.hi.toInt.natAbs := (Nat.le_log2 (by omega)).2 hn
  have hdvd : (2 : ℤ) ^ 1021 ∣ x.hi.toInt := by
    refine dvd_trans ?_ hw.1.repI.ulp_dvd
    exact pow_dvd_pow 2 (by omega)
  have hdvdA : (2 : ℤ) ^ 1021 ∣ x.hi.toInt + 2 ^ 1074 :=
    dvd_add hdvd (pow_dvd_pow 2 (by norm_num))
  have hA0 : 0 ≤ x.hi.toInt + 2 ^ 1074 := by linarith
  have hA1 : x.hi.toInt + 2 ^ 1074 ≤ 2 ^ 1073 := by rw [p1073]; linarith
  have hrep : RepI (x.hi.toInt + 2 ^ 1074) := by
    apply rep_natAbs_of_dvd_of_le hdvdA
    rw [abs_of_nonneg hA0]
    calc x.hi.toInt + 2 ^ 1074 ≤ 2 ^ 1073 := hA1
      _ = 2 ^ 52 * 2 ^ 1021 := p1021
      _ ≤ 2 ^ 53 * 2 ^ 1021 := by
          apply mul_le_mul_of_nonneg_right _ hP.le; norm_num
  have hbig : ∀ z : ℤ, |z| ≤ 2 ^ 1075 → |z| ≤ (maxFin : ℤ) := fun z hz =>
    le_trans hz (le_trans (pow_le_pow_right₀ (by norm_num) (by norm_num)) hM)
  have habs_hi : |x.hi.toInt| ≤ 2 ^ 1074 := by rw [abs_of_nonpos (by linarith)]; linarith
  obtain ⟨wh, wl⟩ := new_add_words hv.1 of hw.1 C01d.one_WF
    (by
      have e : (2 : ℤ) ^ 1075 = 2 * 2 ^ 1074 := by rw [← pow_succ']
      have := le_trans (pow_le_pow_right₀ (by norm_num : (1 : ℤ) ≤ 2) (by norm_num : 1075 ≤ 2097)) hM
      linarith)
    (by
      rw [ov, abs_of_pos (by positivity)]
      exact le_trans (by rw [← pow_succ']) (le_trans (pow_le_pow_right₀ (by norm_num) (by norm_num : 1075 ≤ 2097)) hM))
  rw [ov, rnI_of_repI hrep] at wh wl
  rw [sub_self] at wl
  -- the low word
  have hlo := hv.two_mul_abs_lo_le
  have hlolog : Nat.log2 x.hi.toInt.natAbs ≤ 1074 := by
    have : x.hi.toInt.natAbs < 2 ^ 1075 := by
      have : ((x.hi.toInt.natAbs : ℕ) : ℤ) ≤ 2 ^ 1074 := by rw [Int.natCast_natAbs]; exact habs_hi
      have : x.hi.toInt.natAbs ≤ 2 ^ 1074 := by exact_mod_cast this
      exact lt_of_le_of_lt this (by norm_num)
    have := (Nat.log2_lt (by omega)).2 this
    omega
  have hlo' : |x.lo.toInt| ≤ 2 ^ 1021 := by
    have : (2 : ℤ) ^ (Nat.log2 x.hi.toInt.natAbs - 52) ≤ 2 ^ 1022 := pow_le_pow_right₀ (by norm_num) (by omega)
    have e : (2 : ℤ) ^ 1022 = 2 * 2 ^ 1021 := by rw [← pow_succ']
    have := abs_nonneg x.lo.toInt
    linarith
  have vv : IsVal (F64.add x.lo (TwoFloat.new_add x.hi (f64lit 0x3ff0000000000000)).lo) x.lo.toInt := by
    have := (IsVal.of_finite hv.2.1).add_exact wl (by rw [add_zero]; exact hw.2.repI)
      (by rw [add_zero]; exact hw.2.abs_toInt_le)
    rwa [add_zero] at this
  have shw := (new_add_WF x.hi (f64lit 0x3ff0000000000000)).1
  have vlw := add_WF x.lo (TwoFloat.new_add x.hi (f64lit 0x3ff0000000000000)).lo
  generalize (TwoFloat.new_add x.hi (f64lit 0x3ff0000000000000)).hi = sh at *
  generalize F64.add x.lo (TwoFloat.new_add x.hi (f64lit 0x3ff0000000000000)).lo = vl at *
  have hxV : x.V = x.hi.toInt + x.lo.toInt := rfl
  rcases eq_or_lt_of_le hA0 with h0 | hpos
  · -- hi = −1: the first operand of Fast2Sum is zero
    obtain ⟨-, z2, z3, z4⟩ := fast_two_sum_zero_left wh.1 vv.1 shw vlw (by rw [wh.2]; exact h0.symm)
    refine ⟨?_, z3, z4⟩
    rw [z2, vv.2, hxV]; linarith
  · -- 1 + hi ≥ 2^-53 ≥ 2·|lo|
    have hA21 : (2 : ℤ) ^ 1021 ≤ x.hi.toInt + 2 ^ 1074 := Int.le_of_dvd hpos hdvdA
    have hlog' : Nat.log2 x.hi.toInt.natAbs ≤ 1073 := by
      have hlt : x.hi.toInt.natAbs < 2 ^ 1074 := by
        have : ((x.hi.toInt.natAbs : ℕ) : ℤ) < 2 ^ 1074 := by
          rw [Int.natCast_natAbs, abs_of_nonpos (by linarith)]; linarith
        exact_mod_cast this
      have := (Nat.log2_lt (by omega)).2 hlt
      omega
    have hlo20 : |x.lo.toInt| ≤ 2 ^ 1021 := hlo'
    have hab : |vl.toInt| ≤ |sh.toInt| := by
      rw [wh.2, vv.2, abs_of_pos hpos]
      have : (2 : ℤ) ^ (Nat.log2 x.hi.toInt.natAbs - 52) ≤ 2 ^ 1021 := pow_le_pow_right₀ (by norm_num) (by omega)
      have := abs_nonneg x.lo.toInt
      linarith
    have hov : rn53 (sh.toInt + vl.toInt).natAbs ≤ maxFin := by
      apply rn53_natAbs_le_maxFin
      rw [wh.2, vv.2]
      apply hbig
      refine le_trans (abs_add_le _ _) ?_
      rw [abs_of_pos hpos]
      have e : (2 : ℤ) ^ 1075 = 2 * 2 ^ 1074 := by rw [← pow_succ']
      have e2 : (2 : ℤ) ^ 1021 ≤ 2 ^ 1073 := pow_le_pow_right₀ (by norm_num) (by norm_num)
      have : (0 : ℤ) < 2 ^ 1073 := by positivity
      linarith
    obtain ⟨-, z2, z3, z4⟩ := fast_two_sum_spec wh.1 vv.1 shw vlw hab hov
    refine ⟨?_, z3, z4⟩
    rw [z2, wh.2, vv.2, hxV]; ring


/-- the branch `−1 < x ≤ −0.5` of the repaired `ln_1p` -/
theorem ln_1p_eq_ln_one_plus (x : TwoFloat) (hv : x.Valid) (h1 : -1 < val x) (h2 : val x ≤ -(1 / 2)) :
    TwoFloat.ln_1p x = TwoFloat.ln (arithmetic.impl_Add_TwoFloat_for_f64.add (f64lit 0x3ff0000000000000) x) := by
  have c1 := eq_zero_false hv (by linarith : val x ≠ 0)
  have c2 : ROrd.isLe (base.impl_PartialOrd_f64_for_TwoFloat.partial_cmp x (F64.neg (f64lit 0x3ff0000000000000))) = false := by
    rw [Bool.eq_false_iff, Ne, le_neg_one_iff hv]; intro h; linarith
  have c3 := (le_neg_half_iff hv).2 h2
  unfold TwoFloat.ln_1p
  simp only [c1, c2, c3, if_true, Bool.false_eq_true, if_false]

/-- **Property C15, `ln_1p` for `−1 < x ≤ −0.5`** (the whole interval, provided `1 + x ≥ 2^-1000` — for a valid pair
`1 + x` can be as small as `2^-1074`: `hi = −1`, `lo = 2^-1074`): `1.0 + x` is computed exactly (`one_plus_exact`), so
`ln_1p(x) = ln(1 + v)` inherits `C15l.ln_bound`: valid result, no panic, `|ln_1p(x) − ln(1+v)| ≤ 2^-101·(1 + |ln(1+v)|)`,
hence relative `2^-45` (indeed `2^-99`), since `|ln(1+v)| ≥ ln 2`. -/
theorem ln_1p_bound_low (x : TwoFloat) (hv : x.Valid) (hw : x.WF)
    (h1 : -1 < val x) (h2 : val x ≤ -(1 / 2)) (h3 : 1 / 2 ^ 1000 ≤ 1 + val x) :
    (TwoFloat.ln_1p x).Valid ∧ TwoFloat.ln_1p.pf x = true ∧
    |val (TwoFloat.ln_1p x) - Real.log (1 + val x)| ≤ 1 / 2 ^ 101 * (1 + |Real.log (1 + val x)|) ∧
    |val (TwoFloat.ln_1p x) - Real.log (1 + val x)| ≤ |Real.log (1 + val x)| / 2 ^ 45 := by
  have hU : (0 : ℝ) < 2 ^ 1074 := by positivity
  -- the three tests
  have c1 := eq_zero_false hv (by linarith : val x ≠ 0)
  have c2 : ROrd.isLe (base.impl_PartialOrd_f64_for_TwoFloat.partial_cmp x (F64.neg (f64lit 0x3ff0000000000000))) = false := by
    rw [Bool.eq_false_iff, Ne, le_neg_one_iff hv]; intro h; linarith
  have c3 := (le_neg_half_iff hv).2 h2
  -- integer form of the range
  have hV1 : -(2 ^ 1074 : ℤ) < x.V := by
    have : (-(2 ^ 1074 : ℤ) : ℝ) < (x.V : ℝ) := by
      have h : -1 < rv x := h1
      unfold rv at h
      rw [lt_div_iff₀ hU] at h
      push_cast; linarith
    exact_mod_cast this
  have hV2 : x.V ≤ -(2 ^ 1073 : ℤ) := by
    have : (x.V : ℝ) ≤ (-(2 ^ 1073 : ℤ) : ℝ) := by
      have h : rv x ≤ -(1 / 2) := h2
      unfold rv at h
      rw [div_le_iff₀ hU, show (2 : ℝ) ^ 1074 = 2 * 2 ^ 1073 by rw [← pow_succ']] at h
      push_cast; linarith
    exact_mod_cast this
  have hh1 : -(2 ^ 1074 : ℤ) ≤ x.hi.toInt := by
    rw [hv.hi_toInt]
    have := rnI_mono (show -(2 ^ 1074 : ℤ) ≤ x.V by omega)
    rwa [rnI_of_repI (PF.repI_two_pow 1074).neg] at this
  have hh2 : x.hi.toInt ≤ -(2 ^ 1073 : ℤ) := by
    rw [hv.hi_toInt]
    have := rnI_mono hV2
    rwa [rnI_of_repI (PF.repI_two_pow 1073).neg] at this
  obtain ⟨sV, sv, sw⟩ := one_plus_exact hv hw hh1 hh2
  have hrw : TwoFloat.ln_1p x = TwoFloat.ln (arithmetic.impl_Add_TwoFloat_for_f64.add (f64lit 0x3ff0000000000000) x) := by
    unfold TwoFloat.ln_1p
    simp only [c1, c2, c3, if_true, Bool.false_eq_true, if_false]
  have hpf : TwoFloat.ln_1p.pf x = true := by
    unfold TwoFloat.ln_1p.pf
    simp only [c1, c2, c3, if_true, Bool.false_eq_true, if_false]
    exact C15p.ln_pf_valid _ sv sw
  rw [hrw]
  generalize arithmetic.impl_Add_TwoFloat_for_f64.add (f64lit 0x3ff0000000000000) x = s at *
  -- the value and the high word of `s = 1 + x`
  have hsval : val s = 1 + val x := by
    show rv s = 1 + rv x
    unfold rv
    rw [sV, Int.cast_add, Int.cast_pow, Int.cast_ofNat, add_div, div_self hU.ne']
  have hs74 : (2 : ℤ) ^ 74 ≤ s.V := by
    have : ((2 ^ 74 : ℤ) : ℝ) ≤ (s.V : ℝ) := by
      have h : 1 / 2 ^ 1000 ≤ rv s := by rw [show rv s = val s from rfl, hsval]; exact h3
      unfold rv at h
      rw [le_div_iff₀ hU] at h
      have e : (1 : ℝ) / 2 ^ 1000 * 2 ^ 1074 = 2 ^ 74 := by
        rw [show (1074 : ℕ) = 1000 + 74 from rfl, pow_add]; field_simp
      rw [e] at h
      rw [Int.cast_pow, Int.cast_ofNat]; exact h
    exact_mod_cast this
  have hshi1 : (2 : ℤ) ^ 74 ≤ s.hi.toInt := by
    rw [sv.hi_toInt]
    have := rnI_mono hs74
    rwa [rnI_of_repI (PF.repI_two_pow 74)] at this
  have hshi2 : s.hi.toInt ≤ 2 ^ 1073 := by
    rw [sv.hi_toInt]
    have : s.V ≤ 2 ^ 1073 := by
      rw [sV, show (2 : ℤ) ^ 1074 = 2 * 2 ^ 1073 by rw [← pow_succ']]; linarith
    have := rnI_mono this
    rwa [rnI_of_repI (PF.repI_two_pow 1073)] at this
  obtain ⟨lv, lb⟩ := C15l.ln_bound_int s sv sw hshi1 (le_trans hshi2 (by norm_num))
  have lb' : |val (TwoFloat.ln s) - Real.log (1 + val x)| ≤ 1 / 2 ^ 101 * (1 + |Real.log (1 + val x)|) := by
    rw [← hsval]; exact lb
  refine ⟨lv, hpf, lb', le_trans lb' ?_⟩
  -- |ln(1+v)| ≥ ln 2
  have hL : Real.log 2 ≤ |Real.log (1 + val x)| := by
    have hpos : 0 < 1 + val x := by linarith
    have : Real.log (1 + val x) ≤ Real.log (1 / 2) := Real.log_le_log hpos (by linarith)
    rw [one_div, Real.log_inv] at this
    have l1 := Real.log_two_gt_d9
    rw [abs_of_neg (by linarith)]; linarith
  have l1 := Real.log_two_gt_d9
  have hY := abs_nonneg (Real.log (1 + val x))
  have e : |Real.log (1 + val x)| / 2 ^ 45 = 1 / 2 ^ 101 * (2 ^ 56 * |Real.log (1 + val x)|) := by
    rw [show (101 : ℕ) = 45 + 56 from rfl, pow_add]; field_simp
  rw [e]
  apply mul_le_mul_of_nonneg_left _ (by positivity)
  nlinarith

/-! ### 8d. the clause of the property, assembled -/

theorem rel_weaken {E Y : ℝ} {m n : ℕ} (hY : 0 ≤ Y) (hmn : n ≤ m) (h : E ≤ Y / 2 ^ m) : E ≤ Y / 2 ^ n :=
  le_trans h (div_le_div_of_nonneg_left hY (by positivity) (pow_le_pow_right₀ (by norm_num) hmn))

/-- **Property C15, accuracy and panic-freedom of `ln_1p`** — PARTIAL in the range only: for a valid `x` with `−1 < x`,
`1 + x ≥ 2^-1000`, high word at most `2^960` and `|x| ≥ 2^-850` [TARGET: every valid `−1 < x` (a valid pair can have
`1 + x` as small as `2^-1074`), and `x = 0` or `|x| ≥ 2^-1000`; `x = 0` is exact by `C15.ln_1p_zero`], `ln_1p(x)` is a valid
pair, the call does not panic, the result is within relative `2^-100` of `ln(1 + v)` when `|x| ≤ 2^-8` or `x ≥ 0.75`, and
within `2^-45` in every case. -/
theorem ln_1p_bound_partial (x : TwoFloat) (hv : x.Valid) (hw : x.WF)
    (h1 : -1 < val x) (h1' : 1 / 2 ^ 1000 ≤ 1 + val x) (h2 : fval x.hi ≤ 2 ^ 960) (h0 : 1 / 2 ^ 850 ≤ |val x|) :
    (TwoFloat.ln_1p x).Valid ∧ TwoFloat.ln_1p.pf x = true ∧
    ((|val x| ≤ 1 / 2 ^ 8 ∨ 3 / 4 ≤ val x) →
      |val (TwoFloat.ln_1p x) - Real.log (1 + val x)| ≤ |Real.log (1 + val x)| / 2 ^ 100) ∧
    |val (TwoFloat.ln_1p x) - Real.log (1 + val x)| ≤ |Real.log (1 + val x)| / 2 ^ 45 := by
  have hpf : TwoFloat.ln_1p.pf x = true := ln_1p_pf x hv hw h2 (Or.inr
    (le_trans (one_div_le_one_div_of_le (by positivity) (pow_le_pow_right₀ (by norm_num) (by norm_num))) h0))
  have hY := abs_nonneg (Real.log (1 + val x))
  rcases le_or_gt |val x| (1 / 2 ^ 8) with h8 | h8
  · obtain ⟨a, b⟩ := ln_1p_bound_small_partial x hv hw h0 h8
    exact ⟨a, hpf, fun _ => b, rel_weaken hY (by norm_num) b⟩
  · rcases le_or_gt (3 / 4) (val x) with h34 | h34
    · obtain ⟨a, b⟩ := ln_1p_bound_outer x hv hw h34 h2
      exact ⟨a, hpf, fun _ => b, rel_weaken hY (by norm_num) b⟩
    · have himp : (|val x| ≤ 1 / 2 ^ 8 ∨ 3 / 4 ≤ val x) →
          |val (TwoFloat.ln_1p x) - Real.log (1 + val x)| ≤ |Real.log (1 + val x)| / 2 ^ 100 := by
        rintro (h | h)
        · exact absurd h (not_le.2 h8)
        · exact absurd h (not_le.2 h34)
      rcases le_or_gt 0 (val x) with hs | hs
      · rw [abs_of_nonneg hs] at h8
        obtain ⟨a, b⟩ := ln_1p_bound_mid_pos x hv hw h8.le h34.le
        exact ⟨a, hpf, himp, b⟩
      · rw [abs_of_neg hs] at h8
        rcases lt_or_ge (-(1 / 2)) (val x) with hm | hm
        · obtain ⟨a, b⟩ := ln_1p_bound_mid_neg x hv hw hm (by linarith)
          exact ⟨a, hpf, himp, b⟩
        · obtain ⟨a, -, -, b⟩ := ln_1p_bound_low x hv hw h1 hm h1'
          exact ⟨a, hpf, himp, b⟩

/-! ### 9. the former counterexample

Before the repair (`ln_1p` without the branch `x ≤ −0.5 ↦ ln(1.0 + x)`) the `2^-45` floor FAILED close to `−1`: the seed
`libm::log1p(hi)` ignores the low word, which moves `1 + x` by a relative `|lo|/(1 + hi)` (up to `1/2` when `1 + hi = 2^-53`), and
two Newton steps do not recover.  At `cx = (−1 + 2^-53, −2^-54 + 2^-106)`, `1 + cx = 2^-54·(1 + 2^-52)`, the old model returned
`(0xc042b4cad4eebfe0, 0x3ce7fe8e1923567b) ≈ −37.41244` against `ln(1 + cx) ≈ −37.42995` (relative error `2^-11`; this was proved
here as `ln_1p_floor_violated` on the old model, confirmed on the crate and repaired upstream).  The repaired model is within
the floor at `cx`, by the theorem and, independently, by kernel evaluation. -/

/-- `x = (−1 + 2^-53, −2^-54 + 2^-106)`, i.e. `1 + x = 2^-54·(1 + 2^-52)` -/
def cx : TwoFloat := ⟨f64lit 0xbfefffffffffffff, f64lit 0xbc8ffffffffffffe⟩

theorem cx_valid : cx.Valid ∧ cx.WF ∧ cx.V = -(2 ^ 1074) + 2 ^ 1020 + 2 ^ 968 := by decide +kernel

theorem cx_val : val cx = -1 + 1 / 2 ^ 54 + 1 / 2 ^ 106 := by
  obtain ⟨-, -, cV⟩ := cx_valid
  have e1074 : (2 : ℝ) ^ 1074 = 2 ^ 968 * 2 ^ 106 := by rw [← pow_add]
  have e1020 : (2 : ℝ) ^ 1020 = 2 ^ 968 * 2 ^ 52 := by rw [← pow_add]
  have hT : (0 : ℝ) < 2 ^ 968 := by positivity
  have hVr : (cx.V : ℝ) = -(2 ^ 1074) + 2 ^ 1020 + 2 ^ 968 := by rw [cV]; push_cast; ring
  show rv cx = _
  unfold rv
  rw [hVr, e1074, e1020]
  generalize (2 : ℝ) ^ 968 = T at *
  field_simp

/-- the repaired model at the former counterexample, from the theorem -/
example : |val (TwoFloat.ln_1p cx) - Real.log (1 + val cx)| ≤ |Real.log (1 + val cx)| / 2 ^ 45 :=
  (ln_1p_bound_low cx cx_valid.1 cx_valid.2.1 (by rw [cx_val]; norm_num) (by rw [cx_val]; norm_num) (by
    rw [cx_val]
    have : (1 : ℝ) / 2 ^ 1000 ≤ 1 / 2 ^ 54 :=
      one_div_le_one_div_of_le (by positivity) (pow_le_pow_right₀ (by norm_num) (by norm_num))
    have h2 : (0 : ℝ) < 1 / 2 ^ 106 := by positivity
    linarith)).2.2.2

/-- the repaired model at the former counterexample, by kernel evaluation: the result is the pair
`(0xc042b708872320e2, 0x3cd970da7e077bcb) ≈ −37.4299477502370464865`, i.e. `ln(1 + cx)` to `2^-108`; in particular it lies
within `10^-15` of `−37.429947750237046` (the old result `−37.41244` did not) -/
theorem cx_result_repaired :
    TwoFloat.ln_1p cx = ⟨f64lit 13853836650999914722, f64lit 4384659795941489611⟩ ∧ (TwoFloat.ln_1p cx).Valid ∧
    -(37429947750237047 * 2 ^ 1074) ≤ 10 ^ 15 * (TwoFloat.ln_1p cx).V ∧
    10 ^ 15 * (TwoFloat.ln_1p cx).V ≤ -(37429947750237046 * 2 ^ 1074) := by decide +kernel

/-! ### examples -/

/-- the double-double `(c, 0)` -/
def ofF (c : F64) : TwoFloat := ⟨c, F64.zero⟩

theorem fval_of_int {f : F64} {m : ℤ} {e : ℕ} (he : e ≤ 1074) (h : f.toInt = m * 2 ^ e) :
    fval f = (m : ℝ) / 2 ^ (1074 - e) := LnSeed.fv_of_toInt he h

/-- `log2(10)` within the property's floor -/
example :
    |val (TwoFloat.log2 (ofF (f64lit 0x4024000000000000))) - Real.log (val (ofF (f64lit 0x4024000000000000))) / Real.log 2|
      ≤ 1 / 2 ^ 101 * |Real.log (val (ofF (f64lit 0x4024000000000000))) / Real.log 2| + 1 / 2 ^ 92 := by
  have f10 : fval (f64lit 0x4024000000000000) = 10 := by
    rw [fval_of_int (m := 10) (e := 1074) le_rfl (by decide +kernel)]; norm_num
  exact (log2_bound_full (ofF (f64lit 0x4024000000000000)) (by decide +kernel)
    ⟨by decide +kernel, by decide +kernel⟩
    (by show 1 / 2 ^ 1000 ≤ fval (f64lit 0x4024000000000000); rw [f10]
        exact le_trans (one_div_le_one_div_of_le (by norm_num) (one_le_pow₀ (by norm_num))) (by norm_num))
    (by show fval (f64lit 0x4024000000000000) ≤ 2 ^ 960; rw [f10]
        exact le_trans (by norm_num) (pow_le_pow_right₀ (by norm_num : (1 : ℝ) ≤ 2) (by norm_num : 4 ≤ 960)))).2

end C15n
