/-
C15n (numerical layer) — `log2` with the property's floor, `ln_1p` (under construction)
-/
import TFV.Lemmas.Log1pBound
import TFV.Properties.C15m

set_option exponentiation.threshold 4000

namespace C15n

open F64 TwoFloat ConstBounds ExpBound

/-- exact real value `hi + lo` of a pair -/
noncomputable abbrev val (t : TwoFloat) : ℝ := ExpBound.rv t

/-- exact real value of a double -/
noncomputable abbrev fval (f : F64) : ℝ := ExpBound.fv f

/-- **Property C15, accuracy of `log2`, with the property's floor** `2^-101·|log₂ v| + 2^-92`: for every valid `x` with
high word in `[2^-999, 2^898]` (the range of the available `exp2` theorem) -/
theorem log2_bound (x : TwoFloat) (hv : x.Valid) (hw : x.WF)
    (hlo : 1 / 2 ^ 999 ≤ fval x.hi) (hhi : fval x.hi ≤ 2 ^ 898) :
    (TwoFloat.log2 x).Valid ∧
    |val (TwoFloat.log2 x) - Real.log (val x) / Real.log 2|
      ≤ 1 / 2 ^ 101 * |Real.log (val x) / Real.log 2| + 1 / 2 ^ 92 := by
  have hhpos : 0 < fval x.hi := lt_of_lt_of_le (by positivity) hlo
  obtain ⟨h1, h2⟩ := Log2Bound.log2_bound_of C15m.exp2_acc (by positivity) (by norm_num) (η0 := 1 / 2 ^ 24)
    (by positivity) (by norm_num) x hv hw hlo hhi (C15m.seed_ok hv.1 hw.1 hhpos)
  refine ⟨h1.1, le_trans h2 ?_⟩
  obtain ⟨hpos, hnear, _⟩ := LnBound.log_rv_near_hi hv hhpos
  obtain ⟨hc1, hc2⟩ := Log2Bound.log_two_range
  have hc0 : 0 < Real.log 2 := by linarith
  obtain ⟨g1, g2⟩ := Log2Bound.log2_hi_range hlo (le_trans hhi (by norm_num))
  have hnear2 : |Real.log (val x) / Real.log 2 - Real.log (fval x.hi) / Real.log 2| ≤ 1 := by
    rw [← sub_div, abs_div, abs_of_pos hc0, div_le_iff₀ hc0]
    refine le_trans hnear ?_
    have : (1 : ℝ) / 2 ^ 52 ≤ 1 * (693 / 1000) := by norm_num
    linarith
  obtain ⟨n1, n2⟩ := abs_le.1 hnear2
  exact Log1pBound.log2_floor_arith (abs_le.2 ⟨by linarith, by linarith⟩)

end C15n
