/-
C03 (structural layer) — addition / subtraction: `+=`/`-=` are the operators, `sum` is the left fold, and a few
closed instances computed in the kernel.  The accuracy bound itself lives elsewhere; these identities make sure
that it transfers to every spelling.
-/
import TFV.Spec.Defs
import TFV.Lemmas.Ident

namespace C03

/-! ### `add_assign = add` (all rhs spellings; bodies hand-duplicated in the Rust source) -/

theorem add_assign_tt_ref :
    arithmetic.impl_AddAssign_rTwoFloat_for_TwoFloat.add_assign = arithmetic.impl_Add_rTwoFloat_for_rTwoFloat.add := rfl
theorem add_assign_tt_val :
    arithmetic.impl_AddAssign_TwoFloat_for_TwoFloat.add_assign = arithmetic.impl_Add_rTwoFloat_for_rTwoFloat.add := rfl
theorem add_assign_tf_ref :
    arithmetic.impl_AddAssign_rf64_for_TwoFloat.add_assign = arithmetic.impl_Add_rf64_for_rTwoFloat.add := rfl
theorem add_assign_tf_val :
    arithmetic.impl_AddAssign_f64_for_TwoFloat.add_assign = arithmetic.impl_Add_rf64_for_rTwoFloat.add := rfl

/-! ### `sub_assign = sub` -/

theorem sub_assign_tt_ref :
    arithmetic.impl_SubAssign_rTwoFloat_for_TwoFloat.sub_assign = arithmetic.impl_Sub_rTwoFloat_for_rTwoFloat.sub := rfl
theorem sub_assign_tt_val :
    arithmetic.impl_SubAssign_TwoFloat_for_TwoFloat.sub_assign = arithmetic.impl_Sub_rTwoFloat_for_rTwoFloat.sub := rfl
theorem sub_assign_tf_ref :
    arithmetic.impl_SubAssign_rf64_for_TwoFloat.sub_assign = arithmetic.impl_Sub_rf64_for_rTwoFloat.sub := rfl
theorem sub_assign_tf_val :
    arithmetic.impl_SubAssign_f64_for_TwoFloat.sub_assign = arithmetic.impl_Sub_rf64_for_rTwoFloat.sub := rfl

/-! ### the notation (registered instance) is the canonical impl -/

theorem add_tt_notation (a b : TwoFloat) : a +. b = arithmetic.impl_Add_rTwoFloat_for_rTwoFloat.add a b := rfl
theorem add_tf_notation (a : TwoFloat) (b : F64) : a +. b = arithmetic.impl_Add_rf64_for_rTwoFloat.add a b := rfl
theorem add_ft_notation (a : F64) (b : TwoFloat) : a +. b = arithmetic.impl_Add_rTwoFloat_for_rf64.add a b := rfl
theorem sub_tt_notation (a b : TwoFloat) : a -. b = arithmetic.impl_Sub_rTwoFloat_for_rTwoFloat.sub a b := rfl
theorem sub_tf_notation (a : TwoFloat) (b : F64) : a -. b = arithmetic.impl_Sub_rf64_for_rTwoFloat.sub a b := rfl
theorem sub_ft_notation (a : F64) (b : TwoFloat) : a -. b = arithmetic.impl_Sub_rTwoFloat_for_rf64.sub a b := rfl

/-- `f + x` is `x + f` bit for bit -/
theorem add_ft_eq_tf (f : F64) (x : TwoFloat) : f +. x = x +. f := rfl

/-! ### the algorithms, spelled out (AccurateDWPlusDW / DWPlusFP of Joldes–Muller–Popescu) -/

theorem add_tt_unfold (x y : TwoFloat) :
    x +. y =
      (let s := TwoFloat.new_add x.hi y.hi
       let t := TwoFloat.new_add x.lo y.lo
       let v := arithmetic.fast_two_sum s.hi (F64.add s.lo t.hi)
       arithmetic.fast_two_sum v.hi (F64.add t.lo v.lo)) := rfl

theorem sub_tt_unfold (x y : TwoFloat) :
    x -. y =
      (let s := TwoFloat.new_sub x.hi y.hi
       let t := TwoFloat.new_sub x.lo y.lo
       let v := arithmetic.fast_two_sum s.hi (F64.add s.lo t.hi)
       arithmetic.fast_two_sum v.hi (F64.add t.lo v.lo)) := rfl

theorem add_tf_unfold (x : TwoFloat) (f : F64) :
    x +. f =
      (let s := TwoFloat.new_add x.hi f
       arithmetic.fast_two_sum s.hi (F64.add x.lo s.lo)) := rfl

theorem sub_tf_unfold (x : TwoFloat) (f : F64) :
    x -. f =
      (let s := TwoFloat.new_sub x.hi f
       arithmetic.fast_two_sum s.hi (F64.add x.lo s.lo)) := rfl

theorem sub_ft_unfold (f : F64) (x : TwoFloat) :
    f -. x =
      (let s := TwoFloat.new_sub f x.hi
       arithmetic.fast_two_sum s.hi (F64.sub s.lo x.lo)) := rfl

/-! ### `Iterator::sum` -/

theorem sum_eq_foldl (xs : List TwoFloat) :
    iter.impl_Sum_T_for_TwoFloat.sum xs
      = xs.foldl (fun a b => a +. b) num_integration.impl_Zero_for_TwoFloat.zero := rfl

theorem sum_eq_foldl_f64 (xs : List F64) :
    iter.impl_Sum_T_for_TwoFloat.sum xs
      = xs.foldl (fun (a : TwoFloat) (b : F64) => a +. b) num_integration.impl_Zero_for_TwoFloat.zero := rfl

theorem sum_nil : iter.impl_Sum_T_for_TwoFloat.sum ([] : List TwoFloat) = ⟨F64.zero, F64.zero⟩ := by
  decide +kernel

theorem sum_append (xs ys : List TwoFloat) :
    iter.impl_Sum_T_for_TwoFloat.sum (xs ++ ys)
      = ys.foldl (fun a b => a +. b) (iter.impl_Sum_T_for_TwoFloat.sum xs) := by
  simp [iter.impl_Sum_T_for_TwoFloat.sum, List.foldl_append]

/-! ### closed instances, evaluated by the kernel -/

theorem zero_add_zero :
    (⟨F64.zero, F64.zero⟩ : TwoFloat) +. (⟨F64.zero, F64.zero⟩ : TwoFloat) = ⟨F64.zero, F64.zero⟩ := by
  decide +kernel

theorem zero_sub_zero :
    (⟨F64.zero, F64.zero⟩ : TwoFloat) -. (⟨F64.zero, F64.zero⟩ : TwoFloat) = ⟨F64.zero, F64.zero⟩ := by
  decide +kernel

/-- NOTE (zero sign): unlike f64, where `-0.0 + -0.0 = -0.0`, the double-double sum of two negative zeros is
`+0` in both words — the sign of zero is not preserved by the TwoSum chain (`s - b` with s = b = -0 is +0). -/
theorem negzero_add_negzero :
    (⟨F64.negZero, F64.negZero⟩ : TwoFloat) +. (⟨F64.negZero, F64.negZero⟩ : TwoFloat) = ⟨F64.zero, F64.zero⟩
    ∧ (⟨F64.negZero, F64.zero⟩ : TwoFloat) +. (⟨F64.negZero, F64.zero⟩ : TwoFloat) = ⟨F64.zero, F64.zero⟩
    ∧ F64.add F64.negZero F64.negZero = F64.negZero := by
  decide +kernel

/-- 1 + 2^-60 is not a double but is a TwoFloat: the sum is exact -/
theorem one_add_tiny :
    (⟨f64lit 0x3ff0000000000000, F64.zero⟩ : TwoFloat) +. (f64lit 0x3c30000000000000)
      = ⟨f64lit 0x3ff0000000000000, f64lit 0x3c30000000000000⟩ := by
  decide +kernel

/-- π + π = τ exactly, wordwise -/
theorem pi_add_pi : consts.PI +. consts.PI = consts.TAU := by decide +kernel

/-- π − π = 0 -/
theorem pi_sub_pi : consts.PI -. consts.PI = ⟨F64.zero, F64.zero⟩ := by decide +kernel

/-- summing the three-term series 1 + 2^-60 + 2^-60 keeps the low-order bits -/
example :
    iter.impl_Sum_T_for_TwoFloat.sum
        [f64lit 0x3ff0000000000000, f64lit 0x3c30000000000000, f64lit 0x3c30000000000000]
      = ⟨f64lit 0x3ff0000000000000, f64lit 0x3c40000000000000⟩ := by
  decide +kernel

end C03
