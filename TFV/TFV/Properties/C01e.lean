/-
Property C01, division for EVERY magnitude, and what follows from it.

`TFV/Lemmas/DivAll.lean` proves that the three divisions of the crate preserve the representation invariant for ALL
well-formed operands — no range hypothesis: zero / subnormal / huge / infinite / NaN operands, quotients that
underflow to the subnormal range or to zero, quotients and intermediate products that overflow.
(`C01d` had the long divisions only on `DivRange` — `|hi|`, quotient in `[2^-1010, 2^1016]` — and `C01` had
`TwoFloat / f64` only for a normal first quotient.)

§1  `div_tt_good`, `div_tf_good`, `div_ft_good` (`Good t := t.Inv ∧ t.WF`), the `/=` forms, `recip`, `Inv::inv`,
    and the statements in "valid in, `Inv` out" form `div_tt_inv_all`, `div_tf_inv_all`, `div_ft_inv_all`,
    `recip_inv_all`;
§2  consequences for the operators built on the divisions: `%` (all three forms), `%=`, `div_euclid`, `rem_euclid`;
§3  the mathematical functions that were only CONDITIONAL on the invariant of their quotients in `C01m` become
    unconditional: `cbrt`, `log10`, `log`, `ln_1p`, `tanh`, `atanh`, `tan`, `atan`, `atan2`, `powi` (every exponent),
    and — since the argument reduction divides by `π/2` — `sin`, `cos`, `sin_cos` without the bound `|x| ≤ 2^1016`;
§4  non-vacuity: each theorem instantiated at a concrete (extreme) argument.

No witness against C01 exists for any of the divisions (so there is no `div_tt_not_inv_witness` and no `…_partial`
statement): the property is PROVED for all operands.  Before the proof, the model was evaluated on 60 000 adversarial
operand pairs, each through all three division forms (quotients near `2^-1022`, `2^-1074`, `2^1024`; subnormal / huge numerators and divisors; zero and
non-zero low words; all three division forms): no invalid pair with a finite high word.
-/
import TFV.Lemmas.DivAll
import TFV.Properties.C01m

set_option exponentiation.threshold 4500
set_option maxRecDepth 100000

namespace C01e

open F64 TwoFloat PF C01m

/-! ## §1 the divisions -/

/-- **C01, `TwoFloat / TwoFloat`**: for ALL well-formed operands satisfying the invariant (in particular all valid
ones, of every magnitude) the quotient is a valid pair or has a non-finite high word -/
theorem div_tt_good (a b : TwoFloat) (ha : Good a) (hb : Good b) : Good (a /. b) :=
  TwoFloat.div_tt_inv_all ha.2 hb.2 ha.1 hb.1

/-- **C01, `TwoFloat / f64`**: every well-formed double divisor (zero, subnormal, huge, infinite, NaN) -/
theorem div_tf_good (a : TwoFloat) (c : F64) (ha : Good a) : Good (a /. c) :=
  TwoFloat.div_tf_inv_all c ha.2 ha.1

/-- **C01, `f64 / TwoFloat`** -/
theorem div_ft_good (f : F64) (b : TwoFloat) (hf : f.WF) (hb : Good b) : Good (f /. b) :=
  TwoFloat.div_ft_inv_all hf hb.2 hb.1

/-- the same with the impl names that occur in the bodies of the mathematical functions -/
theorem good_div_tt_all {a b : TwoFloat} (ha : Good a) (hb : Good b) :
    Good (arithmetic.impl_Div_TwoFloat_for_TwoFloat.div a b) := div_tt_good a b ha hb

theorem good_div_tf_all {a : TwoFloat} (c : F64) (ha : Good a) :
    Good (arithmetic.impl_Div_f64_for_TwoFloat.div a c) := div_tf_good a c ha

theorem good_div_ft_all {f : F64} {b : TwoFloat} (hf : f.WF) (hb : Good b) :
    Good (arithmetic.impl_Div_TwoFloat_for_f64.div f b) := div_ft_good f b hf hb

/-- all eight by-value / by-reference `Div` impls and the four `DivAssign` impls (`C05.div_assign_*`: the `/=` bodies
are hand-copied in the crate, but definitionally the same functions) -/
theorem div_forms_good (a b : TwoFloat) (c : F64) (ha : Good a) (hb : Good b) (hc : c.WF) :
    Good (arithmetic.impl_Div_rTwoFloat_for_rTwoFloat.div a b) ∧
    Good (arithmetic.impl_Div_TwoFloat_for_rTwoFloat.div a b) ∧
    Good (arithmetic.impl_Div_rTwoFloat_for_TwoFloat.div a b) ∧
    Good (arithmetic.impl_Div_TwoFloat_for_TwoFloat.div a b) ∧
    Good (arithmetic.impl_DivAssign_rTwoFloat_for_TwoFloat.div_assign a b) ∧
    Good (arithmetic.impl_DivAssign_TwoFloat_for_TwoFloat.div_assign a b) ∧
    Good (arithmetic.impl_Div_rf64_for_rTwoFloat.div a c) ∧
    Good (arithmetic.impl_Div_f64_for_rTwoFloat.div a c) ∧
    Good (arithmetic.impl_Div_rf64_for_TwoFloat.div a c) ∧
    Good (arithmetic.impl_Div_f64_for_TwoFloat.div a c) ∧
    Good (arithmetic.impl_DivAssign_rf64_for_TwoFloat.div_assign a c) ∧
    Good (arithmetic.impl_DivAssign_f64_for_TwoFloat.div_assign a c) ∧
    Good (arithmetic.impl_Div_rTwoFloat_for_rf64.div c b) ∧
    Good (arithmetic.impl_Div_TwoFloat_for_rf64.div c b) ∧
    Good (arithmetic.impl_Div_rTwoFloat_for_f64.div c b) ∧
    Good (arithmetic.impl_Div_TwoFloat_for_f64.div c b) :=
  ⟨div_tt_good a b ha hb, div_tt_good a b ha hb, div_tt_good a b ha hb, div_tt_good a b ha hb,
   div_tt_good a b ha hb, div_tt_good a b ha hb,
   div_tf_good a c ha, div_tf_good a c ha, div_tf_good a c ha, div_tf_good a c ha,
   div_tf_good a c ha, div_tf_good a c ha,
   div_ft_good c b hc hb, div_ft_good c b hc hb, div_ft_good c b hc hb, div_ft_good c b hc hb⟩

/-- **`recip`** (`1.0 / x`) and `Inv::inv` -/
theorem recip_good {x : TwoFloat} (hx : Good x) : Good (TwoFloat.recip x) := good_div_ft_all lit_one_WF hx

theorem inv_good {x : TwoFloat} (hx : Good x) : Good (num_integration.impl_Inv_for_TwoFloat.inv x) := recip_good hx

/-- property C01 for `/`: valid operands in, `Inv` (and `WF`) out — no range hypothesis -/
theorem div_tt_inv_all (a b : TwoFloat) (ha : a.Valid) (hwa : a.WF) (hb : b.Valid) (hwb : b.WF) :
    (a /. b).Inv ∧ (a /. b).WF := div_tt_good a b ⟨Or.inl ha, hwa⟩ ⟨Or.inl hb, hwb⟩

theorem div_tf_inv_all (a : TwoFloat) (c : F64) (ha : a.Valid) (hwa : a.WF) (_hc : c.WF) :
    (a /. c).Inv ∧ (a /. c).WF := div_tf_good a c ⟨Or.inl ha, hwa⟩

theorem div_ft_inv_all (f : F64) (b : TwoFloat) (hf : f.WF) (hb : b.Valid) (hwb : b.WF) :
    (f /. b).Inv ∧ (f /. b).WF := div_ft_good f b hf ⟨Or.inl hb, hwb⟩

theorem recip_inv_all (x : TwoFloat) (hx : x.Valid) (hw : x.WF) :
    (TwoFloat.recip x).Inv ∧ (TwoFloat.recip x).WF := recip_good ⟨Or.inl hx, hw⟩

/-! ## §2 `%`, `%=`, `div_euclid`, `rem_euclid` -/

theorem good_trunc {t : TwoFloat} (h : Good t) : Good (TwoFloat.trunc t) := C01.trunc_inv h.2 h.1

/-- `TwoFloat % TwoFloat = a − trunc(a / b)·b` -/
theorem rem_tt_good (a b : TwoFloat) (ha : Good a) (hb : Good b) : Good (a %. b) :=
  good_sub_tt ha (good_mul_tt (good_trunc (good_div_tt_all ha hb)) hb)

/-- `TwoFloat % f64` -/
theorem rem_tf_good (a : TwoFloat) (c : F64) (ha : Good a) : Good (a %. c) :=
  good_sub_tt ha (good_mul_tf c (good_trunc (good_div_tf_all c ha)))

/-- `f64 % TwoFloat` -/
theorem rem_ft_good (f : F64) (b : TwoFloat) (hf : f.WF) (hb : Good b) : Good (f %. b) :=
  good_sub_ft hf (good_mul_tt (good_trunc (good_div_ft_all hf hb)) hb)

/-- `%=` -/
theorem rem_assign_good (a b : TwoFloat) (c : F64) (ha : Good a) (hb : Good b) :
    Good (arithmetic.impl_RemAssign_rTwoFloat_for_TwoFloat.rem_assign a b) ∧
    Good (arithmetic.impl_RemAssign_TwoFloat_for_TwoFloat.rem_assign a b) ∧
    Good (arithmetic.impl_RemAssign_rf64_for_TwoFloat.rem_assign a c) ∧
    Good (arithmetic.impl_RemAssign_f64_for_TwoFloat.rem_assign a c) :=
  ⟨rem_tt_good a b ha hb, rem_tt_good a b ha hb, rem_tf_good a c ha, rem_tf_good a c ha⟩

theorem div_euclid_good (a b : TwoFloat) (ha : Good a) (hb : Good b) : Good (TwoFloat.div_euclid a b) := by
  have ht := good_trunc (good_div_tt_all ha hb)
  unfold TwoFloat.div_euclid
  dsimp only
  split_ifs
  · exact good_sub_tf ht lit_one_WF
  · exact good_add_tf ht lit_one_WF
  · exact ht

theorem rem_euclid_good (a b : TwoFloat) (ha : Good a) (hb : Good b) : Good (TwoFloat.rem_euclid a b) := by
  have hr : Good (arithmetic.impl_Rem_TwoFloat_for_TwoFloat.rem a b) := rem_tt_good a b ha hb
  unfold TwoFloat.rem_euclid
  dsimp only
  split_ifs
  · exact good_add_tt hr (good_abs hb)
  · exact hr

/-! ## §3 the mathematical functions that contain a long division: unconditional -/

theorem good_cbrt {x : TwoFloat} (hx : Good x) : Good (TwoFloat.cbrt x) := by
  have hq : ∀ y : TwoFloat, Good y → Good (cbrtQuot x y) := fun y hy =>
    good_div_tt_all (good_sub_tt (good_mul_tt (good_mul_tt hy hy) hy) hx) (good_mul_ft _ (good_mul_tt hy hy))
  have h0 := good_from (F64_cbrt_WF hx.2.1)
  have h1 := hq _ h0
  exact good_cbrt_of hx h1.1 (hq _ (good_sub_assign_tt h0 h1)).1

theorem good_log10 {x : TwoFloat} (hx : Good x) : Good (TwoFloat.log10 x) :=
  good_log10_of (good_div_tt_all (good_ln hx) good_LN_10).1

theorem good_log {x b : TwoFloat} (hx : Good x) (hb : Good b) : Good (TwoFloat.log x b) :=
  good_log_of (good_div_tt_all (good_ln hx) (good_ln hb)).1

theorem good_ln_1p {x : TwoFloat} (hx : Good x) : Good (TwoFloat.ln_1p x) := by
  have hq : ∀ y : TwoFloat, Good y → Good (ln1pQuot x y) := fun y hy =>
    good_div_tt_all (good_sub_tt (good_exp_m1 hy) hx) (good_add_tf (good_exp_m1 hy) lit_one_WF)
  have h0 := good_from (libm_log1p_WF hx.2.1)
  have h1 := hq _ h0
  exact good_ln_1p_of hx h1.1 (hq _ (good_sub_assign_tt h0 h1)).1

theorem good_tanh {x : TwoFloat} (hx : Good x) : Good (TwoFloat.tanh x) :=
  good_tanh_of (good_div_tt_all (good_sub_tt (good_exp hx) (good_exp (good_neg hx)))
    (good_add_tt (good_exp hx) (good_exp (good_neg hx)))).1

theorem good_atanh {x : TwoFloat} (hx : Good x) : Good (TwoFloat.atanh x) :=
  good_atanh_of (good_div_tt_all (good_add_ft lit_one_WF hx) (good_sub_ft lit_one_WF hx)).1

theorem good_div_pi2_all {x : TwoFloat} (hx : Good x) :
    Good (arithmetic.impl_Div_TwoFloat_for_TwoFloat.div x consts.FRAC_PI_2) := good_div_tt_all hx good_FRAC_PI_2

theorem good_sin {x : TwoFloat} (hx : Good x) : Good (TwoFloat.sin x) := good_sin_of hx (fun _ => good_div_pi2_all hx)

theorem good_cos {x : TwoFloat} (hx : Good x) : Good (TwoFloat.cos x) := good_cos_of hx (fun _ => good_div_pi2_all hx)

theorem good_tan {x : TwoFloat} (hx : Good x) : Good (TwoFloat.tan x) :=
  good_tan_of hx (fun _ => (good_div_pi2_all hx).1)
    (good_div_ft_all neg_one_facts.1
      (good_restricted_tan (good_quadrant hx (fun _ => good_div_pi2_all hx)))).1

theorem good_atan {x : TwoFloat} (hx : Good x) : Good (TwoFloat.atan x) := by
  have ha := good_abs hx
  exact good_atan_of hx
    (good_div_tt_all (good_sub_tf ha lit_half_WF) (good_add_ft lit_one_WF (good_mul_ft _ ha))).1
    (good_div_tt_all (good_sub_tf ha lit_one_WF) (good_add_ft lit_one_WF ha)).1
    (good_div_tt_all (good_sub_tf ha (by decide +kernel)) (good_add_ft lit_one_WF (good_mul_ft _ ha))).1
    (recip_good ha).1

theorem good_atan2 {y x : TwoFloat} (hy : Good y) (hx : Good x) : Good (TwoFloat.atan2 y x) :=
  good_atan2_of (good_atan (good_div_tt_all hy hx)).1

/-- **`powi`, every exponent**: negative exponents take `recip` of the positive power (of `x` itself for `n = −1`) -/
theorem good_powi {x : TwoFloat} (hx : Good x) (n : I32) : Good (TwoFloat.powi x n) := by
  rcases le_or_gt 0 n.v with hn | hn
  · exact good_powi_nonneg hx n hn
  · have h1 := C01.from_inv (x := f64lit 0x3ff0000000000000) C01d.one_WF
    have nv : ∀ k : Int, (n ==. (IntN.mk k : I32)) = true → n.v = k := by
      intro k hk
      simp only [RPartialEq.eq, IntN.beq, decide_eq_true_eq] at hk
      exact hk
    unfold TwoFloat.powi
    split_ifs with h0 hz h1' hm1 hpos
    · exact absurd (nv 0 h0) (by omega)
    · exact absurd (nv 0 h0) (by omega)
    · exact absurd (nv 1 h1') (by omega)
    · exact recip_good hx
    · exfalso
      have hp : (match RPartialOrd.partial_cmp n (0 : I32) with | some .Greater => true | _ => false) = true := hpos
      simp only [RPartialOrd.partial_cmp] at hp
      have h0' : n.v < (0 : I32).v := hn
      simp [h0'] at hp
    · have key := C01.powi_loop_inv 33 _ x (IntN.unsigned_abs n) h1 hx
      dsimp only
      rcases hp : TwoFloat.powi.loop1 33 (convert.impl_From_f64_for_TwoFloat.from (f64lit 0x3ff0000000000000)) x
        (IntN.unsigned_abs n) with ⟨r, v, m⟩
      rw [hp] at key
      exact recip_good key

/-! ### the statements in the form of property C01: valid argument in, `Inv` (and `WF`) out, NO range hypothesis -/

theorem cbrt_inv_all (x : TwoFloat) (hx : x.Valid) (hw : x.WF) : (TwoFloat.cbrt x).Inv ∧ (TwoFloat.cbrt x).WF :=
  good_cbrt ⟨Or.inl hx, hw⟩
theorem log10_inv_all (x : TwoFloat) (hx : x.Valid) (hw : x.WF) : (TwoFloat.log10 x).Inv ∧ (TwoFloat.log10 x).WF :=
  good_log10 ⟨Or.inl hx, hw⟩
theorem log_inv_all (x b : TwoFloat) (hx : x.Valid) (hw : x.WF) (hb : b.Valid) (hwb : b.WF) :
    (TwoFloat.log x b).Inv ∧ (TwoFloat.log x b).WF := good_log ⟨Or.inl hx, hw⟩ ⟨Or.inl hb, hwb⟩
theorem ln_1p_inv_all (x : TwoFloat) (hx : x.Valid) (hw : x.WF) : (TwoFloat.ln_1p x).Inv ∧ (TwoFloat.ln_1p x).WF :=
  good_ln_1p ⟨Or.inl hx, hw⟩
theorem tanh_inv_all (x : TwoFloat) (hx : x.Valid) (hw : x.WF) : (TwoFloat.tanh x).Inv ∧ (TwoFloat.tanh x).WF :=
  good_tanh ⟨Or.inl hx, hw⟩
theorem atanh_inv_all (x : TwoFloat) (hx : x.Valid) (hw : x.WF) : (TwoFloat.atanh x).Inv ∧ (TwoFloat.atanh x).WF :=
  good_atanh ⟨Or.inl hx, hw⟩
theorem sin_inv_all (x : TwoFloat) (hx : x.Valid) (hw : x.WF) : (TwoFloat.sin x).Inv ∧ (TwoFloat.sin x).WF :=
  good_sin ⟨Or.inl hx, hw⟩
theorem cos_inv_all (x : TwoFloat) (hx : x.Valid) (hw : x.WF) : (TwoFloat.cos x).Inv ∧ (TwoFloat.cos x).WF :=
  good_cos ⟨Or.inl hx, hw⟩
theorem sin_cos_inv_all (x : TwoFloat) (hx : x.Valid) (hw : x.WF) :
    ((TwoFloat.sin_cos x).1.Inv ∧ (TwoFloat.sin_cos x).1.WF) ∧
    ((TwoFloat.sin_cos x).2.Inv ∧ (TwoFloat.sin_cos x).2.WF) := by
  rw [C16.sin_cos_eq]
  exact ⟨sin_inv_all x hx hw, cos_inv_all x hx hw⟩
theorem tan_inv_all (x : TwoFloat) (hx : x.Valid) (hw : x.WF) : (TwoFloat.tan x).Inv ∧ (TwoFloat.tan x).WF :=
  good_tan ⟨Or.inl hx, hw⟩
theorem atan_inv_all (x : TwoFloat) (hx : x.Valid) (hw : x.WF) : (TwoFloat.atan x).Inv ∧ (TwoFloat.atan x).WF :=
  good_atan ⟨Or.inl hx, hw⟩
theorem atan2_inv_all (y x : TwoFloat) (hy : y.Valid) (hwy : y.WF) (hx : x.Valid) (hwx : x.WF) :
    (TwoFloat.atan2 y x).Inv ∧ (TwoFloat.atan2 y x).WF := good_atan2 ⟨Or.inl hy, hwy⟩ ⟨Or.inl hx, hwx⟩
theorem powi_inv_all (x : TwoFloat) (n : I32) (hx : x.Valid) (hw : x.WF) :
    (TwoFloat.powi x n).Inv ∧ (TwoFloat.powi x n).WF := good_powi ⟨Or.inl hx, hw⟩ n
theorem rem_inv_all (a b : TwoFloat) (ha : a.Valid) (hwa : a.WF) (hb : b.Valid) (hwb : b.WF) :
    (a %. b).Inv ∧ (a %. b).WF := rem_tt_good a b ⟨Or.inl ha, hwa⟩ ⟨Or.inl hb, hwb⟩
theorem div_euclid_inv_all (a b : TwoFloat) (ha : a.Valid) (hwa : a.WF) (hb : b.Valid) (hwb : b.WF) :
    (TwoFloat.div_euclid a b).Inv ∧ (TwoFloat.div_euclid a b).WF :=
  div_euclid_good a b ⟨Or.inl ha, hwa⟩ ⟨Or.inl hb, hwb⟩
theorem rem_euclid_inv_all (a b : TwoFloat) (ha : a.Valid) (hwa : a.WF) (hb : b.Valid) (hwb : b.WF) :
    (TwoFloat.rem_euclid a b).Inv ∧ (TwoFloat.rem_euclid a b).WF :=
  rem_euclid_good a b ⟨Or.inl ha, hwa⟩ ⟨Or.inl hb, hwb⟩

/-! ## §4 non-vacuity: every theorem instantiated at concrete, extreme arguments (hypotheses discharged by the kernel) -/

section examples

/-- `2^-1000·(1 + 2^-52) + 2^-1054`: a valid pair with a non-zero (subnormal) low word -/
def aSmall : TwoFloat := ⟨f64lit 0x0170000000000001, f64lit 0x0000000000100000⟩
/-- `2^70·(1 + 3·2^-52) + 1.5·2^15`: a valid pair with a non-zero low word -/
def bBig : TwoFloat := ⟨f64lit 0x4450000000000003, f64lit 0x40e8000000000000⟩
/-- `+0` -/
def zeroT : TwoFloat := ⟨f64lit 0, f64lit 0⟩

theorem args_ok' : (aSmall.Valid ∧ aSmall.WF) ∧ (bBig.Valid ∧ bBig.WF) ∧ (zeroT.Valid ∧ zeroT.WF) ∧
    bBig.hi.WF ∧ aSmall.hi.WF := by decide +kernel

theorem vMAX : TwoFloat.MAX.Valid ∧ TwoFloat.MAX.WF := args_ok.2.2.2.2.2.2.2.2.2.2.2
theorem vTiny : xTiny.Valid ∧ xTiny.WF := args_ok.2.2.1
theorem v1 : x1.Valid ∧ x1.WF := args_ok.1
theorem v1000 : x1000.Valid ∧ x1000.WF := args_ok.2.1

-- quotient `≈ 2^-1070` deep in the subnormal range (far outside `DivRange`): all three divisions
example : (aSmall /. bBig).Inv := (div_tt_inv_all _ _ args_ok'.1.1 args_ok'.1.2 args_ok'.2.1.1 args_ok'.2.1.2).1
example : (aSmall /. bBig.hi).Inv := (div_tf_inv_all _ _ args_ok'.1.1 args_ok'.1.2 args_ok'.2.2.2.1).1
example : (aSmall.hi /. bBig).Inv := (div_ft_inv_all _ _ args_ok'.2.2.2.2 args_ok'.2.1.1 args_ok'.2.1.2).1
/-- what they return: the valid pair `(16·2^-1074, ±0)` -/
example : (aSmall /. bBig) = ⟨f64lit 0x10, f64lit 0⟩ ∧ (aSmall /. bBig.hi).Valid ∧ (aSmall.hi /. bBig).Valid := by
  decide +kernel
-- quotient overflows; quotient underflows to zero; zero divisor; `0/0`; huge operands with a finite quotient
example : (TwoFloat.MAX /. xTiny).Inv := (div_tt_inv_all _ _ vMAX.1 vMAX.2 vTiny.1 vTiny.2).1
example : (xTiny /. TwoFloat.MAX).Inv := (div_tt_inv_all _ _ vTiny.1 vTiny.2 vMAX.1 vMAX.2).1
example : (x1 /. zeroT).Inv := (div_tt_inv_all _ _ v1.1 v1.2 args_ok'.2.2.1.1 args_ok'.2.2.1.2).1
example : (zeroT /. zeroT).Inv :=
  (div_tt_inv_all _ _ args_ok'.2.2.1.1 args_ok'.2.2.1.2 args_ok'.2.2.1.1 args_ok'.2.2.1.2).1
example : (TwoFloat.MAX /. bBig).Inv := (div_tt_inv_all _ _ vMAX.1 vMAX.2 args_ok'.2.1.1 args_ok'.2.1.2).1
example : (TwoFloat.MAX /. xTiny).hi = F64.nan ∧ (xTiny /. TwoFloat.MAX) = zeroT ∧ (x1 /. zeroT).hi = F64.nan ∧
    (TwoFloat.MAX /. bBig).Valid := by decide +kernel
-- the other forms
example : Good (arithmetic.impl_DivAssign_TwoFloat_for_TwoFloat.div_assign aSmall bBig) :=
  (div_forms_good aSmall bBig bBig.hi ⟨Or.inl args_ok'.1.1, args_ok'.1.2⟩ ⟨Or.inl args_ok'.2.1.1, args_ok'.2.1.2⟩
    args_ok'.2.2.2.1).2.2.2.2.2.1
example : Good (arithmetic.impl_DivAssign_f64_for_TwoFloat.div_assign aSmall bBig.hi) :=
  (div_forms_good aSmall bBig bBig.hi ⟨Or.inl args_ok'.1.1, args_ok'.1.2⟩ ⟨Or.inl args_ok'.2.1.1, args_ok'.2.1.2⟩
    args_ok'.2.2.2.1).2.2.2.2.2.2.2.2.2.2.2.1
/-- `recip(f64::MAX) = 2^-1024`, a subnormal; `recip(2^-1074)` overflows -/
example : (TwoFloat.recip TwoFloat.MAX).Inv := (recip_inv_all _ vMAX.1 vMAX.2).1
example : (TwoFloat.recip xTiny).Inv := (recip_inv_all _ vTiny.1 vTiny.2).1
example : TwoFloat.recip TwoFloat.MAX = ⟨f64lit 0x0004000000000000, f64lit 0⟩ ∧ (TwoFloat.recip xTiny).hi = F64.nan := by
  decide +kernel
example : (TwoFloat.MAX %. bBig).Inv := (rem_inv_all _ _ vMAX.1 vMAX.2 args_ok'.2.1.1 args_ok'.2.1.2).1
example : (TwoFloat.div_euclid aSmall bBig).Inv :=
  (div_euclid_inv_all _ _ args_ok'.1.1 args_ok'.1.2 args_ok'.2.1.1 args_ok'.2.1.2).1
example : (TwoFloat.rem_euclid aSmall bBig).Inv :=
  (rem_euclid_inv_all _ _ args_ok'.1.1 args_ok'.1.2 args_ok'.2.1.1 args_ok'.2.1.2).1
-- the mathematical functions, at arguments outside every range of `C01m`
example : (TwoFloat.cbrt TwoFloat.MAX).Inv := (cbrt_inv_all _ vMAX.1 vMAX.2).1
example : (TwoFloat.cbrt xTiny).Inv := (cbrt_inv_all _ vTiny.1 vTiny.2).1
example : (TwoFloat.log10 xTiny).Inv := (log10_inv_all _ vTiny.1 vTiny.2).1
example : (TwoFloat.log10 TwoFloat.MAX).Inv := (log10_inv_all _ vMAX.1 vMAX.2).1
example : (TwoFloat.log TwoFloat.MAX xTiny).Inv := (log_inv_all _ _ vMAX.1 vMAX.2 vTiny.1 vTiny.2).1
example : (TwoFloat.ln_1p xTiny).Inv := (ln_1p_inv_all _ vTiny.1 vTiny.2).1
example : (TwoFloat.ln_1p TwoFloat.MAX).Inv := (ln_1p_inv_all _ vMAX.1 vMAX.2).1
example : (TwoFloat.tanh xTiny).Inv := (tanh_inv_all _ vTiny.1 vTiny.2).1
example : (TwoFloat.tanh x1000).Inv := (tanh_inv_all _ v1000.1 v1000.2).1
example : (TwoFloat.atanh xTiny).Inv := (atanh_inv_all _ vTiny.1 vTiny.2).1
example : (TwoFloat.atanh x1).Inv := (atanh_inv_all _ v1.1 v1.2).1
example : (TwoFloat.sin TwoFloat.MAX).Inv := (sin_inv_all _ vMAX.1 vMAX.2).1
example : (TwoFloat.cos TwoFloat.MAX).Inv := (cos_inv_all _ vMAX.1 vMAX.2).1
example : (TwoFloat.sin_cos TwoFloat.MAX).1.Inv := (sin_cos_inv_all _ vMAX.1 vMAX.2).1.1
example : (TwoFloat.tan TwoFloat.MAX).Inv := (tan_inv_all _ vMAX.1 vMAX.2).1
example : (TwoFloat.tan x1000).Inv := (tan_inv_all _ v1000.1 v1000.2).1
example : (TwoFloat.atan TwoFloat.MAX).Inv := (atan_inv_all _ vMAX.1 vMAX.2).1
example : (TwoFloat.atan xTiny).Inv := (atan_inv_all _ vTiny.1 vTiny.2).1
example : (TwoFloat.atan2 xTiny TwoFloat.MAX).Inv := (atan2_inv_all _ _ vTiny.1 vTiny.2 vMAX.1 vMAX.2).1
example : (TwoFloat.atan2 TwoFloat.MAX xTiny).Inv := (atan2_inv_all _ _ vMAX.1 vMAX.2 vTiny.1 vTiny.2).1
example : (TwoFloat.powi TwoFloat.MAX (-3 : I32)).Inv := (powi_inv_all _ _ vMAX.1 vMAX.2).1
example : (TwoFloat.powi xTiny (-1 : I32)).Inv := (powi_inv_all _ _ vTiny.1 vTiny.2).1
example : (TwoFloat.powi bBig (-15 : I32)).Inv := (powi_inv_all _ _ args_ok'.2.1.1 args_ok'.2.1.2).1
/-- `bBig^15 ≈ 2^1050` overflows, so `bBig^-15` is poisoned; `bBig^-14 ≈ 2^-980` is a valid pair -/
example : (TwoFloat.powi bBig (-15 : I32)).hi = F64.nan ∧ (TwoFloat.powi bBig (-14 : I32)).Valid := by decide +kernel

end examples

end C01e
