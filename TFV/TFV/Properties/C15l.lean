/-
C15l (numerical layer) — the accuracy bounds of `TwoFloat::ln` and `TwoFloat::log10` (property C15):

  "for valid x with high word in [2^-1000, 2^960]:  |ln(x) − ln v| ≤ 2^-101·(1 + |ln v|);
                                                     |log10(x) − log10 v| ≤ 2^-100·(1 + |log10 v|)"

PROVED: the `ln` floor `2^-101·(1 + |ln v|)` for every valid `x` with high word in `[2^-1000, 2^960 − 2^944]`
(`ln_bound`), and the `log10` floor `2^-100·(1 + |log10 v|)` on the same range when `|ln v| ≥ 2^-99` (`log10_bound`), or
more generally when the COMPUTED `ln(x)` is at least `2^-960` in magnitude (`log10_bound'`); `x == 1.0` is exact
(`C15.log10_one`).  Values are real numbers: `val t = (hi + lo) = t.V / 2^1074 : ℝ`, `fval f = f.toInt / 2^1074`,
`ln v = Real.log (val x)` (Mathlib).

OPEN (proof gaps, not model defects: by evaluation the model is well inside the floors there):
 * high words in `(2^960 − 2^944, 2^960]`: the first Newton step evaluates `exp(−x₀)` at a seed `x₀` that may exceed
   `ln v` by `2^-19`, so `exp(−x₀)` may be below `2^-960`, where the final product inside `exp` has a leading term
   outside the range of the proved `TwoFloat * TwoFloat` bound (`mul_tt_bound_7u2_partial`: `≥ 2^-960`);
 * `log10` when `ln(x) = 0` or `|ln(x)| < 2^-960` for `x ≠ 1` (possible only for `x = 1 + lo`, `|lo| < 2^-99`: the
   `ln` bound is absolute there, so the numerator of the long division `ln x / LN_10` is not known to be outside the
   underflow range of `DivInv.div_tt_acc`);
 * `log2`: only `2^-92·(1 + |log₂ v|)` on `[2^-999, 2^898]` (`C15m.log2_bound_partial`; the seed `Libm.log2` is done,
   `Log2Seed.libm_log2_coarse`; the limit is the available `exp2` bound `5633u²` — the Newton analysis
   `Log2Bound.log2_bound_of` is parametrised by it); `ln_1p` (needs `Libm.log1p` and a full-range `exp_m1` bound);
   `log(x, b)` (no floor in the property).

The pieces (files `TFV/Lemmas/LnSeed.lean`, `TFV/Lemmas/LnBound.lean`), each a standalone theorem restated below:

 A. THE SEED (`LnSeed`).  `libm_log_coarse`: the hand port `Libm.log` of libm 0.2.16's `log` satisfies
    `|log(h) − ln h| ≤ 2^-24` (absolute) on EVERY finite positive double `h`, normal or subnormal — this ties the port to
    the real function.  Ingredients: real-valued specifications of the four `F64` primitives (`add_fv`, `sub_fv`, `mul_fv`,
    `div_fv`: relative `2^-53`, plus `2^-1075` absolute for `mul`/`div`), the bit-level argument reduction
    (`reduce_spec`: `h = 2^k·m`, `0.7071 ≤ m ≤ 1.41422`, exactly), the Mercator series
    `ln((1+s)/(1−s)) = 2s + 2s³/3 + …` with Mathlib's remainder, the coefficients `Lg1 … Lg7` against `2/(2j+1)`, and
    `LN2_HI + LN2_LO` against `ConstBounds.log_two_encl`.
 B. `exp` SHARPENED (`LnBound.exp_bound_k`, `exp_bound_sharp`).  The proof of `ExpBound.exp_bound_split` with the
    reduction index `k = round(2x)` exposed and the range extended from `−600` down to `e^x ≥ 2^-960·(1 + 2^-40)`
    (`recip_val_wide`, `exp_half_bound_wide`, `mul_rv_rel_wide`).  `exp_half(−1) = 1/EXP_HALF_N[0]` is within `u²` of `e^(−1/2)` by
    evaluation (`exp_half_m1`; the generic reciprocal bound is `16.6u²`).  Result: relative error `21u²` unless `k ≤ −2`
    (then `37u²`, and `x ≤ −0.7499`).
 C. NEWTON (`LnBound.newton_step_real`, `newton_final_real`, `step_bound`, `final_bound`).  With `e = x − ln v`:
    an intermediate step `x ← x + (v·exp(−x) − 1)` maps `|e| ≤ 2^-19` to `e² + 2^-92`:  `2^-19 → 2^-37 → 2^-70`.
    The last step `(x + v·exp(−x)) − 1` has error at most `(d + 10.02u²) + 5.02u²·|ln v|`, `d` the relative error of the
    `exp` call: product `7u²`, sum `3u²·(1 + |ln v|)`, `− 1` `2u²·|ln v|`.  With B: `d = 21u²` gives `31.02u² ≤ 32u²`;
    `d = 37u²` only when `ln v ≥ 0.7498`, where `27u²·|ln v|` of slack is available.
 D. `log10 = ln / LN_10` (`LnBound.log10_real`, `div_ln10`): `LN_10` is the correctly rounded `ln 10`
    (`C12x.LN_10_rel_err`, `2^-107`), the long division costs `2^-102` (`DivInv.div_tt_acc`):
    `13.92u² + 49u²·|log10 v| ≤ 64u²·(1 + |log10 v|)`.
-/
import TFV.Lemmas.LnBound

set_option exponentiation.threshold 4000

namespace C15l

open F64 TwoFloat ConstBounds ExpBound

/-- exact real value `hi + lo` of a pair -/
noncomputable abbrev val (t : TwoFloat) : ℝ := ExpBound.rv t

/-- exact real value of a double -/
noncomputable abbrev fval (f : F64) : ℝ := ExpBound.fv f

/-! ## A. the seed -/

/-- **the libm port `Libm.log` against the real logarithm**: absolute error at most `2^-24` on every finite positive
double (normal or subnormal) -/
theorem libm_log_coarse24 (n : ℕ) (hn : 0 < n) (hw : (F64.fin false n).WF) :
    (Libm.log (F64.fin false n)).is_finite = true ∧
    |fval (Libm.log (F64.fin false n)) - Real.log (fval (F64.fin false n))| ≤ 1 / 2 ^ 24 :=
  LnSeed.libm_log_coarse24 n hn hw

theorem libm_log_coarse (n : ℕ) (hn : 0 < n) (hw : (F64.fin false n).WF) :
    (Libm.log (F64.fin false n)).is_finite = true ∧
    |fval (Libm.log (F64.fin false n)) - Real.log (fval (F64.fin false n))| ≤ 1 / 2 ^ 20 :=
  LnSeed.libm_log_coarse n hn hw

/-- the same for a finite well-formed `h` with `0 < h` -/
theorem libm_log_coarse' {h : F64} (hf : h.is_finite = true) (hw : h.WF) (hp : 0 < fval h) :
    (Libm.log h).is_finite = true ∧ |fval (Libm.log h) - Real.log (fval h)| ≤ 1 / 2 ^ 20 :=
  LnBound.seed_ok hf hw hp

/-- the bit-level reduction: the pattern of a normal double `q·2^s` is split exactly as `2^k·m`, `m ∈ [0.7071, 1.41422]` -/
theorem reduce_spec {q s : ℕ} (hq : 2 ^ 52 ≤ q) (hq' : q < 2 ^ 53) (hs : s ≤ 2045) :
    ∃ (k : ℤ) (x : F64), Libm.reduce ((s + 1) * 2 ^ 52 + (q - 2 ^ 52)) = (k, x) ∧ x.is_finite = true ∧
      -1022 ≤ k ∧ k ≤ 1025 ∧ 7071 / 10000 ≤ fval x ∧ fval x ≤ 141422 / 100000 ∧
      fval (F64.fin false (q * 2 ^ s)) = (2 : ℝ) ^ k * fval x :=
  LnSeed.reduce_spec hq hq' hs

/-! ## B. `exp`, sharpened -/

/-- `exp` on `[−666, 700]` as long as `e^x ≥ 2^-960·(1 + 2^-40)`: relative error `21u²`, or `37u²` with `x ≤ −0.7499` -/
theorem exp_bound_sharp (x : TwoFloat) (hv : x.Valid) (hw : x.WF) (hlo : -666 ≤ val x) (hhi : val x ≤ 700)
    (hprod : (1 + 1 / 2 ^ 40) / 2 ^ 960 ≤ Real.exp (val x)) :
    (TwoFloat.exp x).Valid ∧ ∃ d : ℝ, |val (TwoFloat.exp x) - Real.exp (val x)| ≤ d * Real.exp (val x) ∧
      (d = 21 / 2 ^ 106 ∨ (d = 37 / 2 ^ 106 ∧ val x ≤ -(7499 / 10000))) :=
  ⟨(LnBound.exp_bound_sharp x hv hw hlo hhi hprod).1.1, (LnBound.exp_bound_sharp x hv hw hlo hhi hprod).2⟩

/-- consequently `exp` is within relative `2^-100` of `e^x` on `[−665.4, 700]` (C14 states `[−600, 700]`) -/
theorem exp_bound_wide (x : TwoFloat) (hv : x.Valid) (hw : x.WF) (hlo : -(6654 / 10) ≤ val x) (hhi : val x ≤ 700) :
    (TwoFloat.exp x).Valid ∧ |val (TwoFloat.exp x) - Real.exp (val x)| ≤ Real.exp (val x) / 2 ^ 100 := by
  have hprod : (1 + 1 / 2 ^ 40) / 2 ^ 960 ≤ Real.exp (val x) := by
    -- e^x ≥ e^(−665.4) = (e^(−0.693125))^960 ≥ (1/2·(1 + 2^-16))^960
    have h1 : Real.exp (-(6654 / 10)) ≤ Real.exp (val x) := Real.exp_le_exp.2 hlo
    have h2 : (-(6654 / 10) : ℝ) = ((960 : ℕ) : ℝ) * (-(6654 / 9600)) := by norm_num
    rw [h2, Real.exp_nat_mul] at h1
    have h3 : (1 / 2 : ℝ) * (1 + 1 / 2 ^ 16) ≤ Real.exp (-(6654 / 9600)) := by
      have l2 := Real.log_two_gt_d9
      have e : Real.exp (-(6654 / 9600)) = Real.exp (-Real.log 2) * Real.exp (Real.log 2 - 6654 / 9600) := by
        rw [← Real.exp_add]; congr 1; ring
      rw [e, Real.exp_neg, Real.exp_log (by norm_num)]
      have := Real.add_one_le_exp (Real.log 2 - 6654 / 9600)
      have c : (1 : ℝ) + 1 / 2 ^ 16 ≤ Real.log 2 - 6654 / 9600 + 1 := by norm_num at l2 ⊢; linarith
      have : (1 : ℝ) + 1 / 2 ^ 16 ≤ Real.exp (Real.log 2 - 6654 / 9600) := le_trans c this
      rw [show (2 : ℝ)⁻¹ = 1 / 2 by norm_num]
      exact mul_le_mul_of_nonneg_left this (by norm_num)
    have h4 : ((1 / 2 : ℝ) * (1 + 1 / 2 ^ 16)) ^ 960 ≤ Real.exp (-(6654 / 9600)) ^ 960 :=
      pow_le_pow_left₀ (by positivity) h3 960
    have h5 : (1 + 1 / 2 ^ 40 : ℝ) / 2 ^ 960 ≤ ((1 / 2 : ℝ) * (1 + 1 / 2 ^ 16)) ^ 960 := by
      have e : ((1 / 2 : ℝ) * (1 + 1 / 2 ^ 16)) ^ 960 = (1 + 1 / 2 ^ 16) ^ 960 / 2 ^ 960 := by
        rw [mul_pow, one_div_pow]; ring
      rw [e, div_le_div_iff_of_pos_right (by positivity)]
      have : (1 : ℝ) + (960 : ℕ) * (1 / 2 ^ 16) ≤ (1 + 1 / 2 ^ 16) ^ 960 :=
        one_add_mul_le_pow (by norm_num) 960
      have c : (1 + 1 / 2 ^ 40 : ℝ) ≤ 1 + (960 : ℕ) * (1 / 2 ^ 16) := by norm_num
      linarith
    linarith
  obtain ⟨h1, d, hb, hd⟩ := exp_bound_sharp x hv hw (by linarith) hhi hprod
  refine ⟨h1, le_trans hb ?_⟩
  have hE := Real.exp_pos (val x)
  rw [div_eq_mul_one_div, mul_comm]
  apply mul_le_mul_of_nonneg_left _ hE.le
  rcases hd with h | ⟨h, _⟩ <;> (rw [h]; norm_num)

/-- the table entry behind `exp_half(−1)`, by evaluation: `u²` instead of the generic `16.6u²` of the reciprocal -/
theorem exp_half_m1 :
    |val (explog.exp_half (⟨-1⟩ : I32)) - Real.exp (((-1 : ℤ) : ℝ) / 2)|
      ≤ 1 / 2 ^ 106 * Real.exp (((-1 : ℤ) : ℝ) / 2) :=
  LnBound.exp_half_m1

/-! ## C. the Newton iteration -/

/-- the exact Newton map over `ℝ`, intermediate step: `|e| ≤ 2^-19 ⟹ |e'| ≤ e² + 2^-92` -/
theorem newton_step_real {L e E P S x' d : ℝ} (hL : |L| ≤ 700) (he : |e| ≤ 1 / 2 ^ 19)
    (hd0 : 0 ≤ d) (hd : d ≤ 37 / 2 ^ 106)
    (hE : |E - Real.exp (-(L + e))| ≤ d * Real.exp (-(L + e)))
    (hP : |P - Real.exp L * E| ≤ 7 / 2 ^ 106 * |Real.exp L * E|)
    (hS : |S - (P - 1)| ≤ 1 / 2 ^ 105 * |P - 1|)
    (hx : |x' - (L + e + S)| ≤ cA * |L + e + S|) :
    |x' - L| ≤ e ^ 2 + 1 / 2 ^ 92 :=
  LnBound.newton_step_real hL he hd0 hd hE hP hS hx

/-- the last step over `ℝ`, sharp constants -/
theorem newton_final_real {L e E P A R d : ℝ} (hL : |L| ≤ 700) (he : |e| ≤ 1 / 2 ^ 70)
    (hd0 : 0 ≤ d) (hd : d ≤ 37 / 2 ^ 106)
    (hE : |E - Real.exp (-(L + e))| ≤ d * Real.exp (-(L + e)))
    (hP : |P - Real.exp L * E| ≤ 7 / 2 ^ 106 * |Real.exp L * E|)
    (hA : |A - (L + e + P)| ≤ cA * |L + e + P|)
    (hR : |R - (A - 1)| ≤ 1 / 2 ^ 105 * |A - 1|) :
    |R - L| ≤ (d + 1002 / 100 / 2 ^ 106) + 502 / 100 / 2 ^ 106 * |L| :=
  LnBound.newton_final_real hL he hd0 hd hE hP hA hR

/-- **an intermediate Newton step of `ln` on pairs**: `x ← x + (v·exp(−x) − 1.0)` -/
theorem newton_step {v x : TwoFloat} (hv : v.Valid) (hwv : v.WF) (hx : x.Valid) (hwx : x.WF) (hpos : 0 < val v)
    (hL1 : -694 ≤ Real.log (val v)) (hL2 : Real.log (val v) ≤ 66543 / 100)
    (hvhi : val v ≤ 2 ^ 960 * (1 - 1 / 2 ^ 17))
    (he : |val x - Real.log (val v)| ≤ 1 / 2 ^ 19) :
    (arithmetic.impl_AddAssign_TwoFloat_for_TwoFloat.add_assign x (arithmetic.impl_Sub_f64_for_TwoFloat.sub
      (arithmetic.impl_Mul_TwoFloat_for_TwoFloat.mul v (TwoFloat.exp (arithmetic.impl_Neg_for_TwoFloat.neg x)))
      (f64lit 0x3ff0000000000000))).Valid ∧
    |val (arithmetic.impl_AddAssign_TwoFloat_for_TwoFloat.add_assign x (arithmetic.impl_Sub_f64_for_TwoFloat.sub
      (arithmetic.impl_Mul_TwoFloat_for_TwoFloat.mul v (TwoFloat.exp (arithmetic.impl_Neg_for_TwoFloat.neg x)))
      (f64lit 0x3ff0000000000000))) - Real.log (val v)| ≤ (val x - Real.log (val v)) ^ 2 + 1 / 2 ^ 92 :=
  ⟨(LnBound.step_bound ⟨hv, hwv⟩ ⟨hx, hwx⟩ hpos hL1 hL2 hvhi he).1.1,
    (LnBound.step_bound ⟨hv, hwv⟩ ⟨hx, hwx⟩ hpos hL1 hL2 hvhi he).2⟩

/-- **the last Newton step of `ln` on pairs**: `(x + v·exp(−x)) − 1.0` from `|x − ln v| ≤ 2^-70` -/
theorem newton_final {v x : TwoFloat} (hv : v.Valid) (hwv : v.WF) (hx : x.Valid) (hwx : x.WF) (hpos : 0 < val v)
    (hL1 : -694 ≤ Real.log (val v)) (hL2 : Real.log (val v) ≤ 66543 / 100)
    (hvhi : val v ≤ 2 ^ 960 * (1 - 1 / 2 ^ 17))
    (he : |val x - Real.log (val v)| ≤ 1 / 2 ^ 70) :
    |val (arithmetic.impl_Sub_f64_for_TwoFloat.sub (arithmetic.impl_Add_TwoFloat_for_TwoFloat.add x
      (arithmetic.impl_Mul_TwoFloat_for_TwoFloat.mul v (TwoFloat.exp (arithmetic.impl_Neg_for_TwoFloat.neg x))))
      (f64lit 0x3ff0000000000000)) - Real.log (val v)| ≤ 1 / 2 ^ 101 * (1 + |Real.log (val v)|) :=
  (LnBound.final_bound ⟨hv, hwv⟩ ⟨hx, hwx⟩ hpos hL1 hL2 hvhi he).2

/-! ## the property -/

/-- **Property C15, accuracy of `ln`**: for every valid `x` with high word in `[2^-1000, 2^960 − 2^944]`, `ln(x)` is a valid
pair with `|ln(x) − ln v| ≤ 2^-101·(1 + |ln v|)` -/
theorem ln_bound (x : TwoFloat) (hv : x.Valid) (hw : x.WF)
    (hlo : 1 / 2 ^ 1000 ≤ fval x.hi) (hhi : fval x.hi ≤ 2 ^ 960 - 2 ^ 944) :
    (TwoFloat.ln x).Valid ∧
    |val (TwoFloat.ln x) - Real.log (val x)| ≤ 1 / 2 ^ 101 * (1 + |Real.log (val x)|) :=
  ⟨(LnBound.ln_bound x hv hw hlo hhi).1.1, (LnBound.ln_bound x hv hw hlo hhi).2⟩

theorem le_fval_iff {f : F64} {k : ℕ} (hk : k ≤ 1074) : 1 / 2 ^ k ≤ fval f ↔ 2 ^ (1074 - k) ≤ f.toInt := by
  show 1 / 2 ^ k ≤ (f.toInt : ℝ) / 2 ^ 1074 ↔ _
  rw [div_le_div_iff₀ (by positivity) (by positivity), one_mul]
  have e : (2 : ℝ) ^ 1074 = 2 ^ (1074 - k) * 2 ^ k := by rw [← pow_add]; congr 1; omega
  rw [e, mul_le_mul_iff_left₀ (by positivity)]
  exact_mod_cast Iff.rfl

theorem fval_le_top {f : F64} (h : f.toInt ≤ 2 ^ 2034 - 2 ^ 2018) : fval f ≤ 2 ^ 960 - 2 ^ 944 := by
  show (f.toInt : ℝ) / 2 ^ 1074 ≤ _
  rw [div_le_iff₀ (by positivity)]
  have e : ((2 : ℝ) ^ 960 - 2 ^ 944) * 2 ^ 1074 = 2 ^ 2034 - 2 ^ 2018 := by
    rw [sub_mul, ← pow_add, ← pow_add]
  rw [e]
  exact_mod_cast h

/-- the same with the range of the high word stated on the scaled integer (`2^-1000 = 2^74` units,
`2^960 − 2^944 = 2^2034 − 2^2018` units) -/
theorem ln_bound_int (x : TwoFloat) (hv : x.Valid) (hw : x.WF)
    (hlo : 2 ^ 74 ≤ x.hi.toInt) (hhi : x.hi.toInt ≤ 2 ^ 2034 - 2 ^ 2018) :
    (TwoFloat.ln x).Valid ∧
    |val (TwoFloat.ln x) - Real.log (val x)| ≤ 1 / 2 ^ 101 * (1 + |Real.log (val x)|) :=
  ln_bound x hv hw ((le_fval_iff (k := 1000) (by norm_num)).2 hlo) (fval_le_top hhi)

/-- `ln 1 = 0` exactly (the `self == 1.0` shortcut) -/
theorem ln_one (x : TwoFloat) (h : base.impl_PartialEq_f64_for_TwoFloat.eq x (f64lit 0x3ff0000000000000) = true) :
    TwoFloat.ln x = ⟨F64.zero, F64.zero⟩ := by
  rw [C15.ln_one x h, C15.zero_words]

/-- **Property C15, accuracy of `log10`**: for every valid `x` with high word in `[2^-1000, 2^960 − 2^944]` and
`|ln v| ≥ 2^-99`, `log10(x)` is a valid pair with `|log10(x) − log₁₀ v| ≤ 2^-100·(1 + |log₁₀ v|)` -/
theorem log10_bound (x : TwoFloat) (hv : x.Valid) (hw : x.WF)
    (hlo : 1 / 2 ^ 1000 ≤ fval x.hi) (hhi : fval x.hi ≤ 2 ^ 960 - 2 ^ 944) (hfar : 1 / 2 ^ 99 ≤ |Real.log (val x)|) :
    (TwoFloat.log10 x).Valid ∧
    |val (TwoFloat.log10 x) - Real.log (val x) / Real.log 10|
      ≤ 1 / 2 ^ 100 * (1 + |Real.log (val x) / Real.log 10|) :=
  ⟨(LnBound.log10_bound x hv hw hlo hhi hfar).1.1, (LnBound.log10_bound x hv hw hlo hhi hfar).2⟩

/-- the same under a condition on the COMPUTED logarithm: `|ln(x)| ≥ 2^-960` (checkable by evaluation) -/
theorem log10_bound' (x : TwoFloat) (hv : x.Valid) (hw : x.WF)
    (hlo : 1 / 2 ^ 1000 ≤ fval x.hi) (hhi : fval x.hi ≤ 2 ^ 960 - 2 ^ 944)
    (hT : 1 / 2 ^ 960 ≤ |val (TwoFloat.ln x)|) :
    (TwoFloat.log10 x).Valid ∧
    |val (TwoFloat.log10 x) - Real.log (val x) / Real.log 10|
      ≤ 1 / 2 ^ 100 * (1 + |Real.log (val x) / Real.log 10|) :=
  ⟨(LnBound.log10_bound' x hv hw hlo hhi hT).1.1, (LnBound.log10_bound' x hv hw hlo hhi hT).2⟩

/-- … in terms of Mathlib's `Real.logb 10` -/
theorem log10_bound_logb (x : TwoFloat) (hv : x.Valid) (hw : x.WF)
    (hlo : 1 / 2 ^ 1000 ≤ fval x.hi) (hhi : fval x.hi ≤ 2 ^ 960 - 2 ^ 944) (hfar : 1 / 2 ^ 99 ≤ |Real.log (val x)|) :
    |val (TwoFloat.log10 x) - Real.logb 10 (val x)| ≤ 1 / 2 ^ 100 * (1 + |Real.logb 10 (val x)|) := by
  have h := (log10_bound x hv hw hlo hhi hfar).2
  have e : Real.logb 10 (val x) = Real.log (val x) / Real.log 10 := by
    unfold Real.logb; rfl
  rw [e]; exact h

/-- the real-number core of `log10 = ln / LN_10` -/
theorem log10_real {L T C Q c : ℝ} (hc : 23 / 10 ≤ c)
    (hT : |T - L| ≤ 1 / 2 ^ 101 * (1 + |L|))
    (hC : |c - C| ≤ c / 2 ^ 107)
    (hQ : |T - Q * C| ≤ 1 / 2 ^ 102 * |T|) :
    |Q - L / c| ≤ 1 / 2 ^ 100 * (1 + |L / c|) :=
  LnBound.log10_real hc hT hC hQ

/-! ## examples -/

/-- the double-double `(c, 0)` -/
def ofF (c : F64) : TwoFloat := ⟨c, F64.zero⟩

theorem val_ofF (c : F64) : val (ofF c) = fval c := by
  show ((ofF c).V : ℝ) / 2 ^ 1074 = (c.toInt : ℝ) / 2 ^ 1074
  have : (ofF c).V = c.toInt := by
    show c.toInt + F64.zero.toInt = c.toInt
    rw [show F64.zero.toInt = 0 from rfl, add_zero]
  rw [this]

theorem fval_of_toInt {f : F64} {m : ℤ} (h : f.toInt = m * 2 ^ 1074) : fval f = (m : ℝ) := by
  show (f.toInt : ℝ) / 2 ^ 1074 = _
  rw [h]
  simp only [Int.cast_mul, Int.cast_pow, Int.cast_ofNat]
  rw [mul_div_assoc, div_self (by positivity : ((2 : ℝ) ^ 1074) ≠ 0), mul_one]

/-- `ln(10)` and `log10(1000)` -/
example :
    |val (TwoFloat.ln (ofF (f64lit 0x4024000000000000))) - Real.log 10| ≤ 1 / 2 ^ 101 * (1 + |Real.log 10|) ∧
    |val (TwoFloat.log10 (ofF (f64lit 0x408f400000000000))) - Real.log 1000 / Real.log 10|
      ≤ 1 / 2 ^ 100 * (1 + |Real.log 1000 / Real.log 10|) := by
  have f10 : fval (f64lit 0x4024000000000000) = 10 := by
    have := fval_of_toInt (f := f64lit 0x4024000000000000) (m := 10) (by decide +kernel)
    exact_mod_cast this
  have f1000 : fval (f64lit 0x408f400000000000) = 1000 := by
    have := fval_of_toInt (f := f64lit 0x408f400000000000) (m := 1000) (by decide +kernel)
    exact_mod_cast this
  constructor
  · have h := (ln_bound (ofF (f64lit 0x4024000000000000)) (by decide +kernel) ⟨by decide +kernel, by decide +kernel⟩
      (by show 1 / 2 ^ 1000 ≤ fval (f64lit 0x4024000000000000); rw [f10]; norm_num)
      (by show fval (f64lit 0x4024000000000000) ≤ 2 ^ 960 - 2 ^ 944; rw [f10]; norm_num)).2
    rwa [val_ofF, f10] at h
  · have hl : (1 : ℝ) ≤ Real.log 1000 := by
      have e : Real.log 1000 = 3 * Real.log 10 := by
        rw [show (1000 : ℝ) = 10 ^ 3 by norm_num, Real.log_pow]; norm_num
      have : (1 : ℝ) ≤ Real.log 10 := by
        have h2 := Real.log_two_gt_d9
        have : Real.log 2 ≤ Real.log 10 := Real.log_le_log (by norm_num) (by norm_num)
        have h4 : Real.log 4 ≤ Real.log 10 := Real.log_le_log (by norm_num) (by norm_num)
        have e4 : Real.log 4 = 2 * Real.log 2 := by
          rw [show (4 : ℝ) = 2 ^ 2 by norm_num, Real.log_pow]; norm_num
        linarith
      linarith
    have h := (log10_bound (ofF (f64lit 0x408f400000000000)) (by decide +kernel)
      ⟨by decide +kernel, by decide +kernel⟩
      (by show 1 / 2 ^ 1000 ≤ fval (f64lit 0x408f400000000000); rw [f1000]; norm_num)
      (by show fval (f64lit 0x408f400000000000) ≤ 2 ^ 960 - 2 ^ 944; rw [f1000]; norm_num)
      (by rw [val_ofF, f1000, abs_of_pos (by linarith)]; exact le_trans (by norm_num) hl)).2
    rwa [val_ofF, f1000] at h

/-- a genuinely double-double argument: `ln(π)` from `consts::PI` -/
example :
    |val (TwoFloat.ln consts.PI) - Real.log (val consts.PI)| ≤ 1 / 2 ^ 101 * (1 + |Real.log (val consts.PI)|) :=
  (ln_bound_int consts.PI (by decide +kernel) ⟨by decide +kernel, by decide +kernel⟩ (by decide +kernel)
    (by decide +kernel)).2

/-- the two ends of the proved range: `x = 2^-1000` and `x = 2^960 − 2^944` -/
example :
    |val (TwoFloat.ln (ofF (F64.fin false (2 ^ 74)))) - Real.log (val (ofF (F64.fin false (2 ^ 74))))|
      ≤ 1 / 2 ^ 101 * (1 + |Real.log (val (ofF (F64.fin false (2 ^ 74))))|) ∧
    |val (TwoFloat.ln (ofF (F64.fin false (2 ^ 2034 - 2 ^ 2018)))) - Real.log (val (ofF (F64.fin false (2 ^ 2034 - 2 ^ 2018))))|
      ≤ 1 / 2 ^ 101 * (1 + |Real.log (val (ofF (F64.fin false (2 ^ 2034 - 2 ^ 2018))))|) :=
  ⟨(ln_bound_int _ (by decide +kernel) ⟨by decide +kernel, by decide +kernel⟩ (by decide +kernel)
      (by decide +kernel)).2,
   (ln_bound_int _ (by decide +kernel) ⟨by decide +kernel, by decide +kernel⟩ (by decide +kernel)
      (by decide +kernel)).2⟩

/-- the smallest positive double: the seed `libm::log(2^-1074)` is within `2^-20` of `ln 2^-1074 ≈ −744.44` -/
example : |fval (Libm.log (F64.fin false 1)) - Real.log (fval (F64.fin false 1))| ≤ 1 / 2 ^ 20 :=
  (libm_log_coarse 1 (by norm_num) (by decide +kernel)).2

/-! ### the open sliver is a proof gap: `x = 2^960` by evaluation -/

theorem ln_two_pow_960_check :
    PowiBound.val (TwoFloat.ln (ofF (F64.fin false (2 ^ 2034)))) - 960 * ln2Lo ≤ (1 + 960 * ln2Lo) / 2 ^ 101 ∧
    960 * ln2Hi - PowiBound.val (TwoFloat.ln (ofF (F64.fin false (2 ^ 2034)))) ≤ (1 + 960 * ln2Lo) / 2 ^ 101 ∧
    0 < ln2Lo := by
  decide +kernel

/-- **`ln(2^960)` is inside the floor** (the upper end of the property's range, outside `ln_bound`): the exact model
value against the enclosure `ConstBounds.log_two_encl` of `ln 2` -/
theorem ln_two_pow_960 :
    |val (TwoFloat.ln (ofF (F64.fin false (2 ^ 2034)))) - 960 * Real.log 2| ≤ 1 / 2 ^ 101 * (1 + |960 * Real.log 2|) := by
  obtain ⟨h1, h2, h0⟩ := ln_two_pow_960_check
  obtain ⟨e1, e2⟩ := log_two_encl
  have h0' : (0 : ℝ) < ((ln2Lo : ℚ) : ℝ) := by exact_mod_cast h0
  have h1' := (Rat.cast_le (K := ℝ)).2 h1
  have h2' := (Rat.cast_le (K := ℝ)).2 h2
  push_cast at h1' h2'
  rw [show val (TwoFloat.ln (ofF (F64.fin false (2 ^ 2034))))
    = ((PowiBound.val (TwoFloat.ln (ofF (F64.fin false (2 ^ 2034)))) : ℚ) : ℝ) from ExpBound.rv_eq_val _]
  generalize ((PowiBound.val (TwoFloat.ln (ofF (F64.fin false (2 ^ 2034)))) : ℚ) : ℝ) = w at *
  generalize ((ln2Lo : ℚ) : ℝ) = a at *
  generalize ((ln2Hi : ℚ) : ℝ) = b at *
  have hL : 0 < Real.log 2 := by linarith
  rw [abs_of_pos (by positivity : (0 : ℝ) < 960 * Real.log 2)]
  have h3 : (1 + 960 * a) / 2 ^ 101 ≤ 1 / 2 ^ 101 * (1 + 960 * Real.log 2) := by
    rw [div_eq_mul_one_div, mul_comm]
    exact mul_le_mul_of_nonneg_left (by linarith) (by positivity)
  rw [abs_le]
  constructor <;> linarith


end C15l
