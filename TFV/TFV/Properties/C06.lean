/-
Property C06 — comparisons, min/max, abs and the sign functions of `TwoFloat`.

Notation used in the statements (all from the generated model `TFV/Gen.lean`):
* `teq`   = `impl PartialEq<TwoFloat> for TwoFloat`::eq
* `tcmp`  = `impl PartialOrd<TwoFloat> for TwoFloat`::partial_cmp
* `eqTF` / `eqFT`   = `TwoFloat == f64` / `f64 == TwoFloat`
* `cmpTF` / `cmpFT` = `TwoFloat.partial_cmp(&f64)` / `f64.partial_cmp(&TwoFloat)`
Rust's `<, <=, >, >=` are `ROrd.isLt/isLe/isGt/isGe` of the `partial_cmp` result.
-/
import TFV.Lemmas.Cmp

namespace C06

abbrev teq := base.impl_PartialEq_TwoFloat_for_TwoFloat.eq
abbrev tcmp := base.impl_PartialOrd_TwoFloat_for_TwoFloat.partial_cmp
abbrev eqTF := base.impl_PartialEq_f64_for_TwoFloat.eq
abbrev eqFT := base.impl_PartialEq_TwoFloat_for_f64.eq
abbrev cmpTF := base.impl_PartialOrd_f64_for_TwoFloat.partial_cmp
abbrev cmpFT := base.impl_PartialOrd_TwoFloat_for_f64.partial_cmp
abbrev tneg := arithmetic.impl_Neg_for_rTwoFloat.neg

open TwoFloat

/-! ## Stage 1 — structure of the comparison operators (no validity hypothesis) -/

/-- `==` on TwoFloat is symmetric, for ALL operands -/
theorem eq_symm (a b : TwoFloat) : teq a b = teq b a := by
  unfold teq
  rw [eq_nf, eq_nf, anyNan_symm b a, F64.eq_symm b.hi a.hi, F64.eq_symm b.lo a.lo]
  generalize TwoFloat.is_valid a = va
  generalize TwoFloat.is_valid b = vb
  cases va <;> cases vb <;> rfl

/-- `partial_cmp` with swapped operands is the converse ordering, for ALL operands -/
theorem partial_cmp_swap (a b : TwoFloat) : tcmp b a = ROrd.swap (tcmp a b) := by
  unfold tcmp
  rw [partial_cmp_nf, partial_cmp_nf, anyNan_symm b a,
    F64.partial_cmp_swap a.hi b.hi, F64.partial_cmp_swap a.lo b.lo, lex_swap]
  generalize TwoFloat.is_valid a = va
  generalize TwoFloat.is_valid b = vb
  cases anyNan a b
  · cases va <;> cases vb <;> rfl
  · rfl

/-- `a == b` holds precisely when `a.partial_cmp(&b) == Some(Equal)`, for ALL operands
(valid or not, finite or not, NaN or not) -/
theorem eq_iff_partial_cmp_equal (a b : TwoFloat) :
    teq a b = true ↔ tcmp a b = some ROrdering.Equal := by
  unfold teq tcmp
  rw [eq_nf, partial_cmp_nf]
  generalize TwoFloat.is_valid a = va
  generalize TwoFloat.is_valid b = vb
  cases anyNan a b
  · cases va <;> cases vb <;>
      simp [lex_eq_some_Equal, F64.eq_true_iff]
  · simp

/-- an operand with a NaN word (high or low) is unequal and unordered to every value, in both
argument orders -/
theorem nan_word_unordered (a b : TwoFloat)
    (h : a.hi = F64.nan ∨ a.lo = F64.nan ∨ b.hi = F64.nan ∨ b.lo = F64.nan) :
    teq a b = false ∧ teq b a = false ∧ tcmp a b = none ∧ tcmp b a = none := by
  have h1 : anyNan a b = true := anyNan_iff.mpr h
  have h2 : anyNan b a = true := by rw [anyNan_symm]; exact h1
  unfold teq tcmp
  rw [eq_nf, eq_nf, partial_cmp_nf, partial_cmp_nf, h1, h2]
  simp

/-- conversely, `partial_cmp` is `none` ONLY when some word is NaN -/
theorem partial_cmp_eq_none_iff (a b : TwoFloat) :
    tcmp a b = none ↔ (a.hi = F64.nan ∨ a.lo = F64.nan ∨ b.hi = F64.nan ∨ b.lo = F64.nan) := by
  rw [← anyNan_iff]
  unfold tcmp
  rw [partial_cmp_nf]
  generalize TwoFloat.is_valid a = va
  generalize TwoFloat.is_valid b = vb
  cases hn : anyNan a b
  · have hn' := hn
    unfold anyNan at hn'
    simp only [Bool.or_eq_false_iff] at hn'
    obtain ⟨⟨⟨h1, h2⟩, h3⟩, h4⟩ := hn'
    cases va <;> cases vb <;> simp
    unfold lex
    have e1 : F64.partial_cmp a.hi b.hi ≠ none := by
      rw [Ne, F64.partial_cmp_eq_none_iff, ← is_nan_iff, ← is_nan_iff]; simp [h1, h3]
    have e2 : F64.partial_cmp a.lo b.lo ≠ none := by
      rw [Ne, F64.partial_cmp_eq_none_iff, ← is_nan_iff, ← is_nan_iff]; simp [h2, h4]
    split <;> assumption
  · simp

/-! ### `<, <=, >, >=` between TwoFloats, for ALL operands -/

theorem lt_iff_gt_swap (a b : TwoFloat) : ROrd.isLt (tcmp a b) = ROrd.isGt (tcmp b a) := by
  rw [partial_cmp_swap a b, ROrd.isGt_swap]
theorem le_iff_ge_swap (a b : TwoFloat) : ROrd.isLe (tcmp a b) = ROrd.isGe (tcmp b a) := by
  rw [partial_cmp_swap a b, ROrd.isGe_swap]
theorem gt_iff_lt_swap (a b : TwoFloat) : ROrd.isGt (tcmp a b) = ROrd.isLt (tcmp b a) := by
  rw [partial_cmp_swap a b, ROrd.isLt_swap]
theorem ge_iff_le_swap (a b : TwoFloat) : ROrd.isGe (tcmp a b) = ROrd.isLe (tcmp b a) := by
  rw [partial_cmp_swap a b, ROrd.isLe_swap]

/-- `a <= b` iff `a < b || a == b` -/
theorem le_eq_lt_or_eq (a b : TwoFloat) :
    ROrd.isLe (tcmp a b) = (ROrd.isLt (tcmp a b) || teq a b) := by
  rw [ROrd.isLe_eq]
  congr 1
  rw [Bool.eq_iff_iff, eq_iff_partial_cmp_equal]; exact beq_iff_eq
theorem ge_eq_gt_or_eq (a b : TwoFloat) :
    ROrd.isGe (tcmp a b) = (ROrd.isGt (tcmp a b) || teq a b) := by
  rw [ROrd.isGe_eq]
  congr 1
  rw [Bool.eq_iff_iff, eq_iff_partial_cmp_equal]; exact beq_iff_eq

/-! ### mixed TwoFloat / f64 forms, for ALL operands -/

theorem eq_mixed_symm (t : TwoFloat) (c : F64) : eqTF t c = eqFT c t := by
  unfold eqTF eqFT
  rw [eq_tf_nf, eq_ft_nf, F64.eq_symm c t.hi]

theorem partial_cmp_mixed_swap (t : TwoFloat) (c : F64) : cmpFT c t = ROrd.swap (cmpTF t c) := by
  unfold cmpTF cmpFT
  rw [partial_cmp_tf_nf, partial_cmp_ft_nf, F64.partial_cmp_swap t.hi c,
    F64.partial_cmp_swap t.lo (F64.fin false 0), lex_swap]

theorem eq_mixed_iff_partial_cmp_equal (t : TwoFloat) (c : F64) :
    eqTF t c = true ↔ cmpTF t c = some ROrdering.Equal := by
  unfold eqTF cmpTF
  rw [eq_tf_nf, partial_cmp_tf_nf, lex_eq_some_Equal, Bool.and_eq_true, F64.eq_true_iff,
    F64.eq_true_iff]

theorem eq_mixed_iff_partial_cmp_equal' (c : F64) (t : TwoFloat) :
    eqFT c t = true ↔ cmpFT c t = some ROrdering.Equal := by
  rw [← eq_mixed_symm, eq_mixed_iff_partial_cmp_equal, partial_cmp_mixed_swap,
    ROrd.swap_eq_some_Equal]

theorem lt_mixed_swap (t : TwoFloat) (c : F64) : ROrd.isLt (cmpTF t c) = ROrd.isGt (cmpFT c t) := by
  rw [partial_cmp_mixed_swap, ROrd.isGt_swap]
theorem le_mixed_swap (t : TwoFloat) (c : F64) : ROrd.isLe (cmpTF t c) = ROrd.isGe (cmpFT c t) := by
  rw [partial_cmp_mixed_swap, ROrd.isGe_swap]
theorem gt_mixed_swap (t : TwoFloat) (c : F64) : ROrd.isGt (cmpTF t c) = ROrd.isLt (cmpFT c t) := by
  rw [partial_cmp_mixed_swap, ROrd.isLt_swap]
theorem ge_mixed_swap (t : TwoFloat) (c : F64) : ROrd.isGe (cmpTF t c) = ROrd.isLe (cmpFT c t) := by
  rw [partial_cmp_mixed_swap, ROrd.isLe_swap]

/-- a NaN in `c` or in the high word makes the mixed comparison unordered and unequal -/
theorem mixed_nan_unordered (t : TwoFloat) (c : F64) (h : t.hi = F64.nan ∨ c = F64.nan) :
    eqTF t c = false ∧ eqFT c t = false ∧ cmpTF t c = none ∧ cmpFT c t = none := by
  have hp : F64.partial_cmp t.hi c = none := F64.partial_cmp_eq_none_iff.mpr h
  have hc : cmpTF t c = none := by
    unfold cmpTF; rw [partial_cmp_tf_nf, hp]; rfl
  have he : eqTF t c = false := by
    rw [Bool.eq_false_iff, Ne, eq_mixed_iff_partial_cmp_equal, hc]; simp
  refine ⟨he, ?_, hc, ?_⟩
  · rw [← eq_mixed_symm]; exact he
  · rw [partial_cmp_mixed_swap, hc]; rfl

/-! ### sign functions, for ALL operands -/

theorem is_sign_negative_eq_not (t : TwoFloat) :
    TwoFloat.is_sign_negative t = !TwoFloat.is_sign_positive t := by
  unfold TwoFloat.is_sign_negative TwoFloat.is_sign_positive
  exact F64.is_sign_negative_eq_not_pos t.hi

theorem neg_neg (t : TwoFloat) : tneg (tneg t) = t := by
  unfold tneg arithmetic.impl_Neg_for_rTwoFloat.neg
  simp

theorem copysign_eq_or_neg (t s : TwoFloat) :
    TwoFloat.copysign t s = t ∨ TwoFloat.copysign t s = tneg t := by
  unfold TwoFloat.copysign
  split
  · exact Or.inl rfl
  · exact Or.inr rfl

theorem abs_eq_or_neg (t : TwoFloat) : TwoFloat.abs t = t ∨ TwoFloat.abs t = tneg t := by
  unfold TwoFloat.abs
  split
  · exact Or.inl rfl
  · exact Or.inr rfl

theorem signum_cases (t : TwoFloat) :
    TwoFloat.signum t =
      if TwoFloat.is_valid t then
        (if TwoFloat.is_sign_positive t then ⟨F64.one, F64.zero⟩ else ⟨F64.neg F64.one, F64.zero⟩)
      else ⟨F64.nan, F64.nan⟩ := by
  unfold TwoFloat.signum
  have h1 : f64lit 0x3ff0000000000000 = F64.one := by decide +kernel
  simp only [h1]
  rfl

/-! ### min / max: the skip-invalid rule (Stage 1) -/

theorem min_skip_left {a : TwoFloat} (b : TwoFloat) (h : TwoFloat.is_valid a = false) :
    TwoFloat.min a b = b := by
  unfold TwoFloat.min; simp [h]
theorem min_skip_right {a b : TwoFloat} (ha : TwoFloat.is_valid a = true)
    (hb : TwoFloat.is_valid b = false) : TwoFloat.min a b = a := by
  unfold TwoFloat.min; simp [ha, hb]
theorem max_skip_left {a : TwoFloat} (b : TwoFloat) (h : TwoFloat.is_valid a = false) :
    TwoFloat.max a b = b := by
  unfold TwoFloat.max; simp [h]
theorem max_skip_right {a b : TwoFloat} (ha : TwoFloat.is_valid a = true)
    (hb : TwoFloat.is_valid b = false) : TwoFloat.max a b = a := by
  unfold TwoFloat.max; simp [ha, hb]

theorem min_eq_left_or_right (a b : TwoFloat) : TwoFloat.min a b = a ∨ TwoFloat.min a b = b := by
  unfold TwoFloat.min
  split
  · exact Or.inr rfl
  · split
    · exact Or.inl rfl
    · exact Or.inr rfl
theorem max_eq_left_or_right (a b : TwoFloat) : TwoFloat.max a b = a ∨ TwoFloat.max a b = b := by
  unfold TwoFloat.max
  split
  · exact Or.inr rfl
  · split
    · exact Or.inl rfl
    · exact Or.inr rfl

theorem min_of_valid {a b : TwoFloat} (ha : TwoFloat.is_valid a = true) (hb : TwoFloat.is_valid b = true) :
    TwoFloat.min a b = if ROrd.isLe (tcmp a b) = true then a else b := by
  unfold TwoFloat.min; simp [ha, hb]
theorem max_of_valid {a b : TwoFloat} (ha : TwoFloat.is_valid a = true) (hb : TwoFloat.is_valid b = true) :
    TwoFloat.max a b = if ROrd.isGe (tcmp a b) = true then a else b := by
  unfold TwoFloat.max; simp [ha, hb]

/-! ## Stage 2 — exact-value semantics

`a.V = hi + lo` in units of 2^-1074.  "valid" is taken in BOTH senses at once: the code's
`TwoFloat.is_valid a = true` (it selects the branch of the comparison code) and the specification's
`a.Valid` (`hi = RN(hi + lo)`, both words finite). -/

/-! ### f64 level -/

theorem f64_partial_cmp_exact {x y : F64} (hx : x.is_finite = true) (hy : y.is_finite = true) :
    F64.partial_cmp x y = some (ROrdering.ofOrdering (compare x.toInt y.toInt)) :=
  F64.partial_cmp_finite_compare hx hy
theorem f64_eq_exact {x y : F64} (hx : x.is_finite = true) (hy : y.is_finite = true) :
    F64.eq x y = true ↔ x.toInt = y.toInt := F64.eq_iff_toInt hx hy
theorem f64_lt_exact {x y : F64} (hx : x.is_finite = true) (hy : y.is_finite = true) :
    F64.lt x y = true ↔ x.toInt < y.toInt := F64.lt_iff_toInt hx hy
theorem f64_le_exact {x y : F64} (hx : x.is_finite = true) (hy : y.is_finite = true) :
    F64.le x y = true ↔ x.toInt ≤ y.toInt := F64.le_iff_toInt hx hy
theorem f64_gt_exact {x y : F64} (hx : x.is_finite = true) (hy : y.is_finite = true) :
    F64.gt x y = true ↔ y.toInt < x.toInt := F64.gt_iff_toInt hx hy
theorem f64_ge_exact {x y : F64} (hx : x.is_finite = true) (hy : y.is_finite = true) :
    F64.ge x y = true ↔ y.toInt ≤ x.toInt := F64.ge_iff_toInt hx hy
theorem f64_neg_exact (x : F64) : (F64.neg x).toInt = - x.toInt := F64.toInt_neg x
theorem f64_abs_exact (x : F64) : (F64.abs x).toInt = |x.toInt| := F64.toInt_abs x

/-! ### abs and the sign functions (no rounding theory needed) -/

theorem neg_exact (t : TwoFloat) : (tneg t).V = - t.V := TwoFloat.V_neg t

/-- `abs(x)` has exact value `|x|` -/
theorem abs_exact {t : TwoFloat} (hv : TwoFloat.is_valid t = true) (ht : t.Valid) :
    (TwoFloat.abs t).V = |t.V| := by
  rw [abs_nf]
  rcases Int.lt_trichotomy t.hi.toInt 0 with h | h | h
  · have hV := ht.V_neg_of_hi_neg h
    have h1 : F64.gt t.hi (F64.fin false 0) = false := by
      rw [← Bool.not_eq_true, F64.gt_zero_iff ht.1]; omega
    have h2 : F64.eq t.hi (F64.fin false 0) = false := by
      rw [← Bool.not_eq_true, F64.eq_zero_iff ht.1]; omega
    simp only [h1, h2, Bool.false_and, Bool.or_false, Bool.false_eq_true, if_false]
    rw [TwoFloat.V_neg, abs_of_neg hV]
  · have hV := (V_zero_iff_hi_zero hv ht).mpr h
    split
    · rw [hV]; rfl
    · rw [TwoFloat.V_neg, hV]; rfl
  · have hV := ht.V_pos_of_hi_pos h
    have h1 : F64.gt t.hi (F64.fin false 0) = true := (F64.gt_zero_iff ht.1).mpr h
    simp only [h1, Bool.true_or, if_true]
    rw [abs_of_pos hV]

/-- `abs_exact` without the code-level hypothesis, when the high word is non-zero -/
theorem abs_exact_partial {t : TwoFloat} (ht : t.Valid) (h0 : t.hi.toInt ≠ 0) :
    (TwoFloat.abs t).V = |t.V| := by
  rw [abs_nf]
  rcases Int.lt_trichotomy t.hi.toInt 0 with h | h | h
  · have hV := ht.V_neg_of_hi_neg h
    have h1 : F64.gt t.hi (F64.fin false 0) = false := by
      rw [← Bool.not_eq_true, F64.gt_zero_iff ht.1]; omega
    have h2 : F64.eq t.hi (F64.fin false 0) = false := by
      rw [← Bool.not_eq_true, F64.eq_zero_iff ht.1]; omega
    simp only [h1, h2, Bool.false_and, Bool.or_false, Bool.false_eq_true, if_false]
    rw [TwoFloat.V_neg, abs_of_neg hV]
  · exact absurd h h0
  · have hV := ht.V_pos_of_hi_pos h
    have h1 : F64.gt t.hi (F64.fin false 0) = true := (F64.gt_zero_iff ht.1).mpr h
    simp only [h1, Bool.true_or, if_true]
    rw [abs_of_pos hV]

/-- `abs` is idempotent when the high word is neither NaN nor a zero -/
theorem abs_abs {t : TwoFloat} (h : F64.lt t.hi (F64.fin false 0) = true ∨ F64.gt t.hi (F64.fin false 0) = true) :
    TwoFloat.abs (TwoFloat.abs t) = TwoFloat.abs t := by
  rcases t with ⟨hi, lo⟩
  simp only at h
  have key : ∀ x : F64, F64.gt x (F64.fin false 0) = true →
      ∀ l, TwoFloat.abs ⟨x, l⟩ = ⟨x, l⟩ := by
    intro x hx l
    rw [abs_nf]; simp only [hx, Bool.true_or, if_true]
  rcases h with h | h
  · have hneg : F64.gt (F64.neg hi) (F64.fin false 0) = true := by
      cases hi with
      | nan => simp [F64.lt, F64.partial_cmp] at h
      | inf s => cases s <;> simp_all [F64.lt, F64.gt, F64.partial_cmp, F64.neg]
      | fin s n =>
        rw [F64.lt_iff_toInt rfl rfl] at h
        rw [F64.gt_iff_toInt rfl rfl, F64.toInt_neg]
        simp only [F64.toInt_zero] at h ⊢; omega
    have h1 : F64.gt hi (F64.fin false 0) = false := by
      rw [F64.gt_eq_isGt]; rw [F64.lt_eq_isLt] at h
      generalize F64.partial_cmp hi (F64.fin false 0) = p at h ⊢
      rcases p with _ | o
      · rfl
      · cases o <;> simp_all [ROrd.isLt, ROrd.isGt]
    have h2 : F64.eq hi (F64.fin false 0) = false := by
      rw [F64.eq_def]; rw [F64.lt_eq_isLt] at h
      generalize F64.partial_cmp hi (F64.fin false 0) = p at h ⊢
      rcases p with _ | o
      · rfl
      · cases o <;> simp_all [ROrd.isLt]
    have e : TwoFloat.abs ⟨hi, lo⟩ = ⟨F64.neg hi, F64.neg lo⟩ := by
      rw [abs_nf]; simp only [h1, h2, Bool.false_and, Bool.or_false, Bool.false_eq_true, if_false]
      rfl
    rw [e, key _ hneg]
  · rw [key _ h, key _ h]

/-- `is_sign_negative` reflects the sign of the exact value of a non-zero operand -/
theorem is_sign_negative_exact {t : TwoFloat} (hv : TwoFloat.is_valid t = true) (ht : t.Valid)
    (h0 : t.V ≠ 0) : TwoFloat.is_sign_negative t = true ↔ t.V < 0 := by
  unfold TwoFloat.is_sign_negative
  exact hi_sign_negative_iff hv ht h0

theorem is_sign_positive_exact {t : TwoFloat} (hv : TwoFloat.is_valid t = true) (ht : t.Valid)
    (h0 : t.V ≠ 0) : TwoFloat.is_sign_positive t = true ↔ 0 < t.V := by
  unfold TwoFloat.is_sign_positive
  exact hi_sign_positive_iff hv ht h0

/-- `signum` of a valid non-zero operand is ±1 according to the sign of the exact value -/
theorem signum_exact {t : TwoFloat} (hv : TwoFloat.is_valid t = true) (ht : t.Valid) (h0 : t.V ≠ 0) :
    TwoFloat.signum t =
      if 0 < t.V then ⟨F64.one, F64.zero⟩ else ⟨F64.neg F64.one, F64.zero⟩ := by
  rw [signum_cases, hv]
  simp only [if_true]
  by_cases hp : 0 < t.V
  · rw [if_pos hp, if_pos ((is_sign_positive_exact hv ht h0).mpr hp)]
  · rw [if_neg hp, if_neg (fun h => hp ((is_sign_positive_exact hv ht h0).mp h))]

theorem signum_V {t : TwoFloat} (hv : TwoFloat.is_valid t = true) (ht : t.Valid) (h0 : t.V ≠ 0) :
    (TwoFloat.signum t).V = if 0 < t.V then F64.one.toInt else - F64.one.toInt := by
  rw [signum_exact hv ht h0]
  by_cases hp : 0 < t.V
  · rw [if_pos hp, if_pos hp]; simp [TwoFloat.V, F64.zero]
  · rw [if_neg hp, if_neg hp]; simp [TwoFloat.V, F64.zero]

/-- `copysign(t, s)` has magnitude `|t|` and the sign of the exact value of a non-zero `s` -/
theorem copysign_exact {t s : TwoFloat} (hvt : TwoFloat.is_valid t = true) (ht : t.Valid)
    (hvs : TwoFloat.is_valid s = true) (hs : s.Valid) (hs0 : s.V ≠ 0) :
    (TwoFloat.copysign t s).V = if 0 < s.V then |t.V| else - |t.V| := by
  by_cases ht0 : t.V = 0
  · rcases copysign_eq_or_neg t s with e | e <;> rw [e] <;> simp [ht0]
  · unfold TwoFloat.copysign
    simp only [show ∀ a b : Bool, (a ==. b) = (a == b) from fun _ _ => rfl]
    have h1 := is_sign_positive_exact hvt ht ht0
    have h2 := is_sign_positive_exact hvs hs hs0
    by_cases hp : 0 < s.V
    · rw [if_pos hp]
      by_cases hq : 0 < t.V
      · rw [h1.mpr hq, h2.mpr hp]; simp [abs_of_pos hq]
      · have hq' : t.V < 0 := by omega
        have e1 : TwoFloat.is_sign_positive t = false := by
          rw [← Bool.not_eq_true, h1]; exact hq
        rw [e1, h2.mpr hp]; simp [abs_of_neg hq']
    · rw [if_neg hp]
      have e2 : TwoFloat.is_sign_positive s = false := by
        rw [← Bool.not_eq_true, h2]; exact hp
      by_cases hq : 0 < t.V
      · rw [h1.mpr hq, e2]; simp [abs_of_pos hq]
      · have hq' : t.V < 0 := by omega
        have e1 : TwoFloat.is_sign_positive t = false := by
          rw [← Bool.not_eq_true, h1]; exact hq
        rw [e1, e2]; simp [abs_of_neg hq']

/-! ### comparisons return the outcome of comparing the exact values -/

/-- `partial_cmp` of valid operands is `Some(compare of the exact values)` -/
theorem partial_cmp_exact {a b : TwoFloat}
    (hva : TwoFloat.is_valid a = true) (ha : a.Valid) (hvb : TwoFloat.is_valid b = true) (hb : b.Valid) :
    tcmp a b = some (ROrdering.ofOrdering (compare a.V b.V)) := by
  unfold tcmp
  rw [partial_cmp_exact_of F64.roundFacts hva hvb ha hb, ROrdering.ofInts_eq_compare]

theorem partial_cmp_exact' {a b : TwoFloat}
    (hva : TwoFloat.is_valid a = true) (ha : a.Valid) (hvb : TwoFloat.is_valid b = true) (hb : b.Valid) :
    tcmp a b = some (ROrdering.ofInts a.V b.V) :=
  partial_cmp_exact_of F64.roundFacts hva hvb ha hb

theorem lt_exact {a b : TwoFloat}
    (hva : TwoFloat.is_valid a = true) (ha : a.Valid) (hvb : TwoFloat.is_valid b = true) (hb : b.Valid) :
    ROrd.isLt (tcmp a b) = true ↔ a.V < b.V := by
  rw [partial_cmp_exact' hva ha hvb hb, ROrd.isLt_ofInts]
theorem le_exact {a b : TwoFloat}
    (hva : TwoFloat.is_valid a = true) (ha : a.Valid) (hvb : TwoFloat.is_valid b = true) (hb : b.Valid) :
    ROrd.isLe (tcmp a b) = true ↔ a.V ≤ b.V := by
  rw [partial_cmp_exact' hva ha hvb hb, ROrd.isLe_ofInts]
theorem gt_exact {a b : TwoFloat}
    (hva : TwoFloat.is_valid a = true) (ha : a.Valid) (hvb : TwoFloat.is_valid b = true) (hb : b.Valid) :
    ROrd.isGt (tcmp a b) = true ↔ b.V < a.V := by
  rw [partial_cmp_exact' hva ha hvb hb, ROrd.isGt_ofInts]
theorem ge_exact {a b : TwoFloat}
    (hva : TwoFloat.is_valid a = true) (ha : a.Valid) (hvb : TwoFloat.is_valid b = true) (hb : b.Valid) :
    ROrd.isGe (tcmp a b) = true ↔ b.V ≤ a.V := by
  rw [partial_cmp_exact' hva ha hvb hb, ROrd.isGe_ofInts]
theorem eq_exact {a b : TwoFloat}
    (hva : TwoFloat.is_valid a = true) (ha : a.Valid) (hvb : TwoFloat.is_valid b = true) (hb : b.Valid) :
    teq a b = true ↔ a.V = b.V := by
  rw [eq_iff_partial_cmp_equal, partial_cmp_exact' hva ha hvb hb, Option.some.injEq,
    ROrdering.ofInts_eq_Equal]

/-- rounding-theory-free special case: equal high words -/
theorem partial_cmp_exact_partial {a b : TwoFloat}
    (hva : TwoFloat.is_valid a = true) (ha : a.Valid) (hvb : TwoFloat.is_valid b = true) (hb : b.Valid)
    (h : a.hi.toInt = b.hi.toInt) :
    tcmp a b = some (ROrdering.ofInts a.V b.V) :=
  partial_cmp_exact_of_hi_eq hva hvb ha hb h

/-! ### mixed comparisons: `c` promoted exactly (any well-formed f64 `c`) -/

/-- finite `c` -/
theorem partial_cmp_f64_exact {t : TwoFloat} (ht : t.Valid) {c : F64} (hc : c.WF)
    (hcf : c.is_finite = true) :
    cmpTF t c = some (ROrdering.ofOrdering (compare t.V c.toInt)) := by
  unfold cmpTF
  rw [partial_cmp_tf_exact_of F64.roundFacts ht hc hcf, ROrdering.ofInts_eq_compare]

theorem partial_cmp_f64_exact' {t : TwoFloat} (ht : t.Valid) {c : F64} (hc : c.WF)
    (hcf : c.is_finite = true) :
    cmpTF t c = some (ROrdering.ofInts t.V c.toInt) :=
  partial_cmp_tf_exact_of F64.roundFacts ht hc hcf

/-- rounding-theory-free special case: `hi = c` -/
theorem partial_cmp_f64_exact_partial {t : TwoFloat} (ht : t.Valid) {c : F64}
    (hcf : c.is_finite = true) (h : t.hi.toInt = c.toInt) :
    cmpTF t c = some (ROrdering.ofInts t.V c.toInt) :=
  partial_cmp_tf_exact_of_hi_eq ht hcf h

/-- reversed order `c.partial_cmp(&t)` -/
theorem partial_cmp_f64_exact_rev {t : TwoFloat} (ht : t.Valid) {c : F64} (hc : c.WF)
    (hcf : c.is_finite = true) :
    cmpFT c t = some (ROrdering.ofInts c.toInt t.V) := by
  rw [partial_cmp_mixed_swap, partial_cmp_f64_exact' ht hc hcf, ROrd.swap_some,
    ← ROrdering.ofInts_swap]

/-- `c = ±∞`: every valid pair is below `+∞` and above `-∞` -/
theorem partial_cmp_f64_inf {t : TwoFloat} (ht : t.Valid) (s : Bool) :
    cmpTF t (F64.inf s) = some (if s then .Greater else .Less) ∧
    cmpFT (F64.inf s) t = some (if s then .Less else .Greater) := by
  have h := partial_cmp_tf_inf ht.1 s
  refine ⟨h, ?_⟩
  rw [partial_cmp_mixed_swap]
  unfold cmpTF
  rw [h]; cases s <;> rfl

/-- `c = NaN`: unordered and unequal in both orders -/
theorem partial_cmp_f64_nan (t : TwoFloat) :
    eqTF t F64.nan = false ∧ eqFT F64.nan t = false ∧ cmpTF t F64.nan = none ∧ cmpFT F64.nan t = none :=
  mixed_nan_unordered t F64.nan (Or.inr rfl)

theorem lt_f64_exact {t : TwoFloat} (ht : t.Valid) {c : F64} (hc : c.WF) (hcf : c.is_finite = true) :
    ROrd.isLt (cmpTF t c) = true ↔ t.V < c.toInt := by
  rw [partial_cmp_f64_exact' ht hc hcf, ROrd.isLt_ofInts]
theorem le_f64_exact {t : TwoFloat} (ht : t.Valid) {c : F64} (hc : c.WF) (hcf : c.is_finite = true) :
    ROrd.isLe (cmpTF t c) = true ↔ t.V ≤ c.toInt := by
  rw [partial_cmp_f64_exact' ht hc hcf, ROrd.isLe_ofInts]
theorem gt_f64_exact {t : TwoFloat} (ht : t.Valid) {c : F64} (hc : c.WF) (hcf : c.is_finite = true) :
    ROrd.isGt (cmpTF t c) = true ↔ c.toInt < t.V := by
  rw [partial_cmp_f64_exact' ht hc hcf, ROrd.isGt_ofInts]
theorem ge_f64_exact {t : TwoFloat} (ht : t.Valid) {c : F64} (hc : c.WF) (hcf : c.is_finite = true) :
    ROrd.isGe (cmpTF t c) = true ↔ c.toInt ≤ t.V := by
  rw [partial_cmp_f64_exact' ht hc hcf, ROrd.isGe_ofInts]
theorem eq_f64_exact {t : TwoFloat} (ht : t.Valid) {c : F64} (hc : c.WF) (hcf : c.is_finite = true) :
    eqTF t c = true ↔ t.V = c.toInt := by
  rw [eq_mixed_iff_partial_cmp_equal, partial_cmp_f64_exact' ht hc hcf, Option.some.injEq,
    ROrdering.ofInts_eq_Equal]

theorem lt_f64_exact_rev {t : TwoFloat} (ht : t.Valid) {c : F64} (hc : c.WF) (hcf : c.is_finite = true) :
    ROrd.isLt (cmpFT c t) = true ↔ c.toInt < t.V := by
  rw [← gt_mixed_swap, gt_f64_exact ht hc hcf]
theorem le_f64_exact_rev {t : TwoFloat} (ht : t.Valid) {c : F64} (hc : c.WF) (hcf : c.is_finite = true) :
    ROrd.isLe (cmpFT c t) = true ↔ c.toInt ≤ t.V := by
  rw [← ge_mixed_swap, ge_f64_exact ht hc hcf]
theorem gt_f64_exact_rev {t : TwoFloat} (ht : t.Valid) {c : F64} (hc : c.WF) (hcf : c.is_finite = true) :
    ROrd.isGt (cmpFT c t) = true ↔ t.V < c.toInt := by
  rw [← lt_mixed_swap, lt_f64_exact ht hc hcf]
theorem ge_f64_exact_rev {t : TwoFloat} (ht : t.Valid) {c : F64} (hc : c.WF) (hcf : c.is_finite = true) :
    ROrd.isGe (cmpFT c t) = true ↔ t.V ≤ c.toInt := by
  rw [← le_mixed_swap, le_f64_exact ht hc hcf]
theorem eq_f64_exact_rev {t : TwoFloat} (ht : t.Valid) {c : F64} (hc : c.WF) (hcf : c.is_finite = true) :
    eqFT c t = true ↔ c.toInt = t.V := by
  rw [← eq_mixed_symm, eq_f64_exact ht hc hcf]; exact eq_comm

/-! ### min / max return the operand with the smaller / larger exact value -/

theorem min_exact {a b : TwoFloat}
    (hva : TwoFloat.is_valid a = true) (ha : a.Valid) (hvb : TwoFloat.is_valid b = true) (hb : b.Valid) :
    TwoFloat.min a b = if a.V ≤ b.V then a else b := by
  rw [min_of_valid hva hvb]
  by_cases h : a.V ≤ b.V
  · rw [if_pos h, if_pos ((le_exact hva ha hvb hb).mpr h)]
  · rw [if_neg h, if_neg (fun h' => h ((le_exact hva ha hvb hb).mp h'))]

theorem max_exact {a b : TwoFloat}
    (hva : TwoFloat.is_valid a = true) (ha : a.Valid) (hvb : TwoFloat.is_valid b = true) (hb : b.Valid) :
    TwoFloat.max a b = if b.V ≤ a.V then a else b := by
  rw [max_of_valid hva hvb]
  by_cases h : b.V ≤ a.V
  · rw [if_pos h, if_pos ((ge_exact hva ha hvb hb).mpr h)]
  · rw [if_neg h, if_neg (fun h' => h ((ge_exact hva ha hvb hb).mp h'))]

theorem min_V {a b : TwoFloat}
    (hva : TwoFloat.is_valid a = true) (ha : a.Valid) (hvb : TwoFloat.is_valid b = true) (hb : b.Valid) :
    (TwoFloat.min a b).V = min a.V b.V := by
  rw [min_exact hva ha hvb hb]
  by_cases h : a.V ≤ b.V
  · rw [if_pos h, Int.min_eq_left h]
  · rw [if_neg h, Int.min_eq_right (by omega)]

theorem max_V {a b : TwoFloat}
    (hva : TwoFloat.is_valid a = true) (ha : a.Valid) (hvb : TwoFloat.is_valid b = true) (hb : b.Valid) :
    (TwoFloat.max a b).V = max a.V b.V := by
  rw [max_exact hva ha hvb hb]
  by_cases h : b.V ≤ a.V
  · rw [if_pos h, Int.max_eq_left h]
  · rw [if_neg h, Int.max_eq_right (by omega)]

/-! ## non-vacuity: the hypotheses are satisfiable on concrete non-trivial values -/

section Examples

/-- 1 + 2^-60 and 1 - 2^-60: equal high words, the low words decide -/
private def p1 : TwoFloat := ⟨F64.one, F64.fin false (2 ^ 1014)⟩
private def p2 : TwoFloat := ⟨F64.one, F64.fin true (2 ^ 1014)⟩

example : TwoFloat.is_valid consts.E = true ∧ consts.E.Valid := by decide +kernel
example : TwoFloat.is_valid consts.FRAC_PI_2 = true ∧ consts.FRAC_PI_2.Valid := by decide +kernel
example : TwoFloat.is_valid base.DEG_PER_RAD = true ∧ base.DEG_PER_RAD.Valid := by decide +kernel
example : TwoFloat.is_valid p1 = true ∧ p1.Valid ∧ TwoFloat.is_valid p2 = true ∧ p2.Valid := by
  decide +kernel

/-- `partial_cmp_exact` applies to (e, π/2) with different high words … -/
example : tcmp consts.E consts.FRAC_PI_2 = some .Greater ∧ consts.FRAC_PI_2.V < consts.E.V := by
  decide +kernel
example : ROrd.isGt (tcmp consts.E consts.FRAC_PI_2) = true :=
  (gt_exact (a := consts.E) (b := consts.FRAC_PI_2) (by decide +kernel) (by decide +kernel)
    (by decide +kernel) (by decide +kernel)).mpr (by decide +kernel)
/-- … and to a pair with equal high words -/
example : tcmp p1 p2 = some .Greater ∧ p1.hi = p2.hi ∧ p2.V < p1.V := by decide +kernel

/-- mixed comparison where `hi = c` and the (negative) low word decides -/
example : cmpTF p2 F64.one = some .Less ∧ cmpFT F64.one p2 = some .Greater ∧
    p2.V < F64.one.toInt ∧ F64.one.WF := by decide +kernel
/-- mixed comparison where `hi ≠ c` -/
example : cmpTF consts.E F64.one = some .Greater ∧ eqTF consts.E F64.one = false := by
  decide +kernel
example : eqTF (TwoFloat.from_f64 F64.one) F64.one = true := by decide +kernel

/-- a negative valid operand with non-zero exact value, for abs / signum / copysign / is_sign_negative -/
example : TwoFloat.is_valid (tneg p2) = true ∧ (tneg p2).Valid ∧ (tneg p2).V < 0 ∧
    TwoFloat.is_sign_negative (tneg p2) = true ∧
    TwoFloat.abs (tneg p2) = p2 ∧
    TwoFloat.signum (tneg p2) = ⟨F64.neg F64.one, F64.zero⟩ ∧
    TwoFloat.copysign consts.E (tneg p2) = tneg consts.E := by decide +kernel

/-- the skip-invalid rule of min / max on an invalid finite pair (1, 1) -/
example : TwoFloat.is_valid ⟨F64.one, F64.one⟩ = false ∧
    TwoFloat.min ⟨F64.one, F64.one⟩ consts.E = consts.E ∧
    TwoFloat.max consts.E ⟨F64.one, F64.one⟩ = consts.E := by decide +kernel

/-- the hypothesis of `nan_word_unordered` on the historical witness (∞, NaN) = new_add(∞, 1) -/
example : teq TwoFloat.INFINITY ⟨F64.inf false, F64.nan⟩ = false ∧
    teq ⟨F64.inf false, F64.nan⟩ TwoFloat.INFINITY = false ∧
    tcmp TwoFloat.INFINITY ⟨F64.inf false, F64.nan⟩ = none ∧
    tcmp ⟨F64.inf false, F64.nan⟩ TwoFloat.INFINITY = none :=
  nan_word_unordered _ _ (Or.inr (Or.inr (Or.inr rfl)))

/-- `abs_abs` needs its hypothesis: on the VALID pair (+0, -0), `abs` flips both zero signs each time
(values are all zero, so `abs_exact` is unaffected) -/
example : TwoFloat.is_valid ⟨F64.zero, F64.negZero⟩ = true ∧
    TwoFloat.abs ⟨F64.zero, F64.negZero⟩ = ⟨F64.negZero, F64.zero⟩ ∧
    TwoFloat.abs (TwoFloat.abs ⟨F64.zero, F64.negZero⟩) = ⟨F64.zero, F64.negZero⟩ := by
  decide +kernel
/-- … and with a NaN high word `abs` negates the low word each time -/
example : TwoFloat.abs (TwoFloat.abs ⟨F64.nan, F64.one⟩) ≠ TwoFloat.abs ⟨F64.nan, F64.one⟩ := by
  decide +kernel

/-- outside the scope of C06 (operands not valid): two NaN-free invalid operands always compare
`Equal`, so `INFINITY == NEG_INFINITY` in the model, and an invalid operand is `Greater` than every
valid one (`NEG_INFINITY > e`) -/
example : teq TwoFloat.INFINITY TwoFloat.NEG_INFINITY = true ∧
    tcmp TwoFloat.NEG_INFINITY consts.E = some .Greater := by decide +kernel

end Examples

end C06
