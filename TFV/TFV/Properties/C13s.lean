/-
C13s (numerical layer of C13, square root) — the model's `F64.sqrt` is correctly rounded, and `TwoFloat.sqrt`
(Karp–Markstein with one double-word Newton correction) is accurate to `21 u² = 21·2^-106` relative to the exact
real square root, for valid `x > 0` with high word in `[2^-900, 2^1000]`.  The property's constant is `32 u²`.
`TwoFloat.hypot` is accurate to `26 u²` for high words of magnitude in `[2^-450, 2^450]` (property: `48 u²`).

Units: `x.V` is the value of `x` in units of `2^-1074`; if `R` is the (scaled) value of the result then
`(R/2^1074)² ≈ x.V/2^1074 ⇔ R² ≈ x.V·2^1074`, so the exact scaled square root is `√(x.V · unit)` (`unit = 2^1074`).
Every bound is given in two forms: with `Real.sqrt`, and as a pure integer inequality on squares
`(2^106 - k)² · x.V · unit ≤ 2^212 · R² ≤ (2^106 + k)² · x.V · unit` (`(1 - k u²)² v ≤ R² ≤ (1 + k u²)² v`).

The proofs are in `TFV/Lemmas/SqrtBound.lean`.
-/
import TFV.Lemmas.SqrtBound
import TFV.Properties.C04b

set_option exponentiation.threshold 3300

namespace C13s

open F64 TwoFloat

/-! ### `F64.sqrt` is correctly rounded -/

/-- integer statement: the result `r = q'·2^(e+1)` (`2^52 ≤ q' ≤ 2^53`, so `2^e` is half an ulp of `r`) satisfies
`(r - 2^e)² ≤ n·2^1074 ≤ (r + 2^e)²`, i.e. `|r - √(n·2^1074)| ≤ ulp/2`; moreover `2^53·2^e ≤ √(n·2^1074)`. -/
theorem f64_sqrt_correctly_rounded (n : Nat) (hn : 0 < n) :
    ∃ q' e : Nat, F64.sqrt (fin false n) = fin false (q' * 2 ^ (e + 1)) ∧
      2 ^ 52 ≤ q' ∧ q' ≤ 2 ^ 53 ∧ (2 ^ 53 * 2 ^ e) ^ 2 ≤ n * unit ∧
      ((2 * q' - 1) * 2 ^ e) ^ 2 ≤ n * unit ∧ n * unit ≤ ((2 * q' + 1) * 2 ^ e) ^ 2 :=
  F64.sqrt_spec n hn

/-- real statement: the result is representable and within relative `u = 2^-53` of `Real.sqrt` -/
theorem f64_sqrt_rel_err (n : Nat) (hn : 0 < n) :
    ∃ r : Nat, F64.sqrt (fin false n) = fin false r ∧ Rep r ∧
      2 ^ 53 * |(r : ℝ) - Real.sqrt ((n : ℝ) * (unit : ℝ))| ≤ Real.sqrt ((n : ℝ) * (unit : ℝ)) :=
  F64.sqrt_real_err n hn

/-! ### `TwoFloat.sqrt` -/

/-- from `|R - S| ≤ k·2^-106·S` to the two-sided inequality on squares -/
theorem sq_form {R S W k : ℝ} (hk : k ≤ 2 ^ 106) (hS0 : 0 ≤ S) (hS : S ^ 2 = W)
    (h : 2 ^ 106 * |R - S| ≤ k * S) :
    (2 ^ 106 - k) ^ 2 * W ≤ 2 ^ 212 * R ^ 2 ∧ 2 ^ 212 * R ^ 2 ≤ (2 ^ 106 + k) ^ 2 * W := by
  have h1 : |R - S| ≤ k * S / 2 ^ 106 := by rw [le_div_iff₀ (by positivity)]; linarith
  obtain ⟨h2, h3⟩ := abs_le.1 h1
  have e : k * S / 2 ^ 106 * 2 ^ 106 = k * S := by field_simp
  have lo : (2 ^ 106 - k) * S ≤ 2 ^ 106 * R := by nlinarith
  have hi : 2 ^ 106 * R ≤ (2 ^ 106 + k) * S := by nlinarith
  have lo0 : 0 ≤ (2 ^ 106 - k) * S := mul_nonneg (by linarith) hS0
  have a := pow_le_pow_left₀ lo0 lo 2
  have b := pow_le_pow_left₀ (le_trans lo0 lo) hi 2
  rw [mul_pow, mul_pow, hS] at a b
  have e2 : ((2 : ℝ) ^ 106) ^ 2 = 2 ^ 212 := by rw [← pow_mul]
  rw [e2] at a b
  exact ⟨a, b⟩

/-- **C13, `sqrt`, tight form**: relative error at most `21 u²`, on the range `x.hi ∈ [2^-900, 2^1000]` -/
theorem sqrt_bound_21u2 {x : TwoFloat} (hv : x.Valid) (hw : x.WF) (hpos : 0 < x.V)
    (hlo : 2 ^ 174 ≤ x.hi.toInt.natAbs) (hhi : x.hi.toInt.natAbs ≤ 2 ^ 2074) :
    (TwoFloat.sqrt x).Valid ∧ (TwoFloat.sqrt x).WF ∧
    2 ^ 106 * |(((TwoFloat.sqrt x).V : Int) : ℝ) - Real.sqrt ((x.V : ℝ) * (unit : ℝ))|
      ≤ 21 * Real.sqrt ((x.V : ℝ) * (unit : ℝ)) :=
  TwoFloat.sqrt_val hv hw hpos hlo hhi

/-- the same as an integer inequality on squares: `(1 - 21u²)²·v ≤ R² ≤ (1 + 21u²)²·v` -/
theorem sqrt_bound_21u2_sq {x : TwoFloat} (hv : x.Valid) (hw : x.WF) (hpos : 0 < x.V)
    (hlo : 2 ^ 174 ≤ x.hi.toInt.natAbs) (hhi : x.hi.toInt.natAbs ≤ 2 ^ 2074) :
    (2 ^ 106 - 21) ^ 2 * (x.V * (unit : Int)) ≤ 2 ^ 212 * (TwoFloat.sqrt x).V ^ 2 ∧
    2 ^ 212 * (TwoFloat.sqrt x).V ^ 2 ≤ (2 ^ 106 + 21) ^ 2 * (x.V * (unit : Int)) := by
  obtain ⟨-, -, h⟩ := TwoFloat.sqrt_val hv hw hpos hlo hhi
  have hW : (0 : ℝ) ≤ ((x.V : Int) : ℝ) * (unit : ℝ) := by
    have : (0 : ℝ) < ((x.V : Int) : ℝ) := by exact_mod_cast hpos
    positivity
  obtain ⟨a, b⟩ := sq_form (k := 21) (by norm_num) (Real.sqrt_nonneg _) (Real.sq_sqrt hW) h
  constructor
  · exact_mod_cast a
  · exact_mod_cast b

/-- **C13, `sqrt`**: for valid `x > 0` with high word in `[2^-900, 2^900]` the result is a valid pair within
relative `32·2^-106` of the exact real square root -/
theorem sqrt_bound {x : TwoFloat} (hv : x.Valid) (hw : x.WF) (hpos : 0 < x.V)
    (hlo : 2 ^ 174 ≤ x.hi.toInt.natAbs) (hhi : x.hi.toInt.natAbs ≤ 2 ^ 1974) :
    (TwoFloat.sqrt x).Valid ∧
    2 ^ 106 * |(((TwoFloat.sqrt x).V : Int) : ℝ) - Real.sqrt ((x.V : ℝ) * (unit : ℝ))|
      ≤ 32 * Real.sqrt ((x.V : ℝ) * (unit : ℝ)) := by
  obtain ⟨h1, -, h⟩ := TwoFloat.sqrt_val hv hw hpos hlo
    (le_trans hhi (Nat.pow_le_pow_right (by norm_num) (by norm_num)))
  refine ⟨h1, le_trans h ?_⟩
  have := Real.sqrt_nonneg (((x.V : Int) : ℝ) * (unit : ℝ))
  linarith

/-- **C13, `sqrt`, on squares**: `(1 - 32u²)²·x.V·unit ≤ R² ≤ (1 + 32u²)²·x.V·unit` (and `R > 0`) -/
theorem sqrt_bound_sq {x : TwoFloat} (hv : x.Valid) (hw : x.WF) (hpos : 0 < x.V)
    (hlo : 2 ^ 174 ≤ x.hi.toInt.natAbs) (hhi : x.hi.toInt.natAbs ≤ 2 ^ 1974) :
    0 < (TwoFloat.sqrt x).V ∧
    (2 ^ 106 - 32) ^ 2 * (x.V * (unit : Int)) ≤ 2 ^ 212 * (TwoFloat.sqrt x).V ^ 2 ∧
    2 ^ 212 * (TwoFloat.sqrt x).V ^ 2 ≤ (2 ^ 106 + 32) ^ 2 * (x.V * (unit : Int)) := by
  obtain ⟨-, h⟩ := sqrt_bound hv hw hpos hlo hhi
  have hVp : (0 : ℝ) < ((x.V : Int) : ℝ) := by exact_mod_cast hpos
  have hU : (0 : ℝ) < (unit : ℝ) := by exact_mod_cast unit_pos
  have hW : (0 : ℝ) ≤ ((x.V : Int) : ℝ) * (unit : ℝ) := by positivity
  have hSp : 0 < Real.sqrt (((x.V : Int) : ℝ) * (unit : ℝ)) := Real.sqrt_pos.2 (by positivity)
  obtain ⟨a, b⟩ := sq_form (k := 32) (by norm_num) (Real.sqrt_nonneg _) (Real.sq_sqrt hW) h
  refine ⟨?_, by exact_mod_cast a, by exact_mod_cast b⟩
  have hR : (0 : ℝ) < (((TwoFloat.sqrt x).V : Int) : ℝ) := by
    have h1 : |(((TwoFloat.sqrt x).V : Int) : ℝ) - Real.sqrt (((x.V : Int) : ℝ) * (unit : ℝ))|
        ≤ 32 * Real.sqrt (((x.V : Int) : ℝ) * (unit : ℝ)) / 2 ^ 106 := by
      rw [le_div_iff₀ (by positivity)]; linarith
    obtain ⟨h2, -⟩ := abs_le.1 h1
    have : 32 * Real.sqrt (((x.V : Int) : ℝ) * (unit : ℝ)) / 2 ^ 106
        < Real.sqrt (((x.V : Int) : ℝ) * (unit : ℝ)) := by
      rw [div_lt_iff₀ (by positivity)]
      have : (32 : ℝ) < 2 ^ 106 := by norm_num
      nlinarith
    linarith
  exact_mod_cast hR

/-! ### `TwoFloat.hypot` -/

/-- **C13, `hypot`, tight form**: for valid `x`, `y` with high words of magnitude in `[2^-450, 2^450]` the result is a
valid pair within relative `26 u²` of `√(x² + y²)` (values in units of `2^-1074`: `R² ≈ x.V² + y.V²`) -/
theorem hypot_bound_26u2 {x y : TwoFloat} (hvx : x.Valid) (hwx : x.WF) (hvy : y.Valid) (hwy : y.WF)
    (hx : 2 ^ 624 ≤ x.hi.toInt.natAbs ∧ x.hi.toInt.natAbs ≤ 2 ^ 1524)
    (hy : 2 ^ 624 ≤ y.hi.toInt.natAbs ∧ y.hi.toInt.natAbs ≤ 2 ^ 1524) :
    (TwoFloat.hypot x y).Valid ∧ (TwoFloat.hypot x y).WF ∧
    2 ^ 106 * |(((TwoFloat.hypot x y).V : Int) : ℝ) - Real.sqrt (((x.V : Int) : ℝ) ^ 2 + ((y.V : Int) : ℝ) ^ 2)|
      ≤ 26 * Real.sqrt (((x.V : Int) : ℝ) ^ 2 + ((y.V : Int) : ℝ) ^ 2) :=
  TwoFloat.hypot_val hvx hwx hvy hwy hx hy

/-- **C13, `hypot`**: relative error at most `48·2^-106` -/
theorem hypot_bound {x y : TwoFloat} (hvx : x.Valid) (hwx : x.WF) (hvy : y.Valid) (hwy : y.WF)
    (hx : 2 ^ 624 ≤ x.hi.toInt.natAbs ∧ x.hi.toInt.natAbs ≤ 2 ^ 1524)
    (hy : 2 ^ 624 ≤ y.hi.toInt.natAbs ∧ y.hi.toInt.natAbs ≤ 2 ^ 1524) :
    (TwoFloat.hypot x y).Valid ∧
    2 ^ 106 * |(((TwoFloat.hypot x y).V : Int) : ℝ) - Real.sqrt (((x.V : Int) : ℝ) ^ 2 + ((y.V : Int) : ℝ) ^ 2)|
      ≤ 48 * Real.sqrt (((x.V : Int) : ℝ) ^ 2 + ((y.V : Int) : ℝ) ^ 2) := by
  obtain ⟨h1, -, h⟩ := TwoFloat.hypot_val hvx hwx hvy hwy hx hy
  refine ⟨h1, le_trans h ?_⟩
  have := Real.sqrt_nonneg (((x.V : Int) : ℝ) ^ 2 + ((y.V : Int) : ℝ) ^ 2)
  linarith

/-- the same on squares: `(1 - 26u²)²·(x² + y²) ≤ R² ≤ (1 + 26u²)²·(x² + y²)` -/
theorem hypot_bound_26u2_sq {x y : TwoFloat} (hvx : x.Valid) (hwx : x.WF) (hvy : y.Valid) (hwy : y.WF)
    (hx : 2 ^ 624 ≤ x.hi.toInt.natAbs ∧ x.hi.toInt.natAbs ≤ 2 ^ 1524)
    (hy : 2 ^ 624 ≤ y.hi.toInt.natAbs ∧ y.hi.toInt.natAbs ≤ 2 ^ 1524) :
    (2 ^ 106 - 26) ^ 2 * (x.V ^ 2 + y.V ^ 2) ≤ 2 ^ 212 * (TwoFloat.hypot x y).V ^ 2 ∧
    2 ^ 212 * (TwoFloat.hypot x y).V ^ 2 ≤ (2 ^ 106 + 26) ^ 2 * (x.V ^ 2 + y.V ^ 2) := by
  obtain ⟨-, -, h⟩ := TwoFloat.hypot_val hvx hwx hvy hwy hx hy
  have hW : (0 : ℝ) ≤ ((x.V : Int) : ℝ) ^ 2 + ((y.V : Int) : ℝ) ^ 2 := by positivity
  obtain ⟨a, b⟩ := sq_form (k := 26) (by norm_num) (Real.sqrt_nonneg _) (Real.sq_sqrt hW) h
  constructor
  · exact_mod_cast a
  · exact_mod_cast b

/-! ### closed instances (kernel evaluation) -/

/-- `sqrt(4) = 2` exactly -/
example : TwoFloat.sqrt ⟨f64lit 0x4010000000000000, F64.zero⟩ = ⟨f64lit 0x4000000000000000, F64.zero⟩ := by
  decide +kernel

/-- `F64.sqrt 2` is the high word of the constant `SQRT_2` -/
example : F64.sqrt (f64lit 0x4000000000000000) = consts.SQRT_2.hi := by decide +kernel

/-- `sqrt((2, 0))` is NOT bit-identical to `consts.SQRT_2`: the high words agree, the low word of the computed root is
two ulps (`2·2^-106`, scaled `2·2^968`) below the constant's … -/
example :
    (TwoFloat.sqrt ⟨f64lit 0x4000000000000000, F64.zero⟩).hi = consts.SQRT_2.hi ∧
    (TwoFloat.sqrt ⟨f64lit 0x4000000000000000, F64.zero⟩).lo.toInt = consts.SQRT_2.lo.toInt - 2 * 2 ^ 968 ∧
    TwoFloat.sqrt ⟨f64lit 0x4000000000000000, F64.zero⟩ ≠ consts.SQRT_2 := by
  decide +kernel

/-- … which is an error of between `1u²` and `2u²` (the constant itself is the correctly rounded double-double) -/
example :
    let x : TwoFloat := ⟨f64lit 0x4000000000000000, F64.zero⟩
    ((2 ^ 106 - 2) ^ 2 * (x.V * (unit : Int)) ≤ 2 ^ 212 * (TwoFloat.sqrt x).V ^ 2 ∧
      2 ^ 212 * (TwoFloat.sqrt x).V ^ 2 ≤ (2 ^ 106 + 2) ^ 2 * (x.V * (unit : Int))) ∧
    ¬ ((2 ^ 106 - 1) ^ 2 * (x.V * (unit : Int)) ≤ 2 ^ 212 * (TwoFloat.sqrt x).V ^ 2) := by
  decide +kernel

/-- the theorem instantiated at `x = 2` -/
example :
    let x : TwoFloat := ⟨f64lit 0x4000000000000000, F64.zero⟩
    0 < (TwoFloat.sqrt x).V ∧
    (2 ^ 106 - 32) ^ 2 * (x.V * (unit : Int)) ≤ 2 ^ 212 * (TwoFloat.sqrt x).V ^ 2 ∧
    2 ^ 212 * (TwoFloat.sqrt x).V ^ 2 ≤ (2 ^ 106 + 32) ^ 2 * (x.V * (unit : Int)) :=
  sqrt_bound_sq (x := ⟨f64lit 0x4000000000000000, F64.zero⟩) (by decide +kernel)
    ⟨by decide +kernel, by decide +kernel⟩ (by decide +kernel) (by decide +kernel) (by decide +kernel)

/-- the theorem instantiated at `x = π` (a genuine two-word argument) -/
example :
    (2 ^ 106 - 21) ^ 2 * (consts.PI.V * (unit : Int)) ≤ 2 ^ 212 * (TwoFloat.sqrt consts.PI).V ^ 2 ∧
    2 ^ 212 * (TwoFloat.sqrt consts.PI).V ^ 2 ≤ (2 ^ 106 + 21) ^ 2 * (consts.PI.V * (unit : Int)) :=
  sqrt_bound_21u2_sq (x := consts.PI) (by decide +kernel)
    ⟨by decide +kernel, by decide +kernel⟩ (by decide +kernel) (by decide +kernel) (by decide +kernel)

/-- `hypot(3, 4) = 5` exactly, and the theorem instantiated at `(π, e)` -/
example : TwoFloat.hypot ⟨f64lit 0x4008000000000000, F64.zero⟩ ⟨f64lit 0x4010000000000000, F64.zero⟩
    = ⟨f64lit 0x4014000000000000, F64.zero⟩ := by decide +kernel

example :
    (2 ^ 106 - 26) ^ 2 * (consts.PI.V ^ 2 + consts.E.V ^ 2) ≤ 2 ^ 212 * (TwoFloat.hypot consts.PI consts.E).V ^ 2 ∧
    2 ^ 212 * (TwoFloat.hypot consts.PI consts.E).V ^ 2 ≤ (2 ^ 106 + 26) ^ 2 * (consts.PI.V ^ 2 + consts.E.V ^ 2) :=
  hypot_bound_26u2_sq (x := consts.PI) (y := consts.E)
    (by decide +kernel) ⟨by decide +kernel, by decide +kernel⟩
    (by decide +kernel) ⟨by decide +kernel, by decide +kernel⟩
    ⟨by decide +kernel, by decide +kernel⟩ ⟨by decide +kernel, by decide +kernel⟩

end C13s
