/-
C17p — panic-freedom of asin, acos, atan, atan2.

The only panicking operation reachable from this family is the `i16` subtraction inside `no_overlap`
(through `is_valid`), which is in range for all bit patterns (C07).  `acos` calls `is_valid` on the RESULT of
`asin` and `atan2` on the quotient `y / x`; both are well-formed because every operator ends in a
`fast_two_sum` / `renorm3`.  Hence: panic-free for ALL well-formed arguments; `atan2` even for all arguments.
-/
import TFV.Lemmas.PanicFree

namespace C17p
open PF

/-- `asin` returns a well-formed value on every argument -/
theorem asin_WF (x : TwoFloat) : (TwoFloat.asin x).WF := by
  unfold TwoFloat.asin
  refine ite_WF _ PF.NAN_WF (ite_WF _ (PF.restricted_asin_WF _) ?_)
  exact ite_WF _ (PF.sub_tt_WF _ _) (PF.neg_WF (PF.sub_tt_WF _ _))

theorem asin_pf (x : TwoFloat) (hw : x.WF) : TwoFloat.asin.pf x = true := PF.is_valid_pf hw

theorem acos_pf (x : TwoFloat) (hw : x.WF) : TwoFloat.acos.pf x = true := by
  unfold TwoFloat.acos.pf
  rw [asin_pf x hw, Bool.true_and]
  exact PF.is_valid_pf (asin_WF x)

theorem atan_pf (x : TwoFloat) (hw : x.WF) : TwoFloat.atan.pf x = true := PF.is_valid_pf hw

/-- `atan2` is panic-free on ALL pairs of arguments: `is_valid` is only applied to the quotient -/
theorem atan2_pf (y x : TwoFloat) : TwoFloat.atan2.pf y x = true := by
  unfold TwoFloat.atan2.pf
  split_ifs
  · rfl
  · rfl
  · exact atan_pf _ (PF.div_tt_WF y x)

/-- `atan` returns a well-formed value on every argument (used by callers that test the result) -/
theorem atan_WF (x : TwoFloat) : (TwoFloat.atan x).WF := by
  unfold TwoFloat.atan
  refine ite_WF _ PF.NAN_WF (ite_WF _ (ite_WF _ PF.FRAC_PI_2_WF (PF.neg_WF PF.FRAC_PI_2_WF)) ?_)
  refine ite_WF _ (PF.restricted_atan_WF _) ?_
  have hr : ∀ r : TwoFloat, r.WF →
      (if TwoFloat.is_sign_positive x then r else arithmetic.impl_Neg_for_TwoFloat.neg r).WF :=
    fun r hr => ite_WF _ hr (PF.neg_WF hr)
  apply hr
  exact ite_WF _ (PF.add_tt_WF _ _)
    (ite_WF _ (PF.add_tt_WF _ _) (ite_WF _ (PF.add_tt_WF _ _) (PF.sub_tt_WF _ _)))

/-- the trait entry points (`num_traits::Float`) -/
theorem Float_asin_pf (x : TwoFloat) (hw : x.WF) : num_integration.impl_Float_for_TwoFloat.asin.pf x = true :=
  asin_pf x hw
theorem Float_acos_pf (x : TwoFloat) (hw : x.WF) : num_integration.impl_Float_for_TwoFloat.acos.pf x = true :=
  acos_pf x hw
theorem Float_atan_pf (x : TwoFloat) (hw : x.WF) : num_integration.impl_Float_for_TwoFloat.atan.pf x = true :=
  atan_pf x hw
theorem Float_atan2_pf (y x : TwoFloat) : num_integration.impl_Float_for_TwoFloat.atan2.pf y x = true :=
  atan2_pf y x

/-! closed instances -/

example : TwoFloat.acos.pf ⟨f64lit 0x3fe8000000000000, f64lit 0x0000000000000000⟩ = true := by decide +kernel
example : TwoFloat.acos.pf ⟨f64lit 0x4000000000000000, f64lit 0x0000000000000000⟩ = true := by decide +kernel
example : TwoFloat.atan2.pf TwoFloat.MAX TwoFloat.MIN_POSITIVE = true := by decide +kernel

end C17p
