/-
C04 (structural layer) — multiplication: `*=` is `*`, `f * x` is `x * f`, the algorithms spelled out, and closed
instances.
-/
import TFV.Spec.Defs
import TFV.Lemmas.Ident

namespace C04

theorem mul_assign_tt_ref :
    arithmetic.impl_MulAssign_rTwoFloat_for_TwoFloat.mul_assign = arithmetic.impl_Mul_rTwoFloat_for_rTwoFloat.mul := rfl
theorem mul_assign_tt_val :
    arithmetic.impl_MulAssign_TwoFloat_for_TwoFloat.mul_assign = arithmetic.impl_Mul_rTwoFloat_for_rTwoFloat.mul := rfl
theorem mul_assign_tf_ref :
    arithmetic.impl_MulAssign_rf64_for_TwoFloat.mul_assign = arithmetic.impl_Mul_rf64_for_rTwoFloat.mul := rfl
theorem mul_assign_tf_val :
    arithmetic.impl_MulAssign_f64_for_TwoFloat.mul_assign = arithmetic.impl_Mul_rf64_for_rTwoFloat.mul := rfl

theorem mul_tt_notation (a b : TwoFloat) : a *. b = arithmetic.impl_Mul_rTwoFloat_for_rTwoFloat.mul a b := rfl
theorem mul_tf_notation (a : TwoFloat) (b : F64) : a *. b = arithmetic.impl_Mul_rf64_for_rTwoFloat.mul a b := rfl
theorem mul_ft_notation (a : F64) (b : TwoFloat) : a *. b = arithmetic.impl_Mul_rTwoFloat_for_rf64.mul a b := rfl

/-- `f64 * TwoFloat` is `TwoFloat * f64` with the arguments swapped (textually different body in Rust) -/
theorem mul_ft_eq_tf_swapped :
    arithmetic.impl_Mul_rTwoFloat_for_rf64.mul = fun f x => arithmetic.impl_Mul_rf64_for_rTwoFloat.mul x f := rfl
theorem mul_ft_eq_tf (f : F64) (x : TwoFloat) : f *. x = x *. f := rfl
theorem mul_ft_eq_tf_all_forms (f : F64) (x : TwoFloat) :
    arithmetic.impl_Mul_TwoFloat_for_f64.mul f x = arithmetic.impl_Mul_f64_for_TwoFloat.mul x f
    ∧ arithmetic.impl_Mul_rTwoFloat_for_f64.mul f x = arithmetic.impl_Mul_f64_for_rTwoFloat.mul x f
    ∧ arithmetic.impl_Mul_TwoFloat_for_rf64.mul f x = arithmetic.impl_Mul_rf64_for_TwoFloat.mul x f
    ∧ arithmetic.impl_Mul_rTwoFloat_for_rf64.mul f x = arithmetic.impl_Mul_rf64_for_rTwoFloat.mul x f :=
  ⟨rfl, rfl, rfl, rfl⟩

/-! ### the algorithms (DWTimesFP3 / DWTimesDW3) -/

theorem mul_tf_unfold (x : TwoFloat) (f : F64) :
    x *. f =
      (let c := TwoFloat.new_mul x.hi f
       arithmetic.fast_two_sum c.hi (F64.fma x.lo f c.lo)) := rfl

theorem mul_tt_unfold (x y : TwoFloat) :
    x *. y =
      (let c := TwoFloat.new_mul x.hi y.hi
       let tl0 := F64.mul x.lo y.lo
       let tl1 := F64.fma x.hi y.lo tl0
       let cl2 := F64.fma x.lo y.hi tl1
       arithmetic.fast_two_sum c.hi (F64.add c.lo cl2)) := rfl

/-- `mul_add` of num_traits is NOT fused: it is `self * a + b` -/
theorem mul_add_unfused (s a b : TwoFloat) :
    num_integration.impl_Float_for_TwoFloat.mul_add s a b = s *. a +. b := rfl

/-- `to_degrees` / `to_radians` are multiplications by the stored constants -/
theorem to_degrees_eq (x : TwoFloat) : TwoFloat.to_degrees x = x *. base.DEG_PER_RAD := rfl
theorem to_radians_eq (x : TwoFloat) : TwoFloat.to_radians x = x *. base.RAD_PER_DEG := rfl

/-! ### closed instances -/

theorem one_mul_one :
    (⟨F64.one, F64.zero⟩ : TwoFloat) *. (⟨F64.one, F64.zero⟩ : TwoFloat) = ⟨F64.one, F64.zero⟩ := by
  decide +kernel

theorem pi_mul_two : consts.PI *. (f64lit 0x4000000000000000) = consts.TAU := by decide +kernel
theorem two_mul_pi : (f64lit 0x4000000000000000) *. consts.PI = consts.TAU := by decide +kernel

/-- (1 + 2^-30)² = 1 + 2^-29 + 2^-60 needs 61 bits: the product is exact in double-double -/
example :
    (⟨f64lit 0x3ff0000000400000, F64.zero⟩ : TwoFloat) *. (⟨f64lit 0x3ff0000000400000, F64.zero⟩ : TwoFloat)
      = ⟨f64lit 0x3ff0000000800000, f64lit 0x3c30000000000000⟩ := by
  decide +kernel

end C04
