/-
C16t — accuracy of `TwoFloat::sin` / `TwoFloat::cos` against `Real.sin` / `Real.cos` (Mathlib), end to end.

Notation: `val t : ℚ` is the exact value `hi + lo` of a pair (`PowiBound.val`), `rval t : ℝ` its cast.
All statements are for `x.Valid` (Definition 1.4: both words finite, `hi = RN(hi + lo)`) and `x.WF`.

MAIN RESULTS (section 7, 8)
* `sin_abs_bound`, `cos_abs_bound` : `|x| ≤ 2^20` ⇒ the result is a valid pair and
      `|rval (sin x) − Real.sin (rval x)| ≤ 2^-68`   (same for cos);   no further hypothesis.
  `C16_sin_abs`, `C16_cos_abs` : the property's form with `2^-66`.
* `sin_small_bound` : `|x| < FRAC_PI_4` ⇒ absolute error `≤ 19·2^-73` and relative error `≤ 7·2^-69 < 2^-66.19`.
  `cos_small_bound` : absolute `≤ 9·2^-77`.
  `C16_sin_rel` : `|x| ≤ π/4` (real π) ⇒ relative error `≤ 2^-64`.
  Nothing is left open for sin / cos on `|x| ≤ 2^20`.

INGREDIENTS
 0. the coefficient tables of `Lemmas/TrigBound.lean` are the model's `SIN_COEFFS` / `COS_COEFFS` (kernel).
 1.-3. rounding error of `restricted_sin` / `restricted_cos` against the exact rational polynomials
    (`restricted_sin_bound`: `≤ |x|·2^-96`, `restricted_cos_bound`: `≤ 2^-96`, for `2^-400 ≤ |x| ≤ 0.786`), by a
    generic Horner-loop lemma `hornerM_bound` over the operator bounds of C03b/C04b/PowiBound.
 4. combination with the approximation errors of `TrigBound` (`sin_poly_rel/abs`, `cos_poly_abs`).
 5. the argument reduction `reduction`: `q = round(x / FRAC_PI_2)` is an exactly stored integer `k`, `|k| ≤ 2^20`,
    and `r = x − q·FRAC_PI_2` satisfies `|r − (x − k·P)| ≤ 2^-82`, `|r| ≤ 0.786` (`P` the double-double π/2).
 6. `quadrant_large`: the quadrant returned is `k mod 4` (`q % 4.0` and `i8::try_from` evaluated exactly);
    `quadrant_spec`: `|r − (x − k·π/2)| ≤ 2^-81` with the real π (C12x: `FRAC_PI_2` is correctly rounded).
 6b. NEW operator lemma `tiny_mul` / `mul_any`: `TwoFloat * TwoFloat` in the underflow range (`|x.hi·y.hi| < 2^-960`,
    not covered by the operator library) still returns a VALID pair, of magnitude `≤ 2^-958`; hence for operands of
    magnitude `≤ 4`, in all ranges: relative error `7u²` plus absolute `2^-950`.
 6c. tiny arguments `|x| ≤ 2^-399` of `restricted_sin/cos` via `mul_any`.
 6d. `|x| ≤ 2^-540`: `x * x` underflows to an exact zero and `restricted_sin x = x` exactly (`restricted_sin_deep`).
-/
import TFV.Lemmas.TrigBound
import TFV.Lemmas.PowiBound
import TFV.Lemmas.PanicFree
import TFV.Properties.C03b
import TFV.Properties.C04b
import TFV.Properties.C07
import TFV.Properties.C16
import TFV.Properties.C06
import TFV.Properties.C12
import TFV.Properties.C09
import TFV.Lemmas.RemExact
import TFV.Properties.C01d
import TFV.Properties.C08
import TFV.Properties.C12x

set_option exponentiation.threshold 3000

namespace C16t

open F64 TwoFloat PowiBound TrigBound

/-! ## 0. the tables of `TrigBound` are the model's tables -/

theorem SIN_COEFFS_val : trigonometry.SIN_COEFFS.map val = sinCoeffs := by decide +kernel

theorem COS_COEFFS_val : trigonometry.COS_COEFFS.map val = cosCoeffs := by decide +kernel

theorem SIN_COEFFS_ok : ∀ c ∈ trigonometry.SIN_COEFFS, c.Valid ∧ c.WF := by decide +kernel

theorem COS_COEFFS_ok : ∀ c ∈ trigonometry.COS_COEFFS, c.Valid ∧ c.WF := by decide +kernel

/-! ## 1. rational forms of the additions -/

/-- `3u² + 13u³`, the proved relative error bound of one `TwoFloat + TwoFloat` -/
def cA : ℚ := (3 * 2 ^ 53 + 13) / 2 ^ 159

theorem cA_pos : 0 < cA := by unfold cA; positivity
theorem cA_le : cA ≤ 1 / 2 ^ 104 := by
  unfold cA
  rw [div_le_div_iff₀ (by positivity) (by positivity)]
  norm_num

/-- value of a double as a rational -/
def fval (f : F64) : ℚ := (f.toInt : ℚ) / 2 ^ 1074

theorem scaled_le {a b : Int} {N D : ℕ} (hD : 0 < D) (h : |a - b| * (D : Int) ≤ (N : Int) * |b|) :
    |(a : ℚ) / 2 ^ 1074 - (b : ℚ) / 2 ^ 1074| ≤ (N : ℚ) / (D : ℚ) * |(b : ℚ) / 2 ^ 1074| := by
  have hq : |(a : ℚ) - b| * (D : ℚ) ≤ (N : ℚ) * |(b : ℚ)| := by exact_mod_cast h
  have hU : (0 : ℚ) < 2 ^ 1074 := by positivity
  have hDq : (0 : ℚ) < (D : ℚ) := by exact_mod_cast hD
  rw [← sub_div, abs_div, abs_div, abs_of_pos hU, div_mul_div_comm, div_le_div_iff₀ hU (mul_pos hDq hU)]
  nlinarith [abs_nonneg ((a : ℚ) - b), abs_nonneg (b : ℚ)]

theorem hi_natAbs_lt {t : TwoFloat} (hv : t.Valid) (h : |val t| ≤ 2 ^ 30) : t.hi.toInt.natAbs < 2 ^ 2094 := by
  have h1 : |t.V| ≤ (2 : Int) ^ (1074 + 30) := int_upper h
  obtain ⟨b1, _⟩ := hi_bounds hv
  have h2 : |t.hi.toInt| < (2 : Int) ^ 2094 := by
    have e : (2 : Int) ^ 2094 = 2 ^ 990 * 2 ^ (1074 + 30) := by rw [← pow_add]
    have p : (0 : Int) < 2 ^ (1074 + 30) := by positivity
    rw [e]
    generalize (2 : Int) ^ (1074 + 30) = W at *
    have : (2 : Int) ^ 1010 ≥ 4 := by norm_num
    nlinarith [abs_nonneg t.hi.toInt]
  have h3 : ((t.hi.toInt.natAbs : Nat) : Int) < ((2 ^ 2094 : Nat) : Int) := by
    rw [Int.natCast_natAbs]; exact_mod_cast h2
  exact_mod_cast h3

theorem add_tt_val {x y : TwoFloat} (hvx : x.Valid) (hwx : x.WF) (hvy : y.Valid) (hwy : y.WF)
    (hx : |val x| ≤ 2 ^ 30) (hy : |val y| ≤ 2 ^ 30) :
    (arithmetic.impl_Add_rTwoFloat_for_rTwoFloat.add x y).Valid ∧
    (arithmetic.impl_Add_rTwoFloat_for_rTwoFloat.add x y).WF ∧
    |val (arithmetic.impl_Add_rTwoFloat_for_rTwoFloat.add x y) - (val x + val y)| ≤ cA * |val x + val y| := by
  obtain ⟨hV, hb⟩ := C03b.add_tt_bound hvx hwx hvy hwy (hi_natAbs_lt hvx hx) (hi_natAbs_lt hvy hy)
  refine ⟨hV, TwoFloat.add_tt_WF x y, ?_⟩
  have h := scaled_le (N := 3 * 2 ^ 53 + 13) (D := 2 ^ 159) (by positivity) (by exact_mod_cast hb)
  unfold val cA
  rw [← add_div]
  push_cast at h ⊢
  refine le_trans h (le_of_eq ?_)
  norm_num

theorem sub_tt_val {x y : TwoFloat} (hvx : x.Valid) (hwx : x.WF) (hvy : y.Valid) (hwy : y.WF)
    (hx : |val x| ≤ 2 ^ 30) (hy : |val y| ≤ 2 ^ 30) :
    (arithmetic.impl_Sub_rTwoFloat_for_rTwoFloat.sub x y).Valid ∧
    (arithmetic.impl_Sub_rTwoFloat_for_rTwoFloat.sub x y).WF ∧
    |val (arithmetic.impl_Sub_rTwoFloat_for_rTwoFloat.sub x y) - (val x - val y)| ≤ cA * |val x - val y| := by
  obtain ⟨hV, hb⟩ := C03b.sub_tt_bound hvx hwx hvy hwy (hi_natAbs_lt hvx hx) (hi_natAbs_lt hvy hy)
  refine ⟨hV, TwoFloat.sub_tt_WF x y, ?_⟩
  have h := scaled_le (N := 3 * 2 ^ 53 + 13) (D := 2 ^ 159) (by positivity) (by exact_mod_cast hb)
  unfold val cA
  rw [← sub_div]
  push_cast at h ⊢
  refine le_trans h (le_of_eq ?_)
  norm_num

theorem add_tf_val {x : TwoFloat} {f : F64} (hvx : x.Valid) (hwx : x.WF) (hff : f.is_finite = true) (hwf : f.WF)
    (hx : |val x| ≤ 2 ^ 30) (hf : f.toInt.natAbs < 2 ^ 2095) :
    (arithmetic.impl_Add_rf64_for_rTwoFloat.add x f).Valid ∧
    (arithmetic.impl_Add_rf64_for_rTwoFloat.add x f).WF ∧
    |val (arithmetic.impl_Add_rf64_for_rTwoFloat.add x f) - (val x + fval f)| ≤ 1 / 2 ^ 105 * |val x + fval f| := by
  have hxh : x.hi.toInt.natAbs < 2 ^ 2095 :=
    lt_trans (hi_natAbs_lt hvx hx) (Nat.pow_lt_pow_right (by norm_num) (by norm_num))
  obtain ⟨hV, hb⟩ := C03b.add_tf_f64_bound hvx hwx hff hwf hxh hf
  refine ⟨hV, TwoFloat.add_tf_WF x f, ?_⟩
  have h := scaled_le (N := 1) (D := 2 ^ 105) (by positivity) (by simpa using hb)
  unfold val fval
  rw [← add_div]
  push_cast at h ⊢
  exact h

/-! ## 2. the Horner evaluation `polynomial!(x2, table)` -/

/-- the model's Horner scheme: `polyFold table (fun a n => x2 * a + n)` -/
def hornerM (x2 : TwoFloat) : List TwoFloat → TwoFloat
  | [] => default
  | [c] => c
  | c :: d :: cs =>
    arithmetic.impl_Add_rTwoFloat_for_TwoFloat.add
      (arithmetic.impl_Mul_TwoFloat_for_TwoFloat.mul x2 (hornerM x2 (d :: cs))) c

theorem polyFold_sin (x2 : TwoFloat) :
    polyFold trigonometry.SIN_COEFFS (fun a n => arithmetic.impl_Add_rTwoFloat_for_TwoFloat.add
      (arithmetic.impl_Mul_TwoFloat_for_TwoFloat.mul x2 a) n) = hornerM x2 trigonometry.SIN_COEFFS := rfl

theorem polyFold_cos (x2 : TwoFloat) :
    polyFold trigonometry.COS_COEFFS (fun a n => arithmetic.impl_Add_rTwoFloat_for_TwoFloat.add
      (arithmetic.impl_Mul_TwoFloat_for_TwoFloat.mul x2 a) n) = hornerM x2 trigonometry.COS_COEFFS := rfl

/-- upper bound of `|p(t)|` on `[0, T]` -/
def hU (T : ℚ) : List ℚ → ℚ
  | [] => 0
  | c :: cs => |c| + T * hU T cs

/-- lower bound of `|p(t)|` on `[0, T]` (useful when the constant term dominates) -/
def hL (T : ℚ) : List ℚ → ℚ
  | [] => 0
  | c :: cs => |c| - T * hU T cs

/-- every tail of the coefficient list is dominated by its constant term: `2^-60 ≤ |tail(t)| ≤ 1` on `[0, T]` -/
def hOK (T : ℚ) : List ℚ → Bool
  | [] => true
  | c :: cs => decide (1 / 2 ^ 60 ≤ hL T (c :: cs)) && decide (hU T (c :: cs) ≤ 1) && hOK T cs

theorem hU_nonneg {T : ℚ} (hT : 0 ≤ T) (p : List ℚ) : 0 ≤ hU T p := by
  induction p with
  | nil => exact le_refl _
  | cons c p ih => show 0 ≤ |c| + T * hU T p; positivity

theorem pevalQ_le_hU {T t : ℚ} (ht0 : 0 ≤ t) (htT : t ≤ T) (p : List ℚ) : |pevalQ p t| ≤ hU T p := by
  induction p with
  | nil => simp [hU]
  | cons c p ih =>
    show |c + t * pevalQ p t| ≤ |c| + T * hU T p
    refine le_trans (abs_add_le _ _) ?_
    rw [abs_mul, abs_of_nonneg ht0]
    have := mul_le_mul htT ih (abs_nonneg _) (le_trans ht0 htT)
    linarith

theorem hL_le_pevalQ {T t : ℚ} (ht0 : 0 ≤ t) (htT : t ≤ T) (p : List ℚ) : hL T p ≤ |pevalQ p t| := by
  cases p with
  | nil => simp [hL]
  | cons c p =>
    show |c| - T * hU T p ≤ |c + t * pevalQ p t|
    have h1 := pevalQ_le_hU ht0 htT p
    have h2 : |t * pevalQ p t| ≤ T * hU T p := by
      rw [abs_mul, abs_of_nonneg ht0]
      exact mul_le_mul htT h1 (abs_nonneg _) (le_trans ht0 htT)
    have h3 : |c| ≤ |c + t * pevalQ p t| + |t * pevalQ p t| := by
      have := abs_add_le (c + t * pevalQ p t) (-(t * pevalQ p t))
      rw [abs_neg] at this
      have e : c + t * pevalQ p t + -(t * pevalQ p t) = c := by ring
      rwa [e] at this
    linarith

/-- pure arithmetic of one Horner step -/
theorem step_arith {τ t va A vm γ vs E : ℚ}
    (h1 : |τ - t| ≤ cK * t) (ht0 : 0 ≤ t) (ht1 : t ≤ 1) (h2 : |va - A| ≤ E) (hE : E ≤ 1 / 2 ^ 80)
    (hA : |A| ≤ 1) (h3 : |vm - τ * va| ≤ cK * |τ * va|) (hγ : |γ| ≤ 1)
    (h4 : |vs - (vm + γ)| ≤ cA * |vm + γ|) :
    |vs - (γ + t * A)| ≤ E + 1 / 2 ^ 99 ∧ |vm| ≤ 5 := by
  have k0 := cK_pos
  have k1 := cK_le
  have a0 := cA_pos
  have a1 := cA_le
  have hτ : |τ| ≤ 2 := by
    have := abs_add_le (τ - t) t
    rw [sub_add_cancel, abs_of_nonneg ht0] at this
    nlinarith
  have hva : |va| ≤ 2 := by
    have := abs_add_le (va - A) A
    rw [sub_add_cancel] at this
    have : (1 : ℚ) / 2 ^ 80 ≤ 1 := by norm_num
    linarith
  have hp : |τ * va| ≤ 4 := by
    rw [abs_mul]
    have := mul_le_mul hτ hva (abs_nonneg _) (by norm_num)
    linarith
  have hm : |vm - τ * va| ≤ 4 * cK := by nlinarith
  have hvm : |vm| ≤ 5 := by
    have := abs_add_le (vm - τ * va) (τ * va)
    rw [sub_add_cancel] at this
    have : 4 * cK ≤ 1 := by linarith [show (1 : ℚ) / 2 ^ 103 ≤ 1 / 4 by norm_num]
    linarith
  have hs : |vs - (vm + γ)| ≤ 6 * cA := by
    have := abs_add_le vm γ
    have h6 : |vm + γ| ≤ 6 := by linarith
    nlinarith
  have hd : |τ * va - t * A| ≤ 2 * cK + E := by
    have e : τ * va - t * A = (τ - t) * va + t * (va - A) := by ring
    rw [e]
    refine le_trans (abs_add_le _ _) ?_
    rw [abs_mul, abs_mul, abs_of_nonneg ht0]
    have p1 : |τ - t| * |va| ≤ cK * t * 2 := mul_le_mul h1 hva (abs_nonneg _) (by positivity)
    have p2 : t * |va - A| ≤ 1 * E := mul_le_mul ht1 h2 (abs_nonneg _) (by norm_num)
    nlinarith
  refine ⟨?_, hvm⟩
  have e : vs - (γ + t * A) = (vs - (vm + γ)) + (vm - τ * va) + (τ * va - t * A) := by ring
  rw [e]
  refine le_trans (abs_add_le _ _) ?_
  refine le_trans (add_le_add_left (abs_add_le _ _) _) ?_
  have : 6 * cA + 4 * cK + 2 * cK ≤ 1 / 2 ^ 99 := by
    have e1 : (1 : ℚ) / 2 ^ 99 = 16 * (1 / 2 ^ 103) := by norm_num
    have e2 : (1 : ℚ) / 2 ^ 104 = 1 / 2 * (1 / 2 ^ 103) := by norm_num
    rw [e1]; rw [e2] at a1
    linarith
  linarith

/-- `x2 * a` for an accumulator `a ≈ A` with `2^-60 ≤ |A| ≤ 1`, followed by any addition of a constant `|γ| ≤ 1`
with relative error `≤ cA` -/
theorem mul_step {x2 a : TwoFloat} (hv2 : x2.Valid) (hw2 : x2.WF) {t : ℚ}
    (ht : |val x2 - t| ≤ cK * t) (ht0 : 1 / 2 ^ 810 ≤ t) (ht1 : t ≤ 1)
    (hva : a.Valid) (hwa : a.WF) {A E : ℚ} (hea : |val a - A| ≤ E) (hE : E ≤ 1 / 2 ^ 80)
    (hAl : 1 / 2 ^ 60 ≤ |A|) (hAu : |A| ≤ 1) :
    (arithmetic.impl_Mul_rTwoFloat_for_rTwoFloat.mul x2 a).Valid ∧
    (arithmetic.impl_Mul_rTwoFloat_for_rTwoFloat.mul x2 a).WF ∧
    |val (arithmetic.impl_Mul_rTwoFloat_for_rTwoFloat.mul x2 a)| ≤ 5 ∧
    ∀ γ vs : ℚ, |γ| ≤ 1 →
      |vs - (val (arithmetic.impl_Mul_rTwoFloat_for_rTwoFloat.mul x2 a) + γ)|
        ≤ cA * |val (arithmetic.impl_Mul_rTwoFloat_for_rTwoFloat.mul x2 a) + γ| →
      |vs - (γ + t * A)| ≤ E + 1 / 2 ^ 99 := by
  have k0 := cK_pos
  have k1 := cK_le
  have tpos : (0 : ℚ) < t := lt_of_lt_of_le (by positivity) ht0
  have hτ811 : 1 / 2 ^ 811 ≤ |val x2| := by
    have h1 : t - cK * t ≤ val x2 := by have := (abs_le.1 ht).1; linarith
    have h2 : (1 : ℚ) / 2 ^ 811 ≤ t - cK * t := by
      have : cK * t ≤ 1 / 2 * t := by nlinarith [show (1 : ℚ) / 2 ^ 103 ≤ 1 / 2 by norm_num]
      have e : (1 : ℚ) / 2 ^ 811 = 1 / 2 * (1 / 2 ^ 810) := by norm_num
      rw [e]; linarith
    exact le_trans (le_trans h2 h1) (le_abs_self _)
  have hτl : 1 / 2 ^ 1000 ≤ |val x2| := by
    have h3 : (1 : ℚ) / 2 ^ 1000 ≤ 1 / 2 ^ 811 := by
      rw [div_le_div_iff₀ (by positivity) (by positivity), one_mul, one_mul]
      exact pow_le_pow_right₀ (by norm_num) (by norm_num)
    exact le_trans h3 hτ811
  have hal : 1 / 2 ^ 61 ≤ |val a| := by
    have := abs_add_le (val a - A) (-(val a))
    have e : val a - A + -(val a) = -A := by ring
    rw [e, abs_neg, abs_neg] at this
    have e2 : (1 : ℚ) / 2 ^ 61 = 1 / 2 ^ 60 - 1 / 2 ^ 61 := by norm_num
    have : (1 : ℚ) / 2 ^ 80 ≤ 1 / 2 ^ 61 := by norm_num
    linarith
  have hal' : 1 / 2 ^ 1000 ≤ |val a| := le_trans (by norm_num) hal
  have hτu : |val x2| ≤ 2 := by
    have := abs_add_le (val x2 - t) t
    rw [sub_add_cancel, abs_of_pos tpos] at this
    nlinarith
  have hau : |val a| ≤ 2 := by
    have := abs_add_le (val a - A) A
    rw [sub_add_cancel] at this
    have : (1 : ℚ) / 2 ^ 80 ≤ 1 := by norm_num
    linarith
  have hplo : 3 / 2 ^ 902 ≤ |val x2 * val a| := by
    rw [abs_mul]
    have := mul_le_mul hτ811 hal (by positivity) (abs_nonneg _)
    refine le_trans ?_ this
    norm_num
  have hphi : |val x2 * val a| ≤ 2 ^ 1000 := by
    rw [abs_mul]
    have := mul_le_mul hτu hau (abs_nonneg _) (by norm_num)
    refine le_trans this ?_
    norm_num
  obtain ⟨hvm, hwm, hem⟩ := val_mul_bound hv2 hw2 hva hwa hτl hal' hplo hphi
  have hstep : ∀ γ vs : ℚ, |γ| ≤ 1 →
      |vs - (val (arithmetic.impl_Mul_rTwoFloat_for_rTwoFloat.mul x2 a) + γ)|
        ≤ cA * |val (arithmetic.impl_Mul_rTwoFloat_for_rTwoFloat.mul x2 a) + γ| →
      |vs - (γ + t * A)| ≤ E + 1 / 2 ^ 99 ∧ |val (arithmetic.impl_Mul_rTwoFloat_for_rTwoFloat.mul x2 a)| ≤ 5 :=
    fun γ vs hγ h4 => step_arith ht tpos.le ht1 hea hE hAu hem hγ h4
  refine ⟨hvm, hwm, ?_, fun γ vs hγ h4 => (hstep γ vs hγ h4).1⟩
  refine (hstep 0 (val (arithmetic.impl_Mul_rTwoFloat_for_rTwoFloat.mul x2 a) + 0) (by simp) ?_).2
  rw [sub_self, abs_zero]; exact mul_nonneg cA_pos.le (abs_nonneg _)

/-- what `hOK` says about a nonempty list -/
theorem hOK_bounds {T t : ℚ} (ht0 : 0 ≤ t) (htT : t ≤ T) {c : ℚ} {cs : List ℚ} (h : hOK T (c :: cs) = true) :
    1 / 2 ^ 60 ≤ |pevalQ (c :: cs) t| ∧ |pevalQ (c :: cs) t| ≤ 1 ∧ |c| ≤ 1 ∧ hOK T cs = true := by
  simp only [hOK, Bool.and_eq_true, decide_eq_true_eq] at h
  obtain ⟨⟨hLd, hUd⟩, h'⟩ := h
  refine ⟨le_trans hLd (hL_le_pevalQ ht0 htT _), le_trans (pevalQ_le_hU ht0 htT _) hUd, ?_, h'⟩
  have h1 : hU T (c :: cs) = |c| + T * hU T cs := rfl
  have h2 := hU_nonneg (le_trans ht0 htT) cs
  have h3 : 0 ≤ T * hU T cs := mul_nonneg (le_trans ht0 htT) h2
  linarith

/-- **the Horner loop**: for a table whose tails are dominated by their constant terms on `[0, T]`, the computed
value is within `(len − 1)·2^-99` of the exact rational Horner value at `t`, where `x2` approximates `t`
with the relative error of one multiplication -/
theorem hornerM_bound {x2 : TwoFloat} (hv2 : x2.Valid) (hw2 : x2.WF) {t T : ℚ}
    (ht : |val x2 - t| ≤ cK * t) (ht0 : 1 / 2 ^ 810 ≤ t) (htT : t ≤ T) (hT : T ≤ 1) :
    ∀ cs : List TwoFloat, cs ≠ [] → cs.length ≤ 1024 → (∀ c ∈ cs, c.Valid ∧ c.WF) → hOK T (cs.map val) = true →
      (hornerM x2 cs).Valid ∧ (hornerM x2 cs).WF ∧
      |val (hornerM x2 cs) - pevalQ (cs.map val) t| ≤ ((cs.length - 1 : ℕ) : ℚ) / 2 ^ 99 := by
  have tpos : (0 : ℚ) < t := lt_of_lt_of_le (by positivity) ht0
  intro cs
  induction cs with
  | nil => intro h; exact absurd rfl h
  | cons c cs ih =>
    intro _ hlen hall hok
    cases cs with
    | nil =>
      have hc := hall c (List.mem_cons_self ..)
      refine ⟨hc.1, hc.2, ?_⟩
      simp [hornerM]
    | cons d cs =>
      have hc := hall c (List.mem_cons_self ..)
      have hlen' : (d :: cs).length ≤ 1024 := by simp only [List.length_cons] at hlen ⊢; omega
      have hall' : ∀ c' ∈ d :: cs, c'.Valid ∧ c'.WF := fun c' h' => hall c' (List.mem_cons_of_mem _ h')
      have hok1 : hOK T (val c :: (d :: cs).map val) = true := hok
      obtain ⟨_, _, hγ, hok'⟩ := hOK_bounds tpos.le htT hok1
      obtain ⟨hva, hwa, hea⟩ := ih (by simp) hlen' hall' hok'
      have hok2 : hOK T (val d :: cs.map val) = true := hok'
      obtain ⟨hAl, hAu, _, _⟩ := hOK_bounds tpos.le htT hok2
      have hE : (((d :: cs).length - 1 : ℕ) : ℚ) / 2 ^ 99 ≤ 1 / 2 ^ 80 := by
        have h1 : (((d :: cs).length - 1 : ℕ) : ℚ) ≤ 1024 := by
          have : (d :: cs).length - 1 ≤ 1024 := by omega
          exact_mod_cast this
        rw [div_le_div_iff₀ (by positivity) (by positivity)]
        have : (1024 : ℚ) * 2 ^ 80 ≤ 1 * 2 ^ 99 := by norm_num
        nlinarith
      obtain ⟨hvm, hwm, hm5, hstep⟩ := mul_step hv2 hw2 ht ht0 (le_trans htT hT) hva hwa hea hE hAl hAu
      obtain ⟨hvs, hws, hes⟩ := add_tt_val hvm hwm hc.1 hc.2 (le_trans hm5 (by norm_num))
        (le_trans hγ (by norm_num))
      refine ⟨hvs, hws, ?_⟩
      have hfin := hstep _ _ hγ hes
      have e1 : pevalQ ((c :: d :: cs).map val) t = val c + t * pevalQ ((d :: cs).map val) t := rfl
      have e2 : ((((c :: d :: cs).length - 1 : ℕ)) : ℚ) / 2 ^ 99
          = (((d :: cs).length - 1 : ℕ) : ℚ) / 2 ^ 99 + 1 / 2 ^ 99 := by
        simp only [List.length_cons, Nat.add_sub_cancel]
        push_cast
        ring
      rw [e1, e2]
      exact hfin

/-! ## 3. `restricted_sin`, `restricted_cos`: rounding error against the exact rational polynomials -/

theorem addf_step {m : TwoFloat} {f : F64} (hvm : m.Valid) (hwm : m.WF) (hm5 : |val m| ≤ 5)
    (hff : f.is_finite = true) (hwf : f.WF) (hf1 : |fval f| ≤ 1) :
    (arithmetic.impl_Add_rf64_for_rTwoFloat.add m f).Valid ∧
    (arithmetic.impl_Add_rf64_for_rTwoFloat.add m f).WF ∧
    |val (arithmetic.impl_Add_rf64_for_rTwoFloat.add m f) - (val m + fval f)| ≤ cA * |val m + fval f| := by
  have hf : f.toInt.natAbs < 2 ^ 2095 := by
    unfold fval at hf1
    rw [abs_div, abs_of_pos (by positivity : (0 : ℚ) < 2 ^ 1074), div_le_iff₀ (by positivity), one_mul] at hf1
    have h1 : |f.toInt| ≤ (2 : Int) ^ 1074 := by exact_mod_cast hf1
    have h2 : |f.toInt| < (2 : Int) ^ 2095 :=
      lt_of_le_of_lt h1 (pow_lt_pow_right₀ (by norm_num) (by norm_num))
    have h3 : ((f.toInt.natAbs : Nat) : Int) < ((2 ^ 2095 : Nat) : Int) := by
      rw [Int.natCast_natAbs]; exact_mod_cast h2
    exact_mod_cast h3
  obtain ⟨h1, h2, h3⟩ := add_tf_val hvm hwm hff hwf (le_trans hm5 (by norm_num)) hf
  refine ⟨h1, h2, le_trans h3 (mul_le_mul_of_nonneg_right ?_ (abs_nonneg _))⟩
  unfold cA
  rw [div_le_div_iff₀ (by positivity) (by positivity)]
  norm_num

theorem lit_one_facts : (f64lit 0x3ff0000000000000).is_finite = true ∧ (f64lit 0x3ff0000000000000).WF ∧
    (f64lit 0x3ff0000000000000).toInt = 2 ^ 1074 := by decide +kernel

theorem lit_neg_half_facts : (F64.neg (f64lit 0x3fe0000000000000)).is_finite = true ∧
    (F64.neg (f64lit 0x3fe0000000000000)).WF ∧ (F64.neg (f64lit 0x3fe0000000000000)).toInt = -2 ^ 1073 := by
  decide +kernel

theorem fval_one : fval (f64lit 0x3ff0000000000000) = 1 := by
  unfold fval; rw [lit_one_facts.2.2]; norm_num

theorem fval_neg_half : fval (F64.neg (f64lit 0x3fe0000000000000)) = -(1 / 2) := by
  unfold fval; rw [lit_neg_half_facts.2.2]
  rw [Int.cast_neg, Int.cast_pow, Int.cast_ofNat, pow_succ (2 : ℚ) 1073, neg_div, div_mul_eq_div_div,
    div_self (by positivity)]

/-- the squared interval end `0.786²` -/
def TT : ℚ := (393 / 500) ^ 2

theorem sin_hOK : hOK TT sinCoeffs = true := by decide +kernel
theorem sin_hU : hU TT sinCoeffs ≤ 1 / 2 := by decide +kernel
/-- the cosine table extended by the `-1/2` term -/
theorem cos_hOK : hOK TT (-(1 / 2) :: cosCoeffs) = true := by decide +kernel

/-- `x * x` for `2^-400 ≤ |x| ≤ 1` -/
theorem sq_step {x : TwoFloat} (hv : x.Valid) (hw : x.WF) (hlo : 1 / 2 ^ 400 ≤ |val x|) (hhi : |val x| ≤ 1) :
    (arithmetic.impl_Mul_rTwoFloat_for_rTwoFloat.mul x x).Valid ∧
    (arithmetic.impl_Mul_rTwoFloat_for_rTwoFloat.mul x x).WF ∧
    |val (arithmetic.impl_Mul_rTwoFloat_for_rTwoFloat.mul x x) - val x ^ 2| ≤ cK * val x ^ 2 ∧
    1 / 2 ^ 810 ≤ val x ^ 2 := by
  have h1 : (1 : ℚ) / 2 ^ 800 ≤ |val x| * |val x| := by
    have := mul_le_mul hlo hlo (by positivity) (abs_nonneg _)
    refine le_trans (le_of_eq ?_) this
    rw [div_mul_div_comm, one_mul, ← pow_add]
  have h2 : |val x| * |val x| ≤ 1 := by
    have := mul_le_mul hhi hhi (abs_nonneg _) (by norm_num)
    linarith
  have e : |val x * val x| = |val x| * |val x| := abs_mul _ _
  have e2 : val x ^ 2 = |val x| * |val x| := by rw [← abs_mul, ← sq, abs_sq]
  obtain ⟨a, b, c⟩ := val_mul_bound hv hw hv hw (le_trans (by norm_num) hlo) (le_trans (by norm_num) hlo)
    (by rw [e]; exact le_trans (by norm_num) h1) (by rw [e]; exact le_trans h2 (by norm_num))
  refine ⟨a, b, ?_, ?_⟩
  · rw [e] at c; rw [e2]; rw [← e2, sq]; rw [← e2, sq] at c; exact c
  · rw [e2]; exact le_trans (by norm_num) h1

theorem TT_le_one : TT ≤ 1 := by unfold TT; norm_num

theorem sq_le_TT {v : ℚ} (h : |v| ≤ 393 / 500) : v ^ 2 ≤ TT := by
  unfold TT
  rw [← abs_sq, abs_pow]
  exact pow_le_pow_left₀ (abs_nonneg _) h 2

/-- **rounding error of `restricted_sin`**, relative to `|x|`: `2^-96`, for `2^-400 ≤ |x| ≤ 0.786` -/
theorem restricted_sin_bound {x : TwoFloat} (hv : x.Valid) (hw : x.WF)
    (hlo : 1 / 2 ^ 400 ≤ |val x|) (hhi : |val x| ≤ 393 / 500) :
    (trigonometry.restricted_sin x).Valid ∧
    |val (trigonometry.restricted_sin x) - sinPolyQ (val x)| ≤ |val x| / 2 ^ 96 := by
  have k0 := cK_pos
  have k1 := cK_le
  obtain ⟨hv2, hw2, ht, ht0⟩ := sq_step hv hw hlo (le_trans hhi (by norm_num))
  have htT := sq_le_TT hhi
  have ht1 : val x ^ 2 ≤ 1 := le_trans htT TT_le_one
  have tnn : 0 ≤ val x ^ 2 := sq_nonneg _
  set x2 := arithmetic.impl_Mul_rTwoFloat_for_rTwoFloat.mul x x with hx2
  set t := val x ^ 2 with htdef
  obtain ⟨hvP, hwP, heP⟩ := hornerM_bound hv2 hw2 ht ht0 htT TT_le_one trigonometry.SIN_COEFFS
    (by decide) (by decide) SIN_COEFFS_ok (by rw [SIN_COEFFS_val]; exact sin_hOK)
  rw [SIN_COEFFS_val] at heP
  have hlen : ((trigonometry.SIN_COEFFS.length - 1 : ℕ) : ℚ) / 2 ^ 99 = 6 / 2 ^ 99 := by
    have : trigonometry.SIN_COEFFS.length - 1 = 6 := by decide
    rw [this]; norm_num
  rw [hlen] at heP
  obtain ⟨hAl, hAu, _, _⟩ := hOK_bounds tnn htT sin_hOK
  have hA2 : |pevalQ sinCoeffs t| ≤ 1 / 2 := le_trans (pevalQ_le_hU tnn htT _) sin_hU
  set Pq := pevalQ sinCoeffs t with hPq
  set P := hornerM x2 trigonometry.SIN_COEFFS with hP
  obtain ⟨hvm, hwm, hm5, hstep⟩ := mul_step hv2 hw2 ht ht0 ht1 hvP hwP heP (by norm_num) hAl hAu
  obtain ⟨hvy, hwy, hey⟩ := addf_step hvm hwm hm5 lit_one_facts.1 lit_one_facts.2.1
    (by rw [fval_one]; norm_num)
  have hY := hstep _ _ (by rw [fval_one]; norm_num) hey
  rw [fval_one] at hY
  set y := arithmetic.impl_Add_rf64_for_rTwoFloat.add (arithmetic.impl_Mul_rTwoFloat_for_rTwoFloat.mul x2 P)
    (f64lit 0x3ff0000000000000) with hy
  have hres : trigonometry.restricted_sin x = arithmetic.impl_Mul_rTwoFloat_for_rTwoFloat.mul x y := rfl
  rw [hres]
  -- Y = 1 + t·Pq ∈ [1/2, 3/2]
  have htP : |t * Pq| ≤ 1 / 2 := by
    rw [abs_mul, abs_of_nonneg tnn]
    have := mul_le_mul ht1 hA2 (abs_nonneg _) (by norm_num)
    linarith
  have hYl : 1 / 2 ≤ 1 + t * Pq := by have := (abs_le.1 htP).1; linarith
  have hYu : 1 + t * Pq ≤ 3 / 2 := by have := (abs_le.1 htP).2; linarith
  have hyy := abs_le.1 hY
  have hyl : 1 / 4 ≤ val y := by
    have : (6 : ℚ) / 2 ^ 99 + 1 / 2 ^ 99 ≤ 1 / 4 := by norm_num
    linarith
  have hyu : val y ≤ 2 := by
    have : (6 : ℚ) / 2 ^ 99 + 1 / 2 ^ 99 ≤ 1 / 4 := by norm_num
    linarith
  have hyabs : |val y| = val y := abs_of_nonneg (by linarith)
  have hxpos : 0 ≤ |val x| := abs_nonneg _
  obtain ⟨hvr, _, her⟩ := val_mul_bound hv hw hvy hwy (le_trans (by norm_num) hlo)
    (by rw [hyabs]; exact le_trans (by norm_num) hyl)
    (by
      rw [abs_mul, hyabs]
      have := mul_le_mul hlo hyl (by norm_num) hxpos
      refine le_trans ?_ this
      rw [div_mul_div_comm, div_le_div_iff₀ (by positivity) (by positivity)]
      norm_num)
    (by
      rw [abs_mul, hyabs]
      have := mul_le_mul hhi hyu (by linarith) (by norm_num)
      exact le_trans this (by norm_num))
  refine ⟨hvr, ?_⟩
  have e : sinPolyQ (val x) = val x * (1 + t * Pq) := by unfold sinPolyQ; rw [hPq, htdef]; ring
  rw [e]
  have e2 : val (arithmetic.impl_Mul_rTwoFloat_for_rTwoFloat.mul x y) - val x * (1 + t * Pq)
      = (val (arithmetic.impl_Mul_rTwoFloat_for_rTwoFloat.mul x y) - val x * val y)
        + val x * (val y - (1 + t * Pq)) := by ring
  rw [e2]
  refine le_trans (abs_add_le _ _) ?_
  rw [abs_mul, hyabs] at her
  rw [abs_mul]
  have h1 : cK * (|val x| * val y) ≤ |val x| * (2 * cK) := by
    have : |val x| * val y ≤ |val x| * 2 := mul_le_mul_of_nonneg_left hyu hxpos
    nlinarith
  have h2 : |val x| * |val y - (1 + t * Pq)| ≤ |val x| * (6 / 2 ^ 99 + 1 / 2 ^ 99) :=
    mul_le_mul_of_nonneg_left hY hxpos
  have h3 : |val x| * (2 * cK) + |val x| * (6 / 2 ^ 99 + 1 / 2 ^ 99) ≤ |val x| / 2 ^ 96 := by
    have : 2 * cK + (6 / 2 ^ 99 + 1 / 2 ^ 99) ≤ 1 / 2 ^ 96 := by
      have e1 : (1 : ℚ) / 2 ^ 96 = 6 / 2 ^ 99 + 1 / 2 ^ 99 + 16 * (1 / 2 ^ 103) := by norm_num
      rw [e1]; linarith
    have := mul_le_mul_of_nonneg_left this hxpos
    rw [div_eq_mul_one_div]
    linarith
  linarith

/-- **rounding error of `restricted_cos`**, absolute: `2^-96`, for `2^-400 ≤ |x| ≤ 0.786` -/
theorem restricted_cos_bound {x : TwoFloat} (hv : x.Valid) (hw : x.WF)
    (hlo : 1 / 2 ^ 400 ≤ |val x|) (hhi : |val x| ≤ 393 / 500) :
    (trigonometry.restricted_cos x).Valid ∧
    |val (trigonometry.restricted_cos x) - cosPolyQ (val x)| ≤ 1 / 2 ^ 96 := by
  obtain ⟨hv2, hw2, ht, ht0⟩ := sq_step hv hw hlo (le_trans hhi (by norm_num))
  have htT := sq_le_TT hhi
  have ht1 : val x ^ 2 ≤ 1 := le_trans htT TT_le_one
  have tnn : 0 ≤ val x ^ 2 := sq_nonneg _
  set x2 := arithmetic.impl_Mul_rTwoFloat_for_rTwoFloat.mul x x with hx2
  set t := val x ^ 2 with htdef
  obtain ⟨hB1l, hB1u, _, hokc⟩ := hOK_bounds tnn htT cos_hOK
  obtain ⟨hvP, hwP, heP⟩ := hornerM_bound hv2 hw2 ht ht0 htT TT_le_one trigonometry.COS_COEFFS
    (by decide) (by decide) COS_COEFFS_ok (by rw [COS_COEFFS_val]; exact hokc)
  rw [COS_COEFFS_val] at heP
  have hlen : ((trigonometry.COS_COEFFS.length - 1 : ℕ) : ℚ) / 2 ^ 99 = 6 / 2 ^ 99 := by
    have : trigonometry.COS_COEFFS.length - 1 = 6 := by decide
    rw [this]; norm_num
  rw [hlen] at heP
  obtain ⟨hAl, hAu, _, _⟩ := hOK_bounds tnn htT hokc
  set Pq := pevalQ cosCoeffs t with hPq
  set P := hornerM x2 trigonometry.COS_COEFFS with hP
  -- x2 * P + (-0.5)
  obtain ⟨hvm, hwm, hm5, hstep⟩ := mul_step hv2 hw2 ht ht0 ht1 hvP hwP heP (by norm_num) hAl hAu
  obtain ⟨hvy, hwy, hey⟩ := addf_step hvm hwm hm5 lit_neg_half_facts.1 lit_neg_half_facts.2.1
    (by rw [fval_neg_half]; norm_num)
  have hY := hstep _ _ (by rw [fval_neg_half]; norm_num) hey
  rw [fval_neg_half] at hY
  set y := arithmetic.impl_Add_rf64_for_rTwoFloat.add (arithmetic.impl_Mul_rTwoFloat_for_rTwoFloat.mul x2 P)
    (F64.neg (f64lit 0x3fe0000000000000)) with hy
  have eB : pevalQ (-(1 / 2) :: cosCoeffs) t = -(1 / 2) + t * Pq := rfl
  rw [eB] at hB1l hB1u
  -- x2 * y + 1.0
  obtain ⟨hvm2, hwm2, hm52, hstep2⟩ := mul_step hv2 hw2 ht ht0 ht1 hvy hwy hY (by norm_num) hB1l hB1u
  obtain ⟨hvr, _, her⟩ := addf_step hvm2 hwm2 hm52 lit_one_facts.1 lit_one_facts.2.1
    (by rw [fval_one]; norm_num)
  have hR := hstep2 _ _ (by rw [fval_one]; norm_num) her
  rw [fval_one] at hR
  have hres : trigonometry.restricted_cos x
      = arithmetic.impl_Add_rf64_for_rTwoFloat.add (arithmetic.impl_Mul_rTwoFloat_for_rTwoFloat.mul x2 y)
          (f64lit 0x3ff0000000000000) := rfl
  rw [hres]
  refine ⟨hvr, ?_⟩
  have e : cosPolyQ (val x) = 1 + t * (-(1 / 2) + t * Pq) := by unfold cosPolyQ; rw [hPq, htdef]; ring
  rw [e]
  refine le_trans hR (le_of_eq ?_)
  norm_num

/-! ## 4. against `Real.sin` / `Real.cos` -/

/-- the exact value `hi + lo` as a real number -/
noncomputable def rval (t : TwoFloat) : ℝ := ((val t : ℚ) : ℝ)

theorem abs_rval (t : TwoFloat) : |rval t| = ((|val t| : ℚ) : ℝ) := by unfold rval; rw [Rat.cast_abs]

theorem rval_le {t : TwoFloat} {b : ℚ} (h : |val t| ≤ b) : |rval t| ≤ (b : ℝ) := by
  rw [abs_rval]; exact_mod_cast h

/-- **`restricted_sin` against `Real.sin`**: error `≤ |r|·(11·2^-70 + 2^-96)` and `≤ 19·2^-73`,
for `2^-400 ≤ |r| ≤ 0.786` -/
theorem restricted_sin_real {x : TwoFloat} (hv : x.Valid) (hw : x.WF)
    (hlo : 1 / 2 ^ 400 ≤ |val x|) (hhi : |val x| ≤ 393 / 500) :
    (trigonometry.restricted_sin x).Valid ∧
    |rval (trigonometry.restricted_sin x) - Real.sin (rval x)| ≤ |rval x| * (11 / 2 ^ 70 + 1 / 2 ^ 96) ∧
    |rval (trigonometry.restricted_sin x) - Real.sin (rval x)| ≤ 19 / 2 ^ 73 := by
  obtain ⟨hV, hb⟩ := restricted_sin_bound hv hw hlo hhi
  have hr : |rval x| ≤ 393 / 500 := by have := rval_le hhi; push_cast at this; exact this
  have hb' : |rval (trigonometry.restricted_sin x) - SinPoly (rval x)| ≤ |rval x| / 2 ^ 96 := by
    have := (Rat.cast_le (K := ℝ)).2 hb
    rw [Rat.cast_abs, Rat.cast_sub, sinPolyQ_cast] at this
    rw [abs_rval]
    push_cast at this ⊢
    exact this
  have e : rval (trigonometry.restricted_sin x) - Real.sin (rval x)
      = (rval (trigonometry.restricted_sin x) - SinPoly (rval x)) - (Real.sin (rval x) - SinPoly (rval x)) := by
    ring
  have t1 : |rval (trigonometry.restricted_sin x) - Real.sin (rval x)|
      ≤ |rval (trigonometry.restricted_sin x) - SinPoly (rval x)| + |Real.sin (rval x) - SinPoly (rval x)| := by
    rw [e]; exact abs_sub _ _
  refine ⟨hV, ?_, ?_⟩
  · have := sin_poly_rel hr
    have e2 : |rval x| * (11 / 2 ^ 70 + 1 / 2 ^ 96) = |rval x| / 2 ^ 96 + |rval x| * (11 / 2 ^ 70) := by ring
    rw [e2]; linarith
  · have := sin_poly_abs hr
    have h3 : |rval x| / 2 ^ 96 ≤ 1 / 2 ^ 73 := by
      have : |rval x| / 2 ^ 96 ≤ 393 / 500 / 2 ^ 96 := div_le_div_of_nonneg_right hr (by positivity)
      refine le_trans this ?_
      norm_num
    have e3 : (19 : ℝ) / 2 ^ 73 = 1 / 2 ^ 73 + 9 / 2 ^ 72 := by norm_num
    rw [e3]; linarith

/-- **`restricted_cos` against `Real.cos`**: error `≤ 9·2^-77`, for `2^-400 ≤ |r| ≤ 0.786` -/
theorem restricted_cos_real {x : TwoFloat} (hv : x.Valid) (hw : x.WF)
    (hlo : 1 / 2 ^ 400 ≤ |val x|) (hhi : |val x| ≤ 393 / 500) :
    (trigonometry.restricted_cos x).Valid ∧
    |rval (trigonometry.restricted_cos x) - Real.cos (rval x)| ≤ 9 / 2 ^ 77 := by
  obtain ⟨hV, hb⟩ := restricted_cos_bound hv hw hlo hhi
  have hr : |rval x| ≤ 393 / 500 := by have := rval_le hhi; push_cast at this; exact this
  have hb' : |rval (trigonometry.restricted_cos x) - CosPoly (rval x)| ≤ 1 / 2 ^ 96 := by
    have := (Rat.cast_le (K := ℝ)).2 hb
    rw [Rat.cast_abs, Rat.cast_sub, cosPolyQ_cast] at this
    push_cast at this
    exact this
  have e : rval (trigonometry.restricted_cos x) - Real.cos (rval x)
      = (rval (trigonometry.restricted_cos x) - CosPoly (rval x)) - (Real.cos (rval x) - CosPoly (rval x)) := by
    ring
  refine ⟨hV, ?_⟩
  rw [e]
  refine le_trans (abs_sub _ _) ?_
  have := cos_poly_abs hr
  have e3 : (9 : ℝ) / 2 ^ 77 = 1 / 2 ^ 77 + 1 / 2 ^ 74 := by norm_num
  have h3 : (1 : ℝ) / 2 ^ 96 ≤ 1 / 2 ^ 77 := by norm_num
  rw [e3]; linarith

/-! ## 5. argument reduction: `r = x − round(x / FRAC_PI_2)·FRAC_PI_2` -/

/-- pure arithmetic of the reduction -/
theorem reduce_arith {xv d P k m r : ℚ} (hP1 : 157 / 100 ≤ P) (hP2 : P ≤ 15708 / 10000) (hx : |xv| ≤ 2 ^ 20)
    (hd : |xv - d * P| ≤ 1 / 2 ^ 102 * |xv|) (hk : |d - k| ≤ 1 / 2)
    (hm : |m - k * P| ≤ 7 / 2 ^ 106 * |k * P|) (hr : |r - (xv - m)| ≤ cA * |xv - m|) :
    |k| ≤ 2 ^ 20 ∧ |m| ≤ 2 ^ 22 ∧ |r - (xv - k * P)| ≤ 1 / 2 ^ 82 ∧ |r| ≤ 393 / 500 := by
  have a0 := cA_pos
  have a1 := cA_le
  have hP0 : 0 < P := by linarith
  have e1 : |xv - d * P| ≤ 1 / 2 ^ 82 := by
    have : 1 / 2 ^ 102 * |xv| ≤ 1 / 2 ^ 102 * 2 ^ 20 := mul_le_mul_of_nonneg_left hx (by positivity)
    refine le_trans hd (le_trans this ?_)
    norm_num
  have hdP : |d| * P ≤ 2 ^ 20 + 1 := by
    have := abs_add_le (d * P - xv) xv
    rw [sub_add_cancel, abs_mul, abs_of_pos hP0, abs_sub_comm] at this
    have : (1 : ℚ) / 2 ^ 82 ≤ 1 := by norm_num
    linarith
  have hd' : |d| ≤ 2 ^ 20 - 1 := by
    have : |d| * (157 / 100) ≤ |d| * P := mul_le_mul_of_nonneg_left hP1 (abs_nonneg _)
    norm_num at hdP this ⊢
    linarith
  have hk' : |k| ≤ 2 ^ 20 := by
    have := abs_add_le (k - d) d
    rw [sub_add_cancel, abs_sub_comm] at this
    linarith
  have hkP : |k * P| ≤ 2 ^ 21 := by
    rw [abs_mul, abs_of_pos hP0]
    have := mul_le_mul hk' hP2 hP0.le (by positivity)
    refine le_trans this ?_
    norm_num
  have e2 : |m - k * P| ≤ 7 / 2 ^ 85 := by
    have : 7 / 2 ^ 106 * |k * P| ≤ 7 / 2 ^ 106 * 2 ^ 21 := mul_le_mul_of_nonneg_left hkP (by positivity)
    refine le_trans hm (le_trans this ?_)
    norm_num
  have hm' : |m| ≤ 2 ^ 22 := by
    have := abs_add_le (m - k * P) (k * P)
    rw [sub_add_cancel] at this
    have : (7 : ℚ) / 2 ^ 85 ≤ 1 := by norm_num
    have : (2 : ℚ) ^ 21 + 1 ≤ 2 ^ 22 := by norm_num
    linarith
  have e3 : |xv - k * P| ≤ 1 / 2 ^ 82 + 7854 / 10000 := by
    have e : xv - k * P = (xv - d * P) + (d - k) * P := by ring
    rw [e]
    refine le_trans (abs_add_le _ _) ?_
    rw [abs_mul, abs_of_pos hP0]
    have : |d - k| * P ≤ 1 / 2 * (15708 / 10000) := mul_le_mul hk hP2 hP0.le (by norm_num)
    norm_num at this ⊢
    linarith
  have e4 : |xv - m| ≤ 1 := by
    have e : xv - m = (xv - k * P) - (m - k * P) := by ring
    rw [e]
    refine le_trans (abs_sub _ _) ?_
    have : (1 : ℚ) / 2 ^ 82 + 7854 / 10000 + 7 / 2 ^ 85 ≤ 1 := by norm_num
    linarith
  have e5 : |r - (xv - m)| ≤ 1 / 2 ^ 104 := by nlinarith
  have e6 : |r - (xv - k * P)| ≤ 1 / 2 ^ 82 := by
    have e : r - (xv - k * P) = (r - (xv - m)) - (m - k * P) := by ring
    rw [e]
    refine le_trans (abs_sub _ _) ?_
    have : (1 : ℚ) / 2 ^ 104 + 7 / 2 ^ 85 ≤ 1 / 2 ^ 82 := by norm_num
    linarith
  refine ⟨hk', hm', e6, ?_⟩
  have := abs_add_le (r - (xv - k * P)) (xv - k * P)
  rw [sub_add_cancel] at this
  have : (1 : ℚ) / 2 ^ 82 + (1 / 2 ^ 82 + 7854 / 10000) ≤ 393 / 500 := by norm_num
  linarith

/-- facts about the constants, evaluated by the kernel -/
theorem P_facts : consts.FRAC_PI_2.Valid ∧ consts.FRAC_PI_2.WF ∧
    (157 : ℚ) / 100 ≤ val consts.FRAC_PI_2 ∧ val consts.FRAC_PI_2 ≤ 15708 / 10000 ∧
    2 ^ 624 ≤ consts.FRAC_PI_2.hi.toInt.natAbs ∧ consts.FRAC_PI_2.hi.toInt.natAbs ≤ 2 ^ 1524 ∧
    val consts.FRAC_PI_4 * 2 = val consts.FRAC_PI_2 := by decide +kernel

theorem hi_range {t : TwoFloat} (hv : t.Valid) (h1 : 1 / 2 ≤ |val t|) (h2 : |val t| ≤ 2 ^ 20) :
    2 ^ 624 ≤ t.hi.toInt.natAbs ∧ t.hi.toInt.natAbs ≤ 2 ^ 1524 := by
  have a1 : (2 : Int) ^ (1074 - 1) ≤ |t.V| := int_lower (k := 1) (by norm_num) (by simpa using h1)
  have a2 : |t.V| ≤ (2 : Int) ^ (1074 + 20) := int_upper h2
  obtain ⟨b1, b2⟩ := hi_bounds hv
  have c1 : (2 : Int) ^ 624 ≤ |t.hi.toInt| := by
    have e : (2 : Int) ^ (1074 - 1) = 2 ^ 449 * 2 ^ 624 := by rw [← pow_add]
    rw [e] at a1
    have p : (0 : Int) < 2 ^ 624 := by positivity
    generalize (2 : Int) ^ 624 = W at *
    have : (2 : Int) ^ 449 ≥ 4 := by norm_num
    nlinarith [abs_nonneg t.hi.toInt]
  have c2 : |t.hi.toInt| ≤ (2 : Int) ^ 1524 := by
    have e : (2 : Int) ^ 1524 = 2 ^ 430 * 2 ^ (1074 + 20) := by rw [← pow_add]
    rw [e]
    have p : (0 : Int) < 2 ^ (1074 + 20) := by positivity
    generalize (2 : Int) ^ (1074 + 20) = W at *
    have : (2 : Int) ^ 430 ≥ 4 := by norm_num
    nlinarith [abs_nonneg t.hi.toInt]
  rw [Int.abs_eq_natAbs] at c1 c2
  exact ⟨by exact_mod_cast c1, by exact_mod_cast c2⟩

/-- `TwoFloat / TwoFloat`, rational form -/
theorem div_tt_val {a b : TwoFloat} (ha : a.Valid) (hwa : a.WF) (hb : b.Valid) (hwb : b.WF)
    (hA : 2 ^ 624 ≤ a.hi.toInt.natAbs ∧ a.hi.toInt.natAbs ≤ 2 ^ 1524)
    (hB : 2 ^ 624 ≤ b.hi.toInt.natAbs ∧ b.hi.toInt.natAbs ≤ 2 ^ 1524) :
    (arithmetic.impl_Div_rTwoFloat_for_rTwoFloat.div a b).Valid ∧
    (arithmetic.impl_Div_rTwoFloat_for_rTwoFloat.div a b).WF ∧
    |val a - val (arithmetic.impl_Div_rTwoFloat_for_rTwoFloat.div a b) * val b| ≤ 1 / 2 ^ 102 * |val a| := by
  have h12 : (arithmetic.impl_Div_rTwoFloat_for_rTwoFloat.div a b).Valid ∧
      (arithmetic.impl_Div_rTwoFloat_for_rTwoFloat.div a b).WF :=
    C01d.div_tt_valid a b ha hwa hb hwb hA.1 hA.2 hB.1 hB.2
  have h3 : 2 ^ 102 * |a.V * (unit : Int) - (arithmetic.impl_Div_rTwoFloat_for_rTwoFloat.div a b).V * b.V|
      ≤ |a.V * (unit : Int)| := C01d.div_tt_bound a b ha hwa hb hwb hA.1 hA.2 hB.1 hB.2
  refine ⟨h12.1, h12.2, ?_⟩
  rw [unit_cast_eq] at h3
  generalize arithmetic.impl_Div_rTwoFloat_for_rTwoFloat.div a b = d at *
  have hq : (2 : ℚ) ^ 102 * |(a.V : ℚ) * 2 ^ 1074 - d.V * b.V| ≤ |(a.V : ℚ) * 2 ^ 1074| := by exact_mod_cast h3
  unfold val
  have hU : (0 : ℚ) < 2 ^ 1074 := by positivity
  generalize (2 : ℚ) ^ 1074 = W at *
  have e1 : (a.V : ℚ) / W - d.V / W * (b.V / W) = ((a.V : ℚ) * W - d.V * b.V) / (W * W) := by field_simp
  have e2 : (a.V : ℚ) / W = ((a.V : ℚ) * W) / (W * W) := by field_simp
  rw [e1, e2, abs_div, abs_div, abs_of_pos (mul_pos hU hU), ← mul_div_assoc,
    div_le_div_iff_of_pos_right (mul_pos hU hU), div_mul_eq_mul_div, one_mul, le_div_iff₀ (by positivity)]
  linarith

/-- `TwoFloat * TwoFloat` with the `7u²` bound on the wide range (allows a zero factor), rational form -/
theorem mul_tt_val7 {x y : TwoFloat} (hvx : x.Valid) (hwx : x.WF) (hvy : y.Valid) (hwy : y.WF)
    (hr : x.hi.toInt * y.hi.toInt = 0 ∨
      ((2 : Int) ^ 1188 ≤ |x.hi.toInt * y.hi.toInt| ∧ |x.hi.toInt * y.hi.toInt| < (2 : Int) ^ 3169)) :
    (arithmetic.impl_Mul_rTwoFloat_for_rTwoFloat.mul x y).Valid ∧
    (arithmetic.impl_Mul_rTwoFloat_for_rTwoFloat.mul x y).WF ∧
    |val (arithmetic.impl_Mul_rTwoFloat_for_rTwoFloat.mul x y) - val x * val y| ≤ 7 / 2 ^ 106 * |val x * val y| := by
  obtain ⟨hV, hb⟩ := C04b.mul_tt_bound_7u2_partial hvx hwx hvy hwy hr
  refine ⟨hV, mul_tt_WF x y, ?_⟩
  have hb' : |(arithmetic.impl_Mul_rTwoFloat_for_rTwoFloat.mul x y).V * (unit : Int) - x.V * y.V| * 2 ^ 106
      ≤ 7 * |x.V * y.V| := hb
  generalize arithmetic.impl_Mul_rTwoFloat_for_rTwoFloat.mul x y = p at *
  rw [unit_cast_eq] at hb'
  have hq : |(p.V : ℚ) * 2 ^ 1074 - x.V * y.V| * 2 ^ 106 ≤ 7 * |(x.V : ℚ) * y.V| := by exact_mod_cast hb'
  unfold val
  have hU : (0 : ℚ) < 2 ^ 1074 := by positivity
  generalize (2 : ℚ) ^ 1074 = W at *
  have e1 : (p.V : ℚ) / W - x.V / W * (y.V / W) = ((p.V : ℚ) * W - x.V * y.V) / (W * W) := by field_simp
  have e2 : (x.V : ℚ) / W * (y.V / W) = ((x.V : ℚ) * y.V) / (W * W) := by field_simp
  rw [e1, e2, abs_div, abs_div, abs_of_pos (mul_pos hU hU), ← mul_div_assoc,
    div_le_div_iff_of_pos_right (mul_pos hU hU), div_mul_eq_mul_div, le_div_iff₀ (by positivity)]
  exact hq

theorem reduce_k {xv d P k : ℚ} (hP1 : 157 / 100 ≤ P) (hx : |xv| ≤ 2 ^ 20)
    (hd : |xv - d * P| ≤ 1 / 2 ^ 102 * |xv|) (hk : |d - k| ≤ 1 / 2) : |k| ≤ 2 ^ 20 := by
  have hP0 : 0 < P := by linarith
  have e1 : |xv - d * P| ≤ 1 / 2 ^ 82 := by
    have : 1 / 2 ^ 102 * |xv| ≤ 1 / 2 ^ 102 * 2 ^ 20 := mul_le_mul_of_nonneg_left hx (by positivity)
    refine le_trans hd (le_trans this ?_)
    norm_num
  have hdP : |d| * P ≤ 2 ^ 20 + 1 := by
    have := abs_add_le (d * P - xv) xv
    rw [sub_add_cancel, abs_mul, abs_of_pos hP0, abs_sub_comm] at this
    have : (1 : ℚ) / 2 ^ 82 ≤ 1 := by norm_num
    linarith
  have hd' : |d| ≤ 2 ^ 20 - 1 := by
    have : |d| * (157 / 100) ≤ |d| * P := mul_le_mul_of_nonneg_left hP1 (abs_nonneg _)
    norm_num at hdP this ⊢
    linarith
  have := abs_add_le (k - d) d
  rw [sub_add_cancel, abs_sub_comm] at this
  linarith

/-- `round` in rational terms: an integer within 1/2 -/
theorem round_val {d : TwoFloat} (hv : d.Valid) (hw : d.WF) :
    ∃ k : ℤ, (TwoFloat.round d).V = k * 2 ^ 1074 ∧ (TwoFloat.round d).Valid ∧ (TwoFloat.round d).WF ∧
      |val d - (k : ℚ)| ≤ 1 / 2 := by
  obtain ⟨h1, h2⟩ := C08.round_exact hv hw
  obtain ⟨⟨k, hk⟩, h3, h4⟩ := C08.roundV_spec d.V
  refine ⟨k, by rw [h1, hk, C08.U_eq]; ring, h2, C08.round_WF hw, ?_⟩
  have hU := C08.U_pos
  have hz : |2 * d.V - 2 * (C08.U * k)| ≤ C08.U := by
    rw [abs_le]
    rcases le_total 0 d.V with h | h
    · have := h3 h; rw [hk] at this; constructor <;> linarith
    · have := h4 h; rw [hk] at this; constructor <;> linarith
  rw [C08.U_eq] at hz
  have hq : |2 * (d.V : ℚ) - 2 * (2 ^ 1074 * k)| ≤ 2 ^ 1074 := by exact_mod_cast hz
  unfold val
  have hW : (0 : ℚ) < 2 ^ 1074 := by positivity
  generalize (2 : ℚ) ^ 1074 = W at *
  have e : (d.V : ℚ) / W - k = (2 * (d.V : ℚ) - 2 * (W * k)) / (2 * W) := by field_simp
  rw [e, abs_div, abs_of_pos (by positivity : (0 : ℚ) < 2 * W), div_le_iff₀ (by positivity)]
  linarith

/-- **the argument reduction**: for `π/4 ≤ |x| ≤ 2^20` (with the double-double `π/4`), the quotient is an integer `k`
with `|k| ≤ 2^20`, stored exactly, and the remainder is within `2^-82` of `x − k·P` (`P` the double-double `π/2`)
and at most `0.786` in magnitude -/
theorem reduction {x : TwoFloat} (hv : x.Valid) (hw : x.WF)
    (hlo : val consts.FRAC_PI_4 ≤ |val x|) (hhi : |val x| ≤ 2 ^ 20) :
    ∃ k : ℤ, |k| ≤ 2 ^ 20 ∧
      (TwoFloat.round (arithmetic.impl_Div_rTwoFloat_for_rTwoFloat.div x consts.FRAC_PI_2)).IsV (k * (unit : ℤ)) 0 ∧
      (arithmetic.impl_Sub_rTwoFloat_for_rTwoFloat.sub x (arithmetic.impl_Mul_rTwoFloat_for_rTwoFloat.mul
        (TwoFloat.round (arithmetic.impl_Div_rTwoFloat_for_rTwoFloat.div x consts.FRAC_PI_2)) consts.FRAC_PI_2)).Valid ∧
      (arithmetic.impl_Sub_rTwoFloat_for_rTwoFloat.sub x (arithmetic.impl_Mul_rTwoFloat_for_rTwoFloat.mul
        (TwoFloat.round (arithmetic.impl_Div_rTwoFloat_for_rTwoFloat.div x consts.FRAC_PI_2)) consts.FRAC_PI_2)).WF ∧
      |val (arithmetic.impl_Sub_rTwoFloat_for_rTwoFloat.sub x (arithmetic.impl_Mul_rTwoFloat_for_rTwoFloat.mul
        (TwoFloat.round (arithmetic.impl_Div_rTwoFloat_for_rTwoFloat.div x consts.FRAC_PI_2)) consts.FRAC_PI_2))
        - (val x - k * val consts.FRAC_PI_2)| ≤ 1 / 2 ^ 82 ∧
      |val (arithmetic.impl_Sub_rTwoFloat_for_rTwoFloat.sub x (arithmetic.impl_Mul_rTwoFloat_for_rTwoFloat.mul
        (TwoFloat.round (arithmetic.impl_Div_rTwoFloat_for_rTwoFloat.div x consts.FRAC_PI_2)) consts.FRAC_PI_2))|
        ≤ 393 / 500 := by
  obtain ⟨hvP, hwP, hP1, hP2, hPh1, hPh2, hP4⟩ := P_facts
  have hx12 : 1 / 2 ≤ |val x| := by
    have : val consts.FRAC_PI_4 = val consts.FRAC_PI_2 / 2 := by rw [← hP4]; ring
    rw [this] at hlo
    linarith
  obtain ⟨hvd, hwd, hed⟩ := div_tt_val hv hw hvP hwP (hi_range hv hx12 hhi) ⟨hPh1, hPh2⟩
  set d := arithmetic.impl_Div_rTwoFloat_for_rTwoFloat.div x consts.FRAC_PI_2 with hd
  obtain ⟨k, hqV, hvq, hwq, hek⟩ := round_val hvd hwd
  set q := TwoFloat.round d with hq
  have hk20 : |(k : ℚ)| ≤ 2 ^ 20 := reduce_k hP1 hhi hed hek
  have hk20i : |k| ≤ 2 ^ 20 := by exact_mod_cast hk20
  have hk53 : |k| ≤ 2 ^ 53 := le_trans hk20i (by norm_num)
  have hqV' : q.V = k * (unit : ℤ) := by rw [hqV, unit_cast_eq]
  have hqI : q.IsV (k * (unit : ℤ)) 0 := by
    have := Valid.isV_of_repI hvq (by rw [hqV']; exact repI_int hk53)
    rwa [hqV'] at this
  have hqval : val q = (k : ℚ) := by
    unfold val
    rw [hqV, Int.cast_mul, Int.cast_pow, Int.cast_ofNat, mul_div_assoc, div_self (by positivity), mul_one]
  -- the product q * P
  have hr : q.hi.toInt * consts.FRAC_PI_2.hi.toInt = 0 ∨
      ((2 : Int) ^ 1188 ≤ |q.hi.toInt * consts.FRAC_PI_2.hi.toInt| ∧
        |q.hi.toInt * consts.FRAC_PI_2.hi.toInt| < (2 : Int) ^ 3169) := by
    rw [hqI.1.2, unit_cast_eq]
    by_cases h0 : k = 0
    · left; rw [h0]; ring
    · right
      have hk1 : 1 ≤ |k| := Int.one_le_abs h0
      have p1 : (2 : Int) ^ 624 ≤ |consts.FRAC_PI_2.hi.toInt| := by
        rw [Int.abs_eq_natAbs]; exact_mod_cast hPh1
      have p2 : |consts.FRAC_PI_2.hi.toInt| ≤ (2 : Int) ^ 1524 := by
        rw [Int.abs_eq_natAbs]; exact_mod_cast hPh2
      rw [abs_mul, abs_mul, abs_of_pos (by positivity : (0 : Int) < 2 ^ 1074)]
      constructor
      · have e : (2 : Int) ^ 1188 = 1 * 2 ^ 564 * 2 ^ 624 := by rw [one_mul, ← pow_add]
        rw [e]
        refine mul_le_mul (mul_le_mul hk1 (pow_le_pow_right₀ (by norm_num) (by norm_num)) (by positivity)
          (abs_nonneg _)) p1 (by positivity) (by positivity)
      · have e : (2 : Int) ^ 3169 = 2 ^ 571 * 2 ^ 1074 * 2 ^ 1524 := by rw [← pow_add, ← pow_add]
        rw [e]
        have h1 : |k| * 2 ^ 1074 * |consts.FRAC_PI_2.hi.toInt| ≤ 2 ^ 20 * 2 ^ 1074 * 2 ^ 1524 :=
          mul_le_mul (mul_le_mul_of_nonneg_right hk20i (by positivity)) p2 (abs_nonneg _) (by positivity)
        refine lt_of_le_of_lt h1 ?_
        refine mul_lt_mul_of_pos_right (mul_lt_mul_of_pos_right ?_ (by positivity)) (by positivity)
        exact pow_lt_pow_right₀ (by norm_num) (by norm_num)
  obtain ⟨hvm, hwm, hem⟩ := mul_tt_val7 hvq hwq hvP hwP hr
  rw [hqval] at hem
  set m := arithmetic.impl_Mul_rTwoFloat_for_rTwoFloat.mul q consts.FRAC_PI_2 with hm
  -- first the magnitude of m (needed for the subtraction), then the subtraction
  have hm22 : |val m| ≤ 2 ^ 22 :=
    (reduce_arith (r := val x - val m) hP1 hP2 hhi hed hek hem (by
      rw [sub_self, abs_zero]; exact mul_nonneg cA_pos.le (abs_nonneg _))).2.1
  obtain ⟨hvr, hwr, her⟩ := sub_tt_val hv hw hvm hwm (le_trans hhi (by norm_num)) (le_trans hm22 (by norm_num))
  obtain ⟨_, _, h3, h4⟩ := reduce_arith hP1 hP2 hhi hed hek hem her
  exact ⟨k, hk20i, hqI, hvr, hwr, h3, h4⟩

/-! ## 6. the quadrant: `q % 4.0` and its conversion to `i8` -/

theorem four_facts : (f64lit 0x4010000000000000).is_finite = true ∧ (f64lit 0x4010000000000000).WF ∧
    (f64lit 0x4010000000000000).toInt = 4 * (unit : ℤ) := by decide +kernel

theorem repI_small {k : ℤ} (h : |k| ≤ 2 ^ 22) : RepI k := by
  unfold RepI Rep
  left
  have h1 : |k| < 2 ^ 53 := lt_of_le_of_lt h (by norm_num)
  have h2 : ((k.natAbs : ℕ) : ℤ) < ((2 ^ 53 : ℕ) : ℤ) := by rw [Int.natCast_natAbs]; exact_mod_cast h1
  exact_mod_cast h2

/-- `q % 4.0` for an integer-valued `q = (k, 0)`, `|k| ≤ 2^20`: exactly `(k tmod 4, 0)` -/
theorem rem_four {q : TwoFloat} {k : ℤ} (hq : q.IsV (k * (unit : ℤ)) 0) (hk : |k| ≤ 2 ^ 20) :
    (arithmetic.impl_Rem_f64_for_TwoFloat.rem q (f64lit 0x4010000000000000)).IsV (k.tmod 4 * (unit : ℤ)) 0 := by
  have hf : IsVal (f64lit 0x4010000000000000) (4 * (unit : ℤ)) := ⟨four_facts.1, four_facts.2.2⟩
  have hUi := unit_pos_int
  have hk53 : |k| ≤ 2 ^ 53 := le_trans hk (by norm_num)
  have hwq : q.WF := hq.int_WF hk53
  have e4 : (unit : ℤ) = 4 * 2 ^ 1072 := by rw [unit_cast_eq]; norm_num
  have hmax : (2 : ℤ) ^ 2097 ≤ (maxFin : ℤ) := two_pow_2097_le_maxFin_int
  -- (i) q / 4.0
  have hHr : RepI (k * 2 ^ 1072) := repI_mul_pow2_iff.2 (repI_small (le_trans hk (by norm_num)))
  have hHm : |k * 2 ^ 1072| ≤ (maxFin : ℤ) := by
    rw [abs_mul, abs_of_pos (by positivity : (0 : ℤ) < 2 ^ 1072)]
    have : |k| * 2 ^ 1072 ≤ 2 ^ 20 * 2 ^ 1072 := mul_le_mul_of_nonneg_right hk (by positivity)
    have e : (2 : ℤ) ^ 20 * 2 ^ 1072 ≤ 2 ^ 2097 := by
      rw [← pow_add]; exact pow_le_pow_right₀ (by norm_num) (by norm_num)
    linarith
  have hd : (arithmetic.impl_Div_rf64_for_rTwoFloat.div q (f64lit 0x4010000000000000)).IsV (k * 2 ^ 1072) 0 :=
    div_tf_isV_fixed hq hf hwq (by omega) (by rw [e4]; ring) (by ring)
      ⟨hHr, hHm, repI_zero, abs_zero_le_maxFin, by rw [add_zero, rnI_of_repI hHr]⟩
  have hwd := div_tf_WF q (f64lit 0x4010000000000000)
  have hvd : (arithmetic.impl_Div_rf64_for_rTwoFloat.div q (f64lit 0x4010000000000000)).Valid :=
    hd.valid hwd (by rw [add_zero, rnI_of_repI hHr])
  -- (ii) trunc
  obtain ⟨ht1, ht2⟩ := C08.trunc_exact hvd hwd
  have hwt := C08.trunc_WF hwd
  set t := TwoFloat.trunc (arithmetic.impl_Div_rf64_for_rTwoFloat.div q (f64lit 0x4010000000000000)) with htdef
  have hj : |k.tdiv 4| ≤ 2 ^ 20 := by
    have : |k.tdiv 4| ≤ |k| := by
      rw [Int.abs_eq_natAbs, Int.abs_eq_natAbs, Int.natAbs_tdiv]
      exact_mod_cast Nat.div_le_self _ _
    linarith
  have htV : t.V = k.tdiv 4 * (unit : ℤ) := by
    rw [ht1, hd.V_eq, add_zero]
    unfold C08.truncV
    rw [C08.U_eq, show (2 : ℤ) ^ 1074 = 4 * 2 ^ 1072 by norm_num,
      Int.mul_tdiv_mul_of_pos_left k 4 (by positivity : (0 : ℤ) < 2 ^ 1072), e4]
  have htI : t.IsV (k.tdiv 4 * (unit : ℤ)) 0 := by
    have := Valid.isV_of_repI ht2 (by rw [htV]; exact repI_int (le_trans hj (by norm_num)))
    rwa [htV] at this
  -- (iii) trunc * 4.0
  have h4j : |4 * k.tdiv 4| ≤ 2 ^ 53 := by
    rw [abs_mul]; norm_num
    have : (4 : ℤ) * 2 ^ 20 ≤ 2 ^ 53 := by norm_num
    linarith
  have hPr : RepI (4 * k.tdiv 4 * (unit : ℤ)) := repI_int h4j
  have hp : (arithmetic.impl_Mul_rf64_for_rTwoFloat.mul t (f64lit 0x4010000000000000)).IsV
      (4 * k.tdiv 4 * (unit : ℤ)) 0 :=
    mul_tf_isV_fixed htI hf (by ring) (by ring)
      ⟨hPr, abs_int_le h4j, repI_zero, abs_zero_le_maxFin, by rw [add_zero, rnI_of_repI hPr]⟩
  have hwp := mul_tf_WF t (f64lit 0x4010000000000000)
  -- (iv) q - that
  have ev : k * (unit : ℤ) - 4 * k.tdiv 4 * (unit : ℤ) = k.tmod 4 * (unit : ℤ) := by
    rw [Int.tmod_def k 4]; ring
  have hv4 : |k.tmod 4| ≤ 2 ^ 53 := by
    have h1 := Int.tmod_lt_of_pos k (by norm_num : (0 : ℤ) < 4)
    have h2 := Int.lt_tmod_of_pos k (by norm_num : (0 : ℤ) < 4)
    rw [abs_le]; constructor <;> omega
  have hRr : RepI (k * (unit : ℤ) - 4 * k.tdiv 4 * (unit : ℤ)) := by rw [ev]; exact repI_int hv4
  have hs := sub_tt_isV_fixed hq hp hwq hwp
    ⟨hRr, by rw [ev]; exact abs_int_le hv4, by simpa using repI_zero, by simp,
      by rw [sub_self, add_zero, rnI_of_repI hRr]⟩
  rw [ev, sub_self] at hs
  exact hs

theorem i8_ge (a b : I8) : (a >=. b) = decide (b.v ≤ a.v) := by
  obtain ⟨a⟩ := a; obtain ⟨b⟩ := b
  show (match (some (if a < b then ROrdering.Less else if a = b then .Equal else .Greater)) with
    | some .Greater => true | some .Equal => true | _ => false) = _
  by_cases h1 : a < b
  · simp [h1]
  · by_cases h2 : a = b
    · simp [h2]
    · simp [h1, h2]; omega

theorem i8_eq (a b : I8) : (a ==. b) = decide (a.v = b.v) := rfl

/-- the conversion of `q % 4.0` to `i8` succeeds with the truncated remainder -/
theorem try_from_rem_four {q : TwoFloat} {k : ℤ} (hq : q.IsV (k * (unit : ℤ)) 0) (hk : |k| ≤ 2 ^ 20) :
    convert.impl_TryFrom_TwoFloat_for_i8.try_from
      (arithmetic.impl_Rem_f64_for_TwoFloat.rem q (f64lit 0x4010000000000000)) = Except.ok (⟨k.tmod 4⟩ : I8) := by
  have hr := rem_four hq hk
  have h1 := Int.tmod_lt_of_pos k (by norm_num : (0 : ℤ) < 4)
  have h2 := Int.lt_tmod_of_pos k (by norm_num : (0 : ℤ) < 4)
  have hv4 : |k.tmod 4| ≤ 2 ^ 53 := by rw [abs_le]; constructor <;> omega
  rw [C09.try_from_i8_ok_iff _ (hr.int_valid hv4) (hr.int_WF hv4)]
  constructor
  · rw [hr.V_eq, add_zero]
    show k.tmod 4 = (k.tmod 4 * (unit : ℤ)).tdiv (unit : ℤ)
    rw [Int.mul_tdiv_cancel _ (ne_of_gt unit_pos_int)]
  · show IntN.fits true 8 (k.tmod 4) = true
    unfold IntN.fits IntN.minV IntN.maxV
    simp only [if_true]
    have : ((2 ^ (8 - 1) : Nat) : Int) = 128 := by norm_num
    rw [this]
    simp only [Bool.and_eq_true, decide_eq_true_eq]
    omega

/-- **the reduction branch of `quadrant`**: remainder and `k mod 4` -/
theorem quadrant_large {x : TwoFloat}
    (h : ROrd.isLt (base.impl_PartialOrd_TwoFloat_for_TwoFloat.partial_cmp (TwoFloat.abs x) consts.FRAC_PI_4) = false)
    {k : ℤ} (hq : (TwoFloat.round (arithmetic.impl_Div_rTwoFloat_for_rTwoFloat.div x consts.FRAC_PI_2)).IsV
      (k * (unit : ℤ)) 0) (hk : |k| ≤ 2 ^ 20) :
    trigonometry.quadrant x =
      (arithmetic.impl_Sub_rTwoFloat_for_rTwoFloat.sub x (arithmetic.impl_Mul_rTwoFloat_for_rTwoFloat.mul
        (TwoFloat.round (arithmetic.impl_Div_rTwoFloat_for_rTwoFloat.div x consts.FRAC_PI_2)) consts.FRAC_PI_2),
       (⟨k % 4⟩ : I8)) := by
  have htf := try_from_rem_four hq hk
  have h1 := Int.tmod_lt_of_pos k (by norm_num : (0 : ℤ) < 4)
  have h2 := Int.lt_tmod_of_pos k (by norm_num : (0 : ℤ) < 4)
  have h3 : k.tmod 4 = k - 4 * k.tdiv 4 := Int.tmod_def k 4
  have htf' : convert.impl_TryFrom_TwoFloat_for_i8.try_from
      (arithmetic.impl_Rem_f64_for_TwoFloat.rem
        (TwoFloat.round (arithmetic.impl_Div_TwoFloat_for_TwoFloat.div x consts.FRAC_PI_2))
        (f64lit 0x4010000000000000)) = Except.ok (⟨k.tmod 4⟩ : I8) := htf
  unfold trigonometry.quadrant
  simp only [h, Bool.false_eq_true, if_false, htf']
  simp only [i8_ge]
  have e0 : ((0 : I8)).v = 0 := rfl
  have e4 : ((-4 : I8)).v = -4 := rfl
  by_cases h0 : (0 : ℤ) ≤ k.tmod 4
  · have e : k.tmod 4 = k % 4 := by omega
    rw [e] at h0
    simp only [e0, e, h0, decide_true, if_true]
    rfl
  · have e : 4 + k.tmod 4 = k % 4 := by omega
    have h4 : (-4 : ℤ) ≤ k.tmod 4 := by omega
    simp only [e0, e4, h0, h4, decide_false, decide_true, Bool.false_eq_true, if_false, if_true]
    show (_, (⟨4 + k.tmod 4⟩ : I8)) = _
    rw [e]
    rfl

/-! ## 6b. `TwoFloat * TwoFloat` in the underflow range

The operator library bounds the product only when `x.hi·y.hi` is `0` or at least `2^-960`.  Below that the
2Prod step is not error-free any more; but the result is still a VALID pair of magnitude `≤ 2^-958`,
which is all the tiny-argument cases of `sin`/`cos` need. -/

theorem tiny_arith {c d c2 p p' u : Int} (hu : 0 < u) (_hd : 0 ≤ d) (hc2 : 0 ≤ c2) (_hp' : 0 ≤ p')
    (a : 2 ^ 53 * p' ≤ p + 2 ^ 52 * u) (c_ : d * u ≤ 2 * p') (dd : 2 ^ 50 * (c2 * u) ≤ p)
    (e : p ≤ c * u + p') (f : p < 2 ^ 53 * u → 2 * p' ≤ u) (hc1 : 1 ≤ c) : d + c2 ≤ c := by
  refine le_of_mul_le_mul_right ?_ hu
  rw [add_mul]
  have hcu : u ≤ c * u := by nlinarith
  by_cases hlt : p < 2 ^ 53 * u
  · have := f hlt
    rcases (by omega : c2 = 0 ∨ 1 ≤ c2) with h0 | h1
    · rw [h0, zero_mul, add_zero]; linarith
    · have : u ≤ c2 * u := by nlinarith
      linarith
  · rw [not_lt] at hlt
    linarith

theorem repI_rqI (p : Int) {U : Nat} (hU : 0 < U) : RepI (rqI p U) := by
  unfold RepI; rw [natAbs_rqI]; exact roundQ_rep _ _ hU

/-- integer core of the tiny product -/
theorem tiny_core {P b1 b2 z : Int} (hP : |P| < 2 ^ 1188)
    (h1 : 2 ^ 53 * |b1| ≤ |P|) (h2 : 2 ^ 53 * |b2| ≤ |P|) (hz : 2 ^ 106 * |z| ≤ |P|) :
    |rnI (rqI (P + -(rqI P unit) * (unit : Int)) unit
        + rqI (b2 + rqI (b1 + rqI z unit * (unit : Int)) unit * (unit : Int)) unit)| ≤ |rqI P unit| ∧
    |rqI P unit| ≤ 2 ^ 115 ∧
    |rqI (P + -(rqI P unit) * (unit : Int)) unit
        + rqI (b2 + rqI (b1 + rqI z unit * (unit : Int)) unit * (unit : Int)) unit| ≤ |rqI P unit| ∧
    (rqI P unit = 0 → rqI (P + -(rqI P unit) * (unit : Int)) unit
        + rqI (b2 + rqI (b1 + rqI z unit * (unit : Int)) unit * (unit : Int)) unit = 0) := by
  have hU := unit_pos
  have hUi := unit_pos_int
  have eC := rqI_err_le P hU
  have bC := abs_rqI_mul_le P hU
  have bD := abs_rqI_mul_le (P + -(rqI P unit) * (unit : Int)) hU
  have b0 := abs_rqI_mul_le z hU
  have b1' := abs_rqI_mul_le (b1 + rqI z unit * (unit : Int)) hU
  have b2' := abs_rqI_mul_le (b2 + rqI (b1 + rqI z unit * (unit : Int)) unit * (unit : Int)) hU
  have fC : |P| < 2 ^ 53 * (unit : Int) → 2 * |P + -(rqI P unit) * (unit : Int)| ≤ (unit : Int) := by
    intro h
    have := rqI_err_of_lt (m := 0) hU (by rw [pow_zero, mul_one]; exact h)
    rwa [pow_zero, mul_one] at this
  generalize hCdef : rqI P unit = C at *
  generalize hDdef : rqI (P + -C * (unit : Int)) unit = D at *
  generalize hT0 : rqI z unit = T0 at *
  generalize hT1 : rqI (b1 + T0 * (unit : Int)) unit = T1 at *
  generalize hC2 : rqI (b2 + T1 * (unit : Int)) unit = C2 at *
  have hCr : RepI C := by rw [← hCdef]; exact repI_rqI P hU
  rw [abs_mul, abs_of_pos hUi] at bC bD b0 b1' b2'
  -- the chain of cross terms
  have n1 := abs_add_le b1 (T0 * (unit : Int))
  have n2 := abs_add_le b2 (T1 * (unit : Int))
  rw [abs_mul, abs_of_pos hUi] at n1 n2
  have dd : 2 ^ 50 * (|C2| * (unit : Int)) ≤ |P| := by
    have := abs_nonneg P
    linarith
  have e : |P| ≤ |C| * (unit : Int) + |P + -C * (unit : Int)| := by
    have := abs_add_le (C * (unit : Int)) (P + -C * (unit : Int))
    rw [abs_mul, abs_of_pos hUi] at this
    have e' : C * (unit : Int) + (P + -C * (unit : Int)) = P := by ring
    rwa [e'] at this
  have hC115 : |C| ≤ 2 ^ 115 := by
    have hlt : |C| * (unit : Int) < 2 ^ 115 * (unit : Int) := by
      have e : (2 : Int) ^ 115 * (unit : Int) = 2 * 2 ^ 1188 := by rw [unit_cast_eq, ← pow_add]; norm_num
      rw [e]; linarith
    exact le_of_lt (lt_of_mul_lt_mul_right hlt hUi.le)
  have hzero : C = 0 → D = 0 ∧ C2 = 0 := by
    intro hC0
    have hPlt : |P| < (unit : Int) := by
      rw [hC0] at eC
      simp only [neg_zero, zero_mul, add_zero] at eC
      have := abs_nonneg P
      omega
    have hD0 : D = 0 := by
      rw [← hDdef, hC0]; simp only [neg_zero, zero_mul, add_zero]; rw [hCdef, hC0]
    have hC20 : C2 = 0 := by
      by_contra hne
      have h1' : 1 ≤ |C2| := Int.one_le_abs hne
      have : (unit : Int) ≤ |C2| * (unit : Int) := by nlinarith
      have : (2 : Int) ^ 50 * (|C2| * (unit : Int)) ≥ |C2| * (unit : Int) := by nlinarith
      linarith
    exact ⟨hD0, hC20⟩
  have hsum : |D| + |C2| ≤ |C| := by
    by_cases hC0 : C = 0
    · -- everything vanishes
      have hPlt : |P| < (unit : Int) := by
        rw [hC0] at eC
        simp only [neg_zero, zero_mul, add_zero] at eC
        have := abs_nonneg P
        omega
      have hD0 : D = 0 := by
        rw [← hDdef, hC0]; simp only [neg_zero, zero_mul, add_zero]; rw [hCdef, hC0]
      have hC20 : C2 = 0 := by
        by_contra hne
        have h1' : 1 ≤ |C2| := Int.one_le_abs hne
        have : (unit : Int) ≤ |C2| * (unit : Int) := by nlinarith
        have : (2 : Int) ^ 50 * (|C2| * (unit : Int)) ≥ |C2| * (unit : Int) := by nlinarith
        linarith
      rw [hD0, hC20, hC0]; simp
    · have hc1 : 1 ≤ |C| := Int.one_le_abs hC0
      exact tiny_arith hUi (abs_nonneg D) (abs_nonneg C2) (abs_nonneg _) eC bD dd e fC hc1
  have hDC : |D + C2| ≤ |C| := le_trans (abs_add_le _ _) hsum
  refine ⟨abs_rnI_le hCr hDC, hC115, hDC, fun hC0 => ?_⟩
  obtain ⟨a, b⟩ := hzero hC0
  rw [a, b, add_zero]

/-- **`TwoFloat * TwoFloat` when `|x.hi·y.hi| < 2^-960`**: the result is a valid pair with `|value| ≤ 2^-958` -/
theorem tiny_mul {x y : TwoFloat} (hvx : x.Valid) (hvy : y.Valid)
    (hP : |x.hi.toInt * y.hi.toInt| < 2 ^ 1188) :
    (arithmetic.impl_Mul_rTwoFloat_for_rTwoFloat.mul x y).Valid ∧
    |(arithmetic.impl_Mul_rTwoFloat_for_rTwoFloat.mul x y).V| ≤ 2 ^ 116 ∧
    (2 * |x.hi.toInt * y.hi.toInt| < (unit : Int) → (arithmetic.impl_Mul_rTwoFloat_for_rTwoFloat.mul x y).V = 0) := by
  obtain ⟨h1, h2, hz⟩ := TwoFloat.cross_bounds hvx hvy
  obtain ⟨hab, hC115, hDC, hZ⟩ := tiny_core hP h1 h2 hz
  have hUi := unit_pos_int
  have hpP := abs_nonneg (x.hi.toInt * y.hi.toInt)
  have hbig : (2 : Int) ^ 1188 ≤ 2 ^ 2097 * (unit : Int) := by
    rw [unit_cast_eq, ← pow_add]; exact pow_le_pow_right₀ (by norm_num) (by norm_num)
  have fin_of : ∀ N : Int, |N| ≤ 8 * |x.hi.toInt * y.hi.toInt| → roundQ N.natAbs unit ≤ maxFin := by
    intro N hN
    apply roundQ_natAbs_le_maxFin
    have : (8 : Int) * 2 ^ 1188 ≤ 2 ^ 2097 * (unit : Int) := by
      rw [unit_cast_eq, ← pow_add]
      have : (8 : Int) * 2 ^ 1188 = 2 ^ 1191 := by norm_num
      rw [this]; exact pow_le_pow_right₀ (by norm_num) (by norm_num)
    linarith
  rw [mul_tt_eq]
  -- ch, cl1
  have vch := mul_spec hvx.1 hvy.1 (fin_of _ (by linarith))
  have bC := abs_rqI_mul_le (x.hi.toInt * y.hi.toInt) unit_pos
  have vcl1 : (F64.fma x.hi y.hi (F64.neg (F64.mul x.hi y.hi))).is_finite = true ∧
      (F64.fma x.hi y.hi (F64.neg (F64.mul x.hi y.hi))).toInt
        = rqI (x.hi.toInt * y.hi.toInt + -(rqI (x.hi.toInt * y.hi.toInt) unit) * (unit : Int)) unit := by
    have := fma_spec hvx.1 hvy.1 (by rw [is_finite_neg]; exact vch.1)
      (z := F64.neg (F64.mul x.hi y.hi)) (by
        rw [toInt_neg, vch.2]
        apply fin_of
        have := abs_add_le (x.hi.toInt * y.hi.toInt) (-(rqI (x.hi.toInt * y.hi.toInt) unit) * (unit : Int))
        rw [neg_mul, abs_neg] at this
        rw [neg_mul]
        linarith)
    rw [toInt_neg, vch.2] at this
    exact this
  -- tl0, tl1, cl2
  have pz := abs_nonneg (x.lo.toInt * y.lo.toInt)
  have pb1 := abs_nonneg (x.hi.toInt * y.lo.toInt)
  have pb2 := abs_nonneg (x.lo.toInt * y.hi.toInt)
  have b0 := abs_rqI_mul_le (x.lo.toInt * y.lo.toInt) unit_pos
  have v0 := mul_spec hvx.2.1 hvy.2.1 (fin_of _ (by linarith))
  have n1 := abs_add_le (x.hi.toInt * y.lo.toInt) (rqI (x.lo.toInt * y.lo.toInt) unit * (unit : Int))
  have b1 := abs_rqI_mul_le (x.hi.toInt * y.lo.toInt + rqI (x.lo.toInt * y.lo.toInt) unit * (unit : Int)) unit_pos
  have v1 := fma_spec hvx.1 hvy.2.1 v0.1 (by rw [v0.2]; exact fin_of _ (by linarith))
  rw [v0.2] at v1
  have n2 := abs_add_le (x.lo.toInt * y.hi.toInt)
    (rqI (x.hi.toInt * y.lo.toInt + rqI (x.lo.toInt * y.lo.toInt) unit * (unit : Int)) unit * (unit : Int))
  have v2 := fma_spec hvx.2.1 hvy.1 v1.1 (by rw [v1.2]; exact fin_of _ (by linarith))
  rw [v1.2] at v2
  -- cl3
  have hCmax : |rqI (x.hi.toInt * y.hi.toInt) unit| ≤ (maxFin : Int) :=
    le_trans hC115 (le_trans (pow_le_pow_right₀ (by norm_num) (by norm_num)) two_pow_2097_le_maxFin_int)
  have v3 := IsVal.add (x := (TwoFloat.new_mul x.hi y.hi).lo) ⟨vcl1.1, vcl1.2⟩ ⟨v2.1, v2.2⟩ (le_trans hDC hCmax)
  have wh : IsVal (TwoFloat.new_mul x.hi y.hi).hi (rqI (x.hi.toInt * y.hi.toInt) unit) := ⟨vch.1, vch.2⟩
  have hab' : |(F64.add (TwoFloat.new_mul x.hi y.hi).lo
      (F64.fma x.lo y.hi (F64.fma x.hi y.lo (F64.mul x.lo y.lo)))).toInt|
      ≤ |(TwoFloat.new_mul x.hi y.hi).hi.toInt| := by
    rw [v3.2, wh.2]; exact hab
  have hov : rn53 ((TwoFloat.new_mul x.hi y.hi).hi.toInt + (F64.add (TwoFloat.new_mul x.hi y.hi).lo
      (F64.fma x.lo y.hi (F64.fma x.hi y.lo (F64.mul x.lo y.lo)))).toInt).natAbs ≤ maxFin := by
    apply rn53_natAbs_le_of_abs_le_2097
    have := abs_add_le (TwoFloat.new_mul x.hi y.hi).hi.toInt (F64.add (TwoFloat.new_mul x.hi y.hi).lo
      (F64.fma x.lo y.hi (F64.fma x.hi y.lo (F64.mul x.lo y.lo)))).toInt
    rw [wh.2] at hab' this ⊢
    have e : (2 : Int) ^ 2097 ≥ 2 * 2 ^ 115 := by
      have : (2 : Int) * 2 ^ 115 = 2 ^ 116 := by norm_num
      rw [this]; exact pow_le_pow_right₀ (by norm_num) (by norm_num)
    linarith
  have key := fast_two_sum_spec wh.1 v3.1 (new_mul_WF _ _).1 (add_WF _ _) hab' hov
  refine ⟨key.2.2.1, ?_, ?_⟩
  · rw [key.2.1, wh.2]
    have := abs_add_le (rqI (x.hi.toInt * y.hi.toInt) unit) (F64.add (TwoFloat.new_mul x.hi y.hi).lo
        (F64.fma x.lo y.hi (F64.fma x.hi y.lo (F64.mul x.lo y.lo)))).toInt
    rw [wh.2] at hab'
    have e : (2 : Int) ^ 116 = 2 * 2 ^ 115 := by norm_num
    rw [e]; linarith
  · intro hsmall
    have hC0 : rqI (x.hi.toInt * y.hi.toInt) unit = 0 := by
      rw [abs_mul, abs_of_pos hUi] at bC
      have h1 : |rqI (x.hi.toInt * y.hi.toInt) unit| * (unit : Int) < 1 * (unit : Int) := by linarith
      have h2 : |rqI (x.hi.toInt * y.hi.toInt) unit| < 1 := lt_of_mul_lt_mul_right h1 hUi.le
      exact abs_eq_zero.1 (by have := abs_nonneg (rqI (x.hi.toInt * y.hi.toInt) unit); omega)
    rw [key.2.1, wh.2, v3.2, hZ hC0, hC0, rnI_zero]; rfl

theorem hi_le_of_val {t : TwoFloat} (hv : t.Valid) (h : |val t| ≤ 4) : |t.hi.toInt| ≤ 2 ^ 1077 := by
  have h1 : |t.V| ≤ (2 : Int) ^ (1074 + 2) := int_upper (by norm_num at h ⊢; exact h)
  obtain ⟨b1, _⟩ := hi_bounds hv
  have e : (2 : Int) ^ 1077 = 2 * 2 ^ (1074 + 2) := by norm_num
  rw [e]
  have p : (0 : Int) < 2 ^ (1074 + 2) := by positivity
  generalize (2 : Int) ^ (1074 + 2) = W at *
  nlinarith [abs_nonneg t.hi.toInt]

/-- **`TwoFloat * TwoFloat` for operands of magnitude `≤ 4`, all ranges**: relative error `7u²` plus an absolute
underflow term `2^-950` -/
theorem mul_any {x y : TwoFloat} (hvx : x.Valid) (hwx : x.WF) (hvy : y.Valid) (hwy : y.WF)
    (hx : |val x| ≤ 4) (hy : |val y| ≤ 4) :
    (arithmetic.impl_Mul_rTwoFloat_for_rTwoFloat.mul x y).Valid ∧
    (arithmetic.impl_Mul_rTwoFloat_for_rTwoFloat.mul x y).WF ∧
    |val (arithmetic.impl_Mul_rTwoFloat_for_rTwoFloat.mul x y) - val x * val y|
      ≤ 7 / 2 ^ 106 * |val x * val y| + 1 / 2 ^ 950 := by
  have hxh := hi_le_of_val hvx hx
  have hyh := hi_le_of_val hvy hy
  by_cases hP : |x.hi.toInt * y.hi.toInt| < 2 ^ 1188
  · obtain ⟨hV, hb, _⟩ := tiny_mul hvx hvy hP
    refine ⟨hV, mul_tt_WF x y, ?_⟩
    -- |val (x*y)| ≤ 2^-958
    have h1 : |val (arithmetic.impl_Mul_rTwoFloat_for_rTwoFloat.mul x y)| ≤ 1 / 2 ^ 958 := by
      rw [abs_val, div_le_div_iff₀ (by positivity) (by positivity), one_mul]
      have hq : ((|(arithmetic.impl_Mul_rTwoFloat_for_rTwoFloat.mul x y).V| : Int) : ℚ) ≤ 2 ^ 116 := by
        exact_mod_cast hb
      have e : (2 : ℚ) ^ 1074 = 2 ^ 116 * 2 ^ 958 := by rw [← pow_add]
      rw [e]
      exact mul_le_mul_of_nonneg_right hq (by positivity)
    -- |val x * val y| ≤ 2^-958
    have h2 : |val x * val y| ≤ 1 / 2 ^ 958 := by
      obtain ⟨_, bx⟩ := hi_bounds hvx
      obtain ⟨_, by'⟩ := hi_bounds hvy
      rw [abs_val_mul, div_le_div_iff₀ (by positivity) (by positivity), one_mul]
      have hi : |x.V * y.V| ≤ 2 * 2 ^ 1188 := by
        rw [abs_mul] at hP ⊢
        have u1 : (2 ^ 53 * |x.V|) * (2 ^ 53 * |y.V|)
            ≤ ((2 ^ 53 + 1) * |x.hi.toInt|) * ((2 ^ 53 + 1) * |y.hi.toInt|) :=
          mul_le_mul bx by' (by positivity) (by positivity)
        have e1 : (2 ^ 53 * |x.V|) * (2 ^ 53 * |y.V|) = 2 ^ 106 * (|x.V| * |y.V|) := by ring
        have e2 : ((2 ^ 53 + 1) * |x.hi.toInt|) * ((2 ^ 53 + 1) * |y.hi.toInt|)
            = (2 ^ 53 + 1) ^ 2 * (|x.hi.toInt| * |y.hi.toInt|) := by ring
        rw [e1, e2] at u1
        have pT : (0 : Int) < 2 ^ 1188 := by positivity
        generalize |x.hi.toInt| * |y.hi.toInt| = AB at *
        generalize |x.V| * |y.V| = PR at *
        generalize (2 : Int) ^ 1188 = T at *
        norm_num at u1 ⊢
        linarith
      have hq : ((|x.V * y.V| : Int) : ℚ) ≤ 2 * 2 ^ 1188 := by exact_mod_cast hi
      have e : (2 : ℚ) ^ 2148 = 2 * 2 ^ 1188 * 2 ^ 959 := by
        rw [mul_assoc, ← pow_add, ← pow_succ']
      have e' : (2 : ℚ) ^ 958 ≤ 2 ^ 959 := pow_le_pow_right₀ (by norm_num) (by norm_num)
      rw [e]
      calc ((|x.V * y.V| : Int) : ℚ) * 2 ^ 958 ≤ (2 * 2 ^ 1188) * 2 ^ 958 :=
            mul_le_mul_of_nonneg_right hq (by positivity)
        _ ≤ (2 * 2 ^ 1188) * 2 ^ 959 := mul_le_mul_of_nonneg_left e' (by positivity)
    refine le_trans (abs_sub _ _) ?_
    have h3 : (0 : ℚ) ≤ 7 / 2 ^ 106 * |val x * val y| := by positivity
    have h4 : (1 : ℚ) / 2 ^ 958 + 1 / 2 ^ 958 ≤ 1 / 2 ^ 950 := by norm_num
    linarith
  · have hr : x.hi.toInt * y.hi.toInt = 0 ∨
        ((2 : Int) ^ 1188 ≤ |x.hi.toInt * y.hi.toInt| ∧ |x.hi.toInt * y.hi.toInt| < (2 : Int) ^ 3169) := by
      right
      refine ⟨not_lt.1 hP, ?_⟩
      rw [abs_mul]
      have := mul_le_mul hxh hyh (abs_nonneg _) (by positivity)
      refine lt_of_le_of_lt this ?_
      rw [← pow_add]; exact pow_lt_pow_right₀ (by norm_num) (by norm_num)
    obtain ⟨a, b, c⟩ := mul_tt_val7 hvx hwx hvy hwy hr
    refine ⟨a, b, le_trans c ?_⟩
    have : (0 : ℚ) ≤ 1 / 2 ^ 950 := by positivity
    linarith

/-! ## 6c. tiny arguments: `|x| ≤ 2^-399` -/

theorem SIN_COEFFS_le : ∀ c ∈ trigonometry.SIN_COEFFS, c.Valid ∧ c.WF ∧ |val c| ≤ 1 := by decide +kernel
theorem COS_COEFFS_le : ∀ c ∈ trigonometry.COS_COEFFS, c.Valid ∧ c.WF ∧ |val c| ≤ 1 := by decide +kernel

/-- a product with a tiny factor is tiny -/
theorem mul_tiny {x y : TwoFloat} (hvx : x.Valid) (hwx : x.WF) (hvy : y.Valid) (hwy : y.WF)
    (hx : |val x| ≤ 1 / 2 ^ 700) (hy : |val y| ≤ 2) :
    (arithmetic.impl_Mul_rTwoFloat_for_rTwoFloat.mul x y).Valid ∧
    (arithmetic.impl_Mul_rTwoFloat_for_rTwoFloat.mul x y).WF ∧
    |val (arithmetic.impl_Mul_rTwoFloat_for_rTwoFloat.mul x y)| ≤ 1 / 2 ^ 600 := by
  obtain ⟨a, b, c⟩ := mul_any hvx hwx hvy hwy (le_trans hx (by norm_num)) (le_trans hy (by norm_num))
  refine ⟨a, b, ?_⟩
  have hp : |val x * val y| ≤ 1 / 2 ^ 699 := by
    rw [abs_mul]
    have := mul_le_mul hx hy (abs_nonneg _) (by positivity)
    refine le_trans this ?_
    norm_num
  have := abs_add_le (val (arithmetic.impl_Mul_rTwoFloat_for_rTwoFloat.mul x y) - val x * val y) (val x * val y)
  rw [sub_add_cancel] at this
  have h7 : 7 / 2 ^ 106 * |val x * val y| ≤ |val x * val y| := by
    have : (7 : ℚ) / 2 ^ 106 ≤ 1 := by norm_num
    nlinarith [abs_nonneg (val x * val y)]
  have : (1 : ℚ) / 2 ^ 699 + 1 / 2 ^ 699 + 1 / 2 ^ 950 ≤ 1 / 2 ^ 600 := by norm_num
  linarith

/-- the Horner loop with a tiny `x2`: the accumulator stays bounded by 2 -/
theorem hornerM_small {x2 : TwoFloat} (hv2 : x2.Valid) (hw2 : x2.WF) (h2 : |val x2| ≤ 1 / 2 ^ 700) :
    ∀ cs : List TwoFloat, cs ≠ [] → (∀ c ∈ cs, c.Valid ∧ c.WF ∧ |val c| ≤ 1) →
      (hornerM x2 cs).Valid ∧ (hornerM x2 cs).WF ∧ |val (hornerM x2 cs)| ≤ 2 := by
  intro cs
  induction cs with
  | nil => intro h; exact absurd rfl h
  | cons c cs ih =>
    intro _ hall
    have hc := hall c (List.mem_cons_self ..)
    cases cs with
    | nil => exact ⟨hc.1, hc.2.1, le_trans hc.2.2 (by norm_num)⟩
    | cons d cs =>
      obtain ⟨hva, hwa, hba⟩ := ih (by simp) (fun c' h' => hall c' (List.mem_cons_of_mem _ h'))
      obtain ⟨hvm, hwm, hbm⟩ := mul_tiny hv2 hw2 hva hwa h2 hba
      obtain ⟨hvs, hws, hes⟩ := add_tt_val hvm hwm hc.1 hc.2.1 (le_trans hbm (by norm_num))
        (le_trans hc.2.2 (by norm_num))
      refine ⟨hvs, hws, ?_⟩
      have a1 := cA_le
      have a0 := cA_pos
      set m := arithmetic.impl_Mul_rTwoFloat_for_rTwoFloat.mul x2 (hornerM x2 (d :: cs))
      have h3 : |val m + val c| ≤ 1 / 2 ^ 600 + 1 := le_trans (abs_add_le _ _) (by linarith [hc.2.2])
      have h4 := abs_add_le (val (arithmetic.impl_Add_rTwoFloat_for_rTwoFloat.add m c) - (val m + val c))
        (val m + val c)
      rw [sub_add_cancel] at h4
      have h5 : cA * |val m + val c| ≤ 1 / 2 ^ 104 * (1 / 2 ^ 600 + 1) :=
        mul_le_mul a1 h3 (abs_nonneg _) (by positivity)
      have : (1 : ℚ) / 2 ^ 104 * (1 / 2 ^ 600 + 1) + (1 / 2 ^ 600 + 1) ≤ 2 := by norm_num
      show |val (arithmetic.impl_Add_rTwoFloat_for_rTwoFloat.add m c)| ≤ 2
      linarith

/-- `x * x` for a tiny `x` -/
theorem sq_tiny {x : TwoFloat} (hv : x.Valid) (hw : x.WF) (hs : |val x| ≤ 1 / 2 ^ 399) :
    (arithmetic.impl_Mul_rTwoFloat_for_rTwoFloat.mul x x).Valid ∧
    (arithmetic.impl_Mul_rTwoFloat_for_rTwoFloat.mul x x).WF ∧
    |val (arithmetic.impl_Mul_rTwoFloat_for_rTwoFloat.mul x x)| ≤ 1 / 2 ^ 700 := by
  obtain ⟨a, b, c⟩ := mul_any hv hw hv hw (le_trans hs (by norm_num)) (le_trans hs (by norm_num))
  refine ⟨a, b, ?_⟩
  have hp : |val x * val x| ≤ 1 / 2 ^ 798 := by
    rw [abs_mul]
    have := mul_le_mul hs hs (abs_nonneg _) (by positivity)
    refine le_trans this ?_
    norm_num
  have := abs_add_le (val (arithmetic.impl_Mul_rTwoFloat_for_rTwoFloat.mul x x) - val x * val x) (val x * val x)
  rw [sub_add_cancel] at this
  have h7 : 7 / 2 ^ 106 * |val x * val x| ≤ |val x * val x| := by
    have : (7 : ℚ) / 2 ^ 106 ≤ 1 := by norm_num
    nlinarith [abs_nonneg (val x * val x)]
  have : (1 : ℚ) / 2 ^ 798 + 1 / 2 ^ 798 + 1 / 2 ^ 950 ≤ 1 / 2 ^ 700 := by norm_num
  linarith

theorem lit_natAbs : (f64lit 0x3ff0000000000000).toInt.natAbs < 2 ^ 2095 ∧
    (F64.neg (f64lit 0x3fe0000000000000)).toInt.natAbs < 2 ^ 2095 := by decide +kernel

/-- **`restricted_sin` on a tiny argument**: the result is `x` up to a relative `2^-100` and an absolute `2^-949` -/
theorem restricted_sin_tiny {x : TwoFloat} (hv : x.Valid) (hw : x.WF) (hs : |val x| ≤ 1 / 2 ^ 399) :
    (trigonometry.restricted_sin x).Valid ∧
    |val (trigonometry.restricted_sin x) - val x| ≤ |val x| / 2 ^ 100 + 1 / 2 ^ 949 := by
  obtain ⟨hv2, hw2, hb2⟩ := sq_tiny hv hw hs
  set x2 := arithmetic.impl_Mul_rTwoFloat_for_rTwoFloat.mul x x with hx2
  obtain ⟨hvP, hwP, hbP⟩ := hornerM_small hv2 hw2 hb2 trigonometry.SIN_COEFFS (by decide) SIN_COEFFS_le
  obtain ⟨hvm, hwm, hbm⟩ := mul_tiny hv2 hw2 hvP hwP hb2 hbP
  obtain ⟨hvy, hwy, hey⟩ := add_tf_val hvm hwm lit_one_facts.1 lit_one_facts.2.1
    (le_trans hbm (by norm_num)) lit_natAbs.1
  rw [fval_one] at hey
  set m := arithmetic.impl_Mul_rTwoFloat_for_rTwoFloat.mul x2 (hornerM x2 trigonometry.SIN_COEFFS) with hm
  set y := arithmetic.impl_Add_rf64_for_rTwoFloat.add m (f64lit 0x3ff0000000000000) with hy
  have hres : trigonometry.restricted_sin x = arithmetic.impl_Mul_rTwoFloat_for_rTwoFloat.mul x y := rfl
  rw [hres]
  have hy1 : |val y - 1| ≤ 1 / 2 ^ 103 := by
    have h1 : |val m + 1| ≤ 2 := le_trans (abs_add_le _ _) (by
      rw [abs_one]; have : (1 : ℚ) / 2 ^ 600 ≤ 1 := by norm_num
      linarith)
    have h2 : 1 / 2 ^ 105 * |val m + 1| ≤ 1 / 2 ^ 105 * 2 := mul_le_mul_of_nonneg_left h1 (by positivity)
    have e : val y - 1 = (val y - (val m + 1)) + val m := by ring
    rw [e]
    refine le_trans (abs_add_le _ _) ?_
    have : (1 : ℚ) / 2 ^ 105 * 2 + 1 / 2 ^ 600 ≤ 1 / 2 ^ 103 := by norm_num
    linarith
  have hy2 : |val y| ≤ 2 := by
    have := abs_add_le (val y - 1) 1
    rw [sub_add_cancel, abs_one] at this
    have : (1 : ℚ) / 2 ^ 103 ≤ 1 := by norm_num
    linarith
  obtain ⟨hvr, _, her⟩ := mul_any hv hw hvy hwy (le_trans hs (by norm_num)) (le_trans hy2 (by norm_num))
  refine ⟨hvr, ?_⟩
  have hxy : |val x * val y| ≤ |val x| * 2 := by
    rw [abs_mul]; exact mul_le_mul_of_nonneg_left hy2 (abs_nonneg _)
  have e : val (arithmetic.impl_Mul_rTwoFloat_for_rTwoFloat.mul x y) - val x
      = (val (arithmetic.impl_Mul_rTwoFloat_for_rTwoFloat.mul x y) - val x * val y) + val x * (val y - 1) := by ring
  rw [e]
  refine le_trans (abs_add_le _ _) ?_
  rw [abs_mul (val x)]
  have h3 : |val x| * |val y - 1| ≤ |val x| * (1 / 2 ^ 103) := mul_le_mul_of_nonneg_left hy1 (abs_nonneg _)
  have h4 : 7 / 2 ^ 106 * |val x * val y| ≤ 7 / 2 ^ 106 * (|val x| * 2) :=
    mul_le_mul_of_nonneg_left hxy (by positivity)
  have h5 : 7 / 2 ^ 106 * (|val x| * 2) + |val x| * (1 / 2 ^ 103) ≤ |val x| / 2 ^ 100 := by
    have : (7 : ℚ) / 2 ^ 106 * 2 + 1 / 2 ^ 103 ≤ 1 / 2 ^ 100 := by norm_num
    have := mul_le_mul_of_nonneg_left this (abs_nonneg (val x))
    rw [div_eq_mul_one_div]
    linarith
  have : (1 : ℚ) / 2 ^ 950 ≤ 1 / 2 ^ 949 := by norm_num
  linarith

/-- **`restricted_cos` on a tiny argument**: the result is `1` up to `2^-100` -/
theorem restricted_cos_tiny {x : TwoFloat} (hv : x.Valid) (hw : x.WF) (hs : |val x| ≤ 1 / 2 ^ 399) :
    (trigonometry.restricted_cos x).Valid ∧ |val (trigonometry.restricted_cos x) - 1| ≤ 1 / 2 ^ 100 := by
  obtain ⟨hv2, hw2, hb2⟩ := sq_tiny hv hw hs
  set x2 := arithmetic.impl_Mul_rTwoFloat_for_rTwoFloat.mul x x with hx2
  obtain ⟨hvP, hwP, hbP⟩ := hornerM_small hv2 hw2 hb2 trigonometry.COS_COEFFS (by decide) COS_COEFFS_le
  obtain ⟨hvm, hwm, hbm⟩ := mul_tiny hv2 hw2 hvP hwP hb2 hbP
  obtain ⟨hvy, hwy, hey⟩ := add_tf_val hvm hwm lit_neg_half_facts.1 lit_neg_half_facts.2.1
    (le_trans hbm (by norm_num)) lit_natAbs.2
  rw [fval_neg_half] at hey
  set m := arithmetic.impl_Mul_rTwoFloat_for_rTwoFloat.mul x2 (hornerM x2 trigonometry.COS_COEFFS) with hm
  set y := arithmetic.impl_Add_rf64_for_rTwoFloat.add m (F64.neg (f64lit 0x3fe0000000000000)) with hy
  have hy2 : |val y| ≤ 2 := by
    have h1 : |val m + -(1 / 2)| ≤ 1 := le_trans (abs_add_le _ _) (by
      rw [abs_neg]; have : (1 : ℚ) / 2 ^ 600 ≤ 1 / 4 := by norm_num
      have : |(1 : ℚ) / 2| = 1 / 2 := by norm_num
      linarith)
    have h2 : 1 / 2 ^ 105 * |val m + -(1 / 2)| ≤ 1 / 2 ^ 105 * 1 := mul_le_mul_of_nonneg_left h1 (by positivity)
    have := abs_add_le (val y - (val m + -(1 / 2))) (val m + -(1 / 2))
    rw [sub_add_cancel] at this
    have : (1 : ℚ) / 2 ^ 105 * 1 + 1 ≤ 2 := by norm_num
    linarith
  obtain ⟨hvm2, hwm2, hbm2⟩ := mul_tiny hv2 hw2 hvy hwy hb2 hy2
  obtain ⟨hvr, _, her⟩ := add_tf_val hvm2 hwm2 lit_one_facts.1 lit_one_facts.2.1
    (le_trans hbm2 (by norm_num)) lit_natAbs.1
  rw [fval_one] at her
  have hres : trigonometry.restricted_cos x
      = arithmetic.impl_Add_rf64_for_rTwoFloat.add (arithmetic.impl_Mul_rTwoFloat_for_rTwoFloat.mul x2 y)
          (f64lit 0x3ff0000000000000) := rfl
  rw [hres]
  refine ⟨hvr, ?_⟩
  set m2 := arithmetic.impl_Mul_rTwoFloat_for_rTwoFloat.mul x2 y with hm2
  have h1 : |val m2 + 1| ≤ 2 := le_trans (abs_add_le _ _) (by
    rw [abs_one]; have : (1 : ℚ) / 2 ^ 600 ≤ 1 := by norm_num
    linarith)
  have h2 : 1 / 2 ^ 105 * |val m2 + 1| ≤ 1 / 2 ^ 105 * 2 := mul_le_mul_of_nonneg_left h1 (by positivity)
  have e : val (arithmetic.impl_Add_rf64_for_rTwoFloat.add m2 (f64lit 0x3ff0000000000000)) - 1
      = (val (arithmetic.impl_Add_rf64_for_rTwoFloat.add m2 (f64lit 0x3ff0000000000000)) - (val m2 + 1)) + val m2 := by
    ring
  rw [e]
  refine le_trans (abs_add_le _ _) ?_
  have : (1 : ℚ) / 2 ^ 105 * 2 + 1 / 2 ^ 600 ≤ 1 / 2 ^ 100 := by norm_num
  linarith

theorem zero_words {r : TwoFloat} (hv : r.Valid) (h0 : r.V = 0) :
    ∃ s u : Bool, r = ⟨F64.fin s 0, F64.fin u 0⟩ := by
  obtain ⟨⟨f1, z1⟩, ⟨f2, z2⟩⟩ := hv.words_zero h0
  rcases r with ⟨hi, lo⟩
  obtain ⟨s, a, rfl⟩ := F64.is_finite_iff.mp f1
  obtain ⟨u, b, rfl⟩ := F64.is_finite_iff.mp f2
  have ha : a = 0 := TwoFloat.toInt_eq_zero_iff.1 z1
  have hb : b = 0 := TwoFloat.toInt_eq_zero_iff.1 z2
  subst ha; subst hb
  exact ⟨s, u, rfl⟩

/-! ## 6d. deeply tiny arguments `|x| ≤ 2^-540`: `x * x` underflows to zero and `restricted_sin x = x` exactly -/

/-- `x2·P(x2) + 1.0` for a zero `x2` (any signs of the zero words) is exactly `(1.0, 0)` -/
theorem sin_inner_zero (s u : Bool) :
    let y := arithmetic.impl_Add_rf64_for_rTwoFloat.add
      (arithmetic.impl_Mul_rTwoFloat_for_rTwoFloat.mul ⟨F64.fin s 0, F64.fin u 0⟩
        (hornerM ⟨F64.fin s 0, F64.fin u 0⟩ trigonometry.SIN_COEFFS)) (f64lit 0x3ff0000000000000)
    y.hi.is_finite = true ∧ y.lo.is_finite = true ∧ y.hi.toInt = (unit : Int) ∧ y.lo.toInt = 0 := by
  cases s <;> cases u <;> decide +kernel

theorem V_le_of_val {t : TwoFloat} (h : |val t| ≤ 1 / 2 ^ 540) : |t.V| ≤ 2 ^ 534 := by
  rw [abs_val, div_le_div_iff₀ (by positivity) (by positivity), one_mul] at h
  have e : (2 : ℚ) ^ 1074 = 2 ^ 534 * 2 ^ 540 := by rw [← pow_add]
  rw [e] at h
  have h2 : ((|t.V| : Int) : ℚ) ≤ 2 ^ 534 := le_of_mul_le_mul_right h (by positivity)
  exact_mod_cast h2

/-- **`restricted_sin x = x` exactly for `|x| ≤ 2^-540`** -/
theorem restricted_sin_deep {x : TwoFloat} (hv : x.Valid) (hw : x.WF) (hs : |val x| ≤ 1 / 2 ^ 540) :
    (trigonometry.restricted_sin x).Valid ∧ val (trigonometry.restricted_sin x) = val x := by
  have hV := V_le_of_val hs
  obtain ⟨b1, _⟩ := hi_bounds hv
  have hh : |x.hi.toInt| ≤ 2 ^ 535 := by
    have e : (2 : Int) ^ 535 = 2 * 2 ^ 534 := by norm_num
    rw [e]
    have p : (0 : Int) < 2 ^ 534 := by positivity
    generalize (2 : Int) ^ 534 = W at *
    nlinarith [abs_nonneg x.hi.toInt]
  have hP : |x.hi.toInt * x.hi.toInt| ≤ 2 ^ 1070 := by
    rw [abs_mul]
    have := mul_le_mul hh hh (abs_nonneg _) (by positivity)
    refine le_trans this ?_
    rw [← pow_add]
  obtain ⟨hv2, _, hz⟩ := tiny_mul hv hv (lt_of_le_of_lt hP (pow_lt_pow_right₀ (by norm_num) (by norm_num)))
  have h0 : (arithmetic.impl_Mul_rTwoFloat_for_rTwoFloat.mul x x).V = 0 := by
    apply hz
    rw [unit_cast_eq]
    have : (2 : Int) * 2 ^ 1070 < 2 ^ 1074 := by norm_num
    linarith
  obtain ⟨s, u, hx2⟩ := zero_words hv2 h0
  have hres : trigonometry.restricted_sin x
      = arithmetic.impl_Mul_TwoFloat_for_TwoFloat.mul x (arithmetic.impl_Add_rf64_for_rTwoFloat.add
          (arithmetic.impl_Mul_rTwoFloat_for_rTwoFloat.mul (arithmetic.impl_Mul_rTwoFloat_for_rTwoFloat.mul x x)
            (hornerM (arithmetic.impl_Mul_rTwoFloat_for_rTwoFloat.mul x x) trigonometry.SIN_COEFFS))
          (f64lit 0x3ff0000000000000)) := rfl
  rw [hres, hx2]
  obtain ⟨f1, f2, f3, f4⟩ := sin_inner_zero s u
  obtain ⟨_, _, h3, h4, _⟩ := C04x.mul_tt_one_right x _ hv hw f1 f2 f3 f4
  refine ⟨h4, ?_⟩
  unfold val
  rw [show (arithmetic.impl_Mul_TwoFloat_for_TwoFloat.mul x _).V = x.V from h3]

/-! ## 7. assembly -/

theorem restricted_zero {r : TwoFloat} (hv : r.Valid) (h0 : r.V = 0) :
    (trigonometry.restricted_sin r).Valid ∧ (trigonometry.restricted_cos r).Valid ∧
    val (trigonometry.restricted_sin r) = 0 ∧ val (trigonometry.restricted_cos r) = 1 := by
  obtain ⟨s, u, rfl⟩ := zero_words hv h0
  cases s <;> cases u <;> decide +kernel

theorem val_zero_of_V {r : TwoFloat} (h0 : r.V = 0) : val r = 0 := by unfold val; rw [h0]; simp

theorem sin_sub_self_le {x : ℝ} (hx : |x| ≤ 1) : |Real.sin x - x| ≤ |x| ^ 2 * (3 / 4) := by
  have h := sin_taylor x hx 1 (by norm_num)
  simp only [Finset.sum_range_one, Nat.factorial] at h
  norm_num at h
  refine le_trans h (le_of_eq ?_)
  rw [sq_abs]

theorem cos_sub_one_le {x : ℝ} (hx : |x| ≤ 1) : |Real.cos x - 1| ≤ |x| ^ 2 * (3 / 4) := by
  have h := cos_taylor x hx 1 (by norm_num)
  simp only [Finset.sum_range_one, Nat.factorial] at h
  norm_num at h
  refine le_trans h (le_of_eq ?_)
  rw [sq_abs]

/-- `restricted_sin` on a tiny argument against `Real.sin` -/
theorem restricted_sin_tiny_real {r : TwoFloat} (hv : r.Valid) (hw : r.WF) (hs : |val r| ≤ 1 / 2 ^ 399) :
    (trigonometry.restricted_sin r).Valid ∧
    |rval (trigonometry.restricted_sin r) - Real.sin (rval r)| ≤ |rval r| * (1 / 2 ^ 99) + 1 / 2 ^ 949 := by
  obtain ⟨hV, hb⟩ := restricted_sin_tiny hv hw hs
  have hr : |rval r| ≤ 1 / 2 ^ 399 := by have := rval_le hs; push_cast at this; exact this
  have hb' : |rval (trigonometry.restricted_sin r) - rval r| ≤ |rval r| / 2 ^ 100 + 1 / 2 ^ 949 := by
    have := (Rat.cast_le (K := ℝ)).2 hb
    rw [abs_rval]
    unfold rval
    push_cast at this ⊢
    exact this
  have h2 := sin_sub_self_le (le_trans hr (by norm_num))
  have h3 : |rval r| ^ 2 * (3 / 4) ≤ |rval r| * (1 / 2 ^ 399) := by
    rw [sq, mul_assoc]
    refine mul_le_mul_of_nonneg_left ?_ (abs_nonneg _)
    have := abs_nonneg (rval r)
    linarith
  refine ⟨hV, ?_⟩
  have e : rval (trigonometry.restricted_sin r) - Real.sin (rval r)
      = (rval (trigonometry.restricted_sin r) - rval r) - (Real.sin (rval r) - rval r) := by ring
  rw [e]
  refine le_trans (abs_sub _ _) ?_
  have h4 : |rval r| / 2 ^ 100 + |rval r| * (1 / 2 ^ 399) ≤ |rval r| * (1 / 2 ^ 99) := by
    have : (1 : ℝ) / 2 ^ 100 + 1 / 2 ^ 399 ≤ 1 / 2 ^ 99 := by norm_num
    have := mul_le_mul_of_nonneg_left this (abs_nonneg (rval r))
    rw [div_eq_mul_one_div]
    linarith
  linarith

/-- **`restricted_sin` against `Real.sin`, absolute, all valid `|r| ≤ 0.786`**: `19·2^-73` -/
theorem restricted_sin_abs {r : TwoFloat} (hv : r.Valid) (hw : r.WF) (hhi : |val r| ≤ 393 / 500) :
    (trigonometry.restricted_sin r).Valid ∧
    |rval (trigonometry.restricted_sin r) - Real.sin (rval r)| ≤ 19 / 2 ^ 73 := by
  by_cases hlo : 1 / 2 ^ 400 ≤ |val r|
  · obtain ⟨h1, _, h3⟩ := restricted_sin_real hv hw hlo hhi
    exact ⟨h1, h3⟩
  · have hs : |val r| ≤ 1 / 2 ^ 399 := le_trans (not_le.1 hlo).le (by norm_num)
    obtain ⟨h1, h2⟩ := restricted_sin_tiny_real hv hw hs
    refine ⟨h1, le_trans h2 ?_⟩
    have hr : |rval r| ≤ 1 / 2 ^ 399 := by have := rval_le hs; push_cast at this; exact this
    have : |rval r| * (1 / 2 ^ 99) ≤ 1 / 2 ^ 399 * (1 / 2 ^ 99) := mul_le_mul_of_nonneg_right hr (by positivity)
    have : (1 : ℝ) / 2 ^ 399 * (1 / 2 ^ 99) + 1 / 2 ^ 949 ≤ 19 / 2 ^ 73 := by norm_num
    linarith

/-- **`restricted_sin` against `Real.sin`, relative to `|r|`, all valid `|r| ≤ 0.786`**
(three ranges: `|r| ≥ 2^-400` error analysis; `2^-540 < |r| < 2^-400` via `mul_any`; `|r| ≤ 2^-540` exact) -/
theorem restricted_sin_rel {r : TwoFloat} (hv : r.Valid) (hw : r.WF) (hhi : |val r| ≤ 393 / 500) :
    |rval (trigonometry.restricted_sin r) - Real.sin (rval r)| ≤ |rval r| * (11 / 2 ^ 70 + 1 / 2 ^ 96) := by
  by_cases hlo : 1 / 2 ^ 400 ≤ |val r|
  · exact (restricted_sin_real hv hw hlo hhi).2.1
  · have hs : |val r| ≤ 1 / 2 ^ 399 := le_trans (not_le.1 hlo).le (by norm_num)
    by_cases hdeep : |val r| ≤ 1 / 2 ^ 540
    · obtain ⟨_, he⟩ := restricted_sin_deep hv hw hdeep
      have e1 : rval (trigonometry.restricted_sin r) = rval r := by unfold rval; rw [he]
      have hr : |rval r| ≤ 1 / 2 ^ 540 := by have := rval_le hdeep; push_cast at this; exact this
      rw [e1, abs_sub_comm]
      refine le_trans (sin_sub_self_le (le_trans hr (by norm_num))) ?_
      rw [sq, mul_assoc]
      refine mul_le_mul_of_nonneg_left ?_ (abs_nonneg _)
      have : (1 : ℝ) / 2 ^ 540 * (3 / 4) ≤ 11 / 2 ^ 70 + 1 / 2 ^ 96 := by norm_num
      have := abs_nonneg (rval r)
      nlinarith
    · have hn : (1 : ℚ) / 2 ^ 849 ≤ |val r| := le_trans (by norm_num) (not_le.1 hdeep).le
      obtain ⟨_, h2⟩ := restricted_sin_tiny_real hv hw hs
      refine le_trans h2 ?_
      have hr : (1 : ℝ) / 2 ^ 849 ≤ |rval r| := by
        rw [abs_rval]
        have := (Rat.cast_le (K := ℝ)).2 hn
        rw [Rat.cast_div, Rat.cast_one, Rat.cast_pow, Rat.cast_ofNat] at this
        exact this
      have h3 : (1 : ℝ) / 2 ^ 949 ≤ |rval r| * (1 / 2 ^ 100) := by
        have := mul_le_mul_of_nonneg_right hr (by positivity : (0 : ℝ) ≤ 1 / 2 ^ 100)
        refine le_trans (le_of_eq ?_) this
        norm_num
      have h4 : |rval r| * (1 / 2 ^ 99) + |rval r| * (1 / 2 ^ 100) ≤ |rval r| * (11 / 2 ^ 70 + 1 / 2 ^ 96) := by
        rw [← mul_add]
        refine mul_le_mul_of_nonneg_left ?_ (abs_nonneg _)
        norm_num
      linarith

/-- **`restricted_cos` against `Real.cos`, absolute, all valid `|r| ≤ 0.786`**: `9·2^-77` -/
theorem restricted_cos_abs {r : TwoFloat} (hv : r.Valid) (hw : r.WF) (hhi : |val r| ≤ 393 / 500) :
    (trigonometry.restricted_cos r).Valid ∧
    |rval (trigonometry.restricted_cos r) - Real.cos (rval r)| ≤ 9 / 2 ^ 77 := by
  by_cases hlo : 1 / 2 ^ 400 ≤ |val r|
  · exact restricted_cos_real hv hw hlo hhi
  · have hs : |val r| ≤ 1 / 2 ^ 399 := le_trans (not_le.1 hlo).le (by norm_num)
    obtain ⟨h1, h2⟩ := restricted_cos_tiny hv hw hs
    refine ⟨h1, ?_⟩
    have hr : |rval r| ≤ 1 / 2 ^ 399 := by have := rval_le hs; push_cast at this; exact this
    have hb' : |rval (trigonometry.restricted_cos r) - 1| ≤ 1 / 2 ^ 100 := by
      have := (Rat.cast_le (K := ℝ)).2 h2
      unfold rval
      push_cast at this ⊢
      exact this
    have h3 := cos_sub_one_le (le_trans hr (by norm_num))
    have h4 : |rval r| ^ 2 * (3 / 4) ≤ 1 / 2 ^ 100 := by
      have := pow_le_pow_left₀ (abs_nonneg _) hr 2
      have : ((1 : ℝ) / 2 ^ 399) ^ 2 * (3 / 4) ≤ 1 / 2 ^ 100 := by norm_num
      nlinarith
    have e : rval (trigonometry.restricted_cos r) - Real.cos (rval r)
        = (rval (trigonometry.restricted_cos r) - 1) - (Real.cos (rval r) - 1) := by ring
    rw [e]
    refine le_trans (abs_sub _ _) ?_
    have : (1 : ℝ) / 2 ^ 100 + 1 / 2 ^ 100 ≤ 9 / 2 ^ 77 := by norm_num
    linarith

/-- the test `|x| < FRAC_PI_4` of `quadrant` compares the exact values -/
theorem cmp_small {x : TwoFloat} (hv : x.Valid) (hw : x.WF) :
    ROrd.isLt (base.impl_PartialOrd_TwoFloat_for_TwoFloat.partial_cmp (TwoFloat.abs x) consts.FRAC_PI_4) = true
      ↔ |val x| < val consts.FRAC_PI_4 := by
  have hiv : TwoFloat.is_valid x = true := (C07.is_valid_iff x hw).2 hv
  have hwa : (TwoFloat.abs x).WF := PF.abs_WF hw
  have ha : (TwoFloat.abs x).Valid := by
    rcases C06.abs_eq_or_neg x with h | h
    · rw [h]; exact hv
    · rw [h]; exact hv.neg hw.1
  have hva : TwoFloat.is_valid (TwoFloat.abs x) = true := (C07.is_valid_iff _ hwa).2 ha
  have h := C06.lt_exact hva ha C12.is_valid_FRAC_PI_4 C12.Valid_FRAC_PI_4
  rw [C06.abs_exact hiv hv] at h
  rw [show base.impl_PartialOrd_TwoFloat_for_TwoFloat.partial_cmp = C06.tcmp from rfl, h, abs_val]
  unfold val
  rw [div_lt_div_iff_of_pos_right (by positivity)]
  exact_mod_cast Iff.rfl

theorem P_real_err : |rval consts.FRAC_PI_2 - Real.pi / 2| ≤ 1 / 2 ^ 106 := by
  have h := C12x.FRAC_PI_2_rel_err
  have e : rval consts.FRAC_PI_2 = (consts.FRAC_PI_2.V : ℝ) / 2 ^ 1074 := by unfold rval val; push_cast; rfl
  rw [e, abs_sub_comm]
  refine le_trans h ?_
  rw [abs_of_pos (by positivity : (0 : ℝ) < Real.pi / 2)]
  have := Real.pi_le_four
  rw [div_le_div_iff₀ (by positivity) (by positivity)]
  have e2 : (2 : ℝ) ^ 107 = 2 * 2 ^ 106 := by norm_num
  rw [e2]
  nlinarith [show (0 : ℝ) < 2 ^ 106 by positivity]

/-- **specification of `quadrant`** for valid `|x| ≤ 2^20`: the remainder is a valid pair with `|r| ≤ 0.786`,
within `2^-81` of `x − k·π/2` (real `π`), and the quadrant is `k mod 4` -/
theorem quadrant_spec {x : TwoFloat} (hv : x.Valid) (hw : x.WF) (hhi : |val x| ≤ 2 ^ 20) :
    ∃ k : ℤ, (trigonometry.quadrant x).2 = (⟨k % 4⟩ : I8) ∧
      (trigonometry.quadrant x).1.Valid ∧ (trigonometry.quadrant x).1.WF ∧
      |val (trigonometry.quadrant x).1| ≤ 393 / 500 ∧
      |rval (trigonometry.quadrant x).1 - (rval x - (k : ℝ) * (Real.pi / 2))| ≤ 1 / 2 ^ 81 := by
  cases hb : ROrd.isLt (base.impl_PartialOrd_TwoFloat_for_TwoFloat.partial_cmp (TwoFloat.abs x) consts.FRAC_PI_4)
  · -- reduction
    have hge : val consts.FRAC_PI_4 ≤ |val x| := by
      by_contra hlt
      have := (cmp_small hv hw).2 (not_le.1 hlt)
      rw [hb] at this; exact Bool.false_ne_true this
    obtain ⟨k, hk, hq, hvr, hwr, her, hr⟩ := reduction hv hw hge hhi
    refine ⟨k, ?_⟩
    rw [quadrant_large hb hq hk]
    refine ⟨rfl, hvr, hwr, hr, ?_⟩
    set r := arithmetic.impl_Sub_rTwoFloat_for_rTwoFloat.sub x (arithmetic.impl_Mul_rTwoFloat_for_rTwoFloat.mul
      (TwoFloat.round (arithmetic.impl_Div_rTwoFloat_for_rTwoFloat.div x consts.FRAC_PI_2)) consts.FRAC_PI_2)
    have h1 : |rval r - (rval x - (k : ℝ) * rval consts.FRAC_PI_2)| ≤ 1 / 2 ^ 82 := by
      have := (Rat.cast_le (K := ℝ)).2 her
      unfold rval
      push_cast at this ⊢
      exact this
    have h2 : |(k : ℝ) * (rval consts.FRAC_PI_2 - Real.pi / 2)| ≤ 1 / 2 ^ 86 := by
      rw [abs_mul]
      have hkr : |(k : ℝ)| ≤ 2 ^ 20 := by exact_mod_cast hk
      have := mul_le_mul hkr P_real_err (abs_nonneg _) (by positivity)
      refine le_trans this ?_
      norm_num
    have e : rval r - (rval x - (k : ℝ) * (Real.pi / 2))
        = (rval r - (rval x - (k : ℝ) * rval consts.FRAC_PI_2)) - (k : ℝ) * (rval consts.FRAC_PI_2 - Real.pi / 2) := by
      ring
    rw [e]
    refine le_trans (abs_sub _ _) ?_
    have : (1 : ℝ) / 2 ^ 82 + 1 / 2 ^ 86 ≤ 1 / 2 ^ 81 := by norm_num
    linarith
  · -- no reduction
    have hlt := (cmp_small hv hw).1 hb
    rw [C16.quadrant_small x hb]
    refine ⟨0, rfl, hv, hw, ?_, by simp⟩
    have : val consts.FRAC_PI_4 ≤ 393 / 500 := by
      have := P_facts.2.2.2.2.2.2
      have h2 := P_facts.2.2.2.1
      linarith
    linarith

theorem rval_neg (t : TwoFloat) : rval (arithmetic.impl_Neg_for_TwoFloat.neg t) = -rval t := by
  have h : (arithmetic.impl_Neg_for_TwoFloat.neg t).V = -t.V := TwoFloat.V_neg t
  unfold rval val
  rw [h]; push_cast; ring

theorem neg_valid {t : TwoFloat} (hv : t.Valid) (hw : t.WF) : (arithmetic.impl_Neg_for_TwoFloat.neg t).Valid :=
  hv.neg hw.1

/-- the two kinds of result: a restricted sine or a restricted cosine of the reduced argument, compared with
the same function of the exactly reduced argument -/
theorem via_sin {r : TwoFloat} (hv : r.Valid) (hw : r.WF) (hhi : |val r| ≤ 393 / 500) {ρ : ℝ}
    (hρ : |rval r - ρ| ≤ 1 / 2 ^ 81) :
    |rval (trigonometry.restricted_sin r) - Real.sin ρ| ≤ 1 / 2 ^ 68 := by
  obtain ⟨_, h⟩ := restricted_sin_abs hv hw hhi
  have h2 := Real.abs_sin_sub_sin_le (rval r) ρ
  have e : rval (trigonometry.restricted_sin r) - Real.sin ρ
      = (rval (trigonometry.restricted_sin r) - Real.sin (rval r)) + (Real.sin (rval r) - Real.sin ρ) := by ring
  rw [e]
  refine le_trans (abs_add_le _ _) ?_
  have : (19 : ℝ) / 2 ^ 73 + 1 / 2 ^ 81 ≤ 1 / 2 ^ 68 := by norm_num
  linarith

theorem via_cos {r : TwoFloat} (hv : r.Valid) (hw : r.WF) (hhi : |val r| ≤ 393 / 500) {ρ : ℝ}
    (hρ : |rval r - ρ| ≤ 1 / 2 ^ 81) :
    |rval (trigonometry.restricted_cos r) - Real.cos ρ| ≤ 1 / 2 ^ 68 := by
  obtain ⟨_, h⟩ := restricted_cos_abs hv hw hhi
  have h2 := Real.abs_cos_sub_cos_le (rval r) ρ
  have e : rval (trigonometry.restricted_cos r) - Real.cos ρ
      = (rval (trigonometry.restricted_cos r) - Real.cos (rval r)) + (Real.cos (rval r) - Real.cos ρ) := by ring
  rw [e]
  refine le_trans (abs_add_le _ _) ?_
  have : (9 : ℝ) / 2 ^ 77 + 1 / 2 ^ 81 ≤ 1 / 2 ^ 68 := by norm_num
  linarith

theorem abs_neg_sub_neg (a b : ℝ) : |-a - -b| = |a - b| := by
  rw [← abs_neg]; congr 1; ring

/-- **C16 (sin), absolute accuracy `2^-68`** (the property asks for `2^-66`) for ALL valid well-formed `x` with
`|x| ≤ 2^20`; the result is a valid pair -/
theorem sin_abs_bound {x : TwoFloat} (hv : x.Valid) (hw : x.WF) (hhi : |val x| ≤ 2 ^ 20) :
    (TwoFloat.sin x).Valid ∧ |rval (TwoFloat.sin x) - Real.sin (rval x)| ≤ 1 / 2 ^ 68 := by
  have hiv : TwoFloat.is_valid x = true := (C07.is_valid_iff x hw).2 hv
  obtain ⟨k, hq, hvr, hwr, hr, hρ⟩ := quadrant_spec hv hw hhi
  have h0 := Int.emod_nonneg k (by norm_num : (4 : ℤ) ≠ 0)
  have h4 := Int.emod_lt_of_pos k (by norm_num : (0 : ℤ) < 4)
  rw [C16.sin_valid x hiv]
  simp only [hq, i8_eq]
  have ex : rval x = (rval x - (k : ℝ) * (Real.pi / 2)) + (k : ℝ) * (Real.pi / 2) := by ring
  rw [ex, sin_add_quarter]
  have e0 : ((0 : I8)).v = 0 := rfl
  have e1 : ((1 : I8)).v = 1 := rfl
  have e2 : ((2 : I8)).v = 2 := rfl
  simp only [e0, e1, e2, decide_eq_true_eq]
  have hS := (restricted_sin_abs hvr hwr hr).1
  have hC := (restricted_cos_abs hvr hwr hr).1
  by_cases c0 : k % 4 = 0
  · simp only [c0, if_true]
    exact ⟨hS, via_sin hvr hwr hr hρ⟩
  · by_cases c1 : k % 4 = 1
    · simp only [c1, if_true, one_ne_zero, if_false]
      exact ⟨hC, via_cos hvr hwr hr hρ⟩
    · by_cases c2 : k % 4 = 2
      · have n20 : ¬ ((2 : ℤ) = 0) := by decide
        have n21 : ¬ ((2 : ℤ) = 1) := by decide
        simp only [c2, n20, n21, if_true, if_false]
        refine ⟨neg_valid hS (PF.restricted_sin_WF _), ?_⟩
        rw [rval_neg, abs_neg_sub_neg]
        exact via_sin hvr hwr hr hρ
      · simp only [c0, c1, c2, if_false]
        refine ⟨neg_valid hC (PF.restricted_cos_WF _), ?_⟩
        rw [rval_neg, abs_neg_sub_neg]
        exact via_cos hvr hwr hr hρ

/-- **C16 (cos), absolute accuracy `2^-68`** (the property asks for `2^-66`) for ALL valid well-formed `x` with
`|x| ≤ 2^20`; the result is a valid pair -/
theorem cos_abs_bound {x : TwoFloat} (hv : x.Valid) (hw : x.WF) (hhi : |val x| ≤ 2 ^ 20) :
    (TwoFloat.cos x).Valid ∧ |rval (TwoFloat.cos x) - Real.cos (rval x)| ≤ 1 / 2 ^ 68 := by
  have hiv : TwoFloat.is_valid x = true := (C07.is_valid_iff x hw).2 hv
  obtain ⟨k, hq, hvr, hwr, hr, hρ⟩ := quadrant_spec hv hw hhi
  rw [C16.cos_valid x hiv]
  simp only [hq, i8_eq]
  have ex : rval x = (rval x - (k : ℝ) * (Real.pi / 2)) + (k : ℝ) * (Real.pi / 2) := by ring
  rw [ex, cos_add_quarter]
  have e0 : ((0 : I8)).v = 0 := rfl
  have e1 : ((1 : I8)).v = 1 := rfl
  have e2 : ((2 : I8)).v = 2 := rfl
  simp only [e0, e1, e2, decide_eq_true_eq]
  have hS := (restricted_sin_abs hvr hwr hr).1
  have hC := (restricted_cos_abs hvr hwr hr).1
  by_cases c0 : k % 4 = 0
  · simp only [c0, if_true]
    exact ⟨hC, via_cos hvr hwr hr hρ⟩
  · by_cases c1 : k % 4 = 1
    · simp only [c1, if_true, one_ne_zero, if_false]
      refine ⟨neg_valid hS (PF.restricted_sin_WF _), ?_⟩
      rw [rval_neg, abs_neg_sub_neg]
      exact via_sin hvr hwr hr hρ
    · by_cases c2 : k % 4 = 2
      · have n20 : ¬ ((2 : ℤ) = 0) := by decide
        have n21 : ¬ ((2 : ℤ) = 1) := by decide
        simp only [c2, n20, n21, if_true, if_false]
        refine ⟨neg_valid hC (PF.restricted_cos_WF _), ?_⟩
        rw [rval_neg, abs_neg_sub_neg]
        exact via_cos hvr hwr hr hρ
      · simp only [c0, c1, c2, if_false]
        exact ⟨hS, via_sin hvr hwr hr hρ⟩

/-- **C16 (sin), small arguments**: for valid `|x| < FRAC_PI_4` (no reduction): absolute error at most `19·2^-73`,
and relative error at most `7·2^-69 < 2^-66.19` (the property asks for `2^-64`) -/
theorem sin_small_bound {x : TwoFloat} (hv : x.Valid) (hw : x.WF) (hsm : |val x| < val consts.FRAC_PI_4) :
    (TwoFloat.sin x).Valid ∧
    |rval (TwoFloat.sin x) - Real.sin (rval x)| ≤ 19 / 2 ^ 73 ∧
    |rval (TwoFloat.sin x) - Real.sin (rval x)| ≤ 7 / 2 ^ 69 * |Real.sin (rval x)| := by
  have hiv : TwoFloat.is_valid x = true := (C07.is_valid_iff x hw).2 hv
  have hb := (cmp_small hv hw).2 hsm
  rw [C16.sin_small x hiv hb]
  have hhi : |val x| ≤ 393 / 500 := by
    have := P_facts.2.2.2.2.2.2
    have h2 := P_facts.2.2.2.1
    linarith
  obtain ⟨h1, h3⟩ := restricted_sin_abs hv hw hhi
  refine ⟨h1, h3, ?_⟩
  have h2 := restricted_sin_rel hv hw hhi
  have hr : |rval x| ≤ 393 / 500 := by have := rval_le hhi; push_cast at this; exact this
  have h4 := abs_sin_ge' hr
  have h5 : |rval x| * (11 / 2 ^ 70 + 1 / 2 ^ 96) ≤ 7 / 2 ^ 69 * (|rval x| * (897 / 1000)) := by
    have : (11 : ℝ) / 2 ^ 70 + 1 / 2 ^ 96 ≤ 7 / 2 ^ 69 * (897 / 1000) := by norm_num
    have := mul_le_mul_of_nonneg_left this (abs_nonneg (rval x))
    linarith
  have h6 := mul_le_mul_of_nonneg_left h4 (by positivity : (0 : ℝ) ≤ 7 / 2 ^ 69)
  linarith

/-- the corresponding statement for `cos`: absolute error at most `9·2^-77 < 2^-73.8` -/
theorem cos_small_bound {x : TwoFloat} (hv : x.Valid) (hw : x.WF) (hsm : |val x| < val consts.FRAC_PI_4) :
    (TwoFloat.cos x).Valid ∧ |rval (TwoFloat.cos x) - Real.cos (rval x)| ≤ 9 / 2 ^ 77 := by
  have hiv : TwoFloat.is_valid x = true := (C07.is_valid_iff x hw).2 hv
  have hb := (cmp_small hv hw).2 hsm
  rw [C16.cos_small x hiv hb]
  have hhi : |val x| ≤ 393 / 500 := by
    have := P_facts.2.2.2.2.2.2
    have h2 := P_facts.2.2.2.1
    linarith
  exact restricted_cos_abs hv hw hhi

/-! ## 8. the statements of property C16 -/

/-- **C16, sin, absolute**: valid `x`, `|x| ≤ 2^20` ⇒ `|sin(x) − sin x| ≤ 2^-66` -/
theorem C16_sin_abs {x : TwoFloat} (hv : x.Valid) (hw : x.WF) (hhi : |val x| ≤ 2 ^ 20) :
    |rval (TwoFloat.sin x) - Real.sin (rval x)| ≤ 1 / 2 ^ 66 :=
  le_trans (sin_abs_bound hv hw hhi).2 (by norm_num)

/-- **C16, cos, absolute**: valid `x`, `|x| ≤ 2^20` ⇒ `|cos(x) − cos x| ≤ 2^-66` -/
theorem C16_cos_abs {x : TwoFloat} (hv : x.Valid) (hw : x.WF) (hhi : |val x| ≤ 2 ^ 20) :
    |rval (TwoFloat.cos x) - Real.cos (rval x)| ≤ 1 / 2 ^ 66 :=
  le_trans (cos_abs_bound hv hw hhi).2 (by norm_num)

/-- **C16, sin, relative**: valid `x` with `|x| ≤ π/4` (the real `π`) ⇒ `|sin(x) − sin x| ≤ 2^-64 |sin x|` -/
theorem C16_sin_rel {x : TwoFloat} (hv : x.Valid) (hw : x.WF) (hpi : |rval x| ≤ Real.pi / 4) :
    |rval (TwoFloat.sin x) - Real.sin (rval x)| ≤ 1 / 2 ^ 64 * |Real.sin (rval x)| := by
  by_cases hsm : |val x| < val consts.FRAC_PI_4
  · have h := (sin_small_bound hv hw hsm).2.2
    refine le_trans h (mul_le_mul_of_nonneg_right (by norm_num) (abs_nonneg _))
  · have hge : val consts.FRAC_PI_4 ≤ |val x| := not_lt.1 hsm
    have hpi4 : Real.pi / 4 ≤ 393 / 500 := by
      have := Real.pi_lt_d4
      linarith
    have hr : |rval x| ≤ 393 / 500 := le_trans hpi hpi4
    have hhi : |val x| ≤ 2 ^ 20 := by
      have h1 : |val x| ≤ 393 / 500 := by
        have := hr; rw [abs_rval] at this
        have e : ((393 / 500 : ℚ) : ℝ) = 393 / 500 := by push_cast; rfl
        rw [← e] at this
        exact_mod_cast this
      exact le_trans h1 (by norm_num)
    have h := (sin_abs_bound hv hw hhi).2
    have h4 := abs_sin_ge' hr
    have hlo : (78 : ℝ) / 100 ≤ |rval x| := by
      rw [abs_rval]
      have h78 : (78 : ℚ) / 100 ≤ val consts.FRAC_PI_4 := by
        have := P_facts.2.2.2.2.2.2
        have h2 := P_facts.2.2.1
        linarith
      have := (Rat.cast_le (K := ℝ)).2 (le_trans h78 hge)
      rw [Rat.cast_div, Rat.cast_ofNat, Rat.cast_ofNat] at this
      exact this
    have h5 : (1 : ℝ) / 2 ^ 68 ≤ 1 / 2 ^ 64 * (78 / 100 * (897 / 1000)) := by norm_num
    have h6 : 78 / 100 * (897 / 1000) ≤ |rval x| * (897 / 1000) :=
      mul_le_mul_of_nonneg_right hlo (by norm_num)
    have h7 := mul_le_mul_of_nonneg_left (le_trans h6 h4) (by positivity : (0 : ℝ) ≤ 1 / 2 ^ 64)
    linarith

/-- the hypotheses are satisfiable: the theorem instantiated at `x = 1000` (quadrant 1, `k = 637`) -/
example :
    |rval (TwoFloat.sin ⟨f64lit 0x408f400000000000, F64.zero⟩)
      - Real.sin (rval ⟨f64lit 0x408f400000000000, F64.zero⟩)| ≤ 1 / 2 ^ 66 :=
  C16_sin_abs (by decide +kernel) (by decide +kernel) (by decide +kernel)

end C16t
