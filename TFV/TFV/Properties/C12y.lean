/-
Property C12, angle conversions — "to_degrees and to_radians return x·180/π and x·π/180 within 6·2^-106 relative for
valid x with high word in [2^-450, 2^450]."

* `DEG_PER_RAD_correctly_rounded`, `RAD_PER_DEG_correctly_rounded` : the two stored constants `base::DEG_PER_RAD`,
  `base::RAD_PER_DEG` are the correctly rounded double-doubles of `180/π` and `π/180` (136-bit enclosure of `π` from
  `Lemmas.ConstBounds`), hence within `2^-107` relative (`DEG_PER_RAD_rel_err`, `RAD_PER_DEG_rel_err`);
* `mul_const_bound` : multiplying a valid `x` by a stored constant `t ≈ c` (relative `2^-107`) with
  `TwoFloat * TwoFloat` (DWTimesDW3, `5u² + 12u³`, `C04b.mul_tt_bound_5u2_12u3_partial`) is within
  `(5u² + 12u³)(1 + 2^-107) + 2^-107 < 5.5001·u² < 6u²` of the real product `x·c`;
* `to_degrees_bound`, `to_radians_bound` : the property, over the reals; `to_degrees_bound_tight`,
  `to_radians_bound_tight` with the constant `11/2 + 2^-40` instead of `6`.
-/
import TFV.Lemmas.ConstBounds
import TFV.Properties.C04
import TFV.Properties.C04b

set_option exponentiation.threshold 3000

namespace C12y

open F64 ConstBounds

/-! ## the constants -/

theorem deg_encl : Encl (180 / Real.pi) (180 * piHi⁻¹) (180 * piLo⁻¹) :=
  ((pi_encl.inv piLo_pos).smul 180 (by norm_num)).congr (by push_cast; rw [div_eq_mul_inv])

theorem rad_encl : Encl (Real.pi / 180) ((1 : ℕ) / (180 : ℕ) * piLo) ((1 : ℕ) / (180 : ℕ) * piHi) :=
  (pi_mul_div_encl 1 180 (by norm_num)).congr (by push_cast; ring)

/-- `base::DEG_PER_RAD` is the correctly rounded double-double of `180/π` -/
theorem DEG_PER_RAD_correctly_rounded : CorrectlyRoundedDD (180 / Real.pi) base.DEG_PER_RAD :=
  correctlyRounded_of_encl (u := 2 ^ 1027) (v := 2 ^ 973) deg_encl
    (by decide +kernel) (by decide +kernel) (by decide +kernel) (by decide +kernel)
    (by decide +kernel) (by decide +kernel) (by decide +kernel) (by decide +kernel)

/-- `base::RAD_PER_DEG` is the correctly rounded double-double of `π/180` -/
theorem RAD_PER_DEG_correctly_rounded : CorrectlyRoundedDD (Real.pi / 180) base.RAD_PER_DEG :=
  correctlyRounded_of_encl (u := 2 ^ 1016) (v := 2 ^ 960) rad_encl
    (by decide +kernel) (by decide +kernel) (by decide +kernel) (by decide +kernel)
    (by decide +kernel) (by decide +kernel) (by decide +kernel) (by decide +kernel)

/-- scaled form: `2^107·|c·2^1074 − V| ≤ |c·2^1074|` -/
theorem DEG_PER_RAD_rel_err_scaled :
    2 ^ 107 * |180 / Real.pi * 2 ^ 1074 - (base.DEG_PER_RAD.V : ℝ)| ≤ |180 / Real.pi * 2 ^ 1074| :=
  DEG_PER_RAD_correctly_rounded.rel_err (by decide +kernel)

theorem RAD_PER_DEG_rel_err_scaled :
    2 ^ 107 * |Real.pi / 180 * 2 ^ 1074 - (base.RAD_PER_DEG.V : ℝ)| ≤ |Real.pi / 180 * 2 ^ 1074| :=
  RAD_PER_DEG_correctly_rounded.rel_err (by decide +kernel)

/-- `DEG_PER_RAD` is within `2^-107` (relative) of `180/π` -/
theorem DEG_PER_RAD_rel_err :
    |180 / Real.pi - (base.DEG_PER_RAD.V : ℝ) / 2 ^ 1074| ≤ |180 / Real.pi| / 2 ^ 107 :=
  DEG_PER_RAD_correctly_rounded.rel_err' (by decide +kernel)

/-- `RAD_PER_DEG` is within `2^-107` (relative) of `π/180` -/
theorem RAD_PER_DEG_rel_err :
    |Real.pi / 180 - (base.RAD_PER_DEG.V : ℝ) / 2 ^ 1074| ≤ |Real.pi / 180| / 2 ^ 107 :=
  RAD_PER_DEG_correctly_rounded.rel_err' (by decide +kernel)

theorem DEG_PER_RAD_facts : base.DEG_PER_RAD.Valid ∧ base.DEG_PER_RAD.WF ∧
    2 ^ 624 ≤ base.DEG_PER_RAD.hi.toInt.natAbs ∧ base.DEG_PER_RAD.hi.toInt.natAbs ≤ 2 ^ 1524 :=
  ⟨by decide +kernel, ⟨by decide +kernel, by decide +kernel⟩, by decide +kernel, by decide +kernel⟩

theorem RAD_PER_DEG_facts : base.RAD_PER_DEG.Valid ∧ base.RAD_PER_DEG.WF ∧
    2 ^ 624 ≤ base.RAD_PER_DEG.hi.toInt.natAbs ∧ base.RAD_PER_DEG.hi.toInt.natAbs ≤ 2 ^ 1524 :=
  ⟨by decide +kernel, ⟨by decide +kernel, by decide +kernel⟩, by decide +kernel, by decide +kernel⟩

/-! ## multiplication by a stored constant -/

/-- real-number core: product error `(5u² + 12u³)` on `X·C`, constant error `2^-107` on `C ≈ c·U` -/
theorem mul_const_real {P X C c U : ℝ} (hU : 0 < U)
    (hP : |P * U - X * C| * 2 ^ 159 ≤ (5 * 2 ^ 53 + 12) * |X * C|)
    (hC : 2 ^ 107 * |c * U - C| ≤ |c * U|) :
    2 ^ 147 * |P / U - X / U * c| ≤ (11 * 2 ^ 40 + 1) * |X / U * c| := by
  have hU0 : U ≠ 0 := ne_of_gt hU
  have e : P / U - X / U * c = ((P * U - X * C) - X * (c * U - C)) / (U * U) := by
    field_simp; ring
  have e2 : X / U * c = (X * (c * U)) / (U * U) := by field_simp
  have hUU : 0 < U * U := mul_pos hU hU
  rw [e, e2, abs_div, abs_div, abs_of_pos hUU, ← mul_div_assoc, ← mul_div_assoc]
  apply div_le_div_of_nonneg_right _ hUU.le
  have t1 : |(P * U - X * C) - X * (c * U - C)| ≤ |P * U - X * C| + |X| * |c * U - C| := by
    have := abs_sub (P * U - X * C) (X * (c * U - C))
    rwa [abs_mul] at this
  have t2 : |C| ≤ |c * U| + |c * U - C| := by
    have := abs_sub (c * U) (c * U - C)
    rwa [sub_sub_cancel] at this
  rw [abs_mul X C] at hP
  rw [abs_mul X (c * U)]
  have hA := abs_nonneg X
  have hB := abs_nonneg (c * U)
  have hE2 := abs_nonneg (c * U - C)
  have hE1 := abs_nonneg (P * U - X * C)
  -- multiply the constant facts by `|X|`
  have m1 : |X| * (2 ^ 107 * |c * U - C|) ≤ |X| * |c * U| := mul_le_mul_of_nonneg_left hC hA
  have m2 : |X| * |C| ≤ |X| * (|c * U| + |c * U - C|) := mul_le_mul_of_nonneg_left t2 hA
  have m1' : 2 ^ 107 * (|X| * |c * U - C|) ≤ |X| * |c * U| := by
    rw [show (2 : ℝ) ^ 107 * (|X| * |c * U - C|) = |X| * (2 ^ 107 * |c * U - C|) by ring]; exact m1
  have m2' : |X| * |C| ≤ |X| * |c * U| + |X| * |c * U - C| := by rw [← mul_add]; exact m2
  have hXE2 : 0 ≤ |X| * |c * U - C| := mul_nonneg hA hE2
  generalize |(P * U - X * C) - X * (c * U - C)| = G at *
  generalize |P * U - X * C| = E1 at *
  generalize |X| * |c * U - C| = XE2 at *
  generalize |X| * |C| = XC at *
  generalize |X| * |c * U| = XB at *
  linarith

/-- **multiplication by a stored double-double constant**: if `t` approximates the real constant `c` within `2^-107`
(relative) then `x * t` approximates `x·c` within `(11/2 + 2^-41)·2^-106` (relative), for valid operands with high
words of magnitude in `[2^-450, 2^450]` -/
theorem mul_const_bound {x t : TwoFloat} {c : ℝ} (hvx : x.Valid) (hwx : x.WF) (hvt : t.Valid) (hwt : t.WF)
    (hx : 2 ^ 624 ≤ x.hi.toInt.natAbs ∧ x.hi.toInt.natAbs ≤ 2 ^ 1524)
    (ht : 2 ^ 624 ≤ t.hi.toInt.natAbs ∧ t.hi.toInt.natAbs ≤ 2 ^ 1524)
    (hc : 2 ^ 107 * |c * 2 ^ 1074 - (t.V : ℝ)| ≤ |c * 2 ^ 1074|) :
    (x *. t).Valid ∧
    2 ^ 147 * |((x *. t).V : ℝ) / 2 ^ 1074 - (x.V : ℝ) / 2 ^ 1074 * c|
      ≤ (11 * 2 ^ 40 + 1) * |(x.V : ℝ) / 2 ^ 1074 * c| := by
  obtain ⟨hval, hb⟩ := C04b.mul_tt_bound_5u2_12u3_partial hvx hwx hvt hwt hx ht
  refine ⟨hval, ?_⟩
  rw [unit_cast_eq] at hb
  have hb' : |((x *. t).V : ℝ) * 2 ^ 1074 - (x.V : ℝ) * (t.V : ℝ)| * 2 ^ 159
      ≤ (5 * 2 ^ 53 + 12) * |(x.V : ℝ) * (t.V : ℝ)| := by exact_mod_cast hb
  exact mul_const_real (by positivity) hb' hc

/-- the constant `6` from the tight one -/
theorem six_of_tight {a b : ℝ} (h : 2 ^ 147 * a ≤ (11 * 2 ^ 40 + 1) * b) (hb : 0 ≤ b) : a ≤ 6 / 2 ^ 106 * b := by
  rw [div_mul_eq_mul_div, le_div_iff₀ (by positivity)]
  linarith

/-! ## the property -/

/-- **C12: `to_degrees` returns `x·180/π` within `6·2^-106` relative** (valid `x`, high word in `[2^-450, 2^450]`),
and the result is a valid pair -/
theorem to_degrees_bound {x : TwoFloat} (hv : x.Valid) (hw : x.WF)
    (hx : 2 ^ 624 ≤ x.hi.toInt.natAbs ∧ x.hi.toInt.natAbs ≤ 2 ^ 1524) :
    (TwoFloat.to_degrees x).Valid ∧
    |((TwoFloat.to_degrees x).V : ℝ) / 2 ^ 1074 - (x.V : ℝ) / 2 ^ 1074 * 180 / Real.pi|
      ≤ 6 / 2 ^ 106 * |(x.V : ℝ) / 2 ^ 1074 * 180 / Real.pi| := by
  obtain ⟨d1, d2, d3, d4⟩ := DEG_PER_RAD_facts
  obtain ⟨hval, hb⟩ := mul_const_bound hv hw d1 d2 hx ⟨d3, d4⟩ DEG_PER_RAD_rel_err_scaled
  rw [C04.to_degrees_eq, mul_div_assoc]
  exact ⟨hval, six_of_tight hb (abs_nonneg _)⟩

/-- **C12: `to_radians` returns `x·π/180` within `6·2^-106` relative** -/
theorem to_radians_bound {x : TwoFloat} (hv : x.Valid) (hw : x.WF)
    (hx : 2 ^ 624 ≤ x.hi.toInt.natAbs ∧ x.hi.toInt.natAbs ≤ 2 ^ 1524) :
    (TwoFloat.to_radians x).Valid ∧
    |((TwoFloat.to_radians x).V : ℝ) / 2 ^ 1074 - (x.V : ℝ) / 2 ^ 1074 * Real.pi / 180|
      ≤ 6 / 2 ^ 106 * |(x.V : ℝ) / 2 ^ 1074 * Real.pi / 180| := by
  obtain ⟨d1, d2, d3, d4⟩ := RAD_PER_DEG_facts
  obtain ⟨hval, hb⟩ := mul_const_bound hv hw d1 d2 hx ⟨d3, d4⟩ RAD_PER_DEG_rel_err_scaled
  rw [C04.to_radians_eq, mul_div_assoc]
  exact ⟨hval, six_of_tight hb (abs_nonneg _)⟩

/-- sharper constant: `(11/2 + 2^-41)·2^-106` -/
theorem to_degrees_bound_tight {x : TwoFloat} (hv : x.Valid) (hw : x.WF)
    (hx : 2 ^ 624 ≤ x.hi.toInt.natAbs ∧ x.hi.toInt.natAbs ≤ 2 ^ 1524) :
    2 ^ 147 * |((TwoFloat.to_degrees x).V : ℝ) / 2 ^ 1074 - (x.V : ℝ) / 2 ^ 1074 * (180 / Real.pi)|
      ≤ (11 * 2 ^ 40 + 1) * |(x.V : ℝ) / 2 ^ 1074 * (180 / Real.pi)| := by
  obtain ⟨d1, d2, d3, d4⟩ := DEG_PER_RAD_facts
  exact (mul_const_bound hv hw d1 d2 hx ⟨d3, d4⟩ DEG_PER_RAD_rel_err_scaled).2

theorem to_radians_bound_tight {x : TwoFloat} (hv : x.Valid) (hw : x.WF)
    (hx : 2 ^ 624 ≤ x.hi.toInt.natAbs ∧ x.hi.toInt.natAbs ≤ 2 ^ 1524) :
    2 ^ 147 * |((TwoFloat.to_radians x).V : ℝ) / 2 ^ 1074 - (x.V : ℝ) / 2 ^ 1074 * (Real.pi / 180)|
      ≤ (11 * 2 ^ 40 + 1) * |(x.V : ℝ) / 2 ^ 1074 * (Real.pi / 180)| := by
  obtain ⟨d1, d2, d3, d4⟩ := RAD_PER_DEG_facts
  exact (mul_const_bound hv hw d1 d2 hx ⟨d3, d4⟩ RAD_PER_DEG_rel_err_scaled).2

/-- the trait methods are the same functions (`C10.Float_to_degrees` …) -/
theorem Float_to_degrees_bound {x : TwoFloat} (hv : x.Valid) (hw : x.WF)
    (hx : 2 ^ 624 ≤ x.hi.toInt.natAbs ∧ x.hi.toInt.natAbs ≤ 2 ^ 1524) :
    |((num_integration.impl_Float_for_TwoFloat.to_degrees x).V : ℝ) / 2 ^ 1074 - (x.V : ℝ) / 2 ^ 1074 * 180 / Real.pi|
      ≤ 6 / 2 ^ 106 * |(x.V : ℝ) / 2 ^ 1074 * 180 / Real.pi| ∧
    |((num_integration.impl_Float_for_TwoFloat.to_radians x).V : ℝ) / 2 ^ 1074 - (x.V : ℝ) / 2 ^ 1074 * Real.pi / 180|
      ≤ 6 / 2 ^ 106 * |(x.V : ℝ) / 2 ^ 1074 * Real.pi / 180| :=
  ⟨(to_degrees_bound hv hw hx).2, (to_radians_bound hv hw hx).2⟩

end C12y
