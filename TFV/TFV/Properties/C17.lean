/-
C17 (structural layer) — asin, acos, atan, atan2: the axis table of `atan2` by case analysis, domain errors of
asin / acos, and closed instances evaluated by the kernel.
-/
import TFV.Spec.Defs
import TFV.Lemmas.Ident

namespace C17

abbrev zero : TwoFloat := convert.impl_From_f64_for_TwoFloat.from (f64lit 0x0000000000000000)

theorem zero_words : zero = ⟨F64.zero, F64.zero⟩ := by decide +kernel

/-! ### `atan2(y, x)` on the axes (tests are on the HIGH words, `==` is IEEE so ±0 both count as zero) -/

/-- y = ±0, x with positive sign (including +0): 0 -/
theorem atan2_zero_pos (y x : TwoFloat) (hy : (y.hi ==. f64lit 0) = true) (hx : F64.is_sign_positive x.hi = true) :
    TwoFloat.atan2 y x = zero := by
  unfold TwoFloat.atan2; simp only [hy, hx, if_true]

/-- y = +0, x with negative sign (including −0): π -/
theorem atan2_poszero_neg (y x : TwoFloat) (hy : (y.hi ==. f64lit 0) = true)
    (hx : F64.is_sign_positive x.hi = false) (hs : F64.is_sign_positive y.hi = true) :
    TwoFloat.atan2 y x = consts.PI := by
  unfold TwoFloat.atan2; simp [hy, hx, hs]

/-- y = −0, x with negative sign: −π -/
theorem atan2_negzero_neg (y x : TwoFloat) (hy : (y.hi ==. f64lit 0) = true)
    (hx : F64.is_sign_positive x.hi = false) (hs : F64.is_sign_positive y.hi = false) :
    TwoFloat.atan2 y x = arithmetic.impl_Neg_for_TwoFloat.neg consts.PI := by
  unfold TwoFloat.atan2; simp [hy, hx, hs]

/-- y > 0 (non-zero, positive sign), x = ±0: π/2 -/
theorem atan2_pos_zero (y x : TwoFloat) (hy : (y.hi ==. f64lit 0) = false) (hx : (x.hi ==. f64lit 0) = true)
    (hs : F64.is_sign_positive y.hi = true) :
    TwoFloat.atan2 y x = consts.FRAC_PI_2 := by
  unfold TwoFloat.atan2; simp [hy, hx, hs]

/-- y < 0, x = ±0: −π/2 -/
theorem atan2_neg_zero (y x : TwoFloat) (hy : (y.hi ==. f64lit 0) = false) (hx : (x.hi ==. f64lit 0) = true)
    (hs : F64.is_sign_positive y.hi = false) :
    TwoFloat.atan2 y x = arithmetic.impl_Neg_for_TwoFloat.neg consts.FRAC_PI_2 := by
  unfold TwoFloat.atan2; simp [hy, hx, hs]

/-- off the axes: atan(y/x), shifted by ±π in the left half-plane -/
theorem atan2_general (y x : TwoFloat) (hy : (y.hi ==. f64lit 0) = false) (hx : (x.hi ==. f64lit 0) = false) :
    TwoFloat.atan2 y x =
      (let a := TwoFloat.atan (y /. x)
       if F64.is_sign_positive x.hi = true then a
       else if F64.is_sign_positive y.hi = true then a +. consts.PI else a -. consts.PI) := by
  unfold TwoFloat.atan2; simp only [hy, hx]; rfl

theorem atan2_pf_axes (y x : TwoFloat) (h : (y.hi ==. f64lit 0) = true ∨ (x.hi ==. f64lit 0) = true) :
    TwoFloat.atan2.pf y x = true := by
  unfold TwoFloat.atan2.pf
  rcases h with h | h
  · simp [h]
  · cases (y.hi ==. f64lit 0) <;> simp [h]

/-- the complete axis table as a disjunction -/
theorem atan2_axis_cases (y x : TwoFloat) (h : (y.hi ==. f64lit 0) = true ∨ (x.hi ==. f64lit 0) = true) :
    TwoFloat.atan2 y x = zero ∨ TwoFloat.atan2 y x = consts.PI
    ∨ TwoFloat.atan2 y x = arithmetic.impl_Neg_for_TwoFloat.neg consts.PI
    ∨ TwoFloat.atan2 y x = consts.FRAC_PI_2
    ∨ TwoFloat.atan2 y x = arithmetic.impl_Neg_for_TwoFloat.neg consts.FRAC_PI_2 := by
  cases hy : (y.hi ==. f64lit 0)
  · have hx : (x.hi ==. f64lit 0) = true := by
      rcases h with h | h
      · rw [hy] at h; cases h
      · exact h
    cases hs : F64.is_sign_positive y.hi
    · exact Or.inr (Or.inr (Or.inr (Or.inr (atan2_neg_zero y x hy hx hs))))
    · exact Or.inr (Or.inr (Or.inr (Or.inl (atan2_pos_zero y x hy hx hs))))
  · cases hx : F64.is_sign_positive x.hi
    · cases hs : F64.is_sign_positive y.hi
      · exact Or.inr (Or.inr (Or.inl (atan2_negzero_neg y x hy hx hs)))
      · exact Or.inr (Or.inl (atan2_poszero_neg y x hy hx hs))
    · exact Or.inl (atan2_zero_pos y x hy hx)

/-! ### `asin` / `acos`: domain -/

theorem asin_invalid (x : TwoFloat) (h : TwoFloat.is_valid x = false) : TwoFloat.asin x = TwoFloat.NAN := by
  unfold TwoFloat.asin; simp [h]

/-- |x| > 1 gives NAN -/
theorem asin_abs_gt_one (x : TwoFloat)
    (h : ROrd.isGt (base.impl_PartialOrd_f64_for_TwoFloat.partial_cmp (TwoFloat.abs x) (f64lit 0x3ff0000000000000)) = true) :
    TwoFloat.asin x = TwoFloat.NAN := by
  unfold TwoFloat.asin; simp [h]

theorem NAN_invalid : TwoFloat.is_valid TwoFloat.NAN = false := by decide +kernel

/-- `acos` propagates an invalid `asin` unchanged, so it is NAN on the same domain errors -/
theorem acos_of_asin_NAN (x : TwoFloat) (h : TwoFloat.asin x = TwoFloat.NAN) : TwoFloat.acos x = TwoFloat.NAN := by
  unfold TwoFloat.acos; simp [h, NAN_invalid]

theorem acos_abs_gt_one (x : TwoFloat)
    (h : ROrd.isGt (base.impl_PartialOrd_f64_for_TwoFloat.partial_cmp (TwoFloat.abs x) (f64lit 0x3ff0000000000000)) = true) :
    TwoFloat.acos x = TwoFloat.NAN := acos_of_asin_NAN x (asin_abs_gt_one x h)

theorem acos_invalid (x : TwoFloat) (h : TwoFloat.is_valid x = false) : TwoFloat.acos x = TwoFloat.NAN :=
  acos_of_asin_NAN x (asin_invalid x h)

/-- where asin is valid, acos = π/2 − asin bit for bit -/
theorem acos_eq (x : TwoFloat) (h : TwoFloat.is_valid (TwoFloat.asin x) = true) :
    TwoFloat.acos x = consts.FRAC_PI_2 -. TwoFloat.asin x := by
  unfold TwoFloat.acos; simp only [h, if_true]; rfl

/-- small arguments go straight to the polynomial -/
theorem asin_small (x : TwoFloat) (hv : TwoFloat.is_valid x = true)
    (h1 : ROrd.isGt (base.impl_PartialOrd_f64_for_TwoFloat.partial_cmp (TwoFloat.abs x) (f64lit 0x3ff0000000000000)) = false)
    (h2 : ROrd.isLe (base.impl_PartialOrd_f64_for_TwoFloat.partial_cmp (TwoFloat.abs x) (f64lit 0x3fe0000000000000)) = true) :
    TwoFloat.asin x = trigonometry.restricted_asin x := by
  unfold TwoFloat.asin; simp [hv, h1, h2]

/-! ### `atan` -/

theorem atan_invalid (x : TwoFloat) (h : TwoFloat.is_valid x = false) : TwoFloat.atan x = TwoFloat.NAN := by
  unfold TwoFloat.atan; simp [h]

/-- NOTE: the `is_infinite` branch of `atan` is dead code: an infinite high word is never `is_valid`, so
`atan(±∞)` is NAN, not ±π/2. -/
theorem atan_infinite_is_NAN (x : TwoFloat) (h : F64.is_infinite x.hi = true) : TwoFloat.atan x = TwoFloat.NAN := by
  apply atan_invalid
  cases x with
  | mk hi lo =>
    cases hi <;> simp [F64.is_infinite] at h
    simp [TwoFloat.is_valid, F64.is_finite]

theorem atan_pf_eq : TwoFloat.atan.pf = TwoFloat.is_valid.pf := rfl
theorem asin_pf_eq : TwoFloat.asin.pf = TwoFloat.is_valid.pf := rfl

/-! ### closed instances -/

private abbrev p0 : TwoFloat := ⟨F64.zero, F64.zero⟩
private abbrev n0 : TwoFloat := ⟨F64.negZero, F64.zero⟩
private abbrev p1 : TwoFloat := ⟨F64.one, F64.zero⟩
private abbrev n1 : TwoFloat := ⟨F64.neg F64.one, F64.zero⟩

theorem atan2_0_1 : TwoFloat.atan2 p0 p1 = ⟨F64.zero, F64.zero⟩ := by decide +kernel
theorem atan2_0_m1 : TwoFloat.atan2 p0 n1 = consts.PI := by decide +kernel
theorem atan2_m0_m1 : TwoFloat.atan2 n0 n1 = arithmetic.impl_Neg_for_TwoFloat.neg consts.PI := by decide +kernel
theorem atan2_m0_1 : TwoFloat.atan2 n0 p1 = ⟨F64.zero, F64.zero⟩ := by decide +kernel
theorem atan2_1_0 : TwoFloat.atan2 p1 p0 = consts.FRAC_PI_2 := by decide +kernel
theorem atan2_m1_0 : TwoFloat.atan2 n1 p0 = arithmetic.impl_Neg_for_TwoFloat.neg consts.FRAC_PI_2 := by decide +kernel
theorem atan2_1_m0 : TwoFloat.atan2 p1 n0 = consts.FRAC_PI_2 := by decide +kernel
theorem atan2_0_0 : TwoFloat.atan2 p0 p0 = ⟨F64.zero, F64.zero⟩ := by decide +kernel
theorem atan2_0_m0 : TwoFloat.atan2 p0 n0 = consts.PI := by decide +kernel

theorem asin_zero : TwoFloat.asin p0 = ⟨F64.zero, F64.zero⟩ := by decide +kernel
theorem atan_zero : TwoFloat.atan p0 = ⟨F64.zero, F64.zero⟩ := by decide +kernel
theorem acos_one : TwoFloat.acos p1 = ⟨F64.zero, F64.zero⟩ := by decide +kernel
theorem asin_one : TwoFloat.asin p1 = consts.FRAC_PI_2 := by decide +kernel
theorem asin_minus_one : TwoFloat.asin n1 = arithmetic.impl_Neg_for_TwoFloat.neg consts.FRAC_PI_2 := by decide +kernel
theorem acos_minus_one : TwoFloat.acos n1 = consts.PI := by decide +kernel
theorem acos_zero : TwoFloat.acos p0 = consts.FRAC_PI_2 := by decide +kernel

theorem asin_two : TwoFloat.asin ⟨f64lit 0x4000000000000000, F64.zero⟩ = TwoFloat.NAN := by decide +kernel
theorem acos_two : TwoFloat.acos ⟨f64lit 0x4000000000000000, F64.zero⟩ = TwoFloat.NAN := by decide +kernel
theorem acos_minus_two : TwoFloat.acos ⟨f64lit 0xc000000000000000, F64.zero⟩ = TwoFloat.NAN := by decide +kernel
theorem asin_just_above_one : TwoFloat.asin ⟨F64.one, f64lit 0x0000000000000001⟩ = TwoFloat.NAN := by decide +kernel
theorem atan_INFINITY : TwoFloat.atan TwoFloat.INFINITY = TwoFloat.NAN := by decide +kernel

/-- off the axes, in the kernel: atan2(1, 1) has high word π/4 and atan2(1, −1) has high word 3π/4
(= RN of the exact value 0x4002d97c7f3321d2) -/
example :
    (TwoFloat.atan2 p1 p1).hi = consts.FRAC_PI_4.hi
    ∧ (TwoFloat.atan2 p1 n1).hi = f64lit 0x4002d97c7f3321d2
    ∧ TwoFloat.atan2.pf p1 n1 = true := by
  decide +kernel

end C17
