/-
C19 (structural layer) — remainder: every `%` / `%=` spelling unfolds to `a − trunc(a / b) · b`, and the decision
structure of `div_euclid` / `rem_euclid`.
-/
import TFV.Spec.Defs
import TFV.Lemmas.Ident

namespace C19

/-! ### `a % b = a − trunc(a / b) · b` for the three pairings -/

theorem rem_tt_def (a b : TwoFloat) :
    arithmetic.impl_Rem_rTwoFloat_for_rTwoFloat.rem a b = a -. (TwoFloat.trunc (a /. b) *. b) := rfl

theorem rem_tf_def (a : TwoFloat) (f : F64) :
    arithmetic.impl_Rem_rf64_for_rTwoFloat.rem a f = a -. (TwoFloat.trunc (a /. f) *. f) := rfl

theorem rem_ft_def (f : F64) (b : TwoFloat) :
    arithmetic.impl_Rem_rTwoFloat_for_rf64.rem f b = f -. (TwoFloat.trunc (f /. b) *. b) := rfl

theorem rem_tt_notation (a b : TwoFloat) : a %. b = a -. (TwoFloat.trunc (a /. b) *. b) := rfl
theorem rem_tf_notation (a : TwoFloat) (f : F64) : a %. f = a -. (TwoFloat.trunc (a /. f) *. f) := rfl
theorem rem_ft_notation (f : F64) (b : TwoFloat) : f %. b = f -. (TwoFloat.trunc (f /. b) *. b) := rfl

/-! ### the four by-value / by-reference forms -/

theorem rem_tt_val_ref :
    arithmetic.impl_Rem_TwoFloat_for_rTwoFloat.rem = arithmetic.impl_Rem_rTwoFloat_for_rTwoFloat.rem := rfl
theorem rem_tt_ref_val :
    arithmetic.impl_Rem_rTwoFloat_for_TwoFloat.rem = arithmetic.impl_Rem_rTwoFloat_for_rTwoFloat.rem := rfl
theorem rem_tt_val_val :
    arithmetic.impl_Rem_TwoFloat_for_TwoFloat.rem = arithmetic.impl_Rem_rTwoFloat_for_rTwoFloat.rem := rfl
theorem rem_tf_val_ref :
    arithmetic.impl_Rem_f64_for_rTwoFloat.rem = arithmetic.impl_Rem_rf64_for_rTwoFloat.rem := rfl
theorem rem_tf_ref_val :
    arithmetic.impl_Rem_rf64_for_TwoFloat.rem = arithmetic.impl_Rem_rf64_for_rTwoFloat.rem := rfl
theorem rem_tf_val_val :
    arithmetic.impl_Rem_f64_for_TwoFloat.rem = arithmetic.impl_Rem_rf64_for_rTwoFloat.rem := rfl
theorem rem_ft_val_ref :
    arithmetic.impl_Rem_TwoFloat_for_rf64.rem = arithmetic.impl_Rem_rTwoFloat_for_rf64.rem := rfl
theorem rem_ft_ref_val :
    arithmetic.impl_Rem_rTwoFloat_for_f64.rem = arithmetic.impl_Rem_rTwoFloat_for_rf64.rem := rfl
theorem rem_ft_val_val :
    arithmetic.impl_Rem_TwoFloat_for_f64.rem = arithmetic.impl_Rem_rTwoFloat_for_rf64.rem := rfl

/-! ### `%=` (written with `-=` and a differently-referenced `/` in the Rust source) -/

theorem rem_assign_tt_ref :
    arithmetic.impl_RemAssign_rTwoFloat_for_TwoFloat.rem_assign = arithmetic.impl_Rem_rTwoFloat_for_rTwoFloat.rem := rfl
theorem rem_assign_tt_val :
    arithmetic.impl_RemAssign_TwoFloat_for_TwoFloat.rem_assign = arithmetic.impl_Rem_rTwoFloat_for_rTwoFloat.rem := rfl
theorem rem_assign_tf_ref :
    arithmetic.impl_RemAssign_rf64_for_TwoFloat.rem_assign = arithmetic.impl_Rem_rf64_for_rTwoFloat.rem := rfl
theorem rem_assign_tf_val :
    arithmetic.impl_RemAssign_f64_for_TwoFloat.rem_assign = arithmetic.impl_Rem_rf64_for_rTwoFloat.rem := rfl

theorem rem_assign_tt_def (a b : TwoFloat) :
    arithmetic.impl_RemAssign_TwoFloat_for_TwoFloat.rem_assign a b = a -. (TwoFloat.trunc (a /. b) *. b) := rfl
theorem rem_assign_tf_def (a : TwoFloat) (f : F64) :
    arithmetic.impl_RemAssign_f64_for_TwoFloat.rem_assign a f = a -. (TwoFloat.trunc (a /. f) *. f) := rfl

/-! ### `trunc` is floor for a positive-signed high word, ceil otherwise -/

theorem trunc_of_pos (x : TwoFloat) (h : x.hi.is_sign_positive = true) : TwoFloat.trunc x = TwoFloat.floor x := by
  simp [TwoFloat.trunc, TwoFloat.is_sign_positive, h]

theorem trunc_of_neg (x : TwoFloat) (h : x.hi.is_sign_positive = false) : TwoFloat.trunc x = TwoFloat.ceil x := by
  simp [TwoFloat.trunc, TwoFloat.is_sign_positive, h]

theorem trunc_cases (x : TwoFloat) : TwoFloat.trunc x = TwoFloat.floor x ∨ TwoFloat.trunc x = TwoFloat.ceil x := by
  cases h : x.hi.is_sign_positive
  · exact Or.inr (trunc_of_neg x h)
  · exact Or.inl (trunc_of_pos x h)

/-! ### `div_euclid`: q, q − 1 or q + 1 with q = trunc(a / b) -/

/-- the three-way branch, with its conditions -/
theorem div_euclid_def (a b : TwoFloat) :
    TwoFloat.div_euclid a b =
      (let q := TwoFloat.trunc (a /. b)
       if ROrd.isLt (base.impl_PartialOrd_f64_for_TwoFloat.partial_cmp (a -. (q *. b)) (f64lit 0)) then
         if ROrd.isGt (base.impl_PartialOrd_f64_for_TwoFloat.partial_cmp b (f64lit 0)) then q -. (f64lit 0x3ff0000000000000)
         else q +. (f64lit 0x3ff0000000000000)
       else q) := rfl

/-- the residual tested by `div_euclid` is exactly `a % b` -/
theorem div_euclid_tests_rem (a b : TwoFloat) :
    TwoFloat.div_euclid a b =
      (let q := TwoFloat.trunc (a /. b)
       if ROrd.isLt (base.impl_PartialOrd_f64_for_TwoFloat.partial_cmp (a %. b) (f64lit 0)) then
         if ROrd.isGt (base.impl_PartialOrd_f64_for_TwoFloat.partial_cmp b (f64lit 0)) then q -. (f64lit 0x3ff0000000000000)
         else q +. (f64lit 0x3ff0000000000000)
       else q) := rfl

theorem div_euclid_of_rem_nonneg (a b : TwoFloat)
    (h : ROrd.isLt (base.impl_PartialOrd_f64_for_TwoFloat.partial_cmp (a %. b) (f64lit 0)) = false) :
    TwoFloat.div_euclid a b = TwoFloat.trunc (a /. b) := by
  rw [div_euclid_tests_rem]; simp only [h]; rfl

theorem div_euclid_of_rem_neg_pos (a b : TwoFloat)
    (h : ROrd.isLt (base.impl_PartialOrd_f64_for_TwoFloat.partial_cmp (a %. b) (f64lit 0)) = true)
    (hb : ROrd.isGt (base.impl_PartialOrd_f64_for_TwoFloat.partial_cmp b (f64lit 0)) = true) :
    TwoFloat.div_euclid a b = TwoFloat.trunc (a /. b) -. (f64lit 0x3ff0000000000000) := by
  rw [div_euclid_tests_rem]; simp only [h, hb]; rfl

theorem div_euclid_of_rem_neg_nonpos (a b : TwoFloat)
    (h : ROrd.isLt (base.impl_PartialOrd_f64_for_TwoFloat.partial_cmp (a %. b) (f64lit 0)) = true)
    (hb : ROrd.isGt (base.impl_PartialOrd_f64_for_TwoFloat.partial_cmp b (f64lit 0)) = false) :
    TwoFloat.div_euclid a b = TwoFloat.trunc (a /. b) +. (f64lit 0x3ff0000000000000) := by
  rw [div_euclid_tests_rem]; simp only [h, hb]; rfl

theorem div_euclid_cases (a b : TwoFloat) :
    let q := TwoFloat.trunc (a /. b)
    TwoFloat.div_euclid a b = q
      ∨ TwoFloat.div_euclid a b = q -. (f64lit 0x3ff0000000000000)
      ∨ TwoFloat.div_euclid a b = q +. (f64lit 0x3ff0000000000000) := by
  intro q
  cases h : ROrd.isLt (base.impl_PartialOrd_f64_for_TwoFloat.partial_cmp (a %. b) (f64lit 0))
  · exact Or.inl (div_euclid_of_rem_nonneg a b h)
  · cases hb : ROrd.isGt (base.impl_PartialOrd_f64_for_TwoFloat.partial_cmp b (f64lit 0))
    · exact Or.inr (Or.inr (div_euclid_of_rem_neg_nonpos a b h hb))
    · exact Or.inr (Or.inl (div_euclid_of_rem_neg_pos a b h hb))

/-! ### `rem_euclid`: r or r + |b| with r = a % b -/

theorem rem_euclid_def (a b : TwoFloat) :
    TwoFloat.rem_euclid a b =
      (let r := a %. b
       if ROrd.isLt (base.impl_PartialOrd_f64_for_TwoFloat.partial_cmp r (f64lit 0)) then r +. TwoFloat.abs b else r) := rfl

theorem rem_euclid_of_rem_nonneg (a b : TwoFloat)
    (h : ROrd.isLt (base.impl_PartialOrd_f64_for_TwoFloat.partial_cmp (a %. b) (f64lit 0)) = false) :
    TwoFloat.rem_euclid a b = a %. b := by
  rw [rem_euclid_def]; simp only [h]; rfl

theorem rem_euclid_of_rem_neg (a b : TwoFloat)
    (h : ROrd.isLt (base.impl_PartialOrd_f64_for_TwoFloat.partial_cmp (a %. b) (f64lit 0)) = true) :
    TwoFloat.rem_euclid a b = (a %. b) +. TwoFloat.abs b := by
  rw [rem_euclid_def]; simp only [h]; rfl

theorem rem_euclid_cases (a b : TwoFloat) :
    TwoFloat.rem_euclid a b = a %. b ∨ TwoFloat.rem_euclid a b = (a %. b) +. TwoFloat.abs b := by
  cases h : ROrd.isLt (base.impl_PartialOrd_f64_for_TwoFloat.partial_cmp (a %. b) (f64lit 0))
  · exact Or.inl (rem_euclid_of_rem_nonneg a b h)
  · exact Or.inr (rem_euclid_of_rem_neg a b h)

/-- the two Euclidean operations branch on the same test: `div_euclid` leaves q alone exactly when
`rem_euclid` leaves r alone -/
theorem euclid_branches_agree (a b : TwoFloat) :
    (TwoFloat.rem_euclid a b = a %. b ∧ TwoFloat.div_euclid a b = TwoFloat.trunc (a /. b))
    ∨ (TwoFloat.rem_euclid a b = (a %. b) +. TwoFloat.abs b
        ∧ (TwoFloat.div_euclid a b = TwoFloat.trunc (a /. b) -. (f64lit 0x3ff0000000000000)
          ∨ TwoFloat.div_euclid a b = TwoFloat.trunc (a /. b) +. (f64lit 0x3ff0000000000000))) := by
  cases h : ROrd.isLt (base.impl_PartialOrd_f64_for_TwoFloat.partial_cmp (a %. b) (f64lit 0))
  · exact Or.inl ⟨rem_euclid_of_rem_nonneg a b h, div_euclid_of_rem_nonneg a b h⟩
  · refine Or.inr ⟨rem_euclid_of_rem_neg a b h, ?_⟩
    cases hb : ROrd.isGt (base.impl_PartialOrd_f64_for_TwoFloat.partial_cmp b (f64lit 0))
    · exact Or.inr (div_euclid_of_rem_neg_nonpos a b h hb)
    · exact Or.inl (div_euclid_of_rem_neg_pos a b h hb)

/-! ### closed instances -/

/-- 7 % 3 = 1, −7 % 3 = −1 (sign of the dividend), −7 rem_euclid 3 = 2, −7 div_euclid 3 = −3 -/
example :
    (⟨f64lit 0x401c000000000000, F64.zero⟩ : TwoFloat) %. (⟨f64lit 0x4008000000000000, F64.zero⟩ : TwoFloat)
      = ⟨F64.one, F64.zero⟩
    ∧ (⟨f64lit 0xc01c000000000000, F64.zero⟩ : TwoFloat) %. (⟨f64lit 0x4008000000000000, F64.zero⟩ : TwoFloat)
      = ⟨f64lit 0xbff0000000000000, F64.zero⟩
    ∧ TwoFloat.rem_euclid ⟨f64lit 0xc01c000000000000, F64.zero⟩ ⟨f64lit 0x4008000000000000, F64.zero⟩
      = ⟨f64lit 0x4000000000000000, F64.zero⟩
    ∧ TwoFloat.div_euclid ⟨f64lit 0xc01c000000000000, F64.zero⟩ ⟨f64lit 0x4008000000000000, F64.zero⟩
      = ⟨f64lit 0xc008000000000000, F64.zero⟩ := by
  decide +kernel

end C19
