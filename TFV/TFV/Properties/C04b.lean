/-
C04b (numerical layer) — the error bounds of multiplication.

* `TwoFloat * f64`, `f64 * TwoFloat` (DWTimesFP3, Joldes–Muller–Popescu 2017, Algorithm 9): relative error at most
  `2u² = 2·2^-106 = 2^-105`, PROVED WITH THE PAPER'S CONSTANT (`mul_tf_f64_bound`, `mul_f64_tf_bound`).
* `TwoFloat * TwoFloat` (DWTimesDW3, Algorithm 12, in the crate's operation order), PARTIAL:
  `mul_tt_bound_5u2_12u3_partial` — relative error at most `5u² + 12u³` on the property's range;
  `mul_tt_bound_7u2_partial` — at most `7u²` on the wide range "leading product 0 or in `[2^-960, 2^1021)`".
  OPEN: the property's constant `5u²` exactly, i.e.
  `|(x *. y).V * unit - x.V * y.V| * 2^106 ≤ 5 * |x.V * y.V|`.

Units: `F64.toInt` is the value in units of `2^-1074`, so a product of two values lives in units of `2^-2148`:
the exact product is `x.V * f.toInt`, and the result `r` is `r.V * 2^1074` (`F64.unit = 2^1074`) in the same units.
`|r.V * unit - x.V * f.toInt| * 2^105 ≤ |x.V * f.toInt|` is "relative error ≤ 2^-105" without division.  Each theorem
also asserts that the result is `Valid` (both words finite, normalised).

Range (general form): `x.hi * f` is `0` or in `[2^-960, 2^1021)`, i.e. `2^1188 ≤ |x.hi.toInt * f.toInt| < 2^3169`
— no underflow in the error-free product 2Prod, no overflow.  The property's range (`x.hi`, `f` zero or in
`[2^-450, 2^450]`) is the special case `*_bound_c04`.

The proofs are in `TFV/Lemmas/Bounds.lean` (`F64.dwtimesfp_err` is the integer statement).
-/
import TFV.Lemmas.Bounds

set_option exponentiation.threshold 4000

namespace C04b

open F64 TwoFloat

/-- `TwoFloat * f64` -/
theorem mul_tf_f64_bound {x : TwoFloat} {f : F64} (hv : x.Valid) (hw : x.WF)
    (hff : f.is_finite = true) (hwf : f.WF)
    (hr : x.hi.toInt * f.toInt = 0 ∨
      ((2 : Int) ^ 1188 ≤ |x.hi.toInt * f.toInt| ∧ |x.hi.toInt * f.toInt| < (2 : Int) ^ 3169)) :
    (arithmetic.impl_Mul_rf64_for_rTwoFloat.mul x f).Valid ∧
    |(arithmetic.impl_Mul_rf64_for_rTwoFloat.mul x f).V * (unit : Int) - x.V * f.toInt| * 2 ^ 105
      ≤ |x.V * f.toInt| :=
  mul_tf_bound hv hw hff hwf hr

/-- `f64 * TwoFloat` -/
theorem mul_f64_tf_bound {x : TwoFloat} {f : F64} (hv : x.Valid) (hw : x.WF)
    (hff : f.is_finite = true) (hwf : f.WF)
    (hr : x.hi.toInt * f.toInt = 0 ∨
      ((2 : Int) ^ 1188 ≤ |x.hi.toInt * f.toInt| ∧ |x.hi.toInt * f.toInt| < (2 : Int) ^ 3169)) :
    (arithmetic.impl_Mul_rTwoFloat_for_rf64.mul f x).Valid ∧
    |(arithmetic.impl_Mul_rTwoFloat_for_rf64.mul f x).V * (unit : Int) - f.toInt * x.V| * 2 ^ 105
      ≤ |f.toInt * x.V| :=
  mul_ft_bound hv hw hff hwf hr

/-! ### the range of property C04: words zero or of magnitude in `[2^-450, 2^450]` (scaled `[2^624, 2^1524]`) -/

/-- the word range of C04 implies the product range -/
theorem range_of_words {a b : Int}
    (ha : a = 0 ∨ (2 ^ 624 ≤ a.natAbs ∧ a.natAbs ≤ 2 ^ 1524))
    (hb : b = 0 ∨ (2 ^ 624 ≤ b.natAbs ∧ b.natAbs ≤ 2 ^ 1524)) :
    a * b = 0 ∨ ((2 : Int) ^ 1188 ≤ |a * b| ∧ |a * b| < (2 : Int) ^ 3169) := by
  rcases ha with ha | ⟨ha1, ha2⟩
  · exact Or.inl (by rw [ha, zero_mul])
  rcases hb with hb | ⟨hb1, hb2⟩
  · exact Or.inl (by rw [hb, mul_zero])
  right
  have h1 : (2 : Int) ^ 624 ≤ |a| := by rw [← Int.natCast_natAbs a]; exact_mod_cast ha1
  have h2 : |a| ≤ (2 : Int) ^ 1524 := by rw [← Int.natCast_natAbs a]; exact_mod_cast ha2
  have h3 : (2 : Int) ^ 624 ≤ |b| := by rw [← Int.natCast_natAbs b]; exact_mod_cast hb1
  have h4 : |b| ≤ (2 : Int) ^ 1524 := by rw [← Int.natCast_natAbs b]; exact_mod_cast hb2
  rw [abs_mul]
  constructor
  · calc (2 : Int) ^ 1188 ≤ 2 ^ 624 * 2 ^ 624 := by
          rw [← pow_add]; exact pow_le_pow_right₀ (by norm_num) (by norm_num)
      _ ≤ |a| * |b| := mul_le_mul h1 h3 (by positivity) (abs_nonneg a)
  · calc |a| * |b| ≤ 2 ^ 1524 * 2 ^ 1524 := mul_le_mul h2 h4 (abs_nonneg b) (by positivity)
      _ < (2 : Int) ^ 3169 := by
          rw [← pow_add]; exact pow_lt_pow_right₀ (by norm_num) (by norm_num)

theorem mul_tf_f64_bound_c04 {x : TwoFloat} {f : F64} (hv : x.Valid) (hw : x.WF)
    (hff : f.is_finite = true) (hwf : f.WF)
    (hx : x.hi.toInt = 0 ∨ (2 ^ 624 ≤ x.hi.toInt.natAbs ∧ x.hi.toInt.natAbs ≤ 2 ^ 1524))
    (hf : f.toInt = 0 ∨ (2 ^ 624 ≤ f.toInt.natAbs ∧ f.toInt.natAbs ≤ 2 ^ 1524)) :
    (x *. f).Valid ∧ |(x *. f).V * (unit : Int) - x.V * f.toInt| * 2 ^ 105 ≤ |x.V * f.toInt| :=
  mul_tf_bound hv hw hff hwf (range_of_words hx hf)

theorem mul_f64_tf_bound_c04 {x : TwoFloat} {f : F64} (hv : x.Valid) (hw : x.WF)
    (hff : f.is_finite = true) (hwf : f.WF)
    (hx : x.hi.toInt = 0 ∨ (2 ^ 624 ≤ x.hi.toInt.natAbs ∧ x.hi.toInt.natAbs ≤ 2 ^ 1524))
    (hf : f.toInt = 0 ∨ (2 ^ 624 ≤ f.toInt.natAbs ∧ f.toInt.natAbs ≤ 2 ^ 1524)) :
    (f *. x).Valid ∧ |(f *. x).V * (unit : Int) - f.toInt * x.V| * 2 ^ 105 ≤ |f.toInt * x.V| :=
  mul_ft_bound hv hw hff hwf (range_of_words hx hf)

/-- `*=` -/
theorem mul_assign_tf_bound_c04 {x : TwoFloat} {f : F64} (hv : x.Valid) (hw : x.WF)
    (hff : f.is_finite = true) (hwf : f.WF)
    (hx : x.hi.toInt = 0 ∨ (2 ^ 624 ≤ x.hi.toInt.natAbs ∧ x.hi.toInt.natAbs ≤ 2 ^ 1524))
    (hf : f.toInt = 0 ∨ (2 ^ 624 ≤ f.toInt.natAbs ∧ f.toInt.natAbs ≤ 2 ^ 1524)) :
    (arithmetic.impl_MulAssign_f64_for_TwoFloat.mul_assign x f).Valid ∧
    |(arithmetic.impl_MulAssign_f64_for_TwoFloat.mul_assign x f).V * (unit : Int) - x.V * f.toInt| * 2 ^ 105
      ≤ |x.V * f.toInt| :=
  mul_tf_bound hv hw hff hwf (range_of_words hx hf)

/-- a zero factor gives an exactly zero product value -/
theorem mul_tf_f64_zero {x : TwoFloat} {f : F64} (hv : x.Valid) (hw : x.WF)
    (hff : f.is_finite = true) (hwf : f.WF) (h0 : x.hi.toInt = 0 ∨ f.toInt = 0) :
    (x *. f).V = 0 := by
  have hr : x.hi.toInt * f.toInt = 0 := by
    rcases h0 with h | h
    · rw [h, zero_mul]
    · rw [h, mul_zero]
  have hV : x.V * f.toInt = 0 := by
    rcases h0 with h | h
    · have hl := TwoFloat.Valid.abs_lo_le hv
      rw [h, abs_zero] at hl
      have : x.lo.toInt = 0 := abs_eq_zero.1 (le_antisymm hl (abs_nonneg _))
      unfold TwoFloat.V; rw [h, this]; simp
    · rw [h, mul_zero]
  have h := (mul_tf_bound hv hw hff hwf (Or.inl hr)).2
  rw [hV, abs_zero, sub_zero] at h
  have h1 := abs_nonneg ((arithmetic.impl_Mul_rf64_for_rTwoFloat.mul x f).V * (unit : Int))
  have h2 : |(arithmetic.impl_Mul_rf64_for_rTwoFloat.mul x f).V * (unit : Int)| = 0 := by omega
  have h3 := abs_eq_zero.1 h2
  rcases mul_eq_zero.1 h3 with h | h
  · exact h
  · have := unit_pos; omega

/-! ### `TwoFloat * TwoFloat` (DWTimesDW3), partial constants -/

/-- PARTIAL (`5u² + 12u³` instead of `5u²`): the property's range, high words of magnitude in `[2^-450, 2^450]`.
Target statement (open): `|(x *. y).V * unit - x.V * y.V| * 2^106 ≤ 5 * |x.V * y.V|`. -/
theorem mul_tt_bound_5u2_12u3_partial {x y : TwoFloat} (hvx : x.Valid) (hwx : x.WF) (hvy : y.Valid) (hwy : y.WF)
    (hx : 2 ^ 624 ≤ x.hi.toInt.natAbs ∧ x.hi.toInt.natAbs ≤ 2 ^ 1524)
    (hy : 2 ^ 624 ≤ y.hi.toInt.natAbs ∧ y.hi.toInt.natAbs ≤ 2 ^ 1524) :
    (x *. y).Valid ∧
    |(x *. y).V * (unit : Int) - x.V * y.V| * 2 ^ 159 ≤ (5 * 2 ^ 53 + 12) * |x.V * y.V| :=
  TwoFloat.mul_tt_bound_5u2_12u3_partial hvx hwx hvy hwy hx hy

/-- the same with the round constant `6u²` -/
theorem mul_tt_bound_6u2_partial {x y : TwoFloat} (hvx : x.Valid) (hwx : x.WF) (hvy : y.Valid) (hwy : y.WF)
    (hx : 2 ^ 624 ≤ x.hi.toInt.natAbs ∧ x.hi.toInt.natAbs ≤ 2 ^ 1524)
    (hy : 2 ^ 624 ≤ y.hi.toInt.natAbs ∧ y.hi.toInt.natAbs ≤ 2 ^ 1524) :
    |(x *. y).V * (unit : Int) - x.V * y.V| * 2 ^ 106 ≤ 6 * |x.V * y.V| := by
  have h := (TwoFloat.mul_tt_bound_5u2_12u3_partial hvx hwx hvy hwy hx hy).2
  have h1 := abs_nonneg ((arithmetic.impl_Mul_rTwoFloat_for_rTwoFloat.mul x y).V * (unit : Int) - x.V * y.V)
  have h2 := abs_nonneg (x.V * y.V)
  show |(arithmetic.impl_Mul_rTwoFloat_for_rTwoFloat.mul x y).V * (unit : Int) - x.V * y.V| * 2 ^ 106
    ≤ 6 * |x.V * y.V|
  omega

/-- PARTIAL (`7u²` instead of `5u²`), wide range: `x.hi·y.hi` is `0` or in `[2^-960, 2^1021)` -/
theorem mul_tt_bound_7u2_partial {x y : TwoFloat} (hvx : x.Valid) (hwx : x.WF) (hvy : y.Valid) (hwy : y.WF)
    (hr : x.hi.toInt * y.hi.toInt = 0 ∨
      ((2 : Int) ^ 1188 ≤ |x.hi.toInt * y.hi.toInt| ∧ |x.hi.toInt * y.hi.toInt| < (2 : Int) ^ 3169)) :
    (x *. y).Valid ∧ |(x *. y).V * (unit : Int) - x.V * y.V| * 2 ^ 106 ≤ 7 * |x.V * y.V| :=
  TwoFloat.mul_tt_bound_7u2_partial hvx hwx hvy hwy hr

/-- `*=` on TwoFloat operands -/
theorem mul_assign_tt_bound_5u2_12u3_partial {x y : TwoFloat} (hvx : x.Valid) (hwx : x.WF) (hvy : y.Valid)
    (hwy : y.WF) (hx : 2 ^ 624 ≤ x.hi.toInt.natAbs ∧ x.hi.toInt.natAbs ≤ 2 ^ 1524)
    (hy : 2 ^ 624 ≤ y.hi.toInt.natAbs ∧ y.hi.toInt.natAbs ≤ 2 ^ 1524) :
    (arithmetic.impl_MulAssign_TwoFloat_for_TwoFloat.mul_assign x y).Valid ∧
    |(arithmetic.impl_MulAssign_TwoFloat_for_TwoFloat.mul_assign x y).V * (unit : Int) - x.V * y.V| * 2 ^ 159
      ≤ (5 * 2 ^ 53 + 12) * |x.V * y.V| :=
  TwoFloat.mul_tt_bound_5u2_12u3_partial hvx hwx hvy hwy hx hy

/-- a zero factor gives an exactly zero product value (TwoFloat × TwoFloat) -/
theorem mul_tt_zero {x y : TwoFloat} (hvx : x.Valid) (hwx : x.WF) (hvy : y.Valid) (hwy : y.WF)
    (h0 : x.hi.toInt = 0 ∨ y.hi.toInt = 0) : (x *. y).V = 0 := by
  have hr : x.hi.toInt * y.hi.toInt = 0 := by
    rcases h0 with h | h
    · rw [h, zero_mul]
    · rw [h, mul_zero]
  have hV : x.V * y.V = 0 := by
    rcases h0 with h | h
    · have hl := TwoFloat.Valid.abs_lo_le hvx
      rw [h, abs_zero] at hl
      have : x.lo.toInt = 0 := abs_eq_zero.1 (le_antisymm hl (abs_nonneg _))
      unfold TwoFloat.V; rw [h, this]; simp
    · have hl := TwoFloat.Valid.abs_lo_le hvy
      rw [h, abs_zero] at hl
      have : y.lo.toInt = 0 := abs_eq_zero.1 (le_antisymm hl (abs_nonneg _))
      unfold TwoFloat.V; rw [h, this]; simp
  have h := (TwoFloat.mul_tt_bound_7u2_partial hvx hwx hvy hwy (Or.inl hr)).2
  rw [hV, abs_zero, sub_zero, mul_zero] at h
  have h1 := abs_nonneg ((arithmetic.impl_Mul_rTwoFloat_for_rTwoFloat.mul x y).V * (unit : Int))
  have h2 : |(arithmetic.impl_Mul_rTwoFloat_for_rTwoFloat.mul x y).V * (unit : Int)| = 0 := by omega
  have h3 := abs_eq_zero.1 h2
  rcases mul_eq_zero.1 h3 with h | h
  · exact h
  · have := unit_pos; omega

/-! ### instances on concrete operands (hypotheses discharged by kernel evaluation) -/

/-- π × e -/
example :
    |(consts.PI *. consts.E).V * (unit : Int) - consts.PI.V * consts.E.V| * 2 ^ 159
      ≤ (5 * 2 ^ 53 + 12) * |consts.PI.V * consts.E.V| :=
  (mul_tt_bound_5u2_12u3_partial (x := consts.PI) (y := consts.E)
    (by decide +kernel) ⟨by decide +kernel, by decide +kernel⟩
    (by decide +kernel) ⟨by decide +kernel, by decide +kernel⟩ (by decide +kernel) (by decide +kernel)).2

/-- half-ulp low words next to powers of two: (1, 2^-53) × (1, 2^-53) -/
example :
    let x : TwoFloat := ⟨f64lit 0x3ff0000000000000, f64lit 0x3ca0000000000000⟩
    (x *. x).Valid ∧ |(x *. x).V * (unit : Int) - x.V * x.V| * 2 ^ 159 ≤ (5 * 2 ^ 53 + 12) * |x.V * x.V| :=
  mul_tt_bound_5u2_12u3_partial (x := ⟨f64lit 0x3ff0000000000000, f64lit 0x3ca0000000000000⟩)
    (y := ⟨f64lit 0x3ff0000000000000, f64lit 0x3ca0000000000000⟩)
    (by decide +kernel) ⟨by decide +kernel, by decide +kernel⟩
    (by decide +kernel) ⟨by decide +kernel, by decide +kernel⟩ (by decide +kernel) (by decide +kernel)

/-- π × 10^10 -/
example :
    |(consts.PI *. f64lit 0x4202a05f20000000).V * (unit : Int) - consts.PI.V * (f64lit 0x4202a05f20000000).toInt|
        * 2 ^ 105
      ≤ |consts.PI.V * (f64lit 0x4202a05f20000000).toInt| :=
  (mul_tf_f64_bound_c04 (x := consts.PI) (f := f64lit 0x4202a05f20000000)
    (by decide +kernel) ⟨by decide +kernel, by decide +kernel⟩ (by decide +kernel) (by decide +kernel)
    (by decide +kernel) (by decide +kernel)).2

/-- half-ulp low word next to a power of two: x = (1, -2^-54), f = 1 + 2^-52 (largest relative low word) -/
example :
    let x : TwoFloat := ⟨f64lit 0x3ff0000000000000, f64lit 0xbc90000000000000⟩
    let f := f64lit 0x3ff0000000000001
    (f *. x).Valid ∧ |(f *. x).V * (unit : Int) - f.toInt * x.V| * 2 ^ 105 ≤ |f.toInt * x.V| :=
  mul_f64_tf_bound_c04 (x := ⟨f64lit 0x3ff0000000000000, f64lit 0xbc90000000000000⟩) (f := f64lit 0x3ff0000000000001)
    (by decide +kernel) ⟨by decide +kernel, by decide +kernel⟩ (by decide +kernel) (by decide +kernel)
    (by decide +kernel) (by decide +kernel)

end C04b
