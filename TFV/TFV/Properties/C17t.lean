/-
C17t — accuracy of `TwoFloat::asin` / `acos` (and `atan`) against `Real.arcsin` / `Real.arccos` / `Real.arctan`.

Notation as in C16t: `val t : ℚ` the exact value `hi + lo`, `rval t : ℝ` its cast.
-/
import TFV.Properties.C16u
import TFV.Properties.C13s
import TFV.Properties.C17
import TFV.Properties.C17p

set_option exponentiation.threshold 3000

namespace C17t

open F64 TwoFloat PowiBound TrigBound ATrigBound C16t C16u

/-! ## 0. the tables of `ATrigBound` are the model's tables -/

theorem ASIN_COEFFS_val : trigonometry.ASIN_COEFFS.map val = asinCoeffs := by decide +kernel

theorem ASIN_COEFFS_ok : ∀ c ∈ trigonometry.ASIN_COEFFS, c.Valid ∧ c.WF := by decide +kernel

theorem asin_hBnd : hBnd asinT0 asinCoeffs = true := by decide +kernel

theorem asin_innerZero : InnerZero trigonometry.ASIN_COEFFS := by
  intro s u
  cases s <;> cases u <;> decide +kernel

/-! ## 1. `restricted_asin` against `Real.arcsin` -/

theorem sq_le_asinT0 {v : ℚ} (h : |v| ≤ asinRho) : v ^ 2 ≤ asinT0 := by
  have h2 := pow_le_pow_left₀ (abs_nonneg v) h 2
  rw [sq_abs] at h2
  refine le_trans h2 ?_
  unfold asinRho asinT0
  norm_num

/-- rounding error of `restricted_asin` against the exact rational polynomial, all valid `|x| ≤ 1/2 + 2^-17` -/
theorem restricted_asin_bound {x : TwoFloat} (hv : x.Valid) (hw : x.WF) (hhi : |val x| ≤ asinRho) :
    (trigonometry.restricted_asin x).Valid ∧ (trigonometry.restricted_asin x).WF ∧
    |val (trigonometry.restricted_asin x) - asinPolyQ (val x)| ≤ |val x| * 12 / 2 ^ 99 + 1 / 2 ^ 949 := by
  have h := restrictedM_bound (cs := trigonometry.ASIN_COEFFS) (by decide) (by decide) ASIN_COEFFS_ok
    (T := asinT0) (by unfold asinT0; norm_num) (by rw [ASIN_COEFFS_val]; exact asin_hBnd) hv hw (sq_le_asinT0 hhi)
  rw [ASIN_COEFFS_val] at h
  rw [restricted_asin_eq]
  have e : ((trigonometry.ASIN_COEFFS.length + 2 : ℕ) : ℚ) = 12 := by
    have : trigonometry.ASIN_COEFFS.length = 10 := by decide
    rw [this]; norm_num
  rw [e] at h
  exact h

theorem rval_asinRho {x : TwoFloat} (hhi : |val x| ≤ asinRho) : |rval x| ≤ (asinRho : ℝ) := rval_le hhi

/-- **`restricted_asin` against `Real.arcsin`**: all valid `|x| ≤ 1/2 + 2^-17`:
error `≤ |x|·(2^-45 + 2^-49) + 2^-949` and `≤ 10·2^-50` -/
theorem restricted_asin_real {x : TwoFloat} (hv : x.Valid) (hw : x.WF) (hhi : |val x| ≤ asinRho) :
    (trigonometry.restricted_asin x).Valid ∧ (trigonometry.restricted_asin x).WF ∧
    |rval (trigonometry.restricted_asin x) - Real.arcsin (rval x)|
      ≤ |rval x| * (1 / 2 ^ 45 + 1 / 2 ^ 49) + 1 / 2 ^ 949 ∧
    |rval (trigonometry.restricted_asin x) - Real.arcsin (rval x)| ≤ 10 / 2 ^ 50 := by
  obtain ⟨hV, hW, hb⟩ := restricted_asin_bound hv hw hhi
  have hr := rval_asinRho hhi
  have hr2 : |rval x| ≤ 33 / 64 := by
    refine le_trans hr ?_
    unfold asinRho; push_cast; norm_num
  have hb' : |rval (trigonometry.restricted_asin x) - AsinPoly (rval x)| ≤ |rval x| * 12 / 2 ^ 99 + 1 / 2 ^ 949 := by
    have := (Rat.cast_le (K := ℝ)).2 hb
    rw [Rat.cast_abs, Rat.cast_sub, asinPolyQ_cast] at this
    rw [abs_rval]
    push_cast at this ⊢
    exact this
  have e : rval (trigonometry.restricted_asin x) - Real.arcsin (rval x)
      = (rval (trigonometry.restricted_asin x) - AsinPoly (rval x)) - (Real.arcsin (rval x) - AsinPoly (rval x)) := by
    ring
  have t1 : |rval (trigonometry.restricted_asin x) - Real.arcsin (rval x)|
      ≤ |rval (trigonometry.restricted_asin x) - AsinPoly (rval x)| + |Real.arcsin (rval x) - AsinPoly (rval x)| := by
    rw [e]; exact abs_sub _ _
  refine ⟨hV, hW, ?_, ?_⟩
  · have := asin_poly_rel hr
    have e2 : |rval x| * (1 / 2 ^ 45 + 1 / 2 ^ 49)
        = |rval x| * (1 / 2 ^ 45 + 1 / 2 ^ 50) + |rval x| * (1 / 2 ^ 50) := by ring
    have h3 : |rval x| * 12 / 2 ^ 99 ≤ |rval x| * (1 / 2 ^ 50) := by
      rw [mul_div_assoc]
      exact mul_le_mul_of_nonneg_left (by norm_num) (abs_nonneg _)
    rw [e2]; linarith
  · have := asin_poly_abs hr
    have h3 : |rval x| * 12 / 2 ^ 99 ≤ 33 / 64 * 12 / 2 ^ 99 := by
      have := mul_le_mul_of_nonneg_right hr2 (by norm_num : (0 : ℝ) ≤ 12)
      exact div_le_div_of_nonneg_right this (by positivity)
    have : (33 : ℝ) / 64 * 12 / 2 ^ 99 + 1 / 2 ^ 949 + 9 / 2 ^ 50 ≤ 10 / 2 ^ 50 := by norm_num
    linarith

/-- **`restricted_asin` relative to `|x|`, all valid `|x| ≤ 1/2 + 2^-17`** (`|x| ≤ 2^-540`: exact) -/
theorem restricted_asin_rel {x : TwoFloat} (hv : x.Valid) (hw : x.WF) (hhi : |val x| ≤ asinRho) :
    |rval (trigonometry.restricted_asin x) - Real.arcsin (rval x)| ≤ |rval x| * (1 / 2 ^ 45 + 1 / 2 ^ 48) := by
  by_cases hdeep : |val x| ≤ 1 / 2 ^ 540
  · obtain ⟨_, he⟩ := restrictedM_deep asin_innerZero hv hw hdeep
    rw [← restricted_asin_eq] at he
    have e1 : rval (trigonometry.restricted_asin x) = rval x := by unfold rval; rw [he]
    have hr : |rval x| ≤ 1 / 2 ^ 540 := by have := rval_le hdeep; push_cast at this; exact this
    have hT := arcsin_taylor (r := rval x) (le_trans hr (by unfold asinRho; push_cast; norm_num))
    -- arcsin r − r = (arcsin r − r·T(r²)) + r·(T(r²) − 1), and T(t) − 1 = t·(…)
    have hA := asin_poly_rel (r := rval x) (le_trans hr (by unfold asinRho; push_cast; norm_num))
    have hP : |AsinPoly (rval x) - rval x| ≤ |rval x| * (1 / 2 ^ 1000) := by
      unfold AsinPoly
      have e : rval x * (rval x ^ 2 * peval asinCoeffs (rval x ^ 2) + 1) - rval x
          = rval x * (rval x ^ 2 * peval asinCoeffs (rval x ^ 2)) := by ring
      rw [e, abs_mul]
      refine mul_le_mul_of_nonneg_left ?_ (abs_nonneg _)
      have hsq : rval x ^ 2 ≤ 1 / 2 ^ 1080 := by
        have := pow_le_pow_left₀ (abs_nonneg _) hr 2
        rw [sq_abs] at this
        refine le_trans this ?_
        norm_num
      have hpe : |peval asinCoeffs (rval x ^ 2)| ≤ 1 := by
        have h1 := peval_le_absb asinCoeffs (h := 1) (s := rval x ^ 2)
          (by rw [abs_of_nonneg (sq_nonneg _)]; push_cast; exact le_trans hsq (by norm_num))
        refine le_trans h1 ?_
        have : absb asinCoeffs 1 ≤ 1 := by decide +kernel
        exact_mod_cast this
      rw [abs_mul, abs_of_nonneg (sq_nonneg _)]
      have := mul_le_mul hsq hpe (abs_nonneg _) (by positivity)
      refine le_trans this ?_
      norm_num
    rw [e1]
    have e : rval x - Real.arcsin (rval x)
        = -(Real.arcsin (rval x) - AsinPoly (rval x)) - (AsinPoly (rval x) - rval x) := by ring
    rw [e]
    refine le_trans (abs_sub _ _) ?_
    rw [abs_neg]
    have : |rval x| * (1 / 2 ^ 45 + 1 / 2 ^ 50) + |rval x| * (1 / 2 ^ 1000)
        ≤ |rval x| * (1 / 2 ^ 45 + 1 / 2 ^ 48) := by
      rw [← mul_add]
      exact mul_le_mul_of_nonneg_left (by norm_num) (abs_nonneg _)
    linarith
  · have hn : (1 : ℚ) / 2 ^ 540 ≤ |val x| := (not_le.1 hdeep).le
    obtain ⟨_, _, h2, _⟩ := restricted_asin_real hv hw hhi
    refine le_trans h2 ?_
    have hr : (1 : ℝ) / 2 ^ 540 ≤ |rval x| := by
      rw [abs_rval]
      have := (Rat.cast_le (K := ℝ)).2 hn
      rw [Rat.cast_div, Rat.cast_one, Rat.cast_pow, Rat.cast_ofNat] at this
      exact this
    have h3 : (1 : ℝ) / 2 ^ 949 ≤ |rval x| * (1 / 2 ^ 409) := by
      have := mul_le_mul_of_nonneg_right hr (by positivity : (0 : ℝ) ≤ 1 / 2 ^ 409)
      refine le_trans (le_of_eq ?_) this
      norm_num
    have h4 : |rval x| * (1 / 2 ^ 45 + 1 / 2 ^ 49) + |rval x| * (1 / 2 ^ 409)
        ≤ |rval x| * (1 / 2 ^ 45 + 1 / 2 ^ 48) := by
      rw [← mul_add]
      exact mul_le_mul_of_nonneg_left (by norm_num) (abs_nonneg _)
    linarith

/-! ## 2. operator glue in rational form -/

theorem half_facts : (f64lit 0x3fe0000000000000).is_finite = true ∧ (f64lit 0x3fe0000000000000).WF ∧
    (f64lit 0x3fe0000000000000).toInt = 2 ^ 1073 := by decide +kernel

theorem two_facts : (f64lit 0x4000000000000000).is_finite = true ∧ (f64lit 0x4000000000000000).WF ∧
    (f64lit 0x4000000000000000).toInt = 2 ^ 1075 ∧
    2 ^ 624 ≤ (f64lit 0x4000000000000000).toInt.natAbs ∧ (f64lit 0x4000000000000000).toInt.natAbs ≤ 2 ^ 1524 := by
  decide +kernel

theorem one_natAbs : (f64lit 0x3ff0000000000000).toInt.natAbs < 2 ^ 2095 := by decide +kernel

/-- `1.0 - a` (f64 − TwoFloat) -/
theorem one_sub_val {a : TwoFloat} (hv : a.Valid) (hw : a.WF) (ha : |val a| ≤ 2 ^ 30) :
    (arithmetic.impl_Sub_rTwoFloat_for_rf64.sub (f64lit 0x3ff0000000000000) a).Valid ∧
    (arithmetic.impl_Sub_rTwoFloat_for_rf64.sub (f64lit 0x3ff0000000000000) a).WF ∧
    |val (arithmetic.impl_Sub_rTwoFloat_for_rf64.sub (f64lit 0x3ff0000000000000) a) - (1 - val a)|
      ≤ 1 / 2 ^ 105 * |1 - val a| := by
  have hxh : a.hi.toInt.natAbs < 2 ^ 2095 :=
    lt_trans (hi_natAbs_lt hv ha) (Nat.pow_lt_pow_right (by norm_num) (by norm_num))
  obtain ⟨hV, hb⟩ := C03b.sub_f64_tf_bound hv hw lit_one_facts.1 lit_one_facts.2.1 hxh one_natAbs
  refine ⟨hV, TwoFloat.sub_ft_WF _ a, ?_⟩
  have h := scaled_le (N := 1) (D := 2 ^ 105) (by positivity) (by simpa using hb)
  rw [lit_one_facts.2.2] at h
  have hc : (((2 : Int) ^ 1074 - a.V : Int) : ℚ) = (2 : ℚ) ^ 1074 - (a.V : ℚ) := by
    rw [Int.cast_sub, Int.cast_pow, Int.cast_ofNat]
  rw [hc, Nat.cast_one, Nat.cast_pow, Nat.cast_ofNat] at h
  unfold val
  have e : (1 : ℚ) - (a.V : ℚ) / 2 ^ 1074 = ((2 : ℚ) ^ 1074 - (a.V : ℚ)) / 2 ^ 1074 := by
    rw [sub_div, div_self (by positivity)]
  rw [e]
  exact h

/-- `s / 2.0` (TwoFloat / f64), `s.hi` of magnitude in `[2^-450, 2^450]` -/
theorem div_two_val {s : TwoFloat} (hv : s.Valid) (hw : s.WF)
    (hA : 2 ^ 624 ≤ s.hi.toInt.natAbs ∧ s.hi.toInt.natAbs ≤ 2 ^ 1524) :
    (arithmetic.impl_Div_rf64_for_rTwoFloat.div s (f64lit 0x4000000000000000)).Valid ∧
    (arithmetic.impl_Div_rf64_for_rTwoFloat.div s (f64lit 0x4000000000000000)).WF ∧
    |val (arithmetic.impl_Div_rf64_for_rTwoFloat.div s (f64lit 0x4000000000000000)) - val s / 2|
      ≤ 17 / 2 ^ 109 * |val s| := by
  obtain ⟨t1, t2, t3, t4, t5⟩ := two_facts
  obtain ⟨hV, hb, _⟩ := C01d.div_tf_f64_bound_partial s _ hv hw t1 t2 hA.1 hA.2 t4 t5
  refine ⟨hV, TwoFloat.div_tf_WF s _, ?_⟩
  have hb' : 2 ^ 108 * |(arithmetic.impl_Div_rf64_for_rTwoFloat.div s (f64lit 0x4000000000000000)).V
      * (f64lit 0x4000000000000000).toInt - s.V * (unit : Int)| ≤ 17 * |s.V * (unit : Int)| := hb
  generalize arithmetic.impl_Div_rf64_for_rTwoFloat.div s (f64lit 0x4000000000000000) = q at *
  rw [t3, unit_cast_eq] at hb'
  have hq : (2 : ℚ) ^ 108 * |(q.V : ℚ) * 2 ^ 1075 - s.V * 2 ^ 1074| ≤ 17 * |(s.V : ℚ) * 2 ^ 1074| := by
    exact_mod_cast hb'
  unfold val
  have hW : (0 : ℚ) < 2 ^ 1074 := by positivity
  have e0 : (2 : ℚ) ^ 1075 = 2 * 2 ^ 1074 := by rw [← pow_succ']
  rw [e0] at hq
  generalize (2 : ℚ) ^ 1074 = W at *
  have e1 : (q.V : ℚ) * (2 * W) - s.V * W = W * (2 * q.V - s.V) := by ring
  rw [e1, abs_mul, abs_mul, abs_of_pos hW] at hq
  have e2 : (q.V : ℚ) / W - s.V / W / 2 = (2 * q.V - s.V) / (2 * W) := by field_simp
  rw [e2, abs_div, abs_div, abs_of_pos hW, abs_of_pos (by positivity : (0 : ℚ) < 2 * W),
    div_le_iff₀ (by positivity)]
  have e3 : 17 / 2 ^ 109 * (|(s.V : ℚ)| / W) * (2 * W) = 17 / 2 ^ 108 * |(s.V : ℚ)| := by
    field_simp
  rw [e3]
  have h5 : (2 : ℚ) ^ 108 * |2 * (q.V : ℚ) - s.V| ≤ 17 * |(s.V : ℚ)| := by
    have : W * ((2 : ℚ) ^ 108 * |2 * (q.V : ℚ) - s.V|) ≤ W * (17 * |(s.V : ℚ)|) := by nlinarith
    exact le_of_mul_le_mul_left this hW
  rw [div_mul_eq_mul_div, le_div_iff₀ (by positivity)]
  linarith

/-- `2.0 * a` (f64 · TwoFloat), `a.hi` of magnitude in `[2^-900, 2^900]` -/
theorem two_mul_val {a : TwoFloat} (hv : a.Valid) (hw : a.WF)
    (hA : 2 ^ 174 ≤ a.hi.toInt.natAbs ∧ a.hi.toInt.natAbs ≤ 2 ^ 1974) :
    (arithmetic.impl_Mul_rTwoFloat_for_rf64.mul (f64lit 0x4000000000000000) a).Valid ∧
    (arithmetic.impl_Mul_rTwoFloat_for_rf64.mul (f64lit 0x4000000000000000) a).WF ∧
    |val (arithmetic.impl_Mul_rTwoFloat_for_rf64.mul (f64lit 0x4000000000000000) a) - 2 * val a|
      ≤ 1 / 2 ^ 105 * |2 * val a| := by
  obtain ⟨t1, t2, t3, _, _⟩ := two_facts
  have hr : a.hi.toInt * (f64lit 0x4000000000000000).toInt = 0 ∨
      ((2 : Int) ^ 1188 ≤ |a.hi.toInt * (f64lit 0x4000000000000000).toInt| ∧
        |a.hi.toInt * (f64lit 0x4000000000000000).toInt| < (2 : Int) ^ 3169) := by
    right
    rw [t3, abs_mul, abs_of_pos (by positivity : (0 : Int) < 2 ^ 1075)]
    have p1 : (2 : Int) ^ 174 ≤ |a.hi.toInt| := by rw [Int.abs_eq_natAbs]; exact_mod_cast hA.1
    have p2 : |a.hi.toInt| ≤ (2 : Int) ^ 1974 := by rw [Int.abs_eq_natAbs]; exact_mod_cast hA.2
    constructor
    · have e : (2 : Int) ^ 1188 ≤ 2 ^ 174 * 2 ^ 1075 := by
        rw [← pow_add]; exact pow_le_pow_right₀ (by norm_num) (by norm_num)
      exact le_trans e (mul_le_mul_of_nonneg_right p1 (by positivity))
    · have e : (2 : Int) ^ 1974 * 2 ^ 1075 < 2 ^ 3169 := by
        rw [← pow_add]; exact pow_lt_pow_right₀ (by norm_num) (by norm_num)
      exact lt_of_le_of_lt (mul_le_mul_of_nonneg_right p2 (by positivity)) e
  obtain ⟨hV, hb⟩ := C04b.mul_f64_tf_bound hv hw t1 t2 hr
  refine ⟨hV, PF.mul_ft_WF _ a, ?_⟩
  generalize arithmetic.impl_Mul_rTwoFloat_for_rf64.mul (f64lit 0x4000000000000000) a = p at *
  rw [t3, unit_cast_eq] at hb
  have hq : |(p.V : ℚ) * 2 ^ 1074 - 2 ^ 1075 * a.V| * 2 ^ 105 ≤ |(2 : ℚ) ^ 1075 * a.V| := by exact_mod_cast hb
  unfold val
  have hW : (0 : ℚ) < 2 ^ 1074 := by positivity
  have e0 : (2 : ℚ) ^ 1075 = 2 * 2 ^ 1074 := by rw [← pow_succ']
  rw [e0] at hq
  generalize (2 : ℚ) ^ 1074 = W at *
  have e1 : (p.V : ℚ) * W - 2 * W * a.V = W * (p.V - 2 * a.V) := by ring
  have e1' : 2 * W * (a.V : ℚ) = W * (2 * a.V) := by ring
  rw [e1, e1', abs_mul, abs_mul, abs_of_pos hW] at hq
  have e2 : (p.V : ℚ) / W - 2 * (a.V / W) = (p.V - 2 * a.V) / W := by field_simp
  have e3 : 2 * ((a.V : ℚ) / W) = (2 * a.V) / W := by ring
  rw [e2, e3, abs_div, abs_div, abs_of_pos hW, ← mul_div_assoc, div_le_div_iff_of_pos_right hW,
    div_mul_eq_mul_div, one_mul, le_div_iff₀ (by positivity)]
  have : W * (|(p.V : ℚ) - 2 * a.V| * 2 ^ 105) ≤ W * |2 * (a.V : ℚ)| := by nlinarith
  exact le_of_mul_le_mul_left this hW

/-- `TwoFloat.sqrt` against `Real.sqrt` of the value: relative `21 u²` -/
theorem sqrt_rval {x : TwoFloat} (hv : x.Valid) (hw : x.WF) (hpos : 0 < x.V)
    (hlo : 2 ^ 174 ≤ x.hi.toInt.natAbs) (hhi : x.hi.toInt.natAbs ≤ 2 ^ 2074) :
    (TwoFloat.sqrt x).Valid ∧ (TwoFloat.sqrt x).WF ∧
    |rval (TwoFloat.sqrt x) - Real.sqrt (rval x)| ≤ 21 / 2 ^ 106 * Real.sqrt (rval x) := by
  obtain ⟨hV, hW, hb⟩ := C13s.sqrt_bound_21u2 hv hw hpos hlo hhi
  refine ⟨hV, hW, ?_⟩
  rw [F64.unit_real] at hb
  have ex : rval x = (x.V : ℝ) / 2 ^ 1074 := by unfold rval val; push_cast; rfl
  have es : rval (TwoFloat.sqrt x) = ((TwoFloat.sqrt x).V : ℝ) / 2 ^ 1074 := by unfold rval val; push_cast; rfl
  have hW0 : (0 : ℝ) < 2 ^ 1074 := by positivity
  have hxp : (0 : ℝ) ≤ rval x := by
    rw [ex]; have : (0 : ℝ) < (x.V : ℝ) := by exact_mod_cast hpos
    positivity
  have e1 : Real.sqrt ((x.V : ℝ) * 2 ^ 1074) = Real.sqrt (rval x) * 2 ^ 1074 := by
    have : (x.V : ℝ) * 2 ^ 1074 = rval x * (2 ^ 1074) ^ 2 := by rw [ex]; field_simp
    rw [this, Real.sqrt_mul hxp, Real.sqrt_sq hW0.le]
  rw [e1] at hb
  rw [es]
  generalize (2 : ℝ) ^ 1074 = W at *
  generalize Real.sqrt (rval x) = S at *
  have e2 : ((TwoFloat.sqrt x).V : ℝ) / W - S = (((TwoFloat.sqrt x).V : ℝ) - S * W) / W := by field_simp
  rw [e2, abs_div, abs_of_pos hW0, div_le_iff₀ hW0]
  have : (2 : ℝ) ^ 106 * (21 / 2 ^ 106 * S * W) = 21 * (S * W) := by field_simp
  have p : (0 : ℝ) < 2 ^ 106 := by positivity
  nlinarith

/-! ## 3. `asin` -/

theorem abs_val_lt_iff (t : TwoFloat) (n : Int) : (n : ℚ) / 2 ^ 1074 < |val t| ↔ n < |t.V| := by
  rw [abs_val, div_lt_div_iff_of_pos_right (by positivity)]
  exact_mod_cast Iff.rfl

theorem abs_val_le_iff (t : TwoFloat) (n : Int) : |val t| ≤ (n : ℚ) / 2 ^ 1074 ↔ |t.V| ≤ n := by
  rw [abs_val, div_le_div_iff_of_pos_right (by positivity)]
  exact_mod_cast Iff.rfl

theorem abs_facts {x : TwoFloat} (hv : x.Valid) (hw : x.WF) :
    (TwoFloat.abs x).Valid ∧ (TwoFloat.abs x).WF ∧ val (TwoFloat.abs x) = |val x| := by
  have hiv : TwoFloat.is_valid x = true := (C07.is_valid_iff x hw).2 hv
  have ha : (TwoFloat.abs x).Valid := by
    rcases C06.abs_eq_or_neg x with h | h
    · rw [h]; exact hv
    · rw [h]; exact hv.neg hw.1
  refine ⟨ha, PF.abs_WF hw, ?_⟩
  rw [abs_val]
  unfold val
  rw [C06.abs_exact hiv hv]

/-- the test `|x| > 1.0` of `asin` compares the exact values -/
theorem cmp_one {x : TwoFloat} (hv : x.Valid) (hw : x.WF) :
    ROrd.isGt (base.impl_PartialOrd_f64_for_TwoFloat.partial_cmp (TwoFloat.abs x) (f64lit 0x3ff0000000000000)) = true
      ↔ 1 < |val x| := by
  obtain ⟨ha, _, hval⟩ := abs_facts hv hw
  have h := C06.gt_f64_exact ha lit_one_facts.2.1 lit_one_facts.1
  rw [show base.impl_PartialOrd_f64_for_TwoFloat.partial_cmp = C06.cmpTF from rfl, h, lit_one_facts.2.2]
  have hiv : TwoFloat.is_valid x = true := (C07.is_valid_iff x hw).2 hv
  rw [C06.abs_exact hiv hv, ← abs_val_lt_iff]
  have : (((2 : Int) ^ 1074 : Int) : ℚ) / 2 ^ 1074 = 1 := by
    rw [Int.cast_pow, Int.cast_ofNat, div_self (by positivity)]
  rw [this]

/-- the test `|x| <= 0.5` of `asin` compares the exact values -/
theorem cmp_half {x : TwoFloat} (hv : x.Valid) (hw : x.WF) :
    ROrd.isLe (base.impl_PartialOrd_f64_for_TwoFloat.partial_cmp (TwoFloat.abs x) (f64lit 0x3fe0000000000000)) = true
      ↔ |val x| ≤ 1 / 2 := by
  obtain ⟨ha, _, hval⟩ := abs_facts hv hw
  have h := C06.le_f64_exact ha half_facts.2.1 half_facts.1
  rw [show base.impl_PartialOrd_f64_for_TwoFloat.partial_cmp = C06.cmpTF from rfl, h, half_facts.2.2]
  have hiv : TwoFloat.is_valid x = true := (C07.is_valid_iff x hw).2 hv
  rw [C06.abs_exact hiv hv, ← abs_val_le_iff]
  have : (((2 : Int) ^ 1073 : Int) : ℚ) / 2 ^ 1074 = 1 / 2 := by
    rw [Int.cast_pow, Int.cast_ofNat, pow_succ (2 : ℚ) 1073, div_mul_eq_div_div, div_self (by positivity)]
  rw [this]

/-- **C17 (asin), `|x| ≤ 1/2`**: valid result, error at most `|x|·(2^-45 + 2^-48)` (hence relative to `arcsin x`) -/
theorem asin_small_bound {x : TwoFloat} (hv : x.Valid) (hw : x.WF) (hx : |val x| ≤ 1 / 2) :
    (TwoFloat.asin x).Valid ∧
    |rval (TwoFloat.asin x) - Real.arcsin (rval x)| ≤ |rval x| * (1 / 2 ^ 45 + 1 / 2 ^ 48) := by
  have hiv : TwoFloat.is_valid x = true := (C07.is_valid_iff x hw).2 hv
  have h1 : ROrd.isGt (base.impl_PartialOrd_f64_for_TwoFloat.partial_cmp (TwoFloat.abs x)
      (f64lit 0x3ff0000000000000)) = false :=
    Bool.eq_false_iff.2 (fun h => absurd ((cmp_one hv hw).1 h) (not_lt.2 (le_trans hx (by norm_num))))
  have h2 := (cmp_half hv hw).2 hx
  rw [C17.asin_small x hiv h1 h2]
  have hhi : |val x| ≤ asinRho := le_trans hx (by unfold asinRho; norm_num)
  exact ⟨(restricted_asin_real hv hw hhi).1, restricted_asin_rel hv hw hhi⟩

/-- the large branch of `asin`, unfolded -/
theorem asin_large_eq (x : TwoFloat) (hiv : TwoFloat.is_valid x = true)
    (h1 : ROrd.isGt (base.impl_PartialOrd_f64_for_TwoFloat.partial_cmp (TwoFloat.abs x)
      (f64lit 0x3ff0000000000000)) = false)
    (h2 : ROrd.isLe (base.impl_PartialOrd_f64_for_TwoFloat.partial_cmp (TwoFloat.abs x)
      (f64lit 0x3fe0000000000000)) = false) :
    TwoFloat.asin x =
      if TwoFloat.is_sign_positive x then
        arithmetic.impl_Sub_rTwoFloat_for_rTwoFloat.sub consts.FRAC_PI_2
          (arithmetic.impl_Mul_rTwoFloat_for_rf64.mul (f64lit 0x4000000000000000)
            (trigonometry.restricted_asin (TwoFloat.sqrt (arithmetic.impl_Div_rf64_for_rTwoFloat.div
              (arithmetic.impl_Sub_rTwoFloat_for_rf64.sub (f64lit 0x3ff0000000000000) (TwoFloat.abs x))
              (f64lit 0x4000000000000000)))))
      else
        arithmetic.impl_Neg_for_TwoFloat.neg (arithmetic.impl_Sub_rTwoFloat_for_rTwoFloat.sub consts.FRAC_PI_2
          (arithmetic.impl_Mul_rTwoFloat_for_rf64.mul (f64lit 0x4000000000000000)
            (trigonometry.restricted_asin (TwoFloat.sqrt (arithmetic.impl_Div_rf64_for_rTwoFloat.div
              (arithmetic.impl_Sub_rTwoFloat_for_rf64.sub (f64lit 0x3ff0000000000000) (TwoFloat.abs x))
              (f64lit 0x4000000000000000)))))) := by
  unfold TwoFloat.asin
  simp only [hiv, h1, h2, Bool.not_true, Bool.false_or, Bool.false_eq_true, if_false]
  rfl

theorem chain_s1 {A v : ℚ} (hA1 : 1 / 2 < A) (hA2 : A ≤ 1 - 1 / 2 ^ 440)
    (h1 : |v - (1 - A)| ≤ 1 / 2 ^ 105 * |1 - A|) :
    (1 / 2 ^ 441 ≤ |v|) ∧ (|v| ≤ 1) ∧ 0 < v := by
  have hp : 0 < 1 - A := by
    have : (0 : ℚ) < 1 / 2 ^ 440 := by positivity
    linarith
  rw [abs_of_pos hp] at h1
  obtain ⟨l, u⟩ := abs_le.1 h1
  have hsm : 1 / 2 ^ 105 * (1 - A) ≤ 1 / 2 * (1 - A) := mul_le_mul_of_nonneg_right (by norm_num) hp.le
  have hv0 : 0 < v := by linarith
  rw [abs_of_pos hv0]
  refine ⟨?_, by linarith, hv0⟩
  have : (1 : ℚ) / 2 ^ 441 = 1 / 2 * (1 / 2 ^ 440) := by norm_num
  rw [this]; linarith

theorem chain_d {A v d : ℚ} (hA1 : 1 / 2 < A) (hA2 : A ≤ 1 - 1 / 2 ^ 440)
    (h1 : |v - (1 - A)| ≤ 1 / 2 ^ 105 * |1 - A|) (h2 : |d - v / 2| ≤ 17 / 2 ^ 109 * |v|) :
    (|d - (1 - A) / 2| ≤ 1 / 2 ^ 102 * ((1 - A) / 2)) ∧ (1 / 2 ^ 443 ≤ |d|) ∧ (|d| ≤ 1) ∧ 0 < d := by
  have hp : 0 < 1 - A := by
    have : (0 : ℚ) < 1 / 2 ^ 440 := by positivity
    linarith
  obtain ⟨_, _, hv0⟩ := chain_s1 hA1 hA2 h1
  rw [abs_of_pos hp] at h1
  rw [abs_of_pos hv0] at h2
  obtain ⟨l, u⟩ := abs_le.1 h1
  obtain ⟨l2, u2⟩ := abs_le.1 h2
  have hvu : v ≤ 2 * (1 - A) := by
    have : 1 / 2 ^ 105 * (1 - A) ≤ 1 * (1 - A) := mul_le_mul_of_nonneg_right (by norm_num) hp.le
    linarith
  have k1 : 17 / 2 ^ 109 * v ≤ 17 / 2 ^ 108 * (1 - A) := by
    have := mul_le_mul_of_nonneg_left hvu (by positivity : (0 : ℚ) ≤ 17 / 2 ^ 109)
    have e : (17 : ℚ) / 2 ^ 109 * (2 * (1 - A)) = 17 / 2 ^ 108 * (1 - A) := by ring
    linarith
  have hd : |d - (1 - A) / 2| ≤ 1 / 2 ^ 102 * ((1 - A) / 2) := by
    rw [abs_le]
    have e : (1 : ℚ) / 2 ^ 102 * ((1 - A) / 2) = (1 / 2 ^ 106 + 17 / 2 ^ 108 + 11 / 2 ^ 108) * (1 - A) := by ring
    have : (0 : ℚ) ≤ 11 / 2 ^ 108 * (1 - A) := by positivity
    constructor <;> nlinarith
  obtain ⟨l3, u3⟩ := abs_le.1 hd
  have hsm : 1 / 2 ^ 102 * ((1 - A) / 2) ≤ 1 / 2 * ((1 - A) / 2) :=
    mul_le_mul_of_nonneg_right (by norm_num) (by linarith)
  have hd0 : 0 < d := by linarith
  rw [abs_of_pos hd0]
  refine ⟨hd, ?_, by linarith, hd0⟩
  have : (1 : ℚ) / 2 ^ 443 = 1 / 4 * (1 / 2 ^ 440) / 2 := by norm_num
  rw [this]; linarith

theorem V_pos_of_val_pos {t : TwoFloat} (h : 0 < val t) : 0 < t.V := by
  unfold val at h
  have : (0 : ℚ) < (t.V : ℚ) := by
    by_contra hn
    have : (t.V : ℚ) / 2 ^ 1074 ≤ 0 := div_nonpos_of_nonpos_of_nonneg (not_lt.1 hn) (by positivity)
    linarith
  exact_mod_cast this

theorem rval_abs_le {t : TwoFloat} {b : ℚ} (h : |rval t| ≤ (b : ℝ)) : |val t| ≤ b := by
  rw [abs_rval] at h; exact_mod_cast h

theorem rval_abs_ge {t : TwoFloat} {b : ℚ} (h : (b : ℝ) ≤ |rval t|) : b ≤ |val t| := by
  rw [abs_rval] at h; exact_mod_cast h

/-- real arithmetic of the square-root step -/
theorem chain_q {z rd rq : ℝ} (hz1 : 1 / 2 ^ 442 ≤ z) (hz2 : z ≤ 1 / 4) (hd : |rd - z| ≤ 1 / 2 ^ 102 * z)
    (hq : |rq - Real.sqrt rd| ≤ 21 / 2 ^ 106 * Real.sqrt rd) :
    |rq - Real.sqrt z| ≤ 1 / 2 ^ 101 * Real.sqrt z ∧ Real.sqrt z ≤ 1 / 2 ∧ 1 / 2 ^ 221 ≤ Real.sqrt z := by
  have hz0 : 0 < z := lt_of_lt_of_le (by positivity) hz1
  have hrd0 : 0 < rd := by
    have := (abs_le.1 hd).1
    have : 1 / 2 ^ 102 * z ≤ 1 / 2 * z := mul_le_mul_of_nonneg_right (by norm_num) hz0.le
    linarith
  have hp := SqrtReal.sqrt_perturb hz0 (by positivity : (0 : ℝ) < 1 / 2 ^ 102) (by norm_num) hrd0 hd
  have hs0 : 0 < Real.sqrt z := Real.sqrt_pos.2 hz0
  have hs1 : Real.sqrt z ≤ 1 / 2 := Real.sqrt_le_iff.2 ⟨by norm_num, by norm_num; linarith⟩
  have hs2 : 1 / 2 ^ 221 ≤ Real.sqrt z := by
    refine Real.le_sqrt_of_sq_le ?_
    refine le_trans (le_of_eq ?_) hz1
    rw [div_pow, one_pow, ← pow_mul]
  refine ⟨?_, hs1, hs2⟩
  set S := Real.sqrt z
  set D := Real.sqrt rd
  have hD : D ≤ S * (1 + 1 / 2 ^ 102) := by
    have := (abs_le.1 hp).2
    have : 0.5001 * (1 / 2 ^ 102) * S ≤ 1 / 2 ^ 102 * S := by nlinarith
    linarith
  have e : rq - S = (rq - D) + (D - S) := by ring
  rw [e]
  refine le_trans (abs_add_le _ _) ?_
  have h3 : 21 / 2 ^ 106 * D ≤ 21 / 2 ^ 106 * (S * (1 + 1 / 2 ^ 102)) :=
    mul_le_mul_of_nonneg_left hD (by positivity)
  have h4 : 21 / 2 ^ 106 * (S * (1 + 1 / 2 ^ 102)) + 0.5001 * (1 / 2 ^ 102) * S ≤ 1 / 2 ^ 101 * S := by
    have : (21 : ℝ) / 2 ^ 106 * (1 + 1 / 2 ^ 102) + 0.5001 * (1 / 2 ^ 102) ≤ 1 / 2 ^ 101 := by norm_num
    nlinarith
  linarith

theorem cast_abs_sub_le {a b c : ℚ} (h : |a - b| ≤ c) : |(a : ℝ) - (b : ℝ)| ≤ (c : ℝ) := by
  have := (Rat.cast_le (K := ℝ)).2 h
  rwa [Rat.cast_abs, Rat.cast_sub] at this

/-- **the half-angle branch of `asin`, before the sign**: for `1/2 < |x| ≤ 1 − 2^-440` the value
`π/2 − 2·restricted_asin(√((1 − |x|)/2))` computed by the crate is within `21·2^-50` of `arcsin |x|` -/
theorem asin_core {x : TwoFloat} (hv : x.Valid) (hw : x.WF) (h1 : 1 / 2 < |val x|) (h2 : |val x| ≤ 1 - 1 / 2 ^ 440) :
    (arithmetic.impl_Sub_rTwoFloat_for_rTwoFloat.sub consts.FRAC_PI_2
      (arithmetic.impl_Mul_rTwoFloat_for_rf64.mul (f64lit 0x4000000000000000)
        (trigonometry.restricted_asin (TwoFloat.sqrt (arithmetic.impl_Div_rf64_for_rTwoFloat.div
          (arithmetic.impl_Sub_rTwoFloat_for_rf64.sub (f64lit 0x3ff0000000000000) (TwoFloat.abs x))
          (f64lit 0x4000000000000000)))))).Valid ∧
    (arithmetic.impl_Sub_rTwoFloat_for_rTwoFloat.sub consts.FRAC_PI_2
      (arithmetic.impl_Mul_rTwoFloat_for_rf64.mul (f64lit 0x4000000000000000)
        (trigonometry.restricted_asin (TwoFloat.sqrt (arithmetic.impl_Div_rf64_for_rTwoFloat.div
          (arithmetic.impl_Sub_rTwoFloat_for_rf64.sub (f64lit 0x3ff0000000000000) (TwoFloat.abs x))
          (f64lit 0x4000000000000000)))))).WF ∧
    |rval (arithmetic.impl_Sub_rTwoFloat_for_rTwoFloat.sub consts.FRAC_PI_2
      (arithmetic.impl_Mul_rTwoFloat_for_rf64.mul (f64lit 0x4000000000000000)
        (trigonometry.restricted_asin (TwoFloat.sqrt (arithmetic.impl_Div_rf64_for_rTwoFloat.div
          (arithmetic.impl_Sub_rTwoFloat_for_rf64.sub (f64lit 0x3ff0000000000000) (TwoFloat.abs x))
          (f64lit 0x4000000000000000)))))) - Real.arcsin (|rval x|)| ≤ 21 / 2 ^ 50 := by
  obtain ⟨ha, hwa, hval⟩ := abs_facts hv hw
  set a := TwoFloat.abs x with hadef
  have hx1 : |val x| ≤ 1 := by
    have : (0 : ℚ) < 1 / 2 ^ 440 := by positivity
    linarith
  have haA : |val a| ≤ 2 ^ 30 := by rw [hval, _root_.abs_abs]; exact le_trans hx1 (by norm_num)
  obtain ⟨hv1, hw1, he1⟩ := one_sub_val ha hwa haA
  rw [hval] at he1
  set s1 := arithmetic.impl_Sub_rTwoFloat_for_rf64.sub (f64lit 0x3ff0000000000000) a with hs1
  obtain ⟨c1, c2, _⟩ := chain_s1 h1 h2 he1
  have hr1 := hi_range_gen hv1 (k := 441) (j := 0) (by norm_num) c1 (by simpa using c2)
  obtain ⟨hv2, hw2, he2⟩ := div_two_val hv1 hw1
    ⟨le_trans (Nat.pow_le_pow_right (by norm_num) (by norm_num)) hr1.1,
     le_trans hr1.2 (Nat.pow_le_pow_right (by norm_num) (by norm_num))⟩
  set d := arithmetic.impl_Div_rf64_for_rTwoFloat.div s1 (f64lit 0x4000000000000000) with hd
  obtain ⟨d1, d2, d3, d4⟩ := chain_d h1 h2 he1 he2
  have hr2 := hi_range_gen hv2 (k := 443) (j := 0) (by norm_num) d2 (by simpa using d3)
  obtain ⟨hv3, hw3, he3⟩ := sqrt_rval hv2 hw2 (V_pos_of_val_pos d4)
    (le_trans (Nat.pow_le_pow_right (by norm_num) (by norm_num)) hr2.1)
    (le_trans hr2.2 (Nat.pow_le_pow_right (by norm_num) (by norm_num)))
  set sq := TwoFloat.sqrt d with hsq
  -- to the reals
  have hA1 : (1 : ℝ) / 2 < |rval x| := by
    rw [abs_rval]
    have := (Rat.cast_lt (K := ℝ)).2 h1
    push_cast at this
    rw [← Rat.cast_abs] at this
    exact this
  have hA2 : |rval x| ≤ 1 - 1 / 2 ^ 440 := by
    rw [abs_rval]
    have := (Rat.cast_le (K := ℝ)).2 h2
    push_cast at this
    rw [← Rat.cast_abs] at this
    exact this
  have hdR : |rval d - (1 - |rval x|) / 2| ≤ 1 / 2 ^ 102 * ((1 - |rval x|) / 2) := by
    have := cast_abs_sub_le d1
    rw [abs_rval]
    push_cast at this
    rw [← Rat.cast_abs] at this
    exact this
  set z : ℝ := (1 - |rval x|) / 2 with hz
  have hz1 : 1 / 2 ^ 442 ≤ z := by
    rw [hz]
    have : (1 : ℝ) / 2 ^ 442 = 1 / 2 ^ 440 / 2 / 2 := by norm_num
    have p : (0 : ℝ) < 1 / 2 ^ 440 := by positivity
    rw [this]; linarith
  have hz2 : z ≤ 1 / 4 := by rw [hz]; linarith
  obtain ⟨q1, q2, q3⟩ := chain_q hz1 hz2 hdR he3
  set S := Real.sqrt z with hS
  have hS0 : 0 < S := lt_of_lt_of_le (by positivity) q3
  obtain ⟨ql, qu⟩ := abs_le.1 q1
  have hsm : 1 / 2 ^ 101 * S ≤ 1 / 2 * S := mul_le_mul_of_nonneg_right (by norm_num) hS0.le
  have hq0 : 0 < rval sq := by linarith
  have hqlo : S / 2 ≤ rval sq := by linarith
  have hqhi : rval sq ≤ 1 / 2 + 1 / 2 ^ 17 := by
    have : 1 / 2 ^ 101 * S ≤ 1 / 2 ^ 101 * (1 / 2) := mul_le_mul_of_nonneg_left q2 (by positivity)
    have : (1 : ℝ) / 2 ^ 101 * (1 / 2) ≤ 1 / 2 ^ 17 := by norm_num
    linarith
  have hqQ : |val sq| ≤ asinRho := by
    refine rval_abs_le ?_
    rw [abs_of_pos hq0]
    unfold asinRho; push_cast; exact hqhi
  obtain ⟨hv4, hw4, _, he4⟩ := restricted_asin_real hv3 hw3 hqQ
  have he4rel := restricted_asin_rel hv3 hw3 hqQ
  set ra := trigonometry.restricted_asin sq with hra
  have hq1 : rval sq ≤ 1 := le_trans hqhi (by norm_num)
  have hasq := le_arcsin hq0.le hq1
  have hasq2 : Real.arcsin (rval sq) ≤ 2 := by
    have := Real.arcsin_le_pi_div_two (rval sq)
    have := Real.pi_le_four
    linarith
  rw [abs_of_pos hq0] at he4rel
  have hra_lo : (1 : ℝ) / 2 ^ 223 ≤ rval ra := by
    have := (abs_le.1 he4rel).1
    have h3 : rval sq * (1 / 2 ^ 45 + 1 / 2 ^ 48) ≤ rval sq * (1 / 2) :=
      mul_le_mul_of_nonneg_left (by norm_num) hq0.le
    have h4 : (1 : ℝ) / 2 ^ 223 = 1 / 2 ^ 221 / 2 / 2 := by norm_num
    rw [h4]; linarith
  have hra_hi : |rval ra| ≤ 2 := by
    rw [abs_of_pos (lt_of_lt_of_le (by positivity) hra_lo)]
    have := (abs_le.1 he4).2
    have : (10 : ℝ) / 2 ^ 50 ≤ 0 + 1 / 2 ^ 40 := by norm_num
    have := Real.arcsin_le_pi_div_two (rval sq)
    have := Real.pi_lt_d2
    linarith
  have hraQ1 : (1 : ℚ) / 2 ^ 223 ≤ |val ra| := by
    refine rval_abs_ge ?_
    rw [abs_of_pos (lt_of_lt_of_le (by positivity) hra_lo)]
    push_cast; exact hra_lo
  have hraQ2 : |val ra| ≤ 2 ^ 1 := by
    refine rval_abs_le ?_
    push_cast; rw [pow_one]; exact hra_hi
  have hr4 := hi_range_gen hv4 (k := 223) (j := 1) (by norm_num) hraQ1 hraQ2
  obtain ⟨hv5, hw5, he5⟩ := two_mul_val hv4 hw4
    ⟨le_trans (Nat.pow_le_pow_right (by norm_num) (by norm_num)) hr4.1,
     le_trans hr4.2 (Nat.pow_le_pow_right (by norm_num) (by norm_num))⟩
  set m2 := arithmetic.impl_Mul_rTwoFloat_for_rf64.mul (f64lit 0x4000000000000000) ra with hm2
  have h2ra : |2 * val ra| ≤ 4 := by
    rw [abs_mul]; norm_num at hraQ2 ⊢; linarith
  have he5' : |val m2 - 2 * val ra| ≤ 1 / 2 ^ 103 := by
    refine le_trans he5 ?_
    have := mul_le_mul_of_nonneg_left h2ra (by positivity : (0 : ℚ) ≤ 1 / 2 ^ 105)
    refine le_trans this ?_
    norm_num
  have hm2b : |val m2| ≤ 5 := by
    have := abs_add_le (val m2 - 2 * val ra) (2 * val ra)
    rw [sub_add_cancel] at this
    have : (1 : ℚ) / 2 ^ 103 ≤ 1 := by norm_num
    linarith
  obtain ⟨hvP, hwP, hP1, hP2, _⟩ := P_facts
  have hPb : |val consts.FRAC_PI_2| ≤ 2 := by
    rw [abs_of_pos (by linarith)]; linarith
  obtain ⟨hv6, hw6, he6⟩ := sub_tt_val hvP hwP hv5 hw5 (le_trans hPb (by norm_num)) (le_trans hm2b (by norm_num))
  refine ⟨hv6, hw6, ?_⟩
  set R := arithmetic.impl_Sub_rTwoFloat_for_rTwoFloat.sub consts.FRAC_PI_2 m2 with hR
  have he6' : |val R - (val consts.FRAC_PI_2 - val m2)| ≤ 7 / 2 ^ 104 := by
    refine le_trans he6 ?_
    have h7 : |val consts.FRAC_PI_2 - val m2| ≤ 7 := le_trans (abs_sub _ _) (by linarith)
    have := mul_le_mul cA_le h7 (abs_nonneg _) (by positivity)
    refine le_trans this ?_
    norm_num
  -- everything in ℝ
  have t1 : |rval R - (rval consts.FRAC_PI_2 - rval m2)| ≤ 7 / 2 ^ 104 := by
    have := cast_abs_sub_le he6'
    unfold rval
    push_cast at this ⊢
    exact this
  have t2 := P_real_err
  have t3 : |rval m2 - 2 * rval ra| ≤ 1 / 2 ^ 103 := by
    have := cast_abs_sub_le he5'
    unfold rval
    push_cast at this ⊢
    exact this
  have t5 : |Real.arcsin (rval sq) - Real.arcsin S| ≤ 1 / 2 ^ 101 := by
    have hq33 : |rval sq| ≤ 33 / 64 := by
      rw [abs_of_pos hq0]; exact le_trans hqhi (by norm_num)
    have hS33 : |S| ≤ 33 / 64 := by rw [abs_of_pos hS0]; linarith
    refine le_trans (arcsin_lipschitz hq33 hS33) ?_
    have : 1 / 2 ^ 101 * S ≤ 1 / 2 ^ 101 * (1 / 2) := mul_le_mul_of_nonneg_left q2 (by positivity)
    have h20 : (20 : ℝ) / 17 * (1 / 2 ^ 101 * (1 / 2)) ≤ 1 / 2 ^ 101 := by norm_num
    have := mul_le_mul_of_nonneg_left (le_trans q1 this) (by norm_num : (0 : ℝ) ≤ 20 / 17)
    linarith
  have hhalf := arcsin_half_angle (x := |rval x|) (abs_nonneg _) (by
    have : (0 : ℝ) < 1 / 2 ^ 440 := by positivity
    linarith)
  rw [hhalf]
  have e : rval R - (Real.pi / 2 - 2 * Real.arcsin S)
      = (rval R - (rval consts.FRAC_PI_2 - rval m2)) + (rval consts.FRAC_PI_2 - Real.pi / 2)
        - (rval m2 - 2 * rval ra) - 2 * (rval ra - Real.arcsin (rval sq))
        - 2 * (Real.arcsin (rval sq) - Real.arcsin S) := by ring
  rw [e]
  have b1 := abs_le.1 t1
  have b2 := abs_le.1 t2
  have b3 := abs_le.1 t3
  have b4 := abs_le.1 he4
  have b5 := abs_le.1 t5
  have num : (7 : ℝ) / 2 ^ 104 + 1 / 2 ^ 106 + 1 / 2 ^ 103 + 2 * (10 / 2 ^ 50) + 2 * (1 / 2 ^ 101) ≤ 21 / 2 ^ 50 := by
    norm_num
  rw [abs_le]
  constructor <;> linarith [b1.1, b1.2, b2.1, b2.2, b3.1, b3.2, b4.1, b4.2, b5.1, b5.2]

theorem rval_pos_iff (t : TwoFloat) : 0 < rval t ↔ 0 < t.V := by
  unfold rval val
  push_cast
  constructor
  · intro h
    have : (0 : ℝ) < (t.V : ℝ) := by
      by_contra hn
      have : (t.V : ℝ) / 2 ^ 1074 ≤ 0 := div_nonpos_of_nonpos_of_nonneg (not_lt.1 hn) (by positivity)
      linarith
    exact_mod_cast this
  · intro h
    have : (0 : ℝ) < (t.V : ℝ) := by exact_mod_cast h
    positivity

/-- **C17 (asin), `1/2 < |x| ≤ 1 − 2^-440`**: valid result within `21·2^-50 < 2^-45.6` of `arcsin x` -/
theorem asin_large_bound {x : TwoFloat} (hv : x.Valid) (hw : x.WF) (h1 : 1 / 2 < |val x|)
    (h2 : |val x| ≤ 1 - 1 / 2 ^ 440) :
    (TwoFloat.asin x).Valid ∧ |rval (TwoFloat.asin x) - Real.arcsin (rval x)| ≤ 21 / 2 ^ 50 := by
  have hiv : TwoFloat.is_valid x = true := (C07.is_valid_iff x hw).2 hv
  have hx1 : |val x| ≤ 1 := by
    have : (0 : ℚ) < 1 / 2 ^ 440 := by positivity
    linarith
  have h1b : ROrd.isGt (base.impl_PartialOrd_f64_for_TwoFloat.partial_cmp (TwoFloat.abs x)
      (f64lit 0x3ff0000000000000)) = false :=
    Bool.eq_false_iff.2 (fun h => absurd ((cmp_one hv hw).1 h) (not_lt.2 hx1))
  have h2b : ROrd.isLe (base.impl_PartialOrd_f64_for_TwoFloat.partial_cmp (TwoFloat.abs x)
      (f64lit 0x3fe0000000000000)) = false :=
    Bool.eq_false_iff.2 (fun h => absurd ((cmp_half hv hw).1 h) (not_le.2 h1))
  obtain ⟨hvR, hwR, heR⟩ := asin_core hv hw h1 h2
  rw [asin_large_eq x hiv h1b h2b]
  have hV0 : x.V ≠ 0 := by
    intro h0
    have : val x = 0 := by unfold val; rw [h0]; simp
    rw [this, abs_zero] at h1
    norm_num at h1
  cases hs : TwoFloat.is_sign_positive x
  · have hneg : ¬ (0 < x.V) := fun h => by
      have := (C06.is_sign_positive_exact hiv hv hV0).2 h
      rw [hs] at this; exact Bool.false_ne_true this
    have hrn : rval x < 0 := by
      have h3 : ¬ (0 < rval x) := fun h => hneg ((rval_pos_iff x).1 h)
      have h4 : rval x ≠ 0 := by
        intro h0
        unfold rval at h0
        have : val x = 0 := by exact_mod_cast h0
        rw [this, abs_zero] at h1
        norm_num at h1
      exact lt_of_le_of_ne (not_lt.1 h3) h4
    simp only [Bool.false_eq_true, if_false]
    refine ⟨neg_valid hvR hwR, ?_⟩
    rw [rval_neg]
    rw [abs_of_neg hrn, Real.arcsin_neg] at heR
    rw [← abs_neg]
    refine le_trans (le_of_eq ?_) heR
    congr 1; ring
  · have hpos := (C06.is_sign_positive_exact hiv hv hV0).1 hs
    have hrp := (rval_pos_iff x).2 hpos
    simp only [if_true]
    rw [abs_of_pos hrp] at heR
    exact ⟨hvR, heR⟩

theorem abs_le_abs_arcsin {y : ℝ} (h : |y| ≤ 1) : |y| ≤ |Real.arcsin y| := by
  rcases le_total 0 y with h0 | h0
  · rw [abs_of_nonneg h0] at h ⊢
    exact le_trans (le_arcsin h0 h) (le_abs_self _)
  · rw [abs_of_nonpos h0] at h ⊢
    have := le_arcsin (y := -y) (by linarith) h
    rw [Real.arcsin_neg] at this
    exact le_trans this (neg_le_abs _)

/-- **C17, asin, absolute**: valid `x`, `|x| ≤ 1 − 2^-440` ⇒ valid result, `|asin(x) − arcsin x| ≤ 23·2^-50 < 2^-45` -/
theorem asin_abs_bound {x : TwoFloat} (hv : x.Valid) (hw : x.WF) (hx : |val x| ≤ 1 - 1 / 2 ^ 440) :
    (TwoFloat.asin x).Valid ∧ |rval (TwoFloat.asin x) - Real.arcsin (rval x)| ≤ 23 / 2 ^ 50 := by
  by_cases hs : |val x| ≤ 1 / 2
  · obtain ⟨h1, h2⟩ := asin_small_bound hv hw hs
    refine ⟨h1, le_trans h2 ?_⟩
    have hr : |rval x| ≤ 1 / 2 := by have := rval_le hs; push_cast at this; exact this
    have := mul_le_mul_of_nonneg_right hr (by positivity : (0 : ℝ) ≤ 1 / 2 ^ 45 + 1 / 2 ^ 48)
    refine le_trans this ?_
    norm_num
  · obtain ⟨h1, h2⟩ := asin_large_bound hv hw (not_le.1 hs) hx
    exact ⟨h1, le_trans h2 (by norm_num)⟩

theorem C17_asin_abs {x : TwoFloat} (hv : x.Valid) (hw : x.WF) (hx : |val x| ≤ 1 - 1 / 2 ^ 440) :
    |rval (TwoFloat.asin x) - Real.arcsin (rval x)| ≤ 1 / 2 ^ 45 :=
  le_trans (asin_abs_bound hv hw hx).2 (by norm_num)

/-- **C17, asin, relative**: valid `x`, `|x| ≤ 1 − 2^-440` ⇒ `|asin(x) − arcsin x| ≤ 2^-43·|arcsin x|` -/
theorem C17_asin_rel {x : TwoFloat} (hv : x.Valid) (hw : x.WF) (hx : |val x| ≤ 1 - 1 / 2 ^ 440) :
    |rval (TwoFloat.asin x) - Real.arcsin (rval x)| ≤ 1 / 2 ^ 43 * |Real.arcsin (rval x)| := by
  have hx1 : |val x| ≤ 1 := by
    have : (0 : ℚ) < 1 / 2 ^ 440 := by positivity
    linarith
  have hr1 : |rval x| ≤ 1 := by have := rval_le hx1; push_cast at this; exact this
  have hge := abs_le_abs_arcsin hr1
  by_cases hs : |val x| ≤ 1 / 2
  · obtain ⟨_, h2⟩ := asin_small_bound hv hw hs
    refine le_trans h2 ?_
    have h3 : |rval x| * (1 / 2 ^ 45 + 1 / 2 ^ 48) ≤ |rval x| * (1 / 2 ^ 43) :=
      mul_le_mul_of_nonneg_left (by norm_num) (abs_nonneg _)
    have h4 := mul_le_mul_of_nonneg_left hge (by positivity : (0 : ℝ) ≤ 1 / 2 ^ 43)
    linarith
  · obtain ⟨_, h2⟩ := asin_large_bound hv hw (not_le.1 hs) hx
    refine le_trans h2 ?_
    have hr : (1 : ℝ) / 2 ≤ |rval x| := by
      have := rval_abs_ge (t := x) (b := 1 / 2)
      rw [abs_rval]
      have h5 := (Rat.cast_le (K := ℝ)).2 (not_le.1 hs).le
      push_cast at h5
      rw [← Rat.cast_abs] at h5
      exact h5
    have h4 := mul_le_mul_of_nonneg_left (le_trans hr hge) (by positivity : (0 : ℝ) ≤ 1 / 2 ^ 43)
    have : (21 : ℝ) / 2 ^ 50 ≤ 1 / 2 ^ 43 * (1 / 2) := by norm_num
    linarith

/-! ### the end points `x = ±1` -/

theorem asin_at_one (s u : Bool) :
    (TwoFloat.asin ⟨F64.fin s (2 ^ 1074), F64.fin u 0⟩).Valid ∧
    (TwoFloat.asin ⟨F64.fin s (2 ^ 1074), F64.fin u 0⟩).V
      = (if s then -consts.FRAC_PI_2.V else consts.FRAC_PI_2.V) ∧
    (TwoFloat.acos ⟨F64.fin s (2 ^ 1074), F64.fin u 0⟩).Valid ∧
    (TwoFloat.acos ⟨F64.fin s (2 ^ 1074), F64.fin u 0⟩).V = (if s then consts.PI.V else 0) := by
  cases s <;> cases u <;> decide +kernel

theorem toInt_fin (s : Bool) (a : Nat) : (F64.fin s a).toInt = if s then -(a : Int) else (a : Int) := by
  cases s <;> rfl

/-- a valid pair of value `±1` is `(±1.0, ±0)` -/
theorem shape_of_unit {x : TwoFloat} (hv : x.Valid) (h : |x.V| = (unit : Int)) :
    ∃ s u : Bool, x = ⟨F64.fin s (2 ^ 1074), F64.fin u 0⟩ ∧ (s = true ↔ x.V < 0) := by
  have hr : RepI x.V := by
    rcases abs_eq (by exact_mod_cast (Nat.zero_le unit)) |>.1 h with e | e
    · rw [e]; have := repI_int (k := 1) (by norm_num); simpa using this
    · rw [e]; have := repI_int (k := -1) (by norm_num); simpa using this
  obtain ⟨⟨f1, z1⟩, ⟨f2, z2⟩⟩ := Valid.isV_of_repI hv hr
  rcases x with ⟨hi, lo⟩
  obtain ⟨s, a, rfl⟩ := F64.is_finite_iff.mp f1
  obtain ⟨u, b, rfl⟩ := F64.is_finite_iff.mp f2
  have hb : b = 0 := TwoFloat.toInt_eq_zero_iff.1 z2
  subst hb
  have hu := unit_cast_eq
  have hue : (unit : Nat) = 2 ^ 1074 := F64.unit_eq
  simp only at z1
  rw [toInt_fin] at z1
  rw [← z1] at h
  refine ⟨s, u, ?_, ?_⟩
  · cases s
    · simp only [Bool.false_eq_true, if_false] at h
      have : (a : Int) = (unit : Int) := by rw [← h]; exact (abs_of_nonneg (by positivity)).symm
      have ha : a = unit := by exact_mod_cast this
      rw [ha, hue]
    · simp only [if_true, abs_neg] at h
      have : (a : Int) = (unit : Int) := by rw [← h]; exact (abs_of_nonneg (by positivity)).symm
      have ha : a = unit := by exact_mod_cast this
      rw [ha, hue]
  · rw [← z1]
    have hpos : (0 : Int) < (a : Int) := by
      have : |(if s = true then -(a : Int) else (a : Int))| = (a : Int) := by
        cases s <;> simp
      rw [this] at h; rw [h]; exact unit_pos_int
    cases s <;> simp <;> omega

theorem rval_of_V_eq {t r : TwoFloat} (h : t.V = r.V) : rval t = rval r := by unfold rval val; rw [h]
theorem rval_of_V_neg {t r : TwoFloat} (h : t.V = -r.V) : rval t = -rval r := by
  unfold rval val; rw [h]; push_cast; ring

theorem PI_real_err : |rval consts.PI - Real.pi| ≤ 1 / 2 ^ 105 := by
  have h := C12x.PI_rel_err
  have e : rval consts.PI = (consts.PI.V : ℝ) / 2 ^ 1074 := by unfold rval val; push_cast; rfl
  rw [e, abs_sub_comm]
  refine le_trans h ?_
  rw [abs_of_pos Real.pi_pos]
  have := Real.pi_le_four
  rw [div_le_div_iff₀ (by positivity) (by positivity)]
  have e2 : (2 : ℝ) ^ 107 = 4 * 2 ^ 105 := by norm_num
  rw [e2]
  nlinarith [show (0 : ℝ) < 2 ^ 105 by positivity]

/-- **C17, end points**: for a valid `x = ±1`: `asin x = ±π/2` and `acos x = 0` resp. `π`, to `2^-105` -/
theorem asin_acos_at_one {x : TwoFloat} (hv : x.Valid) (h : |x.V| = (unit : Int)) :
    (TwoFloat.asin x).Valid ∧ |rval (TwoFloat.asin x) - Real.arcsin (rval x)| ≤ 1 / 2 ^ 105 ∧
    (TwoFloat.acos x).Valid ∧ |rval (TwoFloat.acos x) - Real.arccos (rval x)| ≤ 1 / 2 ^ 105 := by
  obtain ⟨s, u, rfl, hs⟩ := shape_of_unit hv h
  obtain ⟨a1, a2, a3, a4⟩ := asin_at_one s u
  have hx : rval ⟨F64.fin s (2 ^ 1074), F64.fin u 0⟩ = if s then -1 else 1 := by
    have hV : TwoFloat.V ⟨F64.fin s (2 ^ 1074), F64.fin u 0⟩ = (if s then -1 else 1) * (2 : Int) ^ 1074 := by
      unfold TwoFloat.V
      rw [toInt_fin, toInt_fin]
      cases s <;> cases u <;> simp
    have key : ∀ c : Int, ((((c * (2 : Int) ^ 1074 : Int) : ℚ) / 2 ^ 1074 : ℚ)) = (c : ℚ) := by
      intro c
      rw [Int.cast_mul, Int.cast_pow, Int.cast_ofNat, mul_div_assoc, div_self (by positivity), mul_one]
    unfold rval val
    rw [hV, key]
    cases s <;> simp
  refine ⟨a1, ?_, a3, ?_⟩
  · cases s
    · simp only [Bool.false_eq_true, if_false] at a2 hx
      rw [hx, rval_of_V_eq a2, Real.arcsin_one]
      exact le_trans P_real_err (by norm_num)
    · simp only [if_true] at a2 hx
      rw [hx, rval_of_V_neg a2, Real.arcsin_neg_one, abs_neg_sub_neg]
      exact le_trans P_real_err (by norm_num)
  · cases s
    · simp only [Bool.false_eq_true, if_false] at a4 hx
      rw [hx, Real.arccos_one]
      have : rval (TwoFloat.acos ⟨F64.fin false (2 ^ 1074), F64.fin u 0⟩) = 0 := by
        unfold rval val; rw [a4]; simp
      rw [this]; norm_num
    · simp only [if_true] at a4 hx
      rw [hx, rval_of_V_eq a4, Real.arccos_neg_one]
      exact PI_real_err

/-! ## 4. `acos` -/

/-- **C17 (acos)**: valid `x`, `|x| ≤ 1 − 2^-440` ⇒ valid result, `|acos(x) − arccos x| ≤ 24·2^-50 < 2^-45` -/
theorem acos_abs_bound {x : TwoFloat} (hv : x.Valid) (hw : x.WF) (hx : |val x| ≤ 1 - 1 / 2 ^ 440) :
    (TwoFloat.acos x).Valid ∧ |rval (TwoFloat.acos x) - Real.arccos (rval x)| ≤ 24 / 2 ^ 50 := by
  obtain ⟨hvA, heA⟩ := asin_abs_bound hv hw hx
  have hwA := C17p.asin_WF x
  have hivA : TwoFloat.is_valid (TwoFloat.asin x) = true := (C07.is_valid_iff _ hwA).2 hvA
  rw [C17.acos_eq x hivA]
  obtain ⟨hvP, hwP, hP1, hP2, _⟩ := P_facts
  have hPb : |val consts.FRAC_PI_2| ≤ 2 := by
    rw [abs_of_pos (by linarith)]; linarith
  have hasb : |Real.arcsin (rval x)| ≤ 2 := by
    rw [abs_le]
    have := Real.arcsin_le_pi_div_two (rval x)
    have := Real.neg_pi_div_two_le_arcsin (rval x)
    have := Real.pi_le_four
    constructor <;> linarith
  have hAr : |rval (TwoFloat.asin x)| ≤ 3 := by
    have := abs_add_le (rval (TwoFloat.asin x) - Real.arcsin (rval x)) (Real.arcsin (rval x))
    rw [sub_add_cancel] at this
    have : (23 : ℝ) / 2 ^ 50 ≤ 1 := by norm_num
    linarith
  have hAq : |val (TwoFloat.asin x)| ≤ 3 := by
    refine rval_abs_le ?_
    push_cast; exact hAr
  obtain ⟨hv6, _, he6⟩ := sub_tt_val hvP hwP hvA hwA (le_trans hPb (by norm_num)) (le_trans hAq (by norm_num))
  refine ⟨hv6, ?_⟩
  have he6' : |val (arithmetic.impl_Sub_rTwoFloat_for_rTwoFloat.sub consts.FRAC_PI_2 (TwoFloat.asin x))
      - (val consts.FRAC_PI_2 - val (TwoFloat.asin x))| ≤ 5 / 2 ^ 104 := by
    refine le_trans he6 ?_
    have h7 : |val consts.FRAC_PI_2 - val (TwoFloat.asin x)| ≤ 5 := le_trans (abs_sub _ _) (by linarith)
    have := mul_le_mul cA_le h7 (abs_nonneg _) (by positivity)
    refine le_trans this ?_
    norm_num
  have t1 : |rval (arithmetic.impl_Sub_rTwoFloat_for_rTwoFloat.sub consts.FRAC_PI_2 (TwoFloat.asin x))
      - (rval consts.FRAC_PI_2 - rval (TwoFloat.asin x))| ≤ 5 / 2 ^ 104 := by
    have := cast_abs_sub_le he6'
    unfold rval
    push_cast at this ⊢
    exact this
  have t2 := P_real_err
  rw [Real.arccos_eq_pi_div_two_sub_arcsin]
  show |rval (arithmetic.impl_Sub_rTwoFloat_for_rTwoFloat.sub consts.FRAC_PI_2 (TwoFloat.asin x))
      - (Real.pi / 2 - Real.arcsin (rval x))| ≤ 24 / 2 ^ 50
  have b1 := abs_le.1 t1
  have b2 := abs_le.1 t2
  have b3 := abs_le.1 heA
  have num : (5 : ℝ) / 2 ^ 104 + 1 / 2 ^ 106 + 23 / 2 ^ 50 ≤ 24 / 2 ^ 50 := by norm_num
  rw [abs_le]
  constructor <;> linarith [b1.1, b1.2, b2.1, b2.2, b3.1, b3.2]

theorem C17_acos_abs {x : TwoFloat} (hv : x.Valid) (hw : x.WF) (hx : |val x| ≤ 1 - 1 / 2 ^ 440) :
    |rval (TwoFloat.acos x) - Real.arccos (rval x)| ≤ 1 / 2 ^ 45 :=
  le_trans (acos_abs_bound hv hw hx).2 (by norm_num)

/-! ## 5. `restricted_atan` against `Real.arctan` -/

theorem ATAN_COEFFS_val : trigonometry.ATAN_COEFFS.map val = atanCoeffs := by decide +kernel

theorem ATAN_COEFFS_ok : ∀ c ∈ trigonometry.ATAN_COEFFS, c.Valid ∧ c.WF := by decide +kernel

theorem atan_hBnd : hBnd atanT0 atanCoeffs = true := by decide +kernel

theorem atan_innerZero : InnerZero trigonometry.ATAN_COEFFS := by
  intro s u
  cases s <;> cases u <;> decide +kernel

theorem sq_le_atanT0 {v : ℚ} (h : |v| ≤ atanRho) : v ^ 2 ≤ atanT0 := by
  have h2 := pow_le_pow_left₀ (abs_nonneg v) h 2
  rw [sq_abs] at h2
  exact h2

/-- rounding error of `restricted_atan` against the exact rational polynomial, all valid `|x| ≤ 7/16 + 2^-20` -/
theorem restricted_atan_bound {x : TwoFloat} (hv : x.Valid) (hw : x.WF) (hhi : |val x| ≤ atanRho) :
    (trigonometry.restricted_atan x).Valid ∧ (trigonometry.restricted_atan x).WF ∧
    |val (trigonometry.restricted_atan x) - atanPolyQ (val x)| ≤ |val x| * 17 / 2 ^ 99 + 1 / 2 ^ 949 := by
  have h := restrictedM_bound (cs := trigonometry.ATAN_COEFFS) (by decide) (by decide) ATAN_COEFFS_ok
    (T := atanT0) (by unfold atanT0 atanRho; norm_num) (by rw [ATAN_COEFFS_val]; exact atan_hBnd) hv hw
    (sq_le_atanT0 hhi)
  rw [ATAN_COEFFS_val] at h
  rw [restricted_atan_eq]
  have e : ((trigonometry.ATAN_COEFFS.length + 2 : ℕ) : ℚ) = 17 := by
    have : trigonometry.ATAN_COEFFS.length = 15 := by decide
    rw [this]; norm_num
  rw [e] at h
  exact h

/-- **`restricted_atan` against `Real.arctan`**, all valid `|x| ≤ 7/16 + 2^-20`:
error `≤ |x|·(2^-72 + 2^-84) + 2^-949` -/
theorem restricted_atan_real {x : TwoFloat} (hv : x.Valid) (hw : x.WF) (hhi : |val x| ≤ atanRho) :
    (trigonometry.restricted_atan x).Valid ∧ (trigonometry.restricted_atan x).WF ∧
    |rval (trigonometry.restricted_atan x) - Real.arctan (rval x)|
      ≤ |rval x| * (1 / 2 ^ 72 + 1 / 2 ^ 84) + 1 / 2 ^ 949 := by
  obtain ⟨hV, hW, hb⟩ := restricted_atan_bound hv hw hhi
  have hr : |rval x| ≤ (atanRho : ℝ) := rval_le hhi
  have hb' : |rval (trigonometry.restricted_atan x) - AtanPoly (rval x)| ≤ |rval x| * 17 / 2 ^ 99 + 1 / 2 ^ 949 := by
    have := (Rat.cast_le (K := ℝ)).2 hb
    rw [Rat.cast_abs, Rat.cast_sub, atanPolyQ_cast] at this
    rw [abs_rval]
    push_cast at this ⊢
    exact this
  refine ⟨hV, hW, ?_⟩
  have e : rval (trigonometry.restricted_atan x) - Real.arctan (rval x)
      = (rval (trigonometry.restricted_atan x) - AtanPoly (rval x)) - (Real.arctan (rval x) - AtanPoly (rval x)) := by
    ring
  rw [e]
  refine le_trans (abs_sub _ _) ?_
  have := atan_poly_rel hr
  have h3 : |rval x| * 17 / 2 ^ 99 ≤ |rval x| * (1 / 2 ^ 85) := by
    rw [mul_div_assoc]
    exact mul_le_mul_of_nonneg_left (by norm_num) (abs_nonneg _)
  have e2 : |rval x| * (1 / 2 ^ 72 + 1 / 2 ^ 84)
      = |rval x| * (1 / 2 ^ 72 + 1 / 2 ^ 85) + |rval x| * (1 / 2 ^ 85) := by ring
  rw [e2]; linarith

/-- **`restricted_atan` relative to `|x|`, all valid `|x| ≤ 7/16 + 2^-20`** (`|x| ≤ 2^-540`: exact) -/
theorem restricted_atan_rel {x : TwoFloat} (hv : x.Valid) (hw : x.WF) (hhi : |val x| ≤ atanRho) :
    (trigonometry.restricted_atan x).Valid ∧ (trigonometry.restricted_atan x).WF ∧
    |rval (trigonometry.restricted_atan x) - Real.arctan (rval x)| ≤ |rval x| * (1 / 2 ^ 72 + 1 / 2 ^ 83) := by
  obtain ⟨hV, hW, h2⟩ := restricted_atan_real hv hw hhi
  refine ⟨hV, hW, ?_⟩
  by_cases hdeep : |val x| ≤ 1 / 2 ^ 540
  · obtain ⟨_, he⟩ := restrictedM_deep atan_innerZero hv hw hdeep
    rw [← restricted_atan_eq] at he
    have e1 : rval (trigonometry.restricted_atan x) = rval x := by unfold rval; rw [he]
    have hr : |rval x| ≤ 1 / 2 ^ 540 := by have := rval_le hdeep; push_cast at this; exact this
    have hA := atan_poly_rel (r := rval x) (le_trans hr (by unfold atanRho; push_cast; norm_num))
    have hP : |AtanPoly (rval x) - rval x| ≤ |rval x| * (1 / 2 ^ 1000) := by
      unfold AtanPoly
      have e : rval x * (rval x ^ 2 * peval atanCoeffs (rval x ^ 2) + 1) - rval x
          = rval x * (rval x ^ 2 * peval atanCoeffs (rval x ^ 2)) := by ring
      rw [e, abs_mul]
      refine mul_le_mul_of_nonneg_left ?_ (abs_nonneg _)
      have hsq : rval x ^ 2 ≤ 1 / 2 ^ 1080 := by
        have := pow_le_pow_left₀ (abs_nonneg _) hr 2
        rw [sq_abs] at this
        refine le_trans this ?_
        norm_num
      have hpe : |peval atanCoeffs (rval x ^ 2)| ≤ 2 := by
        have h1 := peval_le_absb atanCoeffs (h := 1) (s := rval x ^ 2)
          (by rw [abs_of_nonneg (sq_nonneg _)]; push_cast; exact le_trans hsq (by norm_num))
        refine le_trans h1 ?_
        have : absb atanCoeffs 1 ≤ 2 := by decide +kernel
        exact_mod_cast this
      rw [abs_mul, abs_of_nonneg (sq_nonneg _)]
      have := mul_le_mul hsq hpe (abs_nonneg _) (by positivity)
      refine le_trans this ?_
      norm_num
    rw [e1]
    have e : rval x - Real.arctan (rval x)
        = -(Real.arctan (rval x) - AtanPoly (rval x)) - (AtanPoly (rval x) - rval x) := by ring
    rw [e]
    refine le_trans (abs_sub _ _) ?_
    rw [abs_neg]
    have : |rval x| * (1 / 2 ^ 72 + 1 / 2 ^ 85) + |rval x| * (1 / 2 ^ 1000)
        ≤ |rval x| * (1 / 2 ^ 72 + 1 / 2 ^ 83) := by
      rw [← mul_add]
      exact mul_le_mul_of_nonneg_left (by norm_num) (abs_nonneg _)
    linarith
  · have hn : (1 : ℚ) / 2 ^ 540 ≤ |val x| := (not_le.1 hdeep).le
    refine le_trans h2 ?_
    have hr : (1 : ℝ) / 2 ^ 540 ≤ |rval x| := by
      rw [abs_rval]
      have := (Rat.cast_le (K := ℝ)).2 hn
      rw [Rat.cast_div, Rat.cast_one, Rat.cast_pow, Rat.cast_ofNat] at this
      exact this
    have h3 : (1 : ℝ) / 2 ^ 949 ≤ |rval x| * (1 / 2 ^ 409) := by
      have := mul_le_mul_of_nonneg_right hr (by positivity : (0 : ℝ) ≤ 1 / 2 ^ 409)
      refine le_trans (le_of_eq ?_) this
      norm_num
    have h4 : |rval x| * (1 / 2 ^ 72 + 1 / 2 ^ 84) + |rval x| * (1 / 2 ^ 409)
        ≤ |rval x| * (1 / 2 ^ 72 + 1 / 2 ^ 83) := by
      rw [← mul_add]
      exact mul_le_mul_of_nonneg_left (by norm_num) (abs_nonneg _)
    linarith

/-- `arctan` is `1`-Lipschitz -/
theorem arctan_lipschitz (a b : ℝ) : |Real.arctan a - Real.arctan b| ≤ |a - b| := by
  have key := (convex_univ : Convex ℝ (Set.univ : Set ℝ)).norm_image_sub_le_of_norm_hasDerivWithin_le
    (f := Real.arctan) (f' := fun s => 1 / (1 + s ^ 2)) (C := 1) (x := b) (y := a)
    (fun s _ => (Real.hasDerivAt_arctan s).hasDerivWithinAt)
    (fun s _ => by
      have hp : (0 : ℝ) < 1 + s ^ 2 := by positivity
      rw [Real.norm_eq_abs, abs_of_pos (by positivity), div_le_iff₀ hp]
      nlinarith [sq_nonneg s])
    (Set.mem_univ _) (Set.mem_univ _)
  simpa [Real.norm_eq_abs] using key

/-! ## 6. more operator glue -/

/-- `TwoFloat - f64` -/
theorem sub_tf_val {x : TwoFloat} {f : F64} (hvx : x.Valid) (hwx : x.WF) (hff : f.is_finite = true) (hwf : f.WF)
    (hx : |val x| ≤ 2 ^ 30) (hf : f.toInt.natAbs < 2 ^ 2095) :
    (arithmetic.impl_Sub_rf64_for_rTwoFloat.sub x f).Valid ∧
    (arithmetic.impl_Sub_rf64_for_rTwoFloat.sub x f).WF ∧
    |val (arithmetic.impl_Sub_rf64_for_rTwoFloat.sub x f) - (val x - fval f)| ≤ 1 / 2 ^ 105 * |val x - fval f| := by
  have hxh : x.hi.toInt.natAbs < 2 ^ 2095 :=
    lt_trans (hi_natAbs_lt hvx hx) (Nat.pow_lt_pow_right (by norm_num) (by norm_num))
  obtain ⟨hV, hb⟩ := C03b.sub_tf_f64_bound hvx hwx hff hwf hxh hf
  refine ⟨hV, TwoFloat.sub_tf_WF x f, ?_⟩
  have h := scaled_le (N := 1) (D := 2 ^ 105) (by positivity) (by simpa using hb)
  unfold val fval
  rw [← sub_div]
  push_cast at h ⊢
  exact h

/-- `f64 + TwoFloat` -/
theorem add_ft_val {x : TwoFloat} {f : F64} (hvx : x.Valid) (hwx : x.WF) (hff : f.is_finite = true) (hwf : f.WF)
    (hx : |val x| ≤ 2 ^ 30) (hf : f.toInt.natAbs < 2 ^ 2095) :
    (arithmetic.impl_Add_rTwoFloat_for_rf64.add f x).Valid ∧
    (arithmetic.impl_Add_rTwoFloat_for_rf64.add f x).WF ∧
    |val (arithmetic.impl_Add_rTwoFloat_for_rf64.add f x) - (fval f + val x)| ≤ 1 / 2 ^ 105 * |fval f + val x| := by
  have hxh : x.hi.toInt.natAbs < 2 ^ 2095 :=
    lt_trans (hi_natAbs_lt hvx hx) (Nat.pow_lt_pow_right (by norm_num) (by norm_num))
  obtain ⟨hV, hb⟩ := C03b.add_f64_tf_bound hvx hwx hff hwf hxh hf
  refine ⟨hV, PF.add_ft_WF f x, ?_⟩
  have h := scaled_le (N := 1) (D := 2 ^ 105) (by positivity) (by simpa using hb)
  unfold val fval
  rw [← add_div]
  push_cast at h ⊢
  exact h

/-- `f64 * TwoFloat`, product of the high word and `f` of magnitude in `[2^-960, 2^1021]` -/
theorem mul_ft_val {x : TwoFloat} {f : F64} (hv : x.Valid) (hw : x.WF) (hff : f.is_finite = true) (hwf : f.WF)
    (hr : x.hi.toInt * f.toInt = 0 ∨
      ((2 : Int) ^ 1188 ≤ |x.hi.toInt * f.toInt| ∧ |x.hi.toInt * f.toInt| < (2 : Int) ^ 3169)) :
    (arithmetic.impl_Mul_rTwoFloat_for_rf64.mul f x).Valid ∧
    (arithmetic.impl_Mul_rTwoFloat_for_rf64.mul f x).WF ∧
    |val (arithmetic.impl_Mul_rTwoFloat_for_rf64.mul f x) - fval f * val x| ≤ 1 / 2 ^ 105 * |fval f * val x| := by
  obtain ⟨hV, hb⟩ := C04b.mul_f64_tf_bound hv hw hff hwf hr
  refine ⟨hV, PF.mul_ft_WF f x, ?_⟩
  generalize arithmetic.impl_Mul_rTwoFloat_for_rf64.mul f x = p at *
  rw [unit_cast_eq] at hb
  have hq : |(p.V : ℚ) * 2 ^ 1074 - f.toInt * x.V| * 2 ^ 105 ≤ |(f.toInt : ℚ) * x.V| := by exact_mod_cast hb
  unfold val fval
  have hW : (0 : ℚ) < 2 ^ 1074 := by positivity
  generalize (2 : ℚ) ^ 1074 = W at *
  have e1 : (p.V : ℚ) / W - f.toInt / W * (x.V / W) = ((p.V : ℚ) * W - f.toInt * x.V) / (W * W) := by field_simp
  have e2 : (f.toInt : ℚ) / W * (x.V / W) = ((f.toInt : ℚ) * x.V) / (W * W) := by field_simp
  rw [e1, e2, abs_div, abs_div, abs_of_pos (mul_pos hW hW), ← mul_div_assoc,
    div_le_div_iff_of_pos_right (mul_pos hW hW), div_mul_eq_mul_div, one_mul, le_div_iff₀ (by positivity)]
  exact hq

/-- `recip x`, `x.hi` of magnitude in `[2^-1016, 2^964]`: `|1 − recip(x)·x| ≤ 2^-102` -/
theorem recip_val {x : TwoFloat} (hv : x.Valid)
    (hB : 2 ^ 58 ≤ x.hi.toInt.natAbs ∧ x.hi.toInt.natAbs ≤ 2 ^ 2038) :
    (TwoFloat.recip x).Valid ∧ (TwoFloat.recip x).WF ∧ |1 - val (TwoFloat.recip x) * val x| ≤ 1 / 2 ^ 102 := by
  obtain ⟨hV, hW⟩ := C01d.recip_valid x hv hB.1 (le_trans hB.2 (by norm_num))
  have hb := C01d.recip_bound x hv hB.1 hB.2
  refine ⟨hV, hW, ?_⟩
  generalize TwoFloat.recip x = q at *
  rw [unit_cast_eq] at hb
  have hq : (2 : ℚ) ^ 102 * |(2 : ℚ) ^ 1074 * 2 ^ 1074 - q.V * x.V| ≤ (2 : ℚ) ^ 1074 * 2 ^ 1074 := by
    exact_mod_cast hb
  unfold val
  have hW0 : (0 : ℚ) < 2 ^ 1074 := by positivity
  generalize (2 : ℚ) ^ 1074 = W at *
  have e1 : (1 : ℚ) - q.V / W * (x.V / W) = (W * W - q.V * x.V) / (W * W) := by field_simp
  rw [e1, abs_div, abs_of_pos (mul_pos hW0 hW0), div_le_iff₀ (mul_pos hW0 hW0)]
  have p : (0 : ℚ) < 2 ^ 102 := by positivity
  have : (2 : ℚ) ^ 102 * (1 / 2 ^ 102 * (W * W)) = W * W := by field_simp
  nlinarith

/-! ## 7. `atan`: the selector `k = 4|x| + 0.25` and the thresholds -/

theorem four_lit : (f64lit 0x4010000000000000).is_finite = true ∧ (f64lit 0x4010000000000000).WF ∧
    (f64lit 0x4010000000000000).toInt = 1 * 2 ^ 2 * (unit : Int) := by decide +kernel

theorem quarter_lit : (f64lit 0x3fd0000000000000).is_finite = true ∧ (f64lit 0x3fd0000000000000).WF ∧
    (f64lit 0x3fd0000000000000).toInt = 2 ^ 1072 ∧ (f64lit 0x3fd0000000000000).toInt.natAbs < 2 ^ 2095 := by
  decide +kernel

theorem three_lit : (f64lit 0x4008000000000000).is_finite = true ∧ (f64lit 0x4008000000000000).WF ∧
    (f64lit 0x4008000000000000).toInt = 3 * 2 ^ 1074 := by decide +kernel

theorem five_lit : (f64lit 0x4014000000000000).is_finite = true ∧ (f64lit 0x4014000000000000).WF ∧
    (f64lit 0x4014000000000000).toInt = 5 * 2 ^ 1074 := by decide +kernel

theorem ten_lit : (f64lit 0x4024000000000000).is_finite = true ∧ (f64lit 0x4024000000000000).WF ∧
    (f64lit 0x4024000000000000).toInt = 10 * 2 ^ 1074 := by decide +kernel

theorem three_halves_lit : (f64lit 0x3ff8000000000000).is_finite = true ∧ (f64lit 0x3ff8000000000000).WF ∧
    (f64lit 0x3ff8000000000000).toInt = 3 * 2 ^ 1073 ∧ (f64lit 0x3ff8000000000000).toInt.natAbs < 2 ^ 2095 := by
  decide +kernel

theorem half_natAbs : (f64lit 0x3fe0000000000000).toInt.natAbs < 2 ^ 2095 := by decide +kernel

theorem fval_of {f : F64} {n : Int} (h : f.toInt = n * 2 ^ 1074) : fval f = (n : ℚ) := by
  unfold fval
  rw [h, Int.cast_mul, Int.cast_pow, Int.cast_ofNat, mul_div_assoc, div_self (by positivity), mul_one]

theorem fval_two : fval (f64lit 0x4000000000000000) = 2 := by
  have : (f64lit 0x4000000000000000).toInt = 2 * 2 ^ 1074 := by rw [two_facts.2.2.1]; norm_num
  exact_mod_cast fval_of this
theorem fval_three : fval (f64lit 0x4008000000000000) = 3 := by exact_mod_cast fval_of three_lit.2.2
theorem fval_five : fval (f64lit 0x4014000000000000) = 5 := by exact_mod_cast fval_of five_lit.2.2
theorem fval_ten : fval (f64lit 0x4024000000000000) = 10 := by exact_mod_cast fval_of ten_lit.2.2
theorem fval_half : fval (f64lit 0x3fe0000000000000) = 1 / 2 := by
  unfold fval
  rw [half_facts.2.2, Int.cast_pow, Int.cast_ofNat, pow_succ (2 : ℚ) 1073, div_mul_eq_div_div,
    div_self (by positivity)]
theorem fval_quarter : fval (f64lit 0x3fd0000000000000) = 1 / 4 := by
  unfold fval
  rw [quarter_lit.2.2.1, Int.cast_pow, Int.cast_ofNat]
  have : (2 : ℚ) ^ 1074 = 2 ^ 1072 * 4 := by rw [show (4 : ℚ) = 2 ^ 2 by norm_num, ← pow_add]
  rw [this, div_mul_eq_div_div, div_self (by positivity)]
theorem fval_three_halves : fval (f64lit 0x3ff8000000000000) = 3 / 2 := by
  unfold fval
  rw [three_halves_lit.2.2.1, Int.cast_mul, Int.cast_pow, Int.cast_ofNat, Int.cast_ofNat,
    pow_succ (2 : ℚ) 1073, mul_div_assoc, div_mul_eq_div_div, div_self (by positivity)]
  norm_num

/-- the upper half of `hi_range_gen` -/
theorem hi_le_gen {t : TwoFloat} (hv : t.Valid) {j : ℕ} (h2 : |val t| ≤ 2 ^ j) :
    t.hi.toInt.natAbs ≤ 2 ^ (1075 + j) := by
  have a2 : |t.V| ≤ (2 : Int) ^ (1074 + j) := int_upper h2
  obtain ⟨b1, _⟩ := hi_bounds hv
  have c2 : |t.hi.toInt| ≤ (2 : Int) ^ (1075 + j) := by
    have e : (2 : Int) ^ (1075 + j) = 2 * 2 ^ (1074 + j) := by
      rw [← pow_succ']; congr 1; omega
    rw [e]
    have p : (0 : Int) < 2 ^ (1074 + j) := by positivity
    generalize (2 : Int) ^ (1074 + j) = W at *
    nlinarith [abs_nonneg t.hi.toInt]
  rw [Int.abs_eq_natAbs] at c2
  exact_mod_cast c2

/-- `TwoFloat + f64`, wide range -/
theorem add_tf_val_wide {x : TwoFloat} {f : F64} (hvx : x.Valid) (hwx : x.WF) (hff : f.is_finite = true)
    (hwf : f.WF) (hxh : x.hi.toInt.natAbs < 2 ^ 2095) (hf : f.toInt.natAbs < 2 ^ 2095) :
    (arithmetic.impl_Add_rf64_for_rTwoFloat.add x f).Valid ∧
    (arithmetic.impl_Add_rf64_for_rTwoFloat.add x f).WF ∧
    |val (arithmetic.impl_Add_rf64_for_rTwoFloat.add x f) - (val x + fval f)| ≤ 1 / 2 ^ 105 * |val x + fval f| := by
  obtain ⟨hV, hb⟩ := C03b.add_tf_f64_bound hvx hwx hff hwf hxh hf
  refine ⟨hV, TwoFloat.add_tf_WF x f, ?_⟩
  have h := scaled_le (N := 1) (D := 2 ^ 105) (by positivity) (by simpa using hb)
  unfold val fval
  rw [← add_div]
  push_cast at h ⊢
  exact h

/-- comparisons of a valid pair with a double literal are comparisons of the values -/
theorem cmp_le_lit {k : TwoFloat} (hk : k.Valid) {c : F64} (hc : c.WF) (hcf : c.is_finite = true) :
    ROrd.isLe (base.impl_PartialOrd_f64_for_TwoFloat.partial_cmp k c) = true ↔ val k ≤ fval c := by
  rw [show base.impl_PartialOrd_f64_for_TwoFloat.partial_cmp = C06.cmpTF from rfl, C06.le_f64_exact hk hc hcf]
  unfold val fval
  rw [div_le_div_iff_of_pos_right (by positivity)]
  exact_mod_cast Iff.rfl

theorem cmp_lt_lit {k : TwoFloat} (hk : k.Valid) {c : F64} (hc : c.WF) (hcf : c.is_finite = true) :
    ROrd.isLt (base.impl_PartialOrd_f64_for_TwoFloat.partial_cmp k c) = true ↔ val k < fval c := by
  rw [show base.impl_PartialOrd_f64_for_TwoFloat.partial_cmp = C06.cmpTF from rfl, C06.lt_f64_exact hk hc hcf]
  unfold val fval
  rw [div_lt_div_iff_of_pos_right (by positivity)]
  exact_mod_cast Iff.rfl

/-- **the selector of `atan`**: `k = 4·|x| + 0.25` up to a relative `2^-105` -/
theorem atan_k {x : TwoFloat} (hv : x.Valid) (hw : x.WF) (hx : |val x| ≤ 2 ^ 60) :
    (arithmetic.impl_Add_rf64_for_rTwoFloat.add
      (arithmetic.impl_Mul_rTwoFloat_for_rf64.mul (f64lit 0x4010000000000000) (TwoFloat.abs x))
      (f64lit 0x3fd0000000000000)).Valid ∧
    |val (arithmetic.impl_Add_rf64_for_rTwoFloat.add
      (arithmetic.impl_Mul_rTwoFloat_for_rf64.mul (f64lit 0x4010000000000000) (TwoFloat.abs x))
      (f64lit 0x3fd0000000000000)) - (4 * |val x| + 1 / 4)| ≤ 1 / 2 ^ 105 * (4 * |val x| + 1 / 4) := by
  obtain ⟨ha, hwa, hval⟩ := abs_facts hv hw
  set a := TwoFloat.abs x with hadef
  have haj : |val a| ≤ 2 ^ 60 := by rw [hval, _root_.abs_abs]; exact hx
  have hah := hi_le_gen ha haj
  have hmax : (2 : Nat) ^ (1075 + 60) * 2 ^ 2 ≤ maxFin :=
    le_trans (by rw [← pow_add]; exact Nat.pow_le_pow_right (by norm_num) (by norm_num)) two_pow_2097_le_maxFin
  obtain ⟨_, _, hV4', hv4', hw4'⟩ := C04x.mul_ft_pow2_up (f64lit 0x4010000000000000) a 1 2 (Or.inl rfl) ha hwa
    four_lit.1 four_lit.2.2 (le_trans (Nat.mul_le_mul_right _ hah) hmax)
  have hV4 : (arithmetic.impl_Mul_rTwoFloat_for_rf64.mul (f64lit 0x4010000000000000) a).V = 1 * 2 ^ 2 * a.V := hV4'
  have hv4 : (arithmetic.impl_Mul_rTwoFloat_for_rf64.mul (f64lit 0x4010000000000000) a).Valid := hv4'
  have hw4 : (arithmetic.impl_Mul_rTwoFloat_for_rf64.mul (f64lit 0x4010000000000000) a).WF := hw4'
  have hkm : val (arithmetic.impl_Mul_rTwoFloat_for_rf64.mul (f64lit 0x4010000000000000) a) = 4 * val a := by
    unfold val
    rw [hV4]; push_cast; ring
  have hkmj : |val (arithmetic.impl_Mul_rTwoFloat_for_rf64.mul (f64lit 0x4010000000000000) a)| ≤ 2 ^ 62 := by
    rw [hkm, abs_mul]
    have : |(4 : ℚ)| = 4 := by norm_num
    rw [this]
    have : (2 : ℚ) ^ 62 = 4 * 2 ^ 60 := by norm_num
    rw [this]
    exact mul_le_mul_of_nonneg_left haj (by norm_num)
  have hkmh := hi_le_gen hv4 hkmj
  obtain ⟨hvk, _, hek⟩ := add_tf_val_wide hv4 hw4 quarter_lit.1 quarter_lit.2.1
    (lt_of_le_of_lt hkmh (Nat.pow_lt_pow_right (by norm_num) (by norm_num))) quarter_lit.2.2.2
  refine ⟨hvk, ?_⟩
  rw [hkm, hval, fval_quarter] at hek
  have hp : (0 : ℚ) ≤ 4 * |val x| + 1 / 4 := by positivity
  rwa [abs_of_nonneg hp] at hek

/-- thresholds: a computed `vk ≈ E` (relative `2^-105`) below / above a constant `c ≤ 16` -/
theorem thr {E vk c : ℚ} (h : |vk - E| ≤ 1 / 2 ^ 105 * E) (hc : c ≤ 16) :
    (vk ≤ c → E ≤ c + 1 / 2 ^ 100) ∧ (c ≤ vk → c - 1 / 2 ^ 100 ≤ E) := by
  obtain ⟨l, u⟩ := abs_le.1 h
  constructor
  · intro hle
    by_contra hn
    have hE' : c + 1 / 2 ^ 100 < E := not_le.1 hn
    have : 1 / 2 ^ 105 * E ≤ 1 / 2 ^ 105 * E := le_refl _
    -- E(1 − ε) ≤ vk ≤ c
    have h2 : E * (1 - 1 / 2 ^ 105) ≤ c := by linarith
    have h3 : (c + 1 / 2 ^ 100) * (1 - 1 / 2 ^ 105) < E * (1 - 1 / 2 ^ 105) :=
      mul_lt_mul_of_pos_right hE' (by norm_num)
    have h4 : c ≤ (c + 1 / 2 ^ 100) * (1 - 1 / 2 ^ 105) := by
      have : (c + 1 / 2 ^ 100) * (1 - 1 / 2 ^ 105) = c + (1 / 2 ^ 100 - c / 2 ^ 105 - 1 / 2 ^ 205) := by ring
      rw [this]
      have : c / 2 ^ 105 ≤ 16 / 2 ^ 105 := div_le_div_of_nonneg_right hc (by positivity)
      have : (16 : ℚ) / 2 ^ 105 + 1 / 2 ^ 205 ≤ 1 / 2 ^ 100 := by norm_num
      linarith
    linarith
  · intro hge
    have h2 : c ≤ E * (1 + 1 / 2 ^ 105) := by linarith
    by_contra hn
    have hE' : E < c - 1 / 2 ^ 100 := not_le.1 hn
    have h3 : E * (1 + 1 / 2 ^ 105) < (c - 1 / 2 ^ 100) * (1 + 1 / 2 ^ 105) :=
      mul_lt_mul_of_pos_right hE' (by norm_num)
    have h4 : (c - 1 / 2 ^ 100) * (1 + 1 / 2 ^ 105) ≤ c := by
      have : (c - 1 / 2 ^ 100) * (1 + 1 / 2 ^ 105) = c - (1 / 2 ^ 100 - c / 2 ^ 105 + 1 / 2 ^ 205) := by ring
      rw [this]
      have : c / 2 ^ 105 ≤ 16 / 2 ^ 105 := div_le_div_of_nonneg_right hc (by positivity)
      have : (16 : ℚ) / 2 ^ 105 ≤ 1 / 2 ^ 100 := by norm_num
      have : (0 : ℚ) ≤ 1 / 2 ^ 205 := by positivity
      linarith
    linarith

end C17t
