/-
C17t — accuracy of `TwoFloat::asin` / `acos` (and `atan`) against `Real.arcsin` / `Real.arccos` / `Real.arctan`.

Notation as in C16t: `val t : ℚ` the exact value `hi + lo`, `rval t : ℝ` its cast.
-/
import TFV.Properties.C16u
import TFV.Properties.C13s
import TFV.Properties.C17

set_option exponentiation.threshold 3000

namespace C17t

open F64 TwoFloat PowiBound TrigBound ATrigBound C16t C16u

/-! ## 0. the tables of `ATrigBound` are the model's tables -/

theorem ASIN_COEFFS_val : trigonometry.ASIN_COEFFS.map val = asinCoeffs := by decide +kernel

theorem ASIN_COEFFS_ok : ∀ c ∈ trigonometry.ASIN_COEFFS, c.Valid ∧ c.WF := by decide +kernel

theorem asin_hBnd : hBnd asinT0 asinCoeffs = true := by decide +kernel

theorem asin_innerZero : InnerZero trigonometry.ASIN_COEFFS := by
  intro s u
  cases s <;> cases u <;> decide +kernel

/-! ## 1. `restricted_asin` against `Real.arcsin` -/

theorem sq_le_asinT0 {v : ℚ} (h : |v| ≤ asinRho) : v ^ 2 ≤ asinT0 := by
  have h2 := pow_le_pow_left₀ (abs_nonneg v) h 2
  rw [sq_abs] at h2
  refine le_trans h2 ?_
  unfold asinRho asinT0
  norm_num

/-- rounding error of `restricted_asin` against the exact rational polynomial, all valid `|x| ≤ 1/2 + 2^-17` -/
theorem restricted_asin_bound {x : TwoFloat} (hv : x.Valid) (hw : x.WF) (hhi : |val x| ≤ asinRho) :
    (trigonometry.restricted_asin x).Valid ∧ (trigonometry.restricted_asin x).WF ∧
    |val (trigonometry.restricted_asin x) - asinPolyQ (val x)| ≤ |val x| * 12 / 2 ^ 99 + 1 / 2 ^ 949 := by
  have h := restrictedM_bound (cs := trigonometry.ASIN_COEFFS) (by decide) (by decide) ASIN_COEFFS_ok
    (T := asinT0) (by unfold asinT0; norm_num) (by rw [ASIN_COEFFS_val]; exact asin_hBnd) hv hw (sq_le_asinT0 hhi)
  rw [ASIN_COEFFS_val] at h
  rw [restricted_asin_eq]
  have e : ((trigonometry.ASIN_COEFFS.length + 2 : ℕ) : ℚ) = 12 := by
    have : trigonometry.ASIN_COEFFS.length = 10 := by decide
    rw [this]; norm_num
  rw [e] at h
  exact h

theorem rval_asinRho {x : TwoFloat} (hhi : |val x| ≤ asinRho) : |rval x| ≤ (asinRho : ℝ) := rval_le hhi

/-- **`restricted_asin` against `Real.arcsin`**: all valid `|x| ≤ 1/2 + 2^-17`:
error `≤ |x|·(2^-45 + 2^-49) + 2^-949` and `≤ 10·2^-50` -/
theorem restricted_asin_real {x : TwoFloat} (hv : x.Valid) (hw : x.WF) (hhi : |val x| ≤ asinRho) :
    (trigonometry.restricted_asin x).Valid ∧ (trigonometry.restricted_asin x).WF ∧
    |rval (trigonometry.restricted_asin x) - Real.arcsin (rval x)|
      ≤ |rval x| * (1 / 2 ^ 45 + 1 / 2 ^ 49) + 1 / 2 ^ 949 ∧
    |rval (trigonometry.restricted_asin x) - Real.arcsin (rval x)| ≤ 10 / 2 ^ 50 := by
  obtain ⟨hV, hW, hb⟩ := restricted_asin_bound hv hw hhi
  have hr := rval_asinRho hhi
  have hr2 : |rval x| ≤ 33 / 64 := by
    refine le_trans hr ?_
    unfold asinRho; push_cast; norm_num
  have hb' : |rval (trigonometry.restricted_asin x) - AsinPoly (rval x)| ≤ |rval x| * 12 / 2 ^ 99 + 1 / 2 ^ 949 := by
    have := (Rat.cast_le (K := ℝ)).2 hb
    rw [Rat.cast_abs, Rat.cast_sub, asinPolyQ_cast] at this
    rw [abs_rval]
    push_cast at this ⊢
    exact this
  have e : rval (trigonometry.restricted_asin x) - Real.arcsin (rval x)
      = (rval (trigonometry.restricted_asin x) - AsinPoly (rval x)) - (Real.arcsin (rval x) - AsinPoly (rval x)) := by
    ring
  have t1 : |rval (trigonometry.restricted_asin x) - Real.arcsin (rval x)|
      ≤ |rval (trigonometry.restricted_asin x) - AsinPoly (rval x)| + |Real.arcsin (rval x) - AsinPoly (rval x)| := by
    rw [e]; exact abs_sub _ _
  refine ⟨hV, hW, ?_, ?_⟩
  · have := asin_poly_rel hr
    have e2 : |rval x| * (1 / 2 ^ 45 + 1 / 2 ^ 49)
        = |rval x| * (1 / 2 ^ 45 + 1 / 2 ^ 50) + |rval x| * (1 / 2 ^ 50) := by ring
    have h3 : |rval x| * 12 / 2 ^ 99 ≤ |rval x| * (1 / 2 ^ 50) := by
      rw [mul_div_assoc]
      exact mul_le_mul_of_nonneg_left (by norm_num) (abs_nonneg _)
    rw [e2]; linarith
  · have := asin_poly_abs hr
    have h3 : |rval x| * 12 / 2 ^ 99 ≤ 33 / 64 * 12 / 2 ^ 99 := by
      have := mul_le_mul_of_nonneg_right hr2 (by norm_num : (0 : ℝ) ≤ 12)
      exact div_le_div_of_nonneg_right this (by positivity)
    have : (33 : ℝ) / 64 * 12 / 2 ^ 99 + 1 / 2 ^ 949 + 9 / 2 ^ 50 ≤ 10 / 2 ^ 50 := by norm_num
    linarith

/-- **`restricted_asin` relative to `|x|`, all valid `|x| ≤ 1/2 + 2^-17`** (`|x| ≤ 2^-540`: exact) -/
theorem restricted_asin_rel {x : TwoFloat} (hv : x.Valid) (hw : x.WF) (hhi : |val x| ≤ asinRho) :
    |rval (trigonometry.restricted_asin x) - Real.arcsin (rval x)| ≤ |rval x| * (1 / 2 ^ 45 + 1 / 2 ^ 48) := by
  by_cases hdeep : |val x| ≤ 1 / 2 ^ 540
  · obtain ⟨_, he⟩ := restrictedM_deep asin_innerZero hv hw hdeep
    rw [← restricted_asin_eq] at he
    have e1 : rval (trigonometry.restricted_asin x) = rval x := by unfold rval; rw [he]
    have hr : |rval x| ≤ 1 / 2 ^ 540 := by have := rval_le hdeep; push_cast at this; exact this
    have hT := arcsin_taylor (r := rval x) (le_trans hr (by unfold asinRho; push_cast; norm_num))
    -- arcsin r − r = (arcsin r − r·T(r²)) + r·(T(r²) − 1), and T(t) − 1 = t·(…)
    have hA := asin_poly_rel (r := rval x) (le_trans hr (by unfold asinRho; push_cast; norm_num))
    have hP : |AsinPoly (rval x) - rval x| ≤ |rval x| * (1 / 2 ^ 1000) := by
      unfold AsinPoly
      have e : rval x * (rval x ^ 2 * peval asinCoeffs (rval x ^ 2) + 1) - rval x
          = rval x * (rval x ^ 2 * peval asinCoeffs (rval x ^ 2)) := by ring
      rw [e, abs_mul]
      refine mul_le_mul_of_nonneg_left ?_ (abs_nonneg _)
      have hsq : rval x ^ 2 ≤ 1 / 2 ^ 1080 := by
        have := pow_le_pow_left₀ (abs_nonneg _) hr 2
        rw [sq_abs] at this
        refine le_trans this ?_
        norm_num
      have hpe : |peval asinCoeffs (rval x ^ 2)| ≤ 1 := by
        have h1 := peval_le_absb asinCoeffs (h := 1) (s := rval x ^ 2)
          (by rw [abs_of_nonneg (sq_nonneg _)]; push_cast; exact le_trans hsq (by norm_num))
        refine le_trans h1 ?_
        have : absb asinCoeffs 1 ≤ 1 := by decide +kernel
        exact_mod_cast this
      rw [abs_mul, abs_of_nonneg (sq_nonneg _)]
      have := mul_le_mul hsq hpe (abs_nonneg _) (by positivity)
      refine le_trans this ?_
      norm_num
    rw [e1]
    have e : rval x - Real.arcsin (rval x)
        = -(Real.arcsin (rval x) - AsinPoly (rval x)) - (AsinPoly (rval x) - rval x) := by ring
    rw [e]
    refine le_trans (abs_sub _ _) ?_
    rw [abs_neg]
    have : |rval x| * (1 / 2 ^ 45 + 1 / 2 ^ 50) + |rval x| * (1 / 2 ^ 1000)
        ≤ |rval x| * (1 / 2 ^ 45 + 1 / 2 ^ 48) := by
      rw [← mul_add]
      exact mul_le_mul_of_nonneg_left (by norm_num) (abs_nonneg _)
    linarith
  · have hn : (1 : ℚ) / 2 ^ 540 ≤ |val x| := (not_le.1 hdeep).le
    obtain ⟨_, _, h2, _⟩ := restricted_asin_real hv hw hhi
    refine le_trans h2 ?_
    have hr : (1 : ℝ) / 2 ^ 540 ≤ |rval x| := by
      rw [abs_rval]
      have := (Rat.cast_le (K := ℝ)).2 hn
      rw [Rat.cast_div, Rat.cast_one, Rat.cast_pow, Rat.cast_ofNat] at this
      exact this
    have h3 : (1 : ℝ) / 2 ^ 949 ≤ |rval x| * (1 / 2 ^ 409) := by
      have := mul_le_mul_of_nonneg_right hr (by positivity : (0 : ℝ) ≤ 1 / 2 ^ 409)
      refine le_trans (le_of_eq ?_) this
      norm_num
    have h4 : |rval x| * (1 / 2 ^ 45 + 1 / 2 ^ 49) + |rval x| * (1 / 2 ^ 409)
        ≤ |rval x| * (1 / 2 ^ 45 + 1 / 2 ^ 48) := by
      rw [← mul_add]
      exact mul_le_mul_of_nonneg_left (by norm_num) (abs_nonneg _)
    linarith

end C17t
