/-
C17t — accuracy of `TwoFloat::asin` / `acos` / `atan` against `Real.arcsin` / `Real.arccos` / `Real.arctan` (Mathlib).

Notation as in C16t: `val t : ℚ` the exact value `hi + lo`, `rval t : ℝ` its cast.  All statements are for
`x.Valid` (Definition 1.4) and `x.WF`.

MAIN RESULTS
* `asin_small_bound`  : `|x| ≤ 1/2` ⇒ valid result, `|asin(x) − arcsin x| ≤ |x|·(2^-45 + 2^-48)` (relative to `|x| ≤ |arcsin x|`;
                        `|x| ≤ 2^-540`: `asin x = x` exactly).
  `asin_large_bound`  : `1/2 < |x| ≤ 1 − 2^-890` ⇒ valid result, absolute error `≤ 21·2^-50 < 2^-45.6` (the half-angle branch:
                        `1.0 − |x|`, `/ 2.0`, `sqrt` (21u²), `restricted_asin`, `2.0 *`, `FRAC_PI_2 −`, sign).
  `asin_abs_bound`, `C17_asin_abs` (`2^-45`), `C17_asin_rel` (`2^-43·|arcsin x|`), `acos_abs_bound`, `C17_acos_abs` (`2^-45`).
  `asin_acos_at_one`  : `x = ±1` (any zero low word): `asin = ±π/2`, `acos = 0 / π` to `2^-105`.
  OPEN for asin/acos: `1 − 2^-890 < |x| < 1` (the operator library has no bound for `sqrt` below `2^-900` and for
  `TwoFloat / 2.0` below `2^-953`).
* `atan_bound`        : `|x| ≤ 2^62`, and `|x|` equal to or `≥ 2^-950` away from each reduction centre `1/2, 1, 3/2` ⇒ valid
                        result within relative `2^-70` of `arctan x`, through all five intervals, the selector
                        `k = 4|x| + 0.25` (exact product, one rounding), the tabulated constants
                        (`C1_real`, `C2_real`, `C3_real`: `ATAN_FRAC_1_2`, `FRAC_PI_4`, `ATAN_FRAC_3_2` are
                        `arctan 1/2, 1, 3/2` to `2^-100`), `recip`, and the sign.
  OPEN for atan: `0 < ||x| − c| < 2^-950` (the quotient `(x − c)/(1 + c·x)` underflows the range of the division lemma).
* `atan2_bound`       : valid operands with high words of magnitude in `[2^-30, 2^30]` (off the axes; the axis table is
                        in C17.lean), the computed quotient subject to the same gap condition: valid result within
                        relative `2^-69` of the four-quadrant angle `angle Y X` (`arctan (Y/X)`, `± π` for `X < 0`).

INGREDIENTS: `C16u.restrictedM_bound / restrictedM_deep` (rounding of the odd kernels in all ranges),
`ATrigBound.asin_poly_rel/abs`, `atan_poly_rel` (approximation errors), operator glue in rational form (section 2, 6).
-/
import TFV.Properties.C16u
import TFV.Properties.C13s
import TFV.Properties.C17
import TFV.Properties.C17p
import TFV.Properties.C05x

set_option exponentiation.threshold 3000

namespace C17t

open F64 TwoFloat PowiBound TrigBound ATrigBound C16t C16u

/-! ## 0. the tables of `ATrigBound` are the model's tables -/

theorem ASIN_COEFFS_val : trigonometry.ASIN_COEFFS.map val = asinCoeffs := by decide +kernel

theorem ASIN_COEFFS_ok : ∀ c ∈ trigonometry.ASIN_COEFFS, c.Valid ∧ c.WF := by decide +kernel

theorem asin_hBnd : hBnd asinT0 asinCoeffs = true := by decide +kernel

theorem asin_innerZero : InnerZero trigonometry.ASIN_COEFFS := by
  intro s u
  cases s <;> cases u <;> decide +kernel

/-! ## 1. `restricted_asin` against `Real.arcsin` -/

theorem sq_le_asinT0 {v : ℚ} (h : |v| ≤ asinRho) : v ^ 2 ≤ asinT0 := by
  have h2 := pow_le_pow_left₀ (abs_nonneg v) h 2
  rw [sq_abs] at h2
  refine le_trans h2 ?_
  unfold asinRho asinT0
  norm_num

/-- rounding error of `restricted_asin` against the exact rational polynomial, all valid `|x| ≤ 1/2 + 2^-17` -/
theorem restricted_asin_bound {x : TwoFloat} (hv : x.Valid) (hw : x.WF) (hhi : |val x| ≤ asinRho) :
    (trigonometry.restricted_asin x).Valid ∧ (trigonometry.restricted_asin x).WF ∧
    |val (trigonometry.restricted_asin x) - asinPolyQ (val x)| ≤ |val x| * 12 / 2 ^ 99 + 1 / 2 ^ 949 := by
  have h := restrictedM_bound (cs := trigonometry.ASIN_COEFFS) (by decide) (by decide) ASIN_COEFFS_ok
    (T := asinT0) (by unfold asinT0; norm_num) (by rw [ASIN_COEFFS_val]; exact asin_hBnd) hv hw (sq_le_asinT0 hhi)
  rw [ASIN_COEFFS_val] at h
  rw [restricted_asin_eq]
  have e : ((trigonometry.ASIN_COEFFS.length + 2 : ℕ) : ℚ) = 12 := by
    have : trigonometry.ASIN_COEFFS.length = 10 := by decide
    rw [this]; norm_num
  rw [e] at h
  exact h

theorem rval_asinRho {x : TwoFloat} (hhi : |val x| ≤ asinRho) : |rval x| ≤ (asinRho : ℝ) := rval_le hhi

/-- **`restricted_asin` against `Real.arcsin`**: all valid `|x| ≤ 1/2 + 2^-17`:
error `≤ |x|·(2^-45 + 2^-49) + 2^-949` and `≤ 10·2^-50` -/
theorem restricted_asin_real {x : TwoFloat} (hv : x.Valid) (hw : x.WF) (hhi : |val x| ≤ asinRho) :
    (trigonometry.restricted_asin x).Valid ∧ (trigonometry.restricted_asin x).WF ∧
    |rval (trigonometry.restricted_asin x) - Real.arcsin (rval x)|
      ≤ |rval x| * (1 / 2 ^ 45 + 1 / 2 ^ 49) + 1 / 2 ^ 949 ∧
    |rval (trigonometry.restricted_asin x) - Real.arcsin (rval x)| ≤ 10 / 2 ^ 50 := by
  obtain ⟨hV, hW, hb⟩ := restricted_asin_bound hv hw hhi
  have hr := rval_asinRho hhi
  have hr2 : |rval x| ≤ 33 / 64 := by
    refine le_trans hr ?_
    unfold asinRho; push_cast; norm_num
  have hb' : |rval (trigonometry.restricted_asin x) - AsinPoly (rval x)| ≤ |rval x| * 12 / 2 ^ 99 + 1 / 2 ^ 949 := by
    have := (Rat.cast_le (K := ℝ)).2 hb
    rw [Rat.cast_abs, Rat.cast_sub, asinPolyQ_cast] at this
    rw [abs_rval]
    push_cast at this ⊢
    exact this
  have e : rval (trigonometry.restricted_asin x) - Real.arcsin (rval x)
      = (rval (trigonometry.restricted_asin x) - AsinPoly (rval x)) - (Real.arcsin (rval x) - AsinPoly (rval x)) := by
    ring
  have t1 : |rval (trigonometry.restricted_asin x) - Real.arcsin (rval x)|
      ≤ |rval (trigonometry.restricted_asin x) - AsinPoly (rval x)| + |Real.arcsin (rval x) - AsinPoly (rval x)| := by
    rw [e]; exact abs_sub _ _
  refine ⟨hV, hW, ?_, ?_⟩
  · have := asin_poly_rel hr
    have e2 : |rval x| * (1 / 2 ^ 45 + 1 / 2 ^ 49)
        = |rval x| * (1 / 2 ^ 45 + 1 / 2 ^ 50) + |rval x| * (1 / 2 ^ 50) := by ring
    have h3 : |rval x| * 12 / 2 ^ 99 ≤ |rval x| * (1 / 2 ^ 50) := by
      rw [mul_div_assoc]
      exact mul_le_mul_of_nonneg_left (by norm_num) (abs_nonneg _)
    rw [e2]; linarith
  · have := asin_poly_abs hr
    have h3 : |rval x| * 12 / 2 ^ 99 ≤ 33 / 64 * 12 / 2 ^ 99 := by
      have := mul_le_mul_of_nonneg_right hr2 (by norm_num : (0 : ℝ) ≤ 12)
      exact div_le_div_of_nonneg_right this (by positivity)
    have : (33 : ℝ) / 64 * 12 / 2 ^ 99 + 1 / 2 ^ 949 + 9 / 2 ^ 50 ≤ 10 / 2 ^ 50 := by norm_num
    linarith

/-- **`restricted_asin` relative to `|x|`, all valid `|x| ≤ 1/2 + 2^-17`** (`|x| ≤ 2^-540`: exact) -/
theorem restricted_asin_rel {x : TwoFloat} (hv : x.Valid) (hw : x.WF) (hhi : |val x| ≤ asinRho) :
    |rval (trigonometry.restricted_asin x) - Real.arcsin (rval x)| ≤ |rval x| * (1 / 2 ^ 45 + 1 / 2 ^ 48) := by
  by_cases hdeep : |val x| ≤ 1 / 2 ^ 540
  · obtain ⟨_, he⟩ := restrictedM_deep asin_innerZero hv hw hdeep
    rw [← restricted_asin_eq] at he
    have e1 : rval (trigonometry.restricted_asin x) = rval x := by unfold rval; rw [he]
    have hr : |rval x| ≤ 1 / 2 ^ 540 := by have := rval_le hdeep; push_cast at this; exact this
    have hT := arcsin_taylor (r := rval x) (le_trans hr (by unfold asinRho; push_cast; norm_num))
    -- arcsin r − r = (arcsin r − r·T(r²)) + r·(T(r²) − 1), and T(t) − 1 = t·(…)
    have hA := asin_poly_rel (r := rval x) (le_trans hr (by unfold asinRho; push_cast; norm_num))
    have hP : |AsinPoly (rval x) - rval x| ≤ |rval x| * (1 / 2 ^ 1000) := by
      unfold AsinPoly
      have e : rval x * (rval x ^ 2 * peval asinCoeffs (rval x ^ 2) + 1) - rval x
          = rval x * (rval x ^ 2 * peval asinCoeffs (rval x ^ 2)) := by ring
      rw [e, abs_mul]
      refine mul_le_mul_of_nonneg_left ?_ (abs_nonneg _)
      have hsq : rval x ^ 2 ≤ 1 / 2 ^ 1080 := by
        have := pow_le_pow_left₀ (abs_nonneg _) hr 2
        rw [sq_abs] at this
        refine le_trans this ?_
        norm_num
      have hpe : |peval asinCoeffs (rval x ^ 2)| ≤ 1 := by
        have h1 := peval_le_absb asinCoeffs (h := 1) (s := rval x ^ 2)
          (by rw [abs_of_nonneg (sq_nonneg _)]; push_cast; exact le_trans hsq (by norm_num))
        refine le_trans h1 ?_
        have : absb asinCoeffs 1 ≤ 1 := by decide +kernel
        exact_mod_cast this
      rw [abs_mul, abs_of_nonneg (sq_nonneg _)]
      have := mul_le_mul hsq hpe (abs_nonneg _) (by positivity)
      refine le_trans this ?_
      norm_num
    rw [e1]
    have e : rval x - Real.arcsin (rval x)
        = -(Real.arcsin (rval x) - AsinPoly (rval x)) - (AsinPoly (rval x) - rval x) := by ring
    rw [e]
    refine le_trans (abs_sub _ _) ?_
    rw [abs_neg]
    have : |rval x| * (1 / 2 ^ 45 + 1 / 2 ^ 50) + |rval x| * (1 / 2 ^ 1000)
        ≤ |rval x| * (1 / 2 ^ 45 + 1 / 2 ^ 48) := by
      rw [← mul_add]
      exact mul_le_mul_of_nonneg_left (by norm_num) (abs_nonneg _)
    linarith
  · have hn : (1 : ℚ) / 2 ^ 540 ≤ |val x| := (not_le.1 hdeep).le
    obtain ⟨_, _, h2, _⟩ := restricted_asin_real hv hw hhi
    refine le_trans h2 ?_
    have hr : (1 : ℝ) / 2 ^ 540 ≤ |rval x| := by
      rw [abs_rval]
      have := (Rat.cast_le (K := ℝ)).2 hn
      rw [Rat.cast_div, Rat.cast_one, Rat.cast_pow, Rat.cast_ofNat] at this
      exact this
    have h3 : (1 : ℝ) / 2 ^ 949 ≤ |rval x| * (1 / 2 ^ 409) := by
      have := mul_le_mul_of_nonneg_right hr (by positivity : (0 : ℝ) ≤ 1 / 2 ^ 409)
      refine le_trans (le_of_eq ?_) this
      norm_num
    have h4 : |rval x| * (1 / 2 ^ 45 + 1 / 2 ^ 49) + |rval x| * (1 / 2 ^ 409)
        ≤ |rval x| * (1 / 2 ^ 45 + 1 / 2 ^ 48) := by
      rw [← mul_add]
      exact mul_le_mul_of_nonneg_left (by norm_num) (abs_nonneg _)
    linarith

/-! ## 2. operator glue in rational form -/

theorem half_facts : (f64lit 0x3fe0000000000000).is_finite = true ∧ (f64lit 0x3fe0000000000000).WF ∧
    (f64lit 0x3fe0000000000000).toInt = 2 ^ 1073 := by decide +kernel

theorem two_facts : (f64lit 0x4000000000000000).is_finite = true ∧ (f64lit 0x4000000000000000).WF ∧
    (f64lit 0x4000000000000000).toInt = 2 ^ 1075 ∧
    2 ^ 624 ≤ (f64lit 0x4000000000000000).toInt.natAbs ∧ (f64lit 0x4000000000000000).toInt.natAbs ≤ 2 ^ 1524 := by
  decide +kernel

theorem one_natAbs : (f64lit 0x3ff0000000000000).toInt.natAbs < 2 ^ 2095 := by decide +kernel

/-- `1.0 - a` (f64 − TwoFloat) -/
theorem one_sub_val {a : TwoFloat} (hv : a.Valid) (hw : a.WF) (ha : |val a| ≤ 2 ^ 30) :
    (arithmetic.impl_Sub_rTwoFloat_for_rf64.sub (f64lit 0x3ff0000000000000) a).Valid ∧
    (arithmetic.impl_Sub_rTwoFloat_for_rf64.sub (f64lit 0x3ff0000000000000) a).WF ∧
    |val (arithmetic.impl_Sub_rTwoFloat_for_rf64.sub (f64lit 0x3ff0000000000000) a) - (1 - val a)|
      ≤ 1 / 2 ^ 105 * |1 - val a| := by
  have hxh : a.hi.toInt.natAbs < 2 ^ 2095 :=
    lt_trans (hi_natAbs_lt hv ha) (Nat.pow_lt_pow_right (by norm_num) (by norm_num))
  obtain ⟨hV, hb⟩ := C03b.sub_f64_tf_bound hv hw lit_one_facts.1 lit_one_facts.2.1 hxh one_natAbs
  refine ⟨hV, TwoFloat.sub_ft_WF _ a, ?_⟩
  have h := scaled_le (N := 1) (D := 2 ^ 105) (by positivity) (by simpa using hb)
  rw [lit_one_facts.2.2] at h
  have hc : (((2 : Int) ^ 1074 - a.V : Int) : ℚ) = (2 : ℚ) ^ 1074 - (a.V : ℚ) := by
    rw [Int.cast_sub, Int.cast_pow, Int.cast_ofNat]
  rw [hc, Nat.cast_one, Nat.cast_pow, Nat.cast_ofNat] at h
  unfold val
  have e : (1 : ℚ) - (a.V : ℚ) / 2 ^ 1074 = ((2 : ℚ) ^ 1074 - (a.V : ℚ)) / 2 ^ 1074 := by
    rw [sub_div, div_self (by positivity)]
  rw [e]
  exact h

/-- `s / 2.0` (TwoFloat / f64), `s.hi` of magnitude in `[2^-450, 2^450]` -/
theorem div_two_val {s : TwoFloat} (hv : s.Valid) (hw : s.WF)
    (hA : 2 ^ 624 ≤ s.hi.toInt.natAbs ∧ s.hi.toInt.natAbs ≤ 2 ^ 1524) :
    (arithmetic.impl_Div_rf64_for_rTwoFloat.div s (f64lit 0x4000000000000000)).Valid ∧
    (arithmetic.impl_Div_rf64_for_rTwoFloat.div s (f64lit 0x4000000000000000)).WF ∧
    |val (arithmetic.impl_Div_rf64_for_rTwoFloat.div s (f64lit 0x4000000000000000)) - val s / 2|
      ≤ 17 / 2 ^ 109 * |val s| := by
  obtain ⟨t1, t2, t3, t4, t5⟩ := two_facts
  obtain ⟨hV, hb, _⟩ := C01d.div_tf_f64_bound_partial s _ hv hw t1 t2 hA.1 hA.2 t4 t5
  refine ⟨hV, TwoFloat.div_tf_WF s _, ?_⟩
  have hb' : 2 ^ 108 * |(arithmetic.impl_Div_rf64_for_rTwoFloat.div s (f64lit 0x4000000000000000)).V
      * (f64lit 0x4000000000000000).toInt - s.V * (unit : Int)| ≤ 17 * |s.V * (unit : Int)| := hb
  generalize arithmetic.impl_Div_rf64_for_rTwoFloat.div s (f64lit 0x4000000000000000) = q at *
  rw [t3, unit_cast_eq] at hb'
  have hq : (2 : ℚ) ^ 108 * |(q.V : ℚ) * 2 ^ 1075 - s.V * 2 ^ 1074| ≤ 17 * |(s.V : ℚ) * 2 ^ 1074| := by
    exact_mod_cast hb'
  unfold val
  have hW : (0 : ℚ) < 2 ^ 1074 := by positivity
  have e0 : (2 : ℚ) ^ 1075 = 2 * 2 ^ 1074 := by rw [← pow_succ']
  rw [e0] at hq
  generalize (2 : ℚ) ^ 1074 = W at *
  have e1 : (q.V : ℚ) * (2 * W) - s.V * W = W * (2 * q.V - s.V) := by ring
  rw [e1, abs_mul, abs_mul, abs_of_pos hW] at hq
  have e2 : (q.V : ℚ) / W - s.V / W / 2 = (2 * q.V - s.V) / (2 * W) := by field_simp
  rw [e2, abs_div, abs_div, abs_of_pos hW, abs_of_pos (by positivity : (0 : ℚ) < 2 * W),
    div_le_iff₀ (by positivity)]
  have e3 : 17 / 2 ^ 109 * (|(s.V : ℚ)| / W) * (2 * W) = 17 / 2 ^ 108 * |(s.V : ℚ)| := by
    field_simp
  rw [e3]
  have h5 : (2 : ℚ) ^ 108 * |2 * (q.V : ℚ) - s.V| ≤ 17 * |(s.V : ℚ)| := by
    have : W * ((2 : ℚ) ^ 108 * |2 * (q.V : ℚ) - s.V|) ≤ W * (17 * |(s.V : ℚ)|) := by nlinarith
    exact le_of_mul_le_mul_left this hW
  rw [div_mul_eq_mul_div, le_div_iff₀ (by positivity)]
  linarith

/-- `2.0 * a` (f64 · TwoFloat), `a.hi` of magnitude in `[2^-900, 2^900]` -/
theorem two_mul_val {a : TwoFloat} (hv : a.Valid) (hw : a.WF)
    (hA : 2 ^ 174 ≤ a.hi.toInt.natAbs ∧ a.hi.toInt.natAbs ≤ 2 ^ 1974) :
    (arithmetic.impl_Mul_rTwoFloat_for_rf64.mul (f64lit 0x4000000000000000) a).Valid ∧
    (arithmetic.impl_Mul_rTwoFloat_for_rf64.mul (f64lit 0x4000000000000000) a).WF ∧
    |val (arithmetic.impl_Mul_rTwoFloat_for_rf64.mul (f64lit 0x4000000000000000) a) - 2 * val a|
      ≤ 1 / 2 ^ 105 * |2 * val a| := by
  obtain ⟨t1, t2, t3, _, _⟩ := two_facts
  have hr : a.hi.toInt * (f64lit 0x4000000000000000).toInt = 0 ∨
      ((2 : Int) ^ 1188 ≤ |a.hi.toInt * (f64lit 0x4000000000000000).toInt| ∧
        |a.hi.toInt * (f64lit 0x4000000000000000).toInt| < (2 : Int) ^ 3169) := by
    right
    rw [t3, abs_mul, abs_of_pos (by positivity : (0 : Int) < 2 ^ 1075)]
    have p1 : (2 : Int) ^ 174 ≤ |a.hi.toInt| := by rw [Int.abs_eq_natAbs]; exact_mod_cast hA.1
    have p2 : |a.hi.toInt| ≤ (2 : Int) ^ 1974 := by rw [Int.abs_eq_natAbs]; exact_mod_cast hA.2
    constructor
    · have e : (2 : Int) ^ 1188 ≤ 2 ^ 174 * 2 ^ 1075 := by
        rw [← pow_add]; exact pow_le_pow_right₀ (by norm_num) (by norm_num)
      exact le_trans e (mul_le_mul_of_nonneg_right p1 (by positivity))
    · have e : (2 : Int) ^ 1974 * 2 ^ 1075 < 2 ^ 3169 := by
        rw [← pow_add]; exact pow_lt_pow_right₀ (by norm_num) (by norm_num)
      exact lt_of_le_of_lt (mul_le_mul_of_nonneg_right p2 (by positivity)) e
  obtain ⟨hV, hb⟩ := C04b.mul_f64_tf_bound hv hw t1 t2 hr
  refine ⟨hV, PF.mul_ft_WF _ a, ?_⟩
  generalize arithmetic.impl_Mul_rTwoFloat_for_rf64.mul (f64lit 0x4000000000000000) a = p at *
  rw [t3, unit_cast_eq] at hb
  have hq : |(p.V : ℚ) * 2 ^ 1074 - 2 ^ 1075 * a.V| * 2 ^ 105 ≤ |(2 : ℚ) ^ 1075 * a.V| := by exact_mod_cast hb
  unfold val
  have hW : (0 : ℚ) < 2 ^ 1074 := by positivity
  have e0 : (2 : ℚ) ^ 1075 = 2 * 2 ^ 1074 := by rw [← pow_succ']
  rw [e0] at hq
  generalize (2 : ℚ) ^ 1074 = W at *
  have e1 : (p.V : ℚ) * W - 2 * W * a.V = W * (p.V - 2 * a.V) := by ring
  have e1' : 2 * W * (a.V : ℚ) = W * (2 * a.V) := by ring
  rw [e1, e1', abs_mul, abs_mul, abs_of_pos hW] at hq
  have e2 : (p.V : ℚ) / W - 2 * (a.V / W) = (p.V - 2 * a.V) / W := by field_simp
  have e3 : 2 * ((a.V : ℚ) / W) = (2 * a.V) / W := by ring
  rw [e2, e3, abs_div, abs_div, abs_of_pos hW, ← mul_div_assoc, div_le_div_iff_of_pos_right hW,
    div_mul_eq_mul_div, one_mul, le_div_iff₀ (by positivity)]
  have : W * (|(p.V : ℚ) - 2 * a.V| * 2 ^ 105) ≤ W * |2 * (a.V : ℚ)| := by nlinarith
  exact le_of_mul_le_mul_left this hW

/-- `s / 2.0` (TwoFloat / f64), `s.hi` of magnitude in `[2^-953, 2^450]` -/
theorem div_two_val_wide {s : TwoFloat} (hv : s.Valid) (hw : s.WF)
    (hA : 2 ^ 121 ≤ s.hi.toInt.natAbs ∧ s.hi.toInt.natAbs ≤ 2 ^ 1524) :
    (arithmetic.impl_Div_rf64_for_rTwoFloat.div s (f64lit 0x4000000000000000)).Valid ∧
    (arithmetic.impl_Div_rf64_for_rTwoFloat.div s (f64lit 0x4000000000000000)).WF ∧
    |val (arithmetic.impl_Div_rf64_for_rTwoFloat.div s (f64lit 0x4000000000000000)) - val s / 2|
      ≤ 17 / 2 ^ 109 * |val s| := by
  obtain ⟨t1, t2, t3, t4, t5⟩ := two_facts
  have hcn : (f64lit 0x4000000000000000).toInt.natAbs = 2 ^ 1075 := by rw [t3]; rfl
  have a2 : |s.hi.toInt| ≤ (2 : Int) ^ 1524 := by rw [Int.abs_eq_natAbs]; exact_mod_cast hA.2
  have hm := two_pow_le_maxFin_int (k := 1525) (by norm_num)
  have hq : 2 ^ 120 * (f64lit 0x4000000000000000).toInt.natAbs ≤ s.hi.toInt.natAbs * unit := by
    rw [hcn, unit_eq]
    calc 2 ^ 120 * 2 ^ 1075 = 2 ^ 121 * 2 ^ 1074 := by rw [← pow_add, ← pow_add]
      _ ≤ s.hi.toInt.natAbs * 2 ^ 1074 := Nat.mul_le_mul_right _ hA.1
  have hr : roundQ (s.hi.toInt.natAbs * unit) (f64lit 0x4000000000000000).toInt.natAbs ≤ 2 ^ 1974 := by
    apply roundQ_le_of_le (by rw [hcn]; positivity) (rep_two_pow 1974)
    rw [hcn, unit_eq]
    calc s.hi.toInt.natAbs * 2 ^ 1074 ≤ 2 ^ 1524 * 2 ^ 1074 := Nat.mul_le_mul_right _ hA.2
      _ ≤ 2 ^ 1974 * 2 ^ 1075 :=
        Nat.mul_le_mul (Nat.pow_le_pow_right (by norm_num) (by norm_num))
          (Nat.pow_le_pow_right (by norm_num) (by norm_num))
  have hov : 2 * roundQ (s.hi.toInt.natAbs * unit) (f64lit 0x4000000000000000).toInt.natAbs ≤ maxFin := by
    have h2 : 2 * 2 ^ 1974 ≤ maxFin := le_trans (by norm_num) two_pow_2097_le_maxFin
    omega
  obtain ⟨hV, hb⟩ := F64.div_tf_val_partial hv hw t1 t2 (by rw [hcn]; exact Nat.pow_le_pow_right (by norm_num) (by norm_num))
    (le_trans (Nat.pow_le_pow_right (by norm_num) (by norm_num)) hA.1) (by omega) hq hov
  refine ⟨hV, TwoFloat.div_tf_WF s _, ?_⟩
  generalize arithmetic.impl_Div_rf64_for_rTwoFloat.div s (f64lit 0x4000000000000000) = q at *
  rw [t3, unit_cast_eq] at hb
  have hqq : (2 : ℚ) ^ 108 * |(q.V : ℚ) * 2 ^ 1075 - s.V * 2 ^ 1074| ≤ 17 * |(s.V : ℚ) * 2 ^ 1074| := by
    exact_mod_cast hb
  unfold val
  have hW : (0 : ℚ) < 2 ^ 1074 := by positivity
  have e0 : (2 : ℚ) ^ 1075 = 2 * 2 ^ 1074 := by rw [← pow_succ']
  rw [e0] at hqq
  generalize (2 : ℚ) ^ 1074 = W at *
  have e1 : (q.V : ℚ) * (2 * W) - s.V * W = W * (2 * q.V - s.V) := by ring
  rw [e1, abs_mul, abs_mul, abs_of_pos hW] at hqq
  have e2 : (q.V : ℚ) / W - s.V / W / 2 = (2 * q.V - s.V) / (2 * W) := by field_simp
  rw [e2, abs_div, abs_div, abs_of_pos hW, abs_of_pos (by positivity : (0 : ℚ) < 2 * W),
    div_le_iff₀ (by positivity)]
  have e3 : 17 / 2 ^ 109 * (|(s.V : ℚ)| / W) * (2 * W) = 17 / 2 ^ 108 * |(s.V : ℚ)| := by
    field_simp
  rw [e3]
  have h5 : (2 : ℚ) ^ 108 * |2 * (q.V : ℚ) - s.V| ≤ 17 * |(s.V : ℚ)| := by
    have : W * ((2 : ℚ) ^ 108 * |2 * (q.V : ℚ) - s.V|) ≤ W * (17 * |(s.V : ℚ)|) := by nlinarith
    exact le_of_mul_le_mul_left this hW
  rw [div_mul_eq_mul_div, le_div_iff₀ (by positivity)]
  linarith

/-- `TwoFloat / TwoFloat`, numerator high word of magnitude in `[2^-958, 2^6]`, denominator in `[2^-4, 2^6]` -/
theorem div_tt_val_wide {a b : TwoFloat} (ha : a.Valid) (hwa : a.WF) (hb : b.Valid) (_hwb : b.WF)
    (hA : 2 ^ 116 ≤ a.hi.toInt.natAbs ∧ a.hi.toInt.natAbs ≤ 2 ^ 1080)
    (hB : 2 ^ 1070 ≤ b.hi.toInt.natAbs ∧ b.hi.toInt.natAbs ≤ 2 ^ 1080) :
    (arithmetic.impl_Div_rTwoFloat_for_rTwoFloat.div a b).Valid ∧
    (arithmetic.impl_Div_rTwoFloat_for_rTwoFloat.div a b).WF ∧
    |val a - val (arithmetic.impl_Div_rTwoFloat_for_rTwoFloat.div a b) * val b| ≤ 1 / 2 ^ 102 * |val a| := by
  have a1 : (2 : Int) ^ 116 ≤ |a.hi.toInt| := by rw [Int.abs_eq_natAbs]; exact_mod_cast hA.1
  have a2 : |a.hi.toInt| ≤ (2 : Int) ^ 1080 := by rw [Int.abs_eq_natAbs]; exact_mod_cast hA.2
  have b1 : (2 : Int) ^ 1070 ≤ |b.hi.toInt| := by rw [Int.abs_eq_natAbs]; exact_mod_cast hB.1
  have b2 : |b.hi.toInt| ≤ (2 : Int) ^ 1080 := by rw [Int.abs_eq_natAbs]; exact_mod_cast hB.2
  have hU : |a.hi.toInt * (unit : Int)| = |a.hi.toInt| * 2 ^ 1074 := by
    rw [abs_mul, abs_of_pos unit_pos_int, unit_cast_eq]
  have R : DivRange a.hi.toInt b.hi.toInt := by
    refine ⟨by omega, by omega, by omega, ?_, ?_⟩
    · rw [hU]; omega
    · rw [hU]; omega
  have h12 := C01d.div_tt_valid_of_range ha hwa hb R
  have h3 : 2 ^ 102 * |a.V * (unit : Int) - (arithmetic.impl_Div_rTwoFloat_for_rTwoFloat.div a b).V * b.V|
      ≤ |a.V * (unit : Int)| :=
    C01d.div_tt_bound_of_range ha hwa hb R (by rw [hU]; omega) (by omega)
  refine ⟨h12.1, h12.2, ?_⟩
  rw [unit_cast_eq] at h3
  generalize arithmetic.impl_Div_rTwoFloat_for_rTwoFloat.div a b = d at *
  have hq : (2 : ℚ) ^ 102 * |(a.V : ℚ) * 2 ^ 1074 - d.V * b.V| ≤ |(a.V : ℚ) * 2 ^ 1074| := by exact_mod_cast h3
  unfold val
  have hU' : (0 : ℚ) < 2 ^ 1074 := by positivity
  generalize (2 : ℚ) ^ 1074 = W at *
  have e1 : (a.V : ℚ) / W - d.V / W * (b.V / W) = ((a.V : ℚ) * W - d.V * b.V) / (W * W) := by field_simp
  have e2 : (a.V : ℚ) / W = ((a.V : ℚ) * W) / (W * W) := by field_simp
  rw [e1, e2, abs_div, abs_div, abs_of_pos (mul_pos hU' hU'), ← mul_div_assoc,
    div_le_div_iff_of_pos_right (mul_pos hU' hU'), div_mul_eq_mul_div, one_mul, le_div_iff₀ (by positivity)]
  linarith

/-- `TwoFloat.sqrt` against `Real.sqrt` of the value: relative `21 u²` -/
theorem sqrt_rval {x : TwoFloat} (hv : x.Valid) (hw : x.WF) (hpos : 0 < x.V)
    (hlo : 2 ^ 174 ≤ x.hi.toInt.natAbs) (hhi : x.hi.toInt.natAbs ≤ 2 ^ 2074) :
    (TwoFloat.sqrt x).Valid ∧ (TwoFloat.sqrt x).WF ∧
    |rval (TwoFloat.sqrt x) - Real.sqrt (rval x)| ≤ 21 / 2 ^ 106 * Real.sqrt (rval x) := by
  obtain ⟨hV, hW, hb⟩ := C13s.sqrt_bound_21u2 hv hw hpos hlo hhi
  refine ⟨hV, hW, ?_⟩
  rw [F64.unit_real] at hb
  have ex : rval x = (x.V : ℝ) / 2 ^ 1074 := by unfold rval val; push_cast; rfl
  have es : rval (TwoFloat.sqrt x) = ((TwoFloat.sqrt x).V : ℝ) / 2 ^ 1074 := by unfold rval val; push_cast; rfl
  have hW0 : (0 : ℝ) < 2 ^ 1074 := by positivity
  have hxp : (0 : ℝ) ≤ rval x := by
    rw [ex]; have : (0 : ℝ) < (x.V : ℝ) := by exact_mod_cast hpos
    positivity
  have e1 : Real.sqrt ((x.V : ℝ) * 2 ^ 1074) = Real.sqrt (rval x) * 2 ^ 1074 := by
    have : (x.V : ℝ) * 2 ^ 1074 = rval x * (2 ^ 1074) ^ 2 := by rw [ex]; field_simp
    rw [this, Real.sqrt_mul hxp, Real.sqrt_sq hW0.le]
  rw [e1] at hb
  rw [es]
  generalize (2 : ℝ) ^ 1074 = W at *
  generalize Real.sqrt (rval x) = S at *
  have e2 : ((TwoFloat.sqrt x).V : ℝ) / W - S = (((TwoFloat.sqrt x).V : ℝ) - S * W) / W := by field_simp
  rw [e2, abs_div, abs_of_pos hW0, div_le_iff₀ hW0]
  have : (2 : ℝ) ^ 106 * (21 / 2 ^ 106 * S * W) = 21 * (S * W) := by field_simp
  have p : (0 : ℝ) < 2 ^ 106 := by positivity
  nlinarith

/-! ## 3. `asin` -/

theorem abs_val_lt_iff (t : TwoFloat) (n : Int) : (n : ℚ) / 2 ^ 1074 < |val t| ↔ n < |t.V| := by
  rw [abs_val, div_lt_div_iff_of_pos_right (by positivity)]
  exact_mod_cast Iff.rfl

theorem abs_val_le_iff (t : TwoFloat) (n : Int) : |val t| ≤ (n : ℚ) / 2 ^ 1074 ↔ |t.V| ≤ n := by
  rw [abs_val, div_le_div_iff_of_pos_right (by positivity)]
  exact_mod_cast Iff.rfl

theorem abs_facts {x : TwoFloat} (hv : x.Valid) (hw : x.WF) :
    (TwoFloat.abs x).Valid ∧ (TwoFloat.abs x).WF ∧ val (TwoFloat.abs x) = |val x| := by
  have hiv : TwoFloat.is_valid x = true := (C07.is_valid_iff x hw).2 hv
  have ha : (TwoFloat.abs x).Valid := by
    rcases C06.abs_eq_or_neg x with h | h
    · rw [h]; exact hv
    · rw [h]; exact hv.neg hw.1
  refine ⟨ha, PF.abs_WF hw, ?_⟩
  rw [abs_val]
  unfold val
  rw [C06.abs_exact hiv hv]

/-- the test `|x| > 1.0` of `asin` compares the exact values -/
theorem cmp_one {x : TwoFloat} (hv : x.Valid) (hw : x.WF) :
    ROrd.isGt (base.impl_PartialOrd_f64_for_TwoFloat.partial_cmp (TwoFloat.abs x) (f64lit 0x3ff0000000000000)) = true
      ↔ 1 < |val x| := by
  obtain ⟨ha, _, hval⟩ := abs_facts hv hw
  have h := C06.gt_f64_exact ha lit_one_facts.2.1 lit_one_facts.1
  rw [show base.impl_PartialOrd_f64_for_TwoFloat.partial_cmp = C06.cmpTF from rfl, h, lit_one_facts.2.2]
  have hiv : TwoFloat.is_valid x = true := (C07.is_valid_iff x hw).2 hv
  rw [C06.abs_exact hiv hv, ← abs_val_lt_iff]
  have : (((2 : Int) ^ 1074 : Int) : ℚ) / 2 ^ 1074 = 1 := by
    rw [Int.cast_pow, Int.cast_ofNat, div_self (by positivity)]
  rw [this]

/-- the test `|x| <= 0.5` of `asin` compares the exact values -/
theorem cmp_half {x : TwoFloat} (hv : x.Valid) (hw : x.WF) :
    ROrd.isLe (base.impl_PartialOrd_f64_for_TwoFloat.partial_cmp (TwoFloat.abs x) (f64lit 0x3fe0000000000000)) = true
      ↔ |val x| ≤ 1 / 2 := by
  obtain ⟨ha, _, hval⟩ := abs_facts hv hw
  have h := C06.le_f64_exact ha half_facts.2.1 half_facts.1
  rw [show base.impl_PartialOrd_f64_for_TwoFloat.partial_cmp = C06.cmpTF from rfl, h, half_facts.2.2]
  have hiv : TwoFloat.is_valid x = true := (C07.is_valid_iff x hw).2 hv
  rw [C06.abs_exact hiv hv, ← abs_val_le_iff]
  have : (((2 : Int) ^ 1073 : Int) : ℚ) / 2 ^ 1074 = 1 / 2 := by
    rw [Int.cast_pow, Int.cast_ofNat, pow_succ (2 : ℚ) 1073, div_mul_eq_div_div, div_self (by positivity)]
  rw [this]

/-- **C17 (asin), `|x| ≤ 1/2`**: valid result, error at most `|x|·(2^-45 + 2^-48)` (hence relative to `arcsin x`) -/
theorem asin_small_bound {x : TwoFloat} (hv : x.Valid) (hw : x.WF) (hx : |val x| ≤ 1 / 2) :
    (TwoFloat.asin x).Valid ∧
    |rval (TwoFloat.asin x) - Real.arcsin (rval x)| ≤ |rval x| * (1 / 2 ^ 45 + 1 / 2 ^ 48) := by
  have hiv : TwoFloat.is_valid x = true := (C07.is_valid_iff x hw).2 hv
  have h1 : ROrd.isGt (base.impl_PartialOrd_f64_for_TwoFloat.partial_cmp (TwoFloat.abs x)
      (f64lit 0x3ff0000000000000)) = false :=
    Bool.eq_false_iff.2 (fun h => absurd ((cmp_one hv hw).1 h) (not_lt.2 (le_trans hx (by norm_num))))
  have h2 := (cmp_half hv hw).2 hx
  rw [C17.asin_small x hiv h1 h2]
  have hhi : |val x| ≤ asinRho := le_trans hx (by unfold asinRho; norm_num)
  exact ⟨(restricted_asin_real hv hw hhi).1, restricted_asin_rel hv hw hhi⟩

/-- the large branch of `asin`, unfolded -/
theorem asin_large_eq (x : TwoFloat) (hiv : TwoFloat.is_valid x = true)
    (h1 : ROrd.isGt (base.impl_PartialOrd_f64_for_TwoFloat.partial_cmp (TwoFloat.abs x)
      (f64lit 0x3ff0000000000000)) = false)
    (h2 : ROrd.isLe (base.impl_PartialOrd_f64_for_TwoFloat.partial_cmp (TwoFloat.abs x)
      (f64lit 0x3fe0000000000000)) = false) :
    TwoFloat.asin x =
      if TwoFloat.is_sign_positive x then
        arithmetic.impl_Sub_rTwoFloat_for_rTwoFloat.sub consts.FRAC_PI_2
          (arithmetic.impl_Mul_rTwoFloat_for_rf64.mul (f64lit 0x4000000000000000)
            (trigonometry.restricted_asin (TwoFloat.sqrt (arithmetic.impl_Div_rf64_for_rTwoFloat.div
              (arithmetic.impl_Sub_rTwoFloat_for_rf64.sub (f64lit 0x3ff0000000000000) (TwoFloat.abs x))
              (f64lit 0x4000000000000000)))))
      else
        arithmetic.impl_Neg_for_TwoFloat.neg (arithmetic.impl_Sub_rTwoFloat_for_rTwoFloat.sub consts.FRAC_PI_2
          (arithmetic.impl_Mul_rTwoFloat_for_rf64.mul (f64lit 0x4000000000000000)
            (trigonometry.restricted_asin (TwoFloat.sqrt (arithmetic.impl_Div_rf64_for_rTwoFloat.div
              (arithmetic.impl_Sub_rTwoFloat_for_rf64.sub (f64lit 0x3ff0000000000000) (TwoFloat.abs x))
              (f64lit 0x4000000000000000)))))) := by
  unfold TwoFloat.asin
  simp only [hiv, h1, h2, Bool.not_true, Bool.false_or, Bool.false_eq_true, if_false]
  rfl

theorem chain_s1 {A v : ℚ} (hA1 : 1 / 2 < A) (hA2 : A ≤ 1 - 1 / 2 ^ 890)
    (h1 : |v - (1 - A)| ≤ 1 / 2 ^ 105 * |1 - A|) :
    (1 / 2 ^ 891 ≤ |v|) ∧ (|v| ≤ 1) ∧ 0 < v := by
  have hp : 0 < 1 - A := by
    have : (0 : ℚ) < 1 / 2 ^ 890 := by positivity
    linarith
  rw [abs_of_pos hp] at h1
  obtain ⟨l, u⟩ := abs_le.1 h1
  have hsm : 1 / 2 ^ 105 * (1 - A) ≤ 1 / 2 * (1 - A) := mul_le_mul_of_nonneg_right (by norm_num) hp.le
  have hv0 : 0 < v := by linarith
  rw [abs_of_pos hv0]
  refine ⟨?_, by linarith, hv0⟩
  have : (1 : ℚ) / 2 ^ 891 = 1 / 2 * (1 / 2 ^ 890) := by norm_num
  rw [this]; linarith

theorem chain_d {A v d : ℚ} (hA1 : 1 / 2 < A) (hA2 : A ≤ 1 - 1 / 2 ^ 890)
    (h1 : |v - (1 - A)| ≤ 1 / 2 ^ 105 * |1 - A|) (h2 : |d - v / 2| ≤ 17 / 2 ^ 109 * |v|) :
    (|d - (1 - A) / 2| ≤ 1 / 2 ^ 102 * ((1 - A) / 2)) ∧ (1 / 2 ^ 893 ≤ |d|) ∧ (|d| ≤ 1) ∧ 0 < d := by
  have hp : 0 < 1 - A := by
    have : (0 : ℚ) < 1 / 2 ^ 890 := by positivity
    linarith
  obtain ⟨_, _, hv0⟩ := chain_s1 hA1 hA2 h1
  rw [abs_of_pos hp] at h1
  rw [abs_of_pos hv0] at h2
  obtain ⟨l, u⟩ := abs_le.1 h1
  obtain ⟨l2, u2⟩ := abs_le.1 h2
  have hvu : v ≤ 2 * (1 - A) := by
    have : 1 / 2 ^ 105 * (1 - A) ≤ 1 * (1 - A) := mul_le_mul_of_nonneg_right (by norm_num) hp.le
    linarith
  have k1 : 17 / 2 ^ 109 * v ≤ 17 / 2 ^ 108 * (1 - A) := by
    have := mul_le_mul_of_nonneg_left hvu (by positivity : (0 : ℚ) ≤ 17 / 2 ^ 109)
    have e : (17 : ℚ) / 2 ^ 109 * (2 * (1 - A)) = 17 / 2 ^ 108 * (1 - A) := by ring
    linarith
  have hd : |d - (1 - A) / 2| ≤ 1 / 2 ^ 102 * ((1 - A) / 2) := by
    rw [abs_le]
    have e : (1 : ℚ) / 2 ^ 102 * ((1 - A) / 2) = (1 / 2 ^ 106 + 17 / 2 ^ 108 + 11 / 2 ^ 108) * (1 - A) := by ring
    have : (0 : ℚ) ≤ 11 / 2 ^ 108 * (1 - A) := by positivity
    constructor <;> nlinarith
  obtain ⟨l3, u3⟩ := abs_le.1 hd
  have hsm : 1 / 2 ^ 102 * ((1 - A) / 2) ≤ 1 / 2 * ((1 - A) / 2) :=
    mul_le_mul_of_nonneg_right (by norm_num) (by linarith)
  have hd0 : 0 < d := by linarith
  rw [abs_of_pos hd0]
  refine ⟨hd, ?_, by linarith, hd0⟩
  have : (1 : ℚ) / 2 ^ 893 = 1 / 4 * (1 / 2 ^ 890) / 2 := by norm_num
  rw [this]; linarith

theorem V_pos_of_val_pos {t : TwoFloat} (h : 0 < val t) : 0 < t.V := by
  unfold val at h
  have : (0 : ℚ) < (t.V : ℚ) := by
    by_contra hn
    have : (t.V : ℚ) / 2 ^ 1074 ≤ 0 := div_nonpos_of_nonpos_of_nonneg (not_lt.1 hn) (by positivity)
    linarith
  exact_mod_cast this

theorem rval_abs_le {t : TwoFloat} {b : ℚ} (h : |rval t| ≤ (b : ℝ)) : |val t| ≤ b := by
  rw [abs_rval] at h; exact_mod_cast h

theorem rval_abs_ge {t : TwoFloat} {b : ℚ} (h : (b : ℝ) ≤ |rval t|) : b ≤ |val t| := by
  rw [abs_rval] at h; exact_mod_cast h

/-- real arithmetic of the square-root step -/
theorem chain_q {z rd rq : ℝ} (hz1 : 1 / 2 ^ 892 ≤ z) (hz2 : z ≤ 1 / 4) (hd : |rd - z| ≤ 1 / 2 ^ 102 * z)
    (hq : |rq - Real.sqrt rd| ≤ 21 / 2 ^ 106 * Real.sqrt rd) :
    |rq - Real.sqrt z| ≤ 1 / 2 ^ 101 * Real.sqrt z ∧ Real.sqrt z ≤ 1 / 2 ∧ 1 / 2 ^ 446 ≤ Real.sqrt z := by
  have hz0 : 0 < z := lt_of_lt_of_le (by positivity) hz1
  have hrd0 : 0 < rd := by
    have := (abs_le.1 hd).1
    have : 1 / 2 ^ 102 * z ≤ 1 / 2 * z := mul_le_mul_of_nonneg_right (by norm_num) hz0.le
    linarith
  have hp := SqrtReal.sqrt_perturb hz0 (by positivity : (0 : ℝ) < 1 / 2 ^ 102) (by norm_num) hrd0 hd
  have hs0 : 0 < Real.sqrt z := Real.sqrt_pos.2 hz0
  have hs1 : Real.sqrt z ≤ 1 / 2 := Real.sqrt_le_iff.2 ⟨by norm_num, by norm_num; linarith⟩
  have hs2 : 1 / 2 ^ 446 ≤ Real.sqrt z := by
    refine Real.le_sqrt_of_sq_le ?_
    refine le_trans (le_of_eq ?_) hz1
    rw [div_pow, one_pow, ← pow_mul]
  refine ⟨?_, hs1, hs2⟩
  set S := Real.sqrt z
  set D := Real.sqrt rd
  have hD : D ≤ S * (1 + 1 / 2 ^ 102) := by
    have := (abs_le.1 hp).2
    have : 0.5001 * (1 / 2 ^ 102) * S ≤ 1 / 2 ^ 102 * S := by nlinarith
    linarith
  have e : rq - S = (rq - D) + (D - S) := by ring
  rw [e]
  refine le_trans (abs_add_le _ _) ?_
  have h3 : 21 / 2 ^ 106 * D ≤ 21 / 2 ^ 106 * (S * (1 + 1 / 2 ^ 102)) :=
    mul_le_mul_of_nonneg_left hD (by positivity)
  have h4 : 21 / 2 ^ 106 * (S * (1 + 1 / 2 ^ 102)) + 0.5001 * (1 / 2 ^ 102) * S ≤ 1 / 2 ^ 101 * S := by
    have : (21 : ℝ) / 2 ^ 106 * (1 + 1 / 2 ^ 102) + 0.5001 * (1 / 2 ^ 102) ≤ 1 / 2 ^ 101 := by norm_num
    nlinarith
  linarith

theorem cast_abs_sub_le {a b c : ℚ} (h : |a - b| ≤ c) : |(a : ℝ) - (b : ℝ)| ≤ (c : ℝ) := by
  have := (Rat.cast_le (K := ℝ)).2 h
  rwa [Rat.cast_abs, Rat.cast_sub] at this

/-- **the half-angle branch of `asin`, before the sign**: for `1/2 < |x| ≤ 1 − 2^-890` the value
`π/2 − 2·restricted_asin(√((1 − |x|)/2))` computed by the crate is within `21·2^-50` of `arcsin |x|` -/
theorem asin_core {x : TwoFloat} (hv : x.Valid) (hw : x.WF) (h1 : 1 / 2 < |val x|) (h2 : |val x| ≤ 1 - 1 / 2 ^ 890) :
    (arithmetic.impl_Sub_rTwoFloat_for_rTwoFloat.sub consts.FRAC_PI_2
      (arithmetic.impl_Mul_rTwoFloat_for_rf64.mul (f64lit 0x4000000000000000)
        (trigonometry.restricted_asin (TwoFloat.sqrt (arithmetic.impl_Div_rf64_for_rTwoFloat.div
          (arithmetic.impl_Sub_rTwoFloat_for_rf64.sub (f64lit 0x3ff0000000000000) (TwoFloat.abs x))
          (f64lit 0x4000000000000000)))))).Valid ∧
    (arithmetic.impl_Sub_rTwoFloat_for_rTwoFloat.sub consts.FRAC_PI_2
      (arithmetic.impl_Mul_rTwoFloat_for_rf64.mul (f64lit 0x4000000000000000)
        (trigonometry.restricted_asin (TwoFloat.sqrt (arithmetic.impl_Div_rf64_for_rTwoFloat.div
          (arithmetic.impl_Sub_rTwoFloat_for_rf64.sub (f64lit 0x3ff0000000000000) (TwoFloat.abs x))
          (f64lit 0x4000000000000000)))))).WF ∧
    |rval (arithmetic.impl_Sub_rTwoFloat_for_rTwoFloat.sub consts.FRAC_PI_2
      (arithmetic.impl_Mul_rTwoFloat_for_rf64.mul (f64lit 0x4000000000000000)
        (trigonometry.restricted_asin (TwoFloat.sqrt (arithmetic.impl_Div_rf64_for_rTwoFloat.div
          (arithmetic.impl_Sub_rTwoFloat_for_rf64.sub (f64lit 0x3ff0000000000000) (TwoFloat.abs x))
          (f64lit 0x4000000000000000)))))) - Real.arcsin (|rval x|)| ≤ 21 / 2 ^ 50 := by
  obtain ⟨ha, hwa, hval⟩ := abs_facts hv hw
  set a := TwoFloat.abs x with hadef
  have hx1 : |val x| ≤ 1 := by
    have : (0 : ℚ) < 1 / 2 ^ 890 := by positivity
    linarith
  have haA : |val a| ≤ 2 ^ 30 := by rw [hval, _root_.abs_abs]; exact le_trans hx1 (by norm_num)
  obtain ⟨hv1, hw1, he1⟩ := one_sub_val ha hwa haA
  rw [hval] at he1
  set s1 := arithmetic.impl_Sub_rTwoFloat_for_rf64.sub (f64lit 0x3ff0000000000000) a with hs1
  obtain ⟨c1, c2, _⟩ := chain_s1 h1 h2 he1
  have hr1 := hi_range_gen hv1 (k := 891) (j := 0) (by norm_num) c1 (by simpa using c2)
  obtain ⟨hv2, hw2, he2⟩ := div_two_val_wide hv1 hw1
    ⟨le_trans (Nat.pow_le_pow_right (by norm_num) (by norm_num)) hr1.1,
     le_trans hr1.2 (Nat.pow_le_pow_right (by norm_num) (by norm_num))⟩
  set d := arithmetic.impl_Div_rf64_for_rTwoFloat.div s1 (f64lit 0x4000000000000000) with hd
  obtain ⟨d1, d2, d3, d4⟩ := chain_d h1 h2 he1 he2
  have hr2 := hi_range_gen hv2 (k := 893) (j := 0) (by norm_num) d2 (by simpa using d3)
  obtain ⟨hv3, hw3, he3⟩ := sqrt_rval hv2 hw2 (V_pos_of_val_pos d4)
    (le_trans (Nat.pow_le_pow_right (by norm_num) (by norm_num)) hr2.1)
    (le_trans hr2.2 (Nat.pow_le_pow_right (by norm_num) (by norm_num)))
  set sq := TwoFloat.sqrt d with hsq
  -- to the reals
  have hA1 : (1 : ℝ) / 2 < |rval x| := by
    rw [abs_rval]
    have := (Rat.cast_lt (K := ℝ)).2 h1
    push_cast at this
    rw [← Rat.cast_abs] at this
    exact this
  have hA2 : |rval x| ≤ 1 - 1 / 2 ^ 890 := by
    rw [abs_rval]
    have := (Rat.cast_le (K := ℝ)).2 h2
    push_cast at this
    rw [← Rat.cast_abs] at this
    exact this
  have hdR : |rval d - (1 - |rval x|) / 2| ≤ 1 / 2 ^ 102 * ((1 - |rval x|) / 2) := by
    have := cast_abs_sub_le d1
    rw [abs_rval]
    push_cast at this
    rw [← Rat.cast_abs] at this
    exact this
  set z : ℝ := (1 - |rval x|) / 2 with hz
  have hz1 : 1 / 2 ^ 892 ≤ z := by
    rw [hz]
    have : (1 : ℝ) / 2 ^ 892 = 1 / 2 ^ 890 / 2 / 2 := by norm_num
    have p : (0 : ℝ) < 1 / 2 ^ 890 := by positivity
    rw [this]; linarith
  have hz2 : z ≤ 1 / 4 := by rw [hz]; linarith
  obtain ⟨q1, q2, q3⟩ := chain_q hz1 hz2 hdR he3
  set S := Real.sqrt z with hS
  have hS0 : 0 < S := lt_of_lt_of_le (by positivity) q3
  obtain ⟨ql, qu⟩ := abs_le.1 q1
  have hsm : 1 / 2 ^ 101 * S ≤ 1 / 2 * S := mul_le_mul_of_nonneg_right (by norm_num) hS0.le
  have hq0 : 0 < rval sq := by linarith
  have hqlo : S / 2 ≤ rval sq := by linarith
  have hqhi : rval sq ≤ 1 / 2 + 1 / 2 ^ 17 := by
    have : 1 / 2 ^ 101 * S ≤ 1 / 2 ^ 101 * (1 / 2) := mul_le_mul_of_nonneg_left q2 (by positivity)
    have : (1 : ℝ) / 2 ^ 101 * (1 / 2) ≤ 1 / 2 ^ 17 := by norm_num
    linarith
  have hqQ : |val sq| ≤ asinRho := by
    refine rval_abs_le ?_
    rw [abs_of_pos hq0]
    unfold asinRho; push_cast; exact hqhi
  obtain ⟨hv4, hw4, _, he4⟩ := restricted_asin_real hv3 hw3 hqQ
  have he4rel := restricted_asin_rel hv3 hw3 hqQ
  set ra := trigonometry.restricted_asin sq with hra
  have hq1 : rval sq ≤ 1 := le_trans hqhi (by norm_num)
  have hasq := le_arcsin hq0.le hq1
  have hasq2 : Real.arcsin (rval sq) ≤ 2 := by
    have := Real.arcsin_le_pi_div_two (rval sq)
    have := Real.pi_le_four
    linarith
  rw [abs_of_pos hq0] at he4rel
  have hra_lo : (1 : ℝ) / 2 ^ 448 ≤ rval ra := by
    have := (abs_le.1 he4rel).1
    have h3 : rval sq * (1 / 2 ^ 45 + 1 / 2 ^ 48) ≤ rval sq * (1 / 2) :=
      mul_le_mul_of_nonneg_left (by norm_num) hq0.le
    have h4 : (1 : ℝ) / 2 ^ 448 = 1 / 2 ^ 446 / 2 / 2 := by norm_num
    rw [h4]; linarith
  have hra_hi : |rval ra| ≤ 2 := by
    rw [abs_of_pos (lt_of_lt_of_le (by positivity) hra_lo)]
    have := (abs_le.1 he4).2
    have : (10 : ℝ) / 2 ^ 50 ≤ 0 + 1 / 2 ^ 40 := by norm_num
    have := Real.arcsin_le_pi_div_two (rval sq)
    have := Real.pi_lt_d2
    linarith
  have hraQ1 : (1 : ℚ) / 2 ^ 448 ≤ |val ra| := by
    refine rval_abs_ge ?_
    rw [abs_of_pos (lt_of_lt_of_le (by positivity) hra_lo)]
    push_cast; exact hra_lo
  have hraQ2 : |val ra| ≤ 2 ^ 1 := by
    refine rval_abs_le ?_
    push_cast; rw [pow_one]; exact hra_hi
  have hr4 := hi_range_gen hv4 (k := 448) (j := 1) (by norm_num) hraQ1 hraQ2
  obtain ⟨hv5, hw5, he5⟩ := two_mul_val hv4 hw4
    ⟨le_trans (Nat.pow_le_pow_right (by norm_num) (by norm_num)) hr4.1,
     le_trans hr4.2 (Nat.pow_le_pow_right (by norm_num) (by norm_num))⟩
  set m2 := arithmetic.impl_Mul_rTwoFloat_for_rf64.mul (f64lit 0x4000000000000000) ra with hm2
  have h2ra : |2 * val ra| ≤ 4 := by
    rw [abs_mul]; norm_num at hraQ2 ⊢; linarith
  have he5' : |val m2 - 2 * val ra| ≤ 1 / 2 ^ 103 := by
    refine le_trans he5 ?_
    have := mul_le_mul_of_nonneg_left h2ra (by positivity : (0 : ℚ) ≤ 1 / 2 ^ 105)
    refine le_trans this ?_
    norm_num
  have hm2b : |val m2| ≤ 5 := by
    have := abs_add_le (val m2 - 2 * val ra) (2 * val ra)
    rw [sub_add_cancel] at this
    have : (1 : ℚ) / 2 ^ 103 ≤ 1 := by norm_num
    linarith
  obtain ⟨hvP, hwP, hP1, hP2, _⟩ := P_facts
  have hPb : |val consts.FRAC_PI_2| ≤ 2 := by
    rw [abs_of_pos (by linarith)]; linarith
  obtain ⟨hv6, hw6, he6⟩ := sub_tt_val hvP hwP hv5 hw5 (le_trans hPb (by norm_num)) (le_trans hm2b (by norm_num))
  refine ⟨hv6, hw6, ?_⟩
  set R := arithmetic.impl_Sub_rTwoFloat_for_rTwoFloat.sub consts.FRAC_PI_2 m2 with hR
  have he6' : |val R - (val consts.FRAC_PI_2 - val m2)| ≤ 7 / 2 ^ 104 := by
    refine le_trans he6 ?_
    have h7 : |val consts.FRAC_PI_2 - val m2| ≤ 7 := le_trans (abs_sub _ _) (by linarith)
    have := mul_le_mul cA_le h7 (abs_nonneg _) (by positivity)
    refine le_trans this ?_
    norm_num
  -- everything in ℝ
  have t1 : |rval R - (rval consts.FRAC_PI_2 - rval m2)| ≤ 7 / 2 ^ 104 := by
    have := cast_abs_sub_le he6'
    unfold rval
    push_cast at this ⊢
    exact this
  have t2 := P_real_err
  have t3 : |rval m2 - 2 * rval ra| ≤ 1 / 2 ^ 103 := by
    have := cast_abs_sub_le he5'
    unfold rval
    push_cast at this ⊢
    exact this
  have t5 : |Real.arcsin (rval sq) - Real.arcsin S| ≤ 1 / 2 ^ 101 := by
    have hq33 : |rval sq| ≤ 33 / 64 := by
      rw [abs_of_pos hq0]; exact le_trans hqhi (by norm_num)
    have hS33 : |S| ≤ 33 / 64 := by rw [abs_of_pos hS0]; linarith
    refine le_trans (arcsin_lipschitz hq33 hS33) ?_
    have : 1 / 2 ^ 101 * S ≤ 1 / 2 ^ 101 * (1 / 2) := mul_le_mul_of_nonneg_left q2 (by positivity)
    have h20 : (20 : ℝ) / 17 * (1 / 2 ^ 101 * (1 / 2)) ≤ 1 / 2 ^ 101 := by norm_num
    have := mul_le_mul_of_nonneg_left (le_trans q1 this) (by norm_num : (0 : ℝ) ≤ 20 / 17)
    linarith
  have hhalf := arcsin_half_angle (x := |rval x|) (abs_nonneg _) (by
    have : (0 : ℝ) < 1 / 2 ^ 890 := by positivity
    linarith)
  rw [hhalf]
  have e : rval R - (Real.pi / 2 - 2 * Real.arcsin S)
      = (rval R - (rval consts.FRAC_PI_2 - rval m2)) + (rval consts.FRAC_PI_2 - Real.pi / 2)
        - (rval m2 - 2 * rval ra) - 2 * (rval ra - Real.arcsin (rval sq))
        - 2 * (Real.arcsin (rval sq) - Real.arcsin S) := by ring
  rw [e]
  have b1 := abs_le.1 t1
  have b2 := abs_le.1 t2
  have b3 := abs_le.1 t3
  have b4 := abs_le.1 he4
  have b5 := abs_le.1 t5
  have num : (7 : ℝ) / 2 ^ 104 + 1 / 2 ^ 106 + 1 / 2 ^ 103 + 2 * (10 / 2 ^ 50) + 2 * (1 / 2 ^ 101) ≤ 21 / 2 ^ 50 := by
    norm_num
  rw [abs_le]
  constructor <;> linarith [b1.1, b1.2, b2.1, b2.2, b3.1, b3.2, b4.1, b4.2, b5.1, b5.2]

theorem rval_pos_iff (t : TwoFloat) : 0 < rval t ↔ 0 < t.V := by
  unfold rval val
  push_cast
  constructor
  · intro h
    have : (0 : ℝ) < (t.V : ℝ) := by
      by_contra hn
      have : (t.V : ℝ) / 2 ^ 1074 ≤ 0 := div_nonpos_of_nonpos_of_nonneg (not_lt.1 hn) (by positivity)
      linarith
    exact_mod_cast this
  · intro h
    have : (0 : ℝ) < (t.V : ℝ) := by exact_mod_cast h
    positivity

/-- **C17 (asin), `1/2 < |x| ≤ 1 − 2^-890`**: valid result within `21·2^-50 < 2^-45.6` of `arcsin x` -/
theorem asin_large_bound {x : TwoFloat} (hv : x.Valid) (hw : x.WF) (h1 : 1 / 2 < |val x|)
    (h2 : |val x| ≤ 1 - 1 / 2 ^ 890) :
    (TwoFloat.asin x).Valid ∧ |rval (TwoFloat.asin x) - Real.arcsin (rval x)| ≤ 21 / 2 ^ 50 := by
  have hiv : TwoFloat.is_valid x = true := (C07.is_valid_iff x hw).2 hv
  have hx1 : |val x| ≤ 1 := by
    have : (0 : ℚ) < 1 / 2 ^ 890 := by positivity
    linarith
  have h1b : ROrd.isGt (base.impl_PartialOrd_f64_for_TwoFloat.partial_cmp (TwoFloat.abs x)
      (f64lit 0x3ff0000000000000)) = false :=
    Bool.eq_false_iff.2 (fun h => absurd ((cmp_one hv hw).1 h) (not_lt.2 hx1))
  have h2b : ROrd.isLe (base.impl_PartialOrd_f64_for_TwoFloat.partial_cmp (TwoFloat.abs x)
      (f64lit 0x3fe0000000000000)) = false :=
    Bool.eq_false_iff.2 (fun h => absurd ((cmp_half hv hw).1 h) (not_le.2 h1))
  obtain ⟨hvR, hwR, heR⟩ := asin_core hv hw h1 h2
  rw [asin_large_eq x hiv h1b h2b]
  have hV0 : x.V ≠ 0 := by
    intro h0
    have : val x = 0 := by unfold val; rw [h0]; simp
    rw [this, abs_zero] at h1
    norm_num at h1
  cases hs : TwoFloat.is_sign_positive x
  · have hneg : ¬ (0 < x.V) := fun h => by
      have := (C06.is_sign_positive_exact hiv hv hV0).2 h
      rw [hs] at this; exact Bool.false_ne_true this
    have hrn : rval x < 0 := by
      have h3 : ¬ (0 < rval x) := fun h => hneg ((rval_pos_iff x).1 h)
      have h4 : rval x ≠ 0 := by
        intro h0
        unfold rval at h0
        have : val x = 0 := by exact_mod_cast h0
        rw [this, abs_zero] at h1
        norm_num at h1
      exact lt_of_le_of_ne (not_lt.1 h3) h4
    simp only [Bool.false_eq_true, if_false]
    refine ⟨neg_valid hvR hwR, ?_⟩
    rw [rval_neg]
    rw [abs_of_neg hrn, Real.arcsin_neg] at heR
    rw [← abs_neg]
    refine le_trans (le_of_eq ?_) heR
    congr 1; ring
  · have hpos := (C06.is_sign_positive_exact hiv hv hV0).1 hs
    have hrp := (rval_pos_iff x).2 hpos
    simp only [if_true]
    rw [abs_of_pos hrp] at heR
    exact ⟨hvR, heR⟩

theorem abs_le_abs_arcsin {y : ℝ} (h : |y| ≤ 1) : |y| ≤ |Real.arcsin y| := by
  rcases le_total 0 y with h0 | h0
  · rw [abs_of_nonneg h0] at h ⊢
    exact le_trans (le_arcsin h0 h) (le_abs_self _)
  · rw [abs_of_nonpos h0] at h ⊢
    have := le_arcsin (y := -y) (by linarith) h
    rw [Real.arcsin_neg] at this
    exact le_trans this (neg_le_abs _)

/-- **C17, asin, absolute**: valid `x`, `|x| ≤ 1 − 2^-890` ⇒ valid result, `|asin(x) − arcsin x| ≤ 23·2^-50 < 2^-45` -/
theorem asin_abs_bound {x : TwoFloat} (hv : x.Valid) (hw : x.WF) (hx : |val x| ≤ 1 - 1 / 2 ^ 890) :
    (TwoFloat.asin x).Valid ∧ |rval (TwoFloat.asin x) - Real.arcsin (rval x)| ≤ 23 / 2 ^ 50 := by
  by_cases hs : |val x| ≤ 1 / 2
  · obtain ⟨h1, h2⟩ := asin_small_bound hv hw hs
    refine ⟨h1, le_trans h2 ?_⟩
    have hr : |rval x| ≤ 1 / 2 := by have := rval_le hs; push_cast at this; exact this
    have := mul_le_mul_of_nonneg_right hr (by positivity : (0 : ℝ) ≤ 1 / 2 ^ 45 + 1 / 2 ^ 48)
    refine le_trans this ?_
    norm_num
  · obtain ⟨h1, h2⟩ := asin_large_bound hv hw (not_le.1 hs) hx
    exact ⟨h1, le_trans h2 (by norm_num)⟩

theorem C17_asin_abs {x : TwoFloat} (hv : x.Valid) (hw : x.WF) (hx : |val x| ≤ 1 - 1 / 2 ^ 890) :
    |rval (TwoFloat.asin x) - Real.arcsin (rval x)| ≤ 1 / 2 ^ 45 :=
  le_trans (asin_abs_bound hv hw hx).2 (by norm_num)

/-- **C17, asin, relative**: valid `x`, `|x| ≤ 1 − 2^-890` ⇒ `|asin(x) − arcsin x| ≤ 2^-43·|arcsin x|` -/
theorem C17_asin_rel {x : TwoFloat} (hv : x.Valid) (hw : x.WF) (hx : |val x| ≤ 1 - 1 / 2 ^ 890) :
    |rval (TwoFloat.asin x) - Real.arcsin (rval x)| ≤ 1 / 2 ^ 43 * |Real.arcsin (rval x)| := by
  have hx1 : |val x| ≤ 1 := by
    have : (0 : ℚ) < 1 / 2 ^ 890 := by positivity
    linarith
  have hr1 : |rval x| ≤ 1 := by have := rval_le hx1; push_cast at this; exact this
  have hge := abs_le_abs_arcsin hr1
  by_cases hs : |val x| ≤ 1 / 2
  · obtain ⟨_, h2⟩ := asin_small_bound hv hw hs
    refine le_trans h2 ?_
    have h3 : |rval x| * (1 / 2 ^ 45 + 1 / 2 ^ 48) ≤ |rval x| * (1 / 2 ^ 43) :=
      mul_le_mul_of_nonneg_left (by norm_num) (abs_nonneg _)
    have h4 := mul_le_mul_of_nonneg_left hge (by positivity : (0 : ℝ) ≤ 1 / 2 ^ 43)
    linarith
  · obtain ⟨_, h2⟩ := asin_large_bound hv hw (not_le.1 hs) hx
    refine le_trans h2 ?_
    have hr : (1 : ℝ) / 2 ≤ |rval x| := by
      have := rval_abs_ge (t := x) (b := 1 / 2)
      rw [abs_rval]
      have h5 := (Rat.cast_le (K := ℝ)).2 (not_le.1 hs).le
      push_cast at h5
      rw [← Rat.cast_abs] at h5
      exact h5
    have h4 := mul_le_mul_of_nonneg_left (le_trans hr hge) (by positivity : (0 : ℝ) ≤ 1 / 2 ^ 43)
    have : (21 : ℝ) / 2 ^ 50 ≤ 1 / 2 ^ 43 * (1 / 2) := by norm_num
    linarith

/-! ### the end points `x = ±1` -/

theorem asin_at_one (s u : Bool) :
    (TwoFloat.asin ⟨F64.fin s (2 ^ 1074), F64.fin u 0⟩).Valid ∧
    (TwoFloat.asin ⟨F64.fin s (2 ^ 1074), F64.fin u 0⟩).V
      = (if s then -consts.FRAC_PI_2.V else consts.FRAC_PI_2.V) ∧
    (TwoFloat.acos ⟨F64.fin s (2 ^ 1074), F64.fin u 0⟩).Valid ∧
    (TwoFloat.acos ⟨F64.fin s (2 ^ 1074), F64.fin u 0⟩).V = (if s then consts.PI.V else 0) := by
  cases s <;> cases u <;> decide +kernel

theorem toInt_fin (s : Bool) (a : Nat) : (F64.fin s a).toInt = if s then -(a : Int) else (a : Int) := by
  cases s <;> rfl

/-- a valid pair of value `±1` is `(±1.0, ±0)` -/
theorem shape_of_unit {x : TwoFloat} (hv : x.Valid) (h : |x.V| = (unit : Int)) :
    ∃ s u : Bool, x = ⟨F64.fin s (2 ^ 1074), F64.fin u 0⟩ ∧ (s = true ↔ x.V < 0) := by
  have hr : RepI x.V := by
    rcases abs_eq (by exact_mod_cast (Nat.zero_le unit)) |>.1 h with e | e
    · rw [e]; have := repI_int (k := 1) (by norm_num); simpa using this
    · rw [e]; have := repI_int (k := -1) (by norm_num); simpa using this
  obtain ⟨⟨f1, z1⟩, ⟨f2, z2⟩⟩ := Valid.isV_of_repI hv hr
  rcases x with ⟨hi, lo⟩
  obtain ⟨s, a, rfl⟩ := F64.is_finite_iff.mp f1
  obtain ⟨u, b, rfl⟩ := F64.is_finite_iff.mp f2
  have hb : b = 0 := TwoFloat.toInt_eq_zero_iff.1 z2
  subst hb
  have hu := unit_cast_eq
  have hue : (unit : Nat) = 2 ^ 1074 := F64.unit_eq
  simp only at z1
  rw [toInt_fin] at z1
  rw [← z1] at h
  refine ⟨s, u, ?_, ?_⟩
  · cases s
    · simp only [Bool.false_eq_true, if_false] at h
      have : (a : Int) = (unit : Int) := by rw [← h]; exact (abs_of_nonneg (by positivity)).symm
      have ha : a = unit := by exact_mod_cast this
      rw [ha, hue]
    · simp only [if_true, abs_neg] at h
      have : (a : Int) = (unit : Int) := by rw [← h]; exact (abs_of_nonneg (by positivity)).symm
      have ha : a = unit := by exact_mod_cast this
      rw [ha, hue]
  · rw [← z1]
    have hpos : (0 : Int) < (a : Int) := by
      have : |(if s = true then -(a : Int) else (a : Int))| = (a : Int) := by
        cases s <;> simp
      rw [this] at h; rw [h]; exact unit_pos_int
    cases s <;> (simp; try omega)

theorem rval_of_V_eq {t r : TwoFloat} (h : t.V = r.V) : rval t = rval r := by unfold rval val; rw [h]
theorem rval_of_V_neg {t r : TwoFloat} (h : t.V = -r.V) : rval t = -rval r := by
  unfold rval val; rw [h]; push_cast; ring

theorem PI_real_err : |rval consts.PI - Real.pi| ≤ 1 / 2 ^ 105 := by
  have h := C12x.PI_rel_err
  have e : rval consts.PI = (consts.PI.V : ℝ) / 2 ^ 1074 := by unfold rval val; push_cast; rfl
  rw [e, abs_sub_comm]
  refine le_trans h ?_
  rw [abs_of_pos Real.pi_pos]
  have := Real.pi_le_four
  rw [div_le_div_iff₀ (by positivity) (by positivity)]
  have e2 : (2 : ℝ) ^ 107 = 4 * 2 ^ 105 := by norm_num
  rw [e2]
  nlinarith [show (0 : ℝ) < 2 ^ 105 by positivity]

/-- **C17, end points**: for a valid `x = ±1`: `asin x = ±π/2` and `acos x = 0` resp. `π`, to `2^-105` -/
theorem asin_acos_at_one {x : TwoFloat} (hv : x.Valid) (h : |x.V| = (unit : Int)) :
    (TwoFloat.asin x).Valid ∧ |rval (TwoFloat.asin x) - Real.arcsin (rval x)| ≤ 1 / 2 ^ 105 ∧
    (TwoFloat.acos x).Valid ∧ |rval (TwoFloat.acos x) - Real.arccos (rval x)| ≤ 1 / 2 ^ 105 := by
  obtain ⟨s, u, rfl, hs⟩ := shape_of_unit hv h
  obtain ⟨a1, a2, a3, a4⟩ := asin_at_one s u
  have hx : rval ⟨F64.fin s (2 ^ 1074), F64.fin u 0⟩ = if s then -1 else 1 := by
    have hV : TwoFloat.V ⟨F64.fin s (2 ^ 1074), F64.fin u 0⟩ = (if s then -1 else 1) * (2 : Int) ^ 1074 := by
      unfold TwoFloat.V
      rw [toInt_fin, toInt_fin]
      cases s <;> cases u <;> simp
    have key : ∀ c : Int, ((((c * (2 : Int) ^ 1074 : Int) : ℚ) / 2 ^ 1074 : ℚ)) = (c : ℚ) := by
      intro c
      rw [Int.cast_mul, Int.cast_pow, Int.cast_ofNat, mul_div_assoc, div_self (by positivity), mul_one]
    unfold rval val
    rw [hV, key]
    cases s <;> simp
  refine ⟨a1, ?_, a3, ?_⟩
  · cases s
    · simp only [Bool.false_eq_true, if_false] at a2 hx
      rw [hx, rval_of_V_eq a2, Real.arcsin_one]
      exact le_trans P_real_err (by norm_num)
    · simp only [if_true] at a2 hx
      rw [hx, rval_of_V_neg a2, Real.arcsin_neg_one, abs_neg_sub_neg]
      exact le_trans P_real_err (by norm_num)
  · cases s
    · simp only [Bool.false_eq_true, if_false] at a4 hx
      rw [hx, Real.arccos_one]
      have : rval (TwoFloat.acos ⟨F64.fin false (2 ^ 1074), F64.fin u 0⟩) = 0 := by
        unfold rval val; rw [a4]; simp
      rw [this]; norm_num
    · simp only [if_true] at a4 hx
      rw [hx, rval_of_V_eq a4, Real.arccos_neg_one]
      exact PI_real_err

/-! ## 4. `acos` -/

/-- **C17 (acos)**: valid `x`, `|x| ≤ 1 − 2^-890` ⇒ valid result, `|acos(x) − arccos x| ≤ 24·2^-50 < 2^-45` -/
theorem acos_abs_bound {x : TwoFloat} (hv : x.Valid) (hw : x.WF) (hx : |val x| ≤ 1 - 1 / 2 ^ 890) :
    (TwoFloat.acos x).Valid ∧ |rval (TwoFloat.acos x) - Real.arccos (rval x)| ≤ 24 / 2 ^ 50 := by
  obtain ⟨hvA, heA⟩ := asin_abs_bound hv hw hx
  have hwA := C17p.asin_WF x
  have hivA : TwoFloat.is_valid (TwoFloat.asin x) = true := (C07.is_valid_iff _ hwA).2 hvA
  rw [C17.acos_eq x hivA]
  obtain ⟨hvP, hwP, hP1, hP2, _⟩ := P_facts
  have hPb : |val consts.FRAC_PI_2| ≤ 2 := by
    rw [abs_of_pos (by linarith)]; linarith
  have hasb : |Real.arcsin (rval x)| ≤ 2 := by
    rw [abs_le]
    have := Real.arcsin_le_pi_div_two (rval x)
    have := Real.neg_pi_div_two_le_arcsin (rval x)
    have := Real.pi_le_four
    constructor <;> linarith
  have hAr : |rval (TwoFloat.asin x)| ≤ 3 := by
    have := abs_add_le (rval (TwoFloat.asin x) - Real.arcsin (rval x)) (Real.arcsin (rval x))
    rw [sub_add_cancel] at this
    have : (23 : ℝ) / 2 ^ 50 ≤ 1 := by norm_num
    linarith
  have hAq : |val (TwoFloat.asin x)| ≤ 3 := by
    refine rval_abs_le ?_
    push_cast; exact hAr
  obtain ⟨hv6, _, he6⟩ := sub_tt_val hvP hwP hvA hwA (le_trans hPb (by norm_num)) (le_trans hAq (by norm_num))
  refine ⟨hv6, ?_⟩
  have he6' : |val (arithmetic.impl_Sub_rTwoFloat_for_rTwoFloat.sub consts.FRAC_PI_2 (TwoFloat.asin x))
      - (val consts.FRAC_PI_2 - val (TwoFloat.asin x))| ≤ 5 / 2 ^ 104 := by
    refine le_trans he6 ?_
    have h7 : |val consts.FRAC_PI_2 - val (TwoFloat.asin x)| ≤ 5 := le_trans (abs_sub _ _) (by linarith)
    have := mul_le_mul cA_le h7 (abs_nonneg _) (by positivity)
    refine le_trans this ?_
    norm_num
  have t1 : |rval (arithmetic.impl_Sub_rTwoFloat_for_rTwoFloat.sub consts.FRAC_PI_2 (TwoFloat.asin x))
      - (rval consts.FRAC_PI_2 - rval (TwoFloat.asin x))| ≤ 5 / 2 ^ 104 := by
    have := cast_abs_sub_le he6'
    unfold rval
    push_cast at this ⊢
    exact this
  have t2 := P_real_err
  rw [Real.arccos_eq_pi_div_two_sub_arcsin]
  show |rval (arithmetic.impl_Sub_rTwoFloat_for_rTwoFloat.sub consts.FRAC_PI_2 (TwoFloat.asin x))
      - (Real.pi / 2 - Real.arcsin (rval x))| ≤ 24 / 2 ^ 50
  have b1 := abs_le.1 t1
  have b2 := abs_le.1 t2
  have b3 := abs_le.1 heA
  have num : (5 : ℝ) / 2 ^ 104 + 1 / 2 ^ 106 + 23 / 2 ^ 50 ≤ 24 / 2 ^ 50 := by norm_num
  rw [abs_le]
  constructor <;> linarith [b1.1, b1.2, b2.1, b2.2, b3.1, b3.2]

theorem C17_acos_abs {x : TwoFloat} (hv : x.Valid) (hw : x.WF) (hx : |val x| ≤ 1 - 1 / 2 ^ 890) :
    |rval (TwoFloat.acos x) - Real.arccos (rval x)| ≤ 1 / 2 ^ 45 :=
  le_trans (acos_abs_bound hv hw hx).2 (by norm_num)

/-! ## 5. `restricted_atan` against `Real.arctan` -/

theorem ATAN_COEFFS_val : trigonometry.ATAN_COEFFS.map val = atanCoeffs := by decide +kernel

theorem ATAN_COEFFS_ok : ∀ c ∈ trigonometry.ATAN_COEFFS, c.Valid ∧ c.WF := by decide +kernel

theorem atan_hBnd : hBnd atanT0 atanCoeffs = true := by decide +kernel

theorem atan_innerZero : InnerZero trigonometry.ATAN_COEFFS := by
  intro s u
  cases s <;> cases u <;> decide +kernel

theorem sq_le_atanT0 {v : ℚ} (h : |v| ≤ atanRho) : v ^ 2 ≤ atanT0 := by
  have h2 := pow_le_pow_left₀ (abs_nonneg v) h 2
  rw [sq_abs] at h2
  exact h2

/-- rounding error of `restricted_atan` against the exact rational polynomial, all valid `|x| ≤ 7/16 + 2^-20` -/
theorem restricted_atan_bound {x : TwoFloat} (hv : x.Valid) (hw : x.WF) (hhi : |val x| ≤ atanRho) :
    (trigonometry.restricted_atan x).Valid ∧ (trigonometry.restricted_atan x).WF ∧
    |val (trigonometry.restricted_atan x) - atanPolyQ (val x)| ≤ |val x| * 17 / 2 ^ 99 + 1 / 2 ^ 949 := by
  have h := restrictedM_bound (cs := trigonometry.ATAN_COEFFS) (by decide) (by decide) ATAN_COEFFS_ok
    (T := atanT0) (by unfold atanT0 atanRho; norm_num) (by rw [ATAN_COEFFS_val]; exact atan_hBnd) hv hw
    (sq_le_atanT0 hhi)
  rw [ATAN_COEFFS_val] at h
  rw [restricted_atan_eq]
  have e : ((trigonometry.ATAN_COEFFS.length + 2 : ℕ) : ℚ) = 17 := by
    have : trigonometry.ATAN_COEFFS.length = 15 := by decide
    rw [this]; norm_num
  rw [e] at h
  exact h

/-- **`restricted_atan` against `Real.arctan`**, all valid `|x| ≤ 7/16 + 2^-20`:
error `≤ |x|·(2^-72 + 2^-84) + 2^-949` -/
theorem restricted_atan_real {x : TwoFloat} (hv : x.Valid) (hw : x.WF) (hhi : |val x| ≤ atanRho) :
    (trigonometry.restricted_atan x).Valid ∧ (trigonometry.restricted_atan x).WF ∧
    |rval (trigonometry.restricted_atan x) - Real.arctan (rval x)|
      ≤ |rval x| * (1 / 2 ^ 72 + 1 / 2 ^ 84) + 1 / 2 ^ 949 := by
  obtain ⟨hV, hW, hb⟩ := restricted_atan_bound hv hw hhi
  have hr : |rval x| ≤ (atanRho : ℝ) := rval_le hhi
  have hb' : |rval (trigonometry.restricted_atan x) - AtanPoly (rval x)| ≤ |rval x| * 17 / 2 ^ 99 + 1 / 2 ^ 949 := by
    have := (Rat.cast_le (K := ℝ)).2 hb
    rw [Rat.cast_abs, Rat.cast_sub, atanPolyQ_cast] at this
    rw [abs_rval]
    push_cast at this ⊢
    exact this
  refine ⟨hV, hW, ?_⟩
  have e : rval (trigonometry.restricted_atan x) - Real.arctan (rval x)
      = (rval (trigonometry.restricted_atan x) - AtanPoly (rval x)) - (Real.arctan (rval x) - AtanPoly (rval x)) := by
    ring
  rw [e]
  refine le_trans (abs_sub _ _) ?_
  have := atan_poly_rel hr
  have h3 : |rval x| * 17 / 2 ^ 99 ≤ |rval x| * (1 / 2 ^ 85) := by
    rw [mul_div_assoc]
    exact mul_le_mul_of_nonneg_left (by norm_num) (abs_nonneg _)
  have e2 : |rval x| * (1 / 2 ^ 72 + 1 / 2 ^ 84)
      = |rval x| * (1 / 2 ^ 72 + 1 / 2 ^ 85) + |rval x| * (1 / 2 ^ 85) := by ring
  rw [e2]; linarith

/-- **`restricted_atan` relative to `|x|`, all valid `|x| ≤ 7/16 + 2^-20`** (`|x| ≤ 2^-540`: exact) -/
theorem restricted_atan_rel {x : TwoFloat} (hv : x.Valid) (hw : x.WF) (hhi : |val x| ≤ atanRho) :
    (trigonometry.restricted_atan x).Valid ∧ (trigonometry.restricted_atan x).WF ∧
    |rval (trigonometry.restricted_atan x) - Real.arctan (rval x)| ≤ |rval x| * (1 / 2 ^ 72 + 1 / 2 ^ 83) := by
  obtain ⟨hV, hW, h2⟩ := restricted_atan_real hv hw hhi
  refine ⟨hV, hW, ?_⟩
  by_cases hdeep : |val x| ≤ 1 / 2 ^ 540
  · obtain ⟨_, he⟩ := restrictedM_deep atan_innerZero hv hw hdeep
    rw [← restricted_atan_eq] at he
    have e1 : rval (trigonometry.restricted_atan x) = rval x := by unfold rval; rw [he]
    have hr : |rval x| ≤ 1 / 2 ^ 540 := by have := rval_le hdeep; push_cast at this; exact this
    have hA := atan_poly_rel (r := rval x) (le_trans hr (by unfold atanRho; push_cast; norm_num))
    have hP : |AtanPoly (rval x) - rval x| ≤ |rval x| * (1 / 2 ^ 1000) := by
      unfold AtanPoly
      have e : rval x * (rval x ^ 2 * peval atanCoeffs (rval x ^ 2) + 1) - rval x
          = rval x * (rval x ^ 2 * peval atanCoeffs (rval x ^ 2)) := by ring
      rw [e, abs_mul]
      refine mul_le_mul_of_nonneg_left ?_ (abs_nonneg _)
      have hsq : rval x ^ 2 ≤ 1 / 2 ^ 1080 := by
        have := pow_le_pow_left₀ (abs_nonneg _) hr 2
        rw [sq_abs] at this
        refine le_trans this ?_
        norm_num
      have hpe : |peval atanCoeffs (rval x ^ 2)| ≤ 2 := by
        have h1 := peval_le_absb atanCoeffs (h := 1) (s := rval x ^ 2)
          (by rw [abs_of_nonneg (sq_nonneg _)]; push_cast; exact le_trans hsq (by norm_num))
        refine le_trans h1 ?_
        have : absb atanCoeffs 1 ≤ 2 := by decide +kernel
        exact_mod_cast this
      rw [abs_mul, abs_of_nonneg (sq_nonneg _)]
      have := mul_le_mul hsq hpe (abs_nonneg _) (by positivity)
      refine le_trans this ?_
      norm_num
    rw [e1]
    have e : rval x - Real.arctan (rval x)
        = -(Real.arctan (rval x) - AtanPoly (rval x)) - (AtanPoly (rval x) - rval x) := by ring
    rw [e]
    refine le_trans (abs_sub _ _) ?_
    rw [abs_neg]
    have : |rval x| * (1 / 2 ^ 72 + 1 / 2 ^ 85) + |rval x| * (1 / 2 ^ 1000)
        ≤ |rval x| * (1 / 2 ^ 72 + 1 / 2 ^ 83) := by
      rw [← mul_add]
      exact mul_le_mul_of_nonneg_left (by norm_num) (abs_nonneg _)
    linarith
  · have hn : (1 : ℚ) / 2 ^ 540 ≤ |val x| := (not_le.1 hdeep).le
    refine le_trans h2 ?_
    have hr : (1 : ℝ) / 2 ^ 540 ≤ |rval x| := by
      rw [abs_rval]
      have := (Rat.cast_le (K := ℝ)).2 hn
      rw [Rat.cast_div, Rat.cast_one, Rat.cast_pow, Rat.cast_ofNat] at this
      exact this
    have h3 : (1 : ℝ) / 2 ^ 949 ≤ |rval x| * (1 / 2 ^ 409) := by
      have := mul_le_mul_of_nonneg_right hr (by positivity : (0 : ℝ) ≤ 1 / 2 ^ 409)
      refine le_trans (le_of_eq ?_) this
      norm_num
    have h4 : |rval x| * (1 / 2 ^ 72 + 1 / 2 ^ 84) + |rval x| * (1 / 2 ^ 409)
        ≤ |rval x| * (1 / 2 ^ 72 + 1 / 2 ^ 83) := by
      rw [← mul_add]
      exact mul_le_mul_of_nonneg_left (by norm_num) (abs_nonneg _)
    linarith

/-- `arctan` is `1`-Lipschitz -/
theorem arctan_lipschitz (a b : ℝ) : |Real.arctan a - Real.arctan b| ≤ |a - b| := by
  have key := (convex_univ : Convex ℝ (Set.univ : Set ℝ)).norm_image_sub_le_of_norm_hasDerivWithin_le
    (f := Real.arctan) (f' := fun s => 1 / (1 + s ^ 2)) (C := 1) (x := b) (y := a)
    (fun s _ => (Real.hasDerivAt_arctan s).hasDerivWithinAt)
    (fun s _ => by
      have hp : (0 : ℝ) < 1 + s ^ 2 := by positivity
      rw [Real.norm_eq_abs, abs_of_pos (by positivity), div_le_iff₀ hp]
      nlinarith [sq_nonneg s])
    (Set.mem_univ _) (Set.mem_univ _)
  simpa [Real.norm_eq_abs] using key

/-! ## 6. more operator glue -/

/-- `TwoFloat - f64` -/
theorem sub_tf_val {x : TwoFloat} {f : F64} (hvx : x.Valid) (hwx : x.WF) (hff : f.is_finite = true) (hwf : f.WF)
    (hx : |val x| ≤ 2 ^ 30) (hf : f.toInt.natAbs < 2 ^ 2095) :
    (arithmetic.impl_Sub_rf64_for_rTwoFloat.sub x f).Valid ∧
    (arithmetic.impl_Sub_rf64_for_rTwoFloat.sub x f).WF ∧
    |val (arithmetic.impl_Sub_rf64_for_rTwoFloat.sub x f) - (val x - fval f)| ≤ 1 / 2 ^ 105 * |val x - fval f| := by
  have hxh : x.hi.toInt.natAbs < 2 ^ 2095 :=
    lt_trans (hi_natAbs_lt hvx hx) (Nat.pow_lt_pow_right (by norm_num) (by norm_num))
  obtain ⟨hV, hb⟩ := C03b.sub_tf_f64_bound hvx hwx hff hwf hxh hf
  refine ⟨hV, TwoFloat.sub_tf_WF x f, ?_⟩
  have h := scaled_le (N := 1) (D := 2 ^ 105) (by positivity) (by simpa using hb)
  unfold val fval
  rw [← sub_div]
  push_cast at h ⊢
  exact h

/-- `f64 + TwoFloat` -/
theorem add_ft_val {x : TwoFloat} {f : F64} (hvx : x.Valid) (hwx : x.WF) (hff : f.is_finite = true) (hwf : f.WF)
    (hx : |val x| ≤ 2 ^ 30) (hf : f.toInt.natAbs < 2 ^ 2095) :
    (arithmetic.impl_Add_rTwoFloat_for_rf64.add f x).Valid ∧
    (arithmetic.impl_Add_rTwoFloat_for_rf64.add f x).WF ∧
    |val (arithmetic.impl_Add_rTwoFloat_for_rf64.add f x) - (fval f + val x)| ≤ 1 / 2 ^ 105 * |fval f + val x| := by
  have hxh : x.hi.toInt.natAbs < 2 ^ 2095 :=
    lt_trans (hi_natAbs_lt hvx hx) (Nat.pow_lt_pow_right (by norm_num) (by norm_num))
  obtain ⟨hV, hb⟩ := C03b.add_f64_tf_bound hvx hwx hff hwf hxh hf
  refine ⟨hV, PF.add_ft_WF f x, ?_⟩
  have h := scaled_le (N := 1) (D := 2 ^ 105) (by positivity) (by simpa using hb)
  unfold val fval
  rw [← add_div]
  push_cast at h ⊢
  exact h

/-- `f64 * TwoFloat`, product of the high word and `f` of magnitude in `[2^-960, 2^1021]` -/
theorem mul_ft_val {x : TwoFloat} {f : F64} (hv : x.Valid) (hw : x.WF) (hff : f.is_finite = true) (hwf : f.WF)
    (hr : x.hi.toInt * f.toInt = 0 ∨
      ((2 : Int) ^ 1188 ≤ |x.hi.toInt * f.toInt| ∧ |x.hi.toInt * f.toInt| < (2 : Int) ^ 3169)) :
    (arithmetic.impl_Mul_rTwoFloat_for_rf64.mul f x).Valid ∧
    (arithmetic.impl_Mul_rTwoFloat_for_rf64.mul f x).WF ∧
    |val (arithmetic.impl_Mul_rTwoFloat_for_rf64.mul f x) - fval f * val x| ≤ 1 / 2 ^ 105 * |fval f * val x| := by
  obtain ⟨hV, hb⟩ := C04b.mul_f64_tf_bound hv hw hff hwf hr
  refine ⟨hV, PF.mul_ft_WF f x, ?_⟩
  generalize arithmetic.impl_Mul_rTwoFloat_for_rf64.mul f x = p at *
  rw [unit_cast_eq] at hb
  have hq : |(p.V : ℚ) * 2 ^ 1074 - f.toInt * x.V| * 2 ^ 105 ≤ |(f.toInt : ℚ) * x.V| := by exact_mod_cast hb
  unfold val fval
  have hW : (0 : ℚ) < 2 ^ 1074 := by positivity
  generalize (2 : ℚ) ^ 1074 = W at *
  have e1 : (p.V : ℚ) / W - f.toInt / W * (x.V / W) = ((p.V : ℚ) * W - f.toInt * x.V) / (W * W) := by field_simp
  have e2 : (f.toInt : ℚ) / W * (x.V / W) = ((f.toInt : ℚ) * x.V) / (W * W) := by field_simp
  rw [e1, e2, abs_div, abs_div, abs_of_pos (mul_pos hW hW), ← mul_div_assoc,
    div_le_div_iff_of_pos_right (mul_pos hW hW), div_mul_eq_mul_div, one_mul, le_div_iff₀ (by positivity)]
  exact hq

/-- `recip x`, `x.hi` of magnitude in `[2^-1016, 2^964]`: `|1 − recip(x)·x| ≤ 2^-102` -/
theorem recip_val {x : TwoFloat} (hv : x.Valid)
    (hB : 2 ^ 58 ≤ x.hi.toInt.natAbs ∧ x.hi.toInt.natAbs ≤ 2 ^ 2038) :
    (TwoFloat.recip x).Valid ∧ (TwoFloat.recip x).WF ∧ |1 - val (TwoFloat.recip x) * val x| ≤ 1 / 2 ^ 102 := by
  obtain ⟨hV, hW⟩ := C01d.recip_valid x hv hB.1 (le_trans hB.2 (by norm_num))
  have hb := C01d.recip_bound x hv hB.1 hB.2
  refine ⟨hV, hW, ?_⟩
  generalize TwoFloat.recip x = q at *
  rw [unit_cast_eq] at hb
  have hq : (2 : ℚ) ^ 102 * |(2 : ℚ) ^ 1074 * 2 ^ 1074 - q.V * x.V| ≤ (2 : ℚ) ^ 1074 * 2 ^ 1074 := by
    exact_mod_cast hb
  unfold val
  have hW0 : (0 : ℚ) < 2 ^ 1074 := by positivity
  generalize (2 : ℚ) ^ 1074 = W at *
  have e1 : (1 : ℚ) - q.V / W * (x.V / W) = (W * W - q.V * x.V) / (W * W) := by field_simp
  rw [e1, abs_div, abs_of_pos (mul_pos hW0 hW0), div_le_iff₀ (mul_pos hW0 hW0)]
  have p : (0 : ℚ) < 2 ^ 102 := by positivity
  have : (2 : ℚ) ^ 102 * (1 / 2 ^ 102 * (W * W)) = W * W := by field_simp
  nlinarith

/-! ## 7. `atan`: the selector `k = 4|x| + 0.25` and the thresholds -/

theorem four_lit : (f64lit 0x4010000000000000).is_finite = true ∧ (f64lit 0x4010000000000000).WF ∧
    (f64lit 0x4010000000000000).toInt = 1 * 2 ^ 2 * (unit : Int) := by decide +kernel

theorem quarter_lit : (f64lit 0x3fd0000000000000).is_finite = true ∧ (f64lit 0x3fd0000000000000).WF ∧
    (f64lit 0x3fd0000000000000).toInt = 2 ^ 1072 ∧ (f64lit 0x3fd0000000000000).toInt.natAbs < 2 ^ 2095 := by
  decide +kernel

theorem three_lit : (f64lit 0x4008000000000000).is_finite = true ∧ (f64lit 0x4008000000000000).WF ∧
    (f64lit 0x4008000000000000).toInt = 3 * 2 ^ 1074 := by decide +kernel

theorem five_lit : (f64lit 0x4014000000000000).is_finite = true ∧ (f64lit 0x4014000000000000).WF ∧
    (f64lit 0x4014000000000000).toInt = 5 * 2 ^ 1074 := by decide +kernel

theorem ten_lit : (f64lit 0x4024000000000000).is_finite = true ∧ (f64lit 0x4024000000000000).WF ∧
    (f64lit 0x4024000000000000).toInt = 10 * 2 ^ 1074 := by decide +kernel

theorem three_halves_lit : (f64lit 0x3ff8000000000000).is_finite = true ∧ (f64lit 0x3ff8000000000000).WF ∧
    (f64lit 0x3ff8000000000000).toInt = 3 * 2 ^ 1073 ∧ (f64lit 0x3ff8000000000000).toInt.natAbs < 2 ^ 2095 := by
  decide +kernel

theorem half_natAbs : (f64lit 0x3fe0000000000000).toInt.natAbs < 2 ^ 2095 := by decide +kernel

theorem fval_of {f : F64} {n : Int} (h : f.toInt = n * 2 ^ 1074) : fval f = (n : ℚ) := by
  unfold fval
  rw [h, Int.cast_mul, Int.cast_pow, Int.cast_ofNat, mul_div_assoc, div_self (by positivity), mul_one]

theorem fval_two : fval (f64lit 0x4000000000000000) = 2 := by
  have : (f64lit 0x4000000000000000).toInt = 2 * 2 ^ 1074 := by rw [two_facts.2.2.1]; norm_num
  exact_mod_cast fval_of this
theorem fval_three : fval (f64lit 0x4008000000000000) = 3 := by exact_mod_cast fval_of three_lit.2.2
theorem fval_five : fval (f64lit 0x4014000000000000) = 5 := by exact_mod_cast fval_of five_lit.2.2
theorem fval_ten : fval (f64lit 0x4024000000000000) = 10 := by exact_mod_cast fval_of ten_lit.2.2
theorem fval_half : fval (f64lit 0x3fe0000000000000) = 1 / 2 := by
  unfold fval
  rw [half_facts.2.2, Int.cast_pow, Int.cast_ofNat, pow_succ (2 : ℚ) 1073, div_mul_eq_div_div,
    div_self (by positivity)]
theorem fval_quarter : fval (f64lit 0x3fd0000000000000) = 1 / 4 := by
  unfold fval
  rw [quarter_lit.2.2.1, Int.cast_pow, Int.cast_ofNat]
  have : (2 : ℚ) ^ 1074 = 2 ^ 1072 * 4 := by rw [show (4 : ℚ) = 2 ^ 2 by norm_num, ← pow_add]
  rw [this, div_mul_eq_div_div, div_self (by positivity)]
theorem fval_three_halves : fval (f64lit 0x3ff8000000000000) = 3 / 2 := by
  unfold fval
  rw [three_halves_lit.2.2.1, Int.cast_mul, Int.cast_pow, Int.cast_ofNat, Int.cast_ofNat,
    pow_succ (2 : ℚ) 1073, mul_div_assoc, div_mul_eq_div_div, div_self (by positivity)]
  norm_num

/-- the upper half of `hi_range_gen` -/
theorem hi_le_gen {t : TwoFloat} (hv : t.Valid) {j : ℕ} (h2 : |val t| ≤ 2 ^ j) :
    t.hi.toInt.natAbs ≤ 2 ^ (1075 + j) := by
  have a2 : |t.V| ≤ (2 : Int) ^ (1074 + j) := int_upper h2
  obtain ⟨b1, _⟩ := hi_bounds hv
  have c2 : |t.hi.toInt| ≤ (2 : Int) ^ (1075 + j) := by
    have e : (2 : Int) ^ (1075 + j) = 2 * 2 ^ (1074 + j) := by
      rw [← pow_succ']; congr 1; omega
    rw [e]
    have p : (0 : Int) < 2 ^ (1074 + j) := by positivity
    generalize (2 : Int) ^ (1074 + j) = W at *
    nlinarith [abs_nonneg t.hi.toInt]
  rw [Int.abs_eq_natAbs] at c2
  exact_mod_cast c2

/-- `TwoFloat + f64`, wide range -/
theorem add_tf_val_wide {x : TwoFloat} {f : F64} (hvx : x.Valid) (hwx : x.WF) (hff : f.is_finite = true)
    (hwf : f.WF) (hxh : x.hi.toInt.natAbs < 2 ^ 2095) (hf : f.toInt.natAbs < 2 ^ 2095) :
    (arithmetic.impl_Add_rf64_for_rTwoFloat.add x f).Valid ∧
    (arithmetic.impl_Add_rf64_for_rTwoFloat.add x f).WF ∧
    |val (arithmetic.impl_Add_rf64_for_rTwoFloat.add x f) - (val x + fval f)| ≤ 1 / 2 ^ 105 * |val x + fval f| := by
  obtain ⟨hV, hb⟩ := C03b.add_tf_f64_bound hvx hwx hff hwf hxh hf
  refine ⟨hV, TwoFloat.add_tf_WF x f, ?_⟩
  have h := scaled_le (N := 1) (D := 2 ^ 105) (by positivity) (by simpa using hb)
  unfold val fval
  rw [← add_div]
  push_cast at h ⊢
  exact h

/-- comparisons of a valid pair with a double literal are comparisons of the values -/
theorem cmp_le_lit {k : TwoFloat} (hk : k.Valid) {c : F64} (hc : c.WF) (hcf : c.is_finite = true) :
    ROrd.isLe (base.impl_PartialOrd_f64_for_TwoFloat.partial_cmp k c) = true ↔ val k ≤ fval c := by
  rw [show base.impl_PartialOrd_f64_for_TwoFloat.partial_cmp = C06.cmpTF from rfl, C06.le_f64_exact hk hc hcf]
  unfold val fval
  rw [div_le_div_iff_of_pos_right (by positivity)]
  exact_mod_cast Iff.rfl

theorem cmp_lt_lit {k : TwoFloat} (hk : k.Valid) {c : F64} (hc : c.WF) (hcf : c.is_finite = true) :
    ROrd.isLt (base.impl_PartialOrd_f64_for_TwoFloat.partial_cmp k c) = true ↔ val k < fval c := by
  rw [show base.impl_PartialOrd_f64_for_TwoFloat.partial_cmp = C06.cmpTF from rfl, C06.lt_f64_exact hk hc hcf]
  unfold val fval
  rw [div_lt_div_iff_of_pos_right (by positivity)]
  exact_mod_cast Iff.rfl

/-- **the selector of `atan`**: `k = 4·|x| + 0.25` up to a relative `2^-105` -/
theorem atan_k {x : TwoFloat} (hv : x.Valid) (hw : x.WF) (hx : |val x| ≤ 2 ^ 62) :
    (arithmetic.impl_Add_rf64_for_rTwoFloat.add
      (arithmetic.impl_Mul_rTwoFloat_for_rf64.mul (f64lit 0x4010000000000000) (TwoFloat.abs x))
      (f64lit 0x3fd0000000000000)).Valid ∧
    |val (arithmetic.impl_Add_rf64_for_rTwoFloat.add
      (arithmetic.impl_Mul_rTwoFloat_for_rf64.mul (f64lit 0x4010000000000000) (TwoFloat.abs x))
      (f64lit 0x3fd0000000000000)) - (4 * |val x| + 1 / 4)| ≤ 1 / 2 ^ 105 * (4 * |val x| + 1 / 4) := by
  obtain ⟨ha, hwa, hval⟩ := abs_facts hv hw
  set a := TwoFloat.abs x with hadef
  have haj : |val a| ≤ 2 ^ 62 := by rw [hval, _root_.abs_abs]; exact hx
  have hah := hi_le_gen ha haj
  have hmax : (2 : Nat) ^ (1075 + 62) * 2 ^ 2 ≤ maxFin :=
    le_trans (by rw [← pow_add]; exact Nat.pow_le_pow_right (by norm_num) (by norm_num)) two_pow_2097_le_maxFin
  obtain ⟨_, _, hV4', hv4', hw4'⟩ := C04x.mul_ft_pow2_up (f64lit 0x4010000000000000) a 1 2 (Or.inl rfl) ha hwa
    four_lit.1 four_lit.2.2 (le_trans (Nat.mul_le_mul_right _ hah) hmax)
  have hV4 : (arithmetic.impl_Mul_rTwoFloat_for_rf64.mul (f64lit 0x4010000000000000) a).V = 1 * 2 ^ 2 * a.V := hV4'
  have hv4 : (arithmetic.impl_Mul_rTwoFloat_for_rf64.mul (f64lit 0x4010000000000000) a).Valid := hv4'
  have hw4 : (arithmetic.impl_Mul_rTwoFloat_for_rf64.mul (f64lit 0x4010000000000000) a).WF := hw4'
  have hkm : val (arithmetic.impl_Mul_rTwoFloat_for_rf64.mul (f64lit 0x4010000000000000) a) = 4 * val a := by
    unfold val
    rw [hV4]; push_cast; ring
  have hkmj : |val (arithmetic.impl_Mul_rTwoFloat_for_rf64.mul (f64lit 0x4010000000000000) a)| ≤ 2 ^ 64 := by
    rw [hkm, abs_mul]
    have : |(4 : ℚ)| = 4 := by norm_num
    rw [this]
    have : (2 : ℚ) ^ 64 = 4 * 2 ^ 62 := by norm_num
    rw [this]
    exact mul_le_mul_of_nonneg_left haj (by norm_num)
  have hkmh := hi_le_gen hv4 hkmj
  obtain ⟨hvk, _, hek⟩ := add_tf_val_wide hv4 hw4 quarter_lit.1 quarter_lit.2.1
    (lt_of_le_of_lt hkmh (Nat.pow_lt_pow_right (by norm_num) (by norm_num))) quarter_lit.2.2.2
  refine ⟨hvk, ?_⟩
  rw [hkm, hval, fval_quarter] at hek
  have hp : (0 : ℚ) ≤ 4 * |val x| + 1 / 4 := by positivity
  rwa [abs_of_nonneg hp] at hek

/-- thresholds: a computed `vk ≈ E` (relative `2^-105`) below / above a constant `c ≤ 16` -/
theorem thr {E vk c : ℚ} (h : |vk - E| ≤ 1 / 2 ^ 105 * E) (hc : c ≤ 16) :
    (vk ≤ c → E ≤ c + 1 / 2 ^ 100) ∧ (c ≤ vk → c - 1 / 2 ^ 100 ≤ E) := by
  obtain ⟨l, u⟩ := abs_le.1 h
  constructor
  · intro hle
    by_contra hn
    have hE' : c + 1 / 2 ^ 100 < E := not_le.1 hn
    have : 1 / 2 ^ 105 * E ≤ 1 / 2 ^ 105 * E := le_refl _
    -- E(1 − ε) ≤ vk ≤ c
    have h2 : E * (1 - 1 / 2 ^ 105) ≤ c := by linarith
    have h3 : (c + 1 / 2 ^ 100) * (1 - 1 / 2 ^ 105) < E * (1 - 1 / 2 ^ 105) :=
      mul_lt_mul_of_pos_right hE' (by norm_num)
    have h4 : c ≤ (c + 1 / 2 ^ 100) * (1 - 1 / 2 ^ 105) := by
      have : (c + 1 / 2 ^ 100) * (1 - 1 / 2 ^ 105) = c + (1 / 2 ^ 100 - c / 2 ^ 105 - 1 / 2 ^ 205) := by ring
      rw [this]
      have : c / 2 ^ 105 ≤ 16 / 2 ^ 105 := div_le_div_of_nonneg_right hc (by positivity)
      have : (16 : ℚ) / 2 ^ 105 + 1 / 2 ^ 205 ≤ 1 / 2 ^ 100 := by norm_num
      linarith
    linarith
  · intro hge
    have h2 : c ≤ E * (1 + 1 / 2 ^ 105) := by linarith
    by_contra hn
    have hE' : E < c - 1 / 2 ^ 100 := not_le.1 hn
    have h3 : E * (1 + 1 / 2 ^ 105) < (c - 1 / 2 ^ 100) * (1 + 1 / 2 ^ 105) :=
      mul_lt_mul_of_pos_right hE' (by norm_num)
    have h4 : (c - 1 / 2 ^ 100) * (1 + 1 / 2 ^ 105) ≤ c := by
      have : (c - 1 / 2 ^ 100) * (1 + 1 / 2 ^ 105) = c - (1 / 2 ^ 100 - c / 2 ^ 105 + 1 / 2 ^ 205) := by ring
      rw [this]
      have : c / 2 ^ 105 ≤ 16 / 2 ^ 105 := div_le_div_of_nonneg_right hc (by positivity)
      have : (16 : ℚ) / 2 ^ 105 ≤ 1 / 2 ^ 100 := by norm_num
      have : (0 : ℚ) ≤ 1 / 2 ^ 205 := by positivity
      linarith
    linarith

/-! ## 8. `atan`: the five intervals -/

/-- pure arithmetic of the reduced argument: `q·D ≈ N ≈ a − c`, `D ≈ 1 + c·a` ⇒ `q ≈ (a − c)/(1 + c·a)` -/
theorem mid_arith {a c n d q : ℚ} (ha : 0 ≤ a) (hc : 0 ≤ c)
    (hn : |n - (a - c)| ≤ 1 / 2 ^ 105 * |a - c|) (hd : |d - (1 + c * a)| ≤ 1 / 2 ^ 103 * |1 + c * a|)
    (hq : |n - q * d| ≤ 1 / 2 ^ 102 * |n|) :
    |q - (a - c) / (1 + c * a)| ≤ 1 / 2 ^ 100 * |(a - c) / (1 + c * a)| := by
  have hp : 0 < 1 + c * a := by positivity
  rw [abs_of_pos hp] at hd
  set t := (a - c) / (1 + c * a) with ht
  have hta : a - c = t * (1 + c * a) := by rw [ht]; field_simp
  have habs : |a - c| = |t| * (1 + c * a) := by rw [hta, abs_mul, abs_of_pos hp]
  -- |n| ≤ |a − c|(1 + 2^-105)
  have hn2 : |n| ≤ |a - c| * (1 + 1 / 2 ^ 105) := by
    have := abs_add_le (n - (a - c)) (a - c)
    rw [sub_add_cancel] at this
    linarith
  have h1 : |q * d - (a - c)| ≤ |a - c| * (1 / 2 ^ 101) := by
    have e : q * d - (a - c) = -(n - q * d) + (n - (a - c)) := by ring
    rw [e]
    refine le_trans (abs_add_le _ _) ?_
    rw [abs_neg]
    have h3 : 1 / 2 ^ 102 * |n| ≤ 1 / 2 ^ 102 * (|a - c| * (1 + 1 / 2 ^ 105)) :=
      mul_le_mul_of_nonneg_left hn2 (by positivity)
    have h4 : 1 / 2 ^ 102 * (|a - c| * (1 + 1 / 2 ^ 105)) + 1 / 2 ^ 105 * |a - c| ≤ |a - c| * (1 / 2 ^ 101) := by
      have : (1 : ℚ) / 2 ^ 102 * (1 + 1 / 2 ^ 105) + 1 / 2 ^ 105 ≤ 1 / 2 ^ 101 := by norm_num
      have := mul_le_mul_of_nonneg_left this (abs_nonneg (a - c))
      linarith
    linarith
  have hdl : (1 + c * a) * (1 - 1 / 2 ^ 103) ≤ d := by
    have := (abs_le.1 hd).1; linarith
  have hdpos : 0 < d := lt_of_lt_of_le (by positivity) hdl
  -- d·(q − t) = (q d − (a − c)) + t((1 + c a) − d)
  have e2 : d * (q - t) = (q * d - (a - c)) + t * ((1 + c * a) - d) := by rw [hta]; ring
  have h5 : d * |q - t| ≤ |t| * (1 + c * a) * (1 / 2 ^ 101) + |t| * (1 / 2 ^ 103 * (1 + c * a)) := by
    rw [← abs_of_pos hdpos, ← abs_mul, e2]
    refine le_trans (abs_add_le _ _) ?_
    rw [abs_mul t]
    have h1' : |q * d - (a - c)| ≤ |t| * (1 + c * a) * (1 / 2 ^ 101) := by rw [← habs]; exact h1
    have : |t| * |1 + c * a - d| ≤ |t| * (1 / 2 ^ 103 * (1 + c * a)) := by
      rw [abs_sub_comm]; exact mul_le_mul_of_nonneg_left hd (abs_nonneg _)
    linarith
  have h6 : (1 + c * a) * (1 - 1 / 2 ^ 103) * |q - t| ≤ d * |q - t| :=
    mul_le_mul_of_nonneg_right hdl (abs_nonneg _)
  have h7 : (1 + c * a) * ((1 - 1 / 2 ^ 103) * |q - t|) ≤ (1 + c * a) * (|t| * (1 / 2 ^ 101 + 1 / 2 ^ 103)) := by
    have : |t| * (1 + c * a) * (1 / 2 ^ 101) + |t| * (1 / 2 ^ 103 * (1 + c * a))
        = (1 + c * a) * (|t| * (1 / 2 ^ 101 + 1 / 2 ^ 103)) := by ring
    rw [← this, ← mul_assoc]
    linarith
  have h8 := le_of_mul_le_mul_left h7 hp
  have h9 : |t| * (1 / 2 ^ 101 + 1 / 2 ^ 103) ≤ (1 - 1 / 2 ^ 103) * (1 / 2 ^ 100 * |t|) := by
    have : (1 : ℚ) / 2 ^ 101 + 1 / 2 ^ 103 ≤ (1 - 1 / 2 ^ 103) * (1 / 2 ^ 100) := by norm_num
    have := mul_le_mul_of_nonneg_left this (abs_nonneg t)
    linarith
  have h10 : (1 - 1 / 2 ^ 103) * |q - t| ≤ (1 - 1 / 2 ^ 103) * (1 / 2 ^ 100 * |t|) := le_trans h8 h9
  exact le_of_mul_le_mul_left h10 (by norm_num)

theorem cast_le_real {a b : ℚ} (h : a ≤ b) : (a : ℝ) ≤ (b : ℝ) := (Rat.cast_le (K := ℝ)).2 h

/-- **a middle interval of `atan`**: `C + restricted_atan (N / D)` with `N ≈ a − c`, `D ≈ 1 + c·a`, `C ≈ arctan c` -/
theorem atan_mid {a N D Cc : TwoFloat} {c : ℚ} (hc0 : 0 ≤ c) (hc2 : c ≤ 2) (ha0 : 0 ≤ val a) (ha4 : val a ≤ 4)
    (hvN : N.Valid) (hwN : N.WF) (heN : |val N - (val a - c)| ≤ 1 / 2 ^ 105 * |val a - c|)
    (hvD : D.Valid) (hwD : D.WF) (heD : |val D - (1 + c * val a)| ≤ 1 / 2 ^ 103 * |1 + c * val a|)
    (hgap : val a = c ∨ 1 / 2 ^ 950 ≤ |val a - c|)
    (ht : |(val a - c) / (1 + c * val a)| ≤ 2 / 5)
    (hvC : Cc.Valid) (hwC : Cc.WF) (hC : |rval Cc - Real.arctan (c : ℝ)| ≤ 1 / 2 ^ 100) (hCb : |val Cc| ≤ 2) :
    (arithmetic.impl_Add_rTwoFloat_for_rTwoFloat.add Cc
      (trigonometry.restricted_atan (arithmetic.impl_Div_rTwoFloat_for_rTwoFloat.div N D))).Valid ∧
    |rval (arithmetic.impl_Add_rTwoFloat_for_rTwoFloat.add Cc
      (trigonometry.restricted_atan (arithmetic.impl_Div_rTwoFloat_for_rTwoFloat.div N D)))
      - Real.arctan (rval a)| ≤ 1 / 2 ^ 73 := by
  have hp : 0 < 1 + c * val a := by positivity
  -- the denominator
  have hDlo : 1 / 2 ≤ val D ∧ val D ≤ 10 := by
    rw [abs_of_pos hp] at heD
    obtain ⟨l, u⟩ := abs_le.1 heD
    have h1 : 1 + c * val a ≤ 9 := by nlinarith
    have h2 : 1 ≤ 1 + c * val a := by nlinarith
    have h3 : 1 / 2 ^ 103 * (1 + c * val a) ≤ 1 / 2 ^ 103 * 9 := mul_le_mul_of_nonneg_left h1 (by positivity)
    have : (1 : ℚ) / 2 ^ 103 * 9 ≤ 1 / 2 := by norm_num
    constructor <;> linarith
  have hDabs : |val D| = val D := abs_of_pos (by linarith [hDlo.1])
  have hrD := hi_range_gen hvD (k := 1) (j := 4) (by norm_num) (by rw [hDabs]; linarith [hDlo.1])
    (by rw [hDabs]; exact le_trans hDlo.2 (by norm_num))
  -- the quotient
  have hquot : (arithmetic.impl_Div_rTwoFloat_for_rTwoFloat.div N D).Valid ∧
      (arithmetic.impl_Div_rTwoFloat_for_rTwoFloat.div N D).WF ∧
      |val N - val (arithmetic.impl_Div_rTwoFloat_for_rTwoFloat.div N D) * val D| ≤ 1 / 2 ^ 102 * |val N| := by
    rcases hgap with h0 | hg
    · have hN0 : val N = 0 := by
        rw [h0, sub_self, abs_zero, mul_zero, sub_zero] at heN
        exact abs_eq_zero.1 (le_antisymm heN (abs_nonneg _))
      have hNV : N.V = 0 := by
        unfold val at hN0
        have : (N.V : ℚ) = 0 := by
          rcases div_eq_zero_iff.1 hN0 with h | h
          · exact h
          · exact absurd h (by positivity)
        exact_mod_cast this
      have hD0 : D.hi.toInt ≠ 0 := by
        intro h
        have := hrD.1
        rw [h] at this
        simp at this
      obtain ⟨_, _, hqV, hqv, hqw⟩ := C05x.div_tt_zero N D hvN hNV hvD.1 hvD.2.1 hD0
      refine ⟨hqv, hqw, ?_⟩
      have hq0 : val (arithmetic.impl_Div_rTwoFloat_for_rTwoFloat.div N D) = 0 := by
        unfold val
        have : (arithmetic.impl_Div_rTwoFloat_for_rTwoFloat.div N D).V = 0 := hqV
        rw [this]; simp
      rw [hq0, hN0]; simp
    · have hN1 : 1 / 2 ^ 951 ≤ |val N| ∧ |val N| ≤ 2 ^ 3 := by
        have := abs_add_le (val N - (val a - c)) (val a - c)
        rw [sub_add_cancel] at this
        have h2 := abs_sub_abs_le_abs_sub (val a - c) (val N)
        rw [abs_sub_comm (val a - c) (val N)] at h2
        have h3 : |val a - c| ≤ 4 := by
          rw [abs_le]; constructor <;> linarith
        have h4 : 1 / 2 ^ 105 * |val a - c| ≤ 1 / 2 * |val a - c| :=
          mul_le_mul_of_nonneg_right (by norm_num) (abs_nonneg _)
        constructor
        · have e : (1 : ℚ) / 2 ^ 951 = 1 / 2 * (1 / 2 ^ 950) := by norm_num
          rw [e]; linarith
        · norm_num; linarith
      have hrN := hi_range_gen hvN (k := 951) (j := 3) (by norm_num) hN1.1 hN1.2
      exact div_tt_val_wide hvN hwN hvD hwD
        ⟨le_trans (Nat.pow_le_pow_right (by norm_num) (by norm_num)) hrN.1,
         le_trans hrN.2 (Nat.pow_le_pow_right (by norm_num) (by norm_num))⟩
        ⟨le_trans (Nat.pow_le_pow_right (by norm_num) (by norm_num)) hrD.1,
         le_trans hrD.2 (Nat.pow_le_pow_right (by norm_num) (by norm_num))⟩
  obtain ⟨hvq, hwq, heq⟩ := hquot
  set q := arithmetic.impl_Div_rTwoFloat_for_rTwoFloat.div N D with hqdef
  have hqt := mid_arith ha0 hc0 heN heD heq
  set t := (val a - c) / (1 + c * val a) with htdef
  have hqt' : |val q - t| ≤ 1 / 2 ^ 100 := by
    refine le_trans hqt ?_
    have := mul_le_mul_of_nonneg_left ht (by positivity : (0 : ℚ) ≤ 1 / 2 ^ 100)
    refine le_trans this ?_
    norm_num
  have hqb : |val q| ≤ 41 / 100 := by
    have := abs_add_le (val q - t) t
    rw [sub_add_cancel] at this
    have : (1 : ℚ) / 2 ^ 100 ≤ 1 / 100 := by norm_num
    linarith
  obtain ⟨hvr, hwr, her⟩ := restricted_atan_rel hvq hwq (le_trans hqb (by unfold atanRho; norm_num))
  set ra := trigonometry.restricted_atan q with hradef
  have hqbR : |rval q| ≤ 41 / 100 := by have := rval_le hqb; push_cast at this; exact this
  have her' : |rval ra - Real.arctan (rval q)| ≤ 41 / 100 * (1 / 2 ^ 72 + 1 / 2 ^ 83) :=
    le_trans her (mul_le_mul_of_nonneg_right hqbR (by positivity))
  have hatq : |Real.arctan (rval q)| ≤ 1 / 2 := by
    have := arctan_lipschitz (rval q) 0
    rw [Real.arctan_zero, sub_zero, sub_zero] at this
    linarith
  have hrab : |val ra| ≤ 1 := by
    refine rval_abs_le ?_
    push_cast
    have := abs_add_le (rval ra - Real.arctan (rval q)) (Real.arctan (rval q))
    rw [sub_add_cancel] at this
    have : (41 : ℝ) / 100 * (1 / 2 ^ 72 + 1 / 2 ^ 83) ≤ 1 / 2 := by norm_num
    linarith
  obtain ⟨hvs, _, hes⟩ := add_tt_val hvC hwC hvr hwr (le_trans hCb (by norm_num)) (le_trans hrab (by norm_num))
  refine ⟨hvs, ?_⟩
  have hes' : |val (arithmetic.impl_Add_rTwoFloat_for_rTwoFloat.add Cc ra) - (val Cc + val ra)| ≤ 3 / 2 ^ 104 := by
    refine le_trans hes ?_
    have h3 : |val Cc + val ra| ≤ 3 := le_trans (abs_add_le _ _) (by linarith)
    have := mul_le_mul cA_le h3 (abs_nonneg _) (by positivity)
    refine le_trans this ?_
    norm_num
  have t1 : |rval (arithmetic.impl_Add_rTwoFloat_for_rTwoFloat.add Cc ra) - (rval Cc + rval ra)| ≤ 3 / 2 ^ 104 := by
    have := cast_abs_sub_le hes'
    unfold rval
    push_cast at this ⊢
    exact this
  have t4 : |Real.arctan (rval q) - Real.arctan ((t : ℚ) : ℝ)| ≤ 1 / 2 ^ 100 := by
    refine le_trans (arctan_lipschitz _ _) ?_
    have := cast_abs_sub_le hqt'
    unfold rval
    push_cast at this ⊢
    exact this
  have hid := arctan_sub_const (x := rval a) (c := (c : ℝ))
    (by unfold rval; exact_mod_cast ha0) (by exact_mod_cast hc0)
  have etr : ((t : ℚ) : ℝ) = (rval a - (c : ℝ)) / (1 + (c : ℝ) * rval a) := by
    rw [htdef]; unfold rval; push_cast; rfl
  rw [hid, ← etr]
  have e : rval (arithmetic.impl_Add_rTwoFloat_for_rTwoFloat.add Cc ra)
        - (Real.arctan (c : ℝ) + Real.arctan ((t : ℚ) : ℝ))
      = (rval (arithmetic.impl_Add_rTwoFloat_for_rTwoFloat.add Cc ra) - (rval Cc + rval ra))
        + (rval Cc - Real.arctan (c : ℝ)) + (rval ra - Real.arctan (rval q))
        + (Real.arctan (rval q) - Real.arctan ((t : ℚ) : ℝ)) := by ring
  rw [e]
  have b1 := abs_le.1 t1
  have b2 := abs_le.1 hC
  have b3 := abs_le.1 her'
  have b4 := abs_le.1 t4
  have num : (3 : ℝ) / 2 ^ 104 + 1 / 2 ^ 100 + 41 / 100 * (1 / 2 ^ 72 + 1 / 2 ^ 83) + 1 / 2 ^ 100 ≤ 1 / 2 ^ 73 := by
    norm_num
  rw [abs_le]
  constructor <;> linarith [b1.1, b1.2, b2.1, b2.2, b3.1, b3.2, b4.1, b4.2]

/-- **the last interval of `atan`**: `FRAC_PI_2 − restricted_atan (recip a)` for `39/16 − 2^-99 ≤ a ≤ 2^62` -/
theorem atan_big {a : TwoFloat} (hva : a.Valid) (_hwa : a.WF) (ha1 : 39 / 16 - 1 / 2 ^ 99 ≤ val a)
    (ha2 : val a ≤ 2 ^ 62) :
    (arithmetic.impl_Sub_rTwoFloat_for_rTwoFloat.sub consts.FRAC_PI_2
      (trigonometry.restricted_atan (TwoFloat.recip a))).Valid ∧
    (arithmetic.impl_Sub_rTwoFloat_for_rTwoFloat.sub consts.FRAC_PI_2
      (trigonometry.restricted_atan (TwoFloat.recip a))).WF ∧
    |rval (arithmetic.impl_Sub_rTwoFloat_for_rTwoFloat.sub consts.FRAC_PI_2
      (trigonometry.restricted_atan (TwoFloat.recip a))) - Real.arctan (rval a)| ≤ 1 / 2 ^ 73 := by
  have ha243 : 243 / 100 ≤ val a := le_trans (by norm_num) ha1
  have hapos : 0 < val a := by linarith
  have haabs : |val a| = val a := abs_of_pos hapos
  have hr := hi_range_gen hva (k := 0) (j := 62) (by norm_num) (by rw [haabs]; linarith) (by rw [haabs]; exact ha2)
  obtain ⟨hvc, hwc, hec⟩ := recip_val hva
    ⟨le_trans (Nat.pow_le_pow_right (by norm_num) (by norm_num)) hr.1,
     le_trans hr.2 (Nat.pow_le_pow_right (by norm_num) (by norm_num))⟩
  set rc := TwoFloat.recip a with hrc
  -- |rc − 1/a| ≤ 2^-103
  have hrc1 : |val rc - (val a)⁻¹| ≤ 1 / 2 ^ 103 := by
    have e : val rc - (val a)⁻¹ = -(1 - val rc * val a) * (val a)⁻¹ := by field_simp; ring
    rw [e, abs_mul, abs_neg, abs_of_pos (inv_pos.2 hapos)]
    have hinv : (val a)⁻¹ ≤ 1 / 2 := by
      rw [inv_le_comm₀ hapos (by norm_num)]; norm_num; linarith
    have := mul_le_mul hec hinv (inv_pos.2 hapos).le (by positivity)
    refine le_trans this ?_
    norm_num
  have hinv2 : (val a)⁻¹ ≤ 412 / 1000 := by
    rw [inv_le_comm₀ hapos (by norm_num)]
    refine le_trans ?_ ha243
    norm_num
  have hrcb : |val rc| ≤ 413 / 1000 := by
    have := abs_add_le (val rc - (val a)⁻¹) (val a)⁻¹
    rw [sub_add_cancel, abs_of_pos (inv_pos.2 hapos)] at this
    have : (1 : ℚ) / 2 ^ 103 ≤ 1 / 1000 := by norm_num
    linarith
  obtain ⟨hvr, hwr, her⟩ := restricted_atan_rel hvc hwc (le_trans hrcb (by unfold atanRho; norm_num))
  set ra := trigonometry.restricted_atan rc with hradef
  have hrcR : |rval rc| ≤ 413 / 1000 := by have := rval_le hrcb; push_cast at this; exact this
  have her' : |rval ra - Real.arctan (rval rc)| ≤ 413 / 1000 * (1 / 2 ^ 72 + 1 / 2 ^ 83) :=
    le_trans her (mul_le_mul_of_nonneg_right hrcR (by positivity))
  have hatq : |Real.arctan (rval rc)| ≤ 1 / 2 := by
    have := arctan_lipschitz (rval rc) 0
    rw [Real.arctan_zero, sub_zero, sub_zero] at this
    linarith
  have hrab : |val ra| ≤ 1 := by
    refine rval_abs_le ?_
    push_cast
    have := abs_add_le (rval ra - Real.arctan (rval rc)) (Real.arctan (rval rc))
    rw [sub_add_cancel] at this
    have : (413 : ℝ) / 1000 * (1 / 2 ^ 72 + 1 / 2 ^ 83) ≤ 1 / 2 := by norm_num
    linarith
  obtain ⟨hvP, hwP, hP1, hP2, _⟩ := P_facts
  have hPb : |val consts.FRAC_PI_2| ≤ 2 := by
    rw [abs_of_pos (by linarith)]; linarith
  obtain ⟨hvs, hws, hes⟩ := sub_tt_val hvP hwP hvr hwr (le_trans hPb (by norm_num)) (le_trans hrab (by norm_num))
  refine ⟨hvs, hws, ?_⟩
  have hes' : |val (arithmetic.impl_Sub_rTwoFloat_for_rTwoFloat.sub consts.FRAC_PI_2 ra)
      - (val consts.FRAC_PI_2 - val ra)| ≤ 3 / 2 ^ 104 := by
    refine le_trans hes ?_
    have h3 : |val consts.FRAC_PI_2 - val ra| ≤ 3 := le_trans (abs_sub _ _) (by linarith)
    have := mul_le_mul cA_le h3 (abs_nonneg _) (by positivity)
    refine le_trans this ?_
    norm_num
  have t1 : |rval (arithmetic.impl_Sub_rTwoFloat_for_rTwoFloat.sub consts.FRAC_PI_2 ra)
      - (rval consts.FRAC_PI_2 - rval ra)| ≤ 3 / 2 ^ 104 := by
    have := cast_abs_sub_le hes'
    unfold rval
    push_cast at this ⊢
    exact this
  have t4 : |Real.arctan (rval rc) - Real.arctan (rval a)⁻¹| ≤ 1 / 2 ^ 103 := by
    refine le_trans (arctan_lipschitz _ _) ?_
    have := cast_abs_sub_le hrc1
    unfold rval
    push_cast at this ⊢
    exact this
  have hapR : 0 < rval a := by unfold rval; exact_mod_cast hapos
  have hid : Real.arctan (rval a) = Real.pi / 2 - Real.arctan (rval a)⁻¹ := by
    rw [Real.arctan_inv_of_pos hapR]; ring
  rw [hid]
  have e : rval (arithmetic.impl_Sub_rTwoFloat_for_rTwoFloat.sub consts.FRAC_PI_2 ra)
        - (Real.pi / 2 - Real.arctan (rval a)⁻¹)
      = (rval (arithmetic.impl_Sub_rTwoFloat_for_rTwoFloat.sub consts.FRAC_PI_2 ra)
          - (rval consts.FRAC_PI_2 - rval ra))
        + (rval consts.FRAC_PI_2 - Real.pi / 2) - (rval ra - Real.arctan (rval rc))
        - (Real.arctan (rval rc) - Real.arctan (rval a)⁻¹) := by ring
  rw [e]
  have b1 := abs_le.1 t1
  have b2 := abs_le.1 P_real_err
  have b3 := abs_le.1 her'
  have b4 := abs_le.1 t4
  have num : (3 : ℝ) / 2 ^ 104 + 1 / 2 ^ 106 + 413 / 1000 * (1 / 2 ^ 72 + 1 / 2 ^ 83) + 1 / 2 ^ 103 ≤ 1 / 2 ^ 73 := by
    norm_num
  rw [abs_le]
  constructor <;> linarith [b1.1, b1.2, b2.1, b2.2, b3.1, b3.2, b4.1, b4.2]

/-! ### the tabulated constants -/

theorem C1_check : trigonometry.ATAN_FRAC_1_2.Valid ∧ trigonometry.ATAN_FRAC_1_2.WF ∧
    |val trigonometry.ATAN_FRAC_1_2| ≤ 2 ∧
    |val trigonometry.ATAN_FRAC_1_2 - pevalQ (podd (atanT 60)) (1 / 2)| ≤ 1 / 2 ^ 107 := by decide +kernel

theorem C3_check : trigonometry.ATAN_FRAC_3_2.Valid ∧ trigonometry.ATAN_FRAC_3_2.WF ∧
    |val trigonometry.ATAN_FRAC_3_2| ≤ 2 ∧
    |val trigonometry.ATAN_FRAC_3_2 - (val consts.FRAC_PI_4 + pevalQ (podd (atanT 30)) (1 / 5))| ≤ 1 / 2 ^ 106 := by
  decide +kernel

theorem C2_check : consts.FRAC_PI_4.Valid ∧ consts.FRAC_PI_4.WF ∧ |val consts.FRAC_PI_4| ≤ 2 := by decide +kernel

theorem P4_real_err : |rval consts.FRAC_PI_4 - Real.pi / 4| ≤ 1 / 2 ^ 107 := by
  have h := C12x.FRAC_PI_4_rel_err
  have e : rval consts.FRAC_PI_4 = (consts.FRAC_PI_4.V : ℝ) / 2 ^ 1074 := by unfold rval val; push_cast; rfl
  rw [e, abs_sub_comm]
  refine le_trans h ?_
  rw [abs_of_pos (by positivity : (0 : ℝ) < Real.pi / 4)]
  have := Real.pi_le_four
  rw [div_le_div_iff₀ (by positivity) (by positivity)]
  nlinarith [show (0 : ℝ) < 2 ^ 107 by positivity]

/-- **`ATAN_FRAC_1_2` is `arctan (1/2)` to `2^-106`** -/
theorem C1_real : |rval trigonometry.ATAN_FRAC_1_2 - Real.arctan (((1 / 2 : ℚ)) : ℝ)| ≤ 1 / 2 ^ 100 := by
  have h1 := cast_abs_sub_le C1_check.2.2.2
  have h2 := arctan_half_encl
  have e : (((1 / 2 : ℚ)) : ℝ) = 1 / 2 := by push_cast; rfl
  rw [e]
  have e2 : rval trigonometry.ATAN_FRAC_1_2 - Real.arctan (1 / 2)
      = (rval trigonometry.ATAN_FRAC_1_2 - ((pevalQ (podd (atanT 60)) (1 / 2) : ℚ) : ℝ))
        - (Real.arctan (1 / 2) - ((pevalQ (podd (atanT 60)) (1 / 2) : ℚ) : ℝ)) := by ring
  rw [e2]
  refine le_trans (abs_sub _ _) ?_
  have : (((1 / 2 ^ 107 : ℚ)) : ℝ) = 1 / 2 ^ 107 := by push_cast; rfl
  rw [this] at h1
  have : (1 : ℝ) / 2 ^ 107 + 1 / 2 ^ 120 ≤ 1 / 2 ^ 100 := by norm_num
  unfold rval
  linarith

theorem C2_real : |rval consts.FRAC_PI_4 - Real.arctan (((1 : ℚ)) : ℝ)| ≤ 1 / 2 ^ 100 := by
  rw [Rat.cast_one, Real.arctan_one]
  exact le_trans P4_real_err (by norm_num)

/-- **`ATAN_FRAC_3_2` is `arctan (3/2)` to `2^-105`** -/
theorem C3_real : |rval trigonometry.ATAN_FRAC_3_2 - Real.arctan (((3 / 2 : ℚ)) : ℝ)| ≤ 1 / 2 ^ 100 := by
  have h1 := cast_abs_sub_le C3_check.2.2.2
  have h2 := arctan_fifth_encl
  have h3 := P4_real_err
  have e : (((3 / 2 : ℚ)) : ℝ) = 3 / 2 := by push_cast; rfl
  rw [e, arctan_three_halves]
  have e2 : rval trigonometry.ATAN_FRAC_3_2 - (Real.pi / 4 + Real.arctan (1 / 5))
      = (rval trigonometry.ATAN_FRAC_3_2
          - (rval consts.FRAC_PI_4 + ((pevalQ (podd (atanT 30)) (1 / 5) : ℚ) : ℝ)))
        + (rval consts.FRAC_PI_4 - Real.pi / 4)
        - (Real.arctan (1 / 5) - ((pevalQ (podd (atanT 30)) (1 / 5) : ℚ) : ℝ)) := by ring
  rw [e2]
  have h1' : |rval trigonometry.ATAN_FRAC_3_2
      - (rval consts.FRAC_PI_4 + ((pevalQ (podd (atanT 30)) (1 / 5) : ℚ) : ℝ))| ≤ 1 / 2 ^ 106 := by
    unfold rval
    push_cast at h1 ⊢
    exact h1
  have b1 := abs_le.1 h1'
  have b2 := abs_le.1 h2
  have b3 := abs_le.1 h3
  have : (1 : ℝ) / 2 ^ 106 + 1 / 2 ^ 107 + 1 / 2 ^ 130 ≤ 1 / 2 ^ 100 := by norm_num
  rw [abs_le]
  constructor <;> linarith [b1.1, b1.2, b2.1, b2.2, b3.1, b3.2]

/-- the denominator `1.0 + f * a` for a literal `f` of value `c ∈ [1/2, 2]` -/
theorem den_val {a : TwoFloat} {f : F64} {c : ℚ} (hva : a.Valid) (hwa : a.WF) (ha1 : 1 / 4 ≤ val a)
    (ha4 : val a ≤ 4) (hff : f.is_finite = true) (hwf : f.WF) (hfc : fval f = c) (hc0 : 0 ≤ c) (hc2 : c ≤ 2)
    (hft : (2 : Int) ^ 1073 ≤ f.toInt ∧ f.toInt ≤ 2 ^ 1075) :
    (arithmetic.impl_Add_rTwoFloat_for_rf64.add (f64lit 0x3ff0000000000000)
      (arithmetic.impl_Mul_rTwoFloat_for_rf64.mul f a)).Valid ∧
    (arithmetic.impl_Add_rTwoFloat_for_rf64.add (f64lit 0x3ff0000000000000)
      (arithmetic.impl_Mul_rTwoFloat_for_rf64.mul f a)).WF ∧
    |val (arithmetic.impl_Add_rTwoFloat_for_rf64.add (f64lit 0x3ff0000000000000)
      (arithmetic.impl_Mul_rTwoFloat_for_rf64.mul f a)) - (1 + c * val a)| ≤ 1 / 2 ^ 103 * |1 + c * val a| := by
  have hapos : 0 < val a := by linarith
  have haabs : |val a| = val a := abs_of_pos hapos
  have hr := hi_range_gen hva (k := 2) (j := 2) (by norm_num) (by rw [haabs]; norm_num; linarith)
    (by rw [haabs]; norm_num; linarith)
  have hfpos : (0 : Int) < f.toInt := lt_of_lt_of_le (by positivity) hft.1
  have hrng : a.hi.toInt * f.toInt = 0 ∨
      ((2 : Int) ^ 1188 ≤ |a.hi.toInt * f.toInt| ∧ |a.hi.toInt * f.toInt| < (2 : Int) ^ 3169) := by
    right
    rw [abs_mul, abs_of_pos hfpos]
    have p1 : (2 : Int) ^ (1073 - 2) ≤ |a.hi.toInt| := by rw [Int.abs_eq_natAbs]; exact_mod_cast hr.1
    have p2 : |a.hi.toInt| ≤ (2 : Int) ^ (1075 + 2) := by rw [Int.abs_eq_natAbs]; exact_mod_cast hr.2
    constructor
    · have e : (2 : Int) ^ 1188 ≤ 2 ^ (1073 - 2) * 2 ^ 1073 := by
        rw [← pow_add]; exact pow_le_pow_right₀ (by norm_num) (by norm_num)
      exact le_trans e (mul_le_mul p1 hft.1 (by positivity) (abs_nonneg _))
    · have e : (2 : Int) ^ (1075 + 2) * 2 ^ 1075 < 2 ^ 3169 := by
        rw [← pow_add]; exact pow_lt_pow_right₀ (by norm_num) (by norm_num)
      exact lt_of_le_of_lt (mul_le_mul p2 hft.2 hfpos.le (by positivity)) e
  obtain ⟨hvM, hwM, heM⟩ := mul_ft_val hva hwa hff hwf hrng
  rw [hfc] at heM
  set M := arithmetic.impl_Mul_rTwoFloat_for_rf64.mul f a with hM
  have hca : 0 ≤ c * val a := by positivity
  have hca8 : c * val a ≤ 8 := by nlinarith
  rw [abs_of_nonneg hca] at heM
  have hMb : |val M| ≤ 9 := by
    have := abs_add_le (val M - c * val a) (c * val a)
    rw [sub_add_cancel, abs_of_nonneg hca] at this
    have : 1 / 2 ^ 105 * (c * val a) ≤ 1 / 2 ^ 105 * 8 := mul_le_mul_of_nonneg_left hca8 (by positivity)
    have : (1 : ℚ) / 2 ^ 105 * 8 ≤ 1 := by norm_num
    linarith
  obtain ⟨hvD, hwD, heD⟩ := add_ft_val hvM hwM lit_one_facts.1 lit_one_facts.2.1 (le_trans hMb (by norm_num))
    one_natAbs
  rw [fval_one] at heD
  refine ⟨hvD, hwD, ?_⟩
  have hp : 0 < 1 + c * val a := by positivity
  rw [abs_of_pos hp]
  obtain ⟨lM, uM⟩ := abs_le.1 heM
  have h1M : |1 + val M| ≤ (1 + c * val a) * (1 + 1 / 2 ^ 105) := by
    rw [abs_le]
    have : 1 / 2 ^ 105 * (c * val a) ≤ (1 + c * val a) * (1 / 2 ^ 105) := by nlinarith
    constructor <;> nlinarith
  have e : val (arithmetic.impl_Add_rTwoFloat_for_rf64.add (f64lit 0x3ff0000000000000) M) - (1 + c * val a)
      = (val (arithmetic.impl_Add_rTwoFloat_for_rf64.add (f64lit 0x3ff0000000000000) M) - (1 + val M))
        + (val M - c * val a) := by ring
  rw [e]
  refine le_trans (abs_add_le _ _) ?_
  have h2 : 1 / 2 ^ 105 * |1 + val M| ≤ 1 / 2 ^ 105 * ((1 + c * val a) * (1 + 1 / 2 ^ 105)) :=
    mul_le_mul_of_nonneg_left h1M (by positivity)
  have h3 : 1 / 2 ^ 105 * (c * val a) ≤ 1 / 2 ^ 105 * (1 + c * val a) :=
    mul_le_mul_of_nonneg_left (by linarith) (by positivity)
  have h4 : 1 / 2 ^ 105 * ((1 + c * val a) * (1 + 1 / 2 ^ 105)) + 1 / 2 ^ 105 * (1 + c * val a)
      ≤ 1 / 2 ^ 103 * (1 + c * val a) := by
    have : (1 : ℚ) / 2 ^ 105 * (1 + 1 / 2 ^ 105) + 1 / 2 ^ 105 ≤ 1 / 2 ^ 103 := by norm_num
    nlinarith
  linarith

/-- the sign handling of `atan` -/
theorem sign_wrap {x res : TwoFloat} (hv : x.Valid) (hw : x.WF) (hV0 : x.V ≠ 0) (hvR : res.Valid) (hwR : res.WF)
    {ε : ℝ} (heR : |rval res - Real.arctan (|rval x|)| ≤ ε) :
    (if TwoFloat.is_sign_positive x then res else arithmetic.impl_Neg_for_TwoFloat.neg res).Valid ∧
    |rval (if TwoFloat.is_sign_positive x then res else arithmetic.impl_Neg_for_TwoFloat.neg res)
      - Real.arctan (rval x)| ≤ ε := by
  have hiv : TwoFloat.is_valid x = true := (C07.is_valid_iff x hw).2 hv
  cases hs : TwoFloat.is_sign_positive x
  · have hneg : ¬ (0 < x.V) := fun h => by
      have := (C06.is_sign_positive_exact hiv hv hV0).2 h
      rw [hs] at this; exact Bool.false_ne_true this
    have hrn : rval x < 0 := by
      have h3 : ¬ (0 < rval x) := fun h => hneg ((rval_pos_iff x).1 h)
      have h4 : rval x ≠ 0 := by
        intro h0
        unfold rval at h0
        have h5 : val x = 0 := by exact_mod_cast h0
        unfold val at h5
        rcases div_eq_zero_iff.1 h5 with h | h
        · exact hV0 (by exact_mod_cast h)
        · exact absurd h (by positivity)
      exact lt_of_le_of_ne (not_lt.1 h3) h4
    simp only [Bool.false_eq_true, if_false]
    refine ⟨neg_valid hvR hwR, ?_⟩
    rw [rval_neg]
    rw [abs_of_neg hrn, Real.arctan_neg] at heR
    rw [← abs_neg]
    refine le_trans (le_of_eq ?_) heR
    congr 1; ring
  · have hpos := (C06.is_sign_positive_exact hiv hv hV0).1 hs
    have hrp := (rval_pos_iff x).2 hpos
    simp only [if_true]
    rw [abs_of_pos hrp] at heR
    exact ⟨hvR, heR⟩

/-- `atan` of a valid argument, unfolded -/
theorem atan_eq (x : TwoFloat) (hiv : TwoFloat.is_valid x = true) (hfin : F64.is_infinite x.hi = false) :
    TwoFloat.atan x =
      if ROrd.isLe (base.impl_PartialOrd_f64_for_TwoFloat.partial_cmp
          (arithmetic.impl_Add_rf64_for_rTwoFloat.add
            (arithmetic.impl_Mul_rTwoFloat_for_rf64.mul (f64lit 0x4010000000000000) (TwoFloat.abs x))
            (f64lit 0x3fd0000000000000)) (f64lit 0x4000000000000000)) then
        trigonometry.restricted_atan x
      else
        (fun result : TwoFloat =>
          if TwoFloat.is_sign_positive x then result else arithmetic.impl_Neg_for_TwoFloat.neg result)
        (if ROrd.isLt (base.impl_PartialOrd_f64_for_TwoFloat.partial_cmp
            (arithmetic.impl_Add_rf64_for_rTwoFloat.add
              (arithmetic.impl_Mul_rTwoFloat_for_rf64.mul (f64lit 0x4010000000000000) (TwoFloat.abs x))
              (f64lit 0x3fd0000000000000)) (f64lit 0x4008000000000000)) then
          arithmetic.impl_Add_rTwoFloat_for_rTwoFloat.add trigonometry.ATAN_FRAC_1_2
            (trigonometry.restricted_atan (arithmetic.impl_Div_rTwoFloat_for_rTwoFloat.div
              (arithmetic.impl_Sub_rf64_for_rTwoFloat.sub (TwoFloat.abs x) (f64lit 0x3fe0000000000000))
              (arithmetic.impl_Add_rTwoFloat_for_rf64.add (f64lit 0x3ff0000000000000)
                (arithmetic.impl_Mul_rTwoFloat_for_rf64.mul (f64lit 0x3fe0000000000000) (TwoFloat.abs x)))))
        else if ROrd.isLt (base.impl_PartialOrd_f64_for_TwoFloat.partial_cmp
            (arithmetic.impl_Add_rf64_for_rTwoFloat.add
              (arithmetic.impl_Mul_rTwoFloat_for_rf64.mul (f64lit 0x4010000000000000) (TwoFloat.abs x))
              (f64lit 0x3fd0000000000000)) (f64lit 0x4014000000000000)) then
          arithmetic.impl_Add_rTwoFloat_for_rTwoFloat.add consts.FRAC_PI_4
            (trigonometry.restricted_atan (arithmetic.impl_Div_rTwoFloat_for_rTwoFloat.div
              (arithmetic.impl_Sub_rf64_for_rTwoFloat.sub (TwoFloat.abs x) (f64lit 0x3ff0000000000000))
              (arithmetic.impl_Add_rTwoFloat_for_rf64.add (f64lit 0x3ff0000000000000) (TwoFloat.abs x))))
        else if ROrd.isLt (base.impl_PartialOrd_f64_for_TwoFloat.partial_cmp
            (arithmetic.impl_Add_rf64_for_rTwoFloat.add
              (arithmetic.impl_Mul_rTwoFloat_for_rf64.mul (f64lit 0x4010000000000000) (TwoFloat.abs x))
              (f64lit 0x3fd0000000000000)) (f64lit 0x4024000000000000)) then
          arithmetic.impl_Add_rTwoFloat_for_rTwoFloat.add trigonometry.ATAN_FRAC_3_2
            (trigonometry.restricted_atan (arithmetic.impl_Div_rTwoFloat_for_rTwoFloat.div
              (arithmetic.impl_Sub_rf64_for_rTwoFloat.sub (TwoFloat.abs x) (f64lit 0x3ff8000000000000))
              (arithmetic.impl_Add_rTwoFloat_for_rf64.add (f64lit 0x3ff0000000000000)
                (arithmetic.impl_Mul_rTwoFloat_for_rf64.mul (f64lit 0x3ff8000000000000) (TwoFloat.abs x)))))
        else
          arithmetic.impl_Sub_rTwoFloat_for_rTwoFloat.sub consts.FRAC_PI_2
            (trigonometry.restricted_atan (TwoFloat.recip (TwoFloat.abs x)))) := by
  unfold TwoFloat.atan
  simp only [hiv, hfin, Bool.not_true, Bool.false_eq_true, if_false]
  rfl

theorem abs_arctan (y : ℝ) : |Real.arctan y| = Real.arctan |y| := by
  rcases le_total 0 y with h | h
  · rw [abs_of_nonneg h, abs_of_nonneg (Real.arctan_nonneg.2 h)]
  · rw [abs_of_nonpos h, Real.arctan_neg, abs_of_nonpos]
    have := Real.arctan_nonneg.2 (by linarith : 0 ≤ -y)
    rw [Real.arctan_neg] at this
    linarith

theorem arctan_ge_quarter {y : ℝ} (h : 43 / 100 ≤ y) : 1 / 4 ≤ Real.arctan y := by
  have h1 := abs_arctan_ge (r := 43 / 100) (by unfold atanRho; push_cast; rw [abs_of_pos] <;> norm_num)
  rw [abs_of_pos (by norm_num : (0 : ℝ) < 43 / 100),
    abs_of_nonneg (Real.arctan_nonneg.2 (by norm_num))] at h1
  have h2 := Real.arctan_le_arctan_iff.2 h
  norm_num at h1
  linarith

/-- **C17 (atan)**: for valid well-formed `x`, `|x| ≤ 2^62`, with `|x|` either equal to or at least `2^-950` away from
each of the three reduction centres `1/2, 1, 3/2`: the result is a valid pair within relative `2^-70` of `arctan x` -/
theorem atan_bound {x : TwoFloat} (hv : x.Valid) (hw : x.WF) (hx : |val x| ≤ 2 ^ 62)
    (hgap : ∀ c : ℚ, c = 1 / 2 ∨ c = 1 ∨ c = 3 / 2 → |val x| = c ∨ 1 / 2 ^ 950 ≤ |(|val x|) - c|) :
    (TwoFloat.atan x).Valid ∧
    |rval (TwoFloat.atan x) - Real.arctan (rval x)| ≤ 1 / 2 ^ 70 * |Real.arctan (rval x)| := by
  have hiv : TwoFloat.is_valid x = true := (C07.is_valid_iff x hw).2 hv
  have hfin : F64.is_infinite x.hi = false := by
    have := hv.1
    cases hh : x.hi with
    | nan => simp [hh, F64.is_finite] at this
    | inf s => simp [hh, F64.is_finite] at this
    | fin s n => rfl
  rw [atan_eq x hiv hfin]
  obtain ⟨hvk, hek⟩ := atan_k hv hw hx
  set k := arithmetic.impl_Add_rf64_for_rTwoFloat.add
    (arithmetic.impl_Mul_rTwoFloat_for_rf64.mul (f64lit 0x4010000000000000) (TwoFloat.abs x))
    (f64lit 0x3fd0000000000000) with hk
  obtain ⟨hva, hwa, hval⟩ := abs_facts hv hw
  set a := TwoFloat.abs x with hadef
  have hA0 : 0 ≤ |val x| := abs_nonneg _
  have hrva : rval a = |rval x| := by
    rw [abs_rval]; unfold rval; rw [hval]
  by_cases b0 : ROrd.isLe (base.impl_PartialOrd_f64_for_TwoFloat.partial_cmp k (f64lit 0x4000000000000000)) = true
  · simp only [b0, if_true]
    have hk2 := (cmp_le_lit hvk two_facts.2.1 two_facts.1).1 b0
    rw [fval_two] at hk2
    have hE := (thr hek (by norm_num : (2 : ℚ) ≤ 16)).1 hk2
    have hA : |val x| ≤ atanRho := by
      unfold atanRho
      have : (1 : ℚ) / 2 ^ 100 ≤ 4 * (1 / 2 ^ 20) := by norm_num
      linarith
    obtain ⟨hvr, _, her⟩ := restricted_atan_rel hv hw hA
    refine ⟨hvr, le_trans her ?_⟩
    have hge := abs_arctan_ge (rval_le hA)
    have h1 : |rval x| * (1 / 2 ^ 72 + 1 / 2 ^ 83) ≤ 1 / 2 ^ 70 * (9 / 10 * |rval x|) := by
      have : (1 : ℝ) / 2 ^ 72 + 1 / 2 ^ 83 ≤ 1 / 2 ^ 70 * (9 / 10) := by norm_num
      have := mul_le_mul_of_nonneg_left this (abs_nonneg (rval x))
      linarith
    have h2 := mul_le_mul_of_nonneg_left hge (by positivity : (0 : ℝ) ≤ 1 / 2 ^ 70)
    linarith
  · have b0' : ROrd.isLe (base.impl_PartialOrd_f64_for_TwoFloat.partial_cmp k (f64lit 0x4000000000000000)) = false := by
      simpa using b0
    simp only [b0', Bool.false_eq_true, if_false]
    have hk2 : (2 : ℚ) ≤ val k := by
      have := mt (cmp_le_lit hvk two_facts.2.1 two_facts.1).2 b0
      rw [fval_two] at this
      exact (not_le.1 this).le
    have hE0 := (thr hek (by norm_num : (2 : ℚ) ≤ 16)).2 hk2
    have hAlo : 43 / 100 ≤ |val x| := by
      have : (1 : ℚ) / 2 ^ 100 ≤ 1 / 100 := by norm_num
      linarith
    have hV0 : x.V ≠ 0 := by
      intro h0
      have : val x = 0 := by unfold val; rw [h0]; simp
      rw [this, abs_zero] at hAlo
      norm_num at hAlo
    have hAloR : (43 : ℝ) / 100 ≤ |rval x| := by
      rw [abs_rval]
      have := cast_le_real hAlo
      push_cast at this
      rw [← Rat.cast_abs] at this
      exact this
    -- every branch ends the same way
    have fin : ∀ res : TwoFloat, res.Valid → res.WF → |rval res - Real.arctan (|rval x|)| ≤ 1 / 2 ^ 73 →
        (if TwoFloat.is_sign_positive x then res else arithmetic.impl_Neg_for_TwoFloat.neg res).Valid ∧
        |rval (if TwoFloat.is_sign_positive x then res else arithmetic.impl_Neg_for_TwoFloat.neg res)
          - Real.arctan (rval x)| ≤ 1 / 2 ^ 70 * |Real.arctan (rval x)| := by
      intro res h1 h2 h3
      obtain ⟨g1, g2⟩ := sign_wrap hv hw hV0 h1 h2 h3
      refine ⟨g1, le_trans g2 ?_⟩
      rw [abs_arctan]
      have := arctan_ge_quarter hAloR
      have := mul_le_mul_of_nonneg_left this (by positivity : (0 : ℝ) ≤ 1 / 2 ^ 70)
      refine le_trans ?_ this
      norm_num
    by_cases b1 : ROrd.isLt (base.impl_PartialOrd_f64_for_TwoFloat.partial_cmp k (f64lit 0x4008000000000000)) = true
    · simp only [b1, if_true]
      have hk3 := (cmp_lt_lit hvk three_lit.2.1 three_lit.1).1 b1
      rw [fval_three] at hk3
      have hE3 := (thr hek (by norm_num : (3 : ℚ) ≤ 16)).1 hk3.le
      have hAhi : |val x| ≤ 7 / 10 := by
        have : (1 : ℚ) / 2 ^ 100 ≤ 1 / 100 := by norm_num
        linarith
      have ha0 : 0 ≤ val a := by rw [hval]; exact hA0
      have ha4 : val a ≤ 4 := by rw [hval]; linarith
      obtain ⟨hvN, hwN, heN⟩ := sub_tf_val hva hwa half_facts.1 half_facts.2.1
        (by rw [hval, _root_.abs_abs]; linarith) half_natAbs
      rw [fval_half] at heN
      obtain ⟨hvD, hwD, heD⟩ := den_val hva hwa (by rw [hval]; linarith) ha4 half_facts.1 half_facts.2.1
        fval_half (by norm_num) (by norm_num) (by rw [half_facts.2.2]; constructor <;> norm_num)
      have hres := atan_mid (c := 1 / 2) (by norm_num) (by norm_num) ha0 ha4 hvN hwN heN hvD hwD heD
        (by rw [hval]; exact hgap (1 / 2) (Or.inl rfl))
        (by
          rw [hval, abs_div, abs_of_pos (by positivity : (0 : ℚ) < 1 + 1 / 2 * |val x|),
            div_le_iff₀ (by positivity)]
          rw [abs_le]; constructor <;> linarith)
        C1_check.1 C1_check.2.1 C1_real C1_check.2.2.1
      rw [hrva] at hres
      exact fin _ hres.1 (TwoFloat.add_tt_WF _ _) hres.2
    · have b1' : ROrd.isLt (base.impl_PartialOrd_f64_for_TwoFloat.partial_cmp k (f64lit 0x4008000000000000)) = false := by
        simpa using b1
      simp only [b1', Bool.false_eq_true, if_false]
      have hk3 : (3 : ℚ) ≤ val k := by
        have := mt (cmp_lt_lit hvk three_lit.2.1 three_lit.1).2 b1
        rw [fval_three] at this
        exact not_lt.1 this
      have hE3 := (thr hek (by norm_num : (3 : ℚ) ≤ 16)).2 hk3
      have hAlo2 : 68 / 100 ≤ |val x| := by
        have : (1 : ℚ) / 2 ^ 100 ≤ 1 / 100 := by norm_num
        linarith
      by_cases b2 : ROrd.isLt (base.impl_PartialOrd_f64_for_TwoFloat.partial_cmp k (f64lit 0x4014000000000000)) = true
      · simp only [b2, if_true]
        have hk5 := (cmp_lt_lit hvk five_lit.2.1 five_lit.1).1 b2
        rw [fval_five] at hk5
        have hE5 := (thr hek (by norm_num : (5 : ℚ) ≤ 16)).1 hk5.le
        have hAhi : |val x| ≤ 12 / 10 := by
          have : (1 : ℚ) / 2 ^ 100 ≤ 1 / 100 := by norm_num
          linarith
        have ha0 : 0 ≤ val a := by rw [hval]; exact hA0
        have ha4 : val a ≤ 4 := by rw [hval]; linarith
        obtain ⟨hvN, hwN, heN⟩ := sub_tf_val hva hwa lit_one_facts.1 lit_one_facts.2.1
          (by rw [hval, _root_.abs_abs]; linarith) one_natAbs
        rw [fval_one] at heN
        obtain ⟨hvD, hwD, heD⟩ := add_ft_val hva hwa lit_one_facts.1 lit_one_facts.2.1
          (by rw [hval, _root_.abs_abs]; linarith) one_natAbs
        rw [fval_one] at heD
        have heD' : |val (arithmetic.impl_Add_rTwoFloat_for_rf64.add (f64lit 0x3ff0000000000000) a)
            - (1 + 1 * val a)| ≤ 1 / 2 ^ 103 * |1 + 1 * val a| := by
          rw [one_mul]
          refine le_trans heD (mul_le_mul_of_nonneg_right (by norm_num) (abs_nonneg _))
        have hres := atan_mid (c := 1) (by norm_num) (by norm_num) ha0 ha4 hvN hwN heN hvD hwD heD'
          (by rw [hval]; exact hgap 1 (Or.inr (Or.inl rfl)))
          (by
            rw [hval, one_mul, abs_div, abs_of_pos (by positivity : (0 : ℚ) < 1 + |val x|),
              div_le_iff₀ (by positivity)]
            rw [abs_le]; constructor <;> linarith)
          C2_check.1 C2_check.2.1 C2_real C2_check.2.2
        rw [hrva] at hres
        exact fin _ hres.1 (TwoFloat.add_tt_WF _ _) hres.2
      · have b2' : ROrd.isLt (base.impl_PartialOrd_f64_for_TwoFloat.partial_cmp k (f64lit 0x4014000000000000)) = false := by
          simpa using b2
        simp only [b2', Bool.false_eq_true, if_false]
        have hk5 : (5 : ℚ) ≤ val k := by
          have := mt (cmp_lt_lit hvk five_lit.2.1 five_lit.1).2 b2
          rw [fval_five] at this
          exact not_lt.1 this
        have hE5 := (thr hek (by norm_num : (5 : ℚ) ≤ 16)).2 hk5
        have hAlo3 : 118 / 100 ≤ |val x| := by
          have : (1 : ℚ) / 2 ^ 100 ≤ 1 / 100 := by norm_num
          linarith
        by_cases b3 : ROrd.isLt (base.impl_PartialOrd_f64_for_TwoFloat.partial_cmp k (f64lit 0x4024000000000000)) = true
        · simp only [b3, if_true]
          have hk10 := (cmp_lt_lit hvk ten_lit.2.1 ten_lit.1).1 b3
          rw [fval_ten] at hk10
          have hE10 := (thr hek (by norm_num : (10 : ℚ) ≤ 16)).1 hk10.le
          have hAhi : |val x| ≤ 245 / 100 := by
            have : (1 : ℚ) / 2 ^ 100 ≤ 1 / 100 := by norm_num
            linarith
          have ha0 : 0 ≤ val a := by rw [hval]; exact hA0
          have ha4 : val a ≤ 4 := by rw [hval]; linarith
          obtain ⟨hvN, hwN, heN⟩ := sub_tf_val hva hwa three_halves_lit.1 three_halves_lit.2.1
            (by rw [hval, _root_.abs_abs]; linarith) three_halves_lit.2.2.2
          rw [fval_three_halves] at heN
          obtain ⟨hvD, hwD, heD⟩ := den_val hva hwa (by rw [hval]; linarith) ha4 three_halves_lit.1
            three_halves_lit.2.1 fval_three_halves (by norm_num) (by norm_num)
            (by rw [three_halves_lit.2.2.1]; constructor <;> norm_num)
          have hres := atan_mid (c := 3 / 2) (by norm_num) (by norm_num) ha0 ha4 hvN hwN heN hvD hwD heD
            (by rw [hval]; exact hgap (3 / 2) (Or.inr (Or.inr rfl)))
            (by
              rw [hval, abs_div, abs_of_pos (by positivity : (0 : ℚ) < 1 + 3 / 2 * |val x|),
                div_le_iff₀ (by positivity)]
              rw [abs_le]; constructor <;> linarith)
            C3_check.1 C3_check.2.1 C3_real C3_check.2.2.1
          rw [hrva] at hres
          exact fin _ hres.1 (TwoFloat.add_tt_WF _ _) hres.2
        · have b3' : ROrd.isLt (base.impl_PartialOrd_f64_for_TwoFloat.partial_cmp k (f64lit 0x4024000000000000)) = false := by
            simpa using b3
          simp only [b3', Bool.false_eq_true, if_false]
          have hk10 : (10 : ℚ) ≤ val k := by
            have := mt (cmp_lt_lit hvk ten_lit.2.1 ten_lit.1).2 b3
            rw [fval_ten] at this
            exact not_lt.1 this
          have hE10 := (thr hek (by norm_num : (10 : ℚ) ≤ 16)).2 hk10
          have hres := atan_big hva hwa (by rw [hval]; linarith) (by rw [hval]; exact hx)
          rw [hrva] at hres
          exact fin _ hres.1 hres.2.1 hres.2.2

/-! ## 9. `atan2` off the axes -/

/-- `|arctan u − arctan v| ≤ |u − v| / (1 + u·v)` for `u·v ≥ 0` -/
theorem arctan_sub_le {u v : ℝ} (h : 0 ≤ u * v) :
    |Real.arctan u - Real.arctan v| ≤ |u - v| / (1 + u * v) := by
  have hp : 0 < 1 + u * v := by linarith
  have e : Real.arctan u - Real.arctan v = Real.arctan ((u - v) / (1 + u * v)) := by
    rw [_root_.sub_eq_add_neg, ← Real.arctan_neg, Real.arctan_add (by nlinarith)]
    congr 1
    rw [mul_neg, sub_neg_eq_add, ← _root_.sub_eq_add_neg]
  rw [e]
  have := arctan_lipschitz ((u - v) / (1 + u * v)) 0
  rw [Real.arctan_zero, sub_zero, sub_zero] at this
  refine le_trans this ?_
  rw [abs_div, abs_of_pos hp]

/-- `|t|/(1 + t²) ≤ 2·|arctan t|` -/
theorem t_over_le (t : ℝ) : |t| / (1 + t ^ 2) ≤ 2 * |Real.arctan t| := by
  have hp : (0 : ℝ) < 1 + t ^ 2 := by positivity
  by_cases h : |t| ≤ 43 / 100
  · have h1 := abs_arctan_ge (r := t) (le_trans h (by unfold atanRho; push_cast; norm_num))
    rw [div_le_iff₀ hp]
    have : |t| ≤ 2 * |Real.arctan t| := by linarith [abs_nonneg t]
    have h2 : 2 * |Real.arctan t| * 1 ≤ 2 * |Real.arctan t| * (1 + t ^ 2) :=
      mul_le_mul_of_nonneg_left (by nlinarith [sq_nonneg t]) (by positivity)
    linarith
  · have h1 := arctan_ge_quarter (not_le.1 h).le
    rw [abs_arctan, div_le_iff₀ hp]
    have h2 : |t| ≤ 1 / 2 * (1 + t ^ 2) := by
      have := sq_nonneg (|t| - 1)
      rw [← sq_abs t]
      nlinarith
    have h3 : 1 / 2 * (1 + t ^ 2) ≤ 2 * Real.arctan |t| * (1 + t ^ 2) :=
      mul_le_mul_of_nonneg_right (by linarith) hp.le
    linarith

/-- a relative perturbation `2^-102` of the argument of `arctan` is a relative perturbation `2^-100` of the value -/
theorem arctan_rel_perturb {u t : ℝ} (h : |t - u| ≤ 1 / 2 ^ 102 * |t|) :
    |Real.arctan u - Real.arctan t| ≤ 1 / 2 ^ 100 * |Real.arctan t| := by
  have hut : t ^ 2 * (1 - 1 / 2 ^ 102) ≤ u * t := by
    have e : u * t = t ^ 2 - (t - u) * t := by ring
    rw [e]
    have : (t - u) * t ≤ |t - u| * |t| := by rw [← abs_mul]; exact le_abs_self _
    have : |t - u| * |t| ≤ 1 / 2 ^ 102 * |t| * |t| := mul_le_mul_of_nonneg_right h (abs_nonneg _)
    have : |t| * |t| = t ^ 2 := by rw [← abs_mul, ← sq, abs_sq]
    nlinarith
  have h0 : 0 ≤ u * t := le_trans (by positivity) hut
  refine le_trans (arctan_sub_le h0) ?_
  have hp : 0 < 1 + u * t := by linarith
  rw [div_le_iff₀ hp, abs_sub_comm]
  have h1 := t_over_le t
  have hp2 : (0 : ℝ) < 1 + t ^ 2 := by positivity
  rw [div_le_iff₀ hp2] at h1
  have h2 : (1 + t ^ 2) / 2 ≤ 1 + u * t := by nlinarith [sq_nonneg t]
  have h3 : 0 ≤ |Real.arctan t| := abs_nonneg _
  have h4 : 1 / 2 ^ 102 * |t| ≤ 1 / 2 ^ 102 * (2 * |Real.arctan t| * (1 + t ^ 2)) :=
    mul_le_mul_of_nonneg_left h1 (by positivity)
  have c0 : (0 : ℝ) ≤ 1 / 2 ^ 100 * |Real.arctan t| := mul_nonneg (by norm_num) (abs_nonneg _)
  have h5 := mul_le_mul_of_nonneg_left h2 c0
  have e : 1 / 2 ^ 102 * (2 * |Real.arctan t| * (1 + t ^ 2)) = 1 / 2 ^ 100 * |Real.arctan t| * ((1 + t ^ 2) / 2) := by
    have k : (1 : ℝ) / 2 ^ 102 = 1 / 2 ^ 100 * (1 / 4) := by norm_num
    rw [k]; ring
  linarith

/-- the value of a valid pair from its high word: `2/3·|hi| ≤ |value| ≤ 3/2·|hi|` -/
theorem val_of_hi {t : TwoFloat} (hv : t.Valid) {lo hi : ℕ} (h1 : 2 ^ lo ≤ t.hi.toInt.natAbs)
    (h2 : t.hi.toInt.natAbs ≤ 2 ^ hi) :
    2 / 3 * (2 : ℚ) ^ lo / 2 ^ 1074 ≤ |val t| ∧ |val t| ≤ 3 / 2 * (2 : ℚ) ^ hi / 2 ^ 1074 := by
  obtain ⟨b1, b2⟩ := hi_bounds hv
  have c1 : (2 : Int) ^ lo ≤ |t.hi.toInt| := by rw [Int.abs_eq_natAbs]; exact_mod_cast h1
  have c2 : |t.hi.toInt| ≤ (2 : Int) ^ hi := by rw [Int.abs_eq_natAbs]; exact_mod_cast h2
  have d1 : 2 * (2 : Int) ^ lo ≤ 3 * |t.V| := by
    have : (2 : Int) ^ 53 * (2 * 2 ^ lo) ≤ 2 ^ 53 * (3 * |t.V|) := by nlinarith [abs_nonneg t.hi.toInt]
    exact le_of_mul_le_mul_left this (by positivity)
  have d2 : 2 * |t.V| ≤ 3 * (2 : Int) ^ hi := by
    have : (2 : Int) ^ 53 * (2 * |t.V|) ≤ 2 ^ 53 * (3 * 2 ^ hi) := by nlinarith [abs_nonneg t.hi.toInt]
    exact le_of_mul_le_mul_left this (by positivity)
  have e1 : (2 : ℚ) * 2 ^ lo ≤ 3 * ((|t.V| : Int) : ℚ) := by exact_mod_cast d1
  have e2 : 2 * ((|t.V| : Int) : ℚ) ≤ 3 * (2 : ℚ) ^ hi := by exact_mod_cast d2
  rw [abs_val]
  have hW : (0 : ℚ) < 2 ^ 1074 := by positivity
  constructor
  · rw [div_le_div_iff_of_pos_right hW]; linarith
  · rw [div_le_div_iff_of_pos_right hW]; linarith

theorem f64lit_zero : f64lit 0x0000000000000000 = F64.fin false 0 := by decide +kernel

theorem PI_check : consts.PI.Valid ∧ consts.PI.WF ∧ |val consts.PI| ≤ 4 := by decide +kernel

/-- the four-quadrant angle of the point `(X, Y)`, `X ≠ 0`, in terms of `arctan` -/
noncomputable def angle (Y X : ℝ) : ℝ :=
  if 0 < X then Real.arctan (Y / X) else if 0 < Y then Real.arctan (Y / X) + Real.pi else Real.arctan (Y / X) - Real.pi

/-- **C17 (atan2)**: valid operands with high words of magnitude in `[2^-30, 2^30]`, and the computed quotient
`q = y / x` subject to the gap condition of `atan_bound`: valid result within relative `2^-69` of the
four-quadrant angle -/
theorem atan2_bound {y x : TwoFloat} (hvy : y.Valid) (hwy : y.WF) (hvx : x.Valid) (hwx : x.WF)
    (hy : 2 ^ 1044 ≤ y.hi.toInt.natAbs ∧ y.hi.toInt.natAbs ≤ 2 ^ 1104)
    (hx : 2 ^ 1044 ≤ x.hi.toInt.natAbs ∧ x.hi.toInt.natAbs ≤ 2 ^ 1104)
    (hgap : ∀ c : ℚ, c = 1 / 2 ∨ c = 1 ∨ c = 3 / 2 →
      |val (arithmetic.impl_Div_rTwoFloat_for_rTwoFloat.div y x)| = c ∨
      1 / 2 ^ 950 ≤ |(|val (arithmetic.impl_Div_rTwoFloat_for_rTwoFloat.div y x)|) - c|) :
    (TwoFloat.atan2 y x).Valid ∧
    |rval (TwoFloat.atan2 y x) - angle (rval y) (rval x)| ≤ 1 / 2 ^ 69 * |angle (rval y) (rval x)| := by
  -- the zero tests
  have hyne : y.hi.toInt ≠ 0 := by
    intro h; have := hy.1; rw [h] at this; simp at this
  have hxne : x.hi.toInt ≠ 0 := by
    intro h; have := hx.1; rw [h] at this; simp at this
  have hy0 : (y.hi ==. f64lit 0) = false := by
    rw [f64lit_zero]
    exact Bool.eq_false_iff.2 (fun h => hyne ((F64.eq_zero_iff hvy.1).1 h))
  have hx0 : (x.hi ==. f64lit 0) = false := by
    rw [f64lit_zero]
    exact Bool.eq_false_iff.2 (fun h => hxne ((F64.eq_zero_iff hvx.1).1 h))
  rw [C17.atan2_general y x hy0 hx0]
  -- sizes
  obtain ⟨yl, yu⟩ := val_of_hi hvy hy.1 hy.2
  obtain ⟨xl, xu⟩ := val_of_hi hvx hx.1 hx.2
  have eL : (2 : ℚ) / 3 * 2 ^ 1044 / 2 ^ 1074 = 2 / 3 / 2 ^ 30 := by
    rw [show (1074 : ℕ) = 1044 + 30 by norm_num, pow_add]; field_simp
  have eU : (3 : ℚ) / 2 * 2 ^ 1104 / 2 ^ 1074 = 3 / 2 * 2 ^ 30 := by
    rw [show (1104 : ℕ) = 1074 + 30 by norm_num, pow_add]; field_simp
  rw [eL] at yl xl
  rw [eU] at yu xu
  have hxpos : 0 < |val x| := lt_of_lt_of_le (by positivity) xl
  have hxne' : val x ≠ 0 := abs_pos.1 hxpos
  -- the quotient
  obtain ⟨hvq, hwq, heq⟩ := div_tt_val hvy hwy hvx hwx
    ⟨le_trans (Nat.pow_le_pow_right (by norm_num) (by norm_num)) hy.1,
     le_trans hy.2 (Nat.pow_le_pow_right (by norm_num) (by norm_num))⟩
    ⟨le_trans (Nat.pow_le_pow_right (by norm_num) (by norm_num)) hx.1,
     le_trans hx.2 (Nat.pow_le_pow_right (by norm_num) (by norm_num))⟩
  set q := arithmetic.impl_Div_rTwoFloat_for_rTwoFloat.div y x with hqdef
  set t := val y / val x with htdef
  have htq : |t - val q| ≤ 1 / 2 ^ 102 * |t| := by
    have e : t - val q = (val y - val q * val x) / val x := by rw [htdef]; field_simp
    rw [e, abs_div, htdef, abs_div, ← mul_div_assoc]
    exact div_le_div_of_nonneg_right heq hxpos.le
  have htb : |t| ≤ 2 ^ 62 - 1 := by
    rw [htdef, abs_div, div_le_iff₀ hxpos]
    have : (2 ^ 62 - 1 : ℚ) * (2 / 3 / 2 ^ 30) ≤ (2 ^ 62 - 1) * |val x| :=
      mul_le_mul_of_nonneg_left xl (by norm_num)
    have : (3 : ℚ) / 2 * 2 ^ 30 ≤ (2 ^ 62 - 1) * (2 / 3 / 2 ^ 30) := by norm_num
    linarith
  have hqb : |val q| ≤ 2 ^ 62 := by
    have := abs_add_le (val q - t) t
    rw [sub_add_cancel, abs_sub_comm] at this
    have h1 : 1 / 2 ^ 102 * |t| ≤ 1 / 2 ^ 102 * (2 ^ 62 - 1) := mul_le_mul_of_nonneg_left htb (by positivity)
    have : (1 : ℚ) / 2 ^ 102 * (2 ^ 62 - 1) ≤ 1 := by norm_num
    linarith
  obtain ⟨hva, hea⟩ := atan_bound hvq hwq hqb hgap
  have hwa := C17p.atan_WF q
  set a := TwoFloat.atan q with hadef
  -- in the reals
  set T : ℝ := rval y / rval x with hTdef
  have hTt : T = ((t : ℚ) : ℝ) := by rw [hTdef, htdef]; unfold rval; push_cast; rfl
  have hpert : |Real.arctan (rval q) - Real.arctan T| ≤ 1 / 2 ^ 100 * |Real.arctan T| := by
    refine arctan_rel_perturb ?_
    rw [hTt]
    have := (Rat.cast_le (K := ℝ)).2 htq
    unfold rval
    push_cast at this ⊢
    exact this
  have hpi2 : |Real.arctan T| ≤ 2 := by
    rw [abs_le]
    have := Real.arctan_lt_pi_div_two T
    have := Real.neg_pi_div_two_lt_arctan T
    have := Real.pi_le_four
    constructor <;> linarith
  have haT : |rval a - Real.arctan T| ≤ (1 / 2 ^ 70 + 1 / 2 ^ 99) * |Real.arctan T| := by
    have h1 : |Real.arctan (rval q)| ≤ |Real.arctan T| * (1 + 1 / 2 ^ 100) := by
      have := abs_add_le (Real.arctan (rval q) - Real.arctan T) (Real.arctan T)
      rw [sub_add_cancel] at this
      linarith
    have e : rval a - Real.arctan T = (rval a - Real.arctan (rval q)) + (Real.arctan (rval q) - Real.arctan T) := by
      ring
    rw [e]
    refine le_trans (abs_add_le _ _) ?_
    have h2 := mul_le_mul_of_nonneg_left h1 (by positivity : (0 : ℝ) ≤ 1 / 2 ^ 70)
    have h3 : 1 / 2 ^ 70 * (|Real.arctan T| * (1 + 1 / 2 ^ 100)) + 1 / 2 ^ 100 * |Real.arctan T|
        ≤ (1 / 2 ^ 70 + 1 / 2 ^ 99) * |Real.arctan T| := by
      have : (1 : ℝ) / 2 ^ 70 * (1 + 1 / 2 ^ 100) + 1 / 2 ^ 100 ≤ 1 / 2 ^ 70 + 1 / 2 ^ 99 := by norm_num
      have := mul_le_mul_of_nonneg_right this (abs_nonneg (Real.arctan T))
      linarith
    linarith
  have hab : |val a| ≤ 3 := by
    refine rval_abs_le ?_
    push_cast
    have := abs_add_le (rval a - Real.arctan T) (Real.arctan T)
    rw [sub_add_cancel] at this
    have : (1 / 2 ^ 70 + 1 / 2 ^ 99) * |Real.arctan T| ≤ (1 / 2 ^ 70 + 1 / 2 ^ 99) * 2 :=
      mul_le_mul_of_nonneg_left hpi2 (by positivity)
    have : ((1 : ℝ) / 2 ^ 70 + 1 / 2 ^ 99) * 2 ≤ 1 := by norm_num
    linarith
  have hivx : TwoFloat.is_valid x = true := (C07.is_valid_iff x hwx).2 hvx
  have hivy : TwoFloat.is_valid y = true := (C07.is_valid_iff y hwy).2 hvy
  have hxV : x.V ≠ 0 := fun h => hxne ((TwoFloat.V_zero_iff_hi_zero hivx hvx).1 h)
  have hyV : y.V ≠ 0 := fun h => hyne ((TwoFloat.V_zero_iff_hi_zero hivy hvy).1 h)
  have sx := TwoFloat.hi_sign_positive_iff hivx hvx hxV
  have sy := TwoFloat.hi_sign_positive_iff hivy hvy hyV
  obtain ⟨hvP, hwP, hPb⟩ := PI_check
  have hpi3 : 3 ≤ Real.pi := Real.pi_gt_three.le
  unfold angle
  cases hsx : F64.is_sign_positive x.hi
  · -- x < 0
    have hxneg : ¬ (0 < rval x) := fun h => by
      have := sx.2 ((rval_pos_iff x).1 h); rw [hsx] at this; exact Bool.false_ne_true this
    have hXneg : rval x < 0 := by
      refine lt_of_le_of_ne (not_lt.1 hxneg) ?_
      intro h0; unfold rval at h0
      exact hxne' (by exact_mod_cast h0)
    simp only [hxneg, if_false, Bool.false_eq_true]
    cases hsy : F64.is_sign_positive y.hi
    · -- y < 0: a − PI
      have hyneg : ¬ (0 < rval y) := fun h => by
        have := sy.2 ((rval_pos_iff y).1 h); rw [hsy] at this; exact Bool.false_ne_true this
      simp only [hyneg, if_false, Bool.false_eq_true]
      have hTpos : 0 ≤ T := by
        rw [hTdef]; exact div_nonneg_of_nonpos (not_lt.1 hyneg) hXneg.le
      have hA0 : 0 ≤ Real.arctan T := Real.arctan_nonneg.2 hTpos
      have hA1 := Real.arctan_lt_pi_div_two T
      obtain ⟨hvs, _, hes⟩ := sub_tt_val hva hwa hvP hwP (le_trans hab (by norm_num)) (le_trans hPb (by norm_num))
      refine ⟨hvs, ?_⟩
      have hes' : |val (arithmetic.impl_Sub_rTwoFloat_for_rTwoFloat.sub a consts.PI) - (val a - val consts.PI)|
          ≤ 7 / 2 ^ 104 := by
        refine le_trans hes ?_
        have h7 : |val a - val consts.PI| ≤ 7 := le_trans (abs_sub _ _) (by linarith)
        have := mul_le_mul cA_le h7 (abs_nonneg _) (by positivity)
        refine le_trans this ?_
        norm_num
      have t1 : |rval (arithmetic.impl_Sub_rTwoFloat_for_rTwoFloat.sub a consts.PI)
          - (rval a - rval consts.PI)| ≤ 7 / 2 ^ 104 := by
        have := cast_abs_sub_le hes'
        unfold rval
        push_cast at this ⊢
        exact this
      show |rval (arithmetic.impl_Sub_rTwoFloat_for_rTwoFloat.sub a consts.PI) - (Real.arctan T - Real.pi)|
        ≤ 1 / 2 ^ 69 * |Real.arctan T - Real.pi|
      have habs : |Real.arctan T - Real.pi| = Real.pi - Real.arctan T := by
        rw [abs_of_neg (by linarith)]; ring
      rw [habs]
      rw [abs_of_nonneg hA0] at haT
      have b1 := abs_le.1 t1
      have b2 := abs_le.1 PI_real_err
      have b3 := abs_le.1 haT
      have k1 : (1 / 2 ^ 70 + 1 / 2 ^ 99) * Real.arctan T ≤ (1 / 2 ^ 70 + 1 / 2 ^ 99) * (Real.pi - Real.arctan T) :=
        mul_le_mul_of_nonneg_left (by linarith) (by positivity)
      have k2 : (7 : ℝ) / 2 ^ 104 + 1 / 2 ^ 105 ≤ 1 / 2 ^ 99 * (Real.pi - Real.arctan T) := by
        have : (1 : ℝ) / 2 ^ 99 * 1 ≤ 1 / 2 ^ 99 * (Real.pi - Real.arctan T) :=
          mul_le_mul_of_nonneg_left (by linarith) (by positivity)
        have : (7 : ℝ) / 2 ^ 104 + 1 / 2 ^ 105 ≤ 1 / 2 ^ 99 * 1 := by norm_num
        linarith
      have k3 : (1 / 2 ^ 70 + 1 / 2 ^ 99) * (Real.pi - Real.arctan T) + 1 / 2 ^ 99 * (Real.pi - Real.arctan T)
          ≤ 1 / 2 ^ 69 * (Real.pi - Real.arctan T) := by
        have : ((1 : ℝ) / 2 ^ 70 + 1 / 2 ^ 99) + 1 / 2 ^ 99 ≤ 1 / 2 ^ 69 := by norm_num
        have := mul_le_mul_of_nonneg_right this (by linarith : (0 : ℝ) ≤ Real.pi - Real.arctan T)
        linarith
      rw [abs_le]
      constructor <;> linarith [b1.1, b1.2, b2.1, b2.2, b3.1, b3.2]
    · -- y > 0: a + PI
      have hypos : 0 < rval y := (rval_pos_iff y).2 (sy.1 hsy)
      simp only [hypos, if_true]
      have hTneg : T ≤ 0 := by
        rw [hTdef]; exact div_nonpos_of_nonneg_of_nonpos hypos.le hXneg.le
      have hA0 : Real.arctan T ≤ 0 := by
        have := Real.arctan_nonneg.2 (by linarith : 0 ≤ -T)
        rw [Real.arctan_neg] at this; linarith
      have hA1 := Real.neg_pi_div_two_lt_arctan T
      obtain ⟨hvs, _, hes⟩ := add_tt_val hva hwa hvP hwP (le_trans hab (by norm_num)) (le_trans hPb (by norm_num))
      refine ⟨hvs, ?_⟩
      have hes' : |val (arithmetic.impl_Add_rTwoFloat_for_rTwoFloat.add a consts.PI) - (val a + val consts.PI)|
          ≤ 7 / 2 ^ 104 := by
        refine le_trans hes ?_
        have h7 : |val a + val consts.PI| ≤ 7 := le_trans (abs_add_le _ _) (by linarith)
        have := mul_le_mul cA_le h7 (abs_nonneg _) (by positivity)
        refine le_trans this ?_
        norm_num
      have t1 : |rval (arithmetic.impl_Add_rTwoFloat_for_rTwoFloat.add a consts.PI)
          - (rval a + rval consts.PI)| ≤ 7 / 2 ^ 104 := by
        have := cast_abs_sub_le hes'
        unfold rval
        push_cast at this ⊢
        exact this
      show |rval (arithmetic.impl_Add_rTwoFloat_for_rTwoFloat.add a consts.PI) - (Real.arctan T + Real.pi)|
        ≤ 1 / 2 ^ 69 * |Real.arctan T + Real.pi|
      have habs : |Real.arctan T + Real.pi| = Real.pi + Real.arctan T := by
        rw [abs_of_pos (by linarith)]; ring
      rw [habs]
      rw [abs_of_nonpos hA0] at haT
      have b1 := abs_le.1 t1
      have b2 := abs_le.1 PI_real_err
      have b3 := abs_le.1 haT
      have k1 : (1 / 2 ^ 70 + 1 / 2 ^ 99) * -Real.arctan T ≤ (1 / 2 ^ 70 + 1 / 2 ^ 99) * (Real.pi + Real.arctan T) :=
        mul_le_mul_of_nonneg_left (by linarith) (by positivity)
      have k2 : (7 : ℝ) / 2 ^ 104 + 1 / 2 ^ 105 ≤ 1 / 2 ^ 99 * (Real.pi + Real.arctan T) := by
        have : (1 : ℝ) / 2 ^ 99 * 1 ≤ 1 / 2 ^ 99 * (Real.pi + Real.arctan T) :=
          mul_le_mul_of_nonneg_left (by linarith) (by positivity)
        have : (7 : ℝ) / 2 ^ 104 + 1 / 2 ^ 105 ≤ 1 / 2 ^ 99 * 1 := by norm_num
        linarith
      have k3 : (1 / 2 ^ 70 + 1 / 2 ^ 99) * (Real.pi + Real.arctan T) + 1 / 2 ^ 99 * (Real.pi + Real.arctan T)
          ≤ 1 / 2 ^ 69 * (Real.pi + Real.arctan T) := by
        have : ((1 : ℝ) / 2 ^ 70 + 1 / 2 ^ 99) + 1 / 2 ^ 99 ≤ 1 / 2 ^ 69 := by norm_num
        have := mul_le_mul_of_nonneg_right this (by linarith : (0 : ℝ) ≤ Real.pi + Real.arctan T)
        linarith
      rw [abs_le]
      constructor <;> linarith [b1.1, b1.2, b2.1, b2.2, b3.1, b3.2]
  · -- x > 0
    have hxpos' : 0 < rval x := (rval_pos_iff x).2 (sx.1 hsx)
    simp only [hxpos', if_true]
    refine ⟨hva, le_trans haT ?_⟩
    exact mul_le_mul_of_nonneg_right (by norm_num) (abs_nonneg _)

/-! ## 10. instances -/

/-- `atan2(1, −2)` (second quadrant; the quotient is exactly `−1/2`, a reduction centre) and `atan2(−3, 5)` -/
example :
    |rval (TwoFloat.atan2 ⟨f64lit 0x3ff0000000000000, F64.zero⟩ ⟨f64lit 0xc000000000000000, F64.zero⟩)
      - angle (rval ⟨f64lit 0x3ff0000000000000, F64.zero⟩) (rval ⟨f64lit 0xc000000000000000, F64.zero⟩)|
      ≤ 1 / 2 ^ 69 * |angle (rval ⟨f64lit 0x3ff0000000000000, F64.zero⟩) (rval ⟨f64lit 0xc000000000000000, F64.zero⟩)| :=
  (atan2_bound (by decide +kernel) (by decide +kernel) (by decide +kernel) (by decide +kernel)
    (by decide +kernel) (by decide +kernel) (by
      intro c hc
      rcases hc with rfl | rfl | rfl
      · left; decide +kernel
      · right; decide +kernel
      · right; decide +kernel)).2

example :
    |rval (TwoFloat.atan2 ⟨f64lit 0xc008000000000000, F64.zero⟩ ⟨f64lit 0x4014000000000000, F64.zero⟩)
      - angle (rval ⟨f64lit 0xc008000000000000, F64.zero⟩) (rval ⟨f64lit 0x4014000000000000, F64.zero⟩)|
      ≤ 1 / 2 ^ 69 * |angle (rval ⟨f64lit 0xc008000000000000, F64.zero⟩) (rval ⟨f64lit 0x4014000000000000, F64.zero⟩)| :=
  (atan2_bound (by decide +kernel) (by decide +kernel) (by decide +kernel) (by decide +kernel)
    (by decide +kernel) (by decide +kernel) (by
      intro c hc
      right
      rcases hc with rfl | rfl | rfl <;> decide +kernel)).2

/-- the hypotheses are satisfiable: `asin 0.75` (half-angle branch), `acos 0.25`, `atan 3.0` (fourth interval), `atan 0.6` -/
example :
    |rval (TwoFloat.asin ⟨f64lit 0x3fe8000000000000, F64.zero⟩)
      - Real.arcsin (rval ⟨f64lit 0x3fe8000000000000, F64.zero⟩)| ≤ 1 / 2 ^ 45 :=
  C17_asin_abs (by decide +kernel) (by decide +kernel) (by decide +kernel)

example :
    |rval (TwoFloat.acos ⟨f64lit 0x3fd0000000000000, F64.zero⟩)
      - Real.arccos (rval ⟨f64lit 0x3fd0000000000000, F64.zero⟩)| ≤ 1 / 2 ^ 45 :=
  C17_acos_abs (by decide +kernel) (by decide +kernel) (by decide +kernel)

example :
    |rval (TwoFloat.atan ⟨f64lit 0x4008000000000000, F64.zero⟩)
      - Real.arctan (rval ⟨f64lit 0x4008000000000000, F64.zero⟩)|
      ≤ 1 / 2 ^ 70 * |Real.arctan (rval ⟨f64lit 0x4008000000000000, F64.zero⟩)| :=
  (atan_bound (by decide +kernel) (by decide +kernel) (by decide +kernel) (by
    intro c hc
    right
    rcases hc with rfl | rfl | rfl <;> decide +kernel)).2

example :
    |rval (TwoFloat.atan ⟨f64lit 0x3fe3333333333333, F64.zero⟩)
      - Real.arctan (rval ⟨f64lit 0x3fe3333333333333, F64.zero⟩)|
      ≤ 1 / 2 ^ 70 * |Real.arctan (rval ⟨f64lit 0x3fe3333333333333, F64.zero⟩)| :=
  (atan_bound (by decide +kernel) (by decide +kernel) (by decide +kernel) (by
    intro c hc
    right
    rcases hc with rfl | rfl | rfl <;> decide +kernel)).2

end C17t
