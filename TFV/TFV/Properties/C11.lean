/-
C11 — the result does not depend on the `std` / `libm` feature selection.

The crate has exactly one cfg-dependent primitive, `arithmetic::fma`: with `std` it is `f64::mul_add`, without
it is `libm::fma`.  Both are the IEEE-754 correctly rounded fused multiply-add, and the translator maps both to
the Prelude's `F64.fma` (one rounding of the exact x·y + z).  The model-level statement of C11 is therefore that
the model's `arithmetic.fma` *is* `F64.fma`, and that every other definition reaches fma only through it.
(All other libm calls — `sqrt`, `cbrt`, `exp2`, `modf`, `trunc`, … — are mapped to one Prelude function each,
independently of cfg; `Libm.log/log2/log1p` are ports of the libm crate code used under both configurations.)
-/
import TFV.Spec.Defs
import TFV.Lemmas.Ident

namespace C11

/-- the single cfg-dependent primitive is the Prelude's correctly rounded fma, as a function -/
theorem fma_is_prelude : arithmetic.fma = F64.fma := rfl

theorem fma_apply (x y z : F64) : arithmetic.fma x y z = F64.fma x y z := rfl

/-- on finite operands `fma` is ONE rounding of the exact value a·b + c (units 2^-1074 · 2^-1074 → 2^-1074) -/
theorem fma_finite (s t u : Bool) (a b c : Nat) :
    arithmetic.fma (.fin s a) (.fin t b) (.fin u c)
      = F64.roundSigned
          ((if (s != t) then -((a * b : Nat) : Int) else ((a * b : Nat) : Int))
            + (F64.fin u c).toInt * (2^1074 : Nat))
          (2^1074) ((s != t) && u) := rfl

/-- the error-free product is built on that primitive (and on nothing else cfg-dependent) -/
theorem new_mul_uses_fma (a b : F64) :
    TwoFloat.new_mul a b = ⟨F64.mul a b, F64.fma a b (F64.neg (F64.mul a b))⟩ := rfl

theorem mul_tf_uses_fma (x : TwoFloat) (f : F64) :
    arithmetic.impl_Mul_rf64_for_rTwoFloat.mul x f
      = arithmetic.fast_two_sum (F64.mul x.hi f)
          (F64.fma x.lo f (F64.fma x.hi f (F64.neg (F64.mul x.hi f)))) := rfl

theorem mul_tt_uses_fma (x y : TwoFloat) :
    arithmetic.impl_Mul_rTwoFloat_for_rTwoFloat.mul x y
      = arithmetic.fast_two_sum (F64.mul x.hi y.hi)
          (F64.add (F64.fma x.hi y.hi (F64.neg (F64.mul x.hi y.hi)))
            (F64.fma x.lo y.hi (F64.fma x.hi y.lo (F64.mul x.lo y.lo)))) := rfl

/-- a witness that the primitive really is fused: (1+2^-52)·(1−2^-52) − 1 = −2^-104 exactly, whereas the
unfused `a*b - 1` is 0 -/
example :
    arithmetic.fma (f64lit 0x3ff0000000000001) (f64lit 0x3feffffffffffffe) (f64lit 0xbff0000000000000)
      = f64lit 0xb970000000000000
    ∧ F64.add (F64.mul (f64lit 0x3ff0000000000001) (f64lit 0x3feffffffffffffe)) (f64lit 0xbff0000000000000)
      = f64lit 0x0000000000000000 := by
  decide +kernel

end C11
