/-
C14f (numerical layer) — accuracy of `TwoFloat::exp2` and `TwoFloat::exp_m1` (property C14).

Values are real numbers: `val t = (hi + lo) = t.V / 2^1074 : ℝ`; `2^x = (2 : ℝ) ^ (val x)` (`Real.rpow`),
`e^x = Real.exp (val x)`.  `u = 2^-53`, so `2^-100 = 64u²`, `2^-93 = 8192u²`.

exp2: "exp2(x) within relative 2^-93 of 2^x for x in [−900, 1000]" — PROVED IN FULL (`exp2_bound`); the analysis gives
`5633u² ≈ 2^-93.54` (`exp2_bound_5633`):
  * `k = round(x.hi)`, `δ = x − k` (`|δ| ≤ 0.501`), `r = (δ·LN_2)/512` within `0.01u²` (absolute) of `ρ = δ·log 2/512`
    (`Exp2Bound.reduce_real`; the division by 512 is exact up to the rounding of the low word, also in the underflow
    range — `x = k + tiny` is covered: `Exp2Bound.div_pow2_gen`);
  * the 12-term Horner value is within `3.04u²` (absolute) of `e^r` (`Exp2Bound.horner2_bound`), hence within relative
    `4u²` of `e^ρ`;
  * nine squarings, `ε ↦ 2ε + 7.01u²`: `512·4 + 511·7.01 = 5630.1u²` (`Exp2Bound.sq_iter`);
  * the scaling of both words by `2^k` is exact in the high word and one rounding (`≤ 2^-1075 + u·|lo|`) in the low
    word, followed by an error-free Fast2Sum (`Exp2Bound.scale_pow2`).

exp_m1: "within 2^-100 for |x| ≤ 2^-8 and for x outside [−0.70, 0.41], within 2^-45 elsewhere
(x = 0 or 2^-1000 ≤ |x|, x ≤ 700)".  The code switches at `−LN_2 ≈ −0.6931` and `LN_FRAC_3_2 ≈ 0.4055`
(`exp_m1_switch`: the two comparisons decide on the exact values).
  * `exp_m1_bound_small_partial`  : `|x| ≤ 2^-8`, `x = 0` or `|x| ≥ 2^-950`: `54u² < 2^-100` (Taylor branch: `9.31u²` for
    `x > 0`; `9.31 + 37 + 7` for `x < 0`, where the result is `x·r·exp(x)`).  PARTIAL in the range: `2^-1000 ≤ |x| <
    2^-950` is open (the final product `x·r`, `r ≈ 1`, leaves the range `≥ 2^-957` of the proved product bound).
  * `exp_m1_bound_mid`    : Taylor branch with `|x| ≥ 2^-9`: `2^-45` (truncation of the 14-term series `≤ 2^-47.4`;
    roundings `≤ 42u²` from a wide-range Horner invariant).
  * `exp_m1_bound_outer_neg_partial` : `−600 ≤ x < −LN_2`: `40u² < 2^-100`.  (`x < −600` is open: no accuracy theorem for
    `exp` there.)
  * `exp_m1_bound_partial` : the clause assembled from the four pieces (valid `x`, `−600 ≤ x ≤ 700`, `x = 0` or
    `|x| ≥ 2^-950`).
  * `exp_m1_bound_outer_pos_full` : `LN_FRAC_3_2 < x ≤ 700`: `2^-100`; just above `ln 1.5` the generic `21u²` of `exp`
    would give `65u²`, so the sharper `12.8u²` of `exp` for `k = round(2x) ≤ 31` is used
    (`Exp2Bound.exp_bound_small_k`).
-/
import TFV.Lemmas.Exp2Bound
import TFV.Lemmas.NoOverlap
import TFV.Properties.C04x
import Mathlib.Analysis.SpecialFunctions.Pow.Real

set_option exponentiation.threshold 4000

namespace C14f

open F64 TwoFloat ConstBounds ExpBound Exp2Bound

/-- exact real value `hi + lo` of a pair -/
noncomputable abbrev val (t : TwoFloat) : ℝ := ExpBound.rv t

theorem scale_le {c E : ℝ} {n : ℕ} (hE : 0 ≤ E) (hc : c ≤ 1 / 2 ^ n) : c * E ≤ E / 2 ^ n := by
  calc c * E ≤ 1 / 2 ^ n * E := mul_le_mul_of_nonneg_right hc hE
    _ = E / 2 ^ n := by ring

/-! ## exp2 -/

/-- what the analysis gives: relative error at most `5633u²`, against `e^(x·log 2)` -/
theorem exp2_bound_5633 (x : TwoFloat) (hv : x.Valid) (hw : x.WF) (hlo : -900 ≤ val x) (hhi : val x ≤ 1000) :
    (TwoFloat.exp2 x).Valid ∧ (TwoFloat.exp2 x).WF ∧
    |val (TwoFloat.exp2 x) - Real.exp (val x * Real.log 2)| ≤ 5633 / 2 ^ 106 * Real.exp (val x * Real.log 2) :=
  ⟨(exp2_bound_main x hv hw hlo hhi).1.1, (exp2_bound_main x hv hw hlo hhi).1.2, (exp2_bound_main x hv hw hlo hhi).2⟩

theorem two_rpow (v : ℝ) : (2 : ℝ) ^ v = Real.exp (v * Real.log 2) := by
  rw [Real.rpow_def_of_pos (by norm_num : (0 : ℝ) < 2), mul_comm]

/-- **Property C14, accuracy of `exp2`**: for every valid `x` with `−900 ≤ x ≤ 1000`, `exp2(x)` is a valid pair within
relative `2^-93` of `2^x` -/
theorem exp2_bound (x : TwoFloat) (hv : x.Valid) (hw : x.WF) (hlo : -900 ≤ val x) (hhi : val x ≤ 1000) :
    (TwoFloat.exp2 x).Valid ∧ |val (TwoFloat.exp2 x) - (2 : ℝ) ^ (val x)| ≤ (2 : ℝ) ^ (val x) / 2 ^ 93 := by
  obtain ⟨h1, _, h3⟩ := exp2_bound_5633 x hv hw hlo hhi
  rw [two_rpow]
  exact ⟨h1, le_trans h3 (scale_le (Real.exp_pos _).le (by norm_num))⟩

/-! ## exp_m1 -/

/-- `-x` -/
abbrev negf := arithmetic.impl_Neg_for_TwoFloat.neg

theorem negLN2_facts : TwoFloat.is_valid (negf consts.LN_2) = true ∧ (negf consts.LN_2).Valid ∧
    (negf consts.LN_2).V ≤ -(2 ^ 1073) := by decide +kernel

theorem LN32_facts : TwoFloat.is_valid explog.LN_FRAC_3_2 = true ∧ explog.LN_FRAC_3_2.Valid ∧
    (2 : ℤ) ^ 1072 ≤ explog.LN_FRAC_3_2.V := by decide +kernel

/-- the range switch of `exp_m1`, on exact values -/
theorem exp_m1_switch (x : TwoFloat) (hv : x.Valid) (hw : x.WF) :
    ((ROrd.isLt (base.impl_PartialOrd_TwoFloat_for_TwoFloat.partial_cmp x (negf consts.LN_2))) ||
      (ROrd.isGt (base.impl_PartialOrd_TwoFloat_for_TwoFloat.partial_cmp x explog.LN_FRAC_3_2))) = true ↔
    (x.V < (negf consts.LN_2).V ∨ explog.LN_FRAC_3_2.V < x.V) := by
  have hvx : TwoFloat.is_valid x = true := (F64.NoOverlap.is_valid_iff x hw).2 hv
  rw [partial_cmp_exact_of F64.roundFacts hvx negLN2_facts.1 hv negLN2_facts.2.1,
    partial_cmp_exact_of F64.roundFacts hvx LN32_facts.1 hv LN32_facts.2.1, Bool.or_eq_true,
    ROrd.isLt_ofInts, ROrd.isGt_ofInts]

/-- the sign test `self < 0.0` -/
theorem lt_zero_switch (x : TwoFloat) (hv : x.Valid) :
    ROrd.isLt (base.impl_PartialOrd_f64_for_TwoFloat.partial_cmp x (f64lit 0x0000000000000000)) = true ↔ x.V < 0 := by
  rw [partial_cmp_tf_exact_of F64.roundFacts hv (show (f64lit 0x0000000000000000).WF by decide +kernel) rfl,
    ROrd.isLt_ofInts]
  have : (f64lit 0x0000000000000000).toInt = 0 := by decide +kernel
  rw [this]

/-- `r = |x|·P(|x|) + 1` is a valid pair for `|x| ≤ 1/128` -/
theorem r_vw {a : TwoFloat} (ha : VW a) (ht : |rv a| ≤ 1 / 128) :
    VW (arithmetic.impl_Add_f64_for_TwoFloat.add
      (arithmetic.impl_Mul_TwoFloat_for_TwoFloat.mul a (hp a 12)) (f64lit 0x3ff0000000000000)) := by
  obtain ⟨pvw, hpe, hP1, hP2⟩ := horner_inv ha ht 12 (le_refl _)
  have e2 : ((14 - 12 : ℕ).factorial : ℝ) = 2 := by norm_num [Nat.factorial]
  rw [e2] at hP1 hP2
  have hpabs : |rv (hp a 12)| ≤ 2 := by
    have := abs_sub_abs_le_abs_sub (rv (hp a 12)) (PR (rv a) 12)
    rw [abs_of_nonneg (by linarith : (0 : ℝ) ≤ PR (rv a) 12)] at this
    have e : (4 : ℝ) / 2 ^ 106 ≤ 1 := by norm_num
    linarith
  have hprod : |rv a * rv (hp a 12)| ≤ 1 / 64 := by
    rw [abs_mul]
    calc |rv a| * |rv (hp a 12)| ≤ 1 / 128 * 2 := mul_le_mul ht hpabs (abs_nonneg _) (by norm_num)
      _ = 1 / 64 := by norm_num
  obtain ⟨m1vw, hm1⟩ := mul_rv ha pvw (le_trans hprod (by norm_num))
  have hm1abs : |rv (arithmetic.impl_Mul_TwoFloat_for_TwoFloat.mul a (hp a 12))| ≤ 1 / 32 := by
    have := abs_sub_abs_le_abs_sub (rv (arithmetic.impl_Mul_TwoFloat_for_TwoFloat.mul a (hp a 12)))
      (rv a * rv (hp a 12))
    have := mul_le_mul_of_nonneg_left hprod (by positivity : (0 : ℝ) ≤ 7 / 2 ^ 106)
    have e : (7 : ℝ) / 2 ^ 106 * (1 / 64) + 1 / 2 ^ 950 + 1 / 64 ≤ 1 / 32 := by norm_num
    linarith
  exact (add_one_rv m1vw (le_trans hm1abs (by norm_num))).1

/-- `t·(t·P(t) + 1)` against `e^t − 1`, `0 < t ≤ 1/128` -/
theorem taylor_pos {t : ℝ} (h0 : 0 < t) (ht : t ≤ 1 / 128) :
    |t * (t * PR t 12 + 1) - (Real.exp t - 1)| ≤ 1 / 100 / 2 ^ 106 * (Real.exp t - 1) ∧ t ≤ Real.exp t - 1 := by
  have h1 : t ≤ Real.exp t - 1 := by linarith [Real.add_one_le_exp t]
  refine ⟨?_, h1⟩
  have := taylor_tail (t := t) (by rw [abs_of_pos h0]; exact ht)
  rw [abs_sub_comm, abs_of_pos h0] at this
  refine le_trans this ?_
  exact mul_le_mul_of_nonneg_left h1 (by positivity)

/-- **`exp_m1` for `|x| ≤ 2^-8`** (Taylor branch, 14 terms): relative error at most `54u² < 2^-100`.
PARTIAL in the range: the property also covers `2^-1000 ≤ |x| < 2^-950`, where the final product `x·r` (`r ≈ 1`) leaves
the range of the proved `TwoFloat * TwoFloat` bound. -/
theorem exp_m1_bound_small_54_partial (x : TwoFloat) (hv : x.Valid) (hw : x.WF) (h8 : |val x| ≤ 1 / 2 ^ 8)
    (hlo : val x = 0 ∨ 1 / 2 ^ 950 ≤ |val x|) :
    VW (TwoFloat.exp_m1 x) ∧
    |val (TwoFloat.exp_m1 x) - (Real.exp (val x) - 1)| ≤ 54 / 2 ^ 106 * |Real.exp (val x) - 1| := by
  have hU : (0 : ℝ) < 2 ^ 1074 := by positivity
  change |rv x| ≤ 1 / 2 ^ 8 at h8
  change rv x = 0 ∨ 1 / 2 ^ 950 ≤ |rv x| at hlo
  show VW (TwoFloat.exp_m1 x) ∧
    |rv (TwoFloat.exp_m1 x) - (Real.exp (rv x) - 1)| ≤ 54 / 2 ^ 106 * |Real.exp (rv x) - 1|
  have hVabs : |x.V| ≤ 2 ^ 1066 := by
    have := V_abs_le_of_rv (t := x) (k := 0) (le_trans h8 (by norm_num))
    have h' : ((|x.V| : ℤ) : ℝ) ≤ 2 ^ 1066 := by
      have h9 := h8
      show ((|x.V| : ℤ) : ℝ) ≤ 2 ^ 1066
      rw [rv_abs, div_le_iff₀ hU] at h9
      calc ((|x.V| : ℤ) : ℝ) ≤ 1 / 2 ^ 8 * 2 ^ 1074 := h9
        _ = 2 ^ 1066 := by norm_num
    exact_mod_cast h'
  obtain ⟨v1, v2⟩ := abs_le.1 hVabs
  have hsw : ¬ (((ROrd.isLt (base.impl_PartialOrd_TwoFloat_for_TwoFloat.partial_cmp x (negf consts.LN_2))) ||
      (ROrd.isGt (base.impl_PartialOrd_TwoFloat_for_TwoFloat.partial_cmp x explog.LN_FRAC_3_2))) = true) := by
    rw [exp_m1_switch x hv hw]
    have a1 := negLN2_facts.2.2
    have a2 := LN32_facts.2.2
    have e1 : (2 : ℤ) ^ 1073 = 128 * 2 ^ 1066 := by norm_num
    have e2 : (2 : ℤ) ^ 1072 = 64 * 2 ^ 1066 := by norm_num
    have hp : (0 : ℤ) < 2 ^ 1066 := by positivity
    rw [e1] at a1; rw [e2] at a2
    generalize (2 : ℤ) ^ 1066 = T at *
    omega
  unfold TwoFloat.exp_m1
  rw [if_neg hsw]
  dsimp only
  rw [polyFold_eq]
  obtain ⟨avw, harv⟩ := abs_rv' ⟨hv, hw⟩
  obtain ⟨c1, c2, -⟩ := abs_cases hv
  have h128 : |rv (TwoFloat.abs x)| ≤ 1 / 128 := by
    rw [harv, _root_.abs_abs]; exact le_trans h8 (by norm_num)
  have hrvw := r_vw avw h128
  rcases lt_trichotomy x.V 0 with hneg | hzero | hpos
  · -- x < 0
    rw [if_pos ((lt_zero_switch x hv).2 hneg)]
    have hxneg : rv x < 0 := div_neg_of_neg_of_pos (by exact_mod_cast hneg) hU
    have hxabs : |rv x| = -rv x := abs_of_neg hxneg
    set t := rv (TwoFloat.abs x) with htdef
    have ht : t = -rv x := by rw [harv, hxabs]
    have ht0 : 0 < t := by rw [ht]; linarith
    have ht128 : t ≤ 1 / 128 := by
      have := h128; rw [abs_of_pos ht0] at this; exact this
    have hlo' : 1 / 2 ^ 950 ≤ t := by
      rcases hlo with h | h
      · exfalso; linarith
      · rw [ht, ← hxabs]; exact h
    obtain ⟨wvw, hw1⟩ := expm1_kernel avw ⟨hv, hw⟩ (by rw [hxabs, ← ht]) ht128 hlo'
    generalize arithmetic.impl_Mul_TwoFloat_for_TwoFloat.mul x (arithmetic.impl_Add_f64_for_TwoFloat.add
      (arithmetic.impl_Mul_TwoFloat_for_TwoFloat.mul (TwoFloat.abs x) (hp (TwoFloat.abs x) 12))
      (f64lit 0x3ff0000000000000)) = w at *
    rw [← htdef] at hw1
    obtain ⟨tay, tge⟩ := taylor_pos ht0 ht128
    set A := Real.exp t - 1 with hA
    have hA0 : 0 < A := by linarith
    -- -w ≈ A
    have hwA : |(-rv w) - A| ≤ 931 / 100 / 2 ^ 106 * A := by
      have e : rv x * (t * PR t 12 + 1) = -(t * (t * PR t 12 + 1)) := by rw [ht]; ring
      rw [e, hxabs, ← ht] at hw1
      have h1 := abs_add_le (-(rv w - -(t * (t * PR t 12 + 1)))) (t * (t * PR t 12 + 1) - A)
      rw [abs_neg, show -(rv w - -(t * (t * PR t 12 + 1))) + (t * (t * PR t 12 + 1) - A) = -rv w - A by ring] at h1
      have h2 : (93 : ℝ) / 10 / 2 ^ 106 * t ≤ 93 / 10 / 2 ^ 106 * A := mul_le_mul_of_nonneg_left tge (by positivity)
      have e2 : (93 : ℝ) / 10 / 2 ^ 106 * A + 1 / 100 / 2 ^ 106 * A = 931 / 100 / 2 ^ 106 * A := by ring
      linarith
    -- exp x
    obtain ⟨Evw, hE⟩ := exp_bound_37 x hv hw (by linarith) (by linarith)
    have hB0 := Real.exp_pos (rv x)
    have hBr : 99 / 100 ≤ Real.exp (rv x) ∧ Real.exp (rv x) ≤ 1 := by
      constructor
      · have := Real.add_one_le_exp (rv x); linarith
      · rw [← Real.exp_zero]; exact Real.exp_le_exp.2 hxneg.le
    have hAle : A ≤ 2 * t := by
      have := Real.abs_exp_sub_one_le (x := t) (by rw [abs_of_pos ht0]; linarith)
      rw [abs_of_pos ht0] at this
      exact (abs_le.1 this).2
    -- the final product
    have hwabs : 99 / 100 * A ≤ |rv w| ∧ |rv w| ≤ 101 / 100 * A := by
      have h3 := abs_sub_abs_le_abs_sub (-rv w) A
      have h4 := abs_sub_abs_le_abs_sub A (-rv w)
      rw [abs_sub_comm A] at h4
      rw [abs_neg, abs_of_pos hA0] at h3 h4
      have : (931 : ℝ) / 100 / 2 ^ 106 * A ≤ 1 / 100 * A := mul_le_mul_of_nonneg_right (by norm_num) hA0.le
      constructor <;> linarith
    have hEabs : 98 / 100 ≤ |rv (TwoFloat.exp x)| ∧ |rv (TwoFloat.exp x)| ≤ 101 / 100 := by
      have h3 := abs_sub_abs_le_abs_sub (rv (TwoFloat.exp x)) (Real.exp (rv x))
      have h4 := abs_sub_abs_le_abs_sub (Real.exp (rv x)) (rv (TwoFloat.exp x))
      rw [abs_sub_comm (Real.exp (rv x))] at h4
      rw [abs_of_pos hB0] at h3 h4
      have : (37 : ℝ) / 2 ^ 106 * Real.exp (rv x) ≤ 1 / 100 := by
        have : (37 : ℝ) / 2 ^ 106 ≤ 1 / 100 := by norm_num
        nlinarith [hBr.2]
      constructor <;> linarith [hBr.1, hBr.2]
    have hp1 : |rv w * rv (TwoFloat.exp x)| ≤ 2 ^ 1019 := by
      rw [abs_mul]
      calc |rv w| * |rv (TwoFloat.exp x)| ≤ (101 / 100 * A) * (101 / 100) :=
            mul_le_mul hwabs.2 hEabs.2 (abs_nonneg _) (by positivity)
        _ ≤ (101 / 100 * (2 * (1 / 128))) * (101 / 100) := by
            apply mul_le_mul_of_nonneg_right _ (by norm_num)
            apply mul_le_mul_of_nonneg_left _ (by norm_num)
            linarith
        _ ≤ 2 ^ 1019 := by norm_num
    have hp0 : 1 / 2 ^ 957 ≤ |rv w * rv (TwoFloat.exp x)| := by
      rw [abs_mul]
      calc (1 : ℝ) / 2 ^ 957 ≤ (99 / 100 * (1 / 2 ^ 950)) * (98 / 100) := by norm_num
        _ ≤ (99 / 100 * A) * (98 / 100) := by
            apply mul_le_mul_of_nonneg_right _ (by norm_num)
            apply mul_le_mul_of_nonneg_left _ (by norm_num)
            linarith
        _ ≤ |rv w| * |rv (TwoFloat.exp x)| := mul_le_mul hwabs.1 hEabs.1 (by norm_num) (abs_nonneg _)
    obtain ⟨resvw, hres⟩ := mul_rv_rel wvw Evw hp0 hp1
    refine ⟨resvw, ?_⟩
    generalize rv (arithmetic.impl_Mul_TwoFloat_for_TwoFloat.mul w (TwoFloat.exp x)) = res at *
    have hres' : |(-res) - (-rv w) * rv (TwoFloat.exp x)| ≤ 7 / 2 ^ 106 * |(-rv w) * rv (TwoFloat.exp x)| := by
      rw [show -res - -rv w * rv (TwoFloat.exp x) = -(res - rv w * rv (TwoFloat.exp x)) by ring, abs_neg,
        neg_mul, abs_neg]
      exact hres
    have core := prod_rel_gen hA0 hB0 hwA hE hres' (by positivity) (by positivity) (ε := 54 / 2 ^ 106) (by norm_num)
    have eAB : A * Real.exp (rv x) = -(Real.exp (rv x) - 1) := by
      have : Real.exp t * Real.exp (rv x) = 1 := by rw [← Real.exp_add, ht]; simp
      rw [hA, sub_mul, this]; ring
    rw [eAB] at core
    rw [show -res - -(Real.exp (rv x) - 1) = -(res - (Real.exp (rv x) - 1)) by ring, abs_neg] at core
    have hneg1 : Real.exp (rv x) - 1 < 0 := by
      have : Real.exp (rv x) < 1 := by rw [← Real.exp_zero]; exact Real.exp_lt_exp.2 hxneg
      linarith
    rw [abs_of_neg hneg1]
    exact core
  · -- x = 0
    have hnl : ¬ ROrd.isLt (base.impl_PartialOrd_f64_for_TwoFloat.partial_cmp x (f64lit 0x0000000000000000)) = true := by
      rw [lt_zero_switch x hv]; omega
    rw [if_neg hnl]
    obtain ⟨-, -, z3, z4, z5⟩ := C04x.mul_tt_zero_left x _ hv hzero hrvw.1.1 hrvw.1.2.1
    refine ⟨⟨z4, z5⟩, ?_⟩
    have hx0 : rv x = 0 := by unfold rv; rw [hzero]; simp
    have hr0 : rv (arithmetic.impl_Mul_TwoFloat_for_TwoFloat.mul x (arithmetic.impl_Add_f64_for_TwoFloat.add
      (arithmetic.impl_Mul_TwoFloat_for_TwoFloat.mul (TwoFloat.abs x) (hp (TwoFloat.abs x) 12))
      (f64lit 0x3ff0000000000000))) = 0 := by
      unfold rv
      have : (arithmetic.impl_Mul_TwoFloat_for_TwoFloat.mul x (arithmetic.impl_Add_f64_for_TwoFloat.add
        (arithmetic.impl_Mul_TwoFloat_for_TwoFloat.mul (TwoFloat.abs x) (hp (TwoFloat.abs x) 12))
        (f64lit 0x3ff0000000000000))).V = 0 := z3
      rw [this]; simp
    rw [hr0, hx0, Real.exp_zero]
    norm_num
  · -- x > 0
    have hnl : ¬ ROrd.isLt (base.impl_PartialOrd_f64_for_TwoFloat.partial_cmp x (f64lit 0x0000000000000000)) = true := by
      rw [lt_zero_switch x hv]; omega
    rw [if_neg hnl, c1 hpos]
    rw [c1 hpos] at harv
    have hxpos : 0 < rv x := div_pos (by exact_mod_cast hpos) hU
    have hxabs : |rv x| = rv x := abs_of_pos hxpos
    have ht128 : rv x ≤ 1 / 128 := by
      rw [hxabs] at h8; exact le_trans h8 (by norm_num)
    have hlo' : 1 / 2 ^ 950 ≤ rv x := by
      rcases hlo with h | h
      · exfalso; linarith
      · rw [hxabs] at h; exact h
    obtain ⟨wvw, hw1⟩ := expm1_kernel ⟨hv, hw⟩ ⟨hv, hw⟩ hxabs ht128 hlo'
    refine ⟨wvw, ?_⟩
    obtain ⟨tay, tge⟩ := taylor_pos hxpos ht128
    generalize rv (arithmetic.impl_Mul_TwoFloat_for_TwoFloat.mul x (arithmetic.impl_Add_f64_for_TwoFloat.add
      (arithmetic.impl_Mul_TwoFloat_for_TwoFloat.mul x (hp x 12)) (f64lit 0x3ff0000000000000))) = w at *
    rw [hxabs] at hw1
    have hA0 : 0 < Real.exp (rv x) - 1 := by linarith
    rw [abs_of_pos hA0]
    have h1 := abs_add_le (w - rv x * (rv x * PR (rv x) 12 + 1)) (rv x * (rv x * PR (rv x) 12 + 1) - (Real.exp (rv x) - 1))
    rw [show w - rv x * (rv x * PR (rv x) 12 + 1) + (rv x * (rv x * PR (rv x) 12 + 1) - (Real.exp (rv x) - 1))
      = w - (Real.exp (rv x) - 1) by ring] at h1
    have h2 : (93 : ℝ) / 10 / 2 ^ 106 * rv x ≤ 93 / 10 / 2 ^ 106 * (Real.exp (rv x) - 1) :=
      mul_le_mul_of_nonneg_left tge (by positivity)
    have h3 : (93 : ℝ) / 10 / 2 ^ 106 * (Real.exp (rv x) - 1) + 1 / 100 / 2 ^ 106 * (Real.exp (rv x) - 1)
        ≤ 54 / 2 ^ 106 * (Real.exp (rv x) - 1) := by
      rw [← add_mul]; exact mul_le_mul_of_nonneg_right (by norm_num) hA0.le
    linarith

/-- **Property C14, `exp_m1` for `|x| ≤ 2^-8`**: within relative `2^-100` of `e^x − 1` (`x = 0` or `|x| ≥ 2^-950`) -/
theorem exp_m1_bound_small_partial (x : TwoFloat) (hv : x.Valid) (hw : x.WF) (h8 : |val x| ≤ 1 / 2 ^ 8)
    (hlo : val x = 0 ∨ 1 / 2 ^ 950 ≤ |val x|) :
    (TwoFloat.exp_m1 x).Valid ∧
    |val (TwoFloat.exp_m1 x) - (Real.exp (val x) - 1)| ≤ |Real.exp (val x) - 1| / 2 ^ 100 := by
  obtain ⟨h1, h2⟩ := exp_m1_bound_small_54_partial x hv hw h8 hlo
  exact ⟨h1.1, le_trans h2 (scale_le (abs_nonneg _) (by norm_num))⟩

/-! ### the outer branch `exp(x) − 1.0` -/

/-- `TwoFloat − 1.0` over `ℝ` (magnitudes up to `2^1019`) -/
theorem sub_one_rv {t : TwoFloat} (ht : VW t) (bt : |rv t| ≤ 2 ^ 1019) :
    VW (arithmetic.impl_Sub_f64_for_TwoFloat.sub t (f64lit 0x3ff0000000000000)) ∧
    |rv (arithmetic.impl_Sub_f64_for_TwoFloat.sub t (f64lit 0x3ff0000000000000)) - (rv t - 1)|
      ≤ 1 / 2 ^ 105 * |rv t - 1| := by
  show VW (arithmetic.impl_Sub_rf64_for_rTwoFloat.sub t (f64lit 0x3ff0000000000000)) ∧
    |rv (arithmetic.impl_Sub_rf64_for_rTwoFloat.sub t (f64lit 0x3ff0000000000000)) - (rv t - 1)|
      ≤ 1 / 2 ^ 105 * |rv t - 1|
  have hhi : t.hi.toInt.natAbs < 2 ^ 2095 := by
    have h1 := V_abs_le_of_rv bt
    obtain ⟨b1, _⟩ := PowiBound.hi_bounds ht.1
    have h3 : |t.hi.toInt| < (2 : ℤ) ^ 2095 := by
      have e1 : (2 : ℤ) ^ 2095 = 4 * 2 ^ (1074 + 1019) := by norm_num
      rw [e1]
      generalize (2 : ℤ) ^ (1074 + 1019) = T at *
      have : (0 : ℤ) ≤ |t.hi.toInt| := abs_nonneg _
      norm_num at b1 ⊢
      omega
    exact natAbs_lt_of_abs_lt h3
  obtain ⟨hV, hb⟩ := TwoFloat.sub_tf_bound ht.1 ht.2 C01d.one_isVal.1 C01d.one_WF hhi (by
    rw [C01d.one_isVal.2, Int.natAbs_natCast, F64.unit_eq]; norm_num)
  refine ⟨⟨hV, TwoFloat.sub_tf_WF t _⟩, ?_⟩
  generalize arithmetic.impl_Sub_rf64_for_rTwoFloat.sub t (f64lit 0x3ff0000000000000) = R at *
  rw [C01d.one_isVal.2, C01d.unit_int_eq] at hb
  have hq : |(R.V : ℝ) - ((t.V : ℝ) - 2 ^ 1074)| * 2 ^ 105 ≤ |(t.V : ℝ) - 2 ^ 1074| := by exact_mod_cast hb
  unfold rv
  have hU : (0 : ℝ) < 2 ^ 1074 := by positivity
  have e1 : (R.V : ℝ) / 2 ^ 1074 - ((t.V : ℝ) / 2 ^ 1074 - 1) = ((R.V : ℝ) - ((t.V : ℝ) - 2 ^ 1074)) / 2 ^ 1074 := by
    field_simp
  have e2 : (t.V : ℝ) / 2 ^ 1074 - 1 = ((t.V : ℝ) - 2 ^ 1074) / 2 ^ 1074 := by field_simp
  rw [e1, e2, abs_div, abs_div, abs_of_pos hU, ← mul_div_assoc,
    div_le_div_iff_of_pos_right hU, one_div_mul_eq_div, le_div_iff₀ (by positivity)]
  exact hq

/-- real-number core of the outer branch -/
theorem outer_real {a res A α ε : ℝ} (_hA : 0 < A) (ha : |a - A| ≤ α * A) (_hα : 0 ≤ α)
    (hres : |res - (a - 1)| ≤ 1 / 2 ^ 105 * |a - 1|)
    (hc : (1 + 1 / 2 ^ 105) * (α * A) + 1 / 2 ^ 105 * |A - 1| ≤ ε * |A - 1|) :
    |res - (A - 1)| ≤ ε * |A - 1| := by
  have h1 : |a - 1| ≤ |A - 1| + α * A := by
    have := abs_add_le (A - 1) (a - A)
    rw [show A - 1 + (a - A) = a - 1 by ring] at this
    linarith
  have h2 := abs_add_le (res - (a - 1)) (a - A)
  rw [show res - (a - 1) + (a - A) = res - (A - 1) by ring] at h2
  have h3 := mul_le_mul_of_nonneg_left h1 (by positivity : (0 : ℝ) ≤ 1 / 2 ^ 105)
  have e : (1 + 1 / 2 ^ 105) * (α * A) + 1 / 2 ^ 105 * |A - 1| = 1 / 2 ^ 105 * (|A - 1| + α * A) + α * A := by ring
  linarith

/-- the result of the outer branch in terms of the accuracy `α` of `exp` -/
theorem exp_m1_outer_gen (x : TwoFloat) (hv : x.Valid) (hw : x.WF) (hlo : -600 ≤ rv x) (hhi : rv x ≤ 700)
    (hsw : (x.V < (negf consts.LN_2).V ∨ explog.LN_FRAC_3_2.V < x.V)) {α ε : ℝ} (hα : 0 ≤ α)
    (ha : |rv (TwoFloat.exp x) - Real.exp (rv x)| ≤ α * Real.exp (rv x))
    (hc : (1 + 1 / 2 ^ 105) * (α * Real.exp (rv x)) + 1 / 2 ^ 105 * |Real.exp (rv x) - 1|
      ≤ ε * |Real.exp (rv x) - 1|) :
    VW (TwoFloat.exp_m1 x) ∧ |rv (TwoFloat.exp_m1 x) - (Real.exp (rv x) - 1)| ≤ ε * |Real.exp (rv x) - 1| := by
  obtain ⟨evw, e37⟩ := exp_bound_37 x hv hw hlo hhi
  unfold TwoFloat.exp_m1
  rw [if_pos ((exp_m1_switch x hv hw).2 hsw)]
  have hA := Real.exp_pos (rv x)
  have hAle : Real.exp (rv x) ≤ 2 ^ 1011 := by
    have h := (exp_half_range (k := 1400) (by norm_num) (by norm_num)).2
    have e : (((1400 : ℤ)) : ℝ) / 2 = 700 := by norm_num
    rw [e] at h
    exact le_trans (Real.exp_le_exp.2 hhi) h
  have hab : |rv (TwoFloat.exp x)| ≤ 2 ^ 1019 := by
    have := abs_sub_abs_le_abs_sub (rv (TwoFloat.exp x)) (Real.exp (rv x))
    rw [abs_of_pos hA] at this
    have h3 : (37 : ℝ) / 2 ^ 106 * Real.exp (rv x) ≤ Real.exp (rv x) := by
      have : (37 : ℝ) / 2 ^ 106 ≤ 1 := by norm_num
      nlinarith
    have e : (2 : ℝ) ^ 1011 + 2 ^ 1011 ≤ 2 ^ 1019 := by norm_num
    linarith
  obtain ⟨rvw, hr⟩ := sub_one_rv evw hab
  exact ⟨rvw, outer_real hA ha hα hr hc⟩

theorem negLN2_num : 10000 * (negf consts.LN_2).V ≤ -(6931 * 2 ^ 1074) := by decide +kernel
theorem LN32_num : 4054 * (2 : ℤ) ^ 1074 ≤ 10000 * explog.LN_FRAC_3_2.V := by decide +kernel

theorem exp_neg_6931 : Real.exp (-(6931 / 10000)) ≤ 5001 / 10000 := by
  have h := (exp_encl (-(6931 / 10000)) (by norm_num [abs_of_pos]) 14 (by norm_num)).2
  rw [show (((-(6931 / 10000) : ℚ)) : ℝ) = -(6931 / 10000) by norm_num] at h
  refine le_trans h ?_
  have : expSum (-(6931 / 10000)) 14 + expRem (-(6931 / 10000)) 14 ≤ (5001 / 10000 : ℚ) := by decide +kernel
  exact le_trans ((Rat.cast_le (K := ℝ)).2 this) (by norm_num)

theorem exp_4054 : 14999 / 10000 ≤ Real.exp (4054 / 10000) := by
  have h := (exp_encl (4054 / 10000) (by norm_num [abs_of_pos]) 14 (by norm_num)).1
  rw [show (((4054 / 10000 : ℚ)) : ℝ) = 4054 / 10000 by norm_num] at h
  refine le_trans ?_ h
  have : (14999 / 10000 : ℚ) ≤ expSum (4054 / 10000) 14 - expRem (4054 / 10000) 14 := by decide +kernel
  exact le_trans (by norm_num) ((Rat.cast_le (K := ℝ)).2 this)

theorem exp_415 : 15143 / 10000 ≤ Real.exp (415 / 1000) := by
  have h := (exp_encl (415 / 1000) (by norm_num [abs_of_pos]) 14 (by norm_num)).1
  rw [show (((415 / 1000 : ℚ)) : ℝ) = 415 / 1000 by norm_num] at h
  refine le_trans ?_ h
  have : (15143 / 10000 : ℚ) ≤ expSum (415 / 1000) 14 - expRem (415 / 1000) 14 := by decide +kernel
  exact le_trans (by norm_num) ((Rat.cast_le (K := ℝ)).2 this)

/-- from the integer comparison to the real one -/
theorem rv_lt_of_V {x : TwoFloat} {c : ℤ} {n d : ℤ} (hd : 0 < d) (h : x.V < c) (hc : d * c ≤ n * 2 ^ 1074) :
    rv x < (n : ℝ) / (d : ℝ) := by
  unfold rv
  have hU : (0 : ℝ) < 2 ^ 1074 := by positivity
  have hd' : (0 : ℝ) < (d : ℝ) := by exact_mod_cast hd
  rw [div_lt_div_iff₀ hU hd']
  have h1 : d * x.V < d * c := mul_lt_mul_of_pos_left h hd
  have h2 : ((d * x.V : ℤ) : ℝ) < ((n * 2 ^ 1074 : ℤ) : ℝ) := by exact_mod_cast lt_of_lt_of_le h1 hc
  push_cast at h2
  linarith

/-- **Property C14, `exp_m1` below `−ln 2`** (outer branch `exp(x) − 1.0`): relative error at most `40u² < 2^-100`
for `−600 ≤ x < −LN_2` (the property has no lower limit) -/
theorem exp_m1_bound_outer_neg_partial (x : TwoFloat) (hv : x.Valid) (hw : x.WF) (hlo : -600 ≤ val x)
    (hsw : x.V < (negf consts.LN_2).V) :
    (TwoFloat.exp_m1 x).Valid ∧
    |val (TwoFloat.exp_m1 x) - (Real.exp (val x) - 1)| ≤ |Real.exp (val x) - 1| / 2 ^ 100 := by
  have hx : rv x < ((-6931 : ℤ) : ℝ) / ((10000 : ℤ) : ℝ) :=
    rv_lt_of_V (by norm_num) hsw (by have := negLN2_num; linarith)
  have hx' : rv x < -(6931 / 10000) := by
    have e : (((-6931 : ℤ)) : ℝ) / (((10000 : ℤ)) : ℝ) = -(6931 / 10000) := by norm_num
    rw [e] at hx; exact hx
  have hA := Real.exp_pos (rv x)
  have hAle : Real.exp (rv x) ≤ 5001 / 10000 := le_trans (Real.exp_le_exp.2 hx'.le) exp_neg_6931
  have habs : |Real.exp (rv x) - 1| = 1 - Real.exp (rv x) := by
    rw [abs_of_neg (by linarith)]; ring
  obtain ⟨evw, e37⟩ := exp_bound_37 x hv hw hlo (by linarith)
  have core := exp_m1_outer_gen x hv hw hlo (by linarith) (Or.inl hsw) (α := 37 / 2 ^ 106) (ε := 40 / 2 ^ 106)
    (by positivity) e37 (by
      rw [habs]
      have e : (40 : ℝ) / 2 ^ 106 * (1 - Real.exp (rv x))
          - ((1 + 1 / 2 ^ 105) * (37 / 2 ^ 106 * Real.exp (rv x)) + 1 / 2 ^ 105 * (1 - Real.exp (rv x)))
          = 1 / 2 ^ 106 * (38 - (75 + 37 / 2 ^ 105) * Real.exp (rv x)) := by ring
      have h2 : (0 : ℝ) ≤ 38 - (75 + 37 / 2 ^ 105) * Real.exp (rv x) := by
        have : (75 + 37 / 2 ^ 105) * Real.exp (rv x) ≤ (75 + 37 / 2 ^ 105) * (5001 / 10000) :=
          mul_le_mul_of_nonneg_left hAle (by positivity)
        have e2 : ((75 : ℝ) + 37 / 2 ^ 105) * (5001 / 10000) ≤ 38 := by norm_num
        linarith
      have : (0 : ℝ) ≤ 1 / 2 ^ 106 * (38 - (75 + 37 / 2 ^ 105) * Real.exp (rv x)) :=
        mul_nonneg (by positivity) h2
      linarith)
  exact ⟨core.1.1, le_trans core.2 (scale_le (abs_nonneg _) (by norm_num))⟩

/-- real-number core of the upper outer branch: accuracy `α` of `exp`, `e^x ≥ A₀ > 1` -/
theorem outer_pos_cond {A α ε A0 : ℝ} (hA0 : 1 < A0) (hA : A0 ≤ A) (_hα : 0 ≤ α)
    (h : (1 + 1 / 2 ^ 105) * α * A0 + 1 / 2 ^ 105 * (A0 - 1) ≤ ε * (A0 - 1)) (hε : (1 + 1 / 2 ^ 105) * α + 1 / 2 ^ 105 ≤ ε) :
    (1 + 1 / 2 ^ 105) * (α * A) + 1 / 2 ^ 105 * |A - 1| ≤ ε * |A - 1| := by
  rw [abs_of_pos (by linarith : (0 : ℝ) < A - 1)]
  -- linear in A with slope ε − (1+2u²)α − 2u² ≥ 0, true at A₀
  have e : ε * (A - 1) - ((1 + 1 / 2 ^ 105) * (α * A) + 1 / 2 ^ 105 * (A - 1))
      = (ε * (A0 - 1) - ((1 + 1 / 2 ^ 105) * α * A0 + 1 / 2 ^ 105 * (A0 - 1)))
        + (ε - ((1 + 1 / 2 ^ 105) * α + 1 / 2 ^ 105)) * (A - A0) := by ring
  have t1 : 0 ≤ (ε - ((1 + 1 / 2 ^ 105) * α + 1 / 2 ^ 105)) * (A - A0) := mul_nonneg (by linarith) (by linarith)
  linarith

/-- **Property C14, `exp_m1` above `ln 1.5`** (outer branch), `0.415 ≤ x ≤ 700`: relative error at most
`64u² = 2^-100` (from the `21u²` of `exp` on non-negative arguments) -/
theorem exp_m1_bound_outer_pos (x : TwoFloat) (hv : x.Valid) (hw : x.WF) (hlo : 415 / 1000 ≤ val x)
    (hhi : val x ≤ 700) :
    (TwoFloat.exp_m1 x).Valid ∧
    |val (TwoFloat.exp_m1 x) - (Real.exp (val x) - 1)| ≤ |Real.exp (val x) - 1| / 2 ^ 100 := by
  have hU : (0 : ℝ) < 2 ^ 1074 := by positivity
  have hsw : explog.LN_FRAC_3_2.V < x.V := by
    have h1 : explog.LN_FRAC_3_2.V < 3399 * 2 ^ 1061 := by decide +kernel
    have h2 : (415 : ℝ) / 1000 * 2 ^ 1074 ≤ (x.V : ℝ) := by
      have := hlo; change 415 / 1000 ≤ rv x at this; unfold rv at this
      rwa [le_div_iff₀ hU] at this
    have h3 : ((3399 * 2 ^ 1061 : ℤ) : ℝ) ≤ (x.V : ℝ) := by
      push_cast
      have : (3399 : ℝ) * 2 ^ 1061 ≤ 415 / 1000 * 2 ^ 1074 := by
        rw [show (2 : ℝ) ^ 1074 = 2 ^ 1061 * 8192 by norm_num]
        have hp : (0 : ℝ) < 2 ^ 1061 := by positivity
        nlinarith
      linarith
    have h4 : (3399 * 2 ^ 1061 : ℤ) ≤ x.V := by exact_mod_cast h3
    omega
  have hA : 15143 / 10000 ≤ Real.exp (rv x) := le_trans exp_415 (Real.exp_le_exp.2 hlo)
  have e21 := (exp_bound_split x hv hw (by change 415 / 1000 ≤ rv x at hlo; linarith) hhi).2.2
    (by change 415 / 1000 ≤ rv x at hlo; linarith)
  have core := exp_m1_outer_gen x hv hw (by change 415 / 1000 ≤ rv x at hlo; linarith) hhi (Or.inr hsw)
    (α := 21 / 2 ^ 106) (ε := 64 / 2 ^ 106) (by positivity) e21
    (outer_pos_cond (A0 := 15143 / 10000) (by norm_num) hA (by positivity) (by norm_num) (by norm_num))
  refine ⟨core.1.1, le_trans core.2 ?_⟩
  rw [show (64 : ℝ) / 2 ^ 106 = 1 / 2 ^ 100 by norm_num]
  exact le_of_eq (by ring)

/-- **Property C14, `exp_m1` above `ln 1.5`** — the whole upper outer branch `LN_FRAC_3_2 < x ≤ 700`: relative error
at most `2^-100`.  Just above `ln 1.5` (`e^x/(e^x − 1) ≈ 3`) the `21u²` of `exp` would give `65u²`; there
`k = round(2x) = 1` and `exp` is accurate to `12.8u²` (`Exp2Bound.exp_bound_small_k`), which gives `41u²`. -/
theorem exp_m1_bound_outer_pos_full (x : TwoFloat) (hv : x.Valid) (hw : x.WF)
    (hsw : explog.LN_FRAC_3_2.V < x.V) (hhi : val x ≤ 700) :
    (TwoFloat.exp_m1 x).Valid ∧
    |val (TwoFloat.exp_m1 x) - (Real.exp (val x) - 1)| ≤ |Real.exp (val x) - 1| / 2 ^ 100 := by
  have hU : (0 : ℝ) < 2 ^ 1074 := by positivity
  have hx : (4054 : ℝ) / 10000 < rv x := by
    unfold rv
    rw [div_lt_div_iff₀ (by norm_num) hU]
    have h1 : 4054 * (2 : ℤ) ^ 1074 < 10000 * x.V := by have := LN32_num; omega
    have h2 : ((4054 * (2 : ℤ) ^ 1074 : ℤ) : ℝ) < ((10000 * x.V : ℤ) : ℝ) := by exact_mod_cast h1
    push_cast at h2
    linarith
  by_cases h15 : rv x ≤ 15
  · have hA : 14999 / 10000 ≤ Real.exp (rv x) := le_trans exp_4054 (Real.exp_le_exp.2 hx.le)
    obtain ⟨-, e13⟩ := exp_bound_small_k x hv hw (by linarith) (by linarith)
    have core := exp_m1_outer_gen x hv hw (by linarith) hhi (Or.inr hsw)
      (α := 128 / 10 / 2 ^ 106) (ε := 64 / 2 ^ 106) (by positivity) e13
      (outer_pos_cond (A0 := 14999 / 10000) (by norm_num) hA (by positivity) (by norm_num) (by norm_num))
    refine ⟨core.1.1, le_trans core.2 ?_⟩
    rw [show (64 : ℝ) / 2 ^ 106 = 1 / 2 ^ 100 by norm_num]
    exact le_of_eq (by ring)
  · exact exp_m1_bound_outer_pos x hv hw (by show 415 / 1000 ≤ rv x; linarith [not_le.1 h15]) hhi

/-! ### the Taylor branch beyond `2^-8` -/

theorem negLN2_ge : -(7 * 2 ^ 1074) ≤ 10 * (negf consts.LN_2).V := by decide +kernel
theorem LN32_le : 10 * explog.LN_FRAC_3_2.V ≤ 7 * 2 ^ 1074 := by decide +kernel

/-- **Property C14, `exp_m1` on the Taylor branch** (`−LN_2 ≤ x ≤ LN_FRAC_3_2`, `|x| ≥ 2^-9`): relative error at most
`2^-45` (the truncation of the 14-term series dominates: `≈ 2^-47.4` at `|x| = ln 2`) -/
theorem exp_m1_bound_mid (x : TwoFloat) (hv : x.Valid) (hw : x.WF)
    (hsw : ¬ (x.V < (negf consts.LN_2).V ∨ explog.LN_FRAC_3_2.V < x.V)) (hlo : 1 / 2 ^ 9 ≤ |val x|) :
    (TwoFloat.exp_m1 x).Valid ∧
    |val (TwoFloat.exp_m1 x) - (Real.exp (val x) - 1)| ≤ |Real.exp (val x) - 1| / 2 ^ 45 := by
  have hU : (0 : ℝ) < 2 ^ 1074 := by positivity
  change 1 / 2 ^ 9 ≤ |rv x| at hlo
  show (TwoFloat.exp_m1 x).Valid ∧
    |rv (TwoFloat.exp_m1 x) - (Real.exp (rv x) - 1)| ≤ |Real.exp (rv x) - 1| / 2 ^ 45
  have hswi : ¬ (((ROrd.isLt (base.impl_PartialOrd_TwoFloat_for_TwoFloat.partial_cmp x (negf consts.LN_2))) ||
      (ROrd.isGt (base.impl_PartialOrd_TwoFloat_for_TwoFloat.partial_cmp x explog.LN_FRAC_3_2))) = true) := by
    rw [exp_m1_switch x hv hw]; exact hsw
  -- |x| ≤ 0.7
  have hx7 : |rv x| ≤ 7 / 10 := by
    have h1 : -(7 * 2 ^ 1074) ≤ 10 * x.V := by have := negLN2_ge; omega
    have h2 : 10 * x.V ≤ 7 * 2 ^ 1074 := by have := LN32_le; omega
    have h1' : -((7 : ℝ) * 2 ^ 1074) ≤ 10 * (x.V : ℝ) := by exact_mod_cast h1
    have h2' : 10 * (x.V : ℝ) ≤ 7 * 2 ^ 1074 := by exact_mod_cast h2
    unfold rv
    rw [abs_le]
    constructor
    · rw [le_div_iff₀ hU]; linarith
    · rw [div_le_iff₀ hU]; linarith
  unfold TwoFloat.exp_m1
  rw [if_neg hswi]
  dsimp only
  rw [polyFold_eq]
  obtain ⟨avw, harv⟩ := abs_rv' ⟨hv, hw⟩
  obtain ⟨c1, c2, -⟩ := abs_cases hv
  have e45 : ∀ E : ℝ, 0 ≤ E → (1 / 2 ^ 45 : ℝ) * E = E / 2 ^ 45 := fun E _ => by ring
  rcases lt_trichotomy x.V 0 with hneg | hzero | hpos
  · -- x < 0
    rw [if_pos ((lt_zero_switch x hv).2 hneg)]
    have hxneg : rv x < 0 := div_neg_of_neg_of_pos (by exact_mod_cast hneg) hU
    have hxabs : |rv x| = -rv x := abs_of_neg hxneg
    set t := rv (TwoFloat.abs x) with htdef
    have ht : t = -rv x := by rw [harv, hxabs]
    have ht0 : 0 < t := by rw [ht]; linarith
    have ht7 : t ≤ 7 / 10 := by rw [ht, ← hxabs]; exact hx7
    have hlo' : 1 / 2 ^ 9 ≤ t := by rw [ht, ← hxabs]; exact hlo
    obtain ⟨wvw, hw1⟩ := expm1_kernel_wide avw ⟨hv, hw⟩ (by rw [hxabs, ← ht]) ht7 hlo'
    generalize arithmetic.impl_Mul_TwoFloat_for_TwoFloat.mul x (arithmetic.impl_Add_f64_for_TwoFloat.add
      (arithmetic.impl_Mul_TwoFloat_for_TwoFloat.mul (TwoFloat.abs x) (hp (TwoFloat.abs x) 12))
      (f64lit 0x3ff0000000000000)) = w at *
    rw [← htdef] at hw1
    obtain ⟨tay, tge⟩ := taylor_wide ht0 ht7
    set A := Real.exp t - 1 with hA
    have hA0 : 0 < A := by linarith
    have hwA : |(-rv w) - A| ≤ 1 / 2 ^ 46 * A := by
      have e : rv x * (t * PR t 12 + 1) = -(t * (t * PR t 12 + 1)) := by rw [ht]; ring
      rw [e, hxabs, ← ht] at hw1
      have h1 := abs_add_le (-(rv w - -(t * (t * PR t 12 + 1)))) (t * (t * PR t 12 + 1) - A)
      rw [abs_neg, show -(rv w - -(t * (t * PR t 12 + 1))) + (t * (t * PR t 12 + 1) - A) = -rv w - A by ring] at h1
      have h2 : (42 : ℝ) / 2 ^ 106 * t ≤ 42 / 2 ^ 106 * A := mul_le_mul_of_nonneg_left tge (by positivity)
      have e2 : (42 : ℝ) / 2 ^ 106 * A + 1 / 2 ^ 47 * A ≤ 1 / 2 ^ 46 * A := by
        rw [← add_mul]; exact mul_le_mul_of_nonneg_right (by norm_num) hA0.le
      linarith
    obtain ⟨Evw, hE⟩ := exp_bound_37 x hv hw (by linarith [(abs_le.1 hx7).1]) (by linarith)
    have hB0 := Real.exp_pos (rv x)
    have hBr : 3 / 10 ≤ Real.exp (rv x) ∧ Real.exp (rv x) ≤ 1 := by
      constructor
      · have := Real.add_one_le_exp (rv x); linarith [(abs_le.1 hx7).1]
      · rw [← Real.exp_zero]; exact Real.exp_le_exp.2 hxneg.le
    have hAle : A ≤ 2 * t := by
      have := Real.abs_exp_sub_one_le (x := t) (by rw [abs_of_pos ht0]; linarith)
      rw [abs_of_pos ht0] at this
      exact (abs_le.1 this).2
    have hwabs : 99 / 100 * A ≤ |rv w| ∧ |rv w| ≤ 101 / 100 * A := by
      have h3 := abs_sub_abs_le_abs_sub (-rv w) A
      have h4 := abs_sub_abs_le_abs_sub A (-rv w)
      rw [abs_sub_comm A] at h4
      rw [abs_neg, abs_of_pos hA0] at h3 h4
      have : (1 : ℝ) / 2 ^ 46 * A ≤ 1 / 100 * A := mul_le_mul_of_nonneg_right (by norm_num) hA0.le
      constructor <;> linarith
    have hEabs : 29 / 100 ≤ |rv (TwoFloat.exp x)| ∧ |rv (TwoFloat.exp x)| ≤ 101 / 100 := by
      have h3 := abs_sub_abs_le_abs_sub (rv (TwoFloat.exp x)) (Real.exp (rv x))
      have h4 := abs_sub_abs_le_abs_sub (Real.exp (rv x)) (rv (TwoFloat.exp x))
      rw [abs_sub_comm (Real.exp (rv x))] at h4
      rw [abs_of_pos hB0] at h3 h4
      have : (37 : ℝ) / 2 ^ 106 * Real.exp (rv x) ≤ 1 / 100 := by
        have : (37 : ℝ) / 2 ^ 106 ≤ 1 / 100 := by norm_num
        nlinarith [hBr.2]
      constructor <;> linarith [hBr.1, hBr.2]
    have hp1 : |rv w * rv (TwoFloat.exp x)| ≤ 2 ^ 1019 := by
      rw [abs_mul]
      calc |rv w| * |rv (TwoFloat.exp x)| ≤ (101 / 100 * A) * (101 / 100) :=
            mul_le_mul hwabs.2 hEabs.2 (abs_nonneg _) (by positivity)
        _ ≤ (101 / 100 * (2 * (7 / 10))) * (101 / 100) := by
            apply mul_le_mul_of_nonneg_right _ (by norm_num)
            apply mul_le_mul_of_nonneg_left _ (by norm_num)
            linarith
        _ ≤ 2 ^ 1019 := by norm_num
    have hp0 : 1 / 2 ^ 957 ≤ |rv w * rv (TwoFloat.exp x)| := by
      rw [abs_mul]
      calc (1 : ℝ) / 2 ^ 957 ≤ (99 / 100 * (1 / 2 ^ 9)) * (29 / 100) := by norm_num
        _ ≤ (99 / 100 * A) * (29 / 100) := by
            apply mul_le_mul_of_nonneg_right _ (by norm_num)
            apply mul_le_mul_of_nonneg_left _ (by norm_num)
            linarith
        _ ≤ |rv w| * |rv (TwoFloat.exp x)| := mul_le_mul hwabs.1 hEabs.1 (by norm_num) (abs_nonneg _)
    obtain ⟨resvw, hres⟩ := mul_rv_rel wvw Evw hp0 hp1
    refine ⟨resvw.1, ?_⟩
    generalize rv (arithmetic.impl_Mul_TwoFloat_for_TwoFloat.mul w (TwoFloat.exp x)) = res at *
    have hres' : |(-res) - (-rv w) * rv (TwoFloat.exp x)| ≤ 7 / 2 ^ 106 * |(-rv w) * rv (TwoFloat.exp x)| := by
      rw [show -res - -rv w * rv (TwoFloat.exp x) = -(res - rv w * rv (TwoFloat.exp x)) by ring, abs_neg,
        neg_mul, abs_neg]
      exact hres
    have core := prod_rel_gen hA0 hB0 hwA hE hres' (by positivity) (by positivity) (ε := 1 / 2 ^ 45) (by norm_num)
    have eAB : A * Real.exp (rv x) = -(Real.exp (rv x) - 1) := by
      have : Real.exp t * Real.exp (rv x) = 1 := by rw [← Real.exp_add, ht]; simp
      rw [hA, sub_mul, this]; ring
    rw [eAB] at core
    rw [show -res - -(Real.exp (rv x) - 1) = -(res - (Real.exp (rv x) - 1)) by ring, abs_neg] at core
    have hneg1 : Real.exp (rv x) - 1 < 0 := by
      have : Real.exp (rv x) < 1 := by rw [← Real.exp_zero]; exact Real.exp_lt_exp.2 hxneg
      linarith
    rw [abs_of_neg hneg1, ← e45 _ (by linarith)]
    exact core
  · exfalso
    have hx0 : rv x = 0 := by unfold rv; rw [hzero]; simp
    rw [hx0, abs_zero] at hlo
    have : (0 : ℝ) < 1 / 2 ^ 9 := by positivity
    linarith
  · have hnl : ¬ ROrd.isLt (base.impl_PartialOrd_f64_for_TwoFloat.partial_cmp x (f64lit 0x0000000000000000)) = true := by
      rw [lt_zero_switch x hv]; omega
    rw [if_neg hnl, c1 hpos]
    have hxpos : 0 < rv x := div_pos (by exact_mod_cast hpos) hU
    have hxabs : |rv x| = rv x := abs_of_pos hxpos
    rw [hxabs] at hlo hx7
    obtain ⟨wvw, hw1⟩ := expm1_kernel_wide ⟨hv, hw⟩ ⟨hv, hw⟩ hxabs hx7 hlo
    refine ⟨wvw.1, ?_⟩
    obtain ⟨tay, tge⟩ := taylor_wide hxpos hx7
    generalize rv (arithmetic.impl_Mul_TwoFloat_for_TwoFloat.mul x (arithmetic.impl_Add_f64_for_TwoFloat.add
      (arithmetic.impl_Mul_TwoFloat_for_TwoFloat.mul x (hp x 12)) (f64lit 0x3ff0000000000000))) = w at *
    rw [hxabs] at hw1
    have hA0 : 0 < Real.exp (rv x) - 1 := by linarith
    rw [abs_of_pos hA0, ← e45 _ hA0.le]
    have h1 := abs_add_le (w - rv x * (rv x * PR (rv x) 12 + 1)) (rv x * (rv x * PR (rv x) 12 + 1) - (Real.exp (rv x) - 1))
    rw [show w - rv x * (rv x * PR (rv x) 12 + 1) + (rv x * (rv x * PR (rv x) 12 + 1) - (Real.exp (rv x) - 1))
      = w - (Real.exp (rv x) - 1) by ring] at h1
    have h2 : (42 : ℝ) / 2 ^ 106 * rv x ≤ 42 / 2 ^ 106 * (Real.exp (rv x) - 1) :=
      mul_le_mul_of_nonneg_left tge (by positivity)
    have h3 : (42 : ℝ) / 2 ^ 106 * (Real.exp (rv x) - 1) + 1 / 2 ^ 47 * (Real.exp (rv x) - 1)
        ≤ 1 / 2 ^ 45 * (Real.exp (rv x) - 1) := by
      rw [← add_mul]; exact mul_le_mul_of_nonneg_right (by norm_num) hA0.le
    linarith

/-! ### the clause of the property, assembled -/

theorem negLN2_gt : -(7 * 2 ^ 1074) < 10 * (negf consts.LN_2).V := by decide +kernel
theorem LN32_lt : 100 * explog.LN_FRAC_3_2.V < 41 * 2 ^ 1074 := by decide +kernel

theorem pow_le_scale {E : ℝ} (hE : 0 ≤ E) : E / 2 ^ 100 ≤ E / 2 ^ 45 :=
  div_le_div_of_nonneg_left hE (by positivity) (pow_le_pow_right₀ (by norm_num) (by norm_num))

/-- **Property C14, accuracy of `exp_m1`** — PARTIAL only in the range: for a valid `x` with `−600 ≤ x ≤ 700` and
(`x = 0` or `|x| ≥ 2^-950`) [TARGET: no lower limit, and `|x| ≥ 2^-1000`], `exp_m1(x)` is a valid pair within relative
`2^-100` of `e^x − 1` when `|x| ≤ 2^-8` or `x` lies outside `[−0.70, 0.41]`, and within `2^-45` in every case. -/
theorem exp_m1_bound_partial (x : TwoFloat) (hv : x.Valid) (hw : x.WF) (hlo : -600 ≤ val x) (hhi : val x ≤ 700)
    (h0 : val x = 0 ∨ 1 / 2 ^ 950 ≤ |val x|) :
    (TwoFloat.exp_m1 x).Valid ∧
    ((|val x| ≤ 1 / 2 ^ 8 ∨ val x ≤ -(7 / 10) ∨ 41 / 100 ≤ val x) →
      |val (TwoFloat.exp_m1 x) - (Real.exp (val x) - 1)| ≤ |Real.exp (val x) - 1| / 2 ^ 100) ∧
    |val (TwoFloat.exp_m1 x) - (Real.exp (val x) - 1)| ≤ |Real.exp (val x) - 1| / 2 ^ 45 := by
  have hU : (0 : ℝ) < 2 ^ 1074 := by positivity
  have hval : val x = (x.V : ℝ) / 2 ^ 1074 := rfl
  by_cases hsw : (x.V < (negf consts.LN_2).V ∨ explog.LN_FRAC_3_2.V < x.V)
  · -- the outer branch: 2^-100 throughout
    have key : (TwoFloat.exp_m1 x).Valid ∧
        |val (TwoFloat.exp_m1 x) - (Real.exp (val x) - 1)| ≤ |Real.exp (val x) - 1| / 2 ^ 100 := by
      rcases hsw with h | h
      · exact exp_m1_bound_outer_neg_partial x hv hw hlo h
      · exact exp_m1_bound_outer_pos_full x hv hw h hhi
    exact ⟨key.1, fun _ => key.2, le_trans key.2 (pow_le_scale (abs_nonneg _))⟩
  · -- the Taylor branch
    by_cases h8 : |val x| ≤ 1 / 2 ^ 8
    · have key := exp_m1_bound_small_partial x hv hw h8 h0
      exact ⟨key.1, fun _ => key.2, le_trans key.2 (pow_le_scale (abs_nonneg _))⟩
    · have h9 : 1 / 2 ^ 9 ≤ |val x| := by
        have : (1 : ℝ) / 2 ^ 9 ≤ 1 / 2 ^ 8 := by norm_num
        linarith [not_le.1 h8]
      have key := exp_m1_bound_mid x hv hw hsw h9
      refine ⟨key.1, ?_, key.2⟩
      intro hc
      exfalso
      rcases hc with hc | hc | hc
      · exact h8 hc
      · -- x ≤ −0.7 < −LN_2
        apply hsw; left
        have h1 : (x.V : ℝ) ≤ -(7 / 10) * 2 ^ 1074 := by
          rw [hval, div_le_iff₀ hU] at hc; exact hc
        have h2 : 10 * x.V ≤ -(7 * 2 ^ 1074) := by
          have : ((10 * x.V : ℤ) : ℝ) ≤ ((-(7 * 2 ^ 1074) : ℤ) : ℝ) := by push_cast; linarith
          exact_mod_cast this
        have := negLN2_gt
        omega
      · -- x ≥ 0.41 > LN_FRAC_3_2
        apply hsw; right
        have h1 : (41 / 100 : ℝ) * 2 ^ 1074 ≤ (x.V : ℝ) := by
          rw [hval, le_div_iff₀ hU] at hc; exact hc
        have h2 : 41 * 2 ^ 1074 ≤ 100 * x.V := by
          have : ((41 * 2 ^ 1074 : ℤ) : ℝ) ≤ ((100 * x.V : ℤ) : ℝ) := by push_cast; linarith
          exact_mod_cast this
        have := LN32_lt
        omega

/-! ## examples -/

/-- the double-double `(c, 0)` -/
def ofF (c : F64) : TwoFloat := ⟨c, F64.zero⟩

theorem val_of_V {t : TwoFloat} {n : ℤ} (h : t.V = n) : val t = (n : ℝ) / 2 ^ 1074 := by
  show ExpBound.rv t = _
  unfold ExpBound.rv; rw [h]

/-- `exp2(1/2) ≈ √2` to `2^-93` -/
example : |val (TwoFloat.exp2 (ofF (f64lit 0x3fe0000000000000))) - (2 : ℝ) ^ ((1 : ℝ) / 2)|
    ≤ (2 : ℝ) ^ ((1 : ℝ) / 2) / 2 ^ 93 := by
  have hval : val (ofF (f64lit 0x3fe0000000000000)) = 1 / 2 := by
    rw [val_of_V (show (ofF (f64lit 0x3fe0000000000000)).V = 2 ^ 1073 by decide +kernel)]
    simp only [Int.cast_pow, Int.cast_ofNat]
    rw [div_eq_div_iff (by positivity) (by norm_num)]
    norm_num
  have h := (exp2_bound (ofF (f64lit 0x3fe0000000000000)) (by decide +kernel) ⟨by decide +kernel, by decide +kernel⟩
    (by rw [hval]; norm_num) (by rw [hval]; norm_num)).2
  rwa [hval] at h

/-- `exp_m1(2^-20) ≈ e^(2^-20) − 1` to `2^-100` -/
example : |val (TwoFloat.exp_m1 (ofF (f64lit 0x3eb0000000000000))) - (Real.exp (1 / 2 ^ 20) - 1)|
    ≤ |Real.exp (1 / 2 ^ 20) - 1| / 2 ^ 100 := by
  have hval : val (ofF (f64lit 0x3eb0000000000000)) = 1 / 2 ^ 20 := by
    rw [val_of_V (show (ofF (f64lit 0x3eb0000000000000)).V = 2 ^ 1054 by decide +kernel)]
    simp only [Int.cast_pow, Int.cast_ofNat]
    rw [div_eq_div_iff (by positivity) (by positivity), one_mul, ← pow_add]
  have hpos : (0 : ℝ) < 1 / 2 ^ 20 := by positivity
  have h := (exp_m1_bound_small_partial (ofF (f64lit 0x3eb0000000000000)) (by decide +kernel)
    ⟨by decide +kernel, by decide +kernel⟩
    (by rw [hval, abs_of_pos hpos]; apply one_div_le_one_div_of_le (by positivity)
        exact pow_le_pow_right₀ (by norm_num) (by norm_num))
    (Or.inr (by rw [hval, abs_of_pos hpos]; apply one_div_le_one_div_of_le (by positivity)
                exact pow_le_pow_right₀ (by norm_num) (by norm_num)))).2
  rwa [hval] at h

end C14f
